/-
  Executable model of scico's *derived* functionals (property C08, and the wrapper part of C09):
  the constructor tree built by `c * f`, `f + g`, `SeparableFunctional`, `Loss(y, A, f, scale)`,
  `SquaredL2Loss`, `c * loss`, `loss / c`, together with `__call__`, `prox`, `conj_prox`
  and the capability flags `has_eval` / `has_prox`, as the code computes them.  Mathlib-free.

  Source map
    scico/functional/_functional.py
      Functional.__mul__/__rmul__, ScaledFunctional.__mul__, Loss.__mul__  -> `Fn.mul`
      Loss.__truediv__ (Functional has none)                                -> `Fn.div`
      ScaledFunctional.__init__/__call__/prox                               -> `Fn.scaled`, `eval`, `prox`
      SeparableFunctional.__init__/__call__/prox                            -> `Fn.snil/scons` (`Fn.sep`), `eval`, `prox`
      FunctionalSum.__init__/__call__ (no prox: base class raises)          -> `Fn.sum`
      Functional.__call__/prox (base: NotImplementedError)                  -> leaves with a false flag
      Functional.conj_prox                                                  -> `conjProx`
    scico/loss.py
      Loss.__init__/__call__/prox                                           -> `Fn.loss`, `Fn.lossNone`
      SquaredL2Loss.__init__/__call__/prox (Diagonal branch)                -> `Fn.sqL2`, `sqL2DiagProx`
      SquaredL2Loss.prox (CG branch): system handed to `cg`                 -> `sqL2Lhs`, `sqL2Rhs`, `sqL2Residual`

  Flags: `hasEval/hasProx` transcribe the constructors of the current tree (after the repairs
  1a0aadd "Loss capability flags ignored the wrapped functional" and 689de28 "ScaledFunctional
  advertised a proximal operator for non-positive scale factors"); the rule of the tree before
  those repairs is kept in `Scico/Proofs/ProxCalc.lean` (`hasEvalOld/hasProxOld`) with its
  counterexamples.

  Leaves are abstract: a leaf `i` is a base functional whose evaluation / prox / flags are
  supplied by an environment `Env`; the base class contract "a functional without the
  operation raises NotImplementedError" is part of the model (`eval`/`prox` consult the
  environment only when the leaf's flag is set).
-/
import Scico.Model.FuncEval

namespace Scico.ProxCalc
open Scico Scico.FuncEval

/-- how the real code rejects -/
inductive Err where
  | notimpl   -- NotImplementedError
  | value     -- ValueError (block count mismatch)
  | shape     -- operands of different shapes
  | type      -- TypeError
  deriving Repr, DecidableEq, Inhabited

def Err.kind : Err → String
  | .notimpl => "notimpl" | .value => "value" | .shape => "shape" | .type => "type"

/-- forward operator of a `SquaredL2Loss` -/
inductive OpK (α : Type) where
  | ident                     -- `linop.Identity` (default)
  | diag (d : List α)         -- `linop.Diagonal` / `ScaledIdentity` (entries, interleaved when complex)
  | lin (id : Nat)            -- any other `LinearOperator` (evaluation supplied by the environment)
  | nonlin (id : Nat)         -- a non-linear `Operator`
  deriving Inhabited

/-- the constructor tree of derived functionals -/
inductive Fn (α : Type) where
  | leaf (id : Nat)
  | scaled (c : α) (f : Fn α)
  | sum (f g : Fn α)
  | snil
  | scons (f : Fn α) (rest : Fn α)
  | lossNone (y : Arg α) (A : Option Nat) (scale : α)            -- `Loss(y, A, f=None, scale)`
  | loss (y : Arg α) (A : Option Nat) (f : Fn α) (scale : α)     -- `Loss(y, A, f, scale)`; `A = none` ⇒ Identity
  | sqL2 (y : Arg α) (A : OpK α) (w : Option (List α)) (scale : α)
  deriving Inhabited

/-- `SeparableFunctional([f₁, …, f_k])`.  Its documented argument is a `BlockArray` with `k`
    blocks.  The code compares `len(x.shape)` with `k`: for a *plain* array that is the number of
    dimensions, so a plain array is rejected with `ValueError` unless `ndim = k`, in which case the
    code iterates over the leading axis: modelled separately with the shape as an argument
    (`evalSepPlain` / `proxSepPlain` below; `Arg.arr` itself carries no `ndim`, so `eval`/`prox` on `.arr`
    give the `ValueError` of the common case). -/
def Fn.sep {α} : List (Fn α) → Fn α
  | [] => .snil
  | f :: fs => .scons f (Fn.sep fs)

/-- base functionals and opaque operators -/
structure Env (α : Type) where
  hasEval : Nat → Bool
  hasProx : Nat → Bool
  eval : Nat → Arg α → α
  prox : Nat → Arg α → α → Arg α
  /-- evaluation of the opaque operator `id` (for `Loss(A=…)`, `SquaredL2Loss(A=lin/nonlin)`) -/
  opEval : Nat → Arg α → Arg α
  /-- whatever the CG solver returns for `SquaredL2Loss.prox` with a non-diagonal `A` -/
  solve : Nat → (y : Arg α) → (w : Option (List α)) → (c : α) → (v : Arg α) → Arg α
  /-- data are complex (interleaved) -/
  cplx : Bool

section
variable {α : Type} [Add α] [Sub α] [Mul α] [Div α] [Neg α] [Zero α] [One α] [LT α] [DecidableLT α]

/-! ### flags -/

/-- `has_eval` as the constructors compute it:
    `ScaledFunctional`: the wrapped flag; `FunctionalSum`/`SeparableFunctional`: conjunction;
    `Loss`: `bool(f.has_eval)` when `f` is given, otherwise whether `__call__` is overridden
    (`False` for the generic `Loss`, `True` for `SquaredL2Loss`) -/
def hasEval (E : Env α) : Fn α → Bool
  | .leaf i => E.hasEval i
  | .scaled _ f => hasEval E f
  | .sum f g => hasEval E f && hasEval E g
  | .snil => true
  | .scons f r => hasEval E f && hasEval E r
  | .lossNone _ _ _ => false
  | .loss _ _ f _ => hasEval E f
  | .sqL2 _ _ _ _ => true

/-- `has_prox` as the constructors compute it:
    `ScaledFunctional`: the wrapped flag, cleared unless the scale is a positive real;
    `FunctionalSum`: `False`; `SeparableFunctional`: conjunction;
    `Loss`: `f is not None and f.has_prox and isinstance(A, Identity)`;
    `SquaredL2Loss`: `isinstance(A, LinearOperator)` -/
def hasProx (E : Env α) : Fn α → Bool
  | .leaf i => E.hasProx i
  | .scaled c f => hasProx E f && decide (0 < c)
  | .sum _ _ => false
  | .snil => true
  | .scons f r => hasProx E f && hasProx E r
  | .lossNone _ _ _ => false
  | .loss _ A f _ => A.isNone && hasProx E f
  | .sqL2 _ A _ _ => match A with
    | .nonlin _ => false
    | _ => true

/-! ### flags of the loss classes of `scico.loss` -/

/-- the concrete loss classes -/
inductive LossCls where
  | generic        -- `Loss(y, A, f)` (flags: `hasEval`/`hasProx` of `Fn.loss` / `Fn.lossNone`)
  | sqL2           -- `SquaredL2Loss`
  | sqL2Abs        -- `SquaredL2AbsLoss`
  | sqL2SqAbs      -- `SquaredL2SquaredAbsLoss`
  | poisson        -- `PoissonLoss`
  deriving DecidableEq, Repr

/-- class of the forward operator as the constructors test it (`isinstance`): `Identity ⊂ ScaledIdentity ⊂ Diagonal ⊂
    LinearOperator ⊂ Operator` -/
inductive OpCls where
  | identity | scaledIdentity | diagonal | linear | nonlinear
  deriving DecidableEq, Repr

/-- `(has_eval, has_prox)` of the derived loss classes (`f = None`): every class overrides `__call__`;
    `SquaredL2Loss`: `isinstance(A, LinearOperator)`; the two absolute-value losses:
    `isinstance(A, Identity) and all(y >= 0)`; `PoissonLoss` has no prox -/
def lossClsFlags (c : LossCls) (A : OpCls) (yNonneg : Bool) : Bool × Bool :=
  match c with
  | .generic => (false, false)          -- `Loss(y, A)` with `f = None` (`Fn.lossNone`)
  | .sqL2 => (true, A != .nonlinear)
  | .sqL2Abs => (true, A == .identity && yNonneg)
  | .sqL2SqAbs => (true, A == .identity && yNonneg)
  | .poisson => (true, false)

/-! ### kinds of scale factors -/

/-- what `ScaledFunctional.__init__` can be handed as `scale` -/
inductive ScaleKind where
  | posReal          -- a real number `> 0`
  | nonposReal       -- a real number `≤ 0`
  | complex          -- an object of complex dtype (also `2+0j`): `snp.isrealobj` is `False`
  | tracedReal       -- a real jax tracer (inside `jit`/`grad`): `bool(scale > 0)` raises, the `except` keeps the flag
  | tracedComplex    -- a complex tracer: `isrealobj` is `False` before any comparison is attempted
  deriving DecidableEq, Repr

/-- `ScaledFunctional.has_prox` as a function of the wrapped flag and the kind of scale:
    `try: if not (isrealobj(scale) and bool(scale > 0)): has_prox = False  except: pass` -/
def scaledHasProxOf (inner : Bool) : ScaleKind → Bool
  | .posReal => inner
  | .tracedReal => inner
  | _ => false

/-! ### `c * f`, `f * c`, `f / c` -/

/-- `Functional.__mul__` / `__rmul__` with the overrides of `ScaledFunctional` and `Loss` -/
def Fn.mul (t : Fn α) (c : α) : Fn α :=
  match t with
  | .scaled s f => .scaled (c * s) f               -- `ScaledFunctional(self.functional, other * self.scale)`
  | .lossNone y A s => .lossNone y A (s * c)       -- `new_loss.set_scale(self.scale * other)`
  | .loss y A f s => .loss y A f (s * c)
  | .sqL2 y A w s => .sqL2 y A w (s * c)
  | t => .scaled c t

/-- `Loss.__truediv__`; other functionals have no division (`TypeError`) -/
def Fn.div (t : Fn α) (c : α) : Except Err (Fn α) :=
  match t with
  | .lossNone y A s => .ok (.lossNone y A (s / c))
  | .loss y A f s => .ok (.loss y A f (s / c))
  | .sqL2 y A w s => .ok (.sqL2 y A w (s / c))
  | _ => .error .type

/-- `Loss.set_scale(c)` (in-place update of the scale attribute; other functionals have no such method) -/
def Fn.setScale (t : Fn α) (c : α) : Except Err (Fn α) :=
  match t with
  | .lossNone y A _ => .ok (.lossNone y A c)
  | .loss y A f _ => .ok (.loss y A f c)
  | .sqL2 y A w _ => .ok (.sqL2 y A w c)
  | _ => .error .type

/-! ### array arithmetic on arguments (same shapes required) -/

def zipSame (op : α → α → α) (a b : List α) : Except Err (List α) :=
  if a.length = b.length then .ok (List.zipWith op a b) else .error .shape

def zipBlocks (op : α → α → α) : List (List α) → List (List α) → Except Err (List (List α))
  | [], [] => .ok []
  | a :: as, b :: bs => do
    let h ← zipSame op a b
    let t ← zipBlocks op as bs
    pure (h :: t)
  | _, _ => .error .shape

def Arg.zip (op : α → α → α) : Arg α → Arg α → Except Err (Arg α)
  | .arr a, .arr b => (zipSame op a b).map .arr
  | .blk a, .blk b => (zipBlocks op a b).map .blk
  | _, _ => .error .shape

def Arg.map (g : α → α) : Arg α → Arg α
  | .arr a => .arr (a.map g)
  | .blk a => .blk (a.map (·.map g))

def Arg.sub (a b : Arg α) : Except Err (Arg α) := Arg.zip (· - ·) a b
def Arg.add (a b : Arg α) : Except Err (Arg α) := Arg.zip (· + ·) a b
def Arg.smul (c : α) (a : Arg α) : Arg α := Arg.map (c * ·) a

/-! ### `SquaredL2Loss` -/

/-- complex multiplication / conjugation on interleaved lists -/
def cmulL : List α → List α → List α
  | a :: b :: r, c :: d :: s => (a * c - b * d) :: (a * d + b * c) :: cmulL r s
  | _, _ => []

def cconjL : List α → List α
  | a :: b :: r => a :: (-b) :: cconjL r
  | _ => []

/-- multiply by a real list (entry `i` scales the pair `i` when complex) -/
def rmulLc : List α → List α → List α
  | w :: ws, a :: b :: r => (w * a) :: (w * b) :: rmulLc ws r
  | _, _ => []

def rmulL (cplx : Bool) (w v : List α) : List α :=
  if cplx then rmulLc w v else List.zipWith (· * ·) w v

/-- entrywise product `a * b` of two arrays of the same dtype -/
def emul (cplx : Bool) (a b : List α) : List α := if cplx then cmulL a b else List.zipWith (· * ·) a b

def econj (cplx : Bool) (a : List α) : List α := if cplx then cconjL a else a

/-- entrywise division by a *real* array (`ATWA + 1` is real: see `sqL2DiagProx`) -/
def edivRc : List α → List α → List α
  | a :: b :: r, q :: qs => (a / q) :: (b / q) :: edivRc r qs
  | _, _ => []

def edivR (cplx : Bool) (a q : List α) : List α :=
  if cplx then edivRc a q else List.zipWith (· / ·) a q

/-- number of array entries a data list stands for -/
def nEntries (cplx : Bool) (v : List α) : Nat := if cplx then v.length / 2 else v.length

def onesL (n : Nat) : List α := List.replicate n 1

/-- the diagonal of the forward operator for the closed-form branch -/
def diagOf (cplx : Bool) (n : Nat) : OpK α → Option (List α)
  | .ident => some (if cplx then (List.replicate n [1, 0]).flatten else onesL n)
  | .diag d => some d
  | _ => none

/-- cut a flat list into consecutive pieces of the given lengths (inverse of `flatten`) -/
def splitLike {β : Type} : List β → List Nat → List (List β)
  | _, [] => []
  | l, n :: ns => l.take n :: splitLike (l.drop n) ns

/-- `SquaredL2Loss.prox`, `isinstance(A, Diagonal)` branch:
      c = 2·scale·lam;  lhs = c·conj(A)·W·y + v;  ATWA = c·conj(A)·W·A;  return lhs / (ATWA + 1).
    `ATWA + 1` is real-valued (`conj(a) a = |a|²`); its real part is `c·w·|a|² + 1`. -/
def sqL2DiagProx (cplx : Bool) (scale lam : α) (w : Option (List α)) (a y v : List α) : List α :=
  let c := (1 + 1) * scale * lam
  let n := nEntries cplx v
  let wv := w.getD (onesL n)
  let lhs := List.zipWith (· + ·) ((emul cplx (econj cplx a) (rmulL cplx wv y)).map (c * ·)) v
  let den := (List.zipWith (· * ·) wv (sqmags cplx a)).map (fun s => c * s + 1)
  edivR cplx lhs den

/-- left-hand side `(I + lam·(2·scale·Aᴴ W A)) x` of the system handed to `cg`, given the
    operator's action through `ahwa x = Aᴴ W A x` -/
def sqL2Lhs (scale lam : α) (ahwa : List α → List α) (x : List α) : List α :=
  List.zipWith (· + ·) x ((ahwa x).map (fun t => lam * ((1 + 1) * scale * t)))

/-- right-hand side `v + 2·lam·scale·Aᴴ W y`, given `ahwy = Aᴴ W y` -/
def sqL2Rhs (scale lam : α) (ahwy v : List α) : List α :=
  List.zipWith (· + ·) v (ahwy.map (fun t => (1 + 1) * lam * scale * t))

/-- dense real matrix (rows) times vector -/
def matVec (M : List (List α)) (x : List α) : List α :=
  M.map (fun row => (List.zipWith (· * ·) row x).sum)

def transpose (M : List (List α)) (ncols : Nat) : List (List α) :=
  (List.range ncols).map (fun j => M.map (fun row => row.getD j 0))

/-- residual `lhs x − rhs` of the documented system for a dense real `A` (complex data are
    sent as the real `2m×2n` representation of `A`, whose transpose represents `Aᴴ`) -/
def sqL2Residual (scale lam : α) (A : List (List α)) (ncols : Nat) (w : List α) (y v x : List α) :
    List α :=
  let At := transpose A ncols
  let ahwa := fun z => matVec At (List.zipWith (· * ·) w (matVec A z))
  let ahwy := matVec At (List.zipWith (· * ·) w y)
  List.zipWith (· - ·) (sqL2Lhs scale lam ahwa x) (sqL2Rhs scale lam ahwy v)

/-- the weights as `W.diagonal * (…)` uses them on data with `n` entries: a diagonal of `n` entries as it is,
    a diagonal with a single entry broadcast to all entries, anything else is a broadcasting `TypeError`
    (raised by `__call__` / `prox`, not by the constructor) -/
def wNormalize (w : Option (List α)) (n : Nat) : Except Err (Option (List α)) :=
  match w with
  | none => .ok none
  | some l =>
    if l.length = n then .ok (some l)
    else match l with
      | [a] => .ok (some (List.replicate n a))
      | _ => .error .type

/-! ### evaluation and prox of a tree -/

variable [HasSqrt α]

/-- `A(x)` for the forward operator of a generic `Loss` (`none` = Identity) -/
def Env.applyOpt (E : Env α) (A : Option Nat) (x : Arg α) : Arg α :=
  match A with
  | none => x
  | some i => E.opEval i x

/-- `A(x)` for the forward operator of a `SquaredL2Loss` -/
def OpK.apply (E : Env α) (A : OpK α) (x : Arg α) : Except Err (Arg α) :=
  match A, x with
  | .ident, x => .ok x
  | .diag d, .arr v => if (emul E.cplx d v).length = v.length then .ok (.arr (emul E.cplx d v)) else .error .shape
  | .diag d, .blk bs =>
    -- a `Diagonal` whose diagonal is a block array of the shape of `x` (`d` = its concatenation): entry by entry
    if (emul E.cplx d bs.flatten).length = bs.flatten.length then
      .ok (.blk (splitLike (emul E.cplx d bs.flatten) (bs.map List.length)))
    else .error .shape
  | .lin i, x => .ok (E.opEval i x)
  | .nonlin i, x => .ok (E.opEval i x)

/-- `f(x)` -/
def eval (E : Env α) : Fn α → Arg α → Except Err α
  | .leaf i, x => if E.hasEval i then .ok (E.eval i x) else .error .notimpl
  | .scaled c f, x => do
    let r ← eval E f x
    pure (c * r)                                        -- `self.scale * self.functional(x)`
  | .sum f g, x => do
    let a ← eval E f x
    let b ← eval E g x
    pure (a + b)
  | .snil, .blk [] => .ok 0
  | .snil, .blk (_ :: _) => .error .value
  | .snil, .arr _ => .error .value                      -- `len(x.shape) != len(functional_list)` (see note at `Fn.sep`)
  | .scons f r, .blk (b :: bs) => do
    let a ← eval E f (.arr b)
    let s ← eval E r (.blk bs)
    pure (a + s)                                        -- `snp.sum(snp.array([fi(xi) …]))`
  | .scons _ _, .blk [] => .error .value
  | .scons _ _, .arr _ => .error .value
  | .lossNone _ _ _, _ => .error .notimpl                -- `Loss.__call__` with `f is None`
  | .loss y A f s, x => do
    let d ← Arg.sub (E.applyOpt A x) y
    let r ← eval E f d
    pure (s * r)                                        -- `self.scale * self.f(self.A(x) - self.y)`
  | .sqL2 y A w s, x => do
    let ax ← OpK.apply E A x
    let d ← Arg.sub y ax
    pure (s * wsum w (sqmags E.cplx d.flat))

/-- `f.prox(v, lam)` -/
def prox (E : Env α) : Fn α → Arg α → α → Except Err (Arg α)
  | .leaf i, v, lam => if E.hasProx i then .ok (E.prox i v lam) else .error .notimpl
  | .scaled c f, v, lam => prox E f v (lam * c)        -- `self.functional.prox(v, lam * self.scale)`
  | .sum _ _, _, _ => .error .notimpl                   -- `FunctionalSum` inherits `Functional.prox`
  | .snil, .blk [], _ => .ok (.blk [])
  | .snil, .blk (_ :: _), _ => .error .value
  | .snil, .arr _, _ => .error .value
  | .scons f r, .blk (b :: bs), lam => do
    let p ← prox E f (.arr b) lam
    let ps ← prox E r (.blk bs) lam
    match p, ps with
    | .arr p, .blk ps => pure (.blk (p :: ps))
    | _, _ => .error .type
  | .scons _ _, .blk [], _ => .error .value
  | .scons _ _, .arr _, _ => .error .value
  | .lossNone _ _ _, _, _ => .error .notimpl
  | .loss y A f s, v, lam =>
    if A.isNone && hasProx E f then do                  -- `if not self.has_prox: raise NotImplementedError`
      let d ← Arg.sub v y
      let q ← prox E f d (s * lam)                      -- `self.f.prox(v - self.y, self.scale * lam)`
      Arg.add q y                                       -- `… + self.y`
    else .error .notimpl
  | .sqL2 y A w s, v, lam =>
    match A with
    | .nonlin _ => .error .notimpl
    | .lin i => .ok (E.solve i y w ((1 + 1) * s * lam) v)
    | A =>
      match v, y with
      | .arr vv, .arr yy =>
        match diagOf E.cplx (nEntries E.cplx vv) A with
        | some a =>
          if a.length = vv.length ∧ yy.length = vv.length then
            .ok (.arr (sqL2DiagProx E.cplx s lam w a yy vv))
          else .error .shape
        | none => .error .type
      | .blk vs, .blk ys =>
        -- block arrays: `A` is the default Identity on the block shape of `y`, `W.diagonal` a block array;
        -- the closed form acts entry by entry (a `Diagonal` with a block diagonal is not modelled)
        match diagOf E.cplx (nEntries E.cplx vs.flatten) A with
        | some a =>
          -- Identity on the block shape, or a `Diagonal` with a block-array diagonal (`a` = its concatenation)
          if vs.map List.length = ys.map List.length ∧ a.length = vs.flatten.length then
            .ok (.blk (splitLike (sqL2DiagProx E.cplx s lam w a ys.flatten vs.flatten) (vs.map List.length)))
          else .error .shape
        | none => .error .shape
      | _, _ => .error .shape

/-- `Functional.conj_prox`: `v - lam * self.prox(v / lam, 1.0 / lam)` -/
def conjProx (E : Env α) (t : Fn α) (v : Arg α) (lam : α) : Except Err (Arg α) := do
  let q ← prox E t (Arg.map (· / lam) v) (1 / lam)
  Arg.sub v (Arg.smul lam q)

/-- the wrapper part of a prox call, separated from the base functionals: for every leaf reached,
    the block it acts on, the argument and parameter the leaf's prox receives, and the array
    added to its result.  (Harness oracle "prox of the wrapper = prox of the base at the
    transformed argument".)  `none` where the tree does not reduce to leaf calls. -/
structure LeafCall (α : Type) where
  leaf : Nat
  block : Option Nat         -- `none`: the whole argument
  arg : Arg α
  lam : α
  shift : Option (Arg α)

def plan (E : Env α) : Fn α → Arg α → α → Option Nat → Option (Arg α) → Except Err (List (LeafCall α))
  | .leaf i, v, lam, b, sh => .ok [⟨i, b, v, lam, sh⟩]
  | .scaled c f, v, lam, b, sh => plan E f v (lam * c) b sh
  | .sum _ _, _, _, _, _ => .error .notimpl
  | .snil, .blk [], _, _, _ => .ok []
  | .snil, _, _, _, _ => .error .value
  | .scons f r, .blk (x :: xs), lam, b, sh => do
    let k := b.getD 0
    let sh0 ← match sh with
      | none => pure none
      | some (.blk (s :: _)) => pure (some (Arg.arr s))
      | _ => .error .shape
    let shr ← match sh with
      | none => pure none
      | some (.blk (_ :: ss)) => pure (some (Arg.blk ss))
      | _ => .error .shape
    let a ← plan E f (.arr x) lam (some k) sh0
    let rest ← plan E r (.blk xs) lam (some (k + 1)) shr
    pure (a ++ rest)
  | .scons _ _, _, _, _, _ => .error .value
  | .lossNone _ _ _, _, _, _, _ => .error .notimpl
  | .loss y A f s, v, lam, b, sh =>
    if A.isNone && hasProx E f then do
      let d ← Arg.sub v y
      let sh' ← match sh with
        | none => pure y
        | some t => Arg.add y t
      plan E f d (s * lam) b (some sh')
    else .error .notimpl
  | .sqL2 _ _ _ _, _, _, _, _ => .error .notimpl

/-! ### `SeparableFunctional` applied to a *plain* array

`__call__` / `prox` test `len(x.shape) == len(functional_list)`: for a plain array that is `ndim = k`.  When it
holds the code runs `zip(functional_list, x)`, i.e. it iterates over the **leading axis** of the array and stops
at the shorter of the two (`k` functionals, `shape[0]` slices): slice `i` (an array of shape `shape[1:]`) goes to
`f_i`; `prox` returns a `BlockArray` of the `min(k, shape[0])` results.  Otherwise `ValueError`.
(Documented input is a `BlockArray`; this is what the code does with a plain one.) -/

/-- slices of a row-major array of shape `m :: rest` along its leading axis (`per` = entries per slice) -/
def leadingSlices (shape : List Nat) (cplx : Bool) (x : List α) : List (List α) :=
  match shape with
  | [] => []
  | m :: rest => splitLike x (List.replicate m (FuncEval.size rest * (if cplx then 2 else 1)))

/-- `snp.sum(snp.array([fi(xi) for fi, xi in zip(functional_list, x)]))` -/
def evalZip (E : Env α) : List (Fn α) → List (List α) → Except Err α
  | f :: fs, r :: rs => do
    let a ← eval E f (.arr r)
    let s ← evalZip E fs rs
    pure (a + s)
  | _, _ => .ok 0

/-- `[fi.prox(vi, lam) for fi, vi in zip(functional_list, v)]` -/
def proxZip (E : Env α) : List (Fn α) → List (List α) → α → Except Err (List (List α))
  | f :: fs, r :: rs, lam => do
    let p ← prox E f (.arr r) lam
    let ps ← proxZip E fs rs lam
    match p with
    | .arr p => pure (p :: ps)
    | _ => .error .type
  | _, _, _ => .ok []

def evalSepPlain (E : Env α) (fs : List (Fn α)) (shape : List Nat) (x : List α) : Except Err α :=
  if shape.length = fs.length then evalZip E fs (leadingSlices shape E.cplx x) else .error .value

def proxSepPlain (E : Env α) (fs : List (Fn α)) (shape : List Nat) (v : List α) (lam : α) : Except Err (Arg α) :=
  if shape.length = fs.length then (proxZip E fs (leadingSlices shape E.cplx v) lam).map .blk else .error .value

/-! ### keyword arguments of `prox` (`**kwargs`)

`Functional.prox(v, lam, **kwargs)`: the wrappers pass `**kwargs` on verbatim —
`ScaledFunctional.prox` → `functional.prox(v, lam*scale, **kwargs)`, `SeparableFunctional.prox` → every
`fi.prox(vi, lam, **kwargs)`, `Loss.prox` → `f.prox(v − y, scale*lam, **kwargs)`, `conj_prox` →
`self.prox(v/lam, 1/lam, **kwargs)`; `SquaredL2Loss.prox` consumes `x0` (CG starting point, default
`zeros_like(v)`, also when `x0=None`) and ignores the rest. -/

/-- who receives the keyword arguments of `t.prox(·, ·, **kw)`: the base functionals (`.inl leaf`) and the
    `SquaredL2Loss` nodes with a non-diagonal `A` (`.inr operator id`, which read `x0`), in call order;
    `κ` is the (opaque) keyword dictionary -/
def kwPlan {κ : Type} (E : Env α) : Fn α → κ → List ((Nat ⊕ Nat) × κ)
  | .leaf i, kw => if E.hasProx i then [(.inl i, kw)] else []
  | .scaled _ f, kw => kwPlan E f kw
  | .sum _ _, _ => []
  | .snil, _ => []
  | .scons f r, kw => kwPlan E f kw ++ kwPlan E r kw
  | .lossNone _ _ _, _ => []
  | .loss _ A f _, kw => if A.isNone && hasProx E f then kwPlan E f kw else []
  | .sqL2 _ A _ _, kw => match A with
    | .lin i => [(.inr i, kw)]
    | _ => []

/-- the CG starting point `SquaredL2Loss.prox` uses: `kwargs["x0"]` when present and not `None`, else zeros -/
def sqL2X0 (x0 : Option (List α)) (v : List α) : List α :=
  match x0 with
  | some x => x
  | none => v.map (fun _ => 0)

end

end Scico.ProxCalc

/-! ### built-in base functionals used to *execute* trees in the driver

Evaluation formulas are those of `Model/FuncEval`.  The few closed-form proximal maps below
transcribe `_norm.py` / `_indicator.py` so that nested trees can be run end to end; that they
are proximal maps is property C02 (engine `Prox`), not claimed here. -/
namespace Scico.ProxCalc
open Scico Scico.FuncEval

inductive Base (α : Type) where
  | zero | l0 | l1 | sql2 | l2 | l21none | nonneg
  | l1ml2 (beta : α)
  | huberSep (delta : α)
  | huberNonsep (delta : α)
  | l2ball (radius : α)
  | custom (hasEval hasProx : Bool)     -- a user functional that only declares flags
  deriving Inhabited

section
variable {α : Type} [Add α] [Sub α] [Mul α] [Div α] [Neg α] [Zero α] [One α] [LT α] [DecidableLT α]
  [HasSqrt α]

def Base.hasEval : Base α → Bool
  | .custom he _ => he
  | _ => true

def Base.hasProx : Base α → Bool
  | .custom _ hp => hp
  | _ => true

/-- value with `+∞` represented by the supplied `inf` -/
def Base.eval (inf : α) (cplx : Bool) : Base α → Arg α → α
  | .zero, _ => 0
  | .l0, x => FuncEval.l0 cplx x
  | .l1, x => FuncEval.l1 cplx x
  | .sql2, x => FuncEval.sql2 cplx x
  | .l2, x => FuncEval.l2 cplx x
  | .l21none, x => FuncEval.l21None cplx x
  | .nonneg, x => match nonnegInd x with | .top => inf | .fin a => a
  | .l1ml2 b, x => FuncEval.l1ml2 cplx b x
  | .huberSep d, x => FuncEval.huberSep cplx d x
  | .huberNonsep d, x => FuncEval.huberNonsep cplx d x
  | .l2ball r, x => match l2ballInd cplx r x with | .top => inf | .fin a => a
  | .custom _ _, _ => 0

/-- apply `g` to every block -/
def Arg.mapBlocks (g : List α → List α) : Arg α → Arg α
  | .arr v => .arr (g v)
  | .blk bs => .blk (bs.map g)

/-- `sign(v) * t` (real) or `exp(i·angle v) * t` (complex) for a real factor list `t` -/
def phaseTimes (cplx : Bool) : List α → List α → List α
  | a :: r, t :: ts =>
    if cplx then
      match r with
      | b :: r' =>
        let m := HasSqrt.sqrt (a * a + b * b)
        (if isZero m then [t, 0 * t] else [a / m * t, b / m * t]) ++ phaseTimes cplx r' ts
      | [] => []
    else (if a < 0 then -t else if 0 < a then t else 0 * t) :: phaseTimes cplx r ts
  | _, _ => []

/-- `L1Norm.prox`: `tmp = |v| − lam; tmp = 0.5 (tmp + |tmp|); sign(v)·tmp` -/
def l1ProxL (cplx : Bool) (lam : α) (v : List α) : List α :=
  phaseTimes cplx v ((mags cplx v).map (fun m =>
    let t := m - lam
    (1 / (1 + 1)) * (t + absR t)))

/-- `HuberNorm._prox_sep` -/
def huberSepProxL (cplx : Bool) (delta lam : α) (v : List α) : List α :=
  rmulL cplx ((mags cplx v).map (fun m => 1 - (delta * lam) / maxR m (delta * (1 + lam)))) v

def Base.prox (cplx : Bool) : Base α → Arg α → α → Arg α
  | .zero, v, _ => v
  | .l1, v, lam => Arg.mapBlocks (l1ProxL cplx lam) v
  | .sql2, v, lam => Arg.map (· / (1 + (1 + 1) * lam)) v
  | .nonneg, v, _ => Arg.map (fun a => maxR a 0) v
  | .huberSep d, v, lam => Arg.mapBlocks (huberSepProxL cplx d lam) v
  | .huberNonsep d, v, lam =>
    let n := FuncEval.l2 cplx v
    Arg.map ((1 - (d * lam) / maxR n (d * (1 + lam))) * ·) v
  | .l2, v, lam =>
    let n := FuncEval.l2 cplx v
    if isZero n then Arg.map (0 * ·) v else Arg.map (maxR (1 - lam / n) 0 * ·) v
  | _, v, _ => v      -- not executed by the driver (`proxRunnable`)

/-- base kinds whose prox the driver can run -/
def Base.proxRunnable : Base α → Bool
  | .zero | .l1 | .sql2 | .nonneg | .huberSep _ | .huberNonsep _ | .l2 | .custom _ _ => true
  | _ => false

/-- environment made of built-in bases and opaque operators given as dense real matrices -/
def mkEnv (inf : α) (cplx : Bool) (bases : List (Base α)) (ops : List (List (List α))) : Env α where
  hasEval := fun i => match bases[i]? with | some b => b.hasEval | none => false
  hasProx := fun i => match bases[i]? with | some b => b.hasProx | none => false
  eval := fun i x => match bases[i]? with | some b => b.eval inf cplx x | none => 0
  prox := fun i v lam => match bases[i]? with | some b => b.prox cplx v lam | none => v
  opEval := fun i x => match ops[i]?, x with
    | some M, .arr v => .arr (matVec M v)
    | _, x => x
  solve := fun _ _ _ _ v => v
  cplx := cplx

end
end Scico.ProxCalc
