/-
  Step-size policies of `scico/optimize/_pgmaux.py` and the PGM / AcceleratedPGM steps of
  `scico/optimize/_pgm.py` that call them (DESIGN §5.10, property C16).  Mathlib-free, executable.

  Scalars.  Every definition is polymorphic over a scalar type `S` that carries IEEE-like
  arithmetic: the drivers run it at `Float` (native binary64: `1/0 = inf`, `0/0 = NaN`,
  comparisons with NaN false); the proofs run it at `XR K`, the IEEE-extended version of an
  ordered field `K` defined below (`fin a | pinf | ninf | nan` with the IEEE rules for
  `+ - * / sqrt < ≤`).  The sign of a zero is not represented (`a/0 = +inf` for `a > 0`): the
  policies as repaired treat `+inf` and `-inf` alike, so the sign is unobservable.  Rounding and
  overflow are not modelled (`fin a * fin b = fin (a*b)`).

  Layers.
  * scalar rules  `unusable`, `bbRule`, `abbRule`, `searchLoop`            (what the theorems are about)
  * `Env`         the loss / regulariser / vector operations a solver sees (abstract)
  * `update`      `PGMStepSize.update` of the five policy classes, on an `Env`
  * `pgmStep`, `apgmStep`   `PGM.step`, `AcceleratedPGM.step`
-/
import Scico.Common.Scalar

namespace Scico.StepSize

/-! ## IEEE-extended scalars -/

/-- the two IEEE predicates the policies use (`snp.isnan`, `snp.isfinite`) -/
class IEEE (S : Type) where
  isNaN : S → Bool
  isFinite : S → Bool

instance : IEEE Float := ⟨Float.isNaN, Float.isFinite⟩

/-- IEEE-extended numbers over `K` -/
inductive XR (K : Type) where
  | fin (a : K)
  | pinf
  | ninf
  | nan
deriving Repr, Inhabited

namespace XR

variable {K : Type}

instance : IEEE (XR K) where
  isNaN | nan => true | _ => false
  isFinite | fin _ => true | _ => false

instance [Zero K] : Zero (XR K) := ⟨fin 0⟩
instance [One K] : One (XR K) := ⟨fin 1⟩

def neg [Neg K] : XR K → XR K
  | fin a => fin (-a)
  | pinf => ninf
  | ninf => pinf
  | nan => nan

def add [Add K] : XR K → XR K → XR K
  | fin a, fin b => fin (a + b)
  | nan, _ => nan
  | _, nan => nan
  | pinf, ninf => nan
  | ninf, pinf => nan
  | pinf, _ => pinf
  | _, pinf => pinf
  | ninf, _ => ninf
  | _, ninf => ninf

/-- `±inf * b` for a finite `b`: sign rule, `inf * 0 = NaN` -/
def infMul [Zero K] [LT K] [DecidableLT K] (pos : Bool) (b : K) : XR K :=
  if 0 < b then (if pos then pinf else ninf)
  else if b < 0 then (if pos then ninf else pinf)
  else nan

def mul [Zero K] [Mul K] [LT K] [DecidableLT K] : XR K → XR K → XR K
  | fin a, fin b => fin (a * b)
  | nan, _ => nan
  | _, nan => nan
  | pinf, fin b => infMul true b
  | fin a, pinf => infMul true a
  | ninf, fin b => infMul false b
  | fin a, ninf => infMul false a
  | pinf, pinf => pinf
  | ninf, ninf => pinf
  | pinf, ninf => ninf
  | ninf, pinf => ninf

/-- IEEE division; a finite number over an exact zero is `±inf` by the sign of the numerator
    (`0/0 = NaN`); the sign of the zero is not represented -/
def div [Zero K] [Div K] [LT K] [DecidableLT K] : XR K → XR K → XR K
  | fin a, fin b =>
    if b < 0 ∨ 0 < b then fin (a / b)
    else if 0 < a then pinf
    else if a < 0 then ninf
    else nan
  | nan, _ => nan
  | _, nan => nan
  | fin _, pinf => fin 0
  | fin _, ninf => fin 0
  | pinf, fin b => if b < 0 then ninf else pinf
  | ninf, fin b => if b < 0 then pinf else ninf
  | pinf, pinf => nan
  | pinf, ninf => nan
  | ninf, pinf => nan
  | ninf, ninf => nan

def sqrt [Zero K] [LT K] [DecidableLT K] [HasSqrt K] : XR K → XR K
  | fin a => if a < 0 then nan else fin (HasSqrt.sqrt a)
  | pinf => pinf
  | ninf => nan
  | nan => nan

/-- IEEE `x ≤ y` (false as soon as one side is NaN) -/
def le [LT K] [DecidableLT K] : XR K → XR K → Bool
  | fin a, fin b => !decide (b < a)
  | nan, _ => false
  | _, nan => false
  | ninf, _ => true
  | _, pinf => true
  | pinf, _ => false
  | _, ninf => false

/-- IEEE `x < y` -/
def lt [LT K] [DecidableLT K] : XR K → XR K → Bool
  | fin a, fin b => decide (a < b)
  | nan, _ => false
  | _, nan => false
  | pinf, _ => false
  | _, ninf => false
  | ninf, _ => true
  | _, pinf => true

instance [Neg K] : Neg (XR K) := ⟨neg⟩
instance [Add K] : Add (XR K) := ⟨add⟩
instance [Add K] [Neg K] : Sub (XR K) := ⟨fun x y => add x (neg y)⟩
instance [Zero K] [Mul K] [LT K] [DecidableLT K] : Mul (XR K) := ⟨mul⟩
instance [Zero K] [Div K] [LT K] [DecidableLT K] : Div (XR K) := ⟨div⟩
instance [Zero K] [LT K] [DecidableLT K] [HasSqrt K] : HasSqrt (XR K) := ⟨sqrt⟩
instance [LT K] [DecidableLT K] : LE (XR K) := ⟨fun x y => le x y = true⟩
instance [LT K] [DecidableLT K] : LT (XR K) := ⟨fun x y => lt x y = true⟩
instance [LT K] [DecidableLT K] : DecidableLE (XR K) := fun x y => inferInstanceAs (Decidable (le x y = true))
instance [LT K] [DecidableLT K] : DecidableLT (XR K) := fun x y => inferInstanceAs (Decidable (lt x y = true))

/-- "is a finite, strictly positive number" -/
def PosFin [Zero K] [LT K] (x : XR K) : Prop := ∃ a : K, x = fin a ∧ 0 < a

end XR

/-! ## Scalar rules -/

section rules

variable {S : Type} [Zero S] [Mul S] [Div S] [LE S] [DecidableLE S] [LT S] [DecidableLT S] [IEEE S]

/-- The test applied to a freshly computed ratio before it is used:
    `not snp.isfinite(L) or L <= 0.0`  (rejects NaN, `±inf`, zero and negative values). -/
def unusable (L : S) : Bool := !(IEEE.isFinite L) || decide (L ≤ 0)

/-- `BBStepSize.update`, second and later calls: `L = num / den`, previous `L` if unusable.
    `xg = Re⟨Δx,Δg⟩` (`den`), `gg = Re⟨Δg,Δg⟩` (`num`). -/
def bbRule (Lprev xg gg : S) : S :=
  let L := gg / xg
  if unusable L then Lprev else L

/-- `AdaptiveBBStepSize.update`, second and later calls.  `m1 m2` = `Lbb1prev`, `Lbb2prev`.
    Returns `(L, Lbb1prev', Lbb2prev')`. -/
def abbRule (κ Lprev : S) (m1 m2 : Option S) (xx xg gg : S) : S × Option S × Option S :=
  let Lbb1 := xg / xx
  let l1 := if unusable Lbb1 then m1 else some Lbb1
  let Lbb2 := gg / xg
  let l2 := if unusable Lbb2 then m2 else some Lbb2
  let L := match l1, l2 with
    | some a, some b => if (a / b) < κ then b else a
    | _, _ => Lprev
  (L, l1, l2)

/-- The search loop shared by `LineSearchStepSize.update` and `RobustLineSearchStepSize.update`:

        it = 0
        while it < maxiter:
            b = trial(it, L)            # candidate, f(z), f_quad(z, y, L)
            if ok(L, b): break
            it += 1
            if it < maxiter: L *= gamma_u
        # L, b : the last value tried and what was computed with it

    `fuel = maxiter - it`.  `none` when `maxiter = 0` (nothing is ever tried).
    Result: the returned `L`, the data of the trial made with that `L`, the number of trials. -/
def searchLoop {β : Type} (γu : S) (trial : Nat → S → β) (ok : S → β → Bool) :
    (fuel : Nat) → (it : Nat) → S → Option (S × β × Nat)
  | 0, _, _ => none
  | fuel + 1, it, L =>
    let b := trial it L
    if ok L b then some (L, b, it + 1)
    else match fuel with
      | 0 => some (L, b, it + 1)
      | _ + 1 => searchLoop γu trial ok fuel (it + 1) (L * γu)

end rules

/-! ## The solver's view of the problem -/

/-- what `PGM` and the policies use of `f`, `g` and the array type -/
structure Env (V S : Type) where
  /-- `pgm.f(x)` -/
  f : V → S
  /-- `pgm.f.grad(x)` -/
  grad : V → V
  /-- `pgm.g.prox(v, lam)` -/
  prox : V → S → V
  add : V → V → V
  sub : V → V → V
  smul : S → V → V
  /-- `v / c` -/
  sdiv : V → S → V
  /-- `real(sum(conj(a) * b))` -/
  reInner : V → V → S
  /-- `snp.linalg.norm` -/
  norm : V → S

section steps

variable {V S : Type} [Zero S] [One S] [Add S] [Sub S] [Mul S] [Div S] [LE S] [DecidableLE S] [LT S]
  [DecidableLT S] [IEEE S] [HasSqrt S]

def two : S := 1 + 1
def four : S := (1 + 1) + (1 + 1)
def half : S := 1 / (1 + 1)

/-- `PGM.x_step(v, L) = g.prox(v - 1/L * f.grad(v), 1/L)` -/
def xstep (env : Env V S) (v : V) (L : S) : V :=
  env.prox (env.sub v (env.smul (1 / L) (env.grad v))) (1 / L)

/-- `PGM.f_quad_approx(x, y, L) = f(y) + Re⟨∇f(y), x - y⟩ + L/2 ‖x - y‖²` -/
def fquad (env : Env V S) (x y : V) (L : S) : S :=
  let d := env.sub x y
  env.f y + env.reInner (env.grad y) d + half * L * (env.norm d * env.norm d)

/-- the policy classes with their constructor arguments -/
inductive Policy (S : Type) where
  | base
  | bb
  | abb (κ : S)
  | ls (γu : S) (maxiter : Nat)
  | rls (γd γu : S) (maxiter : Nat)

/-- attributes of a policy object (union over the classes) -/
structure PolState (V S : Type) where
  /-- `xprev`, `gradprev` (`None` before the first call) -/
  prev : Option (V × V)
  /-- `Lbb1prev`, `Lbb2prev` -/
  l1 : Option S
  l2 : Option S
  /-- `Tk`, `Zrb`, `Z` of the robust line search -/
  Tk : S
  Zrb : Option V
  Z : Option V
  /-- number of candidates evaluated by the last line search (observable through `f` calls) -/
  tried : Nat

def PolState.init : PolState V S := ⟨none, none, none, 0, none, none, 0⟩

/-- one trial of the robust line search for a given `L`: `(t, T, y, z)` -/
def rlsTrial (env : Env V S) (x : V) (Tk : S) (Zrb : V) (L : S) : S × S × V × V :=
  let t := (1 + sqrt (1 + four * L * Tk)) / (two * L)
  let T := Tk + t
  let y := env.sdiv (env.add (env.smul Tk x) (env.smul t Zrb)) T
  let z := xstep env y L
  (t, T, y, z)

/-- `step_size.update(v)`; `x`, `L` are `pgm.x`, `pgm.L` at the time of the call.
    `none` = the call raises (robust line search with `maxiter = 0` reads an unbound variable). -/
def update (env : Env V S) (pol : Policy S) (x : V) (L : S) (ps : PolState V S) (v : V) :
    Option (S × PolState V S) :=
  match pol with
  | .base => some (L, ps)
  | .bb =>
    match ps.prev with
    | none => some (L, { ps with prev := some (v, env.grad v) })
    | some (xp, gp) =>
      let dx := env.sub v xp
      let gv := env.grad v
      let dg := env.sub gv gp
      let den := env.reInner dx dg
      let num := env.reInner dg dg
      some (bbRule L den num, { ps with prev := some (v, gv) })
  | .abb κ =>
    match ps.prev with
    | none => some (L, { ps with prev := some (v, env.grad v) })
    | some (xp, gp) =>
      let dx := env.sub v xp
      let gv := env.grad v
      let dg := env.sub gv gp
      let r := abbRule κ L ps.l1 ps.l2 (env.reInner dx dx) (env.reInner dx dg) (env.reInner dg dg)
      some (r.1, { ps with prev := some (v, gv), l1 := r.2.1, l2 := r.2.2 })
  | .ls γu maxiter =>
    let gv := env.grad v
    let trial := fun (_ : Nat) (L : S) => env.prox (env.sub v (env.smul (1 / L) gv)) (1 / L)
    let ok := fun (L : S) (z : V) => decide (env.f z ≤ fquad env z v L)
    match searchLoop γu trial ok maxiter 0 L with
    | none => some (L, { ps with tried := 0 })
    | some (L', _, n) => some (L', { ps with tried := n })
  | .rls γd γu maxiter =>
    let Zrb := match ps.Zrb with
      | none => x
      | some z => z
    let trial := fun (_ : Nat) (L : S) => rlsTrial env x ps.Tk Zrb L
    let ok := fun (L : S) (b : S × S × V × V) => decide (env.f b.2.2.2 ≤ fquad env b.2.2.2 b.2.2.1 L)
    match searchLoop γu trial ok maxiter 0 (L * γd) with
    | none => none
    | some (L', (t, T, y, z), n) =>
      some (L', { ps with Tk := T, Zrb := some (env.add Zrb (env.smul (t * L') (env.sub z y))),
                          Z := some z, tried := n })

/-- attributes of a `PGM` / `AcceleratedPGM` object that the step uses -/
structure PGMState (V S : Type) where
  x : V
  L : S
  /-- `fixed_point_residual` -/
  res : S
  ps : PolState V S
  /-- `AcceleratedPGM.v`, `.t` -/
  v : V
  t : S

def PGMState.init (x0 : V) (L0 : S) (inf : S) : PGMState V S := ⟨x0, L0, inf, PolState.init, x0, 1⟩

/-- `step_size.internal_init(pgm)` as called by `PGM.__init__` (d5a2ecf): whatever the object remembered from a previous
    attachment is discarded — `xprev = gradprev = None` (BB classes), `Lbb1prev = Lbb2prev = None` (adaptive BB),
    `Tk = 0.0; Zrb = None; Z = None` (robust search); the line searches rebuild their jitted `g_prox` for the new `g`. -/
def PolState.attach (_ps : PolState V S) : PolState V S := PolState.init

/-- the state of a new `PGM` / `AcceleratedPGM` built with a policy object whose previous state was `ps` -/
def PGMState.attached (ps : PolState V S) (x0 : V) (L0 : S) (inf : S) : PGMState V S :=
  ⟨x0, L0, inf, ps.attach, x0, 1⟩

/-- `PGM.step` -/
def pgmStep (env : Env V S) (pol : Policy S) (s : PGMState V S) : Option (PGMState V S) :=
  match update env pol s.x s.L s.ps s.x with
  | none => none
  | some (L, ps) =>
    let x := xstep env s.x L
    some { s with x := x, L := L, res := env.norm (env.sub s.x x), ps := ps }

/-- is the policy one of the Barzilai-Borwein classes (`isinstance(step_size, (AdaptiveBBStepSize, BBStepSize))`) -/
def Policy.isBB : Policy S → Bool
  | .bb => true
  | .abb _ => true
  | _ => false

/-- the argument `AcceleratedPGM.step` passes to `step_size.update`:
    `self.x` for the Barzilai-Borwein classes, `self.v` otherwise -/
def apgmPoint (pol : Policy S) (s : PGMState V S) : V := if pol.isBB then s.x else s.v

/-- `AcceleratedPGM.step` -/
def apgmStep (env : Env V S) (pol : Policy S) (s : PGMState V S) : Option (PGMState V S) :=
  let xold := s.x
  let point := apgmPoint pol s
  match update env pol s.x s.L s.ps point with
  | none => none
  | some (L, ps) =>
    match pol with
    | .rls _ _ _ =>
      match ps.Z with
      | none => none
      | some z => some { s with x := z, L := L, res := env.norm (env.sub z xold), ps := ps }
    | _ =>
      let x := xstep env s.v L
      let t' := half * (1 + sqrt (1 + four * (s.t * s.t)))
      let v' := env.add x (env.smul ((s.t - 1) / t') (env.sub x xold))
      some { x := x, L := L, res := env.norm (env.sub x s.v), ps := ps, v := v', t := t' }

/-- `k` steps (`none` as soon as one raises) -/
def iterate (step : PGMState V S → Option (PGMState V S)) : Nat → PGMState V S → Option (PGMState V S)
  | 0, s => some s
  | k + 1, s => match step s with
    | none => none
    | some s' => iterate step k s'

end steps

end Scico.StepSize
