/-
  Hidden per-object state of scico (DESIGN §5.12, property C19).  Mathlib-free, executable.

  Source map (scico → Lean):
  * `scico/functional/_tvnorm.py` `TVNorm.__init__/__call__/prox` (cached `G`, cached
    `WP, CWT, prox_ndims, prox_slice`; rebuilt when `op.shape[1] != x.shape or op.input_dtype != x.dtype`)
                                                → `query`, `TV`, `TV.init`, `TV.step`, `TV.run`;
                                                   the same slot when it is filled inside a `jax.jit` trace
                                                   (also `LinearOperator._adj` created lazily by `adj`) → `queryCtx`, `runCtx`
  * `scico/loss.py` `Loss.__mul__/__rmul__/__truediv__/set_scale` (shallow `copy`, `_grad` rebinding),
    `Functional.__init__` (`self._grad = scico.grad(self.__call__)`), `Functional.grad`
                                                → `LossObj`, `Heap`, `Heap.mul`, `Heap.div`, `Heap.setScale`,
                                                   `Heap.value`, `Heap.grad`  (+ `Heap.mulNoRebind`: the variant
                                                   without the rebinding line, for the negative witness)
  * `scico/optimize/_admm.py` `ADMM.__init__` (`self.subproblem_solver.internal_init(self)`),
    `_admmaux.py` `SubproblemSolver.internal_init` (`self.admm = admm`), `solve` (reads `self.admm.*`);
    `_pgm.py` `PGM.__init__` (`self.step_size.internal_init(self)`), `_pgmaux.py` (`self.pgm = pgm`)
                                                → `World`, `World.construct`, `World.readsFrom`
  * `scico/random.py` `_add_seed.fun_alt`, `numpy/_wrappers.py` `map_func_over_tuple_of_tuples`
                                                → `RngOps`, `rngCall`, `drawShape`
-/

namespace Scico.Cache

/-! ## 1. one-slot operator cache (TVNorm) -/

/-- One cached-operator slot.  `ι` = what the operator is built from (input shape and dtype of the
    array at hand AND the configuration `circular`, `axes` in force), `κ` = what the code compares, read
    back from the cached operator by `opKey` (`op.shape[1]`, `op.input_dtype`, and — since 06ebce8 — the
    `(circular, axes)` recorded in `_G_key` / `_WP_key` when it was built).  Returns the new slot and the
    operator that is *used*. -/
def query {ι κ ω : Type} [DecidableEq κ] (opKey : ω → κ) (keyOf : ι → κ) (build : ι → ω)
    (slot : Option ω) (i : ι) : Option ω × ω :=
  match slot with
  | none => (some (build i), build i)
  | some w => if opKey w = keyOf i then (some w, w) else (some (build i), build i)

/-- the two independent caches of a `TVNorm` object -/
structure TV (ωG ωP : Type) where
  G : Option ωG            -- self.G
  P : Option ωP            -- (self.WP, self.CWT, self.prox_ndims, self.prox_slice)

inductive TVOp (ι : Type) where
  | call (i : ι)           -- tv(x)      with x of descriptor i
  | prox (i : ι)           -- tv.prox(v) with v of descriptor i

/-- what a `TVNorm` is made of: the key functions and the two builders
    (`_call_operator`, `_prox_operators`; they close over `circular`, `axes`) -/
structure TVSpec (ι κ ωG ωP : Type) where
  keyOf : ι → κ
  gKey : ωG → κ
  pKey : ωP → κ
  buildG : ι → ωG
  buildP : ι → ωP

/-- `TVNorm.__init__`: operators are pre-built iff `input_shape` is given -/
def TV.init {ι κ ωG ωP : Type} (S : TVSpec ι κ ωG ωP) (pre : Option ι) : TV ωG ωP :=
  match pre with
  | none => ⟨none, none⟩
  | some i => ⟨some (S.buildG i), some (S.buildP i)⟩

/-- which operator one call uses: `Sum.inl` the difference operator, `Sum.inr` the prox operators -/
def TV.step {ι κ ωG ωP : Type} [DecidableEq κ] (S : TVSpec ι κ ωG ωP) (s : TV ωG ωP) :
    TVOp ι → TV ωG ωP × (ωG ⊕ ωP)
  | .call i => let r := query S.gKey S.keyOf S.buildG s.G i; ({ s with G := r.1 }, .inl r.2)
  | .prox i => let r := query S.pKey S.keyOf S.buildP s.P i; ({ s with P := r.1 }, .inr r.2)

/-- state after a history of calls -/
def TV.run {ι κ ωG ωP : Type} [DecidableEq κ] (S : TVSpec ι κ ωG ωP) (s : TV ωG ωP) : List (TVOp ι) → TV ωG ωP
  | [] => s
  | o :: os => TV.run S (TV.step S s o).1 os

/-- the operator a *fresh* object uses for the same call (specification) -/
def TV.fresh {ι κ ωG ωP : Type} (S : TVSpec ι κ ωG ωP) : TVOp ι → (ωG ⊕ ωP)
  | .call i => .inl (S.buildG i)
  | .prox i => .inr (S.buildP i)


/-! ## 1b. caches filled while tracing (`jax.jit`) -/

/-- where a call is executed: eagerly, or inside the trace number `t` of some `jax.jit` -/
inductive ExecCtx where
  | eager
  | trace (t : Nat)
deriving DecidableEq, Repr

/-- a cached object together with the context it was created in: objects created while tracing
    hold tracers of that trace (every `jnp` operation inside `jax.jit` is staged) -/
structure Built (ω : Type) where
  op : ω
  madeIn : ExecCtx

inductive CtxErr where
  | leak        -- jax.errors.UnexpectedTracerError
deriving DecidableEq, Repr

/-- an object made eagerly is usable everywhere, one made in a trace only inside that trace -/
def usable (madeIn c : ExecCtx) : Bool := madeIn == .eager || madeIn == c

/-- One cache slot queried in context `c`.  `concrete = false` is the code of the pinned tree (the
    operator is built with whatever values the current context provides); `concrete = true` is the
    repaired code (`with jax.ensure_compile_time_eval():` around the construction).
    Also models `LinearOperator._adj` (lazily created adjoint): the key is then trivial. -/
def queryCtx {ι κ ω : Type} [DecidableEq κ] (concrete : Bool) (opKey : ω → κ) (keyOf : ι → κ) (build : ι → ω)
    (slot : Option (Built ω)) (c : ExecCtx) (i : ι) : Option (Built ω) × Except CtxErr ω :=
  let fresh : Built ω := ⟨build i, if concrete then .eager else c⟩
  match slot with
  | none => (some fresh, .ok fresh.op)
  | some b =>
    if opKey b.op = keyOf i then
      (some b, if usable b.madeIn c then .ok b.op else .error .leak)
    else (some fresh, .ok fresh.op)

/-- state after a history of (context, input) queries on one slot -/
def runCtx {ι κ ω : Type} [DecidableEq κ] (concrete : Bool) (opKey : ω → κ) (keyOf : ι → κ) (build : ι → ω)
    (slot : Option (Built ω)) : List (ExecCtx × ι) → Option (Built ω)
  | [] => slot
  | (c, i) :: h => runCtx concrete opKey keyOf build (queryCtx concrete opKey keyOf build slot c i).1 h

/-! ## 2. rescaled losses: object graph of `copy` + `_grad` rebinding -/

/-- a loss object: its scale, and the object whose `__call__` its `_grad` closure differentiates
    (`_grad = scico.grad(obj.__call__)` is a bound method: it reads `obj.scale` when called) -/
structure LossObj (α : Type) where
  scale : α
  gradOf : Nat

abbrev Heap (α : Type) := List (LossObj α)

/-- `Functional.__init__` / `Loss.__init__`: a new object whose `_grad` is bound to itself -/
def Heap.new {α : Type} (h : Heap α) (scale : α) : Heap α := h ++ [⟨scale, h.length⟩]

/-- `Loss.__mul__` (and `__rmul__`): `new = copy(self); new._grad = grad(new.__call__);
    new.set_scale(self.scale * other)`; the new object gets the next address -/
def Heap.mul {α : Type} [Mul α] (h : Heap α) (i : Nat) (c : α) : Heap α :=
  match h[i]? with
  | none => h
  | some o =>
    let copied : LossObj α := o                              -- copy(self): same scale, same _grad closure
    let rebound : LossObj α := { copied with gradOf := h.length }  -- _grad = grad(new_loss.__call__)
    h ++ [{ rebound with scale := o.scale * c }]             -- set_scale(self.scale * other)

/-- `Loss.__truediv__` -/
def Heap.div {α : Type} [Div α] (h : Heap α) (i : Nat) (c : α) : Heap α :=
  match h[i]? with
  | none => h
  | some o => h ++ [{ scale := o.scale / c, gradOf := h.length }]

/-- `Loss.set_scale` : in-place update of one object -/
def Heap.setScale {α : Type} (h : Heap α) (i : Nat) (s : α) : Heap α :=
  h.modify i (fun o => { o with scale := s })

/-- the variant WITHOUT the rebinding line (what `copy` alone would give) -/
def Heap.mulNoRebind {α : Type} [Mul α] (h : Heap α) (i : Nat) (c : α) : Heap α :=
  match h[i]? with
  | none => h
  | some o => h ++ [{ o with scale := o.scale * c }]

/-- `loss(x) = self.scale * f(A x - y)`; `base` is the unscaled value -/
def Heap.value {α : Type} [Mul α] (h : Heap α) (i : Nat) (base : α) : Option α :=
  (h[i]?).map (fun o => o.scale * base)

/-- `loss.grad(x) = self._grad(x)`: the gradient of the `__call__` of the object the closure is bound
    to, i.e. that object's *current* scale times the unscaled gradient -/
def Heap.grad {α : Type} [Mul α] (h : Heap α) (i : Nat) (gbase : α) : Option α :=
  match h[i]? with
  | none => none
  | some o => (h[o.gradOf]?).map (fun t => t.scale * gbase)

inductive LossOp (α : Type) where
  | new (s : α)
  | mul (i : Nat) (c : α)
  | div (i : Nat) (c : α)
  | setScale (i : Nat) (s : α)

def Heap.apply {α : Type} [Mul α] [Div α] (h : Heap α) : LossOp α → Heap α
  | .new s => h.new s
  | .mul i c => h.mul i c
  | .div i c => h.div i c
  | .setScale i s => h.setScale i s

def Heap.run {α : Type} [Mul α] [Div α] (h : Heap α) : List (LossOp α) → Heap α
  | [] => h
  | o :: os => Heap.run (h.apply o) os

/-- Specification: the scale every object *should* have, by its own derivation only
    (a fold that never looks at gradient bindings) -/
def specScales {α : Type} [Mul α] [Div α] : List α → List (LossOp α) → List α
  | l, [] => l
  | l, .new s :: os => specScales (l ++ [s]) os
  | l, .mul i c :: os => specScales (match l[i]? with | none => l | some s => l ++ [s * c]) os
  | l, .div i c :: os => specScales (match l[i]? with | none => l | some s => l ++ [s / c]) os
  | l, .setScale i s :: os => specScales (l.modify i (fun _ => s)) os

/-! ## 3. attaching sub-problem solvers / step-size objects to optimisers -/

/-- A world of optimisers and helper objects (sub-problem solvers, step-size policies).
    `helperOf a` is the helper object optimiser `a` holds (`self.subproblem_solver` / `self.step_size`),
    `backref s` the optimiser helper `s` points back to (`self.admm` / `self.pgm`), set by `internal_init`. -/
structure World where
  helperOf : List Nat            -- indexed by optimiser, value = helper id
  backref : Nat → Option Nat     -- helper id ↦ optimiser it is attached to

def World.empty : World := ⟨[], fun _ => none⟩

/-- `ADMM.__init__(…, subproblem_solver=s)` / `PGM.__init__(…, step_size=s)`: the new optimiser gets
    the next index and calls `s.internal_init(self)` -/
def World.construct (w : World) (s : Nat) : World :=
  let a := w.helperOf.length
  ⟨w.helperOf ++ [s], fun t => if t = s then some a else w.backref t⟩

/-- whose state a `step()` of optimiser `a` reads through its helper (`self.admm.z_list`, `self.pgm.f`, …) -/
def World.readsFrom (w : World) (a : Nat) : Option Nat :=
  match w.helperOf[a]? with
  | none => none
  | some s => w.backref s

def World.run (w : World) : List Nat → World
  | [] => w
  | s :: ss => World.run (w.construct s) ss

/-! ## 4. `scico.random` argument handling -/

inductive Err where
  | value
deriving Repr, DecidableEq

/-- the `jax.random` primitives, abstract -/
structure RngOps (κ ρ σ : Type) where
  prngKey : Int → κ                    -- jax.random.PRNGKey(seed)
  split : κ → κ × κ                    -- jax.random.split(key, 2)
  draw : κ → σ → ρ                     -- fun(key, shape, dtype, …) for a plain shape (σ bundles shape, dtype, …)

/-- `fun_alt(*args, key=None, seed=None, **kwargs)` of `_add_seed`.  `nargs` = number of positional
    arguments, `numParams` = number of parameters of the wrapped jax function (key included);
    `posKey`/`posSeed` = the positional values at indices `numParams-1` / `numParams` when present.
    Returns `(fun(key, …), split(key)[0])`. -/
def rngCall {κ ρ σ τ : Type} (R : RngOps κ ρ σ) (numParams nargs : Nat) (posKey : Option κ) (posSeed : Option Int)
    (kwKey : Option κ) (kwSeed : Option Int) (drawWith : κ → τ) : Except Err (τ × κ) :=
  let key := if nargs ≥ numParams then posKey else kwKey
  let seed := if nargs > numParams then posSeed else kwSeed
  match key, seed with
  | some _, some _ => .error .value                 -- "Key and seed cannot both be specified."
  | some k, none => .ok (drawWith k, (R.split k).1)
  | none, seed =>
    let s := match seed with | none => 0 | some s => s
    let k := R.prngKey s
    .ok (drawWith k, (R.split k).1)

/-- `map_func_over_tuple_of_tuples`: a nested shape gives a block array, every block drawn by the same
    call `fun(key, shape_i, …)` (same key); a plain shape gives a plain array -/
def drawShape {κ ρ σ : Type} (R : RngOps κ ρ σ) (shape : σ ⊕ List σ) (k : κ) : ρ ⊕ List ρ :=
  match shape with
  | .inl s => .inl (R.draw k s)
  | .inr ss => .inr (ss.map (R.draw k))

/-- Specification of the documented interface: given an effective key -/
def specRng {κ ρ σ : Type} (R : RngOps κ ρ σ) (shape : σ ⊕ List σ) (k : κ) : (ρ ⊕ List ρ) × κ :=
  (drawShape R shape k, (R.split k).1)

/-! ## 5. constructor options: literal defaults, shared default-argument objects, class-level dictionaries -/

/-- a Python `dict` with string keys, as an association list without duplicate keys -/
abbrev Dict (ν : Type) := List (String × ν)

/-- `d[k] = v` -/
def Dict.set {ν : Type} (d : Dict ν) (k : String) (v : ν) : Dict ν :=
  if d.any (fun kv => kv.1 == k) then d.map (fun kv => if kv.1 == k then (k, v) else kv) else d ++ [(k, v)]

/-- `d.update(u)` -/
def Dict.update {ν : Type} (d u : Dict ν) : Dict ν := u.foldl (fun acc kv => acc.set kv.1 kv.2) d

/-- how a constructor treats its option dictionary:
    * `byRef`      — `def __init__(self, kw={…}): self.kw = kw` (`GenericSubproblemSolver.minimize_kwargs`): the ONE
                     default-argument object created at function definition time is stored by reference;
    * `copyUpdate` — `def __init__(self, kw=None): d = {…literal…}; if kw: d.update(kw); self.kw = d`
                     (`LinearSubproblemSolver.cg_kwargs`, `MatrixSubproblemSolver.solve_kwargs`,
                     `SquaredL2Loss.prox_kwargs`): a new dictionary per object;
    * `classUpdate`— a class-level dictionary updated in place and stored by reference (NOT in scico; the shape of
                     the defect the property excludes, kept for the negative theorem). -/
inductive OptPattern where
  | byRef | copyUpdate | classUpdate
deriving DecidableEq, Repr

/-- heap of dictionary objects (`dicts[0]` = the default-argument / class-level object) and, per constructed
    object, the id of the dictionary it holds -/
structure OptWorld (ν : Type) where
  dicts : List (Dict ν)
  insts : List Nat

/-- at import time: the default object exists, no instance yet -/
def OptWorld.init {ν : Type} (lit : Dict ν) : OptWorld ν := ⟨[lit], []⟩

inductive OptOp (ν : Type) where
  | userDict (d : Dict ν)                  -- the caller builds a dictionary of options (gets the next id)
  | ctor (arg : Option Nat)                -- `Cls()` / `Cls(kw=<dict object id>)`
  | mutate (id : Nat) (k : String) (v : ν) -- in-place `obj[k] = v` on the dictionary object `id`

/-- one constructor call under pattern `p` with literal defaults `lit` -/
def OptWorld.ctor {ν : Type} (p : OptPattern) (lit : Dict ν) (w : OptWorld ν) (arg : Option Nat) : OptWorld ν :=
  let given : Option (Dict ν) := match arg with | none => none | some a => w.dicts[a]?
  match p with
  | .byRef =>
    match arg, given with
    | some a, some _ => { w with insts := w.insts ++ [a] }       -- self.kw = kw  (the caller's object)
    | _, _ => { w with insts := w.insts ++ [0] }                 -- self.kw = <default-argument object>
  | .copyUpdate =>
    let d := match given with | some u => lit.update u | none => lit
    { dicts := w.dicts ++ [d], insts := w.insts ++ [w.dicts.length] }
  | .classUpdate =>
    let d0 := match w.dicts[0]? with | some d => d | none => lit
    let d := match given with | some u => d0.update u | none => d0
    { dicts := w.dicts.set 0 d, insts := w.insts ++ [0] }

def OptWorld.apply {ν : Type} (p : OptPattern) (lit : Dict ν) (w : OptWorld ν) : OptOp ν → OptWorld ν
  | .userDict d => { w with dicts := w.dicts ++ [d] }
  | .ctor arg => w.ctor p lit arg
  | .mutate id k v => { w with dicts := w.dicts.modify id (fun d => d.set k v) }

def OptWorld.run {ν : Type} (p : OptPattern) (lit : Dict ν) (w : OptWorld ν) : List (OptOp ν) → OptWorld ν
  | [] => w
  | o :: os => OptWorld.run p lit (w.apply p lit o) os

/-- the options object `i` sees -/
def OptWorld.view {ν : Type} (w : OptWorld ν) (i : Nat) : Option (Dict ν) :=
  match w.insts[i]? with
  | none => none
  | some id => w.dicts[id]?

/-! ## 6. the `jit` option of (linear) operators: which callable each private slot holds, and how deeply wrapped -/

/-- where the adjoint callable of a `LinearOperator` comes from -/
inductive AdjSrc where
  | given        -- the `adj_fn` constructor argument
  | classMethod  -- `_adj` defined by the subclass (`hasattr(self, "_adj")` in `__init__`)
  | derived      -- `_set_adjoint`: `linear_adjoint(self.__call__, zeros)`
deriving DecidableEq, Repr

/-- how the object is constructed -/
inductive LinOpVariant where
  | adjFn | classAdj | plain
deriving DecidableEq, Repr

/-- the three private slots.  A number is the nesting depth of `jax.jit` wrappers around the slot's callable;
    `_gram`, when set, is always the late-binding lambda `x ↦ self.adj(self(x))`. -/
structure LinOpState where
  evalDepth : Nat
  adj : Option (AdjSrc × Nat)
  gram : Option Nat
deriving DecidableEq, Repr

/-- `_set_adjoint()` as it is called: only when `_adj is None` -/
def LinOpState.needAdj (s : LinOpState) : LinOpState :=
  match s.adj with
  | none => { s with adj := some (.derived, 0) }
  | some _ => s

/-- `_set_gram()` as it is called: only when `_gram is None` -/
def LinOpState.needGram (s : LinOpState) : LinOpState :=
  match s.gram with
  | none => { s with gram := some 0 }
  | some _ => s

/-- `LinearOperator.jit()` -/
def LinOpState.jit (s : LinOpState) : LinOpState :=
  let s := s.needAdj.needGram
  { evalDepth := s.evalDepth + 1, adj := s.adj.map (fun a => (a.1, a.2 + 1)), gram := s.gram.map (· + 1) }

/-- `LinearOperator.__init__(…, adj_fn, jit)` after `Operator.__init__(…, jit=False)` -/
def LinOpState.init0 : LinOpVariant → LinOpState
  | .adjFn => ⟨0, some (.given, 0), some 0⟩       -- `_adj = adj_fn; _gram = lambda x: self.adj(self(x))`
  | .classAdj => ⟨0, some (.classMethod, 0), none⟩
  | .plain => ⟨0, none, none⟩

def LinOpState.init (v : LinOpVariant) (jit : Bool) : LinOpState :=
  if jit then (LinOpState.init0 v).jit else LinOpState.init0 v

inductive LinOpOp where
  | jit        -- `A.jit()`
  | call       -- `A(x)`
  | adj        -- `A.adj(y)`      (creates the adjoint lazily)
  | gram       -- `A.gram(x)`     (creates `_gram` lazily; evaluating it calls `A.adj`)
  | gramOp     -- `A.gram_op`     (creates `_gram`, evaluates nothing)
deriving DecidableEq, Repr

def LinOpState.step (s : LinOpState) : LinOpOp → LinOpState
  | .jit => s.jit
  | .call => s
  | .adj => s.needAdj
  | .gram => s.needGram.needAdj
  | .gramOp => s.needGram

def LinOpState.run (s : LinOpState) : List LinOpOp → LinOpState
  | [] => s
  | o :: os => LinOpState.run (s.step o) os

/-- `MatrixOperator` (the one class of `scico/linop` that defines `adj`, `gram`, `gram_op` itself: `A.conj().T @ y`,
    `A.conj().T @ A @ x`, a new `MatrixOperator`): these three never read or create the private slots; `jit()` is the
    inherited one (derives an adjoint, creates `_gram`, wraps all three) and `__call__` goes through `_eval`. -/
def LinOpState.stepOwn (s : LinOpState) : LinOpOp → LinOpState
  | .jit => s.jit
  | _ => s

def LinOpState.runOwn (s : LinOpState) : List LinOpOp → LinOpState
  | [] => s
  | o :: os => LinOpState.runOwn (s.stepOwn o) os

/-- Specification: the slots of a `MatrixOperator` after `n` calls of `jit()` -/
def specOwnSlots (n : Nat) : LinOpState :=
  if n = 0 then ⟨0, none, none⟩ else ⟨n, some (.derived, n), some n⟩

/-- Specification: the adjoint callable an object of this variant uses, whenever it has one -/
def specAdjSrc : LinOpVariant → AdjSrc
  | .adjFn => .given
  | .classAdj => .classMethod
  | .plain => .derived

/-- number of `jit()` calls of a history (the constructor option counts as one) -/
def jitCount (jit : Bool) (ops : List LinOpOp) : Nat := (if jit then 1 else 0) + (ops.filter (· == .jit)).length

/-! ## 7. attributes read at trace time: cached traces and parameter updates -/

/-- one place of the scico sources where a traced function is created (written by `harness/cache_attrs.py`) -/
structure TraceSite where
  file : String
  cls : String
  name : String
  kind : String            -- perObjectJit | storedBranch | staticJit | perCall | inlineBranch
  reads : List String      -- first-level `self` attributes read inside the traced function
deriving DecidableEq, Repr

/-- kinds whose trace is kept and re-used for a signature already seen -/
def TraceSite.cached (s : TraceSite) : Bool :=
  s.kind == "perObjectJit" || s.kind == "storedBranch" || s.kind == "staticJit"

/-- (class, site, attribute) for every attribute of `attrs` (a list of (class, attribute)) that a cached trace of that
    very class reads -/
def traceTimeParams (sites : List TraceSite) (attrs : List (String × String)) : List (String × String × String) :=
  sites.flatMap (fun s =>
    if s.cached then (s.reads.filter (fun a => attrs.contains (s.cls, a))).map (fun a => (s.cls, s.name, a)) else [])

/-- An object with a callable whose value depends on attributes.  `traced a = true`: attribute `a` is read when a
    signature is first traced (and frozen in the cached trace); otherwise it is read at every call.
    `cache` = for every signature already seen, the attribute valuation at the moment of its first call. -/
structure TracedObj (ν : Type) where
  attrs : String → ν
  cache : List (Nat × (String → ν))

inductive TraceOp (ν : Type) where
  | set (a : String) (v : ν)     -- `obj.a = v`
  | call (sig : Nat)             -- a call with an input of signature `sig` (shape, dtype, block structure)

/-- the valuation a call with signature `sig` computes with -/
def TracedObj.effective {ν : Type} (traced : String → Bool) (o : TracedObj ν) (sig : Nat) : String → ν :=
  match o.cache.find? (fun e => e.1 == sig) with
  | none => o.attrs
  | some e => fun a => if traced a then e.2 a else o.attrs a

def TracedObj.step {ν : Type} (o : TracedObj ν) : TraceOp ν → TracedObj ν
  | .set a v => { o with attrs := fun b => if b = a then v else o.attrs b }
  | .call sig =>
    match o.cache.find? (fun e => e.1 == sig) with
    | none => { o with cache := o.cache ++ [(sig, o.attrs)] }
    | some _ => o

def TracedObj.run {ν : Type} (o : TracedObj ν) : List (TraceOp ν) → TracedObj ν
  | [] => o
  | op :: ops => TracedObj.run (o.step op) ops

/-! ## 8. data copied from the scico sources — pinned to the source by `Scico.Generated.CacheTables` (regenerated on every run) -/

/-- how each `*_kwargs` constructor parameter is stored and the literal defaults (value = source text): what `OptPattern` and
    the option tie assume per class -/
def codeOptionTables : List (String × String × String × List (String × String)) := [
  ("GenericSubproblemSolver", "minimize_kwargs", "byRef", [("options", "{'maxiter': 100}")]),
  ("LinearSubproblemSolver", "cg_kwargs", "copyUpdate", [("tol", "0.0001"), ("maxiter", "100")]),
  ("MatrixSubproblemSolver", "solve_kwargs", "copyUpdate", [("cho_factor", "False")]),
  ("SquaredL2Loss", "prox_kwargs", "copyUpdate", [("maxiter", "100"), ("tol", "1e-05")])
]

/-- the functions this file follows line by line, as normalised source (`ast.unparse`, docstrings and comments dropped).
    `query` ↔ the `if` of `TVNorm.__call__/prox`; `Heap.mul/div/setScale` ↔ `Loss.__mul__/__truediv__/set_scale`; `Heap.new/grad` ↔
    `Functional.__init__/grad`; `World.construct` ↔ the two `internal_init`; `rngCall` ↔ `_add_seed.fun_alt`; `LinOpState.jit/needAdj/
    needGram` ↔ `LinearOperator.jit/_set_adjoint/_set_gram`. -/
def codeSources : List (String × List String) := [
  ("TVNorm.__call__", ["if self.G is None or self.G.shape[1] != x.shape or self.G.input_dtype != x.dtype or (getattr(self, '_G_key', None) != (self.circular, self.axes)):", "    with jax.ensure_compile_time_eval():", "        self.G = self._call_operator(x.shape, x.dtype)", "return self.norm(self.G @ x)"]),
  ("TVNorm.prox", ["if self.WP is None or self.WP.shape[1] != v.shape or self.WP.input_dtype != v.dtype or (getattr(self, '_WP_key', None) != (self.circular, self.axes)):", "    with jax.ensure_compile_time_eval():", "        self.WP, self.CWT, self.prox_ndims, self.prox_slice = self._prox_operators(v.shape, v.dtype)", "assert self.prox_ndims is not None", "assert self.prox_slice is not None", "K = 2 * self.prox_ndims", "u = TVNorm._prox_core(self.WP, self.CWT, self.norm, K, TVNorm._slice_tuple_to_tuple(self.prox_slice), v, lam)", "return u"]),
  ("TVNorm._call_operator", ["self._G_key = (self.circular, self.axes)", "G = FiniteDifference(input_shape, input_dtype=input_dtype, axes=self.axes, circular=self.circular, append=None if self.circular else 0, jit=True)", "return G"]),
  ("TVNorm._prox_operators", ["self._WP_key = (self.circular, self.axes)", "axes = normalize_axes(self.axes, input_shape)", "ndims = len(axes)", "w_input_shape = input_shape if self.circular else tuple([s + 1 if i in axes else s for i, s in enumerate(input_shape)])", "W = HaarTransform(w_input_shape, input_dtype=input_dtype, axes=axes, jit=True)", "if self.circular:", "    slce = snp.s_[:, 1]", "    WP, CWT = (W, W.T)", "else:", "    slce = (snp.s_[:], snp.s_[1]) + tuple([snp.s_[:-1] if i in axes else snp.s_[:] for i, s in enumerate(input_shape)])", "    pad_width = [(0, 1) if i in axes else (0, 0) for i, s in enumerate(input_shape)]", "    P = Pad(input_shape, input_dtype=input_dtype, pad_width=pad_width, mode='edge', jit=True)", "    WP = W @ P", "    C = Crop(crop_width=pad_width, input_shape=w_input_shape, input_dtype=input_dtype, jit=True)", "    CWT = C @ W.T", "return (WP, CWT, ndims, slce)"]),
  ("Loss.__mul__", ["new_loss = copy(self)", "new_loss._grad = scico.grad(new_loss.__call__)", "new_loss.set_scale(self.scale * other)", "return new_loss"]),
  ("Loss.__truediv__", ["new_loss = copy(self)", "new_loss._grad = scico.grad(new_loss.__call__)", "new_loss.set_scale(self.scale / other)", "return new_loss"]),
  ("Loss.set_scale", ["self.scale = new_scale"]),
  ("Functional.__init__", ["self._grad = scico.grad(self.__call__)"]),
  ("Functional.grad", ["return self._grad(x)"]),
  ("SubproblemSolver.internal_init", ["self.admm = admm"]),
  ("PGMStepSize.internal_init", ["self.pgm = pgm"]),
  ("_add_seed.fun_alt", ["if len(args) >= num_params:", "    key = args[num_params - 1]", "if len(args) > num_params:", "    seed = args[num_params]", "if key is not None and seed is not None:", "    raise ValueError('Key and seed cannot both be specified.')", "if key is None:", "    if seed is None:", "        seed = 0", "    key = jax.random.PRNGKey(seed)", "result = fun(key, *args[:num_params - 1], **kwargs)", "key, subkey = jax.random.split(key, 2)", "return (result, key)"]),
  ("LinearOperator.jit", ["if self._adj is None:", "    self._set_adjoint()", "if self._gram is None:", "    self._set_gram()", "self._eval = jax.jit(self._eval)", "self._adj = jax.jit(self._adj)", "self._gram = jax.jit(self._gram)"]),
  ("LinearOperator._set_adjoint", ["with jax.ensure_compile_time_eval():", "    adj_fun = linear_adjoint(self.__call__, snp.zeros(self.input_shape, dtype=self.input_dtype))", "self._adj = lambda x: adj_fun(x)[0]"]),
  ("LinearOperator._set_gram", ["self._gram = lambda x: self.adj(self(x))"]),
  ("Operator.jit", ["self._eval = jax.jit(self._eval)"]),
  ("MatrixOperator._eval", ["return self.A @ other"]),
  ("MatrixOperator.adj", ["if not isinstance(y, Operator) and y.shape != self.output_shape:", "    raise ValueError(f'Shapes do not conform: input array with shape {y.shape} does not match MatrixOperator output_shape {self.output_shape}.')", "return self.A.conj().T @ y"]),
  ("MatrixOperator.gram", ["return self.A.conj().T @ self.A @ other"]),
  ("MatrixOperator.gram_op", ["return MatrixOperator(A=self.A.conj().T @ self.A, input_cols=self.input_cols)"])
]

/-- which classes of `scico/linop` (and the operators of `functional/_tvnorm.py`) define the members the jit-slot model (§6) talks
    about, and which hand an `adj_fn` to the base-class constructor.  `_adj` defined ⇒ variant `classAdj`; `adj_fn` passed ⇒ `adjFn`;
    neither ⇒ `plain`; a class that defines `adj` / `gram` / `jit` itself (only `MatrixOperator`) is OUTSIDE `C19_jit_slots`. -/
def codeSlotOverrides : List (String × String × List String × Bool) := [
  ("scico/functional/_tvnorm.py", "SingleAxisFiniteSum", ["_eval"], false),
  ("scico/linop/_circconv.py", "CircularConvolve", ["_eval", "_adj"], false),
  ("scico/linop/_convolve.py", "Convolve", ["_eval"], false),
  ("scico/linop/_convolve.py", "ConvolveByX", ["_eval"], false),
  ("scico/linop/_dft.py", "DFT", ["_eval"], false),
  ("scico/linop/_diag.py", "Diagonal", ["_eval", "gram_op", "T", "H"], false),
  ("scico/linop/_diag.py", "Identity", ["_eval", "gram_op"], false),
  ("scico/linop/_diag.py", "ScaledIdentity", ["gram_op"], false),
  ("scico/linop/_diff.py", "SingleAxisFiniteDifference", ["_eval"], false),
  ("scico/linop/_func.py", "Slice", ["_eval"], false),
  ("scico/linop/_grad.py", "ProjectedGradient", ["_eval"], false),
  ("scico/linop/_linop.py", "ComposedLinearOperator", [], true),
  ("scico/linop/_linop.py", "LinearOperator", ["adj", "gram", "gram_op", "T", "H", "jit", "_set_adjoint", "_set_gram"], false),
  ("scico/linop/_matrix.py", "MatrixOperator", ["_eval", "adj", "gram", "gram_op", "T", "H"], false),
  ("scico/linop/_stack.py", "DiagonalStack", ["_adj"], false),
  ("scico/linop/_stack.py", "VerticalStack", ["_adj"], false),
  ("scico/linop/abel.py", "AbelTransform", ["_eval", "_adj"], true),
  ("scico/linop/optics.py", "FraunhoferPropagator", ["_eval"], false),
  ("scico/linop/optics.py", "Propagator", ["_eval"], true),
  ("scico/linop/xray/_xray.py", "XRayTransform2D", [], true),
  ("scico/linop/xray/_xray.py", "XRayTransform3D", [], true),
  ("scico/linop/xray/astra.py", "XRayTransform2D", [], true),
  ("scico/linop/xray/astra.py", "XRayTransform3D", [], true),
  ("scico/linop/xray/svmbir.py", "XRayTransform", [], true)
]

end Scico.Cache
