/-
  IR of JAX-traced programs (jaxprs) and the structural linearity checker  (DESIGN §5.6, property C06).
  Mathlib-free, executable.

  A traced program is a straight-line list of equations over numbered variables:
  variables `0 … nin-1` are the program inputs (the leaves of the operator's argument), equation `k`
  defines variable `nin + k`.  Each equation names

  * the *class* of its primitive (`PClass`, the trusted per-primitive table lives in `harness/jaxpr_ir.py`, is
    stated as the hypotheses `Interp.Sound` / `Interp.SoundAt` of the soundness theorems and is validated on the JAX
    primitives on every run, `harness/jaxpr_table.py`),
  * a primitive identifier (index into the translator's primitive-name table; only the semantics reads it — the
    verdict does not, `check_relabel`: every equation may be given its own id so that one interpretation can give
    each equation its own static parameters),
  * `params` – operands that must be input-independent (gather/scatter indices, the predicate of
    `select_n`, the start indices of `dynamic_slice`, …),
  * `args`   – the data operands.

  `check : Prog → Tag` propagates the abstract values
      const z   – does not depend on the input (z = true: known to be zero)
      linC      – linear over the full scalar field K of the interpretation (ℂ for complex operators)
      antiC     – conjugate-linear over K: additive and f (c•x) = conj c • f x  (after one `conj`)
      linR      – linear over the sub-field R only (ℝ: after `real`, `imag`, or a mix of linC and antiC)
      bad       – anything else (affine, product of two input-dependent values, non-linear primitive, …)
  through the equation list.  `Scico/Proofs/Jaxpr.lean` proves the checker sound for every
  interpretation of the primitives that satisfies the per-class facts.
-/

namespace Scico.Jaxpr

/-- class of a JAX primitive (how its output depends on its data operands, parameters fixed) -/
inductive PClass where
  /-- literal / closed-over constant; `isZero` decided numerically by the translator -/
  | lit (isZero : Bool)
  /-- jointly linear in all data operands: add, sub, neg, concatenate, pad, slice, reshape, transpose,
      rev, reduce_sum, cumsum, fft, gather / scatter-add / dynamic_slice (indices are params),
      select_n (predicate is a param), convert_element_type, copy, … -/
  | linAll
  /-- two data operands, linear in each one separately: mul, dot_general, conv_general_dilated -/
  | bilinear
  /-- two data operands (numerator, denominator): linear in the numerator for a fixed denominator -/
  | divLike
  /-- one data operand, additive and homogeneous for real scalars only: real, imag,
      convert_element_type complex → real -/
  | realPart
  /-- one data operand, additive and conjugate-homogeneous: conj -/
  | conj
  /-- everything else: abs, max, min, sign, floor, exp, sqrt, integer_pow, comparisons, … -/
  | nonlin
deriving DecidableEq, Repr, Inhabited

/-- abstract value of a variable -/
inductive Tag where
  | const (isZero : Bool)
  | linC
  | antiC
  | linR
  | bad
deriving DecidableEq, Repr, Inhabited

structure Eqn where
  cls : PClass
  prim : Nat
  params : List Nat
  args : List Nat
deriving DecidableEq, Repr, Inhabited

structure Prog where
  nin : Nat
  eqns : List Eqn
  outs : List Nat
deriving DecidableEq, Repr, Inhabited

namespace Tag

def isConst : Tag → Bool
  | const _ => true
  | _ => false

/-- tag of a jointly linear combination of two values.  A non-zero constant combined with an
    input-dependent value is affine, hence `bad`. -/
def join : Tag → Tag → Tag
  | bad, _ => bad
  | _, bad => bad
  | const a, const b => const (a && b)
  | const true, t => t
  | t, const true => t
  | const false, _ => bad
  | _, const false => bad
  | linC, linC => linC
  | antiC, antiC => antiC
  | _, _ => linR

/-- tag of a bilinear primitive applied to two values -/
def bil : Tag → Tag → Tag
  | const a, const b => const (a || b)
  | const _, linC => linC
  | const _, antiC => antiC
  | const _, linR => linR
  | linC, const _ => linC
  | antiC, const _ => antiC
  | linR, const _ => linR
  | _, _ => bad

/-- tag of `numerator / denominator` -/
def div : Tag → Tag → Tag
  | const a, const _ => const a
  | linC, const _ => linC
  | antiC, const _ => antiC
  | linR, const _ => linR
  | _, _ => bad

/-- tag of `real` / `imag` applied to a value -/
def re : Tag → Tag
  | const a => const a
  | linC => linR
  | antiC => linR
  | linR => linR
  | bad => bad

/-- tag of `conj` applied to a value: conjugating twice restores complex linearity -/
def cj : Tag → Tag
  | const a => const a
  | linC => antiC
  | antiC => linC
  | linR => linR
  | bad => bad

end Tag

/-- joint tag of a list of values (`const true` is the neutral element) -/
def joinAll : List Tag → Tag
  | [] => .const true
  | t :: ts => t.join (joinAll ts)

/-- tag of variable `i` in the tag environment (`bad` when `i` is not yet defined) -/
def tagOf (tags : List Tag) (i : Nat) : Tag := (tags[i]?).getD .bad

/-- tag of the variable defined by one equation -/
def stepTag (tags : List Tag) (e : Eqn) : Tag :=
  if (e.params.all fun i => (tagOf tags i).isConst) then
    match e.cls, e.args.map (tagOf tags) with
    | .lit z, [] => .const z
    | .linAll, ts => joinAll ts
    | .bilinear, [ta, tb] => ta.bil tb
    | .divLike, [ta, tb] => ta.div tb
    | .realPart, [ta] => ta.re
    | .conj, [ta] => ta.cj
    | .nonlin, ts => if ts.all Tag.isConst then .const false else .bad
    | _, _ => .bad
  else .bad

/-- propagate tags through the equation list -/
def checkEqns : List Eqn → List Tag → List Tag
  | [], tags => tags
  | e :: es, tags => checkEqns es (tags ++ [stepTag tags e])

/-- tags of all variables of a program (inputs are `linC`: the identity is linear) -/
def progTags (p : Prog) : List Tag := checkEqns p.eqns (List.replicate p.nin .linC)

/-- the structural linearity verdict for a program: joint tag of its outputs -/
def check (p : Prog) : Tag := joinAll (p.outs.map (tagOf (progTags p)))

/-! ### Kernel-friendly evaluation order of the same checker

  `decide +kernel` reduces lazily: with `checkEqns` the tag environment `tags ++ [stepTag tags e]` stays an
  unevaluated, growing expression (5.9 s for a 200-equation program).  `checkFast` computes the same verdict
  (`checkFast_eq_check` in `Proofs/Jaxpr.lean`) but forces every tag to a constructor before it is consed onto a
  reversed environment (0.5 s).  The generated obligations are stated with `checkFast`. -/

/-- evaluate a tag to a constructor before continuing (the kernel reduces lazily; without this the
    environment would be a growing unevaluated expression) -/
def Tag.force {α : Sort _} (t : Tag) (k : Tag → α) : α :=
  match t with
  | .const true => k (.const true)
  | .const false => k (.const false)
  | .linC => k .linC
  | .antiC => k .antiC
  | .linR => k .linR
  | .bad => k .bad

/-- lookup in the reversed tag list (`n` = number of defined variables, newest first) -/
def tagOfR (n : Nat) (rtags : List Tag) (i : Nat) : Tag :=
  if i < n then (rtags[n - 1 - i]?).getD .bad else .bad

def stepTagR (n : Nat) (rtags : List Tag) (e : Eqn) : Tag :=
  if (e.params.all fun i => (tagOfR n rtags i).isConst) then
    match e.cls, e.args.map (tagOfR n rtags) with
    | .lit z, [] => .const z
    | .linAll, ts => joinAll ts
    | .bilinear, [ta, tb] => ta.bil tb
    | .divLike, [ta, tb] => ta.div tb
    | .realPart, [ta] => ta.re
    | .conj, [ta] => ta.cj
    | .nonlin, ts => if ts.all Tag.isConst then .const false else .bad
    | _, _ => .bad
  else .bad

def checkEqnsR : List Eqn → Nat → List Tag → Nat × List Tag
  | [], n, r => (n, r)
  | e :: es, n, r => (stepTagR n r e).force fun t => checkEqnsR es (n + 1) (t :: r)

def checkFast (p : Prog) : Tag :=
  match checkEqnsR p.eqns p.nin (List.replicate p.nin .linC) with
  | (n, r) => joinAll (p.outs.map (tagOfR n r))

/-! ### Semantics (executable; the hypotheses on `den` are in `Scico/Proofs/Jaxpr.lean`) -/

/-- interpretation of the primitives in a value domain `V`:
    `den cls prim paramValues dataValues` -/
structure Interp (V : Type) where
  den : PClass → Nat → List V → List V → V

variable {V : Type} [Zero V]

/-- value of variable `i` in the environment.  An undefined variable reads `0`; `check` tags such a
    read `bad`, so no program accepted by the checker depends on this default. -/
def valOf (env : List V) (i : Nat) : V := (env[i]?).getD 0

/-- value of the variable defined by one equation -/
def stepVal (I : Interp V) (env : List V) (e : Eqn) : V :=
  I.den e.cls e.prim (e.params.map (valOf env)) (e.args.map (valOf env))

/-- run the equation list, extending the environment -/
def evalEqns (I : Interp V) : List Eqn → List V → List V
  | [], env => env
  | e :: es, env => evalEqns I es (env ++ [stepVal I env e])

/-- environment after running program `p` on input leaves `x` -/
def finalEnv (I : Interp V) (p : Prog) (x : Fin p.nin → V) : List V :=
  evalEqns I p.eqns (List.ofFn x)

/-- denotation of a program: output leaves as a function of the input leaves -/
def run (I : Interp V) (p : Prog) (x : Fin p.nin → V) : Fin p.outs.length → V :=
  fun j => valOf (finalEnv I p x) (p.outs.get j)

/-! ### How the operator calculus presents its results (round 5) -/

/-- how an operator object is PRESENTED: as a `LinearOperator` (or a subclass) or as a plain `Operator` -/
inductive OpKind where
  | linear
  | nonlinear
deriving DecidableEq, Repr

/-- class of the object returned by `A + B`, `A - B`, `A(B)`, `A @ B` (scico/linop/_linop.py: `_wrap_add_sub`,
    `LinearOperator.__call__` / `__matmul__`, and the overrides of MatrixOperator, Diagonal, ScaledIdentity, Identity,
    CircularConvolve, Convolve, ConvolveByX): a LinearOperator only when BOTH operands are LinearOperators -/
def combineKind : OpKind → OpKind → OpKind
  | .linear, .linear => .linear
  | _, _ => .nonlinear

/-! ### Row-finite sparse matrices over an operand list (the concrete array family, `Proofs/JaxprArray.lean`)

  `applyDescG T xs i = Σ_{(k, j, c) ∈ T i} c · (operand k) j`.  At `ℂ` this is `Arr.applyDesc`, proved jointly linear
  for every `T`; at `Float` the driver runs it against the JAX primitives (harness/jaxpr_family.py). -/

/-- one term of a sparse row: (operand number, entry of that operand, coefficient) -/
abbrev Term (α : Type) := Nat × Nat × α

def applyDescG {α : Type} [Add α] [Mul α] [Zero α] (T : Nat → List (Term α)) (xs : List (Nat → α)) : Nat → α :=
  fun i => ((T i).map fun t => t.2.2 * (xs.getD t.1 (fun _ => 0)) t.2.1).sum

/-! ### The rest of the concrete family (round 3): sparse bilinear forms, quotients, real parts, conjugation

  Generic over the scalar type: at `ℂ` these are proved to have the class facts for EVERY table
  (`Proofs/JaxprFamily.lean`), at complex floats the driver runs them - single equations and whole programs - against
  the JAX primitives and the scico operators (harness/jaxpr_family.py). -/

/-- `(B i)` lists `(entry of u, entry of v, coefficient)`: `out i = Σ c · u j · v k`
    (mul with broadcasting, dot_general, conv_general_dilated) -/
def applyBilG {α : Type} [Add α] [Mul α] [Zero α] (B : Nat → List (Nat × Nat × α)) (u v : Nat → α) : Nat → α :=
  fun i => ((B i).map fun t => t.2.2 * (u t.1 * v t.2.1)).sum

/-- `out i = u j / v k` with `(j, k) = D i` (div with broadcasting) -/
def applyDivG {α : Type} [Div α] (D : Nat → Nat × Nat) (u v : Nat → α) : Nat → α :=
  fun i => u (D i).1 / v (D i).2

/-- `out i = Σ re (c · u j)` over `(j, c) ∈ Rd i`, `re` = "real part, as a scalar"
    (real: c = 1; imag: c = -i; complex → real conversion; irfft) -/
def applyReG {α : Type} [Add α] [Mul α] [Zero α] (re : α → α) (Rd : Nat → List (Nat × α)) (u : Nat → α) : Nat → α :=
  fun i => ((Rd i).map fun t => re (t.2 * u t.1)).sum

/-- the tables of one program over the family: per primitive id -/
structure FamTables (α : Type) where
  lin : Nat → List (Nat → α) → Nat → List (Term α)
  bil : Nat → Nat → List (Nat × Nat × α)
  dv : Nat → Nat → Nat × Nat
  rp : Nat → Nat → List (Nat × α)
  lit : Nat → Nat → α

/-- the family as an interpretation of the primitives (`nl`: anything, for the `nonlin` class) -/
def famDen {α : Type} [Add α] [Mul α] [Zero α] [Div α] (re cj : α → α)
    (nl : Nat → List (Nat → α) → Nat → α) (F : FamTables α) :
    PClass → Nat → List (Nat → α) → List (Nat → α) → (Nat → α)
  | .lit true, _, _, _ => fun _ => 0
  | .lit false, n, _, _ => F.lit n
  | .linAll, p, ps, xs => applyDescG (F.lin p ps) xs
  | .bilinear, p, _, [u, v] => applyBilG (F.bil p) u v
  | .bilinear, _, _, _ => fun _ => 0
  | .divLike, p, _, [u, v] => applyDivG (F.dv p) u v
  | .divLike, _, _, _ => fun _ => 0
  | .realPart, p, _, [u] => applyReG re (F.rp p) u
  | .realPart, _, _, _ => fun _ => 0
  | .conj, _, _, [u] => fun i => cj (u i)
  | .conj, _, _, _ => fun _ => 0
  | .nonlin, p, _, xs => nl p xs

end Scico.Jaxpr
