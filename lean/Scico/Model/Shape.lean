/-
  Integer shape calculus of `scico/numpy/util.py` (DESIGN §4.2 `Model/Shape`).
  Mathlib-free, executable.

  * `pyIndices n sl`      : CPython's `slice.indices(n)` (PySlice_AdjustIndices), step ≠ 0
  * `sliceLen n sl`       : `scico.numpy.util.slice_length(n, slice)` for a slice object
  * `rangeList`           : the *specification*: literal enumeration of Python's `range`
-/

namespace Scico.Shape

/-- a Python slice object: each field is `none` (omitted) or an integer -/
structure PySlice where
  start : Option Int
  stop  : Option Int
  step  : Option Int
deriving Repr, DecidableEq

/-- `slice.indices(n)` for `n ≥ 0`, as CPython computes it.  `none` when `step = 0`
    (Python raises `ValueError`). -/
def pyIndices (n : Int) (sl : PySlice) : Option (Int × Int × Int) :=
  let step := sl.step.getD 1
  if step = 0 then none
  else
    let neg := step < 0
    let lower : Int := if neg then -1 else 0
    let upper : Int := if neg then n - 1 else n
    let clampIdx (v : Int) : Int :=
      if v < 0 then (if v + n < lower then lower else v + n)
      else (if v > upper then upper else v)
    let start := match sl.start with
      | none => if neg then upper else lower
      | some v => clampIdx v
    let stop := match sl.stop with
      | none => if neg then lower else upper
      | some v => clampIdx v
    some (start, stop, step)

/-- number of elements of `range(start, stop, step)` (CPython's `get_len_of_range`), `step ≠ 0` -/
def rangeLen (start stop step : Int) : Int :=
  if 0 < step then (if start < stop then (stop - start - 1) / step + 1 else 0)
  else (if stop < start then (start - stop - 1) / (-step) + 1 else 0)

/-- `slice_length(n, idx)` of scico for a slice object `idx` -/
def sliceLen (n : Int) (sl : PySlice) : Option Int :=
  match pyIndices n sl with
  | none => none
  | some (start, stop, step) => some (rangeLen start stop step)

/-- Specification: the literal enumeration performed by iterating a Python `range`:
    emit `start`, `start+step`, … while the bound has not been reached.  `fuel` bounds the
    recursion; `rangeList_length` shows any sufficient fuel gives `rangeLen` elements. -/
def rangeList (fuel : Nat) (start stop step : Int) : List Int :=
  match fuel with
  | 0 => []
  | fuel + 1 =>
    if (0 < step ∧ start < stop) ∨ (step < 0 ∧ stop < start) then
      start :: rangeList fuel (start + step) stop step
    else []

/-- the positions selected by `x[sl]` on an axis of length `n` (enumeration with fuel `n`) -/
def selected (n : Nat) (sl : PySlice) : Option (List Int) :=
  match pyIndices n sl with
  | none => none
  | some (start, stop, step) => some (rangeList n start stop step)

end Scico.Shape
