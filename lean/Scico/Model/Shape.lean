/-
  Integer shape calculus of `scico/numpy/util.py` (DESIGN §4.2 `Model/Shape`).
  Mathlib-free, executable.

  * `pyIndices n sl`      : CPython's `slice.indices(n)` (PySlice_AdjustIndices), step ≠ 0
  * `sliceLen n sl`       : `scico.numpy.util.slice_length(n, slice)` for a slice object
  * `rangeList`           : the *specification*: literal enumeration of Python's `range`
-/

namespace Scico.Shape

/-- a Python slice object: each field is `none` (omitted) or an integer -/
structure PySlice where
  start : Option Int
  stop  : Option Int
  step  : Option Int
deriving Repr, DecidableEq

/-- `slice.indices(n)` for `n ≥ 0`, as CPython computes it.  `none` when `step = 0`
    (Python raises `ValueError`). -/
def pyIndices (n : Int) (sl : PySlice) : Option (Int × Int × Int) :=
  let step := sl.step.getD 1
  if step = 0 then none
  else
    let neg := step < 0
    let lower : Int := if neg then -1 else 0
    let upper : Int := if neg then n - 1 else n
    let clampIdx (v : Int) : Int :=
      if v < 0 then (if v + n < lower then lower else v + n)
      else (if v > upper then upper else v)
    let start := match sl.start with
      | none => if neg then upper else lower
      | some v => clampIdx v
    let stop := match sl.stop with
      | none => if neg then lower else upper
      | some v => clampIdx v
    some (start, stop, step)

/-- number of elements of `range(start, stop, step)` (CPython's `get_len_of_range`), `step ≠ 0` -/
def rangeLen (start stop step : Int) : Int :=
  if 0 < step then (if start < stop then (stop - start - 1) / step + 1 else 0)
  else (if stop < start then (start - stop - 1) / (-step) + 1 else 0)

/-- `slice_length(n, idx)` of scico for a slice object `idx` -/
def sliceLen (n : Int) (sl : PySlice) : Option Int :=
  match pyIndices n sl with
  | none => none
  | some (start, stop, step) => some (rangeLen start stop step)

/-- Specification: the literal enumeration performed by iterating a Python `range`:
    emit `start`, `start+step`, … while the bound has not been reached.  `fuel` bounds the
    recursion; `rangeList_length` shows any sufficient fuel gives `rangeLen` elements. -/
def rangeList (fuel : Nat) (start stop step : Int) : List Int :=
  match fuel with
  | 0 => []
  | fuel + 1 =>
    if (0 < step ∧ start < stop) ∨ (step < 0 ∧ stop < start) then
      start :: rangeList fuel (start + step) stop step
    else []

/-- the positions selected by `x[sl]` on an axis of length `n` (enumeration with fuel `n`) -/
def selected (n : Nat) (sl : PySlice) : Option (List Int) :=
  match pyIndices n sl with
  | none => none
  | some (start, stop, step) => some (rangeList n start stop step)


/-! ### `indexed_shape` (after fix e8f5bb7): shape of `x[idx]` for a tuple of ints, slices,
    `None` (newaxis) and `Ellipsis` -/

inductive Idx where
  | int (i : Int)
  | slice (s : PySlice)
  | newaxis
  | ellipsis
deriving Repr, DecidableEq

def Idx.consumes : Idx → Bool
  | .int _ | .slice _ => true
  | _ => false

/-- `slice_length(length, idx)`: `none` = ValueError; `some none` = the axis disappears (integer
    index in range); `some (some k)` = the axis has length `k` -/
def axisLen (length : Nat) : Idx → Option (Option Nat)
  | .int i => if i < -(length : Int) ∨ i > (length : Int) - 1 then none else some none
  | .slice s => (sliceLen length s).map (fun k => some k.toNat)
  | .ellipsis => some (some length)
  | .newaxis => some (some 1)

/-- Python list `l.insert(k, v)` for `0 ≤ k` -/
def insertAt {α} (l : List α) (k : Nat) (v : α) : List α := l.take k ++ v :: l.drop k

/-- the loop of `indexed_shape`: state = (idx_shape, offset, newaxis), `axis` = loop counter -/
def indexedLoop (shape : List Nat) (numNone lenIdx : Nat) :
    List Idx → Nat → List (Option Nat) → Int → Nat → Option (List (Option Nat))
  | [], _, acc, _, _ => some acc
  | .newaxis :: rest, axis, acc, offset, newaxis =>
    let pos := (axis : Int) + offset
    if pos < 0 then none
    else indexedLoop shape numNone lenIdx rest (axis + 1) (insertAt acc pos.toNat (some 1)) offset (newaxis + 1)
  | .ellipsis :: rest, axis, acc, _, newaxis =>
    indexedLoop shape numNone lenIdx rest (axis + 1) acc
      ((shape.length : Int) + numNone - lenIdx) newaxis
  | ix :: rest, axis, acc, offset, newaxis =>
    let pos := (axis : Int) + offset
    let src := pos - newaxis
    if pos < 0 ∨ src < 0 ∨ pos.toNat ≥ acc.length ∨ src.toNat ≥ shape.length then none
    else
      match axisLen (shape.getD src.toNat 0) ix with
      | none => none
      | some v => indexedLoop shape numNone lenIdx rest (axis + 1) (acc.set pos.toNat v) offset newaxis

/-- `scico.numpy.util.indexed_shape(shape, idx)`; `none` = ValueError -/
def indexedShape (shape : List Nat) (idx : List Idx) : Option (List Nat) :=
  let numNone := (idx.filter (· = .newaxis)).length
  if (idx.filter Idx.consumes).length > shape.length then none
  else
    (indexedLoop shape numNone idx.length idx 0 (shape.map some) 0 0).map (fun l => l.filterMap id)

/-- SPECIFICATION (NumPy basic indexing): consume the axes left to right; an `Ellipsis` stands for
    as many full slices as there are axes not consumed by the other entries; missing trailing
    entries are full slices. -/
def indexWalk : List Nat → List Idx → Nat → Option (List Nat)
  | shape, [], _ => some shape
  | shape, .newaxis :: rest, fill => (indexWalk shape rest fill).map (1 :: ·)
  | shape, .ellipsis :: rest, fill => (indexWalk (shape.drop fill) rest 0).map (shape.take fill ++ ·)
  | [], _ :: _, _ => none
  | n :: shape, ix :: rest, fill =>
    match axisLen n ix with
    | none => none
    | some none => indexWalk shape rest fill
    | some (some k) => (indexWalk shape rest fill).map (k :: ·)

def indexSpec (shape : List Nat) (idx : List Idx) : Option (List Nat) :=
  let used := (idx.filter Idx.consumes).length
  if used > shape.length then none else indexWalk shape idx (shape.length - used)

/-! ### collapse rules of `scico/operator/_stack.py` (after fixes/opalg-13) -/

/-- a plain or nested shape (shared with the operator calculus) -/
inductive NShape where
  | plain (dims : List Nat)
  | nested (blocks : List (List Nat))
deriving Repr, DecidableEq

def NShape.isNested : NShape → Bool
  | .plain _ => false
  | .nested _ => true

/-- `is_collapsible` -/
def isCollapsible : List NShape → Bool
  | [] => true
  | s :: rest => !s.isNested && rest.all (· = s)

/-- `is_blockable` -/
def isBlockable (shapes : List NShape) : Bool := !shapes.any NShape.isNested

inductive Collapsed where
  | stacked (dims : List Nat)          -- a plain array (N, *S)
  | blocked (blocks : List (List Nat)) -- a BlockArray of the given blocks
deriving Repr, DecidableEq

/-- `collapse_shapes(shapes, allow_collapse)`; `none` = ValueError (twice-nested) -/
def collapseShapes (shapes : List NShape) (allow : Bool) : Option Collapsed :=
  if isCollapsible shapes && allow then
    match shapes with
    | .plain d :: _ => some (.stacked (shapes.length :: d))
    | _ => none
  else if isBlockable shapes then
    some (.blocked (shapes.filterMap (fun s => match s with | .plain d => some d | .nested _ => none)))
  else none

/-- `shape_to_size` -/
def prodList (l : List Nat) : Nat := l.foldr (· * ·) 1
def shapeToSize : NShape → Nat
  | .plain d => prodList d
  | .nested bs => (bs.map prodList).foldr (· + ·) 0

end Scico.Shape
