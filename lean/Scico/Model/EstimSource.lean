/-
  Data of the scico source that the model of `Scico/Model/Estim.lean` copies — signatures and default values of `power_iteration`,
  `operator_norm` and the three `estimate_parameters`, the literal replacing `factor=None`, the smallest accepted budget, the
  `ord` tables of `Diagonal.norm` / `ScaledIdentity.norm`, and the normalised statement lists of the transcribed functions.
  `harness/estim_translate.py` re-reads all of it from the working tree on every run; `Scico/Generated/EstimTables.lean` states (by
  `decide`) that the source still equals these tables; `Proofs/EstimSource.lean` links the tables to `diagKey`, `diagNorm`,
  `scaledIdNorm`, `pdhgEst`, `powerIteration`.  Mathlib-free.
-/
import Scico.Model.Estim

namespace Scico.Estim

/-- a default value as written in the source: `None`, an integer, a decimal `mant·10^-exp`, anything else verbatim;
    `required` = the parameter has no default -/
inductive PyLit where
  | none
  | int (n : Int)
  | dec (mant : Int) (exp : Nat)
  | other (src : String)
  | required
deriving DecidableEq, Repr

/-- the remapping chain `if mord is None: … elif mord in (…): …` applied to an order: first branch that lists it -/
def remapOrd (tbl : List (List Ord × Ord)) (o : Ord) : Ord :=
  match tbl.find? (fun r => r.1.contains o) with
  | some r => r.2
  | Option.none => o

/-- the entry of a table keyed by lists of orders (`if ord in (…): return <expr>`) -/
def branchOf (tbl : List (List Ord × String)) (o : Ord) : Option String :=
  (tbl.find? (fun r => r.1.contains o)).map (·.2)

/-- default of parameter `p` of function `f` -/
def defaultOf (sigs : List (String × List (String × PyLit))) (f p : String) : Option PyLit :=
  ((sigs.find? (fun r => r.1 == f)).bind (fun r => r.2.find? (fun q => q.1 == p))).map (·.2)

/-! ## the tables (copied from the source; kept equal to it by the generated obligations) -/

def estimSignatures : List (String × List (String × PyLit)) := [
  ("power_iteration", [("A", PyLit.required), ("maxiter", PyLit.int (100)), ("key", PyLit.none)]),
  ("operator_norm", [("A", PyLit.required), ("maxiter", PyLit.int (100)), ("key", PyLit.none)]),
  ("PDHG.estimate_parameters", [("C", PyLit.required), ("x", PyLit.none), ("ratio", PyLit.dec (10) 1), ("factor", PyLit.dec (101) 2), ("maxiter", PyLit.int (100)), ("key", PyLit.none)]),
  ("ProximalADMM.estimate_parameters", [("A", PyLit.required), ("B", PyLit.none), ("factor", PyLit.dec (101) 2), ("maxiter", PyLit.int (100)), ("key", PyLit.none)]),
  ("NonLinearPADMM.estimate_parameters", [("H", PyLit.required), ("x", PyLit.none), ("z", PyLit.none), ("factor", PyLit.dec (101) 2), ("maxiter", PyLit.int (100)), ("key", PyLit.none)])]

def pdhgFactorNone : PyLit := PyLit.dec (10) 1

def powerMinBudget : PyLit := PyLit.int (1)

def diagOrdFunc : List (Ord × String) := [(Ord.fro, "lambda x: snp.linalg.norm(x)"), (Ord.nuc, "lambda x: snp.sum(snp.abs(x))"), (Ord.ninf, "absmin"), (Ord.pinf, "absmax")]

def diagRemap : List (List Ord × Ord) := [([Ord.none], Ord.fro), ([Ord.int (-1), Ord.int (-2)], Ord.ninf), ([Ord.int (1), Ord.int (2)], Ord.pinf)]

def sidBranches : List (List Ord × String) := [([Ord.none, Ord.fro], "snp.abs(scalar) * snp.sqrt(N)"), ([Ord.nuc], "snp.abs(scalar) * N"), ([Ord.ninf, Ord.int (-1), Ord.int (-2), Ord.int (1), Ord.int (2), Ord.pinf], "snp.abs(scalar)")]

def sourceSkeletons : List (String × List (Nat × String)) := [
  ("power_iteration", [
    (0, "if maxiter < 1:"),
    (1, "raise ValueError"),
    (0, "v, key = randn(shape=A.input_shape, key=key, dtype=A.input_dtype)"),
    (0, "v = v / snp.linalg.norm(v)"),
    (0, "for i in range(maxiter):"),
    (1, "Av = A @ v"),
    (1, "normAv = snp.linalg.norm(Av)"),
    (1, "if normAv == 0.0:"),
    (2, "mu = 0.0"),
    (2, "v = Av"),
    (2, "break"),
    (1, "mu = snp.sum(v.conj() * Av) / snp.linalg.norm(v) ** 2"),
    (1, "v = Av / normAv"),
    (0, "return (mu, v)")]),
  ("operator_norm", [
    (0, "return snp.sqrt(power_iteration(A.H @ A, maxiter, key)[0].real)")]),
  ("PDHG.estimate_parameters", [
    (0, "if x is None:"),
    (1, "x = snp.zeros(C.input_shape, dtype=C.input_dtype)"),
    (0, "if factor is None:"),
    (1, "factor = 1.0"),
    (0, "if isinstance(C, LinearOperator):"),
    (1, "J = C"),
    (0, "else:"),
    (1, "J = jacobian(C, x)"),
    (0, "Cnrm = operator_norm(J, maxiter=maxiter, key=key)"),
    (0, "tau = 1.0 / (snp.sqrt(factor * ratio) * Cnrm)"),
    (0, "sigma = ratio * tau"),
    (0, "return (tau, sigma)")]),
  ("ProximalADMM.estimate_parameters", [
    (0, "if B is None:"),
    (1, "B = -Identity(A.output_shape, A.output_dtype)"),
    (0, "assert isinstance(B, LinearOperator)"),
    (0, "mu = operator_norm(A, maxiter=maxiter, key=key) ** 2"),
    (0, "nu = operator_norm(B, maxiter=maxiter, key=key) ** 2"),
    (0, "if factor is None:"),
    (1, "return (mu, nu)"),
    (0, "else:"),
    (1, "return (factor * mu, factor * nu)")]),
  ("NonLinearPADMM.estimate_parameters", [
    (0, "if x is None:"),
    (1, "x = snp.zeros(H.input_shapes[0], dtype=H.input_dtypes[0])"),
    (0, "if z is None:"),
    (1, "z = snp.zeros(H.input_shapes[1], dtype=H.input_dtypes[1])"),
    (0, "Jx = H.jacobian(0, x, z)"),
    (0, "Jz = H.jacobian(1, x, z)"),
    (0, "mu = operator_norm(Jx, maxiter=maxiter, key=key) ** 2"),
    (0, "nu = operator_norm(Jz, maxiter=maxiter, key=key) ** 2"),
    (0, "if factor is None:"),
    (1, "return (mu, nu)"),
    (0, "else:"),
    (1, "return (factor * mu, factor * nu)")]),
  ("Diagonal.norm", [
    (0, "def absmin(x):"),
    (1, "x = snp.abs(x)"),
    (1, "return min((blk.min() for blk in x)) if isinstance(x, BlockArray) else x.min()"),
    (0, "def absmax(x):"),
    (1, "x = snp.abs(x)"),
    (1, "return max((blk.max() for blk in x)) if isinstance(x, BlockArray) else x.max()"),
    (0, "ordfunc = {'fro': lambda x: snp.linalg.norm(x), 'nuc': lambda x: snp.sum(snp.abs(x)), -snp.inf: absmin, snp.inf: absmax}"),
    (0, "mord = ord"),
    (0, "if mord is None:"),
    (1, "mord = 'fro'"),
    (0, "elif mord in (-1, -2):"),
    (1, "mord = -snp.inf"),
    (0, "elif mord in (1, 2):"),
    (1, "mord = snp.inf"),
    (0, "if mord not in ordfunc:"),
    (1, "raise ValueError"),
    (0, "if self.output_shape != self.input_shape:"),
    (1, "raise ValueError"),
    (0, "diagonal = self._diagonal"),
    (0, "if diagonal.shape != self.input_shape:"),
    (1, "diagonal = diagonal * snp.ones(self.input_shape, dtype=diagonal.dtype)"),
    (0, "return ordfunc[mord](diagonal)")]),
  ("ScaledIdentity.norm", [
    (0, "N = self.input_size"),
    (0, "scalar = self._diagonal[0] if is_nested(self.input_shape) else self._diagonal"),
    (0, "if ord is None or ord == 'fro':"),
    (1, "return snp.abs(scalar) * snp.sqrt(N)"),
    (0, "elif ord == 'nuc':"),
    (1, "return snp.abs(scalar) * N"),
    (0, "elif ord in (-snp.inf, -1, -2, 1, 2, snp.inf):"),
    (1, "return snp.abs(scalar)"),
    (0, "else:"),
    (1, "raise ValueError")]),
  ("MatrixOperator.norm", [
    (0, "return snp.linalg.norm(self.A, ord=ord, axis=axis, keepdims=keepdims)")])]

end Scico.Estim
