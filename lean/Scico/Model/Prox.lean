/-
  Executable model of the closed-form proximal maps of scico (DESIGN §4.2 `Model/Prox`, §5.2).
  Mathlib-free.  Every definition is polymorphic over the operations it uses, so the SAME
  definition runs at `Float` in `Drv/Prox.lean` and is reasoned about at `ℝ` (or an ordered
  field) in `Scico/Proofs/Prox*.lean`.

  Source ↔ model map (file: class.method → definition).  The model follows the code as written:
  branch tests, order of operands, the zero guards (`no_nan_divide`, `norm_v == 0`, `r > 0`).

  scico/functional/_norm.py
    L0Norm.prox                       → `l0Prox1` / `l0Prox` ; complex `l0ProxC1`   (threshold |v| ≥ lam, AS CODED)
    L1Norm.prox                       → `l1Prox1` / `l1Prox` ; complex `l1ProxC1`   (phase = v/|v|, 1 at 0)
    SquaredL2Norm.prox                → `sqL2Prox`
    L2Norm.prox                       → `l2Prox`              (`norm_v == 0` test, `max(1-lam/‖v‖,0)`)
    L21Norm.prox                      → `l21Prox`             (groups given by a labelling `grp`; the labelling of
                                        `l2_axis` on an N-d array is `axisGroup shape (normAxes nd l2_axis)`, of a block array `blockGroup sizes`)
    HuberNorm._prox_sep / _prox_nonsep→ `huberSepProx1`, `huberSepProxC1`, `huberNonsepProx`
    L1MinusL2Norm.prox                → `l1l2Prox`, complex `l1l2ProxC` (the four `where` branches, first arg-max)
    NuclearNorm.prox (on svdS)        → `nuclearSvProx`; with the SVD factors: `nuclearProx U s Vh` (= U diag(..) Vh)
  scico/functional/_indicator.py
    NonNegativeIndicator.prox         → `nonnegProx`
    L2BallIndicator.prox              → `l2ballProx` (`v * (r / max(‖v‖, r))`, the code after fix b3feb73)
                                        `l2ballProxPinned` (what the pinned tree computed: r·v/‖v‖ always)
  scico/functional/_dist.py
    SetDistance.prox                  → `setDistProx`   (projection value `y = proj v` is an input)
    SquaredSetDistance.prox           → `sqSetDistProx`
  scico/functional/_functional.py
    ZeroFunctional.prox               → `zeroProx`
  scico/loss.py
    Loss.prox (generic, A Identity)   → `lossTranslateProx` ; Loss.__mul__/__truediv__/set_scale → `scaleAfter`
    SquaredL2Loss.prox (A Diagonal/Identity) → `sqL2LossDiagProx`, complex `sqL2LossDiagProxC`
    SquaredL2Loss.prox (other linear A, CG) → `sqL2LossSysResidual` (residual of the documented system; `matVec`, `matTVec`)
    SquaredL2AbsLoss.prox             → `sqL2AbsProx1`, complex `sqL2AbsProxC1`
    SquaredL2SquaredAbsLoss.prox      → `sqL2SqAbsProx1`, complex `sqL2SqAbsProxC1` (cubic root `r` is an input;
                                        `depCubicP/Q` are the coefficients handed to `_dep_cubic_root`)
    _dep_cubic_root / _cbrt           → `depCubicRoot`, `cbrtC`, `cpowThird`, `csqrtReal` (complex arithmetic on pairs; the
                                        transcendental primitives are the class `HasTrig`); `sqL2SqAbsProxFull1/C1` =
                                        the prox with the root computed by the model
  scico/numpy/util.py
    no_nan_divide                     → `noNanDiv`

  Conventions.
  * Equality tests of the code (`== 0`, `!= 0`) are written with `<` only (`isZero`), which `Float`
    decides and which is equality in an ordered field.  NaN inputs are outside the domain.
  * `maxP a b` is `jnp.maximum` for non-NaN operands: `if a < b then b else a`.
  * `0.5 * x` is written `x / 2` (identical in binary floating point).
  * Complex numbers are pairs `(re, im)`; `cabs` is the modulus; `cphase` models
    `exp(1j*angle(v))` as `v/|v|` (and `1` at `v = 0`, because `angle(0) = 0`).
  * Block arrays / N-d arrays are passed flattened; the group structure of `L21Norm`
    (axis or blocks) is the labelling `grp`.
  * DEFINITIONS HERE ARE IMPORTED BY OTHER ENGINES (ProxCalc): keep names and argument order stable.
-/
import Scico.Common.Scalar

namespace Scico.Prox

open Scico

section Scalar

variable {α : Type} [Add α] [Sub α] [Mul α] [Div α] [Neg α] [Zero α] [One α] [OfNat α 2] [OfNat α 4]
  [LT α] [DecidableLT α] [HasAbs α] [HasSqrt α]

/-- `jnp.maximum` on non-NaN operands -/
def maxP (a b : α) : α := if a < b then b else a

/-- the code's `x == 0` written with `<` only -/
def isZero (a : α) : Bool := !(decide (0 < a)) && !(decide (a < 0))

/-- `snp.sign` for real arguments -/
def sign (v : α) : α := if 0 < v then 1 else if v < 0 then -1 else 0

/-- `0.5 * (t + |t|)` : the positive part as the code computes it -/
def posPart (t : α) : α := (t + HasAbs.abs t) / 2

/-- `scico.numpy.util.no_nan_divide` (scalar) -/
def noNanDiv (x y : α) : α := if isZero y then 0 else x / y

/-- `L0Norm.prox` on one real entry: `where(|v| >= lam, v, 0)`  (threshold as coded) -/
def l0Prox1 (v lam : α) : α := if HasAbs.abs v < lam then 0 else v

/-- `L0Norm.prox` on one entry, NaN-faithful transcription of `where(|v| >= lam, v, 0)` (needs `≤`): a NaN entry fails the test and
    becomes `0`; on non-NaN data it is `l0Prox1` (theorem `ProxXR.l0_fin`) -/
def l0Prox1X [LE α] [DecidableLE α] (v lam : α) : α := if lam ≤ HasAbs.abs v then v else 0

/-- `L1Norm.prox` on one real entry: `sign(v) * 0.5*(t+|t|)`, `t = |v|-lam` -/
def l1Prox1 (v lam : α) : α := sign v * posPart (HasAbs.abs v - lam)

/-- `SquaredL2Norm.prox` on one entry -/
def sqL2Prox1 (v lam : α) : α := v / (1 + 2 * lam)

/-- `HuberNorm._prox_sep` on one real entry -/
def huberSepProx1 (delta v lam : α) : α :=
  (1 - (delta * lam) / maxP (HasAbs.abs v) (delta * (1 + lam))) * v

/-- `NonNegativeIndicator.prox` on one entry -/
def nonnegProx1 (v : α) : α := maxP v 0

/-- `SquaredL2AbsLoss.prox` on one real entry (`w` = entry of `W.diagonal`, `y ≥ 0` the datum) -/
def sqL2AbsProx1 (scale w y v lam : α) : α :=
  let a := lam * 2 * scale * w
  let r := HasAbs.abs v
  let b := (a * y + r) / (a + 1)
  if 0 < r then (b / r) * v else b

/-- coefficient `p` handed to `_dep_cubic_root` by `SquaredL2SquaredAbsLoss.prox` -/
def depCubicP (scale w y lam : α) : α :=
  let a := lam * 4 * scale * w
  noNanDiv (1 - a * y) a

/-- coefficient `q` handed to `_dep_cubic_root` (`absv` = `|v|`) -/
def depCubicQ (scale w absv lam : α) : α :=
  let a := lam * 4 * scale * w
  noNanDiv (-absv) a

/-- `SquaredL2SquaredAbsLoss.prox` on one real entry; `r` is the value returned by
    `_dep_cubic_root (depCubicP ..) (depCubicQ ..)` -/
def sqL2SqAbsProx1 (scale w v lam r : α) : α :=
  let a := lam * 4 * scale * w
  let b := HasAbs.abs v
  let ph := if 0 < b then v / b else 1
  if 0 < a then r * ph else v

/-! ### complex scalars as pairs -/

/-- modulus of `(re, im)` -/
def cabs (z : α × α) : α := HasSqrt.sqrt (z.1 * z.1 + z.2 * z.2)

/-- real scalar times complex -/
def cscale (c : α) (z : α × α) : α × α := (c * z.1, c * z.2)

/-- `exp(1j * angle z)` modelled as `z/|z|`, and `1` at `z = 0` -/
def cphase (z : α × α) : α × α :=
  let r := cabs z
  if 0 < r then (z.1 / r, z.2 / r) else (1, 0)

def cadd (z w : α × α) : α × α := (z.1 + w.1, z.2 + w.2)
def cmul (z w : α × α) : α × α := (z.1 * w.1 - z.2 * w.2, z.1 * w.2 + z.2 * w.1)
def cconj (z : α × α) : α × α := (z.1, -z.2)
/-- complex divided by real -/
def cdivr (z : α × α) (c : α) : α × α := (z.1 / c, z.2 / c)

/-- `L0Norm.prox` on one complex entry -/
def l0ProxC1 (z : α × α) (lam : α) : α × α := if cabs z < lam then (0, 0) else z

/-- `L1Norm.prox` on one complex entry: `exp(1j*angle(v)) * tmp` -/
def l1ProxC1 (z : α × α) (lam : α) : α × α := cscale (posPart (cabs z - lam)) (cphase z)

/-- `HuberNorm._prox_sep` on one complex entry -/
def huberSepProxC1 (delta : α) (z : α × α) (lam : α) : α × α :=
  cscale (1 - (delta * lam) / maxP (cabs z) (delta * (1 + lam))) z

/-- `SquaredL2AbsLoss.prox` on one complex entry: `where(r > 0, (b/r)*v, b)` -/
def sqL2AbsProxC1 (scale w y : α) (z : α × α) (lam : α) : α × α :=
  let a := lam * 2 * scale * w
  let r := cabs z
  let b := (a * y + r) / (a + 1)
  if 0 < r then cscale (b / r) z else (b, 0)

/-- `SquaredL2SquaredAbsLoss.prox` on one complex entry -/
def sqL2SqAbsProxC1 (scale w : α) (z : α × α) (lam r : α) : α × α :=
  let a := lam * 4 * scale * w
  let b := cabs z
  let ph : α × α := if 0 < b then cdivr z b else (1, 0)
  if 0 < a then cscale r ph else z

/-- `SquaredL2Loss.prox` with `A` diagonal, one complex entry: `(c·conj(a)·w·y + v) / (c·conj(a)·w·a + 1)`.
    The denominator `c·w·|a|² + 1` is real. -/
def sqL2LossDiagProxC1 (scale w : α) (a y v : α × α) (lam : α) : α × α :=
  let c := 2 * scale * lam
  let num := cadd (cscale (c * w) (cmul (cconj a) y)) v
  let den := c * w * (a.1 * a.1 + a.2 * a.2) + 1
  cdivr num den

/-- `SquaredL2Loss.prox` with `A` diagonal, one real entry -/
def sqL2LossDiagProx1 (scale w a y v lam : α) : α :=
  let c := 2 * scale * lam
  (c * a * w * y + v) / (c * a * w * a + 1)

end Scalar

section Vector

variable {α : Type} [Add α] [Sub α] [Mul α] [Div α] [Neg α] [Zero α] [One α] [OfNat α 2] [OfNat α 4]
  [LT α] [DecidableLT α] [HasAbs α] [HasSqrt α] {n : Nat}

def l0Prox (v : Vec α n) (lam : α) : Vec α n := fun i => l0Prox1 (v i) lam
def l1Prox (v : Vec α n) (lam : α) : Vec α n := fun i => l1Prox1 (v i) lam
def l0ProxC (v : Vec (α × α) n) (lam : α) : Vec (α × α) n := fun i => l0ProxC1 (v i) lam
def l1ProxC (v : Vec (α × α) n) (lam : α) : Vec (α × α) n := fun i => l1ProxC1 (v i) lam
def sqL2Prox (v : Vec α n) (lam : α) : Vec α n := fun i => sqL2Prox1 (v i) lam
def huberSepProx (delta : α) (v : Vec α n) (lam : α) : Vec α n := fun i => huberSepProx1 delta (v i) lam
def huberSepProxC (delta : α) (v : Vec (α × α) n) (lam : α) : Vec (α × α) n :=
  fun i => huberSepProxC1 delta (v i) lam
def nonnegProx (v : Vec α n) : Vec α n := fun i => nonnegProx1 (v i)
/-- `ZeroFunctional.prox` -/
def zeroProx (v : Vec α n) : Vec α n := v

/-- `norm(v)` : the Euclidean norm of the flattened (block) array; for complex data the
    vector of real and imaginary parts -/
def norm2 (v : Vec α n) : α := HasSqrt.sqrt (Vec.sum (fun i => v i * v i))

/-- `L2Norm.prox` : `where(norm_v == 0, 0*v, maximum(1 - lam/norm_v, 0) * v)` -/
def l2Prox (v : Vec α n) (lam : α) : Vec α n :=
  let nv := norm2 v
  if isZero nv then fun i => 0 * v i else fun i => maxP (1 - lam / nv) 0 * v i

/-- `L21Norm._l2norm(v, axis, keepdims=True)` broadcast back to entry `i`: the Euclidean norm
    of the group of `i`.  `grp` labels the groups (the index along the non-reduced axes, or the
    block number for block input with `l2_axis=None`). -/
def groupLen (grp : Fin n → Nat) (v : Vec α n) (i : Fin n) : α :=
  HasSqrt.sqrt (Vec.sum (fun j => if grp j = grp i then v j * v j else 0))

/-- `L21Norm.prox` : `new_length * no_nan_divide(v, length)`, `new_length = 0.5*(t+|t|)`, `t = length - lam` -/
def l21Prox (grp : Fin n → Nat) (v : Vec α n) (lam : α) : Vec α n := fun i =>
  let len := groupLen grp v i
  posPart (len - lam) * noNanDiv (v i) len

/-- `HuberNorm._prox_nonsep` -/
def huberNonsepProx (delta : α) (v : Vec α n) (lam : α) : Vec α n :=
  let den := maxP (norm2 v) (delta * (1 + lam))
  fun i => (1 - (delta * lam) / den) * v i

/-- `L2BallIndicator.prox` (after repo commit b3feb73): `v * (radius / maximum(norm(v), radius))`,
    the projection onto the ball of radius `r > 0` -/
def l2ballProx (r : α) (v : Vec α n) : Vec α n :=
  let nv := norm2 v
  fun i => v i * (r / maxP nv r)

/-- what the pinned tree computed: `radius * v / norm(v)` for every `v` -/
def l2ballProxPinned (r : α) (v : Vec α n) : Vec α n :=
  let nv := norm2 v
  fun i => r * v i / nv

/-- `SetDistance.prox` ; `y = proj(v)` -/
def setDistProx (v y : Vec α n) (lam : α) : Vec α n :=
  let d := norm2 (fun i => v i - y i)
  let th := if d < lam then 1 else lam / d
  fun i => th * y i + (1 - th) * v i

/-- `SquaredSetDistance.prox` ; `y = proj(v)` -/
def sqSetDistProx (v y : Vec α n) (lam : α) : Vec α n :=
  let a := 1 / (1 + lam)
  fun i => a * v i + lam * a * y i

/-- `NuclearNorm.prox` on the vector of singular values: `maximum(0, s - lam)` -/
def nuclearSvProx (s : Vec α n) (lam : α) : Vec α n := fun i => maxP 0 (s i - lam)

def sqL2LossDiagProx (scale : α) (w a y v : Vec α n) (lam : α) : Vec α n :=
  fun i => sqL2LossDiagProx1 scale (w i) (a i) (y i) (v i) lam
def sqL2LossDiagProxC (scale : α) (w : Vec α n) (a y v : Vec (α × α) n) (lam : α) : Vec (α × α) n :=
  fun i => sqL2LossDiagProxC1 scale (w i) (a i) (y i) (v i) lam
def sqL2AbsProx (scale : α) (w y v : Vec α n) (lam : α) : Vec α n :=
  fun i => sqL2AbsProx1 scale (w i) (y i) (v i) lam
def sqL2AbsProxC (scale : α) (w y : Vec α n) (v : Vec (α × α) n) (lam : α) : Vec (α × α) n :=
  fun i => sqL2AbsProxC1 scale (w i) (y i) (v i) lam
def sqL2SqAbsProx (scale : α) (w v : Vec α n) (lam : α) (r : Vec α n) : Vec α n :=
  fun i => sqL2SqAbsProx1 scale (w i) (v i) lam (r i)
def sqL2SqAbsProxC (scale : α) (w : Vec α n) (v : Vec (α × α) n) (lam : α) (r : Vec α n) :
    Vec (α × α) n :=
  fun i => sqL2SqAbsProxC1 scale (w i) (v i) lam (r i)

/-! ### `L1MinusL2Norm.prox` -/

/-- `snp.max(va)` for a vector of absolute values (all `≥ 0`, so the fold may start at `0`;
    the code raises on an empty array, which is outside the model) -/
def vmax (va : Vec α n) : α := (List.ofFn va).foldl maxP 0

/-- `va.ravel().argmax()` : FIRST index attaining the maximum (`none` for `n = 0`) -/
def argmaxFirst (va : Vec α n) : Option (Fin n) :=
  (List.finRange n).foldl
    (fun acc i => match acc with
      | none => some i
      | some j => if va j < va i then some i else some j) none

/-- `L1MinusL2Norm.prox` for real `v` (alpha = lam):
    * `vamx > alpha` : shrink, then rescale by `(‖u‖ + alpha·beta)/‖u‖`
    * `(1-beta)·alpha ≤ vamx ≤ alpha` : one-sparse vector at the first arg-max
    * `vamx < (1-beta)·alpha` : zero
    * `vamx = 0` (i.e. `v = 0`, code after fix cda1690) : `max(beta-1, 0)·alpha` in entry 0, zero elsewhere -/
def l1l2Prox (beta : α) (v : Vec α n) (lam : α) : Vec α n :=
  let va : Vec α n := fun i => HasAbs.abs (v i)
  let vamx := vmax va
  if 0 < vamx then
    if lam < vamx then
      let u : Vec α n := fun i => maxP (va i - lam) 0 * sign (v i)
      let l2u := norm2 u
      fun i => u i * ((l2u + lam * beta) / l2u)
    else if vamx < (1 - beta) * lam then fun _ => 0
    else
      match argmaxFirst va with
      | none => fun _ => 0
      | some k => fun i => if i = k then (va k + (beta - 1) * lam) * sign (v k) else 0
  else fun i => if i.val = 0 then maxP (beta - 1) 0 * lam else 0

/-- `L1MinusL2Norm.prox` for complex `v`: the code works with `va = |v|` and `vs = exp(1j*angle v)` only, so the
    result is the real map applied to the moduli, multiplied entry-wise by the phases -/
def l1l2ProxC (beta : α) (v : Vec (α × α) n) (lam : α) : Vec (α × α) n :=
  let r := l1l2Prox beta (fun i => cabs (v i)) lam
  fun i => cscale (r i) (cphase (v i))

/-! ### generic `Loss` with identity forward operator, and rescaling of losses -/

/-- `Loss.prox` (scico/loss.py, `A` an `Identity`, functional `f` given): `f.prox(v - y, scale*lam) + y`.
    `fprox` is the prox of the wrapped functional. -/
def lossTranslateProx (fprox : Vec α n → α → Vec α n) (scale : α) (y v : Vec α n) (lam : α) : Vec α n :=
  let p := fprox (fun i => v i - y i) (scale * lam)
  fun i => p i + y i

end Vector

/-- `Loss.__mul__` / `__rmul__` (`scale*c`), `Loss.__truediv__` (`scale/c`), `Loss.set_scale` (`c`) -/
inductive ScaleOp (α : Type) where
  | mul (c : α)
  | div (c : α)
  | set (c : α)

/-- the `scale` attribute a loss carries after a sequence of rescalings; every prox of a loss reads THIS value
    (nothing scale-dependent may be cached at construction) -/
def scaleAfter {α : Type} [Mul α] [Div α] (s0 : α) (ops : List (ScaleOp α)) : α :=
  ops.foldl (fun s op => match op with
    | .mul c => s * c
    | .div c => s / c
    | .set c => c) s0

/-- the scale the ORIGINAL loss object carries after the same history: `c*L`, `L*c`, `L/c` return a copy (`copy(self)`,
    the original is not touched, nor by anything done to the copy afterwards); `set_scale` mutates the object it is called on -/
def scaleOfOriginal {α : Type} (s0 : α) : List (ScaleOp α) → α
  | .set c :: rest => scaleOfOriginal c rest
  | _ => s0

/-! ### `SquaredL2Loss.prox` with a general linear operator: the system handed to `cg` -/

section CGSystem

variable {α : Type} [Add α] [Sub α] [Mul α] [Zero α] [OfNat α 2] {m n : Nat}

/-- `A(x)` for a dense matrix -/
def matVec (A : Fin m → Fin n → α) (x : Vec α n) : Vec α m := fun i => Vec.sum (fun j => A i j * x j)

/-- `A.adj(z)` (real data) -/
def matTVec (A : Fin m → Fin n → α) (z : Vec α m) : Vec α n := fun j => Vec.sum (fun i => A i j * z i)

/-- residual `lhs(x) - rhs` of the system of `SquaredL2Loss.prox` (non-diagonal `A`):
    `lhs = Identity + lam * hessian`, `hessian(x) = 2*scale*A.adj(W(A(x)))`, `rhs = v + 2*lam*scale*A.adj(W(y))` -/
def sqL2LossSysResidual (scale : α) (w : Vec α m) (A : Fin m → Fin n → α) (y : Vec α m) (v x : Vec α n) (lam : α) : Vec α n :=
  let c := 2 * scale * lam
  fun j => (x j + c * matTVec A (fun i => w i * matVec A x i) j) - (v j + c * matTVec A (fun i => w i * y i) j)

end CGSystem

/-- the value of a public parameter attribute (`radius`, `delta`, `beta`, `scale`, ...) that a `prox` call must use after the
    attribute was assigned `assigns` (in this order) on the SAME object, whatever was computed before: the last assignment
    (nothing parameter-dependent may be cached at construction or at an earlier call) -/
def paramAfter {α : Type} (p0 : α) (assigns : List α) : α := assigns.foldl (fun _ c => c) p0

/-! ### `loss._dep_cubic_root`, `loss._cbrt` -/

/-- transcendental primitives needed by `loss._cbrt` / the complex power `z ** (1/3)`; contracts of the JAX
    primitives (`Float` instance in the driver, `ℝ` instance in `Proofs/ProxCubic.lean`) -/
class HasTrig (α : Type) where
  cos : α → α
  sin : α → α
  /-- `atan2 y x` : the angle of `x + i y`, in `(-π, π]` (`snp.angle`) -/
  atan2 : α → α → α
  /-- cube root of a NON-NEGATIVE real (`x ** (1/3)`) -/
  cbrt : α → α
  pi : α

section Cubic

variable {α : Type} [Add α] [Sub α] [Mul α] [Div α] [Neg α] [Zero α] [One α] [OfNat α 2] [OfNat α 3] [OfNat α 4]
  [OfNat α 27] [LT α] [DecidableLT α] [HasAbs α] [HasSqrt α] [HasTrig α]

/-- `snp.sqrt(d + 0j)` for a real `d`: the principal complex square root (`i·√(-d)` for `d < 0`) -/
def csqrtReal (d : α) : α × α := if d < 0 then (0, HasSqrt.sqrt (-d)) else (HasSqrt.sqrt d, 0)

/-- `z ** (1/3)`, the principal complex power `exp(log(z)/3) = |z|^(1/3)·(cos(θ/3) + i sin(θ/3))`, `θ = angle z`;
    `0` at `z = 0` -/
def cpowThird (z : α × α) : α × α :=
  let rho := cabs z
  if 0 < rho then
    let th := HasTrig.atan2 z.2 z.1
    (HasTrig.cbrt rho * HasTrig.cos (th / 3), HasTrig.cbrt rho * HasTrig.sin (th / 3))
  else (0, 0)

/-- `loss._cbrt` : `s * (s*x) ** (1/3)` with `s = where(|angle x| <= 2π/3, 1, -1)` -/
def cbrtC (z : α × α) : α × α :=
  if 2 * HasTrig.pi / 3 < HasAbs.abs (HasTrig.atan2 z.2 z.1) then cscale (-1) (cpowThird (cscale (-1) z))
  else cpowThird z

/-- real part of `no_nan_divide(p, t)` for a real numerator `p` and a complex denominator `t` -/
def reNoNanDivC (p : α) (t : α × α) : α :=
  if isZero t.1 && isZero t.2 then 0 else p * t.1 / (t.1 * t.1 + t.2 * t.2)

/-- `loss._dep_cubic_root(p, q)`:
    `Δ = q²/4 + p³/27; w3 = where(|p| <= eps, -q, -q/2 + sqrt(Δ + 0j)); w = _cbrt(w3); r = (w - no_nan_divide(p, 3w)).real`
    (`eps` is the literal `1e-7` of the code) -/
def depCubicRoot (eps p q : α) : α :=
  let d := q * q / 4 + p * p * p / 27
  let w3 : α × α := if eps < HasAbs.abs p then cadd (-q / 2, 0) (csqrtReal d) else (-q, 0)
  let w := cbrtC w3
  w.1 - reNoNanDivC p (cscale 3 w)

/-- `SquaredL2SquaredAbsLoss.prox` on one real entry with the root computed by the model of `_dep_cubic_root` -/
def sqL2SqAbsProxFull1 (eps scale w y v lam : α) : α :=
  sqL2SqAbsProx1 scale w v lam (depCubicRoot eps (depCubicP scale w y lam) (depCubicQ scale w (HasAbs.abs v) lam))

/-- the same on one complex entry -/
def sqL2SqAbsProxFullC1 (eps scale w y : α) (z : α × α) (lam : α) : α × α :=
  sqL2SqAbsProxC1 scale w z lam (depCubicRoot eps (depCubicP scale w y lam) (depCubicQ scale w (cabs z) lam))

end Cubic

section CubicVec

variable {α : Type} [Add α] [Sub α] [Mul α] [Div α] [Neg α] [Zero α] [One α] [OfNat α 2] [OfNat α 3] [OfNat α 4]
  [OfNat α 27] [LT α] [DecidableLT α] [HasAbs α] [HasSqrt α] [HasTrig α] {n : Nat}

/-- `SquaredL2SquaredAbsLoss.prox` (real input) with the root computed by the model of `_dep_cubic_root` -/
def sqL2SqAbsProxFull (eps scale : α) (w y v : Vec α n) (lam : α) : Vec α n :=
  fun i => sqL2SqAbsProxFull1 eps scale (w i) (y i) (v i) lam

/-- the same for complex input -/
def sqL2SqAbsProxFullC (eps scale : α) (w y : Vec α n) (v : Vec (α × α) n) (lam : α) : Vec (α × α) n :=
  fun i => sqL2SqAbsProxFullC1 eps scale (w i) (y i) (v i) lam

end CubicVec

/-! ### `NuclearNorm.prox` from the factors of the thin SVD -/

section Nuclear

variable {α : Type} [Add α] [Sub α] [Mul α] [Zero α] [LT α] [DecidableLT α] {m n k : Nat}

/-- `NuclearNorm.prox` given what `svd(v, full_matrices=False)` returned (`U : m×k`, `s : k`, `Vh : k×n`):
    `svdU @ diag(maximum(0, svdS - lam)) @ svdV` -/
def nuclearProx (U : Fin m → Fin k → α) (s : Vec α k) (Vh : Fin k → Fin n → α) (lam : α) : Fin m → Fin n → α :=
  fun i j => Vec.sum (fun l => U i l * nuclearSvProx s lam l * Vh l j)

/-- `U @ diag(s) @ Vh` : the matrix the factors stand for -/
def usvMat (U : Fin m → Fin k → α) (s : Vec α k) (Vh : Fin k → Fin n → α) : Fin m → Fin n → α :=
  fun i j => Vec.sum (fun l => U i l * s l * Vh l j)

/-- complex factors: entries `Σ_l t_l · (U_il · Vh_lj)` with `t = maximum(0, s - lam)` (real) -/
def nuclearProxC [Add α] [Sub α] [Mul α] [Zero α] [LT α] [DecidableLT α]
    (U : Fin m → Fin k → α × α) (s : Vec α k) (Vh : Fin k → Fin n → α × α) (lam : α) : Fin m → Fin n → α × α :=
  fun i j => (Vec.sum (fun l => nuclearSvProx s lam l * (cmul (U i l) (Vh l j)).1),
              Vec.sum (fun l => nuclearSvProx s lam l * (cmul (U i l) (Vh l j)).2))

/-- `U @ diag(s) @ Vh` for complex factors -/
def usvMatC [Add α] [Sub α] [Mul α] [Zero α]
    (U : Fin m → Fin k → α × α) (s : Vec α k) (Vh : Fin k → Fin n → α × α) : Fin m → Fin n → α × α :=
  fun i j => (Vec.sum (fun l => s l * (cmul (U i l) (Vh l j)).1), Vec.sum (fun l => s l * (cmul (U i l) (Vh l j)).2))

end Nuclear

/-! ### which constructions advertise a prox (`has_prox`) and how invalid ones are rejected
    (`SquaredL2Loss / SquaredL2AbsLoss / SquaredL2SquaredAbsLoss.__init__` and `.prox`, `NuclearNorm.prox`, `L21Norm.prox`) -/

/-- the weighting argument `W` of the three specific losses -/
inductive WArg where
  | none          -- `W=None` : identity weighting
  | diagNonneg    -- a `linop.Diagonal` with `diagonal >= 0` everywhere (zeros allowed)
  | diagNegative  -- a `linop.Diagonal` with a negative entry
  | notDiagonal   -- anything else
  deriving DecidableEq, Repr

/-- the forward operator argument `A` -/
inductive AArg where
  | none        -- `A=None` : an `Identity` is built
  | identity    -- a `linop.Identity`
  | diagonal    -- a `linop.Diagonal` that is not an `Identity`
  | otherLinop  -- any other `LinearOperator`
  | nonlinear   -- an `Operator` that is not a `LinearOperator`
  deriving DecidableEq, Repr

/-- what happens: the object advertises a prox / `prox` raises `NotImplementedError` / the constructor raises -/
inductive Guard where
  | hasProxClosed   -- `has_prox = True`, closed-form prox (the formulas above)
  | hasProxCG       -- `has_prox = True`, `SquaredL2Loss` with a general linear operator: conjugate gradient (not exact)
  | noProx          -- `has_prox = False`, `prox` raises `NotImplementedError`
  | valueError      -- the constructor raises `ValueError` (negative weights)
  | typeError       -- the constructor raises `TypeError` (`W` is not a `Diagonal`)
  deriving DecidableEq, Repr

/-- the `W` checks shared by the three constructors (they run BEFORE anything else) -/
def wGuard (w : WArg) (k : Guard) : Guard :=
  match w with
  | .notDiagonal => .typeError
  | .diagNegative => .valueError
  | _ => k

/-- `SquaredL2Loss`: `has_prox` for every `LinearOperator`; closed form iff `A` is a `Diagonal` (⊇ `Identity`) -/
def sqL2LossGuard (w : WArg) (a : AArg) : Guard :=
  wGuard w (match a with
    | .none | .identity | .diagonal => .hasProxClosed
    | .otherLinop => .hasProxCG
    | .nonlinear => .noProx)

/-- `SquaredL2AbsLoss`, `SquaredL2SquaredAbsLoss`: `has_prox` iff `A` is an `Identity` and `y >= 0` everywhere -/
def absLossGuard (w : WArg) (a : AArg) (yNonneg : Bool) : Guard :=
  wGuard w (match a with
    | .none | .identity => if yNonneg then .hasProxClosed else .noProx
    | _ => .noProx)

/-- `NuclearNorm.prox` and `__call__` accept two-dimensional arrays only (`ValueError` otherwise) -/
def nuclearAccepts (ndim : Nat) : Bool := ndim == 2

/-- `L21Norm.prox` and `__call__`: a `BlockArray` argument needs `l2_axis=None` (`ValueError` otherwise) -/
def l21Accepts (isBlock axisIsNone : Bool) : Bool := !isBlock || axisIsNone

/-! ### `L21Norm(l2_axis=...)`: which entries of an N-d array (or of a block array) form one L2 group -/

/-- index along axis `d` of the flat (row-major) index `i` in an array of shape `shape` (`np.unravel_index`) -/
def unravelAt (shape : List Nat) (i d : Nat) : Nat :=
  (i / (shape.drop (d + 1)).prod) % shape.getD d 1

/-- the axes that `L21Norm(l2_axis=axes)` does NOT reduce over, in increasing order -/
def keptAxes (nd : Nat) (axes : List Nat) : List Nat := (List.range nd).filter (fun d => !axes.contains d)

/-- label of the L2 group of flat entry `i` for `L21Norm(l2_axis=axes)` on an array of shape `shape`:
    the mixed-radix number of the indices along the kept axes (`sum(axis=axes, keepdims=True)` puts two entries into the same
    group iff they agree along every kept axis — theorem `axisGroup_eq_iff`) -/
def axisGroup (shape : List Nat) (axes : List Nat) (i : Nat) : Nat :=
  (keptAxes shape.length axes).foldl (fun acc d => acc * shape.getD d 1 + unravelAt shape i d) 0

/-- `l2_axis` as given by the user (`None` ↦ all axes, negative values count from the end) -/
def normAxes (nd : Nat) (axes : Option (List Int)) : List Nat :=
  match axes with
  | none => List.range nd
  | some l => l.map (fun a => (a % (nd : Int)).toNat)

/-- block number of flat entry `i` of a `BlockArray` whose blocks have `sizes` entries -/
def blockGroup : List Nat → Nat → Nat
  | [], _ => 0
  | s :: rest, i => if i < s then 0 else 1 + blockGroup rest (i - s)


end Scico.Prox
