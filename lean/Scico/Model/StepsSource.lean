/-
  Data of the optimiser sources that `Scico/Model/Steps.lean` copies — constructor parameters and their defaults, the
  normalised statement lists (nesting depth, text) of every transcribed method, and the parameter constraints printed in the
  class docstrings.  `harness/steps_translate.py` re-reads all of it from the working tree with `ast` on every run and
  `Scico/Generated/StepsTables.lean` states (by `decide`) that the source still equals these tables: a reordered assignment, a
  changed operand, a changed default or a changed documented constraint breaks a generated obligation, not only the sampled tie.
  The theorems at the end link the tables to the model: the order of the attribute assignments of each `step()` is the order of
  the structure updates of the corresponding `…ImplStep`, and the defaults the model hard-wires are the ones of the table.
  Mathlib-free.
-/
namespace Scico.Steps.Source

def ctors : List (String × String × List (String × String)) := [
  ("ADMM", "Optimizer", [("f", "<required>"), ("g_list", "<required>"), ("C_list", "<required>"), ("rho_list", "<required>"), ("alpha", "1.0"), ("x0", "None"), ("subproblem_solver", "None")]),
  ("LinearizedADMM", "Optimizer", [("f", "<required>"), ("g", "<required>"), ("C", "<required>"), ("mu", "<required>"), ("nu", "<required>"), ("x0", "None")]),
  ("ProximalADMMBase", "Optimizer", [("f", "<required>"), ("g", "<required>"), ("rho", "<required>"), ("mu", "<required>"), ("nu", "<required>"), ("xshape", "<required>"), ("zshape", "<required>"), ("ushape", "<required>"), ("xdtype", "<required>"), ("zdtype", "<required>"), ("udtype", "<required>"), ("x0", "None"), ("z0", "None"), ("u0", "None"), ("fast_dual_residual", "True")]),
  ("ProximalADMM", "ProximalADMMBase", [("f", "<required>"), ("g", "<required>"), ("A", "<required>"), ("rho", "<required>"), ("mu", "<required>"), ("nu", "<required>"), ("B", "None"), ("c", "None"), ("x0", "None"), ("z0", "None"), ("u0", "None"), ("fast_dual_residual", "True")]),
  ("NonLinearPADMM", "ProximalADMMBase", [("f", "<required>"), ("g", "<required>"), ("H", "<required>"), ("rho", "<required>"), ("mu", "<required>"), ("nu", "<required>"), ("x0", "None"), ("z0", "None"), ("u0", "None"), ("fast_dual_residual", "True")]),
  ("PDHG", "Optimizer", [("f", "<required>"), ("g", "<required>"), ("C", "<required>"), ("tau", "<required>"), ("sigma", "<required>"), ("alpha", "1.0"), ("x0", "None"), ("z0", "None")]),
  ("PGM", "Optimizer", [("f", "<required>"), ("g", "<required>"), ("L0", "<required>"), ("x0", "<required>"), ("step_size", "None")]),
  ("AcceleratedPGM", "PGM", [("f", "<required>"), ("g", "<required>"), ("L0", "<required>"), ("x0", "<required>"), ("step_size", "None")])]

def skeletons : List (String × List (Nat × String)) := [
  ("ADMM.__init__", [
    (0, "N = len(g_list)"),
    (0, "if len(C_list) != N:"),
    (1, "raise ValueError"),
    (0, "if len(rho_list) != N:"),
    (1, "raise ValueError"),
    (0, "self.f = f"),
    (0, "self.g_list = g_list"),
    (0, "self.C_list = C_list"),
    (0, "self.rho_list = rho_list"),
    (0, "self.alpha = alpha"),
    (0, "if subproblem_solver is None:"),
    (1, "subproblem_solver = GenericSubproblemSolver()"),
    (0, "self.subproblem_solver = subproblem_solver"),
    (0, "self.subproblem_solver.internal_init(self)"),
    (0, "if x0 is None:"),
    (1, "input_shape = C_list[0].input_shape"),
    (1, "dtype = C_list[0].input_dtype"),
    (1, "x0 = snp.zeros(input_shape, dtype=dtype)"),
    (0, "self.x = x0"),
    (0, "self.z_list, self.z_list_old = self.z_init(self.x)"),
    (0, "self.u_list = self.u_init(self.x)"),
    (0, "super().__init__(**kwargs)")]),
  ("ADMM._working_vars_finite", [
    (0, "for v in [self.x] + self.z_list + self.u_list:"),
    (1, "if not _all_finite(v):"),
    (2, "return False"),
    (0, "return True")]),
  ("ADMM._objective_evaluatable", [
    (0, "return (not self.f or self.f.has_eval) and all([_.has_eval for _ in self.g_list])")]),
  ("ADMM._itstat_extra_fields", [
    (0, "itstat_fields = {'Prml Rsdl': '%9.3e', 'Dual Rsdl': '%9.3e'}"),
    (0, "itstat_attrib = ['norm_primal_residual()', 'norm_dual_residual()']"),
    (0, "if isinstance(self.subproblem_solver, GenericSubproblemSolver):"),
    (1, "itstat_fields.update({'Num FEv': '%6d', 'Num It': '%6d'})"),
    (1, "itstat_attrib.extend([\"subproblem_solver.info['nfev']\", \"subproblem_solver.info['nit']\"])"),
    (0, "elif type(self.subproblem_solver) == LinearSubproblemSolver and self.subproblem_solver.cg_function == 'scico':"),
    (1, "itstat_fields.update({'CG It': '%5d', 'CG Res': '%9.3e'})"),
    (1, "itstat_attrib.extend([\"subproblem_solver.info['num_iter']\", \"subproblem_solver.info['rel_res']\"])"),
    (0, "elif type(self.subproblem_solver) in [MatrixSubproblemSolver, FBlockCircularConvolveSolver, G0BlockCircularConvolveSolver] and self.subproblem_solver.check_solve:"),
    (1, "itstat_fields.update({'Slv Res': '%9.3e'})"),
    (1, "itstat_attrib.extend(['subproblem_solver.accuracy'])"),
    (0, "return (itstat_fields, itstat_attrib)")]),
  ("ADMM.minimizer", [
    (0, "return self.x")]),
  ("ADMM.objective", [
    (0, "if (x is None) != (z_list is None):"),
    (1, "raise ValueError"),
    (0, "if x is None:"),
    (1, "x = self.x"),
    (1, "z_list = self.z_list"),
    (0, "assert z_list is not None"),
    (0, "out = 0.0"),
    (0, "if self.f:"),
    (1, "out += self.f(x)"),
    (0, "for (g, z) in zip(self.g_list, z_list):"),
    (1, "out += g(z)"),
    (0, "return out")]),
  ("ADMM.norm_primal_residual", [
    (0, "if x is None:"),
    (1, "x = self.x"),
    (0, "sum = 0.0"),
    (0, "for (rhoi, Ci, zi) in zip(self.rho_list, self.C_list, self.z_list):"),
    (1, "sum += rhoi * norm(Ci(x) - zi) ** 2"),
    (0, "return snp.sqrt(sum)")]),
  ("ADMM.norm_dual_residual", [
    (0, "sum = 0.0"),
    (0, "for (rhoi, zi, ziold, Ci) in zip(self.rho_list, self.z_list, self.z_list_old, self.C_list):"),
    (1, "sum += rhoi * Ci.adj(zi - ziold)"),
    (0, "return norm(sum)")]),
  ("ADMM.z_init", [
    (0, "z_list = [Ci(x0) for Ci in self.C_list]"),
    (0, "z_list_old = z_list.copy()"),
    (0, "return (z_list, z_list_old)")]),
  ("ADMM.u_init", [
    (0, "u_list = [snp.zeros(Ci.output_shape, dtype=Ci.output_dtype) for Ci in self.C_list]"),
    (0, "return u_list")]),
  ("ADMM.step", [
    (0, "self.x = self.subproblem_solver.solve(self.x)"),
    (0, "self.z_list_old = self.z_list.copy()"),
    (0, "for (i, (rhoi, gi, Ci, zi, ui)) in enumerate(zip(self.rho_list, self.g_list, self.C_list, self.z_list, self.u_list)):"),
    (1, "if self.alpha == 1.0:"),
    (2, "Cix = Ci(self.x)"),
    (1, "else:"),
    (2, "Cix = self.alpha * Ci(self.x) + (1.0 - self.alpha) * zi"),
    (1, "zi = gi.prox(Cix + ui, 1 / rhoi, v0=zi)"),
    (1, "ui = ui + Cix - zi"),
    (1, "self.z_list[i] = zi"),
    (1, "self.u_list[i] = ui")]),
  ("LinearizedADMM.__init__", [
    (0, "self.f = f"),
    (0, "self.g = g"),
    (0, "self.C = C"),
    (0, "self.mu = mu"),
    (0, "self.nu = nu"),
    (0, "if x0 is None:"),
    (1, "input_shape = C.input_shape"),
    (1, "dtype = C.input_dtype"),
    (1, "x0 = snp.zeros(input_shape, dtype=dtype)"),
    (0, "self.x = x0"),
    (0, "self.z, self.z_old = self.z_init(self.x)"),
    (0, "self.u = self.u_init(self.x)"),
    (0, "super().__init__(**kwargs)")]),
  ("LinearizedADMM._working_vars_finite", [
    (0, "return _all_finite(self.x) and _all_finite(self.z) and _all_finite(self.u)")]),
  ("LinearizedADMM._objective_evaluatable", [
    (0, "return self.f.has_eval and self.g.has_eval")]),
  ("LinearizedADMM._itstat_extra_fields", [
    (0, "itstat_fields = {'Prml Rsdl': '%9.3e', 'Dual Rsdl': '%9.3e'}"),
    (0, "itstat_attrib = ['norm_primal_residual()', 'norm_dual_residual()']"),
    (0, "return (itstat_fields, itstat_attrib)")]),
  ("LinearizedADMM.minimizer", [
    (0, "return self.x")]),
  ("LinearizedADMM.objective", [
    (0, "if (x is None) != (z is None):"),
    (1, "raise ValueError"),
    (0, "if x is None:"),
    (1, "x = self.x"),
    (1, "z = self.z"),
    (0, "return self.f(x) + self.g(z)")]),
  ("LinearizedADMM.norm_primal_residual", [
    (0, "if x is None:"),
    (1, "x = self.x"),
    (0, "return norm(self.C(x) - self.z)")]),
  ("LinearizedADMM.norm_dual_residual", [
    (0, "return norm(self.C.adj(self.z - self.z_old))")]),
  ("LinearizedADMM.z_init", [
    (0, "z = self.C(x0)"),
    (0, "z_old = z"),
    (0, "return (z, z_old)")]),
  ("LinearizedADMM.u_init", [
    (0, "u = snp.zeros(self.C.output_shape, dtype=self.C.output_dtype)"),
    (0, "return u")]),
  ("LinearizedADMM.step", [
    (0, "proxarg = self.x - self.mu / self.nu * self.C.conj().T(self.C(self.x) - self.z + self.u)"),
    (0, "self.x = self.f.prox(proxarg, self.mu, v0=self.x)"),
    (0, "self.z_old = self.z"),
    (0, "Cx = self.C(self.x)"),
    (0, "self.z = self.g.prox(Cx + self.u, self.nu, v0=self.z)"),
    (0, "self.u = self.u + Cx - self.z")]),
  ("ProximalADMMBase.__init__", [
    (0, "self.f = f"),
    (0, "self.g = g"),
    (0, "self.rho = rho"),
    (0, "self.mu = mu"),
    (0, "self.nu = nu"),
    (0, "self.fast_dual_residual = fast_dual_residual"),
    (0, "if x0 is None:"),
    (1, "x0 = snp.zeros(xshape, dtype=xdtype)"),
    (0, "self.x = x0"),
    (0, "if z0 is None:"),
    (1, "z0 = snp.zeros(zshape, dtype=zdtype)"),
    (0, "self.z = z0"),
    (0, "self.z_old = self.z"),
    (0, "if u0 is None:"),
    (1, "u0 = snp.zeros(ushape, dtype=udtype)"),
    (0, "self.u = u0"),
    (0, "self.u_old = self.u"),
    (0, "super().__init__(**kwargs)")]),
  ("ProximalADMMBase._working_vars_finite", [
    (0, "return _all_finite(self.x) and _all_finite(self.z) and _all_finite(self.u)")]),
  ("ProximalADMMBase._objective_evaluatable", [
    (0, "return self.f.has_eval and self.g.has_eval")]),
  ("ProximalADMMBase._itstat_extra_fields", [
    (0, "itstat_fields = {'Prml Rsdl': '%9.3e', 'Dual Rsdl': '%9.3e'}"),
    (0, "itstat_attrib = ['norm_primal_residual()', 'norm_dual_residual()']"),
    (0, "return (itstat_fields, itstat_attrib)")]),
  ("ProximalADMMBase.minimizer", [
    (0, "return self.x")]),
  ("ProximalADMMBase.objective", [
    (0, "if (x is None) != (z is None):"),
    (1, "raise ValueError"),
    (0, "if x is None:"),
    (1, "x = self.x"),
    (1, "z = self.z"),
    (0, "return self.f(x) + self.g(z)")]),
  ("ProximalADMM.__init__", [
    (0, "self.A = A"),
    (0, "if B is None:"),
    (1, "self.B = -Identity(self.A.output_shape, self.A.output_dtype)"),
    (0, "else:"),
    (1, "self.B = B"),
    (0, "if c is None:"),
    (1, "self.c = 0.0"),
    (0, "else:"),
    (1, "self.c = c"),
    (0, "super().__init__(f, g, rho, mu, nu, self.A.input_shape, self.B.input_shape, self.A.output_shape, self.A.input_dtype, self.B.input_dtype, self.A.output_dtype, x0=x0, z0=z0, u0=u0, fast_dual_residual=fast_dual_residual, **kwargs)")]),
  ("ProximalADMM.norm_primal_residual", [
    (0, "if (x is None) != (z is None):"),
    (1, "raise ValueError"),
    (0, "if x is None:"),
    (1, "x = self.x"),
    (1, "z = self.z"),
    (0, "return norm(self.A(x) + self.B(z) - self.c)")]),
  ("ProximalADMM.norm_dual_residual", [
    (0, "if self.fast_dual_residual:"),
    (1, "rsdl = self.z - self.z_old"),
    (0, "else:"),
    (1, "rsdl = self.A.H(self.B(self.z - self.z_old))"),
    (0, "return norm(rsdl)")]),
  ("ProximalADMM.step", [
    (0, "proxarg = self.x - 1.0 / self.mu * self.A.H(2.0 * self.u - self.u_old)"),
    (0, "self.x = self.f.prox(proxarg, 1.0 / (self.rho * self.mu), v0=self.x)"),
    (0, "proxarg = self.z - 1.0 / self.nu * self.B.H(self.A(self.x) + self.B(self.z) - self.c + self.u)"),
    (0, "self.z_old = self.z"),
    (0, "self.z = self.g.prox(proxarg, 1.0 / (self.rho * self.nu), v0=self.z)"),
    (0, "self.u_old = self.u"),
    (0, "self.u = self.u + self.A(self.x) + self.B(self.z) - self.c")]),
  ("NonLinearPADMM.__init__", [
    (0, "self.H = H"),
    (0, "super().__init__(f, g, rho, mu, nu, H.input_shapes[0], H.input_shapes[1], H.output_shape, H.input_dtypes[0], H.input_dtypes[1], H.output_dtype, x0=x0, z0=z0, u0=u0, fast_dual_residual=fast_dual_residual, **kwargs)")]),
  ("NonLinearPADMM.norm_primal_residual", [
    (0, "if (x is None) != (z is None):"),
    (1, "raise ValueError"),
    (0, "if x is None:"),
    (1, "x = self.x"),
    (1, "z = self.z"),
    (0, "return norm(self.H(x, z))")]),
  ("NonLinearPADMM.norm_dual_residual", [
    (0, "if self.fast_dual_residual:"),
    (1, "rsdl = self.z - self.z_old"),
    (0, "else:"),
    (1, "Hz = lambda z: self.H(self.x, z)"),
    (1, "B = lambda u: jvp(Hz, (self.z,), (u,))[1]"),
    (1, "Hx = lambda x: self.H(x, self.z)"),
    (1, "AH = cvjp(Hx, self.x)[1]"),
    (1, "rsdl = AH(B(self.z - self.z_old))[0]"),
    (0, "return norm(rsdl)")]),
  ("NonLinearPADMM.step", [
    (0, "AH = self.H.vjp(0, self.x, self.z, conjugate=True)[1]"),
    (0, "proxarg = self.x - 1.0 / self.mu * AH(2.0 * self.u - self.u_old)"),
    (0, "self.x = self.f.prox(proxarg, 1.0 / (self.rho * self.mu), v0=self.x)"),
    (0, "BH = self.H.vjp(1, self.x, self.z, conjugate=True)[1]"),
    (0, "proxarg = self.z - 1.0 / self.nu * BH(self.H(self.x, self.z) + self.u)"),
    (0, "self.z_old = self.z"),
    (0, "self.z = self.g.prox(proxarg, 1.0 / (self.rho * self.nu), v0=self.z)"),
    (0, "self.u_old = self.u"),
    (0, "self.u = self.u + self.H(self.x, self.z)")]),
  ("PDHG.__init__", [
    (0, "self.f = f"),
    (0, "self.g = g"),
    (0, "self.C = C"),
    (0, "self.tau = tau"),
    (0, "self.sigma = sigma"),
    (0, "self.alpha = alpha"),
    (0, "if x0 is None:"),
    (1, "input_shape = C.input_shape"),
    (1, "dtype = C.input_dtype"),
    (1, "x0 = snp.zeros(input_shape, dtype=dtype)"),
    (0, "self.x = x0"),
    (0, "self.x_old = self.x"),
    (0, "if z0 is None:"),
    (1, "input_shape = C.output_shape"),
    (1, "dtype = C.output_dtype"),
    (1, "z0 = snp.zeros(input_shape, dtype=dtype)"),
    (0, "self.z = z0"),
    (0, "self.z_old = self.z"),
    (0, "super().__init__(**kwargs)")]),
  ("PDHG._working_vars_finite", [
    (0, "return _all_finite(self.x) and _all_finite(self.z)")]),
  ("PDHG._objective_evaluatable", [
    (0, "return self.f.has_eval and self.g.has_eval")]),
  ("PDHG._itstat_extra_fields", [
    (0, "itstat_fields = {'Prml Rsdl': '%9.3e', 'Dual Rsdl': '%9.3e'}"),
    (0, "itstat_attrib = ['norm_primal_residual()', 'norm_dual_residual()']"),
    (0, "return (itstat_fields, itstat_attrib)")]),
  ("PDHG.minimizer", [
    (0, "return self.x")]),
  ("PDHG.objective", [
    (0, "if x is None:"),
    (1, "x = self.x"),
    (0, "return self.f(x) + self.g(self.C(x))")]),
  ("PDHG.norm_primal_residual", [
    (0, "return norm(self.x - self.x_old) / self.tau")]),
  ("PDHG.norm_dual_residual", [
    (0, "return norm(self.z - self.z_old) / self.sigma")]),
  ("PDHG.step", [
    (0, "self.x_old = self.x"),
    (0, "self.z_old = self.z"),
    (0, "if isinstance(self.C, LinearOperator):"),
    (1, "proxarg = self.x - self.tau * self.C.conj().T(self.z)"),
    (0, "else:"),
    (1, "proxarg = self.x - self.tau * self.C.vjp(self.x, conjugate=True)[1](self.z)"),
    (0, "self.x = self.f.prox(proxarg, self.tau, v0=self.x)"),
    (0, "proxarg = self.z + self.sigma * self.C((1.0 + self.alpha) * self.x - self.alpha * self.x_old)"),
    (0, "self.z = self.g.conj_prox(proxarg, self.sigma, v0=self.z)")]),
  ("PGM.__init__", [
    (0, "self.f = f"),
    (0, "if g.has_prox is not True:"),
    (1, "raise ValueError"),
    (0, "self.g = g"),
    (0, "if step_size is None:"),
    (1, "step_size = PGMStepSize()"),
    (0, "self.step_size = step_size"),
    (0, "self.step_size.internal_init(self)"),
    (0, "self.L = L0"),
    (0, "self.fixed_point_residual = snp.inf"),
    (0, "def x_step(v, L):"),
    (1, "return self.g.prox(v - 1.0 / L * self.f.grad(v), 1.0 / L)"),
    (0, "self.x_step = jax.jit(x_step)"),
    (0, "self.x = x0"),
    (0, "super().__init__(**kwargs)")]),
  ("PGM._working_vars_finite", [
    (0, "return _all_finite(self.x)")]),
  ("PGM._objective_evaluatable", [
    (0, "return self.f.has_eval and self.g.has_eval")]),
  ("PGM._itstat_extra_fields", [
    (0, "itstat_fields = {'L': '%9.3e', 'Residual': '%9.3e'}"),
    (0, "itstat_attrib = ['L', 'norm_residual()']"),
    (0, "return (itstat_fields, itstat_attrib)")]),
  ("PGM.minimizer", [
    (0, "return self.x")]),
  ("PGM.objective", [
    (0, "if x is None:"),
    (1, "x = self.x"),
    (0, "return self.f(x) + self.g(x)")]),
  ("PGM.f_quad_approx", [
    (0, "diff_xy = x - y"),
    (0, "return self.f(y) + snp.sum(snp.real(snp.conj(self.f.grad(y)) * diff_xy)) + 0.5 * L * snp.linalg.norm(diff_xy) ** 2")]),
  ("PGM.norm_residual", [
    (0, "return self.fixed_point_residual")]),
  ("PGM.step", [
    (0, "self.L = self.step_size.update(self.x)"),
    (0, "x = self.x_step(self.x, self.L)"),
    (0, "self.fixed_point_residual = snp.linalg.norm(self.x - x)"),
    (0, "self.x = x")]),
  ("AcceleratedPGM.__init__", [
    (0, "super().__init__(f=f, g=g, L0=L0, x0=x0, step_size=step_size, **kwargs)"),
    (0, "self.v = x0"),
    (0, "self.t = 1.0")]),
  ("AcceleratedPGM._working_vars_finite", [
    (0, "return _all_finite(self.x) and _all_finite(self.v)")]),
  ("AcceleratedPGM.step", [
    (0, "x_old = self.x"),
    (0, "if isinstance(self.step_size, (AdaptiveBBStepSize, BBStepSize)):"),
    (1, "self.L = self.step_size.update(self.x)"),
    (0, "else:"),
    (1, "self.L = self.step_size.update(self.v)"),
    (0, "if isinstance(self.step_size, RobustLineSearchStepSize):"),
    (1, "self.x = self.step_size.Z"),
    (1, "self.fixed_point_residual = snp.linalg.norm(self.x - x_old)"),
    (0, "else:"),
    (1, "self.x = self.x_step(self.v, self.L)"),
    (1, "self.fixed_point_residual = snp.linalg.norm(self.x - self.v)"),
    (1, "t_old = self.t"),
    (1, "self.t = 0.5 * (1 + snp.sqrt(1 + 4 * t_old ** 2))"),
    (1, "self.v = self.x + (t_old - 1) / self.t * (self.x - x_old)")]),
  ("Functional.conj_prox", [
    (0, "return v - lam * self.prox(v / lam, 1.0 / lam, **kwargs)")]),
  ("LinearSubproblemSolver.compute_rhs", [
    (0, "C0 = self.admm.C_list[0]"),
    (0, "rhs = snp.zeros(C0.input_shape, C0.input_dtype)"),
    (0, "if self.admm.f is not None:"),
    (1, "ATWy = self.admm.f.A.adj(self.admm.f.W.diagonal * self.admm.f.y)"),
    (1, "rhs += 2.0 * self.admm.f.scale * ATWy"),
    (0, "for (rhoi, Ci, zi, ui) in zip(self.admm.rho_list, self.admm.C_list, self.admm.z_list, self.admm.u_list):"),
    (1, "rhs += rhoi * Ci.adj(zi - ui)"),
    (0, "return rhs")]),
  ("LinearSubproblemSolver.solve", [
    (0, "rhs = self.compute_rhs()"),
    (0, "x, self.info = self.cg(self.lhs_op, rhs, x0, **self.cg_kwargs)"),
    (0, "return x")]),
  ("LinearSubproblemSolver.internal_init", [
    (0, "if admm.f is not None:"),
    (1, "if not isinstance(admm.f, SquaredL2Loss):"),
    (2, "raise TypeError"),
    (1, "if not isinstance(admm.f.A, LinearOperator):"),
    (2, "raise TypeError"),
    (0, "super().internal_init(admm)"),
    (0, "lhs_op = reduce(lambda a, b: a + b, [rhoi * Ci.gram_op for rhoi, Ci in zip(admm.rho_list, admm.C_list)])"),
    (0, "if admm.f is not None:"),
    (1, "lhs_op += admm.f.hessian"),
    (0, "self.lhs_op = lhs_op")]),
  ("GenericSubproblemSolver.solve", [
    (0, "def obj(x):"),
    (1, "out = 0.0"),
    (1, "for (rhoi, Ci, zi, ui) in zip(self.admm.rho_list, self.admm.C_list, self.admm.z_list, self.admm.u_list):"),
    (2, "out += 0.5 * rhoi * snp.sum(snp.abs(zi - ui - Ci(x)) ** 2)"),
    (1, "if self.admm.f is not None:"),
    (2, "out += self.admm.f(x)"),
    (1, "return out"),
    (0, "res = minimize(obj, x0, **self.minimize_kwargs)"),
    (0, "for attrib in ('success', 'status', 'message', 'nfev', 'njev', 'nhev', 'nit', 'maxcv'):"),
    (1, "self.info[attrib] = getattr(res, attrib, None)"),
    (0, "return res.x")]),
  ("MatrixSubproblemSolver.solve", [
    (0, "rhs = self.compute_rhs()"),
    (0, "x = self.solver.solve(rhs)"),
    (0, "if self.check_solve:"),
    (1, "self.accuracy = self.solver.accuracy(x, rhs)"),
    (0, "return x")]),
  ("CircularConvolveSolver.solve", [
    (0, "rhs = self.compute_rhs()"),
    (0, "rhs_dft = snp.fft.fftn(rhs, axes=self.A_lhs.x_fft_axes)"),
    (0, "x_dft = rhs_dft / self.A_lhs.h_dft"),
    (0, "x = snp.fft.ifftn(x_dft, axes=self.A_lhs.x_fft_axes)"),
    (0, "if self.real_result:"),
    (1, "x = x.real"),
    (0, "return x")]),
  ("FBlockCircularConvolveSolver.solve", [
    (0, "assert isinstance(self.admm.f, SquaredL2Loss)"),
    (0, "rhs = self.compute_rhs() / (2.0 * self.admm.f.scale)"),
    (0, "x = self.solver.solve(rhs)"),
    (0, "if self.check_solve:"),
    (1, "self.accuracy = self.solver.accuracy(x, rhs)"),
    (0, "return x")]),
  ("G0BlockCircularConvolveSolver.compute_rhs", [
    (0, "assert isinstance(self.admm.g_list[0], SquaredL2Loss)"),
    (0, "C0 = self.admm.C_list[0]"),
    (0, "rhs = snp.zeros(C0.input_shape, C0.input_dtype)"),
    (0, "omega = self.admm.g_list[0].scale"),
    (0, "omega_list = [2.0 * omega] + [1.0] * (len(self.admm.C_list) - 1)"),
    (0, "for (omegai, rhoi, Ci, zi, ui) in zip(omega_list, self.admm.rho_list, self.admm.C_list, self.admm.z_list, self.admm.u_list):"),
    (1, "rhs += omegai * rhoi * Ci.adj(zi - ui)"),
    (0, "return rhs")]),
  ("G0BlockCircularConvolveSolver.solve", [
    (0, "assert isinstance(self.admm.g_list[0], SquaredL2Loss)"),
    (0, "rhs = self.compute_rhs() / (2.0 * self.admm.g_list[0].scale * self.admm.rho_list[0])"),
    (0, "x = self.solver.solve(rhs)"),
    (0, "if self.check_solve:"),
    (1, "self.accuracy = self.solver.accuracy(x, rhs)"),
    (0, "return x")])]

def assigns : List (String × List String) := [
  ("ADMM.__init__", ["f", "g_list", "C_list", "rho_list", "alpha", "subproblem_solver", "x", "z_list", "z_list_old", "u_list"]),
  ("ADMM.step", ["x", "z_list_old", "z_list[i]", "u_list[i]"]),
  ("LinearizedADMM.__init__", ["f", "g", "C", "mu", "nu", "x", "z", "z_old", "u"]),
  ("LinearizedADMM.step", ["x", "z_old", "z", "u"]),
  ("ProximalADMMBase.__init__", ["f", "g", "rho", "mu", "nu", "fast_dual_residual", "x", "z", "z_old", "u", "u_old"]),
  ("ProximalADMM.__init__", ["A", "B", "B", "c", "c"]),
  ("ProximalADMM.step", ["x", "z_old", "z", "u_old", "u"]),
  ("NonLinearPADMM.__init__", ["H"]),
  ("NonLinearPADMM.step", ["x", "z_old", "z", "u_old", "u"]),
  ("PDHG.__init__", ["f", "g", "C", "tau", "sigma", "alpha", "x", "x_old", "z", "z_old"]),
  ("PDHG.step", ["x_old", "z_old", "x", "z"]),
  ("PGM.__init__", ["f", "g", "step_size", "L", "fixed_point_residual", "x_step", "x"]),
  ("PGM.step", ["L", "fixed_point_residual", "x"]),
  ("AcceleratedPGM.__init__", ["v", "t"]),
  ("AcceleratedPGM.step", ["L", "L", "x", "fixed_point_residual", "x", "fixed_point_residual", "t", "v"])]

/-- Sub-problem solver classes of `_admmaux.py`: base class, whether `internal_init` (own or inherited) reduces over
`C_list` (the `solverReduces` argument of `admmInitFull`), and the constructor defaults. -/
def solvers : List (String × String × Bool × List (String × String)) := [
  ("SubproblemSolver", "", false, []),
  ("GenericSubproblemSolver", "SubproblemSolver", false, [("minimize_kwargs", "{'options': {'maxiter': 100}}")]),
  ("LinearSubproblemSolver", "SubproblemSolver", true, [("cg_kwargs", "None"), ("cg_function", "'scico'")]),
  ("MatrixSubproblemSolver", "LinearSubproblemSolver", true, [("check_solve", "False"), ("solve_kwargs", "None")]),
  ("CircularConvolveSolver", "LinearSubproblemSolver", true, [("ndims", "None")]),
  ("FBlockCircularConvolveSolver", "LinearSubproblemSolver", true, [("ndims", "None"), ("check_solve", "False")]),
  ("G0BlockCircularConvolveSolver", "SubproblemSolver", true, [("ndims", "None"), ("check_solve", "False")])]

def constraints : List (String × List String) := [
  ("ADMM", []),
  ("LinearizedADMM", ["0 < \\mu < \\nu \\| C \\|_2^{-2} \\;."]),
  ("ProximalADMMBase", []),
  ("ProximalADMM", ["\\mu > \\norm{ A }_2^2 \\quad \\text{and} \\quad \\nu > \\norm{ B }_2^2 \\;."]),
  ("NonLinearPADMM", ["\\mu > \\norm{ A^{(k)} }_2^2 \\quad \\text{and} \\quad \\nu > \\norm{ B^{(k)} }_2^2"]),
  ("PDHG", ["\\tau \\sigma < \\| C \\|_2^{-2} \\;,", "\\alpha \\in [0, 1]"]),
  ("PGM", ["L_0 \\geq K(\\nabla f) \\;,"]),
  ("AcceleratedPGM", [])]


/-- the statements of a method -/
def method (k : String) : List (Nat × String) :=
  match skeletons.find? (fun r => r.1 == k) with
  | some r => r.2
  | none => []

/-- the attributes of `self` a method assigns, in source order (table `assigns`) -/
def assignTargets (k : String) : List String :=
  match assigns.find? (fun r => r.1 == k) with
  | some r => r.2
  | none => []

/-- default of a constructor parameter -/
def defaultOf (c p : String) : Option String :=
  match ctors.find? (fun r => r.1 == c) with
  | some r => (r.2.2.find? (fun q => q.1 == p)).map (·.2)
  | none => none

/-- order of the state updates — the order `…ImplStep` of `Model/Steps.lean` follows (one structure update per assignment) -/
def StepTargets : Prop :=
    assignTargets "ADMM.step" = ["x", "z_list_old", "z_list[i]", "u_list[i]"] ∧
    assignTargets "LinearizedADMM.step" = ["x", "z_old", "z", "u"] ∧
    assignTargets "ProximalADMM.step" = ["x", "z_old", "z", "u_old", "u"] ∧
    assignTargets "NonLinearPADMM.step" = ["x", "z_old", "z", "u_old", "u"] ∧
    assignTargets "PDHG.step" = ["x_old", "z_old", "x", "z"] ∧
    assignTargets "PGM.step" = ["L", "fixed_point_residual", "x"] ∧
    assignTargets "AcceleratedPGM.step" = ["L", "L", "x", "fixed_point_residual", "x", "fixed_point_residual", "t", "v"]

instance : Decidable StepTargets := by unfold StepTargets; infer_instance

theorem step_targets : StepTargets := by
  decide +kernel

/-- the defaults the model hard-wires: `alpha = 1.0` (ADMM shortcut `isOne`, PDHG), `B = None → −I`, `c = None → 0`
    (`padmmDefaultB`, `padmmC none`), missing starts `None → zeros` (`…Init`), `fast_dual_residual = True`, `step_size = None` -/
def ModelDefaults : Prop :=
    defaultOf "ADMM" "alpha" = some "1.0" ∧ defaultOf "PDHG" "alpha" = some "1.0" ∧
    defaultOf "ProximalADMM" "B" = some "None" ∧ defaultOf "ProximalADMM" "c" = some "None" ∧
    defaultOf "ProximalADMM" "fast_dual_residual" = some "True" ∧ defaultOf "NonLinearPADMM" "fast_dual_residual" = some "True" ∧
    defaultOf "ADMM" "x0" = some "None" ∧ defaultOf "LinearizedADMM" "x0" = some "None" ∧
    defaultOf "ProximalADMM" "z0" = some "None" ∧ defaultOf "ProximalADMM" "u0" = some "None" ∧
    defaultOf "PDHG" "z0" = some "None" ∧ defaultOf "PGM" "x0" = some "<required>" ∧
    defaultOf "PGM" "step_size" = some "None" ∧ defaultOf "ADMM" "subproblem_solver" = some "None"

instance : Decidable ModelDefaults := by unfold ModelDefaults; infer_instance

theorem model_defaults : ModelDefaults := by
  decide +kernel

/-- the constructors store exactly the public state of the model's `…State` / `…Init` (in this order) after the parameters -/
def InitStateAttrs : Prop :=
    (assignTargets "ADMM.__init__").drop 6 = ["x", "z_list", "z_list_old", "u_list"] ∧
    (assignTargets "LinearizedADMM.__init__").drop 5 = ["x", "z", "z_old", "u"] ∧
    (assignTargets "ProximalADMMBase.__init__").drop 6 = ["x", "z", "z_old", "u", "u_old"] ∧
    (assignTargets "PDHG.__init__").drop 6 = ["x", "x_old", "z", "z_old"] ∧
    assignTargets "AcceleratedPGM.__init__" = ["v", "t"]

instance : Decidable InitStateAttrs := by unfold InitStateAttrs; infer_instance

theorem init_state_attrs : InitStateAttrs := by
  decide +kernel

/-- Whether the named solver class reduces over the constraint list at attachment. -/
def solverReduces (c : String) : Bool :=
  match solvers.find? (fun e => e.1 == c) with
  | some e => e.2.2.1
  | none => false

/-- The flags the step tie passes to `admmInitFull` (generic: no reduction; all linear-family and block solvers: reduction). -/
def SolverReducesFlags : Prop :=
    solverReduces "GenericSubproblemSolver" = false ∧ solverReduces "LinearSubproblemSolver" = true ∧
    solverReduces "MatrixSubproblemSolver" = true ∧ solverReduces "CircularConvolveSolver" = true ∧
    solverReduces "FBlockCircularConvolveSolver" = true ∧ solverReduces "G0BlockCircularConvolveSolver" = true

instance : Decidable SolverReducesFlags := by unfold SolverReducesFlags; infer_instance

theorem solver_reduces_flags : SolverReducesFlags := by
  decide +kernel

/-- the parameter constraints a class docstring prints -/
def constraintsOf (c : String) : List String :=
  match constraints.find? (fun r => r.1 == c) with
  | some r => r.2
  | none => []

/-- the documented parameter ranges, of which the hypotheses of the C03 theorems are transcriptions: `LADMMHyp` (`0 < μ`, `μ‖C‖² < ν`),
    `PADMMHyp` (`μ > ‖A‖²`, `ν > ‖B‖²`), `PDHGHyp` (`τσ‖C‖² < 1`), `PDHGHypA` (`α ∈ [0, 1]`), `DescentLemma … L` (`L_0 ≥ K(∇f)`);
    `ADMM` documents no range for `rho_list` / `alpha` (the theorems assume `ρ_i > 0`, `0 < α < 2`) -/
def DocumentedConstraints : Prop :=
    constraintsOf "LinearizedADMM" = ["0 < \\mu < \\nu \\| C \\|_2^{-2} \\;."] ∧
    constraintsOf "ProximalADMM" = ["\\mu > \\norm{ A }_2^2 \\quad \\text{and} \\quad \\nu > \\norm{ B }_2^2 \\;."] ∧
    constraintsOf "NonLinearPADMM" = ["\\mu > \\norm{ A^{(k)} }_2^2 \\quad \\text{and} \\quad \\nu > \\norm{ B^{(k)} }_2^2"] ∧
    constraintsOf "PDHG" = ["\\tau \\sigma < \\| C \\|_2^{-2} \\;,", "\\alpha \\in [0, 1]"] ∧
    constraintsOf "PGM" = ["L_0 \\geq K(\\nabla f) \\;,"] ∧
    constraintsOf "ADMM" = [] ∧ constraintsOf "AcceleratedPGM" = []

instance : Decidable DocumentedConstraints := by unfold DocumentedConstraints; infer_instance

theorem documented_constraints : DocumentedConstraints := by
  decide +kernel

end Scico.Steps.Source
