/-
  Norm estimates and parameter estimators (DESIGN §5.10, property C17).  Mathlib-free, executable.

  * `powerLoop`, `powerIteration`, `operatorNorm`     scico/linop/_util.py
  * `pdhgEst`, `padmmEst`                              PDHG / ProximalADMM / NonLinearPADMM `.estimate_parameters`
  * `diagNorm`, `diagNormC`, `scaledIdNorm`            Diagonal.norm, ScaledIdentity.norm (scico/linop/_diag.py)
  * `matNorm`                                          the entrywise-computable matrix norms of a dense matrix
                                                       (what `MatrixOperator.norm` = `jnp.linalg.norm` returns for
                                                       ord ∈ {None,'fro',±inf,±1}); used as the *specification* of the
                                                       closed forms above
-/
import Scico.Common.Scalar

namespace Scico.Estim

/-! ## power iteration -/

/-- what `power_iteration` uses of the operator and of the array type -/
structure VOps (V α : Type) where
  /-- `A @ v` -/
  apply : V → V
  /-- `snp.sum(v.conj() * w)` (real part; the operators passed are Hermitian) -/
  inner : V → V → α
  /-- `snp.linalg.norm` -/
  norm : V → α
  /-- `v / c` -/
  sdiv : V → α → V

section power

variable {V α : Type} [Zero α] [Mul α] [Div α] [LE α] [DecidableLE α]

/-- the `for i in range(maxiter)` loop of `power_iteration`; `mu` is `none` while unbound:

        Av = A @ v
        normAv = norm(Av)
        if normAv == 0.0: mu = 0.0; v = Av; break
        mu = sum(v.conj() * Av) / norm(v) ** 2
        v = Av / normAv

    The exit test `normAv == 0.0` is written `normAv ≤ 0 ∧ 0 ≤ normAv`: at `Float` both comparisons are the
    IEEE ones (false for NaN, true for `±0.0`), exactly like `==`; over an ordered field it is `normAv = 0`.
    (Round 1 wrote `¬ 0 < n ∧ ¬ n < 0`, which is *true* for a NaN norm, where the code does not exit.) -/
def powerLoop (ops : VOps V α) : Nat → Option α → V → Option α × V
  | 0, mu, v => (mu, v)
  | k + 1, _, v =>
    let Av := ops.apply v
    let nAv := ops.norm Av
    if nAv ≤ 0 ∧ 0 ≤ nAv then (some 0, Av)
    else powerLoop ops k (some (ops.inner v Av / (ops.norm v * ops.norm v))) (ops.sdiv Av nAv)

/-- `power_iteration(A, maxiter, key)` given the random start `v0` drawn from the key.
    `Except`: `"value"` = the `ValueError` for `maxiter < 1`. -/
def powerIteration (ops : VOps V α) (maxiter : Nat) (v0 : V) : Except String (α × V) :=
  if maxiter < 1 then .error "value"
  else
    let v := ops.sdiv v0 (ops.norm v0)
    match powerLoop ops maxiter none v with
    | (some mu, v') => .ok (mu, v')
    | (none, _) => .error "other"   -- unbound `mu`; unreachable for maxiter ≥ 1 (`powerLoop_isSome`)

/-- `operator_norm(A, maxiter, key) = sqrt(power_iteration(A.H @ A, maxiter, key)[0].real)`;
    `opsG` are the operations of the Gram operator `AᴴA`. -/
def operatorNorm [HasSqrt α] (opsG : VOps V α) (maxiter : Nat) (v0 : V) : Except String α :=
  match powerIteration opsG maxiter v0 with
  | .ok (mu, _) => .ok (HasSqrt.sqrt mu)
  | .error e => .error e

end power

/-! ## power iteration on a complex operator (complex Rayleigh quotient) -/

/-- what `power_iteration` uses when the arrays are complex: `sum(v.conj() * w)` is a complex number (`α`), norms are real (`β`) -/
structure VOpsC (V α β : Type) where
  apply : V → V
  /-- `snp.sum(v.conj() * w)` -/
  inner : V → V → α
  norm : V → β
  /-- `v / c` for a real `c` -/
  sdiv : V → β → V
  /-- complex divided by real: `… / snp.linalg.norm(v) ** 2` -/
  cdivr : α → β → α

section powerC

variable {V α β : Type} [Zero α] [Zero β] [Mul β] [LE β] [DecidableLE β]

/-- the same loop as `powerLoop` (same statements of `power_iteration`); `mu` is complex.  For a Hermitian operator it is
    real (what `operator_norm` relies on when it takes `.real`), for a general one it is not. -/
def powerLoopC (ops : VOpsC V α β) : Nat → Option α → V → Option α × V
  | 0, mu, v => (mu, v)
  | k + 1, _, v =>
    let Av := ops.apply v
    let nAv := ops.norm Av
    if nAv ≤ 0 ∧ 0 ≤ nAv then (some 0, Av)
    else powerLoopC ops k (some (ops.cdivr (ops.inner v Av) (ops.norm v * ops.norm v))) (ops.sdiv Av nAv)

def powerIterationC (ops : VOpsC V α β) (maxiter : Nat) (v0 : V) : Except String (α × V) :=
  if maxiter < 1 then .error "value"
  else
    let v := ops.sdiv v0 (ops.norm v0)
    match powerLoopC ops maxiter none v with
    | (some mu, v') => .ok (mu, v')
    | (none, _) => .error "other"

end powerC

/-! ## parameter estimators (given the norm estimates) -/

section est

variable {α : Type} [One α] [Mul α] [Div α] [HasSqrt α]

/-- `PDHG.estimate_parameters`: `factor=None` is replaced by `1.0`;
    `tau = 1.0 / (sqrt(factor * ratio) * Cnrm)`, `sigma = ratio * tau`. -/
def pdhgEst (cnrm ratio : α) (factor : Option α) : α × α :=
  let fac := match factor with
    | none => 1
    | some f => f
  let tau := 1 / (HasSqrt.sqrt (fac * ratio) * cnrm)
  (tau, ratio * tau)

/-- `ProximalADMM.estimate_parameters` / `NonLinearPADMM.estimate_parameters`:
    `mu = ‖A‖² , nu = ‖B‖²` (estimates), multiplied by `factor` unless it is `None`. -/
def padmmEst (cA cB : α) (factor : Option α) : α × α :=
  let mu := cA * cA
  let nu := cB * cB
  match factor with
  | none => (mu, nu)
  | some f => (f * mu, f * nu)

end est

/-! ## closed-form norms -/

/-- the `ord` argument -/
inductive Ord where
  | none            -- `None`
  | fro | nuc       -- strings
  | pinf | ninf     -- `±inf`
  | int (k : Int)
  | other           -- anything else (unknown string, 0, 3, ...)
deriving Repr, DecidableEq

section norms

variable {α : Type} [Zero α] [Add α] [Mul α] [LT α] [DecidableLT α] [HasSqrt α] [HasAbs α]

def lsum (l : List α) : α := l.foldl (· + ·) 0

/-- maximum / minimum of a non-empty list (`x.max()`, `x.min()`) -/
def lmax : List α → Option α
  | [] => none
  | a :: t => some (t.foldl (fun m b => if m < b then b else m) a)

def lmin : List α → Option α
  | [] => none
  | a :: t => some (t.foldl (fun m b => if b < m then b else m) a)

/-- the table `ordfunc` of `Diagonal.norm` applied to the absolute values `a = |d|`
    (all four entries are functions of `|d|`: `‖d‖₂ = sqrt(Σ|dᵢ|²)`) -/
def absNorm (key : Ord) (a : List α) : Except String α :=
  match key with
  | .fro => .ok (HasSqrt.sqrt (lsum (a.map fun x => x * x)))
  | .nuc => .ok (lsum a)
  | .ninf => match lmin a with
    | some m => .ok m
    | none => .error "value"
  | .pinf => match lmax a with
    | some m => .ok m
    | none => .error "value"
  | _ => .error "value"

/-- the remapping of `ord` in `Diagonal.norm`: `None → 'fro'`, `-1,-2 → -inf`, `1,2 → inf` -/
def diagKey : Ord → Ord
  | .none => .fro
  | .int (-1) => .ninf
  | .int (-2) => .ninf
  | .int 1 => .pinf
  | .int 2 => .pinf
  | o => o

/-- `Diagonal(d).norm(ord)` for a real diagonal -/
def diagNorm (ord : Ord) (d : List α) : Except String α :=
  match diagKey ord with
  | .int _ => .error "value"
  | .other => .error "value"
  | .none => .error "value"
  | k => absNorm k (d.map HasAbs.abs)

/-- `Diagonal(d, input_shape).norm(ord)`: `square` = the diagonal does not broadcast the *input*
    (`output_shape == input_shape`); `full` = the diagonal broadcast to the input shape, i.e. the diagonal of
    the operator's matrix.  A non-square operator is rejected (`ValueError` mentioning the shapes). -/
def diagNormShaped (square : Bool) (ord : Ord) (full : List α) : Except String α :=
  match diagKey ord with
  | .int _ => .error "value"
  | .other => .error "value"
  | .none => .error "value"
  | _ => if square then diagNorm ord full else .error "shape"

/-- `|z|` of a complex number given as `(re, im)` -/
def cabs (z : α × α) : α := HasSqrt.sqrt (z.1 * z.1 + z.2 * z.2)

/-- `Diagonal(d).norm(ord)` for a complex diagonal -/
def diagNormC (ord : Ord) (d : List (α × α)) : Except String α :=
  match diagKey ord with
  | .int _ => .error "value"
  | .other => .error "value"
  | .none => .error "value"
  | k => absNorm k (d.map cabs)

/-- `ScaledIdentity(c, shape).norm(ord)` with `N = input_size`, `ac = |c|`, `sqrtN = sqrt(N)`, `nN = N` as scalars -/
def scaledIdNorm (ord : Ord) (ac sqrtN nN : α) : Except String α :=
  match ord with
  | .none => .ok (ac * sqrtN)
  | .fro => .ok (ac * sqrtN)
  | .nuc => .ok (ac * nN)
  | .pinf => .ok ac
  | .ninf => .ok ac
  | .int (-1) => .ok ac
  | .int (-2) => .ok ac
  | .int 1 => .ok ac
  | .int 2 => .ok ac
  | _ => .error "value"

/-- entrywise-computable norms of a dense matrix given by rows (absolute values of the entries):
    Frobenius, max/min absolute row sum (`±inf`), max/min absolute column sum (`±1`).
    `none` for the orders that need singular values (`±2`, `'nuc'`) and for invalid ones. -/
def matNorm (ord : Ord) (absRows : List (List α)) (absCols : List (List α)) : Option α :=
  match ord with
  | .none => some (HasSqrt.sqrt (lsum (absRows.map fun r => lsum (r.map fun x => x * x))))
  | .fro => some (HasSqrt.sqrt (lsum (absRows.map fun r => lsum (r.map fun x => x * x))))
  | .pinf => lmax (absRows.map lsum)
  | .ninf => lmin (absRows.map lsum)
  | .int 1 => lmax (absCols.map lsum)
  | .int (-1) => lmin (absCols.map lsum)
  | _ => Option.none

/-- `MatrixOperator.norm(ord)` (= `jnp.linalg.norm`) for the orders computed from the singular values `s` of the matrix
    (`min(m,n)` of them; computing them — the SVD — is a contract): `2` → largest, `-2` → smallest, `'nuc'` → their sum.
    `none` for the other orders (see `matNorm`). -/
def svNorm (ord : Ord) (s : List α) : Option α :=
  match ord with
  | .int 2 => lmax s
  | .int (-2) => lmin s
  | .nuc => some (lsum s)
  | _ => Option.none

end norms

end Scico.Estim
