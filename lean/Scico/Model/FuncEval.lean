/-
  Executable model of the *evaluation* (`__call__`) of scico's functionals, losses and
  metrics (property C09).  Mathlib-free.

  Source map (file:function -> definition here)
    scico/numpy/_wrappers.py:add_full_reduction           -> `Arg.flat` (concatenate the ravelled blocks)
    scico/functional/_norm.py:L0Norm.__call__             -> `l0`
                              L1Norm.__call__             -> `l1`
                              SquaredL2Norm.__call__      -> `sql2`
                              L2Norm.__call__             -> `l2`
                              L21Norm.__call__            -> `l21Call`: `l21None` (l2_axis=None, block-wise) / `l21Axes`
                              L1MinusL2Norm.__call__      -> `l1ml2`
                              NuclearNorm.__call__        -> `nuclearCall` (singular values supplied: SVD is a contract)
                              HuberNorm._call_sep/_nonsep -> `huberSep` / `huberNonsep`
    scico/functional/_indicator.py:NonNegativeIndicator   -> `nonnegInd`,  L2BallIndicator -> `l2ballInd`
    scico/functional/_dist.py:SetDistance / Squared…      -> `setDist` / `sqSetDist` (projection supplied)
    scico/functional/_tvnorm.py:TVNorm.__call__           -> `tvAniso` / `tvIso` over `fdAxis` (append=0 | circular)
    scico/linop/_diff.py:SingleAxisFiniteDifference._eval -> `diffAppend` (1-D, code shaped: append then `diff`)
    scico/functional/_proxavg.py:ProximalAverage          -> `proxAvgWeights`, `proxAvgEval`
    scico/loss.py:SquaredL2Loss/…AbsLoss/…SquaredAbsLoss/PoissonLoss.__call__ -> `sqL2Loss` … `poissonLoss`
    scico/metric.py                                       -> `mae mse snr psnr isnr bsnr relRes`

  Data convention: a real array is the list of its entries in row-major order; a complex
  array is the *interleaved* list `re₀, im₀, re₁, im₁, …` together with the flag `cplx = true`.
  A block array is a list of such lists.
-/
import Scico.Common.Scalar

namespace Scico.FuncEval
open Scico

/-- base-10 logarithm as an operation (`Float.log10` at run time, `Real.logb 10` in proofs) -/
class HasLog10 (α : Type) where
  log10 : α → α

/-- natural logarithm as an operation (Poisson loss) -/
class HasLog (α : Type) where
  log : α → α

instance : HasLog10 Float := ⟨Float.log10⟩
instance : HasLog Float := ⟨Float.log⟩

/-- argument of a functional: plain array or block array (flattened blocks) -/
inductive Arg (α : Type) where
  | arr (v : List α)
  | blk (bs : List (List α))
  deriving Repr, Inhabited

namespace Arg
variable {α : Type}

/-- `jnp.concatenate(x.ravel())` of `add_full_reduction`: what every full reduction sees -/
def flat : Arg α → List α
  | arr v => v
  | blk bs => bs.flatten

def blocks : Arg α → List (List α)
  | arr v => [v]
  | blk bs => bs

def isBlk : Arg α → Bool
  | arr _ => false
  | blk _ => true

end Arg

section basic
variable {α : Type} [Add α] [Sub α] [Mul α] [Div α] [Neg α] [Zero α] [One α] [LT α] [DecidableLT α]

/-- `|x|` of a real number, written with `<` only -/
def absR (x : α) : α := if x < 0 then -x else x

/-- `jnp.maximum` on non-NaN data -/
def maxR (a b : α) : α := if a < b then b else a

/-- equality test written with `<` only (DESIGN §4.1) -/
def isZero (x : α) : Bool := !(x < 0) && !(0 < x)

/-- `x ≤ y` written with `<` only -/
def leR (x y : α) : Bool := !(y < x)

/-- consecutive (re, im) pairs of an interleaved list (a trailing odd entry is dropped;
    the drivers reject odd lengths before calling) -/
def pairs : List α → List (α × α)
  | a :: b :: r => (a, b) :: pairs r
  | _ => []

/-- `|x_i|^2` of every entry -/
def sqmags (cplx : Bool) (v : List α) : List α :=
  if cplx then (pairs v).map (fun p => p.1 * p.1 + p.2 * p.2) else v.map (fun x => x * x)

/-- `|x_i|` of every entry (`jnp.abs`) -/
def mags [HasSqrt α] (cplx : Bool) (v : List α) : List α :=
  if cplx then (pairs v).map (fun p => HasSqrt.sqrt (p.1 * p.1 + p.2 * p.2)) else v.map absR

/-- maximum of a list, `0` for the empty list (only used on magnitudes, which are `≥ 0`) -/
def lmax (l : List α) : α := l.foldl maxR 0

/-- number of entries as a scalar -/
def lcount (l : List α) : α := l.foldl (fun acc _ => acc + 1) 0

end basic

/-! ### norms (`_norm.py`) -/
section norms
variable {α : Type} [Add α] [Sub α] [Mul α] [Div α] [Neg α] [Zero α] [One α] [LT α] [DecidableLT α]
  [HasSqrt α]

/-- `count_nonzero(x)`: number of entries with `x_i ≠ 0` (a complex entry is zero iff both parts are) -/
def l0 (cplx : Bool) (x : Arg α) : α :=
  lcount ((sqmags cplx x.flat).filter (fun s => !(isZero s)))

/-- `snp.sum(snp.abs(x))` -/
def l1 (cplx : Bool) (x : Arg α) : α := (mags cplx x.flat).sum

/-- `snp.sum(snp.abs(x)**2)` -/
def sql2 (cplx : Bool) (x : Arg α) : α := (sqmags cplx x.flat).sum

/-- `norm(x)` (2-norm of the concatenation) -/
def l2 (cplx : Bool) (x : Arg α) : α := HasSqrt.sqrt ((sqmags cplx x.flat).sum)

/-- `L21Norm(l2_axis=None)`: `_l2norm` sums `|x|²` with `axis=None`, which on a block array is
    taken per block (the `axis` keyword is present so no full reduction happens), then
    `snp.sum(snp.abs(l2))` adds the per-block norms.  On a plain array this is the 2-norm. -/
def l21None (cplx : Bool) (x : Arg α) : α :=
  (x.blocks.map (fun b => absR (HasSqrt.sqrt ((sqmags cplx b).sum)))).sum

/-- `NuclearNorm.__call__` given the singular values of the (2-D) argument:
    `snp.sum(snp.linalg.svd(x, full_matrices=False, compute_uv=False))` -/
def nuclearOfSv (sv : List α) : α := sv.sum

/-- `NuclearNorm.__call__`: `ValueError` (`none`) unless the argument is two dimensional -/
def nuclearCall (ndim : Nat) (sv : List α) : Option α :=
  if ndim = 2 then some (nuclearOfSv sv) else none

/-- `snp.sum(snp.abs(x)) - beta * norm(x)` -/
def l1ml2 (cplx : Bool) (beta : α) (x : Arg α) : α := l1 cplx x - beta * l2 cplx x

/-- Huber function of a magnitude: `where(a <= δ, 0.5 a², δ (a − δ/2))` -/
def huber1 (delta a : α) : α :=
  if leR a delta then (1 / (1 + 1)) * (a * a) else delta * (a - delta / (1 + 1))

/-- `HuberNorm._call_sep` -/
def huberSep (cplx : Bool) (delta : α) (x : Arg α) : α :=
  ((mags cplx x.flat).map (huber1 delta)).sum

/-- `HuberNorm._call_nonsep`: `xl2sq = sum(|x|²)`; `lax.cond(sqrt(xl2sq) <= δ, 0.5·xl2sq, δ·(sqrt(xl2sq) − δ/2))`
    (both branches are functions of the squared norm) -/
def huberNonsep (cplx : Bool) (delta : α) (x : Arg α) : α :=
  let s := (sqmags cplx x.flat).sum
  let n := HasSqrt.sqrt s
  if leR n delta then (1 / (1 + 1)) * s else delta * (n - delta / (1 + 1))

end norms

/-! ### N-d index arithmetic (row-major) for `L21Norm(l2_axis=…)` and the TV norms -/
section nd

/-- multi-index of a flat row-major position -/
def unravel (shape : List Nat) (idx : Nat) : List Nat :=
  (shape.foldr (fun n (acc : List Nat × Nat) => ((acc.2 % n) :: acc.1, acc.2 / n)) ([], idx)).1

/-- flat position of a multi-index -/
def ravel (shape : List Nat) (mi : List Nat) : Nat :=
  (List.zip shape mi).foldl (fun acc p => acc * p.1 + p.2) 0

def size (shape : List Nat) : Nat := shape.foldl (· * ·) 1

/-- the multi-index with the positions listed in `axes` zeroed: the *group key* of L2,1 -/
def dropAxes (axes : List Nat) (mi : List Nat) : List Nat :=
  mi.zipIdx.map (fun p => if axes.contains p.2 then 0 else p.1)

variable {α : Type} [Add α] [Sub α] [Mul α] [Div α] [Neg α] [Zero α] [One α] [LT α] [DecidableLT α]
  [HasSqrt α]

/-- `L21Norm(l2_axis=axes)` on a plain array of the given shape:
    `Σ_{kept indices} sqrt( Σ_{l2 axes} |x|² )`.  `sq` is the list of `|x_i|²` in row-major order. -/
def l21AxesOfSq (shape : List Nat) (axes : List Nat) (sq : List α) : α :=
  let n := size shape
  let keyOf := fun i => ravel shape (dropAxes axes (unravel shape i))
  -- a position is the representative of its group iff it equals its own key
  let reps := (List.range n).filter (fun i => keyOf i == i)
  (reps.map (fun r =>
    absR (HasSqrt.sqrt (((List.range n).filter (fun i => keyOf i == r)).map (fun i => sq.getD i 0)).sum))).sum

def l21Axes (cplx : Bool) (shape : List Nat) (axes : List Nat) (x : List α) : α :=
  l21AxesOfSq shape axes (sqmags cplx x)

/-- `L21Norm.__call__`: `l2_axis=None` accepts plain and block arguments (block-wise rule); an
    integer / tuple `l2_axis` accepts plain arrays only — a block argument raises `ValueError`
    (`none`) -/
def l21Call (cplx : Bool) (l2axis : Option (List Nat)) (shape : List Nat) (x : Arg α) : Option α :=
  match l2axis, x with
  | none, x => some (l21None cplx x)
  | some axes, .arr v => some (l21Axes cplx shape axes v)
  | some _, .blk _ => none

/-- code-shaped 1-D finite difference of `SingleAxisFiniteDifference._eval` for the two
    configurations `TVNorm` uses: append a copy of the last (`append=0`) or of the first
    (`circular`) entry, then `snp.diff`. -/
def diffList : List α → List α
  | a :: b :: r => (b - a) :: diffList (b :: r)
  | _ => []

def diffAppend (circular : Bool) (x : List α) : List α :=
  match x with
  | [] => []
  | a :: _ => diffList (x ++ [if circular then a else x.getLastD a])

/-- finite difference along axis `ax` of an N-d array (flat, row-major), same shape as the input:
    `x[..., i+1, ...] − x[..., i, ...]`, and at the last position `0` (append=0) or
    `x[..., 0, ...] − x[..., n−1, ...]` (circular) -/
def fdAxis (circular : Bool) (shape : List Nat) (ax : Nat) (x : List α) : List α :=
  let n := shape.getD ax 1
  let stride := size (shape.drop (ax + 1))
  (List.range (size shape)).map (fun i =>
    let c := (i / stride) % n
    if c + 1 < n then x.getD (i + stride) 0 - x.getD i 0
    else if circular then x.getD (i - c * stride) 0 - x.getD i 0
    else 0)

/-- `|d|²` at every position for every differenced axis; `comps` = `[x]` (real) or `[re, im]` -/
def tvSq (circular : Bool) (shape : List Nat) (axes : List Nat) (comps : List (List α)) : List (List α) :=
  axes.map (fun ax =>
    let ds := comps.map (fdAxis circular shape ax)
    (List.range (size shape)).map (fun i => (ds.map (fun d => d.getD i 0 * d.getD i 0)).sum))

/-- `AnisotropicTVNorm`: `L1Norm()(G x)` -/
def tvAniso (circular : Bool) (shape axes : List Nat) (comps : List (List α)) : α :=
  ((tvSq circular shape axes comps).map (fun l => (l.map (fun s => HasSqrt.sqrt s)).sum)).sum

/-- `IsotropicTVNorm`: `L21Norm(l2_axis=0)(G x)` — 2-norm over the stacked difference axis, then sum -/
def tvIso (circular : Bool) (shape axes : List Nat) (comps : List (List α)) : α :=
  let sq := tvSq circular shape axes comps
  ((List.range (size shape)).map (fun i =>
    absR (HasSqrt.sqrt ((sq.map (fun l => l.getD i 0)).sum)))).sum

end nd

/-! ### indicators, distances, proximal average -/
section ind
variable {α : Type} [Add α] [Sub α] [Mul α] [Div α] [Neg α] [Zero α] [One α] [LT α] [DecidableLT α]
  [HasSqrt α]

/-- extended value of an indicator functional -/
inductive Ext (α : Type) where
  | fin (a : α)
  | top
  deriving Repr

/-- `lax.cond(snp.any(x < 0), inf, 0.0)` -/
def nonnegInd (x : Arg α) : Ext α := if x.flat.any (fun a => a < 0) then .top else .fin 0

/-- `lax.cond(norm(x) > radius, inf, 0.0)` -/
def l2ballInd (cplx : Bool) (radius : α) (x : Arg α) : Ext α :=
  if radius < l2 cplx x then .top else .fin 0

/-- `SetDistance.__call__` given the value `p = proj(x)` -/
def setDist (cplx : Bool) (x p : List α) : α :=
  HasSqrt.sqrt ((sqmags cplx (List.zipWith (· - ·) x p)).sum)

/-- `SquaredSetDistance.__call__`: `0.5 * norm(x − p)**2` -/
def sqSetDist (cplx : Bool) (x p : List α) : α :=
  let d := setDist cplx x p
  (1 / (1 + 1)) * (d * d)

/-- `ProximalAverage.__init__`: weights default to `1/N`, otherwise normalised when they do not sum to one -/
def proxAvgWeights (N : α) (alphas : Option (List α)) (n : Nat) : List α :=
  match alphas with
  | none => List.replicate n (1 / N)
  | some al =>
    let s := al.foldl (· + ·) 0      -- python `sum(alpha_list)`: left fold from 0
    if isZero (s - 1) then al else al.map (fun a => a / s)

/-- `ProximalAverage.__init__` argument check: `alpha_list`, if given, must have as many entries as
    `func_list` (`ValueError`, `none`); otherwise the stored weights -/
def proxAvgInit (N : α) (alphas : Option (List α)) (n : Nat) : Option (List α) :=
  match alphas with
  | some al => if al.length = n then some (proxAvgWeights N alphas n) else none
  | none => some (proxAvgWeights N none n)

/-- `ProximalAverage.__call__` (after ba347d8): `vals = [alpha_i * f_i(x)]`; with `no_inf_eval` every
    infinite entry is replaced by `0.0` (`snp.where(snp.isinf(val), 0.0, val)`); python `sum` (left fold from 0) -/
def proxAvgEval (isInf : α → Bool) (noInf : Bool) (ws vals : List α) : α :=
  let t := List.zipWith (· * ·) ws vals
  (if noInf then t.map (fun a => if isInf a then 0 else a) else t).foldl (· + ·) 0

end ind

/-! ### losses (`loss.py`) on a plain array; `ax` is `A(x)` computed by the caller's operator -/
section losses
variable {α : Type} [Add α] [Sub α] [Mul α] [Div α] [Neg α] [Zero α] [One α] [LT α] [DecidableLT α]
  [HasSqrt α]

/-- weighted sum `Σ w_i s_i` (`w = none` ⇒ identity weights) -/
def wsum (w : Option (List α)) (s : List α) : α :=
  match w with
  | none => s.sum
  | some w => (List.zipWith (· * ·) w s).sum

/-- `scale * sum(W.diagonal * abs(y − A x)**2)` -/
def sqL2Loss (cplx : Bool) (scale : α) (w : Option (List α)) (y ax : List α) : α :=
  scale * wsum w (sqmags cplx (List.zipWith (· - ·) y ax))

/-- `scale * sum(W.diagonal * abs(y − abs(A x))**2)` (`y` real) -/
def sqL2AbsLoss (cplx : Bool) (scale : α) (w : Option (List α)) (y ax : List α) : α :=
  scale * wsum w ((List.zipWith (· - ·) y (mags cplx ax)).map (fun d => d * d))

/-- `scale * sum(W.diagonal * abs(y − abs(A x)**2)**2)` (`y` real) -/
def sqL2SqAbsLoss (cplx : Bool) (scale : α) (w : Option (List α)) (y ax : List α) : α :=
  scale * wsum w ((List.zipWith (· - ·) y (sqmags cplx ax)).map (fun d => d * d))

/-- `scale * sum(Ax − y log(Ax) + const)`, `const = gammaln(y+1)` supplied (contract) -/
def poissonLoss [HasLog α] (scale : α) (y ax const : List α) : α :=
  scale * (List.zipWith (· + ·)
    (List.zipWith (fun a yi => a - yi * HasLog.log a) ax y) const).sum

end losses

/-! ### metrics (`metric.py`), plain arrays -/
section metrics
variable {α : Type} [Add α] [Sub α] [Mul α] [Div α] [Neg α] [Zero α] [One α] [LT α] [DecidableLT α]
  [HasSqrt α] [HasLog10 α]

def ten : α := (1 + 1) * ((1 + 1) * (1 + 1) + 1)

/-- `snp.mean` of a list given its length as a scalar -/
def mean (l : List α) : α := l.sum / lcount l

/-- `snp.mean(snp.abs(ref − cmp).ravel())` -/
def mae (cplx : Bool) (r c : List α) : α := mean (mags cplx (List.zipWith (· - ·) r c))

/-- `snp.mean(snp.abs(ref − cmp).ravel() ** 2)` -/
def mse (cplx : Bool) (r c : List α) : α := mean (sqmags cplx (List.zipWith (· - ·) r c))

/-- `snp.var(x)` (population variance `mean(|x − mean x|²)`) -/
def var (cplx : Bool) (x : List α) : α :=
  if cplx then
    let ps := pairs x
    let mr := mean (ps.map (·.1))
    let mi := mean (ps.map (·.2))
    mean (ps.map (fun p => (p.1 - mr) * (p.1 - mr) + (p.2 - mi) * (p.2 - mi)))
  else
    let m := mean x
    mean (x.map (fun a => (a - m) * (a - m)))

def db (rt : α) : α := ten * HasLog10.log10 rt

def snr (cplx : Bool) (r c : List α) : α := db (var cplx r / mse cplx r c)

/-- minimum of a non-empty real list -/
def lminR (l : List α) : α :=
  match l with
  | [] => 0
  | a :: r => r.foldl (fun m b => if b < m then b else m) a

def lmaxR (l : List α) : α :=
  match l with
  | [] => 0
  | a :: r => r.foldl maxR a

/-- `psnr` (real reference); `range = none` ⇒ `|max ref − min ref|` -/
def psnr (r c : List α) (range : Option α) : α :=
  let sr := match range with
    | some s => s
    | none => absR (lmaxR r - lminR r)
  db (sr * sr / mse false r c)

def isnr (cplx : Bool) (r d s : List α) : α := db (mse cplx r d / mse cplx r s)

def bsnr (cplx : Bool) (b n : List α) : α := db (var cplx b / var cplx (List.zipWith (· - ·) n b))

/-- `rel_res`: `‖b − ax‖ / max(‖ax‖, ‖b‖)`, and `0.0` when that maximum is zero -/
def relRes (cplx : Bool) (ax b : List α) : α :=
  let na := HasSqrt.sqrt ((sqmags cplx ax).sum)
  let nb := HasSqrt.sqrt ((sqmags cplx b).sum)
  let nrm := maxR nb na      -- python `max(na, nb)` returns `nb` only when `nb > na`
  if isZero nrm then 0 else HasSqrt.sqrt ((sqmags cplx (List.zipWith (· - ·) b ax)).sum) / nrm

end metrics

end Scico.FuncEval
