/-
  Learned-model support (DESIGN §5.13, property C20).  Mathlib-free, executable.

  Source map (scico → Lean):
  * `scico/flax/_flax.py`  `FlaxMap.__call__`            → `flaxMap`, `squeezeAxes`, `squeezeAll`
  * `scico/flax/_flax.py`  `save_variables/load_variables` → `saveVars`, `loadVars`
  * `scico/flax/train/input_pipeline.py` `IterateData`   → `Iter`, `Iter.reset`, `Iter.init`, `Iter.next`, `gather`
  * `scico/flax/train/checkpoints.py` `checkpoint_save/checkpoint_restore` (orbax manager,
     `max_to_keep=3`)                                    → `Dir`, `save`, `latest`, `restore`
  * `scico/flax/train/trainer.py` `BasicFlaxTrainer.train` loop (step numbering, when a checkpoint
     is written, resume offset)                          → `trainLoop`, `trainRun`

  The *specifications* these are proved against are written separately below
  (`specFlaxMap`, `specBatch`, `records`, `specSteps`).
-/

namespace Scico.Flax

/-- how the real code rejects (subset of the wire enum) -/
inductive Err where
  | shape | index | key | notimpl | other
deriving Repr, DecidableEq

def Err.toString : Err → String
  | .shape => "shape" | .index => "index" | .key => "key" | .notimpl => "notimpl" | .other => "other"

/-! ## 0. constants copied from the sources (pinned by `Scico.Generated.FlaxTables`) -/

/-- `ocp.CheckpointManagerOptions(max_to_keep=3, create=True)` in `checkpoint_save` -/
abbrev codeMaxToKeep : Nat := 3
/-- `steps_per_checkpoint = steps_per_epoch * 10`, `log_every_steps = steps_per_epoch * 20` (defaults of `configure_steps`) -/
abbrev codeSpcFactor : Nat := 10
abbrev codeLogFactor : Nat := 20
/-- `axsqueeze` of `FlaxMap.__call__` for rank 2 / rank 3 input -/
abbrev codeSqueeze2 : List Nat := [0, 3]
abbrev codeSqueeze3 : List Nat := [0]
/-- `IterateData(key=None)` uses `jax.random.PRNGKey(0)` -/
abbrev codeIterDefaultSeed : Nat := 0

/-! ## 1. `FlaxMap.__call__` : axis insertion and removal -/

/-- an N-d array: shape and row-major data.  Reshape/squeeze do not touch the data. -/
structure Arr (α : Type) where
  shape : List Nat
  data : List α
deriving DecidableEq, Repr

/-- `y.squeeze(axis=axes)` on the shape: every listed axis must exist and have size one
    (`ValueError` otherwise, `none`); the listed positions are removed. -/
def squeezeAxes (s : List Nat) (axes : List Nat) : Option (List Nat) :=
  if axes.all (fun a => s[a]? == some 1) then
    some ((s.zipIdx.filter (fun p => !(axes.contains p.2))).map (·.1))
  else none

/-- `y.squeeze(axis=None)`: all singleton axes are removed -/
def squeezeAll (s : List Nat) : List Nat := s.filter (· != 1)

/-- first half of `FlaxMap.__call__`: add singleton axes as necessary; returns the array handed to
    the network and `axsqueeze` -/
def flaxPre {α : Type} (x : Arr α) : Arr α × Option (List Nat) :=
  let xndim := x.shape.length
  if xndim = 2 then (⟨[1] ++ x.shape ++ [1], x.data⟩, some codeSqueeze2)
  else if xndim = 3 then (⟨[1] ++ x.shape, x.data⟩, some codeSqueeze3)
  else (x, none)

/-- second half: `if y.ndim != xndim: return y.squeeze(axis=axsqueeze)`, else `y` -/
def flaxPost {α : Type} (xndim : Nat) (axsqueeze : Option (List Nat)) (y : Arr α) : Except Err (Arr α) :=
  if y.shape.length ≠ xndim then
    match axsqueeze with
    | none => .ok ⟨squeezeAll y.shape, y.data⟩
    | some axes =>
      match squeezeAxes y.shape axes with
      | some s => .ok ⟨s, y.data⟩
      | none => .error .shape
  else .ok y

/-- `FlaxMap.__call__` for a plain array (`BlockArray` → `NotImplementedError` is `flaxMapBlock`).
    `net` is `self.model.apply(self.variables, ·, train=False, mutable=False)`. -/
def flaxMap {α : Type} (net : Arr α → Arr α) (x : Arr α) : Except Err (Arr α) :=
  flaxPost x.shape.length (flaxPre x).2 (net (flaxPre x).1)

/-- a block array argument is rejected before anything else -/
def flaxMapBlock {α : Type} : Except Err (Arr α) := .error .notimpl

/-- Specification (written from the class comment "scico works with (H×W) or (H×W×C), flax expects
    (K×H×W×C)"): which axes are *added* for an input of a given rank, the canonical shape, and the
    removal of exactly those axes. -/
def addedAxes (rank : Nat) : List Nat :=
  if rank = 2 then [0, 3] else if rank = 3 then [0] else []

/-- insert singleton axes at the given (ascending) positions of the result -/
def insertAxes (s : List Nat) : List Nat → List Nat
  | [] => s
  | a :: as => insertAxes (s.insertIdx a 1) as

/-- remove the axes at the given (ascending) positions, last first -/
def removeAxes (s : List Nat) : List Nat → List Nat
  | [] => s
  | a :: as => (removeAxes s as).eraseIdx a

def canon {α : Type} (x : Arr α) : Arr α := ⟨insertAxes x.shape (addedAxes x.shape.length), x.data⟩

/-- spec of the wrapper for a rank-preserving network: apply to the canonical array; the axes that
    were added must be singletons in the result and exactly those are removed. -/
def specFlaxMap {α : Type} (net : Arr α → Arr α) (x : Arr α) : Except Err (Arr α) :=
  let added := addedAxes x.shape.length
  let y := net (canon x)
  if added.all (fun a => y.shape[a]? == some 1) then .ok ⟨removeAxes y.shape added, y.data⟩
  else .error .shape

/-! ## 2. `save_variables` / `load_variables` -/

/-- a variable tree: top-level collections (`"params"`, `"batch_stats"`, …) of opaque sub-trees -/
abbrev VarTree (τ : Type) := List (String × τ)

def lookup {τ : Type} (t : VarTree τ) (k : String) : Option τ := (t.find? (·.1 == k)).map (·.2)

/-- `save_variables` writes `ser variables`; `load_variables` reads, applies `de`, and returns the
    dict `{"params": v["params"], "batch_stats": v["batch_stats"]}` (`KeyError` when one is absent). -/
def loadVars {τ β : Type} (de : β → VarTree τ) (bytes : β) : Except Err (VarTree τ) :=
  let v := de bytes
  match lookup v "params", lookup v "batch_stats" with
  | some p, some b => .ok [("params", p), ("batch_stats", b)]
  | _, _ => .error .key

def saveVars {τ β : Type} (ser : VarTree τ → β) (v : VarTree τ) : β := ser v

/-! ## 3. `IterateData` -/

/-- the two `jax.random` functions the iterator uses, abstract -/
structure KeyOps (κ : Type) where
  split : κ → κ × κ
  permutation : κ → Nat → List Nat

structure Iter (κ : Type) where
  n : Nat
  b : Nat
  train : Bool
  key : κ
  spe : Nat                    -- steps_per_epoch
  perms : List (List Nat)      -- (steps_per_epoch, batch_size) index array
  ns : Nat

/-- `a.reshape((rows, cols))` of a flat index list, row by row -/
def reshapeRows (l : List Nat) (rows cols : Nat) : List (List Nat) :=
  (List.range rows).map (fun i => (l.drop (i * cols)).take cols)

/-- `IterateData.reset` -/
def Iter.reset {κ : Type} (K : KeyOps κ) (it : Iter κ) : Iter κ :=
  let (key, perms) : κ × List Nat :=
    if it.train then
      let (key, subkey) := K.split it.key
      (key, K.permutation subkey it.n)
    else (it.key, List.range it.n)
  let perms := perms.take (it.spe * it.b)          -- skips incomplete batch
  { it with key := key, perms := reshapeRows perms it.spe it.b, ns := 0 }

/-- `IterateData.__init__` (`n // batch_size` raises `ZeroDivisionError` for `batch_size = 0`) -/
def Iter.init {κ : Type} (K : KeyOps κ) (n b : Nat) (train : Bool) (key : κ) : Except Err (Iter κ) :=
  if b = 0 then .error .other
  else .ok (Iter.reset K { n := n, b := b, train := train, key := key, spe := n / b, perms := [], ns := 0 })

/-- `IterateData.__next__`: returns the new iterator state and the row indices `self.perms[self.ns]`
    used for *every* entry of the data dictionary (`IndexError` when there is no such row, i.e.
    `steps_per_epoch = 0`). -/
def Iter.next {κ : Type} (K : KeyOps κ) (it : Iter κ) : Except Err (Iter κ × List Nat) :=
  let it := if it.ns ≥ it.spe then (if it.train then Iter.reset K it else { it with ns := 0 }) else it
  match it.perms[it.ns]? with
  | none => .error .index
  | some rows => .ok ({ it with ns := it.ns + 1 }, rows)

/-- the batch `{k: v[rows, ...] for k, v in dt.items()}`; an array of the dictionary is its
    row-access function -/
def gather {ρ : Type} (dt : List (String × (Nat → ρ))) (rows : List Nat) : List (String × List ρ) :=
  dt.map (fun kv => (kv.1, rows.map kv.2))

/-- `t` successive `next` calls, collecting the row lists -/
def Iter.run {κ : Type} (K : KeyOps κ) : Nat → Iter κ → Except Err (Iter κ × List (List Nat))
  | 0, it => .ok (it, [])
  | t + 1, it =>
    match Iter.next K it with
    | .error e => .error e
    | .ok (it', rows) =>
      match Iter.run K t it' with
      | .error e => .error e
      | .ok (it'', out) => .ok (it'', rows :: out)

/-- Specification.  The key chain: `chain e` is the iterator key after `e` resets, `subkey e` the key
    handed to `permutation` in epoch `e`. -/
def chain {κ : Type} (K : KeyOps κ) (key : κ) : Nat → κ
  | 0 => key
  | e + 1 => (K.split (chain K key e)).1

def subkey {κ : Type} (K : KeyOps κ) (key : κ) (e : Nat) : κ := (K.split (chain K key e)).2

/-- sample order of epoch `e` -/
def epochPerm {κ : Type} (K : KeyOps κ) (key : κ) (n : Nat) (train : Bool) (e : Nat) : List Nat :=
  if train then K.permutation (subkey K key e) n else List.range n

/-- spec of the `t`-th batch (0-based) ever produced: batch `t % spe` of epoch `t / spe`, a batch
    being `b` consecutive entries of the epoch's sample order -/
def specBatch {κ : Type} (K : KeyOps κ) (key : κ) (n b : Nat) (train : Bool) (t : Nat) : List Nat :=
  let spe := n / b
  ((epochPerm K key n train (t / spe)).drop ((t % spe) * b)).take b

/-! ## 4. checkpoint manager -/

/-- checkpoint directory: `none` = the path does not exist; otherwise the checkpoints present, in
    the order they were written (`step`, saved train state). -/
abbrev Dir (σ : Type) := Option (List (Nat × σ))

/-- `mngr.latest_step()` -/
def latest {σ : Type} (l : List (Nat × σ)) : Option Nat :=
  match l with
  | [] => none
  | p :: ps => some (ps.foldl (fun k q => max k q.1) p.1)

/-- `checkpoint_save(state, config, workdir)` with `max_to_keep` (3 in the code), `create=True`:
    orbax skips (silently) a step that is not larger than the latest one; otherwise the checkpoint is
    written and the oldest ones beyond `max_to_keep` are deleted. -/
def save {σ : Type} (maxKeep : Nat) (d : Dir σ) (step : Nat) (s : σ) : Dir σ :=
  let l := match d with | none => [] | some l => l
  let doSave := match latest l with | none => true | some m => m < step
  if doSave then
    let l' := l ++ [(step, s)]
    some (l'.drop (l'.length - maxKeep))
  else some l

/-- `checkpoint_restore(state, workdir, ok_no_ckpt)` as documented: the state of the latest step;
    when no checkpoint is found the passed-in state if `ok_no_ckpt`, `FileNotFoundError` otherwise. -/
def restore {σ : Type} (d : Dir σ) (cur : σ) (okNoCkpt : Bool) : Except Err σ :=
  match d with
  | none => if okNoCkpt then .ok cur else .error .other
  | some l =>
    match latest l with
    | some m =>
      match l.find? (·.1 == m) with
      | some p => .ok p.2
      | none => .error .other
    | none => if okNoCkpt then .ok cur else .error .other

/-- a sequence of saves -/
def saveAll {σ : Type} (maxKeep : Nat) (d : Dir σ) : List (Nat × σ) → Dir σ
  | [] => d
  | p :: ps => saveAll maxKeep (save maxKeep d p.1 p.2) ps

/-- Specification: the saves that are *accepted* are the strict left-to-right maxima of the step
    sequence (given the largest step `m` already present) -/
def records {σ : Type} : Option Nat → List (Nat × σ) → List (Nat × σ)
  | _, [] => []
  | none, p :: ps => p :: records (some p.1) ps
  | some m, p :: ps => if m < p.1 then p :: records (some p.1) ps else records (some m) ps

/-! ## 5. trainer loop: step numbering, checkpoint schedule, resume offset -/

/-- one pass of `for step in range(step_offset, num_steps)`: the executed step numbers and, for each,
    whether `self.checkpoint(state)` is called (the state then carries `state.step = step + 1`). -/
def trainLoop (offset numSteps spc : Nat) : List (Nat × Bool) :=
  (List.range' offset (numSteps - offset)).map
    (fun step => (step, (step + 1) % spc == 0 || step + 1 == numSteps))

/-- the `state.step` values handed to `checkpoint_save` by one `train()` call started at `offset`:
    the in-loop ones, then the unconditional final one (`state.step` after the loop) -/
def trainSaves (offset numSteps spc : Nat) : List Nat :=
  ((trainLoop offset numSteps spc).filter (·.2)).map (·.1 + 1) ++ [max offset numSteps]

/-- `train()` against a checkpoint directory: restore (constructor, `ok_no_ckpt=True`), loop, save.
    The train state is abstracted to its step counter.  Returns executed steps and the directory. -/
def trainRun (maxKeep : Nat) (d : Dir Nat) (numSteps spc : Nat) : Except Err (List Nat × Dir Nat) :=
  match restore d 0 true with
  | .error e => .error e
  | .ok offset =>
    let steps := (trainLoop offset numSteps spc).map (·.1)
    .ok (steps, saveAll maxKeep d ((trainSaves offset numSteps spc).map (fun s => (s, s))))

/-! ## 6. `BasicFlaxTrainer`: derived counters, one session (constructor + `train()`), chains of sessions -/

/-- what `configure_steps` / `configure_reporting` read from the configuration dictionary and the data sets -/
structure TrainCfg where
  lenTrain : Nat               -- train_ds["image"].shape[0]
  lenTest : Nat                -- test_ds["image"].shape[0]
  batchSize : Nat              -- config["batch_size"]
  numEpochs : Nat              -- config["num_epochs"]
  spcOpt : Option Nat          -- config["steps_per_checkpoint"] when present
  logOpt : Option Nat          -- config["log_every_steps"] when present
  evalOpt : Option Nat         -- config["steps_per_eval"] when present
  checkpointing : Bool         -- config["checkpointing"] (default False)
  hasVars0 : Bool              -- `variables0` given: the constructor does not restore
  logflag : Bool               -- config["log"]: `update_metrics` does something only then

/-- `self.steps_per_epoch = len_train // batch_size` -/
def TrainCfg.spe (c : TrainCfg) : Nat := c.lenTrain / c.batchSize
/-- `self.num_steps = int(self.steps_per_epoch * num_epochs)` -/
def TrainCfg.numSteps (c : TrainCfg) : Nat := c.spe * c.numEpochs
/-- `self.steps_per_checkpoint` (default `steps_per_epoch * 10`) -/
def TrainCfg.spc (c : TrainCfg) : Nat := match c.spcOpt with | some v => v | none => c.spe * codeSpcFactor
/-- `self.log_every_steps` (default `steps_per_epoch * 20`) -/
def TrainCfg.logEvery (c : TrainCfg) : Nat := match c.logOpt with | some v => v | none => c.spe * codeLogFactor
/-- `self.steps_per_eval` (default `len_test // batch_size`) -/
def TrainCfg.stepsPerEval (c : TrainCfg) : Nat := match c.evalOpt with | some v => v | none => c.lenTest / c.batchSize

/-- what happens in one iteration of `for step, batch in zip(range(step_offset, num_steps), train_dt_iter)` -/
structure StepEv where
  step : Nat         -- the step number handed to `p_train_step` (= `state.step` before the update)
  batch : Nat        -- 0-based index of the batch drawn from THIS session's training iterator
  logged : Bool      -- `(step + 1) % log_every_steps == 0`  → `update_metrics`
  epoch : Nat        -- `step // steps_per_epoch`, reported by `update_metrics`
  ckpt : Bool        -- `(step + 1) % steps_per_checkpoint == 0 or step + 1 == num_steps` → `self.checkpoint(state)`
deriving DecidableEq, Repr

/-- `initialize_training_state`: restore only `if self.checkpointing and variables0 is None` (with
    `ok_no_ckpt=True`); the train state is abstracted to its step counter, a new state has step 0 -/
def sessionOffset (c : TrainCfg) (d : Dir Nat) : Except Err Nat :=
  if c.checkpointing && !c.hasVars0 then restore d 0 true else .ok 0

/-- the loop of `train()`.  The two modulo tests raise `ZeroDivisionError` in the first iteration when the
    divisor is 0 (guarded here, not totalised); an empty loop evaluates neither. -/
def sessionLoop (c : TrainCfg) (offset : Nat) : Except Err (List StepEv) :=
  if offset < c.numSteps ∧ (c.logEvery = 0 ∨ c.spc = 0) then .error .other
  else .ok ((List.range' offset (c.numSteps - offset)).map (fun step =>
    { step := step, batch := step - offset, logged := (step + 1) % c.logEvery == 0, epoch := step / c.spe,
      ckpt := (step + 1) % c.spc == 0 || step + 1 == c.numSteps }))

/-- The loop of `train()` as the code runs it, one iteration at a time: `train_metrics` (a list) grows by one entry per step
    and is emptied by every logged step, which hands it to `update_metrics` first. -/
structure LoopSt where
  metrics : Nat                    -- len(train_metrics)
  evs : List StepEv
  windows : List (Nat × Nat)       -- (logged step, len(train_metrics) handed to `update_metrics`)
deriving DecidableEq, Repr

/-- one iteration of `for step, batch in zip(range(step_offset, num_steps), train_dt_iter)` -/
def loopStep (c : TrainCfg) (offset : Nat) (st : LoopSt) (step : Nat) : LoopSt :=
  let m := st.metrics + 1                                    -- train_metrics.append(metrics)
  let logged := (step + 1) % c.logEvery == 0
  let ev : StepEv := { step := step, batch := step - offset, logged := logged, epoch := step / c.spe,
                       ckpt := (step + 1) % c.spc == 0 || step + 1 == c.numSteps }
  if logged then ⟨0, st.evs ++ [ev], st.windows ++ [(step, m)]⟩   -- update_metrics(state, step, train_metrics, t0); train_metrics = []
  else ⟨m, st.evs ++ [ev], st.windows⟩

/-- the first `n` iterations of the loop started at `offset` -/
def loopRunN (c : TrainCfg) (offset n : Nat) : LoopSt :=
  (List.range' offset n).foldl (loopStep c offset) ⟨0, [], []⟩

/-- the whole loop -/
def loopRun (c : TrainCfg) (offset : Nat) : LoopSt := loopRunN c offset (c.numSteps - offset)

structure SessionOut where
  offset : Nat
  events : List StepEv
  evalBatches : Nat            -- batches drawn from the evaluation iterator (`steps_per_eval` per logged step)
  dir : Dir Nat

/-- constructor + one `train()` of a `BasicFlaxTrainer` against the checkpoint directory `d` -/
def trainSession (maxKeep : Nat) (c : TrainCfg) (d : Dir Nat) : Except Err SessionOut :=
  if c.batchSize = 0 then .error .other            -- `len_train // batch_size`
  else
    match sessionOffset c d with
    | .error e => .error e
    | .ok offset =>
      match sessionLoop c offset with
      | .error e => .error e
      | .ok evs =>
        let saves := ((evs.filter (·.ckpt)).map (·.step + 1)) ++ [max offset c.numSteps]
        let d' := if c.checkpointing then saveAll maxKeep d (saves.map (fun s => (s, s))) else d
        let ev := if c.logflag then c.stepsPerEval * (evs.filter (·.logged)).length else 0
        .ok ⟨offset, evs, ev, d'⟩

/-- a second `train()` on the SAME trainer object: `self.state` is not written back by `train()`, so the
    loop starts from the same offset again; the directory has changed, and the training iterator is NOT
    re-started (it continues after the batches the first call consumed) -/
def trainAgain (maxKeep : Nat) (c : TrainCfg) (o : SessionOut) : Except Err SessionOut :=
  match sessionLoop c o.offset with
  | .error e => .error e
  | .ok evs0 =>
    let evs := evs0.map (fun e => { e with batch := e.batch + o.events.length })
    let saves := ((evs.filter (·.ckpt)).map (·.step + 1)) ++ [max o.offset c.numSteps]
    let d' := if c.checkpointing then saveAll maxKeep o.dir (saves.map (fun s => (s, s))) else o.dir
    let ev := if c.logflag then c.stepsPerEval * (evs.filter (·.logged)).length else 0
    .ok ⟨o.offset, evs, ev, d'⟩

/-- successive trainer objects (program runs) sharing one checkpoint directory: executed step numbers of each -/
def trainChain (maxKeep : Nat) : Dir Nat → List TrainCfg → Except Err (List (List Nat) × Dir Nat)
  | d, [] => .ok ([], d)
  | d, c :: cs =>
    match trainSession maxKeep c d with
    | .error e => .error e
    | .ok o =>
      match trainChain maxKeep o.dir cs with
      | .error e => .error e
      | .ok (outs, d') => .ok (o.events.map (·.step) :: outs, d')

/-- the rows of the training set handed to each executed step: batch `e.batch` of the iterator (specification
    `specBatch` of §3: a function of the key, the sizes and the batch number only) -/
def sessionRows {κ : Type} (K : KeyOps κ) (key : κ) (n b : Nat) (evs : List StepEv) : List (Nat × List Nat) :=
  evs.map (fun e => (e.step, specBatch K key n b true e.batch))

/-- Specification of a chain: session `i` executes `s … Nᵢ−1` where `s` is the largest target so far -/
def specChain : Nat → List Nat → List (List Nat)
  | _, [] => []
  | s, n :: ns => List.range' s (n - s) :: specChain (max s n) ns

/-! ## 7. data copied from the scico sources — pinned to the source by `Scico.Generated.FlaxTables` (regenerated on every run) -/

/-- the functions this file follows line by line, as normalised source (`ast.unparse`, docstrings and comments dropped):
    `flaxPre/flaxPost` ↔ `FlaxMap.__call__`; `loadVars/saveVars`; `Iter.init/reset/next`; `save/restore`;
    `TrainCfg.*`, `sessionOffset`, `sessionLoop`, `trainSession` ↔ the four `BasicFlaxTrainer` methods. -/
def codeSources : List (String × List String) := [
  ("FlaxMap.__call__", ["if isinstance(x, BlockArray):", "    raise NotImplementedError", "xndim = x.ndim", "axsqueeze: Optional[Shape] = None", "if xndim == 2:", "    x = x.reshape((1,) + x.shape + (1,))", "    axsqueeze = (0, 3)", "elif xndim == 3:", "    x = x.reshape((1,) + x.shape)", "    axsqueeze = (0,)", "y = self.model.apply(self.variables, x, train=False, mutable=False)", "if y.ndim != xndim:", "    return y.squeeze(axis=axsqueeze)", "return y"]),
  ("load_variables", ["with open(filename, 'rb') as data_file:", "    bytes_input = data_file.read()", "variables = serialization.msgpack_restore(bytes_input)", "var_in = {'params': variables['params'], 'batch_stats': variables['batch_stats']}", "return var_in"]),
  ("save_variables", ["bytes_output = serialization.msgpack_serialize(variables)", "with open(filename, 'wb') as data_file:", "    data_file.write(bytes_output)"]),
  ("IterateData.__init__", ["self.dt = dt", "self.batch_size = batch_size", "self.train = train", "self.n = dt['image'].shape[0]", "self.key = key", "if key is None:", "    self.key = jax.random.PRNGKey(0)", "self.steps_per_epoch = self.n // batch_size", "self.reset()"]),
  ("IterateData.reset", ["if self.train:", "    self.key, subkey = jax.random.split(self.key)", "    self.perms = jax.random.permutation(subkey, self.n)", "else:", "    self.perms = jnp.arange(self.n)", "self.perms = self.perms[:self.steps_per_epoch * self.batch_size]", "self.perms = self.perms.reshape((self.steps_per_epoch, self.batch_size))", "self.ns = 0"]),
  ("IterateData.__next__", ["if self.ns >= self.steps_per_epoch:", "    if self.train:", "        self.reset()", "    else:", "        self.ns = 0", "batch = {k: v[self.perms[self.ns], ...] for k, v in self.dt.items()}", "self.ns += 1", "return batch"]),
  ("create_input_iter", ["ds = IterateData(dataset, batch_size, train, key)", "it = map(prepare_data, ds)", "it = jax_utils.prefetch_to_device(it, size_device_prefetch)", "return it"]),
  ("checkpoint_restore", ["workdir_ = workdir", "if isinstance(workdir_, str):", "    workdir_ = Path(workdir_)", "if workdir_.exists():", "    options = ocp.CheckpointManagerOptions()", "    mngr = ocp.CheckpointManager(workdir_, item_names=('state', 'config'), options=options)", "    step = mngr.latest_step()", "    if step is not None:", "        restored = mngr.restore(step, args=ocp.args.Composite(state=ocp.args.StandardRestore(state)))", "        mngr.wait_until_finished()", "        mngr.close()", "        state = restored.state", "    else:", "        mngr.close()", "        if not ok_no_ckpt:", "            raise FileNotFoundError('Could not read from checkpoint: ' + str(workdir))", "elif not ok_no_ckpt:", "    raise FileNotFoundError('Could not read from checkpoint: ' + str(workdir))", "return state"]),
  ("checkpoint_save", ["if jax.process_index() == 0:", "    options = ocp.CheckpointManagerOptions(max_to_keep=3, create=True)", "    mngr = ocp.CheckpointManager(workdir, item_names=('state', 'config'), options=options)", "    step = int(state.step)", "    config_ = config.copy()", "    if 'post_lst' in config_:", "        config_.pop('post_lst', None)", "    mngr.save(step, args=ocp.args.Composite(state=ocp.args.StandardSave(state), config=ocp.args.JsonSave(config_)))", "    mngr.wait_until_finished()", "    mngr.close()"]),
  ("BasicFlaxTrainer.configure_steps", ["if 'batch_size' not in config:", "    batch_size = 2 * jax.device_count()", "else:", "    batch_size = config['batch_size']", "if 'num_epochs' not in config:", "    num_epochs = 10", "else:", "    num_epochs = config['num_epochs']", "if batch_size % jax.device_count() > 0:", "    raise ValueError('Batch size must be divisible by the number of devices')", "self.local_batch_size: int = batch_size // jax.process_count()", "self.steps_per_epoch: int = len_train // batch_size", "config['steps_per_epoch'] = self.steps_per_epoch", "self.num_steps: int = int(self.steps_per_epoch * num_epochs)", "num_validation_examples: int = len_test", "if 'steps_per_eval' not in config:", "    self.steps_per_eval: int = num_validation_examples // batch_size", "else:", "    self.steps_per_eval = config['steps_per_eval']", "if 'steps_per_checkpoint' not in config:", "    self.steps_per_checkpoint: int = self.steps_per_epoch * 10", "else:", "    self.steps_per_checkpoint = config['steps_per_checkpoint']", "if 'log_every_steps' not in config:", "    self.log_every_steps: int = self.steps_per_epoch * 20", "else:", "    self.log_every_steps = config['log_every_steps']"]),
  ("BasicFlaxTrainer.initialize_training_state", ["state = self.create_train_state(key, config, model, self.ishape, self.lr_schedule, variables0)", "if self.checkpointing and variables0 is None:", "    ok_no_ckpt = True", "    state = checkpoint_restore(state, self.workdir, ok_no_ckpt)", "self.log('Network Structure:')", "self.log(get_parameter_overview(state.params) + '\\n')", "if hasattr(state, 'batch_stats'):", "    self.log('Batch Normalization:')", "    self.log(get_parameter_overview(state.batch_stats) + '\\n')", "self.state = state"]),
  ("BasicFlaxTrainer.train", ["state = self.state", "step_offset = int(state.step)", "state = jax_utils.replicate(state)", "t0 = time.time()", "self.log('Initial compilation, which might take some time ...')", "train_metrics: List[Any] = []", "for step, batch in zip(range(step_offset, self.num_steps), self.train_dt_iter):", "    state, metrics = self.p_train_step(state, batch)", "    train_metrics.append(metrics)", "    if step == step_offset:", "        self.log('Initial compilation completed.\\n')", "    if (step + 1) % self.log_every_steps == 0:", "        state = sync_batch_stats(state)", "        self.update_metrics(state, step, train_metrics, t0)", "        train_metrics = []", "    if (step + 1) % self.steps_per_checkpoint == 0 or step + 1 == self.num_steps:", "        state = sync_batch_stats(state)", "        self.checkpoint(state)", "jax.random.normal(jax.random.PRNGKey(0), ()).block_until_ready()", "if self.logflag:", "    assert self.itstat_object is not None", "    self.itstat_object.end()", "state = sync_batch_stats(state)", "self.checkpoint(state)", "state = jax_utils.unreplicate(state)", "if self.return_state:", "    return (state, self.itstat_object)", "dvar: ModelVarDict = {'params': state.params, 'batch_stats': state.batch_stats}", "self.train_time = time.time() - t0", "return (dvar, self.itstat_object)"]),
  ("BasicFlaxTrainer.checkpoint", ["if self.checkpointing:", "    checkpoint_save(jax_utils.unreplicate(state), self.config, self.workdir)"])
]

end Scico.Flax
