/-
  Solver driver, iteration statistics and interval timer (DESIGN §4.2 `Model/Driver`, §5.9).
  Mathlib-free, executable.

  Transcribed from
  * `scico/util.py`            : class `Timer` (`__init__`, `start`, `stop`, `reset`, `elapsed`)
  * `scico/diagnostics.py`     : `IterationStats.insert / history / end`
  * `scico/optimize/_common.py`: `Optimizer.__init__` (keyword handling), `solve`, `_all_finite`,
                                 `_itstat_default_fields`
  * `scico/optimize/_admm.py, _ladmm.py, _padmm.py, _primaldual.py, _pgm.py`:
                                 `_working_vars_finite`, `_itstat_extra_fields`, `minimizer`

  Time is an integer number of clock ticks (`Nat`); the clock is an explicit argument of every
  timer operation (the value `timeit.default_timer()` returns inside the call).  With a
  non-decreasing clock every subtraction `t - t0` below is exact (a start time is never in the
  future); the theorems carry that hypothesis.

  The *specification* (ideal stop-watch, iteration records, …) is NOT in this file: see
  `Scico/Proofs/DriverSpec.lean`.
-/

namespace Scico.Driver

/-! ## `scico.util.Timer` -/

/-- the pair `(self.t0[lbl], self.td[lbl])`.  The two dictionaries of the class always have the
    same key set (entries are only ever created in pairs, in `__init__` and in `start`), so they
    are modelled as one insertion-ordered dictionary of pairs. -/
structure Entry where
  /-- `self.t0[lbl]`: time of the `start` call if running, `None` otherwise -/
  t0 : Option Nat
  /-- `self.td[lbl]`: accumulated time of the completed start/stop intervals -/
  td : Nat
deriving Repr, DecidableEq, Inhabited

/-- insertion-ordered dictionary (Python `dict`) -/
abbrev Store (L : Type) := List (L × Entry)

section
variable {L : Type} [DecidableEq L]

/-- `d[l]` / `l in d` -/
def Store.get : Store L → L → Option Entry
  | [], _ => none
  | (k, e) :: s, l => if k = l then some e else Store.get s l

/-- `d[l] = e` (replaces in place, else appends: Python dictionaries keep insertion order) -/
def Store.set : Store L → L → Entry → Store L
  | [], l, e => [(l, e)]
  | (k, x) :: s, l, e => if k = l then (k, e) :: s else (k, x) :: Store.set s l e

/-- `list(d.keys())` -/
def Store.keys (s : Store L) : List L := s.map (·.1)

/-- an argument `labels` of `start/stop/reset/__init__`: `None`, one label, or a list/tuple -/
inductive Arg (L : Type) where
  | none
  | one (l : L)
  | many (ls : List L)
deriving Repr, DecidableEq

structure Timer (L : Type) where
  store : Store L
  /-- `self.default_label` -/
  dflt : L
  /-- `self.all_label` -/
  all : L
deriving Repr

/-- the zero entry created by `__init__` and by the first `start` of a label -/
def Entry.fresh : Entry := ⟨none, 0⟩

/-- `Timer.__init__(labels, default_label, all_label)` -/
def Timer.init (labels : Arg L) (dflt all : L) : Timer L :=
  let ls := match labels with
    | .none => []
    | .one l => [l]
    | .many ls => ls
  ⟨ls.foldl (fun s l => s.set l Entry.fresh) [], dflt, all⟩

/-- body of the `start` loop for an existing entry: `if self.t0[lbl] is None: self.t0[lbl] = t` -/
def startEntry (e : Entry) (t : Nat) : Entry :=
  match e.t0 with
  | none => { e with t0 := some t }
  | some _ => e

/-- body of the `stop` loop: `if self.t0[lbl] is not None: self.td[lbl] += t - self.t0[lbl];
    self.t0[lbl] = None` -/
def stopEntry (e : Entry) (t : Nat) : Entry :=
  match e.t0 with
  | some s => ⟨none, e.td + (t - s)⟩
  | none => e

/-- body of the `reset` loop: `self.t0[lbl] = None; self.td[lbl] = 0.0` -/
def resetEntry (_e : Entry) : Entry := ⟨none, 0⟩

/-- one pass of the `start` loop: create the entry if `lbl not in self.td`, then start it -/
def startOne (s : Store L) (t : Nat) (l : L) : Store L :=
  match s.get l with
  | none => s.set l (startEntry Entry.fresh t)
  | some e => s.set l (startEntry e t)

/-- label list of `start`: `None` → `[default_label]`, non-list → singleton (no `all` handling) -/
def Timer.startLabels (T : Timer L) : Arg L → List L
  | .none => [T.dflt]
  | .one l => [l]
  | .many ls => ls

/-- `Timer.start(labels)` at clock value `t` (never raises) -/
def Timer.start (T : Timer L) (a : Arg L) (t : Nat) : Timer L :=
  { T with store := (T.startLabels a).foldl (fun s l => startOne s t l) T.store }

/-- label list of `stop`/`reset`: `None` → default label; a (non-list) value equal to
    `all_label` → every existing key; other non-list → singleton; list → itself -/
def Timer.targets (T : Timer L) : Arg L → List L
  | .none => if T.dflt = T.all then T.store.keys else [T.dflt]
  | .one l => if l = T.all then T.store.keys else [l]
  | .many ls => ls

/-- the `for lbl in labels` loop of `stop`/`reset`: the first label that is not a key raises
    `KeyError` (`false`), leaving the entries processed so far modified -/
def updList (f : Entry → Entry) : Store L → List L → Store L × Bool
  | s, [] => (s, true)
  | s, l :: ls =>
    match s.get l with
    | none => (s, false)
    | some e => updList f (s.set l (f e)) ls

/-- `Timer.stop(labels)` at clock value `t`; second component `false` = `KeyError` -/
def Timer.stop (T : Timer L) (a : Arg L) (t : Nat) : Timer L × Bool :=
  let r := updList (fun e => stopEntry e t) T.store (T.targets a)
  ({ T with store := r.1 }, r.2)

/-- `Timer.reset(labels)`; second component `false` = `KeyError` -/
def Timer.reset (T : Timer L) (a : Arg L) : Timer L × Bool :=
  let r := updList resetEntry T.store (T.targets a)
  ({ T with store := r.1 }, r.2)

/-- `te = t - self.t0[label] if running else 0; if total: te += self.td[label]` -/
def elapsedEntry (e : Entry) (total : Bool) (t : Nat) : Nat :=
  (match e.t0 with
   | some s => t - s
   | none => 0) + (if total then e.td else 0)

/-- `Timer.elapsed(label=None, total)`: the branch for the default label never raises (returns 0
    when the default timer was never initialised) -/
def Timer.elapsedDefault (T : Timer L) (total : Bool) (t : Nat) : Nat :=
  match T.store.get T.dflt with
  | none => 0
  | some e => elapsedEntry e total t

/-- `Timer.elapsed(label, total)` at clock value `t`; `none` = `KeyError` -/
def Timer.elapsed (T : Timer L) (label : Option L) (total : Bool) (t : Nat) : Option Nat :=
  match label with
  | none => some (T.elapsedDefault total t)
  | some l => (T.store.get l).map (fun e => elapsedEntry e total t)

/-- the three mutating operations -/
inductive Op where
  | start | stop | reset
deriving Repr, DecidableEq

/-- one mutating call with the clock value read inside it -/
structure Call (L : Type) where
  time : Nat
  op : Op
  arg : Arg L
deriving Repr

/-- perform one call; `false` = the call raised `KeyError` (state possibly partially modified) -/
def Timer.apply (T : Timer L) (c : Call L) : Timer L × Bool :=
  match c.op with
  | .start => (T.start c.arg c.time, true)
  | .stop => T.stop c.arg c.time
  | .reset => T.reset c.arg

/-- a program that performs the calls in order and carries on after a `KeyError`
    (`try: … except KeyError: pass`) -/
def Timer.run (T : Timer L) (h : List (Call L)) : Timer L :=
  h.foldl (fun T c => (T.apply c).1) T

end

/-! ## `_all_finite`, `_working_vars_finite` -/

/-- a working variable: a plain array or a block array (list of blocks), entries flattened -/
inductive Var (α : Type) where
  | plain (xs : List α)
  | block (bs : List (List α))
deriving Repr

/-- `snp.any(p(v))`: a *full* reduction, also over the blocks of a block array -/
def Var.any {α} (p : α → Bool) : Var α → Bool
  | .plain xs => xs.any p
  | .block bs => bs.any (fun b => b.any p)

/-- `_common._all_finite(v) = not snp.any(snp.logical_not(snp.isfinite(v)))` -/
def allFinite {α} (fin : α → Bool) (v : Var α) : Bool := !(v.any (fun x => !(fin x)))

/-- `_working_vars_finite` of every class: conjunction over the class's working variables
    (ADMM: `x, *z_list, *u_list` with early return; LinearizedADMM / ProximalADMM /
    NonLinearPADMM: `x, z, u`; PDHG: `x, z`; PGM: `x`; AcceleratedPGM: `x, v`) -/
def workingVarsFinite {α} (fin : α → Bool) (vars : List (Var α)) : Bool :=
  vars.all (allFinite fin)

/-- the behaviour of the pinned tree before the repair (`snp.all(snp.isfinite(v))`, mapped over
    blocks: a block array of booleans is always truthy) — kept only to classify the known
    finding `nanstop-block`; no theorem is about it -/
def workingVarsFinitePinned {α} (fin : α → Bool) (vars : List (Var α)) : Bool :=
  vars.all (fun v => match v with
    | .plain xs => xs.all fin
    | .block _ => true)

/-! ## `Optimizer.__init__` keyword handling and statistics fields -/

structure Options where
  iter0 : Int := 0
  maxiter : Int := 100
  nanstop : Bool := false
  /-- whether `itstat_options` was given (its content is the caller's business) -/
  itstatGiven : Bool := false
deriving Repr, DecidableEq

/-- a default value of `kwargs.pop(name, default)` -/
inductive OptVal where
  | int (n : Int)
  | bool (b : Bool)
  | none
deriving Repr, DecidableEq

/-- `Optimizer.__init__`: `kwargs.pop(name, default)` in source order -/
def optionDefaults : List (String × OptVal) :=
  [("iter0", .int 0), ("maxiter", .int 100), ("nanstop", .bool false), ("itstat_options", .none)]

/-- default of an integer / truth-valued option, read from the table -/
def optionDefaultInt (k : String) : Int :=
  match (optionDefaults.find? (fun p => p.1 == k)).map (fun p => p.2) with
  | some (OptVal.int n) => n
  | some (OptVal.bool b) => if b then 1 else 0
  | _ => 0

/-- `kwargs.pop(name, default)` for every entry of `optionDefaults`, then `if kwargs: raise TypeError`.
    Values are integers (`nanstop` by truthiness).  `none` = `TypeError`. -/
def parseKwargs (kw : List (String × Int)) : Option Options :=
  let get (k : String) : Option Int := (kw.find? (·.1 == k)).map (·.2)
  let rest := kw.filter (fun p => !((optionDefaults.map (·.1)).contains p.1))
  if rest.isEmpty then
    some { iter0 := (get "iter0").getD (optionDefaultInt "iter0")
           maxiter := (get "maxiter").getD (optionDefaultInt "maxiter")
           nanstop := (get "nanstop").getD (optionDefaultInt "nanstop") != 0
           itstatGiven := (get "itstat_options").isSome }
  else none

/-- the optimiser classes -/
inductive OptClass where
  | admm | ladmm | padmm | nlpadmm | pdhg | pgm | apgm
deriving Repr, DecidableEq

/-- which sub-problem solver an ADMM object has (decides its extra statistics columns) -/
inductive AdmmSolver where
  | generic | linearScicoCG | linearOther | checked | other
deriving Repr, DecidableEq

/-- one statistics column: header, display format, attribute expression evaluated on the optimiser
    object (`"obj." ++ attrib`) -/
structure FieldSpec where
  name : String
  fmt : String
  attrib : String
deriving Repr, DecidableEq

/-- `_itstat_default_fields`: `Iter`, `Time`, and `Objective` when `_objective_evaluatable()` -/
def objectiveFieldSpecs : List FieldSpec := [⟨"Objective", "%9.3e", "objective()"⟩]

def defaultFieldSpecs (objectiveEvaluable : Bool) : List FieldSpec :=
  [⟨"Iter", "%d", "itnum"⟩, ⟨"Time", "%8.2e", "timer.elapsed()"⟩] ++
    (if objectiveEvaluable then objectiveFieldSpecs else [])

def residualFieldSpecs : List FieldSpec :=
  [⟨"Prml Rsdl", "%9.3e", "norm_primal_residual()"⟩, ⟨"Dual Rsdl", "%9.3e", "norm_dual_residual()"⟩]

/-- the `if / elif` chain of `ADMM._itstat_extra_fields`: columns added for the sub-problem solver -/
def admmSolverFieldSpecs : AdmmSolver → List FieldSpec
  | .generic => [⟨"Num FEv", "%6d", "subproblem_solver.info['nfev']"⟩, ⟨"Num It", "%6d", "subproblem_solver.info['nit']"⟩]
  | .linearScicoCG =>
    [⟨"CG It", "%5d", "subproblem_solver.info['num_iter']"⟩, ⟨"CG Res", "%9.3e", "subproblem_solver.info['rel_res']"⟩]
  | .checked => [⟨"Slv Res", "%9.3e", "subproblem_solver.accuracy"⟩]
  | _ => []

/-- the conditions of that chain, in source order (source text) -/
def admmSolverCond : AdmmSolver → String
  | .generic => "isinstance(self.subproblem_solver, GenericSubproblemSolver)"
  | .linearScicoCG =>
    "type(self.subproblem_solver) == LinearSubproblemSolver and self.subproblem_solver.cg_function == 'scico'"
  | .checked =>
    "type(self.subproblem_solver) in [MatrixSubproblemSolver, FBlockCircularConvolveSolver, G0BlockCircularConvolveSolver] and self.subproblem_solver.check_solve"
  | _ => ""

/-- `_itstat_extra_fields` -/
def extraFieldSpecs : OptClass → AdmmSolver → List FieldSpec
  | .admm, sv => residualFieldSpecs ++ admmSolverFieldSpecs sv
  | .pgm, _ => [⟨"L", "%9.3e", "L"⟩, ⟨"Residual", "%9.3e", "norm_residual()"⟩]
  | .apgm, _ => [⟨"L", "%9.3e", "L"⟩, ⟨"Residual", "%9.3e", "norm_residual()"⟩]
  | _, _ => residualFieldSpecs

/-- `_objective_evaluatable()`: ADMM `(not self.f or self.f.has_eval) and all(g.has_eval for g in g_list)`;
    every other class `self.f.has_eval and self.g.has_eval` (one `g`) -/
def objectiveEvaluable (c : OptClass) (fGiven fHas : Bool) (gs : List Bool) : Bool :=
  match c with
  | .admm => (!fGiven || fHas) && gs.all id
  | _ => fHas && gs.all id

/-- all columns of a record, in order -/
def fieldSpecs (c : OptClass) (sv : AdmmSolver) (objectiveEvaluable : Bool) : List FieldSpec :=
  defaultFieldSpecs objectiveEvaluable ++ extraFieldSpecs c sv

/-- `_itstat_default_fields` followed by the extra fields: the column names of a record -/
def fieldNames (c : OptClass) (sv : AdmmSolver) (objectiveEvaluable : Bool) : List String :=
  (fieldSpecs c sv objectiveEvaluable).map (·.name)

/-- the attributes `_working_vars_finite` passes to `_all_finite`, in evaluation order
    (`*name`: every element of the list attribute `name`) -/
def workingVarNames : OptClass → List String
  | .admm => ["x", "*z_list", "*u_list"]
  | .ladmm => ["x", "z", "u"]
  | .padmm => ["x", "z", "u"]
  | .nlpadmm => ["x", "z", "u"]
  | .pdhg => ["x", "z"]
  | .pgm => ["x"]
  | .apgm => ["x", "v"]

/-- source text of the statistics function `itstat_func_and_object` assembles and `exec`s:
    `"def itstat_func(obj): " + "return(" + ", ".join(["obj." + attr …]) + ")"` -/
def itstatFuncSource (attribs : List String) : String :=
  "def itstat_func(obj): " ++ "return(" ++ ", ".intercalate (attribs.map ("obj." ++ ·)) ++ ")"

/-! ### the same tables in the shape the translator reads them from the source

`harness/driver_translate.py` regenerates `Scico/Generated/DriverFields.lean` (`src : FieldTables`) from the
working tree on every run and closes `src = fieldTables` by `decide`. -/

def OptClass.tag : OptClass → String
  | .admm => "admm" | .ladmm => "ladmm" | .padmm => "padmm" | .nlpadmm => "nlpadmm"
  | .pdhg => "pdhg" | .pgm => "pgm" | .apgm => "apgm"

/-- the Python class -/
def OptClass.pyName : OptClass → String
  | .admm => "ADMM" | .ladmm => "LinearizedADMM" | .padmm => "ProximalADMM" | .nlpadmm => "NonLinearPADMM"
  | .pdhg => "PDHG" | .pgm => "PGM" | .apgm => "AcceleratedPGM"

structure ClassTable where
  tag : String
  name : String
  /-- the dict / list `_itstat_extra_fields` starts from -/
  base : List FieldSpec
  /-- the `if / elif` chain: (condition, columns added) -/
  branches : List (String × List FieldSpec)
  /-- arguments of `_all_finite` in `_working_vars_finite` -/
  vars : List String
deriving Repr, DecidableEq

structure FieldTables where
  default : List FieldSpec
  objectiveCond : String
  objective : List FieldSpec
  /-- right-hand side of `itstat_return = …` -/
  itstatReturn : String
  /-- argument of `exec(…)` -/
  itstatExec : String
  classes : List ClassTable
deriving Repr, DecidableEq

def classTableOf (c : OptClass) : ClassTable :=
  { tag := c.tag, name := c.pyName, base := extraFieldSpecs c .other,
    branches := if c = .admm then
        [AdmmSolver.generic, .linearScicoCG, .checked].map (fun sv => (admmSolverCond sv, admmSolverFieldSpecs sv))
      else [],
    vars := workingVarNames c }

/-- the model's tables -/
def fieldTables : FieldTables :=
  { default := defaultFieldSpecs false
    objectiveCond := "self._objective_evaluatable()"
    objective := objectiveFieldSpecs
    itstatReturn := "'return(' + ', '.join(['obj.' + attr for attr in itstat_attrib]) + ')'"
    itstatExec := "'def itstat_func(obj): ' + itstat_return"
    classes := [OptClass.admm, .ladmm, .padmm, .nlpadmm, .pdhg, .pgm, .apgm].map classTableOf }

/-! ## `IterationStats` -/

/-- one inserted record: iteration number, reported time, remaining accessor values -/
structure Row (ρ : Type) where
  iter : Int
  time : Nat
  fields : ρ
deriving Repr

/-- `IterationStats.insert(values)`: `self.iterations.append(self.IterTuple(*values))` -/
def statsInsert {ρ} (rows : List (Row ρ)) (r : Row ρ) : List (Row ρ) := rows ++ [r]

/-- column `n` of a list of records (each a list of values) -/
def column {β} (rows : List (List β)) (n : Nat) : List (Option β) := rows.map (fun r => r[n]?)

/-- `IterationStats.history(transpose=True)` on records given as lists of values:
    `[[iterations[m][n] for m in range(len(iterations))] for n in range(len(iterations[0]))]`;
    with no record the (empty) list of records itself is returned -/
def historyTranspose {β} (rows : List (List β)) : List (List (Option β)) :=
  match rows with
  | [] => []
  | r0 :: _ => (List.range r0.length).map (column rows)

/-! ## `Optimizer.solve` -/

/-- the concrete optimiser seen from the driver.  `ω` is everything `step()` and the accessors
    read or write (working variables, sub-solver state, step-size state, …). -/
structure Env (ω ρ ξ α : Type) where
  /-- `self.step()` -/
  step : ω → ω
  /-- clock ticks that pass while that `step()` call runs -/
  stepTicks : ω → Nat
  /-- the working variables `_working_vars_finite` inspects -/
  vars : ω → List (Var α)
  /-- `isfinite` on scalars -/
  fin : α → Bool
  /-- accessor values of the statistics record other than `Iter` and `Time`
      (`objective()`, `norm_primal_residual()`, …) -/
  fields : ω → ρ
  /-- `self.minimizer()` -/
  minimizer : ω → ξ

/-- a callback: an arbitrary effect on the optimiser's algorithmic state, taking some time.
    (Callbacks that assign the driver's own attributes `itnum`, `maxiter`, `timer`,
    `itstat_object` are outside the model.) -/
structure Callback (ω : Type) where
  run : ω → ω
  ticks : ω → Nat

/-- ghost record of one callback invocation -/
structure CbRec (ω : Type) where
  /-- `optimizer.itnum` as seen by the callback -/
  itnum : Int
  /-- state handed to the callback -/
  world : ω
  /-- clock at entry / exit -/
  enter : Nat
  leave : Nat
deriving Repr

/-- how a `solve()` call ends -/
inductive Outcome where
  | ok
  /-- `ValueError("NaN or Inf value encountered …")` -/
  | nan
  /-- a `KeyError` escaping from the timer (proved impossible, `solve_never_keyerror`) -/
  | key
deriving Repr, DecidableEq

structure Drv (ω ρ L : Type) where
  world : ω
  /-- the wall clock (`timeit.default_timer()`) -/
  clock : Nat
  itnum : Int
  maxiter : Int
  nanstop : Bool
  timer : Timer L
  /-- `itstat_object.iterations` -/
  rows : List (Row ρ)
  /-- ghost: every callback invocation so far -/
  cblog : List (CbRec ω)
  /-- ghost: every timer call issued by `solve` so far -/
  tlog : List (Call L)

section
variable {ω ρ ξ α L : Type} [DecidableEq L]

/-- `Optimizer.__init__`: `self.itnum = iter0; self.timer = Timer()` and empty statistics -/
def Drv.init (w : ω) (o : Options) (dflt all : L) (clock : Nat := 0) : Drv ω ρ L :=
  { world := w, clock := clock, itnum := o.iter0, maxiter := o.maxiter, nanstop := o.nanstop,
    timer := Timer.init .none dflt all, rows := [], cblog := [], tlog := [] }

/-- `self.timer.start()` -/
def Drv.timerStart (d : Drv ω ρ L) : Drv ω ρ L :=
  { d with timer := d.timer.start .none d.clock, tlog := d.tlog ++ [⟨d.clock, .start, .none⟩] }

/-- `self.timer.stop()`; `false` = `KeyError` -/
def Drv.timerStop (d : Drv ω ρ L) : Drv ω ρ L × Bool :=
  let r := d.timer.stop .none d.clock
  ({ d with timer := r.1, tlog := d.tlog ++ [⟨d.clock, .stop, .none⟩] }, r.2)

/-- time passing outside `solve` (between calls) -/
def Drv.tick (d : Drv ω ρ L) (n : Nat) : Drv ω ρ L := { d with clock := d.clock + n }

/-- a direct `optimizer.step()` call by the user: no counter, no record, no timer -/
def Drv.userStep (E : Env ω ρ ξ α) (d : Drv ω ρ L) : Drv ω ρ L :=
  { d with world := E.step d.world, clock := d.clock + E.stepTicks d.world }

/-- body of the `for self.itnum in range(...)` loop with loop value `i` -/
def body (E : Env ω ρ ξ α) (cb : Option (Callback ω)) (d : Drv ω ρ L) (i : Int) :
    Drv ω ρ L × Outcome :=
  -- for self.itnum in …
  let d := { d with itnum := i }
  -- self.step()
  let d := { d with world := E.step d.world, clock := d.clock + E.stepTicks d.world }
  -- if self.nanstop and not self._working_vars_finite(): raise ValueError
  if d.nanstop && !(workingVarsFinite E.fin (E.vars d.world)) then (d, .nan)
  else
    -- self.itstat_object.insert(self.itstat_insert_func(self))
    --   default function: (obj.itnum, obj.timer.elapsed(), obj.objective(), …)
    let row : Row ρ := ⟨d.itnum, d.timer.elapsedDefault true d.clock, E.fields d.world⟩
    let d := { d with rows := statsInsert d.rows row }
    match cb with
    | none => (d, .ok)
    | some c =>
      -- self.timer.stop()
      match d.timerStop with
      | (d, false) => (d, .key)
      | (d, true) =>
        -- callback(self)
        let enter := d.clock
        let seen := d.world
        let d := { d with world := c.run d.world, clock := d.clock + c.ticks d.world }
        let rec_ : CbRec ω := ⟨d.itnum, seen, enter, d.clock⟩
        let d := { d with cblog := d.cblog ++ [rec_] }
        -- self.timer.start()
        (d.timerStart, .ok)

/-- `n` passes of the loop, loop values `i, i+1, …`; an exception ends it -/
def loop (E : Env ω ρ ξ α) (cb : Option (Callback ω)) : Nat → Int → Drv ω ρ L → Drv ω ρ L × Outcome
  | 0, _, d => (d, .ok)
  | n + 1, i, d =>
    match body E cb d i with
    | (d', .ok) => loop E cb n (i + 1) d'
    | r => r

/-- `Optimizer.solve(callback)` (after the repairs `4b50827`: no increment when nothing was
    iterated, and `1b5db51`: the iteration count of the call is a local `maxiter = self.maxiter`
    taken before the loop and used both for the `range` and for the final test; with a plain
    `Callback`, which assigns no attribute, that local equals the attribute throughout — callbacks
    that do assign it: `solveX`) -/
def solve (E : Env ω ρ ξ α) (cb : Option (Callback ω)) (d : Drv ω ρ L) : Drv ω ρ L × Outcome :=
  -- self.timer.start(); maxiter = self.maxiter
  let d0 := d.timerStart
  -- for self.itnum in range(self.itnum, self.itnum + maxiter):
  match loop E cb d0.maxiter.toNat d0.itnum d0 with
  | (d1, .ok) =>
    -- self.timer.stop()
    match d1.timerStop with
    | (d2, false) => (d2, .key)
    | (d2, true) =>
      -- if maxiter > 0: self.itnum += 1
      let d3 := if d2.maxiter > 0 then { d2 with itnum := d2.itnum + 1 } else d2
      -- self.itstat_object.end() changes no state; return self.minimizer()
      (d3, .ok)
  | r => r

/-- value returned by a `solve()` that completes -/
def solveReturn (E : Env ω ρ ξ α) (cb : Option (Callback ω)) (d : Drv ω ρ L) : ξ :=
  E.minimizer (solve E cb d).1.world

/-- the pinned tree's `solve` (unconditional `self.itnum += 1`), kept only to classify the known
    finding `maxiter0-itnum`; no theorem is about it -/
def solvePinnedItnum (maxiter : Int) (itnumAfterLoop : Int) : Int :=
  let _ := maxiter
  itnumAfterLoop + 1

/-- `solver.maxiter = m` between calls -/
def Drv.setMaxiter (d : Drv ω ρ L) (m : Int) : Drv ω ρ L := { d with maxiter := m }

end

/-! ## callbacks that assign the driver's own attributes -/

/-- a callback that may also assign `optimizer.itnum` / `optimizer.maxiter`: `ctl w i m` = the
    values of the two attributes when the callback returns, given the state and the values it finds -/
structure CallbackX (ω : Type) extends Callback ω where
  ctl : ω → Int → Int → Int × Int

section
variable {ω ρ ξ α L : Type} [DecidableEq L]

/-- `body` with such a callback -/
def bodyX (E : Env ω ρ ξ α) (cb : Option (CallbackX ω)) (d : Drv ω ρ L) (i : Int) :
    Drv ω ρ L × Outcome :=
  let d := { d with itnum := i }
  let d := { d with world := E.step d.world, clock := d.clock + E.stepTicks d.world }
  if d.nanstop && !(workingVarsFinite E.fin (E.vars d.world)) then (d, .nan)
  else
    let row : Row ρ := ⟨d.itnum, d.timer.elapsedDefault true d.clock, E.fields d.world⟩
    let d := { d with rows := statsInsert d.rows row }
    match cb with
    | none => (d, .ok)
    | some c =>
      match d.timerStop with
      | (d, false) => (d, .key)
      | (d, true) =>
        let enter := d.clock
        let seen := d.world
        let a := c.ctl d.world d.itnum d.maxiter
        let d := { d with world := c.run d.world, clock := d.clock + c.ticks d.world }
        let rec_ : CbRec ω := ⟨d.itnum, seen, enter, d.clock⟩
        let d := { d with cblog := d.cblog ++ [rec_], itnum := a.1, maxiter := a.2 }
        (d.timerStart, .ok)

def loopX (E : Env ω ρ ξ α) (cb : Option (CallbackX ω)) : Nat → Int → Drv ω ρ L → Drv ω ρ L × Outcome
  | 0, _, d => (d, .ok)
  | n + 1, i, d =>
    match bodyX E cb d i with
    | (d', .ok) => loopX E cb n (i + 1) d'
    | r => r

/-- `Optimizer.solve(callback)` with an attribute-assigning callback.  The `range` of the loop is
    evaluated once, before the first iteration.  `late = true`: the tree before commit `1b5db51` — the final
    `if self.maxiter > 0: self.itnum += 1` reads the attribute *after* the loop (a callback that
    sets it to a non-positive value leaves the counter one short: finding
    `callback-maxiter-counter`); `late = false`: the tree since `1b5db51` — the decision uses the
    value `maxiter` had when the call started. -/
def solveX (late : Bool) (E : Env ω ρ ξ α) (cb : Option (CallbackX ω)) (d : Drv ω ρ L) :
    Drv ω ρ L × Outcome :=
  let d0 := d.timerStart
  match loopX E cb d0.maxiter.toNat d0.itnum d0 with
  | (d1, .ok) =>
    match d1.timerStop with
    | (d2, false) => (d2, .key)
    | (d2, true) =>
      let d3 := if (if late then d2.maxiter else d.maxiter) > 0 then { d2 with itnum := d2.itnum + 1 } else d2
      (d3, .ok)
  | r => r

end

/-! ## callbacks that assign `optimizer.nanstop` -/

/-- a callback that may assign `optimizer.nanstop` (`setNan w = some b`); `solve` reads the
    attribute afresh in every iteration (`if self.nanstop and not self._working_vars_finite()`) -/
structure CallbackN (ω : Type) extends Callback ω where
  setNan : ω → Option Bool

section
variable {ω ρ ξ α L : Type} [DecidableEq L]

def bodyN (E : Env ω ρ ξ α) (c : CallbackN ω) (d : Drv ω ρ L) (i : Int) : Drv ω ρ L × Outcome :=
  let d := { d with itnum := i }
  let d := { d with world := E.step d.world, clock := d.clock + E.stepTicks d.world }
  if d.nanstop && !(workingVarsFinite E.fin (E.vars d.world)) then (d, .nan)
  else
    let row : Row ρ := ⟨d.itnum, d.timer.elapsedDefault true d.clock, E.fields d.world⟩
    let d := { d with rows := statsInsert d.rows row }
    match d.timerStop with
    | (d, false) => (d, .key)
    | (d, true) =>
      let enter := d.clock
      let seen := d.world
      let nb := (c.setNan d.world).getD d.nanstop
      let d := { d with world := c.run d.world, clock := d.clock + c.ticks d.world }
      let rec_ : CbRec ω := ⟨d.itnum, seen, enter, d.clock⟩
      let d := { d with cblog := d.cblog ++ [rec_], nanstop := nb }
      (d.timerStart, .ok)

def loopN (E : Env ω ρ ξ α) (c : CallbackN ω) : Nat → Int → Drv ω ρ L → Drv ω ρ L × Outcome
  | 0, _, d => (d, .ok)
  | n + 1, i, d =>
    match bodyN E c d i with
    | (d', .ok) => loopN E c n (i + 1) d'
    | r => r

/-- `Optimizer.solve(callback)` with a callback that assigns `nanstop` -/
def solveN (E : Env ω ρ ξ α) (c : CallbackN ω) (d : Drv ω ρ L) : Drv ω ρ L × Outcome :=
  let d0 := d.timerStart
  match loopN E c d0.maxiter.toNat d0.itnum d0 with
  | (d1, .ok) =>
    match d1.timerStop with
    | (d2, false) => (d2, .key)
    | (d2, true) =>
      -- `if maxiter > 0` (the local copy; a `CallbackN` does not assign `maxiter`, so the attribute still equals it)
      let d3 := if d2.maxiter > 0 then { d2 with itnum := d2.itnum + 1 } else d2
      (d3, .ok)
  | r => r

end

/-! ## a callback that raises -/

section
variable {ω ρ ξ α L : Type} [DecidableEq L]

/-- the part of one pass that precedes the callback: `for self.itnum in …`, `self.step()`, the NaN
    test, `insert`, `self.timer.stop()` -/
def bodyHead (E : Env ω ρ ξ α) (d : Drv ω ρ L) (i : Int) : Drv ω ρ L × Outcome :=
  let d := { d with itnum := i }
  let d := { d with world := E.step d.world, clock := d.clock + E.stepTicks d.world }
  if d.nanstop && !(workingVarsFinite E.fin (E.vars d.world)) then (d, .nan)
  else
    let row : Row ρ := ⟨d.itnum, d.timer.elapsedDefault true d.clock, E.fields d.world⟩
    let d := { d with rows := statsInsert d.rows row }
    match d.timerStop with
    | (d, false) => (d, .key)
    | (d, true) => (d, .ok)

/-- `solve(callback)` whose callback raises an exception in its invocation of iteration `j`
    (0-based) of the call, after having changed the state by `pr` and taken `pt` ticks.
    `none`: that exception propagates out of `solve` — `self.timer.start()`, the rest of the loop,
    the final `timer.stop()`, the increment and `end()` are all skipped; `some o`: the call ended
    before the callback of iteration `j` was entered. -/
def solveRaise (E : Env ω ρ ξ α) (c : Callback ω) (pr : ω → ω) (pt : ω → Nat) (d : Drv ω ρ L) (j : Nat) :
    Drv ω ρ L × Option Outcome :=
  let d0 := d.timerStart
  if d0.maxiter.toNat ≤ j then ((solve E (some c) d).1, some (solve E (some c) d).2)
  else
    match loop E (some c) j d0.itnum d0 with
    | (dj, .ok) =>
      match bodyHead E dj (d0.itnum + j) with
      | (d1, .ok) =>
        let rec_ : CbRec ω := ⟨d1.itnum, d1.world, d1.clock, d1.clock + pt d1.world⟩
        ({ d1 with world := pr d1.world, clock := d1.clock + pt d1.world, cblog := d1.cblog ++ [rec_] }, none)
      | (d1, o) => (d1, some o)
    | (dj, o) => (dj, some o)

end

/-! ## an `insert` that raises (display with `period = 0`) -/

section
variable {ω ρ ξ α L : Type} [DecidableEq L]

/-- the first pass up to the exception: `for self.itnum in …`, `self.step()`, NaN test, record
    appended — then `insert` raises, nothing else runs (the timer keeps running) -/
def bodyInsertRaise (E : Env ω ρ ξ α) (d : Drv ω ρ L) (i : Int) : Drv ω ρ L × Outcome :=
  let d := { d with itnum := i }
  let d := { d with world := E.step d.world, clock := d.clock + E.stepTicks d.world }
  if d.nanstop && !(workingVarsFinite E.fin (E.vars d.world)) then (d, .nan)
  else
    let row : Row ρ := ⟨d.itnum, d.timer.elapsedDefault true d.clock, E.fields d.world⟩
    ({ d with rows := statsInsert d.rows row }, .ok)

/-- `solve()` on an optimiser whose statistics object raises at every `insert` (`insertRaises`):
    `none` = the `ZeroDivisionError` leaves `solve` in the first iteration; `some o` = nothing was
    inserted (`maxiter ≤ 0`: ordinary `solve`) or the NaN stop came first -/
def solveInsertRaise (E : Env ω ρ ξ α) (cb : Option (Callback ω)) (d : Drv ω ρ L) : Drv ω ρ L × Option Outcome :=
  let d0 := d.timerStart
  if d0.maxiter.toNat = 0 then ((solve E cb d).1, some (solve E cb d).2)
  else
    match bodyInsertRaise E d0 d0.itnum with
    | (d1, .ok) => (d1, none)
    | (d1, o) => (d1, some o)

end

/-! ## `scico.util.ContextTimer` -/

/-- `ContextTimer.action` -/
inductive CtxAction where
  | startStop | stopStart
deriving Repr, DecidableEq

section
variable {L : Type} [DecidableEq L]

/-- the `labels` argument `ContextTimer` passes on: `self.label` (`None` or one label) -/
def ctxArg : Option L → Arg L
  | none => .none
  | some l => .one l

/-- `ContextTimer.__enter__` at clock value `t`; `false` = `KeyError` (only `StopStart`) -/
def ctxEnter (T : Timer L) (label : Option L) (a : CtxAction) (t : Nat) : Timer L × Bool :=
  match a with
  | .startStop => (T.start (ctxArg label) t, true)
  | .stopStart => T.stop (ctxArg label) t

/-- `ContextTimer.__exit__` at clock value `t`; `false` = `KeyError` -/
def ctxExit (T : Timer L) (label : Option L) (a : CtxAction) (t : Nat) : Timer L × Bool :=
  match a with
  | .startStop => T.stop (ctxArg label) t
  | .stopStart => (T.start (ctxArg label) t, true)

/-! ## `Timer.__str__` -/

/-- insertion into a list sorted by `lt` (`sorted(self.t0)`; dictionary keys are distinct) -/
def insertSorted (lt : L → L → Bool) (x : L) : List L → List L
  | [] => [x]
  | y :: ys => if lt y x then y :: insertSorted lt x ys else x :: y :: ys

def sortLabels (lt : L → L → Bool) (ls : List L) : List L := ls.foldr (insertSorted lt) []

/-- one line of the table `Timer.__str__` prints: label, accumulated time `td`, and the time
    since the current start (`none` = the text `Stopped`) -/
structure StrRow (L : Type) where
  label : L
  accum : Nat
  current : Option Nat
deriving Repr, DecidableEq

/-- the lines of `Timer.__str__` at clock value `t`, labels in sorted order (documented behaviour,
    the tree since commit `2b46a8f`; before it `TypeError` was raised whenever some timer was
    running: finding `timer-str-running`) -/
def Timer.strRows (lt : L → L → Bool) (T : Timer L) (t : Nat) : List (StrRow L) :=
  (sortLabels lt T.store.keys).filterMap (fun l =>
    (T.store.get l).map (fun e => ⟨l, e.td, e.t0.map (fun s => t - s)⟩))

/-- the tree before `2b46a8f`: `TypeError` (`none`) iff some timer is running (kept only to
    classify the finding) -/
def Timer.strRowsPinned (lt : L → L → Bool) (T : Timer L) (t : Nat) : Option (List (StrRow L)) :=
  if T.store.any (fun p => p.2.t0.isSome) then none else some (T.strRows lt t)

end

/-! ## `IterationStats`: what is printed -/

/-- the display-related arguments of `IterationStats.__init__` (`period ≥ 1`; `period = 0` makes
    `insert` raise `ZeroDivisionError` and is outside the model) -/
structure DisplayOpts where
  display : Bool := false
  period : Nat := 1
  shiftCycles : Bool := true
  overwrite : Bool := true
deriving Repr, DecidableEq

/-- what `insert` / `end` write to stdout -/
inductive PrintEv where
  /-- the two header lines (`print(self.disphdr)`) -/
  | header
  /-- the formatted record number `n` (0-based position in `iterations`), terminated by `"\n"`
      (`nl = true`) or by `"\r"` -/
  | row (n : Nat) (nl : Bool)
  /-- the bare `print()` of `end()` -/
  | newline
deriving Repr, DecidableEq

/-- `self.period_offset` -/
def DisplayOpts.offset (o : DisplayOpts) : Nat := if o.shiftCycles then 1 else 0

/-- `(len(self.iterations) - self.period_offset) % self.period == 0` (Python `%` with a positive
    divisor is the Euclidean remainder, also for the negative left operand `0 - 1`) -/
def cycleEnd (o : DisplayOpts) (len : Nat) : Bool :=
  ((len : Int) - (o.offset : Int)) % (o.period : Int) == 0

/-- display state of an `IterationStats` object -/
structure Disp where
  /-- `len(self.iterations)` -/
  len : Nat
  /-- `self.disphdr is not None` -/
  hdrPending : Bool
  /-- everything printed so far -/
  out : List PrintEv
deriving Repr, DecidableEq

def Disp.init (o : DisplayOpts) : Disp := ⟨0, o.display, []⟩

/-- the printing part of `IterationStats.insert` (the record itself is appended by `statsInsert`) -/
def dispInsert (o : DisplayOpts) (s : Disp) : Disp :=
  let len := s.len + 1
  if !o.display then { s with len := len }
  else
    let out := if s.hdrPending then s.out ++ [.header] else s.out
    let out :=
      if o.overwrite then out ++ [.row s.len (cycleEnd o len)]
      else if cycleEnd o len then out ++ [.row s.len true] else out
    ⟨len, false, out⟩

/-- `IterationStats.end()` -/
def dispEnd (o : DisplayOpts) (s : Disp) : Disp :=
  if o.display && o.overwrite && decide (o.period > 1) && !(cycleEnd o s.len) then
    { s with out := s.out ++ [.newline] }
  else s

/-- `k` insertions -/
def dispInserts (o : DisplayOpts) : Nat → Disp → Disp
  | 0, s => s
  | k + 1, s => dispInserts o k (dispInsert o s)

/-- `insert` raises `ZeroDivisionError` iff it reaches `… % self.period` with `period = 0`, i.e. iff
    the object displays (`IterationStats.__init__` accepts `period = 0`) -/
def insertRaises (o : DisplayOpts) : Bool := o.display && o.period == 0

/-- printing part of an `insert` that raises: the record is already appended and the pending header
    already printed when the modulo is evaluated -/
def dispInsertRaise (s : Disp) : Disp :=
  ⟨s.len + 1, false, if s.hdrPending then s.out ++ [.header] else s.out⟩

/-- several `solve()` calls: `k` insertions followed by `end()`, for each `k` of the list -/
def dispCalls (o : DisplayOpts) : List Nat → Disp → Disp
  | [], s => s
  | k :: ks, s => dispCalls o ks (dispEnd o (dispInserts o k s))

/-! ## `itstat_func_and_object`: the options merge (a pure function of the caller's dict) -/

section
variable {β : Type}

/-- `d[k]` / `d.get(k)` on an insertion-ordered dictionary with distinct keys -/
def dictGet (d : List (String × β)) (k : String) : Option β :=
  match d with
  | [] => none
  | (k', v) :: r => if k' = k then some v else dictGet r k

/-- `d[k] = v` -/
def dictSet (d : List (String × β)) (k : String) (v : β) : List (String × β) :=
  match d with
  | [] => [(k, v)]
  | (k', x) :: r => if k' = k then (k', v) :: r else (k', x) :: dictSet r k v

/-- `d.update(u)` -/
def dictUpdate (d u : List (String × β)) : List (String × β) := u.foldl (fun d p => dictSet d p.1 p.2) d

/-- `d.pop(k, None)`: the value and the remaining dictionary -/
def dictPop (d : List (String × β)) (k : String) : Option β × List (String × β) :=
  (dictGet d k, d.filter (fun p => p.1 != k))

/-- result of the options handling: the insertion function, the keyword arguments handed to
    `IterationStats(**…)`, and the caller's `itstat_options` object afterwards -/
structure ItstatSetup (β : Type) where
  func : Option β
  kwargs : List (String × β)
  userAfter : Option (List (String × β))

/-- `if itstat_options: default.update(itstat_options)` (`None` and `{}` are falsy) -/
def mergedOptions (dflt : List (String × β)) (user : Option (List (String × β))) : List (String × β) :=
  match user with
  | some u => if u.isEmpty then dflt else dictUpdate dflt u
  | none => dflt

/-- `itstat_func_and_object(itstat_fields, itstat_attrib, itstat_options)`, the dictionary part:
    `default = {"fields": …, "itstat_func": <generated>, "display": False}`;
    `if itstat_options: default.update(itstat_options)` (`None` and `{}` are falsy);
    `itstat_insert_func = default.pop("itstat_func", None)`; `IterationStats(**default)`.
    Only the *local* dictionary is updated and popped: the caller's object is not touched. -/
def itstatSetup (fields func displayOff : β) (user : Option (List (String × β))) : ItstatSetup β :=
  let r := dictPop (mergedOptions [("fields", fields), ("itstat_func", func), ("display", displayOff)] user)
    "itstat_func"
  ⟨r.1, r.2, user⟩

/-- building `n` optimisers one after the other from the same `itstat_options` object: the
    setups obtained, and the object afterwards -/
def itstatSetups (fields func displayOff : β) : Nat → Option (List (String × β)) →
    List (ItstatSetup β) × Option (List (String × β))
  | 0, u => ([], u)
  | n + 1, u =>
    let s := itstatSetup fields func displayOff u
    let r := itstatSetups fields func displayOff n s.userAfter
    (s :: r.1, r.2)

end

/-! ## `scico.util.Timer` over an arbitrary clock

The same transcription as at the top of this file, with the clock values in an arbitrary type `τ`
(`timeit.default_timer()` returns floats; the theorems take `τ` to be any linearly ordered additive
group — ℤ, ℚ, ℝ).  Namespace `Clock`; `Arg`, `Op` are shared. -/

namespace Clock

structure Entry (τ : Type) where
  t0 : Option τ
  td : τ
deriving Repr, DecidableEq

abbrev Store (L τ : Type) := List (L × Entry τ)

structure Timer (L τ : Type) where
  store : Store L τ
  dflt : L
  all : L
deriving Repr

structure Call (L τ : Type) where
  time : τ
  op : Op
  arg : Arg L
deriving Repr

section
variable {L τ : Type} [DecidableEq L] [Add τ] [Sub τ] [Zero τ]

def Store.get : Store L τ → L → Option (Entry τ)
  | [], _ => none
  | (k, e) :: s, l => if k = l then some e else Store.get s l

def Store.set : Store L τ → L → Entry τ → Store L τ
  | [], l, e => [(l, e)]
  | (k, x) :: s, l, e => if k = l then (k, e) :: s else (k, x) :: Store.set s l e

def Store.keys (s : Store L τ) : List L := s.map (·.1)

/-- `self.td[lbl] = 0.0; self.t0[lbl] = None` -/
def Entry.fresh : Entry τ := ⟨none, 0⟩

def Timer.init (labels : Arg L) (dflt all : L) : Timer L τ :=
  let ls := match labels with
    | .none => []
    | .one l => [l]
    | .many ls => ls
  ⟨ls.foldl (fun s l => Store.set s l Entry.fresh) [], dflt, all⟩

def startEntry (e : Entry τ) (t : τ) : Entry τ :=
  match e.t0 with
  | none => { e with t0 := some t }
  | some _ => e

def stopEntry (e : Entry τ) (t : τ) : Entry τ :=
  match e.t0 with
  | some s => ⟨none, e.td + (t - s)⟩
  | none => e

def resetEntry (_e : Entry τ) : Entry τ := ⟨none, 0⟩

def startOne (s : Store L τ) (t : τ) (l : L) : Store L τ :=
  match Store.get s l with
  | none => Store.set s l (startEntry Entry.fresh t)
  | some e => Store.set s l (startEntry e t)

def Timer.startLabels (T : Timer L τ) : Arg L → List L
  | .none => [T.dflt]
  | .one l => [l]
  | .many ls => ls

def Timer.start (T : Timer L τ) (a : Arg L) (t : τ) : Timer L τ :=
  { T with store := (T.startLabels a).foldl (fun s l => startOne s t l) T.store }

def Timer.targets (T : Timer L τ) : Arg L → List L
  | .none => if T.dflt = T.all then Store.keys T.store else [T.dflt]
  | .one l => if l = T.all then Store.keys T.store else [l]
  | .many ls => ls

def updList (f : Entry τ → Entry τ) : Store L τ → List L → Store L τ × Bool
  | s, [] => (s, true)
  | s, l :: ls =>
    match Store.get s l with
    | none => (s, false)
    | some e => updList f (Store.set s l (f e)) ls

def Timer.stop (T : Timer L τ) (a : Arg L) (t : τ) : Timer L τ × Bool :=
  let r := updList (fun e => stopEntry e t) T.store (T.targets a)
  ({ T with store := r.1 }, r.2)

def Timer.reset (T : Timer L τ) (a : Arg L) : Timer L τ × Bool :=
  let r := updList resetEntry T.store (T.targets a)
  ({ T with store := r.1 }, r.2)

/-- `te = 0.0; if running: te = t - t0; if total: te += td` -/
def elapsedEntry (e : Entry τ) (total : Bool) (t : τ) : τ :=
  (match e.t0 with
   | some s => t - s
   | none => 0) + (if total then e.td else 0)

def Timer.elapsed (T : Timer L τ) (label : Option L) (total : Bool) (t : τ) : Option τ :=
  match label with
  | none =>
    match Store.get T.store T.dflt with
    | none => some 0
    | some e => some (elapsedEntry e total t)
  | some l => (Store.get T.store l).map (fun e => elapsedEntry e total t)

def Timer.apply (T : Timer L τ) (c : Call L τ) : Timer L τ × Bool :=
  match c.op with
  | .start => (T.start c.arg c.time, true)
  | .stop => T.stop c.arg c.time
  | .reset => T.reset c.arg

def Timer.run (T : Timer L τ) (h : List (Call L τ)) : Timer L τ :=
  h.foldl (fun T c => (T.apply c).1) T

end

end Clock

/-! ## the source, statement by statement

Normalised statement lists `(nesting depth, text)` of every method transcribed above (docstrings, comments,
annotations and exception messages dropped; `ast.unparse` text).  `harness/driver_translate.py` regenerates
`Scico/Generated/DriverSource.lean` from the working tree on every run and closes
`skeletons = sourceSkeletons`, `signatures = sourceSignatures`, `optionDefaults = optionDefaults` by
`decide +kernel`: a statement added, removed, reordered or changed in the source breaks an obligation. -/

def sourceSkeletons : List (String × List (Nat × String)) := [
  -- ADMM._objective_evaluatable  →  objectiveEvaluable
  ("ADMM._objective_evaluatable", [
    (0, "return (not self.f or self.f.has_eval) and all([_.has_eval for _ in self.g_list])")]),
  -- ADMM.minimizer  →  Env.minimizer (the variable `x`)
  ("ADMM.minimizer", [
    (0, "return self.x")]),
  -- LinearizedADMM._objective_evaluatable  →  objectiveEvaluable
  ("LinearizedADMM._objective_evaluatable", [
    (0, "return self.f.has_eval and self.g.has_eval")]),
  -- LinearizedADMM.minimizer  →  Env.minimizer (the variable `x`)
  ("LinearizedADMM.minimizer", [
    (0, "return self.x")]),
  -- ProximalADMM._objective_evaluatable  →  objectiveEvaluable
  ("ProximalADMM._objective_evaluatable", [
    (0, "return self.f.has_eval and self.g.has_eval")]),
  -- ProximalADMM.minimizer  →  Env.minimizer (the variable `x`)
  ("ProximalADMM.minimizer", [
    (0, "return self.x")]),
  -- NonLinearPADMM._objective_evaluatable  →  objectiveEvaluable
  ("NonLinearPADMM._objective_evaluatable", [
    (0, "return self.f.has_eval and self.g.has_eval")]),
  -- NonLinearPADMM.minimizer  →  Env.minimizer (the variable `x`)
  ("NonLinearPADMM.minimizer", [
    (0, "return self.x")]),
  -- PDHG._objective_evaluatable  →  objectiveEvaluable
  ("PDHG._objective_evaluatable", [
    (0, "return self.f.has_eval and self.g.has_eval")]),
  -- PDHG.minimizer  →  Env.minimizer (the variable `x`)
  ("PDHG.minimizer", [
    (0, "return self.x")]),
  -- PGM._objective_evaluatable  →  objectiveEvaluable
  ("PGM._objective_evaluatable", [
    (0, "return self.f.has_eval and self.g.has_eval")]),
  -- PGM.minimizer  →  Env.minimizer (the variable `x`)
  ("PGM.minimizer", [
    (0, "return self.x")]),
  -- AcceleratedPGM._objective_evaluatable  →  objectiveEvaluable
  ("AcceleratedPGM._objective_evaluatable", [
    (0, "return self.f.has_eval and self.g.has_eval")]),
  -- AcceleratedPGM.minimizer  →  Env.minimizer (the variable `x`)
  ("AcceleratedPGM.minimizer", [
    (0, "return self.x")]),
  -- Optimizer.solve  →  solve / body / loop (Drv.timerStart, Drv.timerStop); solveX for callbacks that assign attributes
  ("Optimizer.solve", [
    (0, "self.timer.start()"),
    (0, "maxiter = self.maxiter"),
    (0, "for self.itnum in range(self.itnum, self.itnum + maxiter):"),
    (1, "self.step()"),
    (1, "if self.nanstop and (not self._working_vars_finite()):"),
    (2, "raise ValueError"),
    (1, "self.itstat_object.insert(self.itstat_insert_func(self))"),
    (1, "if callback:"),
    (2, "self.timer.stop()"),
    (2, "callback(self)"),
    (2, "self.timer.start()"),
    (0, "self.timer.stop()"),
    (0, "if maxiter > 0:"),
    (1, "self.itnum += 1"),
    (0, "self.itstat_object.end()"),
    (0, "return self.minimizer()")]),
  -- Optimizer.__init__  →  parseKwargs, optionDefaults, Drv.init, fieldSpecs, itstatSetup
  ("Optimizer.__init__", [
    (0, "iter0 = kwargs.pop('iter0', 0)"),
    (0, "self.maxiter = kwargs.pop('maxiter', 100)"),
    (0, "self.nanstop = kwargs.pop('nanstop', False)"),
    (0, "itstat_options = kwargs.pop('itstat_options', None)"),
    (0, "if kwargs:"),
    (1, "raise TypeError"),
    (0, "self.itnum = iter0"),
    (0, "self.timer = Timer()"),
    (0, "itstat_fields, itstat_attrib = self._itstat_default_fields()"),
    (0, "itstat_extra_fields, itstat_extra_attrib = self._itstat_extra_fields()"),
    (0, "itstat_fields.update(itstat_extra_fields)"),
    (0, "itstat_attrib.extend(itstat_extra_attrib)"),
    (0, "self.itstat_insert_func, self.itstat_object = itstat_func_and_object(itstat_fields, itstat_attrib, itstat_options)")]),
  -- itstat_func_and_object  →  itstatFuncSource, mergedOptions, itstatSetup
  ("itstat_func_and_object", [
    (0, "itstat_return = 'return(' + ', '.join(['obj.' + attr for attr in itstat_attrib]) + ')'"),
    (0, "scope = {}"),
    (0, "exec('def itstat_func(obj): ' + itstat_return, scope)"),
    (0, "default_itstat_options = {'fields': itstat_fields, 'itstat_func': scope['itstat_func'], 'display': False}"),
    (0, "if itstat_options:"),
    (1, "default_itstat_options.update(itstat_options)"),
    (0, "itstat_insert_func = default_itstat_options.pop('itstat_func', None)"),
    (0, "itstat_object = IterationStats(**default_itstat_options)"),
    (0, "return (itstat_insert_func, itstat_object)")]),
  -- _all_finite  →  Var.any, allFinite
  ("_all_finite", [
    (0, "return not snp.any(snp.logical_not(snp.isfinite(v)))")]),
  -- Timer.__init__  →  Timer.init (Clock.Timer.init)
  ("Timer.__init__", [
    (0, "self.t0 = {}"),
    (0, "self.td = {}"),
    (0, "self.default_label = default_label"),
    (0, "self.all_label = all_label"),
    (0, "if labels is not None:"),
    (1, "if not isinstance(labels, (list, tuple)):"),
    (2, "labels = [labels]"),
    (1, "for lbl in labels:"),
    (2, "self.td[lbl] = 0.0"),
    (2, "self.t0[lbl] = None")]),
  -- Timer.start  →  Timer.startLabels, startOne, startEntry, Timer.start
  ("Timer.start", [
    (0, "if labels is None:"),
    (1, "labels = self.default_label"),
    (0, "if not isinstance(labels, (list, tuple)):"),
    (1, "labels = [labels]"),
    (0, "t = timer()"),
    (0, "for lbl in labels:"),
    (1, "if lbl not in self.td:"),
    (2, "self.td[lbl] = 0.0"),
    (2, "self.t0[lbl] = None"),
    (1, "if self.t0[lbl] is None:"),
    (2, "self.t0[lbl] = t")]),
  -- Timer.stop  →  Timer.targets, updList, stopEntry, Timer.stop
  ("Timer.stop", [
    (0, "t = timer()"),
    (0, "if labels is None:"),
    (1, "labels = self.default_label"),
    (0, "if labels == self.all_label:"),
    (1, "labels = list(self.t0.keys())"),
    (0, "elif not isinstance(labels, (list, tuple)):"),
    (1, "labels = [labels]"),
    (0, "for lbl in labels:"),
    (1, "if lbl not in self.t0:"),
    (2, "raise KeyError"),
    (1, "if self.t0[lbl] is not None:"),
    (2, "self.td[lbl] += t - self.t0[lbl]"),
    (2, "self.t0[lbl] = None")]),
  -- Timer.reset  →  Timer.targets, updList, resetEntry, Timer.reset
  ("Timer.reset", [
    (0, "if labels is None:"),
    (1, "labels = self.default_label"),
    (0, "if labels == self.all_label:"),
    (1, "labels = list(self.t0.keys())"),
    (0, "elif not isinstance(labels, (list, tuple)):"),
    (1, "labels = [labels]"),
    (0, "for lbl in labels:"),
    (1, "if lbl not in self.t0:"),
    (2, "raise KeyError"),
    (1, "self.t0[lbl] = None"),
    (1, "self.td[lbl] = 0.0")]),
  -- Timer.elapsed  →  Timer.elapsedDefault, elapsedEntry, Timer.elapsed
  ("Timer.elapsed", [
    (0, "t = timer()"),
    (0, "if label is None:"),
    (1, "label = self.default_label"),
    (1, "if label not in self.t0:"),
    (2, "return 0.0"),
    (0, "if label not in self.t0:"),
    (1, "raise KeyError"),
    (0, "te = 0.0"),
    (0, "if self.t0[label] is not None:"),
    (1, "te = t - self.t0[label]"),
    (0, "if total:"),
    (1, "te += self.td[label]"),
    (0, "return te")]),
  -- Timer.labels  →  Store.keys
  ("Timer.labels", [
    (0, "return list(self.t0.keys())")]),
  -- Timer.__str__  →  sortLabels, Timer.strRows
  ("Timer.__str__", [
    (0, "t = timer()"),
    (0, "fldlen = [len(lbl) for lbl in self.t0] + [len(self.default_label)]"),
    (0, "lfldln = max(fldlen) + 2"),
    (0, "s = f'{'Label':{lfldln}s}  Accum.       Current\\n'"),
    (0, "s += '-' * (lfldln + 25) + '\\n'"),
    (0, "for lbl in sorted(self.t0):"),
    (1, "td = self.td[lbl]"),
    (1, "if self.t0[lbl] is None:"),
    (2, "ts = ' Stopped'"),
    (1, "else:"),
    (2, "ts = f' {t - self.t0[lbl]:.2e} s'"),
    (1, "s += f'{lbl:{lfldln}s}  {td:.2e} s  {ts}\\n'"),
    (0, "return s")]),
  -- ContextTimer.__init__  →  (the harness passes timer / label / action; `Timer()` default as Timer.init .none)
  ("ContextTimer.__init__", [
    (0, "if action not in ['StartStop', 'StopStart']:"),
    (1, "raise ValueError"),
    (0, "if timer is None:"),
    (1, "self.timer = Timer()"),
    (0, "else:"),
    (1, "self.timer = timer"),
    (0, "self.label = label"),
    (0, "self.action = action")]),
  -- ContextTimer.__enter__  →  ctxEnter
  ("ContextTimer.__enter__", [
    (0, "if self.action == 'StartStop':"),
    (1, "self.timer.start(self.label)"),
    (0, "else:"),
    (1, "self.timer.stop(self.label)"),
    (0, "return self")]),
  -- ContextTimer.__exit__  →  ctxExit
  ("ContextTimer.__exit__", [
    (0, "if self.action == 'StartStop':"),
    (1, "self.timer.stop(self.label)"),
    (0, "else:"),
    (1, "self.timer.start(self.label)"),
    (0, "return not exc_type")]),
  -- ContextTimer.elapsed  →  Timer.elapsed (ctx label)
  ("ContextTimer.elapsed", [
    (0, "return self.timer.elapsed(self.label, total=total)")]),
  -- IterationStats.insert  →  statsInsert, dispInsert, cycleEnd
  ("IterationStats.insert", [
    (0, "self.iterations.append(self.IterTuple(*values))"),
    (0, "if self.display:"),
    (1, "if self.disphdr is not None:"),
    (2, "print(self.disphdr)"),
    (2, "self.disphdr = None"),
    (1, "if self.overwrite:"),
    (2, "if (len(self.iterations) - self.period_offset) % self.period == 0:"),
    (3, "end = '\\n'"),
    (2, "else:"),
    (3, "end = '\\r'"),
    (2, "print((' ' * self.colsep).join(self.fieldformat) % values, end=end)"),
    (1, "elif (len(self.iterations) - self.period_offset) % self.period == 0:"),
    (2, "print((' ' * self.colsep).join(self.fieldformat) % values)")]),
  -- IterationStats.end  →  dispEnd
  ("IterationStats.end", [
    (0, "if self.display and self.overwrite and (self.period > 1) and (len(self.iterations) - self.period_offset) % self.period:"),
    (1, "print()")]),
  -- IterationStats.history  →  rows / historyTranspose
  ("IterationStats.history", [
    (0, "if transpose and self.iterations:"),
    (1, "return self.IterTuple(*[[self.iterations[m][n] for m in range(len(self.iterations))] for n in range(len(self.iterations[0]))])"),
    (0, "return self.iterations")])
]

/-- parameters and their default values -/
def sourceSignatures : List (String × List (String × String)) := [
  ("Optimizer.solve", [("self", ""), ("callback", "None")]),
  ("Timer.__init__", [("self", ""), ("labels", "None"), ("default_label", "'main'"), ("all_label", "'all'")]),
  ("Timer.start", [("self", ""), ("labels", "None")]),
  ("Timer.stop", [("self", ""), ("labels", "None")]),
  ("Timer.reset", [("self", ""), ("labels", "None")]),
  ("Timer.elapsed", [("self", ""), ("label", "None"), ("total", "True")]),
  ("ContextTimer.__init__", [("self", ""), ("timer", "None"), ("label", "None"), ("action", "'StartStop'")])
]

end Scico.Driver
