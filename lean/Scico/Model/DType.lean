/-
  Dtype lattice used by the operator calculus (DESIGN §4.2 `Model/DType`).  Mathlib-free.

  scico only ever declares / produces the four inexact dtypes `float32, float64, complex64,
  complex128`.  `jax.dtypes.result_type` restricted to them is the join of the product lattice
  {real < complex} × {32 < 64}; Python scalars (and the Python scalar *types* `int, float,
  complex`, which `Convolve.__mul__` passes as `type(scalar)`) are *weak*: they only contribute
  their kind, never their width.  NumPy scalars and 0-d jax arrays are strong.

  The table `resultTypeS` is compared against `jax.numpy.result_type` exhaustively on every run
  of the C05/C12 checks (harness/opalg_gen.py: `check_dtype_table`).
-/

namespace Scico.DType

inductive DT where
  | f32 | f64 | c64 | c128
deriving DecidableEq, Repr, Inhabited

namespace DT

def isComplex : DT → Bool
  | c64 | c128 => true
  | _ => false

def is64 : DT → Bool
  | f64 | c128 => true
  | _ => false

def mk (cplx wide : Bool) : DT :=
  match cplx, wide with
  | false, false => f32
  | false, true => f64
  | true, false => c64
  | true, true => c128

/-- `x.real.dtype` -/
def toReal (d : DT) : DT := mk false d.is64
/-- dtype of `fft(x)` / of `x + 1j` -/
def toComplex (d : DT) : DT := mk true d.is64

def name : DT → String
  | f32 => "float32" | f64 => "float64" | c64 => "complex64" | c128 => "complex128"

def ofName? : String → Option DT
  | "float32" => some f32 | "float64" => some f64
  | "complex64" => some c64 | "complex128" => some c128
  | _ => none

end DT

/-- `jax.dtypes.result_type(a, b)` for two (strong) dtypes -/
def resultType (a b : DT) : DT := DT.mk (a.isComplex || b.isComplex) (a.is64 || b.is64)

/-- how a scalar operand presents itself to `result_type` / to jax arithmetic -/
inductive SK where
  | strong (d : DT)   -- NumPy scalar, 0-d jax array, dtype object
  | wInt              -- Python `int` value or the type `int`
  | wFloat            -- Python `float` value or the type `float`
  | wComplex          -- Python `complex` value or the type `complex`
deriving DecidableEq, Repr, Inhabited

/-- `jax.dtypes.result_type(a, s)` for a dtype and a scalar operand -/
def resultTypeS (a : DT) : SK → DT
  | .strong d => resultType a d
  | .wInt => a
  | .wFloat => a
  | .wComplex => a.toComplex

end Scico.DType
