/-
  Block arrays and the wrapped numpy namespace (DESIGN §4.2 `Model/Block`, §5.8).
  Mathlib-free, executable.

  Source map (scico/numpy):
    _blockarray.py  BlockArray.__init__            -> `coerce`, `homogeneous`, `mkFrom`, `mkBlock`
                    _unary_op_wrapper              -> `unop`
                    _binary_op_wrapper             -> `binop`
                    _da_prop_wrapper/_da_method_wrapper -> `liftMethod`
                    __getitem__ (int)              -> `getItem`; iteration (legacy protocol) -> `iterFrom`, `iterBlocks`
                    register_pytree_node, _unflatten -> `treeFlatten`, `treeUnflatten` (before d088c11: `treeUnflattenOld`)
    _wrappers.py    _num_blocks_in_args            -> `numBlocksInArgs`
                    _block_args_kwargs             -> `pick`, `blockArgsKwargs`
                    map_func_over_blocks           -> `mapFuncOverBlocks`
                    map_void_func_over_blocks      -> `mapVoidFuncOverBlocks`
                    add_full_reduction             -> `addFullReduction`
                    map_func_over_tuple_of_tuples  -> `mapTupleOfTuples`
    util.py         is_nested, shape_to_size       -> `STree.isNested`, `shapeToSize`
    _blockarray.py  dtype (property)               -> `dtypeOf`
    _blockarray.py  __getitem__ (slice)            -> `sliceBounds`, `sliceLen`, `sliceIdx`, `getSlice`
    _blockarray.py  __setitem__ (slice)            -> `assignAt`, `setSlice`
    _blockarray.py  __setitem__                    -> `pyIndex`, `setItem` (before d088c11: `setItemOld`)
    scico/random.py _add_seed.fun_alt              -> `keyOf`, `seedOf`, `addSeedCore`, `addSeed`
                    _wrap                          -> `randomWrapped` (+ `bindArgs`: signature binding)

  Everything is a higher-order function over an arbitrary per-block function `f`
  (any Python callable: it may fail, `Res`) and an arbitrary universe `α` of
  non-block Python values; `Env` carries the three primitives of jax the code
  consults (`isinstance(x, jnp.ndarray)`, `jnp.array(x)`, `x.dtype`).
-/

namespace Scico.Block

/-- how the real code rejects (exception kinds of the line protocol) -/
inductive Err where
  | shape | dtype | type | value | notimpl | key | index | other
deriving DecidableEq, Repr, Inhabited

def Err.kind : Err → String
  | .shape => "shape" | .dtype => "dtype" | .type => "type" | .value => "value"
  | .notimpl => "notimpl" | .key => "key" | .index => "index" | .other => "other"

abbrev Res (α : Type) := Except Err α

/-- A Python value as the wrappers see it: a `BlockArray` (the list of its blocks) or
    anything else (array, scalar, axis, string, …). -/
inductive PyVal (α : Type) where
  | blk : List α → PyVal α
  | one : α → PyVal α
deriving Repr, DecidableEq

def PyVal.isBlk {α} : PyVal α → Bool
  | .blk _ => true
  | .one _ => false

/-- The jax primitives consulted by `BlockArray.__init__`. -/
structure Env (α δ : Type) where
  /-- `isinstance(x, jnp.ndarray)` -/
  isArr : α → Bool
  /-- `jnp.array(x)` (may raise) -/
  asArr : α → Res α
  /-- `x.dtype` -/
  dt : α → δ

section core
variable {α β δ : Type}

/-- `for x in xs: g(x)` collecting results, stopping at the first exception -/
def mapE (g : β → Res α) : List β → Res (List α)
  | [] => .ok []
  | x :: xs =>
    match g x with
    | .error e => .error e
    | .ok y =>
      match mapE g xs with
      | .error e => .error e
      | .ok ys => .ok (y :: ys)

/-- `x if isinstance(x, jnp.ndarray) else jnp.array(x)` -/
def coerce (E : Env α δ) (x : α) : Res α := if E.isArr x then .ok x else E.asArr x

/-- `all(a.dtype == self.arrays[0].dtype for a in self.arrays)` -/
def homogeneous [DecidableEq δ] (E : Env α δ) : List α → Bool
  | [] => true
  | a0 :: rest => (a0 :: rest).all (fun a => decide (E.dt a = E.dt a0))

/-- `BlockArray(g(x) for x in xs)`: evaluate, convert to arrays, check the dtypes. -/
def mkFrom [DecidableEq δ] (E : Env α δ) (g : β → Res α) (xs : List β) : Res (List α) :=
  match mapE (fun x => (g x).bind (coerce E)) xs with
  | .error e => .error e
  | .ok arrays => if homogeneous E arrays then .ok arrays else .error .dtype

/-- `BlockArray(inputs)` -/
def mkBlock [DecidableEq δ] (E : Env α δ) (inputs : List α) : Res (List α) :=
  mkFrom E Except.ok inputs

/-- `_unary_op_wrapper`: `BlockArray(op(x) for x in self)` -/
def unop [DecidableEq δ] (E : Env α δ) (op : α → Res α) (self : List α) : Res (List α) :=
  mkFrom E op self

/-- `_binary_op_wrapper`.  `op x y = .ok none` stands for `NotImplemented`; the wrapper's own
    `NotImplemented` result is `.ok none`.  Block operands must have the same number of blocks
    (`TypeError` otherwise; the unchanged tree used `zip` and truncated). -/
def opPair (op : α → α → Res (Option α)) (p : α × α) : Res α :=
  match op p.1 p.2 with
  | .error e => .error e
  | .ok none => .error .type      -- `jnp.array(NotImplemented)`
  | .ok (some r) => .ok r

def binop [DecidableEq δ] (E : Env α δ) (op : α → α → Res (Option α)) (self : List α) :
    PyVal α → Res (Option (List α))
  | .blk other =>
    if self.length ≠ other.length then .error .type
    else (mkFrom E (opPair op) (List.zip self other)).map some
  | .one o =>
    match mapE (fun x => op x o) self with
    | .error e => .error e
    | .ok result =>
      if result.any Option.isNone then .ok none
      else (mkBlock E (result.filterMap id)).map some

/-- result of a lifted method / property: a `BlockArray` or a plain tuple -/
inductive Out (α : Type) where
  | blk : List α → Out α
  | tup : List α → Out α
deriving Repr, DecidableEq

/-- `_da_method_wrapper` / `_da_prop_wrapper`: `result = tuple(m(x) for x in self)`;
    `BlockArray(result)` if `result[0]` is an array, else the tuple. -/
def liftMethod [DecidableEq δ] (E : Env α δ) (m : α → Res α) (self : List α) : Res (Out α) :=
  match mapE m self with
  | .error e => .error e
  | .ok [] => .error .index
  | .ok (r0 :: rs) =>
    if E.isArr r0 then (mkBlock E (r0 :: rs)).map Out.blk else .ok (Out.tup (r0 :: rs))

/-- `x[k]` for an integer `k` (Python list indexing, negative indices from the end) -/
def getItem (self : List α) (k : Int) : Res α :=
  let n : Int := self.length
  let j := if k < 0 then k + n else k
  if j < 0 ∨ n ≤ j then .error .index
  else match self[j.toNat]? with
    | some a => .ok a
    | none => .error .index

/-- `iter(x)`: `BlockArray` defines `__getitem__` and `__len__` but no `__iter__`, so Python iterates through
    the legacy sequence protocol — `x[0], x[1], …` until `IndexError` (`for x in self`, `zip(self, other)`,
    `for blk in x` in `solver._ravel`).  `fuel` bounds the number of `__getitem__` calls. -/
def iterFrom (self : List α) : Nat → Nat → List α
  | _, 0 => []
  | i, fuel + 1 =>
    match getItem self (i : Int) with
    | .ok a => a :: iterFrom self (i + 1) fuel
    | .error _ => []

def iterBlocks (self : List α) : List α := iterFrom self 0 (self.length + 1)

/-- pytree registration: `lambda xs: (xs, None)` and `_unflatten` (d088c11): the constructor
    (conversion, dtype check) only when every leaf is an array; otherwise the leaves are stored as
    they are — jax transformations rebuild trees with `object()`, `None`, `ShapeDtypeStruct` leaves -/
def treeFlatten (self : List α) : List α × Unit := (self, ())
def treeUnflatten [DecidableEq δ] (E : Env α δ) (_aux : Unit) (children : List α) : Res (List α) :=
  if children.all E.isArr then mkBlock E children else .ok children

/-- the registration before d088c11 (`lambda _, xs: BlockArray(xs)`): every leaf went through
    `jnp.array` (finding `blockarray-pytree-placeholder-leaves`) -/
def treeUnflattenOld [DecidableEq δ] (E : Env α δ) (_aux : Unit) (children : List α) : Res (List α) :=
  mkBlock E children

/-! ### `_wrappers.py` -/

/-- `next((arg for arg in args if isinstance(arg, BlockArray)), None)` -/
def firstBlk : List (PyVal α) → Option (List α)
  | [] => none
  | .blk l :: _ => some l
  | .one _ :: rest => firstBlk rest

/-- `_num_blocks_in_args` -/
def numBlocksInArgs (args : List (PyVal α)) (kwargs : List (String × PyVal α)) : Nat :=
  match firstBlk args with
  | some l => l.length
  | none =>
    match firstBlk (kwargs.map Prod.snd) with
    | some l => l.length
    | none => 0

/-- `arg[i] if isinstance(arg, BlockArray) else arg` -/
def pick (i : Nat) : PyVal α → Res (PyVal α)
  | .blk l => match l[i]? with
    | some a => .ok (.one a)
    | none => .error .index
  | .one a => .ok (.one a)

/-- every `BlockArray` argument must have `n` blocks ("mapped over (corresponding) blocks");
    the unchanged tree had no such check: a longer later argument was truncated, a shorter one
    raised `IndexError`. -/
def lensOk (n : Nat) (vals : List (PyVal α)) : Bool :=
  vals.all (fun v => match v with | .blk l => l.length == n | .one _ => true)

/-- `_block_args_kwargs` -/
def blockArgsKwargs (n : Nat) (args : List (PyVal α)) (kwargs : List (String × PyVal α)) :
    Res (List (List (PyVal α) × List (String × PyVal α))) :=
  mapE (fun i =>
    match mapE (pick i) args with
    | .error e => .error e
    | .ok a =>
      match mapE (fun (kv : String × PyVal α) => (pick i kv.2).map (fun v => (kv.1, v))) kwargs with
      | .error e => .error e
      | .ok k => .ok (a, k)) (List.range n)

/-- `map_func_over_blocks(func)(*args, **kwargs)` -/
def mapFuncOverBlocks [DecidableEq δ] (E : Env α δ)
    (f : List (PyVal α) → List (String × PyVal α) → Res α)
    (args : List (PyVal α)) (kwargs : List (String × PyVal α)) : Res (PyVal α) :=
  let n := numBlocksInArgs args kwargs
  if n = 0 then (f args kwargs).map PyVal.one
  else if !(lensOk n (args ++ kwargs.map Prod.snd)) then .error .type
  else
    match blockArgsKwargs n args kwargs with
    | .error e => .error e
    | .ok calls => (mkFrom E (fun (c : List (PyVal α) × List (String × PyVal α)) => f c.1 c.2) calls).map PyVal.blk

/-- `map_void_func_over_blocks`: same calls, results discarded -/
def mapVoidFuncOverBlocks
    (f : List (PyVal α) → List (String × PyVal α) → Res Unit)
    (args : List (PyVal α)) (kwargs : List (String × PyVal α)) : Res Unit :=
  let n := numBlocksInArgs args kwargs
  if n = 0 then f args kwargs
  else if !(lensOk n (args ++ kwargs.map Prod.snd)) then .error .type
  else
    match blockArgsKwargs n args kwargs with
    | .error e => .error e
    | .ok calls => (mapE (fun (c : List (PyVal α) × List (String × PyVal α)) => f c.1 c.2) calls).map (fun _ => ())

/-- Arguments after `inspect.signature(func).bind(*args, **kwargs)`: parameter name ↦ value,
    in signature order (the binding itself is CPython's, a contract). -/
abbrev Bound (α : Type) := List (String × PyVal α)

def hasKey {γ : Type} (k : String) (b : List (String × γ)) : Bool := b.any (fun kv => kv.1 == k)

/-- `jnp.concatenate(v.ravel())` for a block array `v`: `BlockArray.ravel` is the lifted method
    (so an empty block array fails with `IndexError` before anything is concatenated) -/
def ravelCatVia [DecidableEq δ] (E : Env α δ) (ravel : α → Res α) (concat : List α → Res α)
    (l : List α) : Res α :=
  match liftMethod E ravel l with
  | .error e => .error e
  | .ok (.blk r) => concat r
  | .ok (.tup r) => concat r

/-- `{k: jnp.concatenate(v.ravel()) for k, v in ba_args.items()}`, one entry -/
def catArg (ravelCat : List α → Res α) (kv : String × PyVal α) : Res (String × PyVal α) :=
  match kv.2 with
  | .blk l => (ravelCat l).map (fun c => (kv.1, PyVal.one c))
  | .one a => .ok (kv.1, PyVal.one a)

/-- `add_full_reduction(func)` applied to bound arguments.  `inner` is `func` (already wrapped
    by `map_func_over_blocks`) called with the given keyword arguments, `ravelCat` is
    `jnp.concatenate(v.ravel())`. -/
def addFullReduction (inner : Bound α → Res (PyVal α)) (ravelCat : List α → Res α)
    (bound : Bound α) : Res (PyVal α) :=
  let ba := bound.filter (fun kv => kv.2.isBlk)
  let rest := bound.filter (fun kv => !kv.2.isBlk)
  if hasKey "axis" rest then inner (rest ++ ba)
  else if ba.length > 1 then .error .value
  else
    match mapE (catArg ravelCat) ba with
    | .error e => .error e
    | .ok ba' => inner (rest ++ ba')

end core

/-! ### creation routines: `map_func_over_tuple_of_tuples` -/

/-- a (possibly nested) `shape` argument: an int or a tuple/list of such -/
inductive STree where
  | int : Nat → STree
  | tup : List STree → STree
deriving Repr

def STree.isSeq : STree → Bool
  | .tup _ => true
  | .int _ => false

/-- `snp.util.is_nested` -/
def STree.isNested : STree → Bool
  | .tup l => l.any STree.isSeq
  | .int _ => false

/-- a value bound to a parameter of a creation routine: a shape-like tree or anything else -/
inductive CVal (β : Type) where
  | tree : STree → CVal β
  | oth : β → CVal β
deriving Repr

def lookupKey {γ : Type} (k : String) : List (String × γ) → Option γ
  | [] => none
  | (k', v) :: rest => if k' == k then some v else lookupKey k rest

def eraseKey {γ : Type} (k : String) (b : List (String × γ)) : List (String × γ) :=
  b.filter (fun kv => !(kv.1 == k))

/-- `map_func_over_tuple_of_tuples(func, map_arg_name)` applied to bound arguments -/
def mapTupleOfTuples {α β δ : Type} [DecidableEq δ] (E : Env α δ)
    (f : List (String × CVal β) → Res α) (mapArg : String)
    (bound : List (String × CVal β)) : Res (PyVal α) :=
  match lookupKey mapArg bound with
  | none => (f bound).map PyVal.one
  | some (.oth _) => (f bound).map PyVal.one
  | some (.tree t) =>
    if !t.isNested then (f bound).map PyVal.one
    else
      match t with
      | .int _ => (f bound).map PyVal.one
      | .tup items =>
        (mkFrom E (fun x => f (eraseKey mapArg bound ++ [(mapArg, CVal.tree x)])) items).map PyVal.blk

/-- number of elements of a flat shape given as a tree (`math.prod`); an `int` shape counts itself -/
def STree.prod : STree → Nat
  | .int n => n
  | .tup l => go l
where go : List STree → Nat
  | [] => 1
  | x :: xs => x.prod * go xs

/-- `snp.util.shape_to_size` -/
def shapeToSize : STree → Nat
  | .int n => n
  | .tup l => if (STree.tup l).isNested then (l.map STree.prod).sum else (STree.tup l).prod

/-! ### numeric layer: arrays as their row-major flattening -/

section numeric
variable {α : Type}

/-- `jnp.concatenate(x.ravel())` on flattened blocks -/
def ravelCat (bs : List (List α)) : List α := bs.flatten

def rsum [Add α] [Zero α] (l : List α) : α := l.foldr (· + ·) 0
def rsumsq [Add α] [Mul α] [Zero α] (l : List α) : α := rsum (l.map (fun x => x * x))
def rprod [Mul α] [One α] (l : List α) : α := l.foldr (· * ·) 1
/-- `max`/`min` of a non-empty array; `none` for an empty one (numpy raises) -/
def rmax [Max α] : List α → Option α
  | [] => none
  | x :: xs => some (xs.foldl max x)
def rmin [Min α] : List α → Option α
  | [] => none
  | x :: xs => some (xs.foldl min x)
def rcount (nz : α → Bool) (l : List α) : Nat := (l.filter nz).length
def rany (nz : α → Bool) (l : List α) : Bool := l.any nz
def rall (nz : α → Bool) (l : List α) : Bool := l.all nz

/-- combine per-block optional extrema (blocks without elements contribute nothing) -/
def optCombine (op : α → α → α) : List (Option α) → Option α
  | [] => none
  | none :: rest => optCombine op rest
  | some a :: rest => match optCombine op rest with
    | none => some a
    | some b => some (op a b)

end numeric


/-! ### round 2: `__setitem__`, `scico.random` -/

section more
variable {α β δ : Type}

/-! ### `__setitem__` -/

/-- list index of a Python integer key -/
def pyIndex (n : Nat) (k : Int) : Option Nat :=
  let j := if k < 0 then k + (n : Int) else k
  if j < 0 ∨ (n : Int) ≤ j then none else some j.toNat

/-- `x[k] = v` for an integer key (d088c11): `arrays = list(self.arrays); arrays[key] = value;
    self.arrays = BlockArray(arrays).arrays` — the same conversion and dtype check as the constructor -/
def setItem [DecidableEq δ] (E : Env α δ) (self : List α) (k : Int) (v : α) : Res (List α) :=
  match pyIndex self.length k with
  | none => .error .index
  | some j => mkBlock E (self.set j v)

/-- the assignment before d088c11 (`self.arrays[key] = value`): the value was stored as it is
    (finding `blockarray-setitem-unchecked`) -/
def setItemOld (self : List α) (k : Int) (v : α) : Res (List α) :=
  match pyIndex self.length k with
  | none => .error .index
  | some j => .ok (self.set j v)

/-- the `dtype` property: `self.arrays[0].dtype`, read from the blocks at the moment it is asked for
    (IndexError for a block array without blocks) -/
def dtypeOf (E : Env α δ) (self : List α) : Res δ :=
  match self with
  | [] => .error .index
  | a :: _ => .ok (E.dt a)

/-! ### `__getitem__` with a slice -/

/-- `slice(start, stop, step).indices(n)` (CPython `PySlice_AdjustIndices`): the clipped start and stop
    and the step; `none` for `step == 0` (ValueError).  `none` components = omitted. -/
def sliceBounds (n : Nat) (start stop step : Option Int) : Option (Int × Int × Int) :=
  let st := step.getD 1
  if st = 0 then none
  else
    let len : Int := n
    let clip := fun (v : Int) =>
      if v < 0 then (if v + len < 0 then (if st < 0 then -1 else 0) else v + len)
      else if len ≤ v then (if st < 0 then len - 1 else len) else v
    let a := match start with
      | some v => clip v
      | none => if st < 0 then len - 1 else 0
    let b := match stop with
      | some v => clip v
      | none => if st < 0 then -1 else len
    some (a, b, st)

/-- number of indices of `range(a, b, st)` -/
def sliceLen (a b st : Int) : Nat :=
  if st < 0 then (if b < a then ((a - b - 1) / (-st) + 1).toNat else 0)
  else (if a < b then ((b - a - 1) / st + 1).toNat else 0)

/-- `range(a, b, st)` -/
def sliceIdx (a b st : Int) : List Int := (List.range (sliceLen a b st)).map (fun (i : Nat) => a + (i : Int) * st)

/-- `x[start:stop:step]`: `result = self.arrays[key]` is a list, hence `BlockArray(result)` -/
def getSlice [DecidableEq δ] (E : Env α δ) (self : List α) (start stop step : Option Int) : Res (List α) :=
  match sliceBounds self.length start stop step with
  | none => .error .value
  | some (a, b, st) => mkBlock E ((sliceIdx a b st).filterMap (fun j => self[j.toNat]?))

/-! ### `__setitem__` with a slice -/

/-- `for i, v in zip(indices, values): l[i] = v` -/
def assignAt : List α → List Nat → List α → List α
  | l, i :: is, v :: vs => assignAt (l.set i v) is vs
  | l, _, _ => l

/-- `x[start:stop:step] = values` (d088c11): Python list slice assignment on a copy of the block list,
    then the constructor.  A simple slice (`step` omitted or 1) is replaced by any number of values —
    the number of blocks changes; an extended slice needs exactly as many values as it has indices
    (ValueError otherwise).  `values` = the elements the right-hand side iterates to. -/
def setSlice [DecidableEq δ] (E : Env α δ) (self : List α) (start stop step : Option Int) (values : List α) :
    Res (List α) :=
  match sliceBounds self.length start stop step with
  | none => .error .value
  | some (a, b, st) =>
    if st = 1 then
      mkBlock E (self.take a.toNat ++ values ++ self.drop (max a b).toNat)
    else if values.length ≠ sliceLen a b st then .error .shape   -- ValueError "… sequence of size m to extended slice of size k"
    else mkBlock E (assignAt self ((sliceIdx a b st).map Int.toNat) values)

end more

/-! ### `scico.random`: `_add_seed ∘ map_func_over_tuple_of_tuples` -/

/-- non-shape values of a wrapped `jax.random` call -/
inductive ROth (κ σ β : Type) where
  | none : ROth κ σ β                 -- Python `None`
  | key : κ → ROth κ σ β              -- a PRNG key
  | seed : σ → ROth κ σ β             -- an integer seed
  | oth : β → ROth κ σ β              -- anything else (dtype, …)
deriving Repr

/-- a positional / keyword value of a wrapped `jax.random` function -/
abbrev RVal (κ σ β : Type) := CVal (ROth κ σ β)

def RVal.isNone {κ σ β} : RVal κ σ β → Bool
  | .oth .none => true
  | _ => false

/-- the jax primitives of `_add_seed` -/
structure RngPrims (κ σ β : Type) where
  /-- the literal `0` of `seed = 0` -/
  seed0 : σ
  /-- `jax.random.PRNGKey(seed)` (raises for a non-integer) -/
  prngKey : RVal κ σ β → Res κ
  /-- `jax.random.split(key, 2)[0]` (raises when `key` is not a key) -/
  split0 : RVal κ σ β → Res κ

/-- where key and seed are read from: position `numParams-1` / `numParams` when that many
    positional arguments are given (then the keyword is NOT consulted), else the keyword -/
def keyOf {κ σ β : Type} (numParams : Nat) (args : List (RVal κ σ β)) (kwKey : RVal κ σ β) : RVal κ σ β :=
  if numParams ≤ args.length then (args[numParams - 1]?).getD (.oth .none) else kwKey
def seedOf {κ σ β : Type} (numParams : Nat) (args : List (RVal κ σ β)) (kwSeed : RVal κ σ β) : RVal κ σ β :=
  if numParams < args.length then (args[numParams]?).getD (.oth .none) else kwSeed

/-- body of `fun_alt` once `key` and `seed` are located; `f key pos kwargs` is `fun(key, *pos, **kwargs)` -/
def addSeedCore {κ σ β ρ : Type} (P : RngPrims κ σ β)
    (f : RVal κ σ β → List (RVal κ σ β) → List (String × RVal κ σ β) → Res ρ)
    (key seed : RVal κ σ β) (pos : List (RVal κ σ β))
    (kwargs : List (String × RVal κ σ β)) : Res (ρ × κ) :=
  if !key.isNone && !seed.isNone then .error .value
  else
    let keyE : Res (RVal κ σ β) :=
      if key.isNone then
        (P.prngKey (if seed.isNone then .oth (.seed P.seed0) else seed)).map (fun k => .oth (.key k))
      else .ok key
    match keyE with
    | .error e => .error e
    | .ok k =>
      match f k pos kwargs with
      | .error e => .error e
      | .ok r =>
        match P.split0 k with
        | .error e => .error e
        | .ok k' => .ok (r, k')

/-- `fun_alt(*args, key=None, seed=None, **kwargs)` of `_add_seed(fun)`, `numParams` parameters -/
def addSeed {κ σ β ρ : Type} (P : RngPrims κ σ β) (numParams : Nat)
    (f : RVal κ σ β → List (RVal κ σ β) → List (String × RVal κ σ β) → Res ρ)
    (args : List (RVal κ σ β)) (kwKey kwSeed : RVal κ σ β)
    (kwargs : List (String × RVal κ σ β)) : Res (ρ × κ) :=
  addSeedCore P f (keyOf numParams args kwKey) (seedOf numParams args kwSeed)
    (args.take (numParams - 1)) kwargs

/-- `inspect.signature(fun).bind(*pos, **kwargs)` for a function with plain parameters `params`
    (no `*args`/`**kwargs`): too many positionals, an unknown keyword or a keyword that is already
    bound positionally is a `TypeError` -/
def bindArgs {γ : Type} (params : List String) (pos : List γ) (kwargs : List (String × γ)) :
    Res (List (String × γ)) :=
  if params.length < pos.length then .error .type
  else
    let named := List.zip params pos
    if kwargs.any (fun kv => hasKey kv.1 named || !(params.contains kv.1)) then .error .type
    else .ok (named ++ kwargs)

/-- `sig.bind(*pos, **kwargs)` for a function whose positional-or-keyword parameters are `posParams`,
    followed by the keyword-only parameters `kwOnly`: the positionals are named in order; too many
    positionals, an unknown keyword or a keyword already bound positionally is a `TypeError` -/
def bindCall {γ : Type} (posParams kwOnly : List String) (pos : List γ) (kwargs : List (String × γ)) :
    Res (List (String × γ)) :=
  if posParams.length < pos.length then .error .type
  else
    let named := List.zip posParams pos
    if kwargs.any (fun kv => hasKey kv.1 named || !((posParams ++ kwOnly).contains kv.1)) then .error .type
    else .ok (named ++ kwargs)

/-- a wrapped reduction called as `snp.f(*args, **kwargs)`: bind, then `add_full_reduction` -/
def reductionCall {α δ : Type} [DecidableEq δ] (E : Env α δ) (posParams kwOnly : List String)
    (f : List (PyVal α) → List (String × PyVal α) → Res α) (ravelCat : List α → Res α)
    (args : List (PyVal α)) (kwargs : List (String × PyVal α)) : Res (PyVal α) :=
  match bindCall posParams kwOnly args kwargs with
  | .error e => .error e
  | .ok bound => addFullReduction (fun b => mapFuncOverBlocks E f [] b) ravelCat bound

/-- `scico.random.<name>` = `_add_seed(map_func_over_tuple_of_tuples(jax.random.<name>))`;
    `g` is `jax.random.<name>` called with bound keyword arguments -/
def randomWrapped {α δ κ σ β : Type} [DecidableEq δ] (E : Env α δ) (P : RngPrims κ σ β)
    (params : List String) (g : List (String × RVal κ σ β) → Res α)
    (args : List (RVal κ σ β)) (kwKey kwSeed : RVal κ σ β)
    (kwargs : List (String × RVal κ σ β)) : Res (PyVal α × κ) :=
  addSeed P params.length
    (fun k pos kw =>
      match bindArgs params (k :: pos) kw with
      | .error e => .error e
      | .ok bound => mapTupleOfTuples E g "shape" bound)
    args kwKey kwSeed kwargs



/-! ### block arrays inside other pytrees: jax's flatten / unflatten recursion -/

section pytrees
variable {α δ : Type}

/-- a pytree over leaves `α`: a leaf, a standard container of sub-trees, or a block array whose blocks
    are pytrees themselves — normally leaves (arrays, tracers, placeholder objects of a transformation),
    but also block arrays or tuples (what `jax.hessian` / `jacfwd` of a function of a block array return) -/
inductive PT (α : Type) where
  | leaf : α → PT α
  | tup : List (PT α) → PT α
  | blk : List (PT α) → PT α

mutual
/-- `jax.tree_util.tree_leaves` -/
def PT.leaves : PT α → List α
  | .leaf a => [a]
  | .tup cs => leavesL cs
  | .blk bs => leavesL bs
def leavesL : List (PT α) → List α
  | [] => []
  | c :: cs => c.leaves ++ leavesL cs
end

mutual
/-- `jax.tree_util.tree_structure`: the tree with its leaves forgotten -/
def PT.struct : PT α → PT Unit
  | .leaf _ => .leaf ()
  | .tup cs => .tup (structL cs)
  | .blk bs => .blk (structL bs)
def structL : List (PT α) → List (PT Unit)
  | [] => []
  | c :: cs => c.struct :: structL cs
end

/-- `isinstance(child, jnp.ndarray)` for a rebuilt child: only a leaf can be an array -/
def childArr (E : Env α δ) : PT α → Bool
  | .leaf a => E.isArr a
  | _ => false

/-- the values of the children that are leaves -/
def leafVals : List (PT α) → List α
  | [] => []
  | .leaf a :: cs => a :: leafVals cs
  | _ :: cs => leafVals cs

/-- the registered `_unflatten(aux, children)` on rebuilt children: the constructor (dtype check) when
    every child is an array, otherwise the children are stored as they are -/
def unflattenNode [DecidableEq δ] (E : Env α δ) (ts : List (PT α)) : Res (PT α) :=
  if ts.all (childArr E) then
    match mkBlock E (leafVals ts) with
    | .error e => .error e
    | .ok vs => .ok (.blk (vs.map PT.leaf))
  else .ok (.blk ts)

mutual
/-- `jax.tree_util.tree_unflatten(treedef, leaves)`: consumes the leaves left to right, children
    first; standard containers are rebuilt as they are, a block array node calls the registered
    `_unflatten` on its rebuilt children -/
def unflat [DecidableEq δ] (E : Env α δ) : PT Unit → List α → Res (PT α × List α)
  | .leaf _, l =>
    match l with
    | [] => .error .value
    | a :: r => .ok (.leaf a, r)
  | .tup cs, l =>
    match unflatL E cs l with
    | .error e => .error e
    | .ok (ts, r) => .ok (.tup ts, r)
  | .blk us, l =>
    match unflatL E us l with
    | .error e => .error e
    | .ok (ts, r) =>
      match unflattenNode E ts with
      | .error e => .error e
      | .ok t => .ok (t, r)
def unflatL [DecidableEq δ] (E : Env α δ) : List (PT Unit) → List α → Res (List (PT α) × List α)
  | [], l => .ok ([], l)
  | c :: cs, l =>
    match unflat E c l with
    | .error e => .error e
    | .ok (t, r) =>
      match unflatL E cs r with
      | .error e => .error e
      | .ok (ts, r') => .ok (t :: ts, r')
end

/-- `jax.tree_util.tree_unflatten(treedef, leaves)` at top level: left-over leaves are an error -/
def treeUnflattenTop [DecidableEq δ] (E : Env α δ) (s : PT Unit) (l : List α) : Res (PT α) :=
  match unflat E s l with
  | .error e => .error e
  | .ok (t, []) => .ok t
  | .ok (_, _ :: _) => .error .value

end pytrees

end Scico.Block
