/-
  Tables of the operator calculus that are DATA COPIED FROM THE SCICO SOURCE (round 4): which class defines which
  arithmetic / view method and with which decorator, the decision ladders of the three dispatch wrappers, and the
  shape / dtype expressions every derived constructor passes.  `model` is what the hand-written model
  (`Scico/Model/OpAlg.lean`) was written against; `harness/opalg_translate.py` re-reads the same tables from the
  working tree on every run and the generated module `Scico/Generated/OpAlgTables.lean` states `src = model`.
  `Scico/Proofs/OpAlgTables.lean` derives the dispatch data of the model (`Cls.arith`, `Cls.isSub`, the owners of
  `T/H/conj/gram_op`, the metadata rules of the generic constructors) from `model`.  Mathlib-free.
-/

namespace Scico.OpAlg.Tables

/-- expressions passed to derived constructors -/
inductive SE where
  | absent                      -- keyword not passed
  | none                        -- `None`
  | attr (obj field : String)   -- `self.input_dtype`, `other.output_shape`, `self.A.output_dtype`
  | name (s : String)           -- a local name (`other`, `scalar`, `input_shape`)
  | rt (a b : SE)               -- `result_type(a, b)`
  | raw (s : String)            -- anything else, normalised source text
deriving DecidableEq, Repr

structure ClassRow where
  tag : String
  name : String
  bases : List String
  /-- (method, decorator) of the methods defined in the class body -/
  defs : List (String × String)
deriving DecidableEq, Repr

structure CtorRow where
  tag : String
  meth : String
  idx : Nat
  ctor : String
  inSh : SE
  outSh : SE
  inDt : SE
  outDt : SE
  extra : List (String × String)
deriving DecidableEq, Repr

structure Tables where
  classes : List ClassRow
  ladders : List (String × List String)
  ctors : List CtorRow
deriving DecidableEq, Repr

def model : Tables :=
  { classes := [
      ⟨"op", "Operator", [], [("__call__", ""), ("__add__", ""), ("__sub__", ""), ("__neg__", ""), ("__mul__", "_wrap_mul_div_scalar"), ("__rmul__", "_wrap_mul_div_scalar"), ("__truediv__", "_wrap_mul_div_scalar"), ("__init__", ""), ("freeze", "")]⟩,
      ⟨"linop", "LinearOperator", ["Operator"], [("__call__", ""), ("__add__", "_wrap_add_sub"), ("__sub__", "_wrap_add_sub"), ("__mul__", "_wrap_mul_div_scalar"), ("__rmul__", "_wrap_mul_div_scalar"), ("__truediv__", "_wrap_mul_div_scalar"), ("__matmul__", ""), ("__rmatmul__", ""), ("adj", ""), ("T", "property"), ("H", "property"), ("conj", ""), ("gram_op", "property"), ("__init__", "")]⟩,
      ⟨"composed", "ComposedLinearOperator", ["LinearOperator"], [("__init__", "")]⟩,
      ⟨"diag", "Diagonal", ["LinearOperator"], [("__add__", "_wrap_add_sub"), ("__sub__", "_wrap_add_sub"), ("__mul__", "_wrap_mul_div_scalar"), ("__truediv__", "_wrap_mul_div_scalar"), ("__matmul__", ""), ("T", "property"), ("H", "property"), ("conj", ""), ("gram_op", "property"), ("_eval", ""), ("__init__", "")]⟩,
      ⟨"scaledId", "ScaledIdentity", ["Diagonal"], [("__add__", "_wrap_add_sub"), ("__sub__", "_wrap_add_sub"), ("__mul__", "_wrap_mul_div_scalar"), ("__truediv__", "_wrap_mul_div_scalar"), ("__matmul__", ""), ("conj", ""), ("gram_op", "property"), ("__init__", "")]⟩,
      ⟨"ident", "Identity", ["ScaledIdentity"], [("__matmul__", ""), ("__rmatmul__", ""), ("conj", ""), ("gram_op", "property"), ("_eval", ""), ("__init__", "")]⟩,
      ⟨"matrix", "MatrixOperator", ["LinearOperator"], [("__call__", ""), ("__add__", "partial(_wrap_add_sub_matrix,op=operator.add)"), ("__sub__", "partial(_wrap_add_sub_matrix,op=operator.sub)"), ("__radd__", ""), ("__rsub__", ""), ("__neg__", ""), ("__mul__", ""), ("__rmul__", ""), ("__truediv__", ""), ("__rtruediv__", ""), ("adj", ""), ("T", "property"), ("H", "property"), ("conj", ""), ("gram_op", "property"), ("_eval", ""), ("__init__", "")]⟩,
      ⟨"convolve", "Convolve", ["LinearOperator"], [("__add__", "_wrap_add_sub"), ("__sub__", "_wrap_add_sub"), ("__mul__", "_wrap_mul_div_scalar"), ("__truediv__", "_wrap_mul_div_scalar"), ("_eval", ""), ("__init__", "")]⟩,
      ⟨"circconv", "CircularConvolve", ["LinearOperator"], [("__add__", "_wrap_add_sub"), ("__sub__", "_wrap_add_sub"), ("__mul__", "_wrap_mul_div_scalar"), ("__truediv__", "_wrap_mul_div_scalar"), ("_adj", ""), ("_eval", ""), ("__init__", "")]⟩,
      ⟨"vstack", "VerticalStack", ["VerticalStackOperator", "LinearOperator"], [("_adj", ""), ("__init__", "")]⟩,
      ⟨"dstack", "DiagonalStack", ["DiagonalStackOperator", "LinearOperator"], [("_adj", ""), ("__init__", "")]⟩,
      ⟨"drep", "DiagonalReplicated", ["DiagonalReplicatedOperator", "LinearOperator"], [("__init__", "")]⟩,
      ⟨"opvstack", "VerticalStack", ["Operator"], [("_eval", ""), ("__init__", "")]⟩,
      ⟨"opdstack", "DiagonalStack", ["Operator"], [("_eval", ""), ("__init__", "")]⟩,
      ⟨"opdrep", "DiagonalReplicated", ["Operator"], [("__init__", "")]⟩
    ],
    ladders := [
      ("_wrap_add_sub", ["if isinstance(b, Operator)", "if a.shape == b.shape", "if isinstance(b, type(a))", "return func(a, b)", "end", "if isinstance(a, type(b))", "if hasattr(getattr(type(b), func.__name__), '_unwrapped')", "uwfunc = getattr(type(b), func.__name__)._unwrapped", "else", "uwfunc = getattr(type(b), func.__name__)", "end", "return uwfunc(a, b)", "end", "if isinstance(b, LinearOperator)", "uwfunc = getattr(LinearOperator, func.__name__)._unwrapped", "return uwfunc(a, b)", "end", "uwfunc = getattr(Operator, func.__name__)", "return uwfunc(a, b)", "end", "raise ValueError", "end", "raise TypeError"]),
      ("_wrap_mul_div_scalar", ["if snp.util.is_scalar_equiv(b)", "return func(a, b)", "end", "raise TypeError"]),
      ("_wrap_add_sub_matrix", ["if np.isscalar(b)", "return MatrixOperator(op(a.A, b), input_cols=a.input_cols)", "end", "if isinstance(b, MatrixOperator)", "if a.shape == b.shape", "return MatrixOperator(op(a.A, b.A), input_cols=a.input_cols)", "end", "raise ValueError", "end", "if isinstance(b, (jnp.ndarray, np.ndarray))", "if a.A.shape == b.shape", "return MatrixOperator(op(a.A, b), input_cols=a.input_cols)", "end", "raise ValueError", "end", "if isinstance(b, Operator)", "if a.shape != b.shape", "raise ValueError", "end", "end", "if isinstance(b, LinearOperator)", "uwfunc = getattr(LinearOperator, func.__name__)._unwrapped", "return uwfunc(a, b)", "end", "if isinstance(b, Operator)", "uwfunc = getattr(Operator, func.__name__)", "return uwfunc(a, b)", "end", "raise TypeError"])
    ],
    ctors := [
      ⟨"op", "__call__", 0, "Operator", (.attr "x" "input_shape"), (.attr "self" "output_shape"), (.attr "x" "input_dtype"), (.attr "self" "output_dtype"), []⟩,
      ⟨"op", "__add__", 0, "Operator", (.attr "self" "input_shape"), (.attr "self" "output_shape"), (.attr "self" "input_dtype"), (.rt (.attr "self" "output_dtype") (.attr "other" "output_dtype")), []⟩,
      ⟨"op", "__sub__", 0, "Operator", (.attr "self" "input_shape"), (.attr "self" "output_shape"), (.attr "self" "input_dtype"), (.rt (.attr "self" "output_dtype") (.attr "other" "output_dtype")), []⟩,
      ⟨"op", "__mul__", 0, "Operator", (.attr "self" "input_shape"), (.attr "self" "output_shape"), (.attr "self" "input_dtype"), (.rt (.attr "self" "output_dtype") (.name "other")), []⟩,
      ⟨"op", "__rmul__", 0, "Operator", (.attr "self" "input_shape"), (.attr "self" "output_shape"), (.attr "self" "input_dtype"), (.rt (.attr "self" "output_dtype") (.name "other")), []⟩,
      ⟨"op", "__truediv__", 0, "Operator", (.attr "self" "input_shape"), (.attr "self" "output_shape"), (.attr "self" "input_dtype"), (.rt (.attr "self" "output_dtype") (.name "other")), []⟩,
      ⟨"op", "freeze", 0, "Operator", (.name "input_shape"), (.attr "self" "output_shape"), (.attr "self" "input_dtype"), (.attr "self" "output_dtype"), []⟩,
      ⟨"linop", "__add__", 0, "LinearOperator", (.attr "self" "input_shape"), (.attr "self" "output_shape"), (.attr "self" "input_dtype"), (.rt (.attr "self" "output_dtype") (.attr "other" "output_dtype")), []⟩,
      ⟨"linop", "__sub__", 0, "LinearOperator", (.attr "self" "input_shape"), (.attr "self" "output_shape"), (.attr "self" "input_dtype"), (.rt (.attr "self" "output_dtype") (.attr "other" "output_dtype")), []⟩,
      ⟨"linop", "__mul__", 0, "LinearOperator", (.attr "self" "input_shape"), (.attr "self" "output_shape"), (.attr "self" "input_dtype"), (.rt (.attr "self" "output_dtype") (.name "other")), []⟩,
      ⟨"linop", "__truediv__", 0, "LinearOperator", (.attr "self" "input_shape"), (.attr "self" "output_shape"), (.attr "self" "input_dtype"), (.rt (.attr "self" "output_dtype") (.name "other")), []⟩,
      ⟨"linop", "T", 0, "LinearOperator", (.attr "self" "output_shape"), (.attr "self" "input_shape"), (.attr "self" "output_dtype"), (.attr "self" "input_dtype"), []⟩,
      ⟨"linop", "T", 1, "LinearOperator", (.attr "self" "output_shape"), (.attr "self" "input_shape"), (.attr "self" "output_dtype"), (.attr "self" "input_dtype"), []⟩,
      ⟨"linop", "H", 0, "LinearOperator", (.attr "self" "output_shape"), (.attr "self" "input_shape"), (.attr "self" "output_dtype"), (.attr "self" "input_dtype"), []⟩,
      ⟨"linop", "conj", 0, "LinearOperator", (.attr "self" "input_shape"), (.attr "self" "output_shape"), (.attr "self" "input_dtype"), (.attr "self" "output_dtype"), []⟩,
      ⟨"linop", "gram_op", 0, "LinearOperator", (.attr "self" "input_shape"), (.attr "self" "input_shape"), (.attr "self" "input_dtype"), (.attr "self" "input_dtype"), []⟩,
      ⟨"composed", "__init__", 0, "super().__init__", (.attr "self.B" "input_shape"), (.attr "self.A" "output_shape"), (.attr "self.B" "input_dtype"), (.attr "self.A" "output_dtype"), []⟩,
      ⟨"diag", "__init__", 0, "super().__init__", (.name "input_shape"), (.name "output_shape"), (.name "input_dtype"), (.rt (.attr "self._diagonal" "dtype") (.name "input_dtype")), []⟩,
      ⟨"diag", "conj", 0, "Diagonal", (.attr "self" "input_shape"), .absent, (.attr "self" "input_dtype"), .absent, [("diagonal", "self.diagonal.conj()")]⟩,
      ⟨"diag", "gram_op", 0, "Diagonal", (.attr "self" "input_shape"), .absent, (.attr "self" "input_dtype"), .absent, [("diagonal", "self.diagonal.conj() * self.diagonal")]⟩,
      ⟨"diag", "__add__", 0, "Diagonal", (.attr "self" "input_shape"), .absent, .absent, .absent, [("diagonal", "self.diagonal + other.diagonal")]⟩,
      ⟨"diag", "__sub__", 0, "Diagonal", (.attr "self" "input_shape"), .absent, .absent, .absent, [("diagonal", "self.diagonal - other.diagonal")]⟩,
      ⟨"diag", "__mul__", 0, "Diagonal", (.attr "self" "input_shape"), .absent, .absent, .absent, [("diagonal", "self.diagonal * scalar")]⟩,
      ⟨"diag", "__truediv__", 0, "Diagonal", (.attr "self" "input_shape"), .absent, .absent, .absent, [("diagonal", "self.diagonal / scalar")]⟩,
      ⟨"diag", "__matmul__", 0, "Diagonal", (.attr "other" "input_shape"), .absent, .absent, .absent, [("diagonal", "self.diagonal * other.diagonal")]⟩,
      ⟨"scaledId", "__init__", 0, "super().__init__", (.name "input_shape"), .absent, (.name "input_dtype"), .absent, []⟩,
      ⟨"scaledId", "conj", 0, "ScaledIdentity", (.attr "self" "input_shape"), .absent, (.attr "self" "input_dtype"), .absent, [("scalar", "self._diagonal.conj()")]⟩,
      ⟨"scaledId", "gram_op", 0, "ScaledIdentity", (.attr "self" "input_shape"), .absent, (.attr "self" "input_dtype"), .absent, [("scalar", "self._diagonal * self._diagonal.conj()")]⟩,
      ⟨"scaledId", "__add__", 0, "ScaledIdentity", (.attr "self" "input_shape"), .absent, (.attr "self" "input_dtype"), .absent, [("scalar", "self._diagonal + other._diagonal")]⟩,
      ⟨"scaledId", "__sub__", 0, "ScaledIdentity", (.attr "self" "input_shape"), .absent, (.attr "self" "input_dtype"), .absent, [("scalar", "self._diagonal - other._diagonal")]⟩,
      ⟨"scaledId", "__mul__", 0, "ScaledIdentity", (.attr "self" "input_shape"), .absent, (.attr "self" "input_dtype"), .absent, [("scalar", "self._diagonal * scalar")]⟩,
      ⟨"scaledId", "__truediv__", 0, "ScaledIdentity", (.attr "self" "input_shape"), .absent, (.attr "self" "input_dtype"), .absent, [("scalar", "self._diagonal / scalar")]⟩,
      ⟨"scaledId", "__matmul__", 0, "ScaledIdentity", (.attr "self" "input_shape"), .absent, (.attr "self" "input_dtype"), .absent, [("scalar", "self._diagonal * other._diagonal")]⟩,
      ⟨"scaledId", "__matmul__", 1, "Diagonal", (.attr "other" "input_shape"), .absent, .absent, .absent, [("diagonal", "self._diagonal * other.diagonal")]⟩,
      ⟨"ident", "__init__", 0, "super().__init__", (.name "input_shape"), .absent, (.name "input_dtype"), .absent, []⟩,
      ⟨"matrix", "__init__", 0, "super().__init__", (.name "input_shape"), (.name "output_shape"), (.attr "self.A" "dtype"), .absent, []⟩,
      ⟨"matrix", "__call__", 0, "MatrixOperator", .absent, .absent, .absent, .absent, [("A", "self.A @ other.A"), ("input_cols", "other.input_cols")]⟩,
      ⟨"matrix", "__call__", 1, "LinearOperator", (.attr "other" "input_shape"), (.attr "self" "output_shape"), (.attr "other" "input_dtype"), .absent, []⟩,
      ⟨"convolve", "__init__", 0, "super().__init__", (.name "input_shape"), .absent, (.name "input_dtype"), (.name "output_dtype"), []⟩,
      ⟨"convolve", "__add__", 0, "Convolve", (.attr "self" "input_shape"), (.attr "self" "output_shape"), (.rt (.attr "self" "input_dtype") (.attr "other" "input_dtype")), .absent, [("h", "self.h + other.h"), ("mode", "self.mode")]⟩,
      ⟨"convolve", "__sub__", 0, "Convolve", (.attr "self" "input_shape"), (.attr "self" "output_shape"), (.rt (.attr "self" "input_dtype") (.attr "other" "input_dtype")), .absent, [("h", "self.h - other.h"), ("mode", "self.mode")]⟩,
      ⟨"convolve", "__mul__", 0, "Convolve", (.attr "self" "input_shape"), (.attr "self" "output_shape"), (.rt (.attr "self" "input_dtype") (.name "scalar")), .absent, [("h", "self.h * scalar"), ("mode", "self.mode")]⟩,
      ⟨"convolve", "__truediv__", 0, "Convolve", (.attr "self" "input_shape"), (.attr "self" "output_shape"), (.rt (.attr "self" "input_dtype") (.name "scalar")), .absent, [("h", "self.h / scalar"), ("mode", "self.mode")]⟩,
      ⟨"circconv", "__add__", 0, "CircularConvolve", (.attr "self" "input_shape"), .absent, (.rt (.attr "self" "input_dtype") (.attr "other" "input_dtype")), (.rt (.attr "self" "output_dtype") (.attr "other" "output_dtype")), [("h", "self.h_dft + other.h_dft"), ("ndims", "self.ndims")]⟩,
      ⟨"circconv", "__sub__", 0, "CircularConvolve", (.attr "self" "input_shape"), .absent, (.rt (.attr "self" "input_dtype") (.attr "other" "input_dtype")), (.rt (.attr "self" "output_dtype") (.attr "other" "output_dtype")), [("h", "self.h_dft - other.h_dft"), ("ndims", "self.ndims")]⟩,
      ⟨"circconv", "__mul__", 0, "CircularConvolve", (.attr "self" "input_shape"), .absent, (.rt (.attr "self" "input_dtype") (.name "scalar")), (.rt (.attr "self" "output_dtype") (.name "scalar")), [("h", "self.h_dft * scalar"), ("ndims", "self.ndims")]⟩,
      ⟨"circconv", "__truediv__", 0, "CircularConvolve", (.attr "self" "input_shape"), .absent, (.rt (.attr "self" "input_dtype") (.name "scalar")), (.rt (.attr "self" "output_dtype") (.name "scalar")), [("h", "self.h_dft / scalar"), ("ndims", "self.ndims")]⟩,
      ⟨"opvstack", "__init__", 0, "super().__init__", (.raw "ops[0].input_shape"), (.name "output_shape"), (.raw "ops[0].input_dtype"), (.raw "ops[0].output_dtype"), []⟩,
      ⟨"opdstack", "__init__", 0, "super().__init__", (.name "input_shape"), (.name "output_shape"), (.raw "ops[0].input_dtype"), (.raw "ops[0].output_dtype"), []⟩,
      ⟨"opdrep", "__init__", 0, "super().__init__", (.name "input_shape"), (.name "output_shape"), (.attr "op" "input_dtype"), (.attr "op" "output_dtype"), []⟩
    ] }

end Scico.OpAlg.Tables
