/-
  `scico.solver.minimize` plumbing (DESIGN §4.2 `Model/Wrap`, §5.11).  Mathlib-free, executable.

  Source map (scico/solver.py):
    _ravel                      -> `ravel`
    _unravel                    -> `cumsumFrom`, `splitIdx`, `reshape`, `unravel`
    _split_real_imag            -> `splitArr`, `splitVal`
    _join_real_imag             -> `joinArr`, `joinVal`
    minimize (prologue)         -> `prepare`, `x0flat`, `usesGrad`
    _wrap_func/_wrap_func_and_grad + `func_` -> `objective`
    minimize (epilogue)         -> `result`, `resultDType`

  An N-d array is its shape with its row-major data (`jnp.ravel`/`jnp.reshape` keep the data
  order, a jax contract); a complex number is the pair of its parts.  `none` = the real code
  raises.
-/

namespace Scico.Wrap

/-- `math.prod(shape)` -/
def sizeOf (s : List Nat) : Nat := s.foldr (· * ·) 1

structure Arr (α : Type) where
  shape : List Nat
  data : List α
deriving Repr, DecidableEq

/-- an array or a `BlockArray` -/
inductive Val (α : Type) where
  | arr : Arr α → Val α
  | blk : List (Arr α) → Val α
deriving Repr, DecidableEq

/-- `x.shape`: a tuple, or a tuple of tuples for a block array -/
inductive Shape where
  | flat : List Nat → Shape
  | nested : List (List Nat) → Shape
deriving Repr, DecidableEq

def shapeOf {α} : Val α → Shape
  | .arr a => .flat a.shape
  | .blk bs => .nested (bs.map Arr.shape)

/-- `_ravel`: `jnp.ravel(x)`, or the concatenation of the ravelled blocks -/
def ravel {α} : Val α → List α
  | .arr a => a.data
  | .blk bs => (bs.map Arr.data).flatten

/-- `np.cumsum` with a running total -/
def cumsumFrom (acc : Nat) : List Nat → List Nat
  | [] => []
  | s :: ss => (acc + s) :: cumsumFrom (acc + s) ss

/-- `jnp.split(x, indices)` for increasing indices: the pieces between consecutive indices, the last
    piece takes the rest.  `start` = index of the first element of `v` in `x`. -/
def splitIdx {α} (start : Nat) : List Nat → List α → List (List α)
  | [], v => [v]
  | i :: rest, v => v.take (i - start) :: splitIdx i rest (v.drop (i - start))

/-- `jnp.reshape(v, s)` for a 1-d `v` (no `-1` entries): rejected when the sizes differ -/
def reshape {α} (v : List α) (s : List Nat) : Option (Arr α) :=
  if v.length = sizeOf s then some ⟨s, v⟩ else none

def mapO {α β} (g : α → Option β) : List α → Option (List β)
  | [] => some []
  | x :: xs => match g x with
    | none => none
    | some y => match mapO g xs with
      | none => none
      | some ys => some (y :: ys)

/-- `_unravel(v, shape)`.  Python's `()` is not nested (`is_nested(()) = False`), so a "nested shape
    without blocks" is the 0-d shape: `jnp.reshape(v, ())`.  (A block array without blocks has no
    `shape`/`dtype` in the first place: `minimize` raises `IndexError`.) -/
def unravel {α} (v : List α) : Shape → Option (Val α)
  | .flat s => (reshape v s).map Val.arr
  | .nested [] => (reshape v []).map Val.arr
  | .nested ss =>
    let idx := (cumsumFrom 0 (ss.map sizeOf)).dropLast
    let pieces := splitIdx 0 idx v
    (mapO (fun (p : List α × List Nat) => reshape p.1 p.2) (List.zip pieces ss)).map Val.blk

/-- complex numbers as pairs -/
structure Cx (α : Type) where
  re : α
  im : α
deriving Repr, DecidableEq

/-- `snp.stack((snp.real(x), snp.imag(x)))` -/
def splitArr {α} (a : Arr (Cx α)) : Arr α := ⟨2 :: a.shape, a.data.map Cx.re ++ a.data.map Cx.im⟩

/-- `_split_real_imag` -/
def splitVal {α} : Val (Cx α) → Val α
  | .arr a => .arr (splitArr a)
  | .blk bs => .blk (bs.map splitArr)

/-- `x[0] + 1j * x[1]`: needs a leading axis of length ≥ 2 (only slices 0 and 1 are read) -/
def joinArr {α} (a : Arr α) : Option (Arr (Cx α)) :=
  match a.shape with
  | [] => none
  | k :: s =>
    if k < 2 then none
    else
      let m := sizeOf s
      some ⟨s, List.zipWith Cx.mk (a.data.take m) ((a.data.drop m).take m)⟩

/-- `_join_real_imag` -/
def joinVal {α} : Val α → Option (Val (Cx α))
  | .arr a => (joinArr a).map Val.arr
  | .blk bs => (mapO joinArr bs).map Val.blk

/-- the starting point of `minimize`: real or complex container -/
inductive Container (α : Type) where
  | real : Val α → Container α
  | cplx : Val (Cx α) → Container α
deriving Repr, DecidableEq

/-- `x0` after the optional `_split_real_imag` -/
def prepare {α} : Container α → Val α
  | .real x => x
  | .cplx x => splitVal x

/-- `x0_shape` -/
def workShape {α} (c : Container α) : Shape := shapeOf (prepare c)

/-- the flat real vector handed to scipy: `_ravel(x0)` -/
def x0flat {α} (c : Container α) : List α := ravel (prepare c)

/-- what comes back: `_unravel(res.x, x0_shape)`, then `_join_real_imag` for a complex start.
    `c0` only contributes its kind and shape. -/
def result {α} (c0 : Container α) (v : List α) : Option (Container α) :=
  match c0 with
  | .real _ => (unravel v (workShape c0)).map Container.real
  | .cplx _ => ((unravel v (workShape c0)).bind joinVal).map Container.cplx

/-- the function handed to scipy (`min_func` without the float conversion):
    `func_(_unravel(v, x0_shape))` with `func_ = func ∘ _join_real_imag` for a complex start -/
def objective {α ρ} (func : Container α → ρ) (c0 : Container α) (v : List α) : Option ρ :=
  (result c0 v).map func

/-- … with the extra positional arguments of `args=` handed through unchanged
    (`wrapper(x, *args)` → `val_func(_unravel(x, shape), *args)`; `func_ = lambda x, *args: func(join(x), *args)`) -/
def objectiveArgs {α ρ A} (func : Container α → A → ρ) (c0 : Container α) (v : List α) (args : A) : Option ρ :=
  (result c0 v).map (fun c => func c args)

/-- `minimize_scalar`'s wrapper `f`: `y.item() if y.ndim == 0 else y[0].item()` — the value of a
    0-d result; otherwise the single entry of the first slice (`none` = the real code raises) -/
def scalarOf {α} (y : Arr α) : Option α :=
  match y.shape with
  | [] => y.data[0]?
  | k :: s =>
    if k = 0 then none                      -- `y[0]`: IndexError
    else if sizeOf s = 1 then y.data[0]?    -- `y[0].item()`
    else none                               -- `.item()` of an array with several entries: ValueError

/-- methods for which `minimize` passes the jax gradient (`jac=True`).  scipy resolves method names
    case-insensitively (`meth = method.lower()`), and so does the routing (`method.lower() in …`) -/
def gradMethodsLower : List String :=
  ["cg", "bfgs", "newton-cg", "l-bfgs-b", "tnc", "slsqp", "dogleg", "trust-ncg", "trust-krylov",
   "trust-exact", "trust-constr"]

def usesGradLower (m : String) : Bool := gradMethodsLower.contains m

/-- `method.lower() in …`; `lower` is Python's `str.lower` (`String.toLower` in the driver) -/
def usesGrad (lower : String → String) (method : String) : Bool := usesGradLower (lower method)

/-- the `method` argument: a solver name or a user-supplied callable (scipy's custom-minimiser protocol) -/
inductive Method where
  | name : String → Method
  | callable : Method

/-- `isinstance(method, str) and method.lower() in …`: a callable method never gets the jax gradient -/
def usesGradM (lower : String → String) : Method → Bool
  | .name m => usesGrad lower m
  | .callable => false

/-- the pass-through arguments of `minimize`, as arbitrary Python values -/
structure MinArgs (V : Type) where
  args : V
  method : V
  hess : V
  hessp : V
  bounds : V
  constraints : V
  tol : V
  callback : V
  options : V

/-- the keyword arguments of the inner call `spopt.minimize(min_func, x0=…, args=…, jac=…, …)` -/
structure ScipyCall (V : Type) where
  jac : Bool
  args : V
  method : V
  hess : V
  hessp : V
  bounds : V
  constraints : V
  tol : V
  callback : V
  options : V

/-- the inner call of `minimize`: `jac` from the routing, everything else handed on as it is — no
    truth test, no default substituted (`tol=0.0`, `options={}`, `bounds=[]` arrive unchanged) -/
def scipyCall {V : Type} (lower : String → String) (m : Method) (a : MinArgs V) : ScipyCall V :=
  { jac := usesGradM lower m, args := a.args, method := a.method, hess := a.hess, hessp := a.hessp,
    bounds := a.bounds, constraints := a.constraints, tol := a.tol, callback := a.callback,
    options := a.options }

/-- keywords of the inner calls, in source order -/
def minimizeCallKeywords : List String :=
  ["x0", "args", "jac", "method", "hess", "hessp", "bounds", "constraints", "tol", "callback", "options"]
def minimizeScalarCallKeywords : List String :=
  ["fun", "bracket", "bounds", "args", "method", "tol", "options"]

/-- all solvers of `scipy.optimize.minimize` (lower case) and the ones that take no gradient -/
def scipyMethods : List String :=
  ["nelder-mead", "powell", "cg", "bfgs", "newton-cg", "l-bfgs-b", "tnc", "cobyla", "cobyqa", "slsqp",
   "trust-constr", "dogleg", "trust-ncg", "trust-exact", "trust-krylov"]
def scipyNoGradient : List String := ["nelder-mead", "powell", "cobyla", "cobyqa"]

/-- dtypes of starting points -/
inductive DT where
  | f32 | f64 | c64 | c128 | i32 | i64 | bool
deriving Repr, DecidableEq

/-- `jnp.issubdtype(x0.dtype, jnp.inexact)`: the starting points `minimize` takes.  An integer or
    boolean start is rejected (TypeError): kept as the dtype of the optimization variable it would
    truncate every trial point before `func` sees it (finding `minimize-integer-start`). -/
def DT.isInexact : DT → Bool
  | .f32 | .f64 | .c64 | .c128 => true
  | _ => false

/-- what `res.x.astype(x0_dtype)` did to scipy's float64 vector for an integer start before the
    repair: truncation toward zero (`truncOld` of the scalar type) -/
def resultIntOld {α} (truncOld : α → α) (v : List α) : List α := v.map truncOld

def DT.isComplex : DT → Bool
  | .c64 | .c128 => true
  | _ => false

/-- dtype of the real work array: `x0.dtype` after the split (`real`/`imag` of complex64 are float32) -/
def DT.work : DT → DT
  | .c64 => .f32 | .c128 => .f64 | d => d

/-- `x[0] + 1j * x[1]` on float32 / float64 data -/
def DT.join : DT → DT
  | .f32 => .c64 | .f64 => .c128 | d => d

/-- dtype of `res.x`: scipy's float64 result is cast to the work dtype, then joined -/
def resultDType (d : DT) : DT := if d.isComplex then d.work.join else d.work

end Scico.Wrap
