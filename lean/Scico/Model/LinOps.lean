/-
  Concrete linear maps of scico's built-in operators (DESIGN §4.2 `Model/LinOps`, §5.5).
  Mathlib-free, executable at `Float`, reasoned about over a generic (commutative) ring / field.

  Conventions.  Vectors are *size-erased*: `V α = Nat → α` with the length carried separately;
  N-d arrays are their row-major flattening plus a shape.  A dense matrix is `M α = Nat → Nat → α`
  (row, column).  For every family there are two definitions:

    * `…Eval`   – the map as the code builds it (e.g. `snp.diff` after prepending / appending a
                  slice or a zero; a sum over the filter taps; an index gather; a scatter-add);
    * `…Matrix` – the *documented* map written independently as a dense matrix (the banded matrix
                  of the class docstring, the circulant, the selection matrix, `I ⊗ A ⊗ I`, …).

  `Scico/Proofs/LinOps*.lean` prove `…Eval = mulVec …Matrix` for all sizes and options.
-/
import Scico.Common.Scalar
import Scico.Model.Shape

namespace Scico.LinOps

abbrev V (α : Type) := Nat → α
abbrev M (α : Type) := Nat → Nat → α

section Basic
variable {α : Type}

/-- `Σ_{j<n} f j`, accumulated left to right -/
def sumTo [Add α] [Zero α] : Nat → (Nat → α) → α
  | 0, _ => 0
  | n + 1, f => sumTo n f + f n

/-- matrix–vector product over the first `n` columns -/
def mulVec [Add α] [Mul α] [Zero α] (A : M α) (n : Nat) (x : V α) : V α :=
  fun i => sumTo n (fun j => A i j * x j)

/-- inner product of the first `n` entries (no conjugation: real / bilinear form) -/
def dotTo [Add α] [Mul α] [Zero α] (n : Nat) (x y : V α) : α := sumTo n (fun i => x i * y i)

/-- concatenation: the first `na` entries come from `a`, the rest from `b` -/
def cat (a : V α) (na : Nat) (b : V α) : V α := fun i => if i < na then a i else b (i - na)

/-- `numpy.diff` along a 1-d array -/
def diff [Sub α] (c : V α) : V α := fun i => c (i + 1) - c i

/-- product of a shape -/
def prodL : List Nat → Nat
  | [] => 1
  | d :: ds => d * prodL ds

end Basic

/-! ## Finite differences (`scico/linop/_diff.py`) -/

/-- the values `None`, `0`, `1` of the `prepend` / `append` arguments -/
inductive Ext | no | b0 | b1
deriving DecidableEq, Repr

structure FDCfg where
  prepend : Ext
  append : Ext
  circular : Bool
deriving DecidableEq, Repr

/-- the constructor raises `ValueError` when `circular` is combined with `prepend`/`append` -/
def FDCfg.valid (c : FDCfg) : Bool := !(c.circular && (c.prepend != .no || c.append != .no))

section FD
variable {α : Type}

/-- what `SingleAxisFiniteDifference._eval` passes as `prepend=` to `snp.diff`: (values, length) -/
def fdPre [Zero α] (c : FDCfg) (x : V α) : V α × Nat :=
  if c.circular then (x, 0)
  else match c.prepend with
    | .no => (x, 0)
    | .b0 => (fun _ => x 0, 1)        -- `x[0:1]`: a zero is prepended to the difference array
    | .b1 => (fun _ => 0, 1)          -- scalar `0`: the initial value is prepended to the differences

/-- what `_eval` passes as `append=` -/
def fdApp [Zero α] (c : FDCfg) (n : Nat) (x : V α) : V α × Nat :=
  if c.circular then (fun _ => x 0, 1)   -- `x[0:1]` appended: difference across the boundary
  else match c.append with
    | .no => (x, 0)
    | .b0 => (fun _ => x (n - 1), 1)  -- `x[-1:]`
    | .b1 => (fun _ => 0, 1)

/-- `SingleAxisFiniteDifference._eval` on a 1-d array of length `n`:
    `snp.diff(concatenate(prepend, x, append))` -/
def fdEval [Zero α] [Sub α] (c : FDCfg) (n : Nat) (x : V α) : V α :=
  let p := fdPre c x
  let a := fdApp c n x
  diff (cat p.1 p.2 (cat x n a.1))

/-- the `output_shape` entry the constructor declares on the differenced axis -/
def fdOutLen (c : FDCfg) (n : Nat) : Nat :=
  if c.circular then n
  else n + (if c.prepend = .no then 0 else 1) + (if c.append = .no then 0 else 1) - 1

/-- column of the `+1` entry of row `i` of the documented matrix (`none`: no such entry) -/
def fdPlus (c : FDCfg) (n i : Nat) : Option Nat :=
  if c.circular then some ((i + 1) % n)
  else
    let off := if c.prepend = .no then 0 else 1
    if i < off then (if c.prepend = .b1 then some 0 else none)   -- first row `1 0 0 …` / zero row
    else if i - off + 1 < n then some (i - off + 1)              -- band rows `… -1 1 …`
    else none                                                     -- last row `… 0 -1` / zero row

/-- column of the `-1` entry of row `i` of the documented matrix -/
def fdMinus (c : FDCfg) (n i : Nat) : Option Nat :=
  if c.circular then some i
  else
    let off := if c.prepend = .no then 0 else 1
    if i < off then none
    else if i - off + 1 < n then some (i - off)
    else (if c.append = .b1 then some (n - 1) else none)

/-- the banded matrix of the class docstring, for every boundary option -/
def fdMatrix [Zero α] [One α] [Sub α] (c : FDCfg) (n : Nat) : M α := fun i j =>
  (if fdPlus c n i = some j then (1 : α) else 0) - (if fdMinus c n i = some j then (1 : α) else 0)

end FD


/-! ## Two-point circular sum (`scico/functional/_tvnorm.py: SingleAxisFiniteSum`, used by the Haar transform) -/

section FSum
variable {α : Type}

/-- `SingleAxisFiniteSum._eval`: `x + roll(x, -1)` on a 1-d array of length `n` -/
def fsumEval [Add α] (n : Nat) (x : V α) : V α := fun i => x i + x ((i + 1) % n)

/-- documented matrix: ones on the diagonal and the (circular) superdiagonal -/
def fsumMatrix [Add α] [Zero α] [One α] (n : Nat) : M α := fun i j =>
  (if j = i then (1 : α) else 0) + (if j = (i + 1) % n then (1 : α) else 0)

end FSum

/-! ## Lifting a 1-d map to one axis of an N-d row-major array -/

section Axis
variable {α : Type}

/-- apply `f` (length `n` ↦ length `m`) along the middle axis of an `(outer, n, inner)` row-major
    array; the result is an `(outer, m, inner)` row-major array -/
def alongAxis (n m inner : Nat) (f : V α → V α) (x : V α) : V α := fun p =>
  f (fun k => x ((p / (m * inner) * n + k) * inner + p % inner)) (p / inner % m)

/-- the documented lifted matrix `I_outer ⊗ A ⊗ I_inner` (`A` is `m × n`) -/
def kronAxis [Zero α] (n m inner : Nat) (A : M α) : M α := fun p q =>
  if p / (m * inner) = q / (n * inner) ∧ p % inner = q % inner then A (p / inner % m) (q / inner % n) else 0

/-- row-major flat index of a multi-index -/
def ravel : List Nat → List Nat → Nat
  | _ :: ds, i :: is => i * prodL ds + ravel ds is
  | _, _ => 0

/-- multi-index of a flat index -/
def unravel : List Nat → Nat → List Nat
  | [], _ => []
  | _ :: ds, k => (k / prodL ds) :: unravel ds (k % prodL ds)

/-- a multi-index is inside a shape -/
def InBounds : List Nat → List Nat → Prop
  | [], [] => True
  | d :: ds, i :: is => i < d ∧ InBounds ds is
  | _, _ => False

end Axis

/-! ## Stacks (`operator/_stack.py`, `linop/_stack.py`) -/

section Stack
variable {α : Type}

/-- `VerticalStack._eval`: the outputs `A_k x` (lengths `m_k`) one after the other
    (`snp.stack` of equal shapes and a `BlockArray` have the same flat layout) -/
def vstackEval [Add α] [Mul α] [Zero α] (ops : List (M α × Nat)) (n : Nat) (x : V α) : V α :=
  match ops with
  | [] => fun _ => 0
  | (A, m) :: rest => cat (mulVec A n x) m (vstackEval rest n x)

/-- the documented block column `(A_1; A_2; …)` -/
def vstackMatrix [Zero α] (ops : List (M α × Nat)) : M α :=
  match ops with
  | [] => fun _ _ => 0
  | (A, m) :: rest => fun i j => if i < m then A i j else vstackMatrix rest (i - m) j

/-- `DiagonalStack._eval`: block `k` of the input (length `n_k`) goes through `A_k` -/
def dstackEval [Add α] [Mul α] [Zero α] (ops : List (M α × Nat × Nat)) (x : V α) : V α :=
  match ops with
  | [] => fun _ => 0
  | (A, m, n) :: rest => cat (mulVec A n x) m (dstackEval rest (fun j => x (j + n)))

/-- the documented block-diagonal matrix `diag(A_1, A_2, …)` -/
def dstackMatrix [Zero α] (ops : List (M α × Nat × Nat)) : M α :=
  match ops with
  | [] => fun _ _ => 0
  | (A, m, n) :: rest => fun i j =>
      if i < m then (if j < n then A i j else 0)
      else (if j < n then 0 else dstackMatrix rest (i - m) (j - n))

def totalRows {β : Type} (ops : List (β × Nat)) : Nat := (ops.map (·.2)).sum
def dRows {β : Type} (ops : List (β × Nat × Nat)) : Nat := (ops.map (·.2.1)).sum
def dCols {β : Type} (ops : List (β × Nat × Nat)) : Nat := (ops.map (·.2.2)).sum

end Stack


/-! ## Multi-axis finite difference = vertical stack of single-axis operators -/

section FDNd
variable {α : Type}

/-- `FiniteDifference._eval`: the `VerticalStack` of one `SingleAxisFiniteDifference` per listed axis;
    an axis is described by `(outer, n, inner)` (sizes before / on / after it) -/
def fdNdEval [Zero α] [Sub α] (c : FDCfg) (specs : List (Nat × Nat × Nat)) (x : V α) : V α :=
  match specs with
  | [] => fun _ => 0
  | (outer, n, inner) :: rest =>
      cat (alongAxis n (fdOutLen c n) inner (fdEval c n) x) (outer * fdOutLen c n * inner) (fdNdEval c rest x)

/-- documented matrix: block column of the Kronecker-lifted banded matrices -/
def fdNdMatrix [Zero α] [One α] [Sub α] (c : FDCfg) (specs : List (Nat × Nat × Nat)) : M α :=
  vstackMatrix (specs.map (fun s => (kronAxis s.2.1 (fdOutLen c s.2.1) s.2.2 (fdMatrix c s.2.1), s.1 * fdOutLen c s.2.1 * s.2.2)))

def fdNdRows (c : FDCfg) (specs : List (Nat × Nat × Nat)) : Nat :=
  (specs.map (fun s => s.1 * fdOutLen c s.2.1 * s.2.2)).sum

end FDNd

/-! ## Circular convolution (`scico/linop/_circconv.py`), signal domain, integer centre -/

section Circ
variable {α : Type}

/-- `fftn(h, s=n)` zero-pads the filter (length `k ≤ n`) to the signal length -/
def padTo [Zero α] (h : V α) (k : Nat) : V α := fun m => if m < k then h m else 0

/-- circular convolution with the filter centre at integer index `c`:
    `y[i] = Σ_{m<k} h[m] · x[(i + c − m) mod n]` (sum over the filter taps) -/
def circEval [Add α] [Mul α] [Zero α] (h : V α) (k n c : Nat) (x : V α) : V α := fun i =>
  sumTo k (fun m => h m * x ((i + c + n - m) % n))

/-- the documented circulant matrix `H[i,j] = h_pad[(i + c − j) mod n]` -/
def circMatrix [Zero α] (h : V α) (k n c : Nat) : M α := fun i j => padTo h k ((i + c + n - j) % n)

/-- an `n × n` matrix is shift invariant (commutes with the cyclic shift) -/
def ShiftInvariant (A : M α) (n : Nat) : Prop :=
  ∀ i j, i < n → j < n → A ((i + 1) % n) ((j + 1) % n) = A i j

/-- `CircularConvolve.from_operator`: impulse response `A e_d` used as a filter with `h_center = d` -/
def fromOperatorMatrix [Zero α] (A : M α) (n d : Nat) : M α := circMatrix (fun i => A i d) n n d

end Circ

/-! ## Linear convolution and its output modes (`scico/linop/_convolve.py`) -/

inductive ConvMode | full | valid | same
deriving DecidableEq, Repr

section Conv
variable {α : Type}

/-- `convolve(x, h, 'full')[i] = Σ_{m<k} h[m] · x[i − m]` with `x` read as zero outside `[0,n)` -/
def convFullEval [Add α] [Mul α] [Zero α] (h : V α) (k : Nat) (x : V α) (n : Nat) : V α := fun i =>
  sumTo k (fun m => if m ≤ i ∧ i - m < n then h m * x (i - m) else 0)

/-- documented Toeplitz matrix of the full convolution (`(n+k−1) × n`) -/
def convFullMatrix [Zero α] (h : V α) (k : Nat) : M α := fun i j => if j ≤ i ∧ i - j < k then h (i - j) else 0

/-- first index of the `full` output kept by a mode; `n1`, `n2` are the lengths of the first and
    second argument of `convolve` (`same` is centred with respect to `full`, size of the first) -/
def convStart : ConvMode → Nat → Nat → Nat
  | .full, _, _ => 0
  | .same, _, n2 => (n2 - 1) / 2
  | .valid, n1, n2 => min n1 n2 - 1

def convLen : ConvMode → Nat → Nat → Nat
  | .full, n1, n2 => n1 + n2 - 1
  | .same, n1, _ => n1
  | .valid, n1, n2 => max n1 n2 - min n1 n2 + 1

/-- `Convolve._eval = convolve(x, h, mode)`, linear in the first argument `x` (length `n`) -/
def convEval [Add α] [Mul α] [Zero α] (mode : ConvMode) (h : V α) (k : Nat) (x : V α) (n : Nat) : V α :=
  fun i => convFullEval h k x n (i + convStart mode n k)

def convMatrix [Zero α] (mode : ConvMode) (h : V α) (k n : Nat) : M α :=
  fun i j => convFullMatrix h k (i + convStart mode n k) j

/-- `ConvolveByX._eval = convolve(x, h, mode)`, linear in the second argument `h` (length `n`),
    `x` fixed of length `k`: same Toeplitz matrix, but `same` keeps the size of the *fixed* array -/
def convByXMatrix [Zero α] (mode : ConvMode) (xfix : V α) (k n : Nat) : M α :=
  fun i j => convFullMatrix xfix k (i + convStart mode k n) j

end Conv

/-! ## Index maps (`scico/linop/_func.py`): Slice, Pad, Crop, Sum, Transpose, Reshape -/

section Index
variable {α : Type}

/-- `x[start:stop:step]` on one axis, after `slice.indices`: position `t` reads `start + t·step` -/
def sliceEval (start step : Int) (x : V α) : V α := fun t => x (start + t * step).toNat

/-- documented selection matrix -/
def sliceMatrix [Zero α] [One α] (start step : Int) : M α := fun t j =>
  if (j : Int) = start + t * step then 1 else 0

/-- `snp.pad(x, (lo, hi))` (mode `constant`, zeros) on a 1-d array of length `n` -/
def padEval [Zero α] (lo n : Nat) (x : V α) : V α := fun i =>
  if lo ≤ i ∧ i < lo + n then x (i - lo) else 0

def padMatrix [Zero α] [One α] (lo : Nat) : M α := fun i j => if i = j + lo then 1 else 0

/-- `Crop((lo, hi))`: the map the code obtains as the adjoint of the zero pad -/
def cropEval (lo : Nat) (y : V α) : V α := fun i => y (i + lo)

def cropMatrix [Zero α] [One α] (lo : Nat) : M α := fun i j => if j = i + lo then 1 else 0

/-- `Crop.__init__`: `output_shape = 2·input_shape − pad(zeros(input_shape)).shape` (as integers) -/
def cropOutLen (p lo hi : Nat) : Int := 2 * (p : Int) - ((p + lo + hi : Nat) : Int)

/-- `snp.sum` over the middle axis of an `(outer, n, inner)` array -/
def sumAxisEval [Add α] [Zero α] (n inner : Nat) (x : V α) : V α := fun p =>
  sumTo n (fun k => x ((p / inner * n + k) * inner + p % inner))

def sumAxisMatrix [Zero α] [One α] (n inner : Nat) : M α := fun p q =>
  if p / inner = q / (n * inner) ∧ p % inner = q % inner then 1 else 0

/-- swap the two middle axes of an `(outer, a, b, inner)` row-major array (result `(outer, b, a, inner)`) -/
def swapAxesEval (a b inner : Nat) (x : V α) : V α := fun p =>
  let r := p % inner
  let i := p / inner % a
  let j := p / (inner * a) % b
  let o := p / (inner * a * b)
  x (((o * a + i) * b + j) * inner + r)

/-- general `transpose(x, perm)`: output flat index `p` (shape `perm.map dims[·]`) reads the input
    element whose multi-index `i` satisfies `i[perm[a]] = j[a]` -/
def transposeEval (dims perm : List Nat) (x : V α) : V α := fun p =>
  let odims := perm.map (fun a => dims.getD a 1)
  let j := unravel odims p
  let i := (List.range dims.length).map (fun b => j.getD (perm.idxOf b) 0)
  x (ravel dims i)

end Index

/-! ## X-ray projector accumulation (`scico/linop/xray/_xray.py: _project`) -/

section XRay
variable {α : Type}

/-- `jnp.where(i >= 0, i, ny)`: a negative bin index would wrap around, so it is sent off the detector -/
def fixNeg (ny : Nat) (i : Int) : Int := if 0 ≤ i then i else ny

/-- `XRayTransform2D._project` (since e359064): two scatter-adds (out-of-range updates are dropped) of `w·x` at bin
    `first = fixNeg(I)` and of `(1−w)·x` at bin `second = fixNeg(I + 1)` — each bin treated on its own -/
def xrayProject [Add α] [Mul α] [Sub α] [Zero α] [One α] (np : Nat) (I : Nat → Int) (w x : V α) (ny : Nat) : V α :=
  fun b => if b < ny then
    sumTo np (fun p => (if fixNeg ny (I p) = b then w p * x p else 0)
                      + (if fixNeg ny (I p + 1) = b then (1 - w p) * x p else 0))
  else 0

/-- the scatter of the tree before e359064: the negative first bin was replaced BEFORE `+ 1`, so a pixel whose
    first bin is `−1` lost its share of bin `0` as well (fixed finding `xray-left-edge-drop`) -/
def xrayProjectCoupled [Add α] [Mul α] [Sub α] [Zero α] [One α] (np : Nat) (I : Nat → Int) (w x : V α) (ny : Nat) : V α :=
  fun b => if b < ny then
    sumTo np (fun p => (if fixNeg ny (I p) = b then w p * x p else 0)
                      + (if fixNeg ny (I p) + 1 = b then (1 - w p) * x p else 0))
  else 0

/-- documented projection matrix entry: pixel `p` contributes `w` to bin `I p` and `1 − w` to the next -/
def xrayMatrix [Add α] [Sub α] [Zero α] [One α] (I : Nat → Int) (w : V α) : M α := fun b p =>
  (if I p = b then w p else 0) + (if I p + 1 = b then 1 - w p else 0)

end XRay

/-! ## DFT: shape bookkeeping (`scico/linop/_dft.py`) and the 1-d transform -/

structure DFTCfg where
  inShape : List Nat
  axes : Option (List Int)
  axesShape : Option (List Nat)
deriving Repr

/-- Python list indexing with a possibly negative index (`l[i]`, `l[i] = v`), valid for `−len ≤ i < len` -/
def pyIx (len : Nat) (i : Int) : Nat := (if i < 0 then (len : Int) + i else i).toNat

/-- result of `DFT.__init__`: (`self.axes`, `output_shape`, `self.inv_axes_shape`);
    `none` = an exception (`ValueError` for a length mismatch, `IndexError` for an axis outside
    `[−ndim, ndim)`, more trailing axes requested than the array has).  `axes` may be negative: the
    constructor uses them only as Python indices into the shape lists. -/
def dftInit (c : DFTCfg) : Option (Option (List Int) × List Nat × Option (List Nat)) :=
  let nd := c.inShape.length
  let ok (ax : List Int) : Bool := ax.all (fun a => decide (-(nd : Int) ≤ a ∧ a < nd))
  match c.axes, c.axesShape with
  | some ax, some s => if ax.length ≠ s.length then none else if !ok ax then none else
      some (some ax, ((ax.map (pyIx nd)).zip s).foldl (fun o p => o.set p.1 p.2) c.inShape,
        some (ax.map (fun i => c.inShape.getD (pyIx nd i) 0)))
  | none, some s => if nd < s.length then none else
      let ax : List Int := (List.range s.length).map (fun k => ((nd - s.length + k : Nat) : Int))
      some (some ax, ((ax.map (pyIx nd)).zip s).foldl (fun o p => o.set p.1 p.2) c.inShape,
        some (ax.map (fun i => c.inShape.getD (pyIx nd i) 0)))
  | ax, none => some (ax, c.inShape, none)

/-- shape returned by `inv` on an array of shape `out`: `ifftn(z, s=inv_axes_shape, axes=axes)` -/
def dftInvShape (axes : Option (List Int)) (out : List Nat) (invAxesShape : Option (List Nat)) : List Nat :=
  match axes, invAxesShape with
  | some ax, some s => ((ax.map (pyIx out.length)).zip s).foldl (fun o p => o.set p.1 p.2) out
  | _, _ => out

section DFT1
variable {α : Type}

/-- `fft(x, n=m)` of a length-`n` array: crop / zero-pad to `m`, then the `m`-point transform with
    root `ω` (`ω = exp(−2πi/m)`), scaled by `s` (`norm`) -/
def dftEval [Add α] [Mul α] [Zero α] [One α] (ω s : α) (n m : Nat) (x : V α) : V α := fun k =>
  s * sumTo m (fun j => (if j < n then x j else 0) * npow ω (j * k))
where npow (a : α) : Nat → α
  | 0 => 1
  | e + 1 => npow a e * a

/-- `DFT.inv` as coded: `ifft(z, n=n)` crops / zero-pads the *spectrum* (length `m`) to `n` and applies
    the `n`-point inverse with root `ω'` (`exp(+2πi/n)`), scaled by `s'` -/
def dftInvEval [Add α] [Mul α] [Zero α] [One α] (ω' s' : α) (n m : Nat) (z : V α) : V α := fun j =>
  s' * sumTo n (fun k => (if k < m then z k else 0) * dftEval.npow ω' (j * k))

/-- the inverse the documentation promises for `m ≥ n`: `m`-point inverse, then crop to `n` -/
def dftInvCropEval [Add α] [Mul α] [Zero α] [One α] (ωinv s' : α) (m : Nat) (z : V α) : V α := fun j =>
  s' * sumTo m (fun k => z k * dftEval.npow ωinv (j * k))

end DFT1

/-! ## Transverse frequency grid (`scico/linop/optics.py: radial_transverse_frequency`) -/

/-- embedding of the naturals into the scalar type (`Nat.toFloat` at run time, `Nat.cast` in proofs) -/
class HasNat (α : Type) where
  nat : Nat → α

instance : HasNat Float := ⟨Nat.toFloat⟩

section Freq
variable {α : Type}

/-- `numpy.fft.fftfreq(n, d)[i]` as numpy builds it: `arange(0, (n−1)//2+1)` then
    `arange(−(n//2), 0)`, times `1/(n·d)` -/
def fftfreq [HasNat α] [Sub α] [Mul α] [Div α] (n : Nat) (d : α) (i : Nat) : α :=
  let N := (n - 1) / 2 + 1
  (if i < N then HasNat.nat i else HasNat.nat (i - N) - HasNat.nat (n / 2)) / (HasNat.nat n * d)

/-- documented signed frequency: `i/(n d)` for `i < ⌈n/2⌉`, `(i − n)/(n d)` above -/
def signedFreq [HasNat α] [Sub α] [Mul α] [Div α] (n : Nat) (d : α) (i : Nat) : α :=
  (if 2 * i < n then HasNat.nat i else HasNat.nat i - HasNat.nat n) / (HasNat.nat n * d)

/-- squared radial frequency (without the factor `(2π)²`) at array index `(a, b)` for
    `input_shape = (n0, n1)`, `dx = (d0, d1)`, as DOCUMENTED: axis 0 ↔ `(n0, d0)`, axis 1 ↔ `(n1, d1)` -/
def kpSqDoc [HasNat α] [Add α] [Sub α] [Mul α] [Div α] (n0 n1 : Nat) (d0 d1 : α) (a b : Nat) : α :=
  fftfreq n0 d0 a * fftfreq n0 d0 a + fftfreq n1 d1 b * fftfreq n1 d1 b

/-- the grid of the pinned tree: `kp = sqrt(kx[None,:]² + ky[:,None]²)` — an `(n1, n0)` array whose
    axis 0 carries the `(n1, d1)` frequencies -/
def kpSqPinned [HasNat α] [Add α] [Sub α] [Mul α] [Div α] (n0 n1 : Nat) (d0 d1 : α) (a b : Nat) : α :=
  fftfreq n0 d0 b * fftfreq n0 d0 b + fftfreq n1 d1 a * fftfreq n1 d1 a

end Freq


/-! # Round 2 additions -/

/-- `(outer, n, inner)` of axis `a` of a row-major array of shape `shape`: what `linop_over_axes` hands to one
    `SingleAxisFiniteDifference` in terms of flat indices -/
def axisSpec (shape : List Nat) (a : Nat) : Nat × Nat × Nat :=
  (prodL (shape.take a), shape.getD a 1, prodL (shape.drop (a + 1)))

/-- `scico.numpy.util.normalize_axes(axes, shape)` as documented: `None` = all axes, negative values count from
    the last axis; `none` = `ValueError`: empty tuple, an axis outside `[−ndim, ndim)`, a repeated axis.
    (The pinned code does not reject `a < −ndim`: known finding `axes-negative-out-of-range`.) -/
def normAxes (nd : Nat) (axes : Option (List Int)) : Option (List Nat) :=
  match axes with
  | none => some (List.range nd)
  | some ax =>
      if ax.isEmpty then none
      else if ax.all (fun a => decide (-(nd : Int) ≤ a ∧ a < nd)) then
        (if (ax.map (pyIx nd)).Nodup then some (ax.map (pyIx nd)) else none)
      else none

/-! ## Circular convolution in the DFT domain: any spectrum, the centre-shift phases -/

section CircSpec
variable {α : Type}

/-- `CircularConvolve._eval` on one axis: `ifft(h_dft · fft(x))` for an arbitrary spectrum `h_dft = H`
    (`ω = exp(−2πi/n)`, `ωinv` its inverse, `s = 1/n`) -/
def circSpecEval [Add α] [Mul α] [Zero α] [One α] (ω ωinv s : α) (n : Nat) (H x : V α) : V α :=
  dftInvCropEval ωinv s n (fun f => H f * dftEval ω 1 n n x f)

/-- the shift phases `CircularConvolve.__init__` multiplies into `h_dft`, for `offset k = −h_center` on an axis
    of length `s`, frequency bin `f`:
    `np.select([f < s/2, f == s/2, f > s/2], [exp(−i k 2π f/s), cos(kπ), exp(i k 2π (s − f)/s)])`,
    written with `E t = exp(2πi t)` and `C t = cos(2π t)` (`nat` embeds the integers of `arange`) -/
def shiftPhase {β : Type} [Neg β] [Mul β] [Div β] (E C : β → α) (nat : Nat → β) (k : β) (s f : Nat) : α :=
  if 2 * f < s then E (-(k * nat f / nat s))
  else if 2 * f = s then C (k / nat 2)
  else E (k * nat (s - f) / nat s)


/-- `shift = math.prod(np.ix_(*shifts))` of `CircularConvolve.__init__`: the product over the axes of the 1-d
    phases, at the flat (row-major) frequency index `p` of the axes `dims`; `ks[a] = −h_center[a]` -/
def shiftPhaseNd {β : Type} [Neg β] [Mul β] [Div β] [Mul α] [One α] (E C : β → α) (nat : Nat → β) :
    List β → List Nat → Nat → α
  | k :: ks, n :: ds, p => shiftPhase E C nat k n (p / prodL ds) * shiftPhaseNd E C nat ks ds (p % prodL ds)
  | _, _, _ => 1

end CircSpec

/-! ## N-d DFT and N-d circular convolution (row-major flat arrays, recursion over the axes) -/

section Nd
variable {α : Type}

/-- slab `i` of a row-major `(n, R)` array -/
def slab (R i : Nat) (x : V α) : V α := fun r => x (i * R + r)

/-- unnormalised N-d DFT over ALL axes of a row-major array of shape `dims` (`fftn`), root `ws[a]` on axis `a`:
    `X[k] = Σ_j x[j] · Π_a ws[a]^(j_a k_a)`, written axis by axis -/
def dftNd [Add α] [Mul α] [Zero α] [One α] : List Nat → List α → V α → V α
  | n :: ds, w :: ws, x => fun p =>
      sumTo n (fun j => dftNd ds ws (slab (prodL ds) j x) (p % prodL ds) * dftEval.npow w (j * (p / prodL ds)))
  | _, _, x => x

/-- `fftn(h, s=dims)` first zero-pads the filter (shape `ks`) to the shape `dims` -/
def padNd [Zero α] : List Nat → List Nat → V α → V α
  | k :: ks, _ :: ds, h => fun p =>
      if p / prodL ds < k then padNd ks ds (slab (prodL ks) (p / prodL ds) h) (p % prodL ds) else 0
  | _, _, h => h

/-- product over the axes of the integer-centre phases `wis[a]^(c_a f_a)` (`wis[a] = exp(+2πi/n_a)`) -/
def phaseNd [Mul α] [One α] : List Nat → List α → List Nat → Nat → α
  | _ :: ds, wi :: ws, c :: cs, p => dftEval.npow wi (c * (p / prodL ds)) * phaseNd ds ws cs (p % prodL ds)
  | _, _, _, _ => 1

/-- signal-domain N-d circular convolution with integer centres `cs`:
    `y[i] = Σ_{m < ks} h[m] · x[(i + c − m) mod dims]` (sum over the filter taps, axis by axis) -/
def circNd [Add α] [Mul α] [Zero α] : List Nat → List Nat → List Nat → V α → V α → V α
  | k :: ks, n :: ds, c :: cs, h, x => fun p =>
      sumTo k (fun m => circNd ks ds cs (slab (prodL ks) m h)
        (slab (prodL ds) ((p / prodL ds + c + n - m) % n) x) (p % prodL ds))
  | _, _, _, h, x => fun _ => h 0 * x 0

/-- `CircularConvolve._eval` over `ndims = dims.length` axes: `ifftn(h_dft · fftn(x))` (`s = 1/Π dims`) -/
def circNdSpecEval [Add α] [Mul α] [Zero α] [One α] (dims : List Nat) (ws wis : List α) (s : α) (H x : V α) : V α :=
  fun p => s * dftNd dims wis (fun f => H f * dftNd dims ws x f) p

/-- flat index of the multi-index `(i + c − j) mod dims` -/
def shiftIdx : List Nat → List Nat → Nat → Nat → Nat
  | n :: ds, c :: cs, p, q =>
      ((p / prodL ds + c + n - q / prodL ds) % n) * prodL ds + shiftIdx ds cs (p % prodL ds) (q % prodL ds)
  | _, _, _, _ => 0

/-- the documented N-d circulant `H[i, j] = h_pad[(i + c − j) mod dims]` -/
def circMatrixNd [Zero α] (ks dims cs : List Nat) (h : V α) : M α :=
  fun p q => padNd ks dims h (shiftIdx dims cs p q)

/-- multi-index form of the circulant shift: `(i + c − j) mod dims`, axis by axis -/
def shiftMI : List Nat → List Nat → List Nat → List Nat → List Nat
  | n :: ds, c :: cs, i :: is, j :: js => ((i + c + n - j) % n) :: shiftMI ds cs is js
  | _, _, _, _ => []

end Nd

/-! ## DFT over a subset of the axes -/

section DFTAxes
variable {α : Type}
/-- unnormalised DFT over a SUBSET of the axes of a row-major array of shape `dims` (`fftn(x, axes=…)`):
    `ws[a] = some ω` on a transformed axis (root `ω`), `none` on an axis that is left alone -/
def dftAxes [Add α] [Mul α] [Zero α] [One α] : List Nat → List (Option α) → V α → V α
  | n :: ds, some w :: ws, x => fun p =>
      sumTo n (fun j => dftAxes ds ws (slab (prodL ds) j x) (p % prodL ds) * dftEval.npow w (j * (p / prodL ds)))
  | _ :: ds, none :: ws, x => fun p => dftAxes ds ws (slab (prodL ds) (p / prodL ds) x) (p % prodL ds)
  | _, _, x => x

/-- number of points of the transform: product of the sizes of the transformed axes -/
def dftAxesSize {β : Type} : List Nat → List (Option β) → Nat
  | n :: ds, some _ :: ws => n * dftAxesSize ds ws
  | _ :: ds, none :: ws => dftAxesSize ds ws
  | _, _ => 1
end DFTAxes

/-! ## N-d linear convolution and its output modes -/

section ConvNd
variable {α : Type}

/-- N-d `convolve(x, h, mode)` restricted to an output window: `starts[a]` is the first index of the `full`
    output kept on axis `a`, `olens[a]` the number of kept outputs (row-major flat indices throughout);
    `y[i] = Σ_m h[m] · x[i + start − m]` with `x` read as zero outside its shape `dims` -/
def convNdW [Add α] [Mul α] [Zero α] : List Nat → List Nat → List Nat → List Nat → V α → V α → V α
  | s :: ss, _ :: os, k :: ks, n :: ds, h, x => fun p =>
      sumTo k (fun m => if m ≤ p / prodL os + s ∧ p / prodL os + s - m < n then
        convNdW ss os ks ds (slab (prodL ks) m h) (slab (prodL ds) (p / prodL os + s - m) x) (p % prodL os) else 0)
  | _, _, _, _, h, x => fun _ => h 0 * x 0

/-- documented N-d Toeplitz matrix: `T[i, j] = h[i + start − j]` where that multi-index is inside the filter -/
def convMatrixNdW [Zero α] : List Nat → List Nat → List Nat → List Nat → V α → M α
  | s :: ss, _ :: os, k :: ks, _ :: ds, h => fun p q =>
      if q / prodL ds ≤ p / prodL os + s ∧ p / prodL os + s - q / prodL ds < k then
        convMatrixNdW ss os ks ds (slab (prodL ks) (p / prodL os + s - q / prodL ds) h) (p % prodL os) (q % prodL ds)
      else 0
  | _, _, _, _, h => fun _ _ => h 0

/-- per-axis window of a mode; `a1`, `a2` are the shapes of the first and second argument of `convolve` -/
def convStarts (mode : ConvMode) : List Nat → List Nat → List Nat
  | n1 :: a1, n2 :: a2 => convStart mode n1 n2 :: convStarts mode a1 a2
  | _, _ => []

def convLens (mode : ConvMode) : List Nat → List Nat → List Nat
  | n1 :: a1, n2 :: a2 => convLen mode n1 n2 :: convLens mode a1 a2
  | _, _ => []

end ConvNd

/-! ## Non-constant pad modes, `snp.gradient`, projected gradients -/

/-- the non-constant linear modes of `numpy.pad` accepted by `Pad` -/
inductive PadMode | edge | wrap | reflect | symmetric
deriving DecidableEq, Repr

section PadModes
variable {α : Type}

/-- source position (in `[0, n)`) read by the padded position at offset `t = i − lo` relative to the array -/
def padSrc (mode : PadMode) (n : Nat) (t : Int) : Int :=
  match mode with
  | .edge => if t < 0 then 0 else if t < n then t else (n : Int) - 1
  | .wrap => t % (n : Int)
  | .reflect =>
      if n = 1 then 0 else
      let u := t % (2 * (n : Int) - 2)
      if u < n then u else 2 * (n : Int) - 2 - u
  | .symmetric =>
      let u := t % (2 * (n : Int))
      if u < n then u else 2 * (n : Int) - 1 - u

/-- `snp.pad(x, (lo, hi), mode=…)` on a 1-d array of length `n`: a gather -/
def padModeEval (mode : PadMode) (lo n : Nat) (x : V α) : V α := fun i =>
  x (padSrc mode n ((i : Int) - lo)).toNat

/-- its matrix: one `1` per row -/
def padModeMatrix [Zero α] [One α] (mode : PadMode) (lo n : Nat) : M α := fun i j =>
  if (j : Int) = padSrc mode n ((i : Int) - lo) then 1 else 0

/-- mode `mean`: the padding value is the mean of the axis -/
def padMeanEval [Add α] [Zero α] [Mul α] [Div α] [One α] (nat : Nat → α) (lo n : Nat) (x : V α) : V α := fun i =>
  if lo ≤ i ∧ i < lo + n then x (i - lo) else sumTo n x / nat n

def padMeanMatrix [Zero α] [Div α] [One α] (nat : Nat → α) (lo n : Nat) : M α := fun i j =>
  if lo ≤ i ∧ i < lo + n then (if i = j + lo then 1 else 0) else 1 / nat n

/-- `snp.gradient` (unit spacing, `edge_order = 1`) on a 1-d array of length `n ≥ 2` -/
def cdiffEval [Sub α] [Div α] (two : α) (n : Nat) (x : V α) : V α := fun i =>
  if i = 0 then x 1 - x 0
  else if i + 1 = n then x (n - 1) - x (n - 2)
  else (x (i + 1) - x (i - 1)) / two

def cdiffMatrix [Zero α] [One α] [Sub α] [Neg α] [Div α] (two : α) (n : Nat) : M α := fun i j =>
  if i = 0 then ((if j = 1 then (1 : α) else 0) - (if j = 0 then (1 : α) else 0))
  else if i + 1 = n then ((if j = n - 1 then (1 : α) else 0) - (if j = n - 2 then (1 : α) else 0))
  else ((if j = i + 1 then (1 : α) else 0) - (if j = i - 1 then (1 : α) else 0)) / two

/-- the `diffstack` of `ProjectedGradient._eval` (`cdiff=False`): `snp.diff` along an axis with `append = x[-1:]`,
    i.e. the `SingleAxisFiniteDifference` options `append=0`; same length as the input -/
def diffstackCfg : FDCfg := ⟨.no, .b0, false⟩

/-- `ProjectedGradient._eval` for one local axis: `sum([c[m] * grad[m] for m …])` (Python `sum` starts at 0) -/
def projEval [Add α] [Mul α] [Zero α] : List (V α × V α) → V α
  | [] => fun _ => 0
  | (c, g) :: rest => fun i => projEvalAux (0 + c i * g i) rest i
where projEvalAux (acc : α) : List (V α × V α) → Nat → α
  | [], _ => acc
  | (c, g) :: rest, i => projEvalAux (acc + c i * g i) rest i

/-- documented matrix of the projection on one local axis: `Σ_m diag(c_m) · G_m` -/
def projMatrix [Add α] [Mul α] [Zero α] : List (V α × M α) → M α
  | [] => fun _ _ => 0
  | (c, G) :: rest => fun i j => c i * G i j + projMatrix rest i j

end PadModes

/-! ## 2-D X-ray projector: bin indices and weights (`XRayTransform2D._calc_weights`) -/

/-- arguments of `XRayTransform2D._calc_weights` for one view; `u = (cos angle, sin angle)` -/
structure XGeom (α : Type) where
  x0a : α
  x0b : α
  dxa : α
  dxb : α
  y0 : α
  u0 : α
  u1 : α

section XGeomDefs
variable {α : Type} [Add α] [Sub α] [Mul α] [Div α] [Min α] [Max α] [HasAbs α] [HasNat α]

/-- `Px[i, j]`: position (in detector-bin units) of the left edge of the projected pixel `(i, j)` -/
def XGeom.px (g : XGeom α) (i j : Nat) : α :=
  let px0 := g.x0a * g.u0 + g.x0b * g.u1 - g.y0
  let pdx0 := g.dxa * g.u0
  let pdx1 := g.dxb * g.u1
  let pxmin := min (min px0 (px0 + pdx0)) (min (px0 + pdx1) (px0 + pdx0 + pdx1))
  pxmin + pdx0 * HasNat.nat i + pdx1 * HasNat.nat j

/-- width of the projected pixel's (boxcar) footprint: `(max(d1,d2) + min(d1,d2)) / 2` -/
def XGeom.width (g : XGeom α) : α :=
  let pdx0 := g.u0 * g.dxa
  let pdx1 := g.u1 * g.dxb
  let d1 := HasAbs.abs (pdx0 + pdx1)
  let d2 := HasAbs.abs (pdx0 - pdx1)
  (max d1 d2 + min d1 d2) / HasNat.nat 2

/-- `inds = floor(Px)` (`fl` is the floor function: a contract) -/
def XGeom.ind (g : XGeom α) (fl : α → Int) (i j : Nat) : Int := fl (g.px i j)

/-- `weights = minimum(1 − (Px − inds), width) / width` -/
def XGeom.wt (g : XGeom α) (fl : α → Int) (ofInt : Int → α) (i j : Nat) : α :=
  min (HasNat.nat 1 - (g.px i j - ofInt (fl (g.px i j)))) g.width / g.width

end XGeomDefs

section RowCol
variable {α : Type}
/-- row sums / column sums of a row-major `(n0, n1)` image -/
def rowSums [Add α] [Zero α] (n1 : Nat) (x : V α) : V α := fun i => sumTo n1 (fun j => x (i * n1 + j))
def colSums [Add α] [Zero α] (n0 n1 : Nat) (x : V α) : V α := fun j => sumTo n0 (fun i => x (i * n1 + j))
end RowCol


/-! ## 3-D X-ray projector: the 1-d factor of the voxel footprint (`XRayTransform3D._calc_weights`) -/

section X3
variable {α : Type} [Add α] [Sub α] [Min α]

/-- share of a footprint of width `w` (left edge `le`, in detector-bin units) that falls into its first bin
    `floor(le)`, as coded (since 883e83f): `to_next = minimum(floor(left_edge) + 1 − left_edge, w)` -/
def x3ToNext (fl : α → Int) (ofInt : Int → α) (one w le : α) : α := min (ofInt (fl le) + one - le) w

/-- the DOCUMENTED share: length of the overlap of the footprint `[le, le + w]` with the bin `[floor le, floor le + 1]`
    (detector pixel `i` covers `[i, i + 1)`) -/
def x3Overlap (fl : α → Int) (ofInt : Int → α) (one w le : α) : α := min (ofInt (fl le) + one) (le + w) - le

/-- the formula of the tree before 883e83f: `minimum(ceil(left_edge) − left_edge, w)` (`cl` = ceil) -/
def x3ToNextCeil (cl : α → Int) (ofInt : Int → α) (w le : α) : α := min (ofInt (cl le) - le) w

end X3


/-! ## 3-D X-ray projector: the four-pixel scatter (`XRayTransform3D._project_single`) -/

section X3Scatter
variable {α : Type}

/-- detector pixel `(a, b)` of a `(d0, d1)` detector is the flat (row-major) pixel `q`; `False` when `(a, b)` is off the
    detector — the update is then dropped (`off(i)` sends negative indices past the end, `mode="drop"`) -/
def onDet (d0 d1 : Nat) (a b : Int) (q : Nat) : Prop :=
  0 ≤ a ∧ a < d0 ∧ 0 ≤ b ∧ b < d1 ∧ a * d1 + b = q

instance (d0 d1 : Nat) (a b : Int) (q : Nat) : Decidable (onDet d0 d1 a b q) := by unfold onDet; infer_instance

/-- `_project_single` for one view: voxel `p` (value `x p`) has first detector pixel `(I0 p, I1 p)` and first-bin shares
    `t0 p`, `t1 p` of its footprint of side `w`; four scatter-adds with the weights
    `t0·t1/w²`, `(w−t0)·t1/w²`, `t0·(w−t1)/w²`, `(w−t0)·(w−t1)/w²` at `(I0, I1)`, `(I0+1, I1)`, `(I0, I1+1)`, `(I0+1, I1+1)` -/
def xray3Project [Add α] [Sub α] [Mul α] [Div α] [Zero α] [One α] (nv : Nat) (I0 I1 : Nat → Int) (t0 t1 : V α) (w : α)
    (x : V α) (d0 d1 : Nat) : V α := fun q =>
  if q < d0 * d1 then
    sumTo nv (fun p =>
        (if onDet d0 d1 (I0 p) (I1 p) q then t0 p * t1 p * (1 / (w * w)) * x p else 0)
      + (if onDet d0 d1 (I0 p + 1) (I1 p) q then (w - t0 p) * t1 p * (1 / (w * w)) * x p else 0)
      + (if onDet d0 d1 (I0 p) (I1 p + 1) q then t0 p * (w - t1 p) * (1 / (w * w)) * x p else 0)
      + (if onDet d0 d1 (I0 p + 1) (I1 p + 1) q then (w - t0 p) * (w - t1 p) * (1 / (w * w)) * x p else 0))
  else 0

/-- share of bin `bin` when a footprint gives `a` to bin `I` and `b` to bin `I + 1` -/
def binShare [Add α] [Zero α] (I : Int) (a b : α) (bin : Nat) : α :=
  (if I = (bin : Int) then a else 0) + (if I + 1 = (bin : Int) then b else 0)

/-- documented matrix of a view: pixel `(q / d1, q % d1)` receives the fraction of the footprint SQUARE of voxel `p` that
    lies in it — the product of the two 1-d fractions (`t/w` in the first bin, `(w − t)/w` in the next) -/
def xray3Matrix [Add α] [Sub α] [Mul α] [Div α] [Zero α] (I0 I1 : Nat → Int) (t0 t1 : V α) (w : α) (d1 : Nat) : M α :=
  fun q p => binShare (I0 p) (t0 p / w) ((w - t0 p) / w) (q / d1) * binShare (I1 p) (t1 p / w) ((w - t1 p) / w) (q % d1)

end X3Scatter


/-! ## Zero-padded / truncated N-d DFT (`DFT(input_shape, axes, axes_shape)`) and its inverses -/

section DFTPad
variable {α : Type}

/-- flat index, in an array of shape `ms`, of the element with the multi-index of flat index `p` of shape `ns` -/
def embedIdx : List Nat → List Nat → Nat → Nat
  | _ :: ns, _ :: ms, p => (p / prodL ns) * prodL ms + embedIdx ns ms (p % prodL ns)
  | _, _, p => p

/-- `DFT._eval = fftn(x, s=axes_shape, axes=axes, norm)`: the input (shape `ns`) is cropped / zero-padded to the
    transform shape `ms` (`padNd`), then transformed over the marked axes (`dftAxes`), scale `s` -/
def dftFwdPad [Add α] [Mul α] [Zero α] [One α] (ns ms : List Nat) (ws : List (Option α)) (s : α) (x : V α) : V α :=
  fun f => s * dftAxes ms ws (padNd ns ms x) f

/-- `DFT.inv` AS CODED: `ifftn(z, s=inv_axes_shape, axes)` crops / zero-pads the SPECTRUM (shape `ms`) to the input shape
    `ns` and applies the inverse transform of that size (roots `wns` of the orders `ns`), scale `s'` -/
def dftInvCodedNd [Add α] [Mul α] [Zero α] [One α] (ns ms : List Nat) (wns : List (Option α)) (s' : α) (z : V α) : V α :=
  fun p => s' * dftAxes ns wns (padNd ms ns z) p

/-- the inverse the documentation promises when no axis is truncated: inverse transform at the transform shape `ms`
    (roots `wms`), then crop to the input shape `ns` -/
def dftInvDocNd [Add α] [Mul α] [Zero α] [One α] (ns ms : List Nat) (wms : List (Option α)) (s' : α) (z : V α) : V α :=
  fun p => s' * dftAxes ms wms z (embedIdx ns ms p)

end DFTPad


/-! ## Abel transform: quadrant assembly (`scico/linop/abel.py: _pyabel_transform`, PyAbel `get/put_image_quadrants`) -/

section Abel
variable {α : Type} [Add α] [Mul α] [Zero α]

/-- `transform_quad(Q) = Q.dot(P)` for the quadrant extracted by `get_image_quadrants` (all oriented as the upper right
    one: `fliplr` for the left, `flipud` for the lower quadrants), at quadrant position `(r, j)`; the image is `n × m`
    row-major, `mc = ⌈m/2⌉`, `quad = 0,1,2,3` as in PyAbel (0 upper right, 1 upper left, 2 lower left, 3 lower right) -/
def abelQuad (P : M α) (n m mc : Nat) (x : V α) (quad r j : Nat) : α :=
  sumTo mc (fun i =>
    (match quad with
      | 0 => x (r * m + (m - mc + i))
      | 1 => x (r * m + (mc - 1 - i))
      | 2 => x ((n - 1 - r) * m + (mc - 1 - i))
      | _ => x ((n - 1 - r) * m + (m - mc + i))) * P i j)

/-- `put_image_quadrants`: odd sizes trim the duplicated centre row (from the upper quadrants) and centre column (from
    the left quadrants); `Top = [fliplr(Q1), Q0]`, `Bottom = flipud([fliplr(Q2), Q3])`; `nc = ⌈n/2⌉` -/
def abelEval (P : M α) (n m nc mc : Nat) (x : V α) : V α := fun p =>
  let r := p / m
  let c := p % m
  if r < n - nc then
    (if c < m - mc then abelQuad P n m mc x 1 r (mc - 1 - c) else abelQuad P n m mc x 0 r (c - (m - mc)))
  else
    (if c < m - mc then abelQuad P n m mc x 2 (n - 1 - r) (mc - 1 - c) else abelQuad P n m mc x 3 (n - 1 - r) (c - (m - mc)))

/-- documented structure: every image row is transformed on its own by the `m × m` matrix that applies the radial
    (single-quadrant) matrix `P` to the right half and, mirrored, to the left half of the row -/
def abelRowMatrix (P : M α) (m mc : Nat) : M α := fun c c' =>
  if c < m - mc then (if c' < mc then P (mc - 1 - c') (mc - 1 - c) else 0)
  else (if m - mc ≤ c' then P (c' - (m - mc)) (c - (m - mc)) else 0)

end Abel


/-! ## Constructor metadata of the convolution classes: shapes, dtypes, error cases -/

/-- the four dtypes the operators are used with -/
inductive DT | f32 | f64 | c64 | c128
deriving DecidableEq, Repr

def DT.cx : DT → Bool | .c64 => true | .c128 => true | _ => false
def DT.wide : DT → Bool | .f64 => true | .c128 => true | _ => false
def DT.mk (cx wide : Bool) : DT := if cx then (if wide then .c128 else .c64) else (if wide then .f64 else .f32)

/-- `jax.numpy.result_type` on these dtypes: complex if one is, double precision if one is -/
def resultType (a b : DT) : DT := DT.mk (a.cx || b.cx) (a.wide || b.wide)

/-- `np.broadcast_shapes(a, b)` (`none` = incompatible, `ValueError`), on the reversed (trailing-first) shapes -/
def broadcastRev : List Nat → List Nat → Option (List Nat)
  | [], b => some b
  | a, [] => some a
  | x :: a, y :: b =>
      if x = y ∨ y = 1 then (broadcastRev a b).map (x :: ·)
      else if x = 1 then (broadcastRev a b).map (y :: ·) else none

def broadcastShapes (a b : List Nat) : Option (List Nat) := (broadcastRev a.reverse b.reverse).map List.reverse

/-- what `CircularConvolve.__init__` declares: `(output_shape, output_dtype, real)`; `none` = `ValueError`
    (`h_center` together with `h_is_dft`; `h` after padding not broadcastable against the input).  `hShape` is the shape
    of `h`, whose trailing `ndims` axes are replaced by the input's when `h` is given in the signal domain. -/
def circInit (hShape inShape : List Nat) (ndims : Option Nat) (hIsDft hasCenter : Bool) (hdt xdt : DT) :
    Option (List Nat × DT × Bool) :=
  let nd := ndims.getD inShape.length
  if hIsDft && hasCenter then none else
  let hdft := if hIsDft then hShape else hShape.take (hShape.length - nd) ++ inShape.drop (inShape.length - nd)
  match broadcastShapes hdft inShape with
  | none => none
  | some out =>
      let odt := if hIsDft then xdt else resultType hdt xdt
      some (out, odt, !odt.cx)

/-- `Convolve.__init__` / `ConvolveByX.__init__`: `(output_dtype)`; `none` = `ValueError` (`h.ndim ≠ len(input_shape)`,
    unknown mode) -/
def convInit (hNdim inNdim : Nat) (mode : String) (hdt xdt : DT) : Option DT :=
  if hNdim ≠ inNdim then none
  else if mode ≠ "full" ∧ mode ≠ "valid" ∧ mode ≠ "same" then none
  else some (resultType xdt hdt)


/-! ## Filters longer than an axis in N dimensions: `fftn(h, s=dims)` crops them -/

/-- shape of the filter after `fftn(h, s=dims)` cropped it: `min` axis by axis -/
def minShape : List Nat → List Nat → List Nat
  | k :: ks, n :: ds => min k n :: minShape ks ds
  | _, _ => []

/-- the cropped filter `h[:n_0, :n_1, …]`, flat over `minShape ks dims` -/
def cropFilter {α : Type} (ks dims : List Nat) (h : V α) : V α := fun q => h (embedIdx (minShape ks dims) ks q)


/-! ## Optical propagators (`scico/linop/optics.py: Propagator._eval`) -/

/-- `Propagator._eval = F.inv(D @ F @ x)` with `F = DFT(input_shape, axes_shape = pad_factor · input_shape)`: forward
    transform at the padded shape `ms`, multiplication by the transfer function `D`, inverse AS CODED -/
def propEval {α : Type} [Add α] [Mul α] [Zero α] [One α] (ns ms : List Nat) (ws wns : List (Option α)) (s s' : α)
    (D x : V α) : V α :=
  dftInvCodedNd ns ms wns s' (fun f => D f * dftFwdPad ns ms ws s x f)


/-- the propagator the documentation promises for `pad_factor > 1`: the same with the documented inverse of the padded
    transform (inverse at the padded shape, then crop) -/
def propEvalDoc {α : Type} [Add α] [Mul α] [Zero α] [One α] (ns ms : List Nat) (ws wms : List (Option α)) (s s' : α)
    (D x : V α) : V α :=
  dftInvDocNd ns ms wms s' (fun f => D f * dftFwdPad ns ms ws s x f)


/-! ## `XRayTransform3D.matrices_from_euler_angles`: assembly around the rotation matrix (the rotation itself is scipy's) -/

section Euler
variable {α : Type} [Add α] [Sub α] [Mul α] [Div α] [Neg α] [Zero α]

/-- `M = diag(1/det_spacing) · R[:2, :] · diag(voxel_spacing)`: entry `(i, j)`, `i < 2`, `j < 3` -/
def eulerM (R : M α) (vs ds : V α) : M α := fun i j => R i j * vs j / ds i

/-- translation column `t = −M · (input_shape / 2) + output_shape / 2` ("line up the centers") -/
def eulerT (R : M α) (vs ds : V α) (halfIn halfOut : V α) : V α := fun i =>
  -(sumTo 3 (fun j => eulerM R vs ds i j * halfIn j)) + halfOut i

/-- detector coordinate `i` of the point `x` (voxel units): `(M x + t)_i` -/
def eulerProject (R : M α) (vs ds halfIn halfOut x : V α) (i : Nat) : α :=
  sumTo 3 (fun j => eulerM R vs ds i j * x j) + eulerT R vs ds halfIn halfOut i

end Euler

end Scico.LinOps
