/-
  Model/Steps — `step()`, initialisation and accessors of the scico optimisers
  (DESIGN §5.3; properties C11 and C03).

  For every optimiser class there are

  * `…Params`  – what `__init__` stores and never changes (operators, proximal maps,
                 sub-problem solver, scalar parameters).  Proximal maps, operators, adjoints,
                 Jacobian products, the x-sub-problem solver and the step-size hook are
                 *parameters* (arbitrary functions): the theorems hold for all of them.
  * `…State`   – the public mutable attributes (`x`, `z`, `u`, previous-iterate copies, `v`, `t`,
                 `L`, `fixed_point_residual`, step-size memory).
  * `…ImplStep` – a transcription of the *method body*, one `let s := { s with … }` per Python
                 assignment, in source order, reading exactly the attribute the source reads
                 (the source line is quoted above each assignment).
  * `…SpecStep` – a transcription of the *class docstring equations* (written separately, as a
                 closed expression of the pre-state).
  * accessors `objective / norm_primal_residual / norm_dual_residual / norm_residual / minimizer`
    in an `…Impl` (code) and a `…Spec` (docstring) version, with the optional arguments.

  Everything is polymorphic over the operation classes so that the same definitions run at
  `Float` on dense vectors in `Drv/Steps.lean` and are reasoned about over an arbitrary module
  over an ordered field (arrays, block arrays = products, complex arrays = real modules) in
  `Proofs/Steps*.lean`.  Mathlib-free.

  Modelling notes (also in design/C11.md):
  * `v0=` warm-start hints of `prox` are not part of the model (they do not change the value of a
    proximal map).
  * Python `0.5 * a` is written `a / 2`, `2.0 * u` is `(2:K) • u`, `a ** 2` is `a * a`.
  * `alpha == 1.0` is the `<`-only test `isOne`.
  * A Python scalar `0.0` that is broadcast against an array (`self.c = 0.0`, `sum = 0.0`) is the
    zero vector of the space.
  * `ADMM/LinearizedADMM.norm_primal_residual(x)`: the *documented* behaviour is modelled (the
    supplied `x` is used) — the pinned tree ignored `x` (known findings `admm-primal-residual-x`,
    `ladmm-primal-residual-x`).
-/
import Scico.Common.Scalar

namespace Scico.Steps

/-- how an accessor rejects its arguments (`ValueError`) -/
inductive Err where
  | value
  /-- `TypeError` -/
  | type
  /-- `IndexError` -/
  | index
  deriving Repr, DecidableEq

/-- Python `a == 1.0` on floats, written with `<` only (DESIGN §4.1) -/
def isOne {K : Type} [LT K] [DecidableLT K] [One K] (a : K) : Bool :=
  !(decide (a < 1)) && !(decide (1 < a))

/-- `k` applications of a step map -/
def iter {σ : Type} (step : σ → σ) : Nat → σ → σ
  | 0, s => s
  | k + 1, s => iter step k (step s)

/-- the list of the first `k` iterates after `s` (what the driver reports) -/
def trace {σ : Type} (step : σ → σ) : Nat → σ → List σ
  | 0, _ => []
  | k + 1, s => step s :: trace step k (step s)

/-! ## ADMM  (`scico/optimize/_admm.py`) -/

structure ADMMParams (K X Z : Type) where
  /-- `self.f` (may be `None`) -/
  f : Option (X → K)
  /-- `g_i.__call__` -/
  g : List (Z → K)
  /-- `g_i.prox(v, lam)` as `proxg i lam v` -/
  proxg : List (K → Z → Z)
  C : List (X → Z)
  /-- `C_i.adj` -/
  Cadj : List (Z → X)
  rho : List K
  alpha : K
  /-- `subproblem_solver.solve(x0)`; the solver reads `admm.z_list`, `admm.u_list` -/
  solveX : List Z → List Z → X → X
  normX : X → K
  normZ : Z → K

structure ADMMState (X Z : Type) where
  x : X
  z : List Z
  zOld : List Z
  u : List Z

section ADMM
variable {K X Z : Type}

/-- `__init__` : `x0 = None → zeros`, `z_init`, `u_init` -/
def admmInit [Zero X] [Zero Z] (p : ADMMParams K X Z) (x0 : Option X) : ADMMState X Z :=
  -- if x0 is None: x0 = snp.zeros(input_shape, dtype=dtype)
  let x0 := match x0 with
    | none => (0 : X)
    | some x => x
  -- z_list = [Ci(x0) for Ci in self.C_list];  z_list_old = z_list.copy()
  let zl := p.C.map (fun Ci => Ci x0)
  -- u_list = [snp.zeros(Ci.output_shape, ...) for Ci in self.C_list]
  let ul := p.C.map (fun _ => (0 : Z))
  { x := x0, z := zl, zOld := zl, u := ul }

/-- `ADMM.__init__` with its argument checks: `N = len(g_list)`; `len(C_list) != N` and `len(rho_list) != N` raise
    `ValueError` (in this order, before anything is stored).  (`N = 0` is rejected later by every sub-problem
    solver's `internal_init`; that is outside this model.) -/
def admmInitChecked [Zero X] [Zero Z] (p : ADMMParams K X Z) (x0 : Option X) : Except Err (ADMMState X Z) :=
  -- N = len(g_list); if len(C_list) != N: raise ValueError
  if p.C.length != p.g.length then .error .value
  -- if len(rho_list) != N: raise ValueError
  else if p.rho.length != p.g.length then .error .value
  else .ok (admmInit p x0)

/-- the whole of `ADMM.__init__`, including the empty constraint list `N = 0`: after the length checks
    `subproblem_solver.internal_init(self)` runs — the linear-system solvers (`LinearSubproblemSolver` and its subclasses)
    `reduce` over `C_list` and raise `TypeError` when it is empty (`solverReduces`), `GenericSubproblemSolver` does not —
    and then a missing `x0` reads `C_list[0]` (`IndexError` when empty). -/
def admmInitFull [Zero X] [Zero Z] (solverReduces : Bool) (p : ADMMParams K X Z) (x0 : Option X) :
    Except Err (ADMMState X Z) :=
  if p.C.length != p.g.length then .error .value
  else if p.rho.length != p.g.length then .error .value
  -- self.subproblem_solver.internal_init(self)
  else if solverReduces && p.C.length == 0 then .error .type
  -- if x0 is None: input_shape = C_list[0].input_shape
  else if x0.isNone && p.C.length == 0 then .error .index
  else .ok (admmInit p x0)

variable [Add Z] [Sub Z] [SMul K Z] [Sub K] [Div K] [One K] [LT K] [DecidableLT K]

/-- body of the `for i, (rhoi, gi, Ci, zi, ui) in enumerate(zip(...))` loop; the lists
    `self.z_list`, `self.u_list` are read *live* at index `i` and written in place at index `i` -/
def admmLoopBody (p : ADMMParams K X Z) (s : ADMMState X Z) (i : Nat) : ADMMState X Z :=
  match p.rho[i]?, p.proxg[i]?, p.C[i]?, s.z[i]?, s.u[i]? with
  | some rhoi, some proxi, some Ci, some zi, some ui =>
    -- if self.alpha == 1.0: Cix = Ci(self.x)  else: Cix = self.alpha * Ci(self.x) + (1.0 - self.alpha) * zi
    let Cix := if isOne p.alpha then Ci s.x else p.alpha • Ci s.x + (1 - p.alpha) • zi
    -- zi = gi.prox(Cix + ui, 1 / rhoi, v0=zi)
    let zi' := proxi (1 / rhoi) (Cix + ui)
    -- ui = ui + Cix - zi
    let ui' := ui + Cix - zi'
    -- self.z_list[i] = zi ; self.u_list[i] = ui
    { s with z := s.z.set i zi', u := s.u.set i ui' }
  | _, _, _, _, _ => s

/-- number of iterations of the `zip` (shortest operand) -/
def admmZipLen (p : ADMMParams K X Z) (s : ADMMState X Z) : Nat :=
  min p.rho.length (min p.proxg.length (min p.C.length (min s.z.length s.u.length)))

/-- `ADMM.step` -/
def admmImplStep (p : ADMMParams K X Z) (s : ADMMState X Z) : ADMMState X Z :=
  -- self.x = self.subproblem_solver.solve(self.x)
  let s := { s with x := p.solveX s.z s.u s.x }
  -- self.z_list_old = self.z_list.copy()
  let s := { s with zOld := s.z }
  (List.range (admmZipLen p s)).foldl (admmLoopBody p) s

/-- documented `z`/`u` update of one constraint (class docstring, with the relaxation of
    Boyd et al. §3.4.3: `C_i x⁺` replaced by `α C_i x⁺ + (1-α) z_i`) -/
def admmSpecZU (alpha : K) (xn : X) :
    List K → List (K → Z → Z) → List (X → Z) → List Z → List Z → List (Z × Z)
  | rho :: rs, prox :: ps, C :: cs, z :: zs, u :: us =>
    let Chat := alpha • C xn + (1 - alpha) • z
    let zn := prox (1 / rho) (Chat + u)
    (zn, u + Chat - zn) :: admmSpecZU alpha xn rs ps cs zs us
  | _, _, _, _, _ => []

/-- the documented iteration -/
def admmSpecStep (p : ADMMParams K X Z) (s : ADMMState X Z) : ADMMState X Z :=
  let xn := p.solveX s.z s.u s.x
  let zu := admmSpecZU p.alpha xn p.rho p.proxg p.C s.z s.u
  { x := xn, z := zu.map Prod.fst, zOld := s.z, u := zu.map Prod.snd }

/-- all lists of the problem have length `N` (established by `__init__`, kept by `step`) -/
def ADMMWf (N : Nat) (p : ADMMParams K X Z) (s : ADMMState X Z) : Prop :=
  p.rho.length = N ∧ p.proxg.length = N ∧ p.C.length = N ∧ s.z.length = N ∧ s.u.length = N

variable [Add K] [Mul K] [Zero K] [HasSqrt K] [Add X] [SMul K X] [Zero X]

/-- `ADMM.objective(x, z_list)` -/
def admmObjectiveImpl (p : ADMMParams K X Z) (s : ADMMState X Z) (x : Option X) (zl : Option (List Z)) :
    Except Err K :=
  -- if (x is None) != (z_list is None): raise ValueError
  match x, zl with
  | some _, none => .error .value
  | none, some _ => .error .value
  | xo, zo =>
    -- if x is None: x = self.x; z_list = self.z_list
    let (x, zl) := match xo, zo with
      | some x, some zl => (x, zl)
      | _, _ => (s.x, s.z)
    -- out = 0.0 ; if self.f: out += self.f(x)
    let out := match p.f with
      | some f => (0 : K) + f x
      | none => (0 : K)
    -- for g, z in zip(self.g_list, z_list): out += g(z)
    .ok ((List.zip p.g zl).foldl (fun out gz => out + gz.1 gz.2) out)

/-- documented: `f(x) + Σ g_i(z_i)` -/
def admmObjectiveSpec (p : ADMMParams K X Z) (x : X) (zl : List Z) : K :=
  (match p.f with
    | some f => f x
    | none => 0) + (List.zipWith (fun g z => g z) p.g zl).sum

/-- `ADMM.norm_primal_residual(x)` — documented behaviour: the supplied `x` is used -/
def admmNormPrimalImpl (p : ADMMParams K X Z) (s : ADMMState X Z) (x : Option X) : K :=
  -- if x is None: x = self.x
  let x := match x with
    | none => s.x
    | some x => x
  -- sum = 0.0; for rhoi, Ci, zi in zip(...): sum += rhoi * norm(Ci(x) - zi) ** 2
  let sum := (List.zip p.rho (List.zip p.C s.z)).foldl
    (fun sum t => sum + t.1 * (p.normZ (t.2.1 x - t.2.2) * p.normZ (t.2.1 x - t.2.2))) (0 : K)
  -- return snp.sqrt(sum)
  HasSqrt.sqrt sum

/-- the pinned tree's body (`Ci(self.x)`): used only to classify the known finding -/
def admmNormPrimalPinned (p : ADMMParams K X Z) (s : ADMMState X Z) (_x : Option X) : K :=
  admmNormPrimalImpl p s none

/-- documented: `(Σ ρ_i ‖C_i x − z_i‖²)^{1/2}` -/
def admmNormPrimalSpec (p : ADMMParams K X Z) (x : X) (zl : List Z) : K :=
  HasSqrt.sqrt
    (List.zipWith (fun rho Cz => rho * (p.normZ Cz * p.normZ Cz)) p.rho
      (List.zipWith (fun C z => C x - z) p.C zl)).sum

/-- `ADMM.norm_dual_residual()` -/
def admmNormDualImpl (p : ADMMParams K X Z) (s : ADMMState X Z) : K :=
  -- sum = 0.0; for rhoi, zi, ziold, Ci in zip(rho_list, z_list, z_list_old, C_list): sum += rhoi * Ci.adj(zi - ziold)
  let sum := (List.zip p.rho (List.zip s.z (List.zip s.zOld p.Cadj))).foldl
    (fun sum t => sum + t.1 • t.2.2.2 (t.2.1 - t.2.2.1)) (0 : X)
  p.normX sum

/-- documented: `‖Σ ρ_i C_iᵀ (z_i − z_i^old)‖` -/
def admmNormDualSpec (p : ADMMParams K X Z) (s : ADMMState X Z) : K :=
  p.normX (List.zipWith (fun rho v => rho • v) p.rho
    (List.zipWith (fun Ca d => Ca d) p.Cadj (List.zipWith (fun z zo => z - zo) s.z s.zOld))).sum

def admmMinimizer (s : ADMMState X Z) : X := s.x

end ADMM

/-! ## Linearized ADMM  (`scico/optimize/_ladmm.py`) -/

structure LADMMParams (K X Z : Type) where
  f : X → K
  g : Z → K
  proxf : K → X → X
  proxg : K → Z → Z
  C : X → Z
  /-- `C.conj().T` / `C.adj` -/
  Cadj : Z → X
  mu : K
  nu : K
  normX : X → K
  normZ : Z → K

structure LADMMState (X Z : Type) where
  x : X
  z : Z
  zOld : Z
  u : Z

section LADMM
variable {K X Z : Type}

def ladmmInit [Zero X] [Zero Z] (p : LADMMParams K X Z) (x0 : Option X) : LADMMState X Z :=
  let x0 := match x0 with
    | none => (0 : X)
    | some x => x
  -- z = self.C(x0); z_old = z
  let z := p.C x0
  -- u = snp.zeros(self.C.output_shape, ...)
  { x := x0, z := z, zOld := z, u := 0 }

variable [Add Z] [Sub Z] [Sub X] [SMul K X] [Div K]

/-- `LinearizedADMM.step` -/
def ladmmImplStep (p : LADMMParams K X Z) (s : LADMMState X Z) : LADMMState X Z :=
  -- proxarg = self.x - (self.mu / self.nu) * self.C.conj().T(self.C(self.x) - self.z + self.u)
  let proxarg := s.x - (p.mu / p.nu) • p.Cadj (p.C s.x - s.z + s.u)
  -- self.x = self.f.prox(proxarg, self.mu, v0=self.x)
  let s := { s with x := p.proxf p.mu proxarg }
  -- self.z_old = self.z
  let s := { s with zOld := s.z }
  -- Cx = self.C(self.x)
  let Cx := p.C s.x
  -- self.z = self.g.prox(Cx + self.u, self.nu, v0=self.z)
  let s := { s with z := p.proxg p.nu (Cx + s.u) }
  -- self.u = self.u + Cx - self.z
  { s with u := s.u + Cx - s.z }

/-- class docstring:
    `x⁺ = prox_{μf}(x − (μ/ν) Cᵀ(Cx − z + u))`, `z⁺ = prox_{νg}(Cx⁺ + u)`, `u⁺ = u + Cx⁺ − z⁺` -/
def ladmmSpecStep (p : LADMMParams K X Z) (s : LADMMState X Z) : LADMMState X Z :=
  let xn := p.proxf p.mu (s.x - (p.mu / p.nu) • p.Cadj (p.C s.x - s.z + s.u))
  let zn := p.proxg p.nu (p.C xn + s.u)
  { x := xn, z := zn, zOld := s.z, u := s.u + p.C xn - zn }

variable [Add K]

def ladmmObjectiveImpl (p : LADMMParams K X Z) (s : LADMMState X Z) (x : Option X) (z : Option Z) :
    Except Err K :=
  match x, z with
  | some _, none => .error .value
  | none, some _ => .error .value
  | some x, some z => .ok (p.f x + p.g z)
  | none, none => .ok (p.f s.x + p.g s.z)

def ladmmObjectiveSpec (p : LADMMParams K X Z) (x : X) (z : Z) : K := p.f x + p.g z

/-- documented behaviour: the supplied `x` is used -/
def ladmmNormPrimalImpl (p : LADMMParams K X Z) (s : LADMMState X Z) (x : Option X) : K :=
  let x := match x with
    | none => s.x
    | some x => x
  p.normZ (p.C x - s.z)

def ladmmNormPrimalPinned (p : LADMMParams K X Z) (s : LADMMState X Z) (_x : Option X) : K :=
  ladmmNormPrimalImpl p s none

def ladmmNormPrimalSpec (p : LADMMParams K X Z) (x : X) (z : Z) : K := p.normZ (p.C x - z)

/-- `return norm(self.C.adj(self.z - self.z_old))` -/
def ladmmNormDualImpl (p : LADMMParams K X Z) (s : LADMMState X Z) : K :=
  p.normX (p.Cadj (s.z - s.zOld))

/-- the quantity the code computes, `‖Cᴴ(z − z_old)‖` (ADMM's dual residual for one constraint,
    `ρ = 1`).  The pinned docstring prints `‖z − z_old‖` — see `ladmmNormDualDocPinned`. -/
def ladmmNormDualSpec (p : LADMMParams K X Z) (s : LADMMState X Z) : K :=
  p.normX (p.Cadj (s.z - s.zOld))

/-- the formula printed in the pinned docstring of `LinearizedADMM.norm_dual_residual`
    (known finding `ladmm-dual-residual-doc`) -/
def ladmmNormDualDocPinned (p : LADMMParams K X Z) (s : LADMMState X Z) : K :=
  p.normZ (s.z - s.zOld)

def ladmmMinimizer (s : LADMMState X Z) : X := s.x

end LADMM

/-! ## Proximal ADMM and non-linear proximal ADMM  (`scico/optimize/_padmm.py`) -/

structure PADMMParams (K X Z U : Type) where
  f : X → K
  g : Z → K
  proxf : K → X → X
  proxg : K → Z → Z
  A : X → U
  /-- `A.H` -/
  AH : U → X
  B : Z → U
  /-- `B.H` -/
  BH : U → Z
  c : U
  rho : K
  mu : K
  nu : K
  fastDual : Bool
  normX : X → K
  normZ : Z → K
  normU : U → K

structure PADMMState (X Z U : Type) where
  x : X
  z : Z
  zOld : Z
  u : U
  uOld : U

section PADMM
variable {K X Z U : Type}

/-- `ProximalADMM.__init__` defaults: `B = None → -Identity`, `c = None → 0.0` -/
def padmmDefaultB [Neg U] : (U → U) × (U → U) := (fun z => -z, fun u => -u)

def padmmC [Zero U] (c : Option U) : U :=
  match c with
  | none => 0
  | some c => c

/-- `ProximalADMMBase.__init__` : zeros for missing starts, `z_old = z`, `u_old = u` -/
def padmmInit [Zero X] [Zero Z] [Zero U] (x0 : Option X) (z0 : Option Z) (u0 : Option U) :
    PADMMState X Z U :=
  let x := match x0 with
    | none => (0 : X)
    | some x => x
  let z := match z0 with
    | none => (0 : Z)
    | some z => z
  let u := match u0 with
    | none => (0 : U)
    | some u => u
  { x := x, z := z, zOld := z, u := u, uOld := u }

variable [Add U] [Sub U] [SMul K U] [Sub X] [SMul K X] [Sub Z] [SMul K Z]
  [Div K] [Mul K] [One K] [OfNat K 2]

/-- `ProximalADMM.step` -/
def padmmImplStep (p : PADMMParams K X Z U) (s : PADMMState X Z U) : PADMMState X Z U :=
  -- proxarg = self.x - (1.0 / self.mu) * self.A.H(2.0 * self.u - self.u_old)
  let proxarg := s.x - (1 / p.mu) • p.AH ((2 : K) • s.u - s.uOld)
  -- self.x = self.f.prox(proxarg, (1.0 / (self.rho * self.mu)), v0=self.x)
  let s := { s with x := p.proxf (1 / (p.rho * p.mu)) proxarg }
  -- proxarg = self.z - (1.0 / self.nu) * self.B.H(self.A(self.x) + self.B(self.z) - self.c + self.u)
  let proxarg := s.z - (1 / p.nu) • p.BH (p.A s.x + p.B s.z - p.c + s.u)
  -- self.z_old = self.z
  let s := { s with zOld := s.z }
  -- self.z = self.g.prox(proxarg, (1.0 / (self.rho * self.nu)), v0=self.z)
  let s := { s with z := p.proxg (1 / (p.rho * p.nu)) proxarg }
  -- self.u_old = self.u
  let s := { s with uOld := s.u }
  -- self.u = self.u + self.A(self.x) + self.B(self.z) - self.c
  { s with u := s.u + p.A s.x + p.B s.z - p.c }

variable [Inv K]

/-- class docstring of `ProximalADMM` -/
def padmmSpecStep (p : PADMMParams K X Z U) (s : PADMMState X Z U) : PADMMState X Z U :=
  let xn := p.proxf (p.rho⁻¹ * p.mu⁻¹) (s.x - p.mu⁻¹ • p.AH ((2 : K) • s.u - s.uOld))
  let zn := p.proxg (p.rho⁻¹ * p.nu⁻¹) (s.z - p.nu⁻¹ • p.BH (p.A xn + p.B s.z - p.c + s.u))
  { x := xn, z := zn, zOld := s.z, u := s.u + p.A xn + p.B zn - p.c, uOld := s.u }

variable [Add K]

/-- `ProximalADMMBase.objective` -/
def padmmObjectiveImpl (f : X → K) (g : Z → K) (s : PADMMState X Z U) (x : Option X) (z : Option Z) :
    Except Err K :=
  match x, z with
  | some _, none => .error .value
  | none, some _ => .error .value
  | some x, some z => .ok (f x + g z)
  | none, none => .ok (f s.x + g s.z)

def padmmObjectiveSpec (f : X → K) (g : Z → K) (x : X) (z : Z) : K := f x + g z

/-- `ProximalADMM.norm_primal_residual(x, z)` -/
def padmmNormPrimalImpl (p : PADMMParams K X Z U) (s : PADMMState X Z U) (x : Option X) (z : Option Z) :
    Except Err K :=
  match x, z with
  | some _, none => .error .value
  | none, some _ => .error .value
  | some x, some z => .ok (p.normU (p.A x + p.B z - p.c))
  | none, none => .ok (p.normU (p.A s.x + p.B s.z - p.c))

def padmmNormPrimalSpec (p : PADMMParams K X Z U) (x : X) (z : Z) : K :=
  p.normU (p.A x + p.B z - p.c)

/-- `ProximalADMM.norm_dual_residual` -/
def padmmNormDualImpl (p : PADMMParams K X Z U) (s : PADMMState X Z U) : K :=
  if p.fastDual then
    -- rsdl = self.z - self.z_old
    p.normZ (s.z - s.zOld)
  else
    -- rsdl = self.A.H(self.B(self.z - self.z_old))
    p.normX (p.AH (p.B (s.z - s.zOld)))

def padmmNormDualSpec (p : PADMMParams K X Z U) (s : PADMMState X Z U) : K :=
  match p.fastDual with
  | true => p.normZ (s.z - s.zOld)
  | false => p.normX (p.AH (p.B (s.z - s.zOld)))

def padmmMinimizer (s : PADMMState X Z U) : X := s.x

end PADMM

structure NLPADMMParams (K X Z U : Type) where
  f : X → K
  g : Z → K
  proxf : K → X → X
  proxg : K → Z → Z
  H : X → Z → U
  /-- `H.vjp(0, x, z, conjugate=True)[1]` : `(J_x H(x,z))ᴴ` -/
  JxH : X → Z → U → X
  /-- `H.vjp(1, x, z, conjugate=True)[1]` : `(J_z H(x,z))ᴴ` -/
  JzH : X → Z → U → Z
  /-- `jvp(H(x,·), z, w)` : `J_z H(x,z) w` -/
  Jz : X → Z → Z → U
  rho : K
  mu : K
  nu : K
  fastDual : Bool
  normX : X → K
  normZ : Z → K
  normU : U → K

section NLPADMM
variable {K X Z U : Type}
variable [Add U] [Sub U] [SMul K U] [Sub X] [SMul K X] [Sub Z] [SMul K Z]
  [Div K] [Mul K] [One K] [OfNat K 2]

/-- `NonLinearPADMM.step` -/
def nlpadmmImplStep (p : NLPADMMParams K X Z U) (s : PADMMState X Z U) : PADMMState X Z U :=
  -- AH = self.H.vjp(0, self.x, self.z, conjugate=True)[1]
  let AH := p.JxH s.x s.z
  -- proxarg = self.x - (1.0 / self.mu) * AH(2.0 * self.u - self.u_old)
  let proxarg := s.x - (1 / p.mu) • AH ((2 : K) • s.u - s.uOld)
  -- self.x = self.f.prox(proxarg, (1.0 / (self.rho * self.mu)), v0=self.x)
  let s := { s with x := p.proxf (1 / (p.rho * p.mu)) proxarg }
  -- BH = self.H.vjp(1, self.x, self.z, conjugate=True)[1]
  let BH := p.JzH s.x s.z
  -- proxarg = self.z - (1.0 / self.nu) * BH(self.H(self.x, self.z) + self.u)
  let proxarg := s.z - (1 / p.nu) • BH (p.H s.x s.z + s.u)
  -- self.z_old = self.z
  let s := { s with zOld := s.z }
  -- self.z = self.g.prox(proxarg, (1.0 / (self.rho * self.nu)), v0=self.z)
  let s := { s with z := p.proxg (1 / (p.rho * p.nu)) proxarg }
  -- self.u_old = self.u
  let s := { s with uOld := s.u }
  -- self.u = self.u + self.H(self.x, self.z)
  { s with u := s.u + p.H s.x s.z }

variable [Inv K]

/-- class docstring of `NonLinearPADMM`: `A = J_x H(x,z)`, `B = J_z H(x⁺,z)` -/
def nlpadmmSpecStep (p : NLPADMMParams K X Z U) (s : PADMMState X Z U) : PADMMState X Z U :=
  let xn := p.proxf (p.rho⁻¹ * p.mu⁻¹) (s.x - p.mu⁻¹ • p.JxH s.x s.z ((2 : K) • s.u - s.uOld))
  let zn := p.proxg (p.rho⁻¹ * p.nu⁻¹) (s.z - p.nu⁻¹ • p.JzH xn s.z (p.H xn s.z + s.u))
  { x := xn, z := zn, zOld := s.z, u := s.u + p.H xn zn, uOld := s.u }

def nlpadmmNormPrimalImpl (p : NLPADMMParams K X Z U) (s : PADMMState X Z U) (x : Option X)
    (z : Option Z) : Except Err K :=
  match x, z with
  | some _, none => .error .value
  | none, some _ => .error .value
  | some x, some z => .ok (p.normU (p.H x z))
  | none, none => .ok (p.normU (p.H s.x s.z))

def nlpadmmNormPrimalSpec (p : NLPADMMParams K X Z U) (x : X) (z : Z) : K := p.normU (p.H x z)

/-- `NonLinearPADMM.norm_dual_residual` -/
def nlpadmmNormDualImpl (p : NLPADMMParams K X Z U) (s : PADMMState X Z U) : K :=
  if p.fastDual then
    p.normZ (s.z - s.zOld)
  else
    -- B = lambda u: jvp(Hz, (self.z,), (u,))[1];  AH = cvjp(Hx, self.x)[1];  rsdl = AH(B(self.z - self.z_old))
    p.normX (p.JxH s.x s.z (p.Jz s.x s.z (s.z - s.zOld)))

/-- documented: `‖Aᵀ B (z⁺ − z)‖`, `A = J_x H(x⁺,z⁺)`, `B = J_z H(x⁺,z⁺)` -/
def nlpadmmNormDualSpec (p : NLPADMMParams K X Z U) (s : PADMMState X Z U) : K :=
  match p.fastDual with
  | true => p.normZ (s.z - s.zOld)
  | false => p.normX (p.JxH s.x s.z (p.Jz s.x s.z (s.z - s.zOld)))

end NLPADMM

/-! ## PDHG  (`scico/optimize/_primaldual.py`) -/

structure PDHGParams (K X Z : Type) where
  f : X → K
  g : Z → K
  proxf : K → X → X
  /-- `g.conj_prox(v, lam)` = `prox_{lam g*}(v)` -/
  proxgConj : K → Z → Z
  C : X → Z
  /-- `isinstance(self.C, LinearOperator)` -/
  linear : Bool
  /-- `C.conj().T` (linear case) -/
  Cadj : Z → X
  /-- `C.vjp(x, conjugate=True)[1]` : `(J C(x))ᴴ` -/
  JCadj : X → Z → X
  tau : K
  sigma : K
  alpha : K
  normX : X → K
  normZ : Z → K

structure PDHGState (X Z : Type) where
  x : X
  xOld : X
  z : Z
  zOld : Z

section PDHG
variable {K X Z : Type}

def pdhgInit [Zero X] [Zero Z] (x0 : Option X) (z0 : Option Z) : PDHGState X Z :=
  let x := match x0 with
    | none => (0 : X)
    | some x => x
  let z := match z0 with
    | none => (0 : Z)
    | some z => z
  { x := x, xOld := x, z := z, zOld := z }

variable [Add Z] [Sub X] [SMul K X] [SMul K Z] [Add K] [One K]

/-- `PDHG.step` -/
def pdhgImplStep (p : PDHGParams K X Z) (s : PDHGState X Z) : PDHGState X Z :=
  -- self.x_old = self.x
  let s := { s with xOld := s.x }
  -- self.z_old = self.z
  let s := { s with zOld := s.z }
  -- if isinstance(self.C, LinearOperator): proxarg = self.x - self.tau * self.C.conj().T(self.z)
  -- else: proxarg = self.x - self.tau * self.C.vjp(self.x, conjugate=True)[1](self.z)
  let proxarg := if p.linear then s.x - p.tau • p.Cadj s.z else s.x - p.tau • p.JCadj s.x s.z
  -- self.x = self.f.prox(proxarg, self.tau, v0=self.x)
  let s := { s with x := p.proxf p.tau proxarg }
  -- proxarg = self.z + self.sigma * self.C((1.0 + self.alpha) * self.x - self.alpha * self.x_old)
  let proxarg := s.z + p.sigma • p.C ((1 + p.alpha) • s.x - p.alpha • s.xOld)
  -- self.z = self.g.conj_prox(proxarg, self.sigma, v0=self.z)
  { s with z := p.proxgConj p.sigma proxarg }

/-- class docstring: `x⁺ = prox_{τf}(x − τ Cᵀz)` (linear) or `prox_{τf}(x − τ [J C(x)]ᵀ z)`,
    `z⁺ = prox_{σg*}(z + σ C((1+α)x⁺ − αx))` -/
def pdhgSpecStep (p : PDHGParams K X Z) (s : PDHGState X Z) : PDHGState X Z :=
  let xn := match p.linear with
    | true => p.proxf p.tau (s.x - p.tau • p.Cadj s.z)
    | false => p.proxf p.tau (s.x - p.tau • p.JCadj s.x s.z)
  let zn := p.proxgConj p.sigma (s.z + p.sigma • p.C ((1 + p.alpha) • xn - p.alpha • s.x))
  { x := xn, xOld := s.x, z := zn, zOld := s.z }

/-- `PDHG.objective(x)` -/
def pdhgObjectiveImpl (p : PDHGParams K X Z) (s : PDHGState X Z) (x : Option X) : K :=
  let x := match x with
    | none => s.x
    | some x => x
  p.f x + p.g (p.C x)

def pdhgObjectiveSpec (p : PDHGParams K X Z) (x : X) : K := p.f x + p.g (p.C x)

variable [Div K] [Sub Z]

/-- `norm(self.x - self.x_old) / self.tau` -/
def pdhgNormPrimalImpl (p : PDHGParams K X Z) (s : PDHGState X Z) : K :=
  p.normX (s.x - s.xOld) / p.tau

/-- `norm(self.z - self.z_old) / self.sigma` -/
def pdhgNormDualImpl (p : PDHGParams K X Z) (s : PDHGState X Z) : K :=
  p.normZ (s.z - s.zOld) / p.sigma

variable [Inv K] [Mul K]

/-- documented: `τ⁻¹ ‖x − x_old‖` -/
def pdhgNormPrimalSpec (p : PDHGParams K X Z) (s : PDHGState X Z) : K :=
  p.tau⁻¹ * p.normX (s.x - s.xOld)

/-- documented: `σ⁻¹ ‖z − z_old‖` -/
def pdhgNormDualSpec (p : PDHGParams K X Z) (s : PDHGState X Z) : K :=
  p.sigma⁻¹ * p.normZ (s.z - s.zOld)

def pdhgMinimizer (s : PDHGState X Z) : X := s.x

end PDHG

/-! ## PGM and accelerated PGM  (`scico/optimize/_pgm.py`; `_pgmaux.py` only for the hook) -/

/-- which `isinstance` tests of `AcceleratedPGM.step` the step-size object passes -/
inductive PolKind where
  | base | bb | adaptiveBB | lineSearch | robust
  deriving Repr, DecidableEq

def PolKind.isBB : PolKind → Bool
  | .bb => true
  | .adaptiveBB => true
  | _ => false

def PolKind.isRobust : PolKind → Bool
  | .robust => true
  | _ => false

/-- the step-size object as a hook: `update mem L x v` is `step_size.update(v)` run with memory
    `mem` while `pgm.L = L`, `pgm.x = x`; returns the new `L` and memory.  `getZ` is the attribute
    `step_size.Z` (robust line search).  The policies themselves are property C16. -/
structure Policy (σ K X : Type) where
  kind : PolKind
  update : σ → K → X → X → K × σ
  getZ : σ → X

/-- `PGMStepSize.update` of the base class: `return self.pgm.L` -/
def basePolicy {K X : Type} (dummyZ : X) : Policy Unit K X :=
  { kind := .base, update := fun m L _ _ => (L, m), getZ := fun _ => dummyZ }

/-- memory of `BBStepSize`: `(xprev, gradprev)`, `None` before the first call -/
abbrev BBMem (X : Type) := Option (X × X)

/-- `BBStepSize.update` (`_pgmaux.py`).  `reInner a b` is `real(sum(conj(a) * b))`, `ok L` is
    `isfinite(L) and L > 0` (the IEEE details of that test are property C16).  Documented (class docstring):
    `Δx = x_k − x_{k−1}`, `Δg = ∇f(x_k) − ∇f(x_{k−1})`, `L = ΔgᵀΔg / ΔxᵀΔg`, "when the inner product is negative, the
    previous iterate is used instead"; the memory is refreshed with `(v, ∇f(v))` in EVERY call (also after a
    rejected value), so that the differences are always between consecutive iterates. -/
def bbPolicy {K X : Type} [Sub X] [Div K] (gradf : X → X) (reInner : X → X → K) (ok : K → Bool) (dummyZ : X) :
    Policy (BBMem X) K X :=
  { kind := .bb,
    update := fun mem L _ v =>
      match mem with
      -- if self.xprev is None: self.xprev = v; self.gradprev = self.pgm.f.grad(self.xprev); L = self.pgm.L
      | none => (L, some (v, gradf v))
      | some (xp, gp) =>
        -- Δx = v - self.xprev; gradv = self.pgm.f.grad(v); Δg = gradv - self.gradprev
        let dx := v - xp
        let gv := gradf v
        let dg := gv - gp
        -- den = real(sum(Δx.conj() * Δg)); num = real(sum(Δg.conj() * Δg)); L = num / den
        let Ln := reInner dg dg / reInner dx dg
        -- if not isfinite(L) or L <= 0.0: L = self.pgm.L ;  self.xprev = v; self.gradprev = gradv
        ((if ok Ln then Ln else L), some (v, gv)),
    getZ := fun _ => dummyZ }

/-- memory of `AdaptiveBBStepSize`: `(xprev, gradprev)`, `Lbb1prev`, `Lbb2prev` (each `None` until first set) -/
structure ABBMem (K X : Type) where
  prev : Option (X × X)
  l1 : Option K
  l2 : Option K

/-- `AdaptiveBBStepSize.update` -/
def abbPolicy {K X : Type} [Sub X] [Div K] [LT K] [DecidableLT K] (gradf : X → X) (reInner : X → X → K)
    (ok : K → Bool) (kappa : K) (dummyZ : X) : Policy (ABBMem K X) K X :=
  { kind := .adaptiveBB,
    update := fun mem L _ v =>
      match mem.prev with
      | none => (L, { mem with prev := some (v, gradf v) })
      | some (xp, gp) =>
        let dx := v - xp
        let gv := gradf v
        let dg := gv - gp
        let xx := reInner dx dx
        let xg := reInner dx dg
        let gg := reInner dg dg
        -- Lbb1 = innerxg / innerxx; if not isfinite or <= 0: Lbb1 = self.Lbb1prev
        let l1 := if ok (xg / xx) then some (xg / xx) else mem.l1
        -- Lbb2 = innergg / innerxg; if not isfinite or <= 0: Lbb2 = self.Lbb2prev
        let l2 := if ok (gg / xg) then some (gg / xg) else mem.l2
        -- if Lbb1 is not None and Lbb2 is not None: L = Lbb2 if Lbb1 / Lbb2 < kappa else Lbb1 ; else L = self.pgm.L
        let Ln := match l1, l2 with
          | some a, some b => if a / b < kappa then b else a
          | _, _ => L
        (Ln, { prev := some (v, gv), l1 := l1, l2 := l2 }),
    getZ := fun _ => dummyZ }

structure PGMParams (σ K X : Type) where
  f : X → K
  g : X → K
  gradf : X → X
  proxg : K → X → X
  pol : Policy σ K X
  normX : X → K

structure PGMState (σ K X : Type) where
  x : X
  L : K
  /-- `fixed_point_residual` -/
  fpr : K
  mem : σ

structure APGMState (σ K X : Type) where
  x : X
  v : X
  t : K
  L : K
  fpr : K
  mem : σ

section PGM
variable {σ K X : Type}

/-- `PGM.__init__` : `L = L0`, `fixed_point_residual = inf`, `x = x0` -/
def pgmInit (L0 : K) (inf : K) (x0 : X) (mem0 : σ) : PGMState σ K X :=
  { x := x0, L := L0, fpr := inf, mem := mem0 }

/-- `AcceleratedPGM.__init__` : additionally `v = x0`, `t = 1.0` -/
def apgmInit [One K] (L0 : K) (inf : K) (x0 : X) (mem0 : σ) : APGMState σ K X :=
  { x := x0, v := x0, t := 1, L := L0, fpr := inf, mem := mem0 }

/-- `PGM.__init__` / `AcceleratedPGM.__init__` with the argument check `if g.has_prox is not True: raise ValueError` -/
def pgmInitChecked (hasProx : Bool) (L0 : K) (inf : K) (x0 : X) (mem0 : σ) : Except Err (PGMState σ K X) :=
  if hasProx then .ok (pgmInit L0 inf x0 mem0) else .error .value

def apgmInitChecked [One K] (hasProx : Bool) (L0 : K) (inf : K) (x0 : X) (mem0 : σ) : Except Err (APGMState σ K X) :=
  if hasProx then .ok (apgmInit L0 inf x0 mem0) else .error .value

variable [Sub X] [SMul K X] [Div K] [One K]

/-- `x_step(v, L) = self.g.prox(v - 1.0 / L * self.f.grad(v), 1.0 / L)` -/
def pgmXStep (p : PGMParams σ K X) (v : X) (L : K) : X :=
  p.proxg (1 / L) (v - (1 / L) • p.gradf v)

/-- `PGM.step` -/
def pgmImplStep (p : PGMParams σ K X) (s : PGMState σ K X) : PGMState σ K X :=
  -- self.L = self.step_size.update(self.x)
  let r := p.pol.update s.mem s.L s.x s.x
  let s := { s with L := r.1, mem := r.2 }
  -- x = self.x_step(self.x, self.L)
  let x := pgmXStep p s.x s.L
  -- self.fixed_point_residual = snp.linalg.norm(self.x - x)
  let s := { s with fpr := p.normX (s.x - x) }
  -- self.x = x
  { s with x := x }

variable [Inv K]

/-- documented: with `L` supplied by the step-size object, step size `1/L`:
    `x⁺ = prox_{g/L}(x − (1/L) ∇f(x))`, residual `‖x − x⁺‖` -/
def pgmSpecStep (p : PGMParams σ K X) (s : PGMState σ K X) : PGMState σ K X :=
  let L := (p.pol.update s.mem s.L s.x s.x).1
  let xn := p.proxg L⁻¹ (s.x - L⁻¹ • p.gradf s.x)
  { x := xn, L := L, fpr := p.normX (s.x - xn), mem := (p.pol.update s.mem s.L s.x s.x).2 }

variable [Add K] [Mul K] [Sub K] [OfNat K 2] [OfNat K 4] [HasSqrt K] [Add X]

/-- the FISTA momentum recursion `t⁺ = (1 + √(1 + 4t²))/2` as the code writes it -/
def fistaTImpl (tOld : K) : K :=
  -- 0.5 * (1 + snp.sqrt(1 + 4 * t_old**2))
  (1 + HasSqrt.sqrt (1 + 4 * (tOld * tOld))) / 2

/-- `AcceleratedPGM.step` -/
def apgmImplStep (p : PGMParams σ K X) (s : APGMState σ K X) : APGMState σ K X :=
  -- x_old = self.x
  let xOld := s.x
  -- if isinstance(self.step_size, (AdaptiveBBStepSize, BBStepSize)): self.L = self.step_size.update(self.x)
  -- else: self.L = self.step_size.update(self.v)
  let r := if p.pol.kind.isBB then p.pol.update s.mem s.L s.x s.x else p.pol.update s.mem s.L s.x s.v
  let s := { s with L := r.1, mem := r.2 }
  if p.pol.kind.isRobust then
    -- self.x = self.step_size.Z
    let s := { s with x := p.pol.getZ s.mem }
    -- self.fixed_point_residual = snp.linalg.norm(self.x - x_old)
    { s with fpr := p.normX (s.x - xOld) }
  else
    -- self.x = self.x_step(self.v, self.L)
    let s := { s with x := pgmXStep p s.v s.L }
    -- self.fixed_point_residual = snp.linalg.norm(self.x - self.v)
    let s := { s with fpr := p.normX (s.x - s.v) }
    -- t_old = self.t
    let tOld := s.t
    -- self.t = 0.5 * (1 + snp.sqrt(1 + 4 * t_old**2))
    let s := { s with t := fistaTImpl tOld }
    -- self.v = self.x + ((t_old - 1) / self.t) * (self.x - x_old)
    { s with v := s.x + ((tOld - 1) / s.t) • (s.x - xOld) }

/-- FISTA (Beck–Teboulle 2009, cited by the class docstring), `y = v`:
    `x_k = p_L(y_k)`, `t_{k+1} = (1+√(1+4t_k²))/2`, `y_{k+1} = x_k + ((t_k − 1)/t_{k+1})(x_k − x_{k−1})`;
    the step-size object is consulted at `x` (Barzilai–Borwein policies) or at `y`;
    the robust line search replaces the whole update by its own iterate `Z` -/
def apgmSpecStep (p : PGMParams σ K X) (s : APGMState σ K X) : APGMState σ K X :=
  let arg := match p.pol.kind with
    | .bb => s.x
    | .adaptiveBB => s.x
    | _ => s.v
  let L := (p.pol.update s.mem s.L s.x arg).1
  let mem := (p.pol.update s.mem s.L s.x arg).2
  match p.pol.kind with
  | .robust =>
    { x := p.pol.getZ mem, v := s.v, t := s.t, L := L, fpr := p.normX (p.pol.getZ mem - s.x), mem := mem }
  | _ =>
    let xn := p.proxg L⁻¹ (s.v - L⁻¹ • p.gradf s.v)
    let tn := (1 + HasSqrt.sqrt (1 + 4 * (s.t * s.t))) / 2
    { x := xn, v := xn + ((s.t - 1) / tn) • (xn - s.x), t := tn, L := L, fpr := p.normX (xn - s.v),
      mem := mem }

/-- `PGM.objective(x)` -/
def pgmObjectiveImpl (p : PGMParams σ K X) (cur : X) (x : Option X) : K :=
  let x := match x with
    | none => cur
    | some x => x
  p.f x + p.g x

def pgmObjectiveSpec (p : PGMParams σ K X) (x : X) : K := p.f x + p.g x

/-- `PGM.f_quad_approx(x, y, L)`; `re_inner a b` is `sum(real(conj(a) * b))` -/
def pgmFQuadApproxImpl (p : PGMParams σ K X) (reInner : X → X → K) (x y : X) (L : K) : K :=
  -- diff_xy = x - y
  let d := x - y
  -- self.f(y) + snp.sum(snp.real(snp.conj(self.f.grad(y)) * diff_xy)) + 0.5 * L * snp.linalg.norm(diff_xy) ** 2
  p.f y + reInner (p.gradf y) d + L / 2 * (p.normX d * p.normX d)

/-- documented: `f(y) + ∇f(y)ᴴ(x − y) + (L/2)‖x − y‖²` -/
def pgmFQuadApproxSpec (p : PGMParams σ K X) (reInner : X → X → K) (x y : X) (L : K) : K :=
  p.f y + reInner (p.gradf y) (x - y) + L / 2 * (p.normX (x - y) * p.normX (x - y))

/-- `PGM.norm_residual()` : `return self.fixed_point_residual` -/
def pgmNormResidual (s : PGMState σ K X) : K := s.fpr
def apgmNormResidual (s : APGMState σ K X) : K := s.fpr

def pgmMinimizer (s : PGMState σ K X) : X := s.x
def apgmMinimizer (s : APGMState σ K X) : X := s.x

end PGM

end Scico.Steps
