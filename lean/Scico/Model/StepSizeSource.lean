/-
  Data of `scico/optimize/_pgmaux.py`, `_pgm.py` that the model of `Scico/Model/StepSize.lean` copies — constructor defaults,
  class hierarchy, the `isinstance` dispatch of `PGM.step` / `AcceleratedPGM.step`, and the normalised statement lists of the
  transcribed methods.  `harness/stepsize_translate.py` re-reads all of it from the working tree on every run and
  `Scico/Generated/StepSizeTables.lean` states (by `decide`) that the source still equals these tables; `Proofs/StepSizeSource.lean`
  links the tables to the model functions (`Policy.isBB`, `PolOK` of the default parameters).  Mathlib-free.
-/
import Scico.Model.StepSize

namespace Scico.StepSize

/-- a default value as written in the source: `None`, an integer, a decimal `mant·10^-exp`, anything else verbatim;
    `required` = the parameter has no default -/
inductive PyLit where
  | none
  | int (n : Int)
  | dec (mant : Int) (exp : Nat)
  | other (src : String)
  | required
deriving DecidableEq, Repr

/-- the argument of `step_size.update(...)` and the classes named by the `isinstance` tests of the two `step` methods -/
structure Dispatch where
  /-- `PGM.step`: `self.L = self.step_size.update(<pgmArg>)` -/
  pgmArg : String
  /-- `AcceleratedPGM.step`: `if isinstance(self.step_size, (<apgmArgClasses>)): update(<apgmArgThen>) else: update(<apgmArgElse>)` -/
  apgmArgClasses : List String
  apgmArgThen : String
  apgmArgElse : String
  /-- `if isinstance(self.step_size, <apgmZClasses>): self.x = <apgmZThen>` -/
  apgmZClasses : List String
  apgmZThen : String
deriving DecidableEq, Repr

/-- the scico class of a model policy -/
def Policy.className {S : Type} : Policy S → String
  | .base => "PGMStepSize"
  | .bb => "BBStepSize"
  | .abb _ => "AdaptiveBBStepSize"
  | .ls _ _ => "LineSearchStepSize"
  | .rls _ _ _ => "RobustLineSearchStepSize"

/-- `issubclass(c, d)` for a table of (class, base class, …), following the single base at most `fuel` times -/
def isSubclass {β : Type} (tbl : List (String × String × β)) : Nat → String → String → Bool
  | 0, c, d => c == d
  | fuel + 1, c, d =>
    c == d ||
      match tbl.find? (fun r => r.1 == c) with
      | some r => r.2.1 != "" && isSubclass tbl fuel r.2.1 d
      | none => false

/-- `isinstance(obj of class c, (d₁, d₂, …))` -/
def isInstanceOf {β : Type} (tbl : List (String × String × β)) (c : String) (ds : List String) : Bool :=
  ds.any (fun d => isSubclass tbl tbl.length c d)

/-! ## the tables (copied from the source; kept equal to it by the generated obligations) -/

def policyClasses : List (String × String × List (String × PyLit)) := [
  ("PGMStepSize", "", []),
  ("BBStepSize", "PGMStepSize", []),
  ("AdaptiveBBStepSize", "PGMStepSize", [("kappa", PyLit.dec (5) 1)]),
  ("LineSearchStepSize", "PGMStepSize", [("gamma_u", PyLit.dec (12) 1), ("maxiter", PyLit.int (50))]),
  ("RobustLineSearchStepSize", "LineSearchStepSize", [("gamma_d", PyLit.dec (9) 1), ("gamma_u", PyLit.dec (20) 1), ("maxiter", PyLit.int (50))])]

def dispatch : Dispatch :=
  { pgmArg := "self.x", apgmArgClasses := ["AdaptiveBBStepSize", "BBStepSize"], apgmArgThen := "self.x",
    apgmArgElse := "self.v", apgmZClasses := ["RobustLineSearchStepSize"], apgmZThen := "self.step_size.Z" }

def sourceSkeletons : List (String × List (Nat × String)) := [
  ("PGMStepSize.__init__", []),
  ("PGMStepSize._set_g_prox", []),
  ("PGMStepSize.internal_init", [
    (0, "self.pgm = pgm")]),
  ("PGMStepSize.update", [
    (0, "return self.pgm.L")]),
  ("BBStepSize.__init__", [
    (0, "self.xprev = None"),
    (0, "self.gradprev = None")]),
  ("BBStepSize._set_g_prox", []),
  ("BBStepSize.internal_init", [
    (0, "super().internal_init(pgm)"),
    (0, "self.xprev = None"),
    (0, "self.gradprev = None")]),
  ("BBStepSize.update", [
    (0, "if self.xprev is None:"),
    (1, "self.xprev = v"),
    (1, "self.gradprev = self.pgm.f.grad(self.xprev)"),
    (1, "L = self.pgm.L"),
    (0, "else:"),
    (1, "Δx = v - self.xprev"),
    (1, "gradv = self.pgm.f.grad(v)"),
    (1, "Δg = gradv - self.gradprev"),
    (1, "den = snp.real(snp.sum(Δx.conj() * Δg))"),
    (1, "num = snp.real(snp.sum(Δg.conj() * Δg))"),
    (1, "L = num / den"),
    (1, "if not snp.isfinite(L) or L <= 0.0:"),
    (2, "L = self.pgm.L"),
    (1, "self.xprev = v"),
    (1, "self.gradprev = gradv"),
    (0, "return L")]),
  ("AdaptiveBBStepSize.__init__", [
    (0, "self.kappa = kappa"),
    (0, "self.xprev = None"),
    (0, "self.gradprev = None"),
    (0, "self.Lbb1prev = None"),
    (0, "self.Lbb2prev = None")]),
  ("AdaptiveBBStepSize._set_g_prox", []),
  ("AdaptiveBBStepSize.internal_init", [
    (0, "super().internal_init(pgm)"),
    (0, "self.xprev = None"),
    (0, "self.gradprev = None"),
    (0, "self.Lbb1prev = None"),
    (0, "self.Lbb2prev = None")]),
  ("AdaptiveBBStepSize.update", [
    (0, "if self.xprev is None:"),
    (1, "self.xprev = v"),
    (1, "self.gradprev = self.pgm.f.grad(self.xprev)"),
    (1, "L = self.pgm.L"),
    (0, "else:"),
    (1, "Δx = v - self.xprev"),
    (1, "gradv = self.pgm.f.grad(v)"),
    (1, "Δg = gradv - self.gradprev"),
    (1, "innerxx = snp.real(snp.sum(Δx.conj() * Δx))"),
    (1, "innerxg = snp.real(snp.sum(Δx.conj() * Δg))"),
    (1, "innergg = snp.real(snp.sum(Δg.conj() * Δg))"),
    (1, "Lbb1 = innerxg / innerxx"),
    (1, "if not snp.isfinite(Lbb1) or Lbb1 <= 0.0:"),
    (2, "Lbb1 = self.Lbb1prev"),
    (1, "Lbb2 = innergg / innerxg"),
    (1, "if not snp.isfinite(Lbb2) or Lbb2 <= 0.0:"),
    (2, "Lbb2 = self.Lbb2prev"),
    (1, "if Lbb1 is not None and Lbb2 is not None:"),
    (2, "if Lbb1 / Lbb2 < self.kappa:"),
    (3, "L = Lbb2"),
    (2, "else:"),
    (3, "L = Lbb1"),
    (1, "else:"),
    (2, "L = self.pgm.L"),
    (1, "self.xprev = v"),
    (1, "self.gradprev = gradv"),
    (1, "self.Lbb1prev = Lbb1"),
    (1, "self.Lbb2prev = Lbb2"),
    (0, "return L")]),
  ("LineSearchStepSize.__init__", [
    (0, "self.gamma_u = gamma_u"),
    (0, "self.maxiter = maxiter"),
    (0, "self._set_g_prox()")]),
  ("LineSearchStepSize._set_g_prox", [
    (0, "def g_prox(v, gradv, L):"),
    (1, "return self.pgm.g.prox(v - 1.0 / L * gradv, 1.0 / L)"),
    (0, "self.g_prox = jax.jit(g_prox)")]),
  ("LineSearchStepSize.internal_init", [
    (0, "super().internal_init(pgm)"),
    (0, "self._set_g_prox()")]),
  ("LineSearchStepSize.update", [
    (0, "gradv = self.pgm.f.grad(v)"),
    (0, "L = self.pgm.L"),
    (0, "it = 0"),
    (0, "while it < self.maxiter:"),
    (1, "z = self.g_prox(v, gradv, L)"),
    (1, "fz = self.pgm.f(z)"),
    (1, "fquad = self.pgm.f_quad_approx(z, v, L)"),
    (1, "if fz <= fquad:"),
    (2, "break"),
    (1, "it += 1"),
    (1, "if it < self.maxiter:"),
    (2, "L *= self.gamma_u"),
    (0, "return L")]),
  ("RobustLineSearchStepSize.__init__", [
    (0, "super(RobustLineSearchStepSize, self).__init__(gamma_u, maxiter)"),
    (0, "self.gamma_d = gamma_d"),
    (0, "self.Tk = 0.0"),
    (0, "self.Zrb = None"),
    (0, "self.Z = None")]),
  ("RobustLineSearchStepSize._set_g_prox", []),
  ("RobustLineSearchStepSize.internal_init", [
    (0, "super().internal_init(pgm)"),
    (0, "self.Tk = 0.0"),
    (0, "self.Zrb = None"),
    (0, "self.Z = None")]),
  ("RobustLineSearchStepSize.update", [
    (0, "if self.Zrb is None:"),
    (1, "self.Zrb = self.pgm.x"),
    (0, "L = self.pgm.L * self.gamma_d"),
    (0, "it = 0"),
    (0, "while it < self.maxiter:"),
    (1, "t = (1.0 + snp.sqrt(1.0 + 4.0 * L * self.Tk)) / (2.0 * L)"),
    (1, "T = self.Tk + t"),
    (1, "y = (self.Tk * self.pgm.x + t * self.Zrb) / T"),
    (1, "z = self.pgm.x_step(y, L)"),
    (1, "fz = self.pgm.f(z)"),
    (1, "fquad = self.pgm.f_quad_approx(z, y, L)"),
    (1, "if fz <= fquad:"),
    (2, "break"),
    (1, "it += 1"),
    (1, "if it < self.maxiter:"),
    (2, "L *= self.gamma_u"),
    (0, "self.Tk = T"),
    (0, "self.Zrb += t * L * (z - y)"),
    (0, "self.Z = z"),
    (0, "return L")]),
  ("PGM.__init__", [
    (0, "self.f = f"),
    (0, "if g.has_prox is not True:"),
    (1, "raise ValueError"),
    (0, "self.g = g"),
    (0, "if step_size is None:"),
    (1, "step_size = PGMStepSize()"),
    (0, "self.step_size = step_size"),
    (0, "self.step_size.internal_init(self)"),
    (0, "self.L = L0"),
    (0, "self.fixed_point_residual = snp.inf"),
    (0, "def x_step(v, L):"),
    (1, "return self.g.prox(v - 1.0 / L * self.f.grad(v), 1.0 / L)"),
    (0, "self.x_step = jax.jit(x_step)"),
    (0, "self.x = x0"),
    (0, "super().__init__(**kwargs)")]),
  ("PGM.f_quad_approx", [
    (0, "diff_xy = x - y"),
    (0, "return self.f(y) + snp.sum(snp.real(snp.conj(self.f.grad(y)) * diff_xy)) + 0.5 * L * snp.linalg.norm(diff_xy) ** 2")]),
  ("PGM.step", [
    (0, "self.L = self.step_size.update(self.x)"),
    (0, "x = self.x_step(self.x, self.L)"),
    (0, "self.fixed_point_residual = snp.linalg.norm(self.x - x)"),
    (0, "self.x = x")]),
  ("AcceleratedPGM.__init__", [
    (0, "super().__init__(f=f, g=g, L0=L0, x0=x0, step_size=step_size, **kwargs)"),
    (0, "self.v = x0"),
    (0, "self.t = 1.0")]),
  ("AcceleratedPGM.step", [
    (0, "x_old = self.x"),
    (0, "if isinstance(self.step_size, (AdaptiveBBStepSize, BBStepSize)):"),
    (1, "self.L = self.step_size.update(self.x)"),
    (0, "else:"),
    (1, "self.L = self.step_size.update(self.v)"),
    (0, "if isinstance(self.step_size, RobustLineSearchStepSize):"),
    (1, "self.x = self.step_size.Z"),
    (1, "self.fixed_point_residual = snp.linalg.norm(self.x - x_old)"),
    (0, "else:"),
    (1, "self.x = self.x_step(self.v, self.L)"),
    (1, "self.fixed_point_residual = snp.linalg.norm(self.x - self.v)"),
    (1, "t_old = self.t"),
    (1, "self.t = 0.5 * (1 + snp.sqrt(1 + 4 * t_old ** 2))"),
    (1, "self.v = self.x + (t_old - 1) / self.t * (self.x - x_old)")])]

end Scico.StepSize
