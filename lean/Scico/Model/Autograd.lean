/-
  Model of scico's differentiation layer (DESIGN §5.7, property C07).  Mathlib-free, executable.

  What is transcribed (file:function → definition here)

  * `scico/_autograd.py`
      - `grad`, `value_and_grad`, `jacrev`  : `tree_map(conj, jg)`           → `scicoGrad` (= `conjVec`)
      - `linear_adjoint`                    : `conj_fun` + three-way branch  → `conjFun`, `linearAdjoint`
      - `cvjp`                              : `conj(fun_vjp(tangent.conj()))`→ `cvjpWrap`;
                                              `scico.util.partial` merge     → `mergeArgs`, `cvjpFix`
  * `scico/operator/_operator.py`
      - `Operator.jvp`                      : `jax.jvp(self,(u,),(v,))`      → pair `(F u, J v)` (`jvpPair`)
      - `Operator.vjp(u, conjugate)`        : `Gmap`                         → `vjpWrap`
  * `scico/linop/_util.py:jacobian`         : `eval_fn`/`adj_fn`, both forms → `jacobianEval`, `jacobianAdj`
  * `scico/function.py`                     : `slice`/`jvp`/`vjp`/`jacobian` argument plumbing
                                                                             → `sliceArgs`, `fixArgs`
  * `scico/functional/_functional.py`, `_norm.py`, `scico/loss.py`
      - every differentiable `__call__`                                      → `Fn.eval`
      - `Functional.__init__ : self._grad = scico.grad(self.__call__)`       → `Fn.grad = conjVec ∘ Fn.jaxGrad`
        where `Fn.jaxGrad` transcribes what `jax.grad` returns for that `__call__` under JAX's
        documented convention (cotangent propagation with *plain* transposes, branch selection of
        `where`/`lax.cond`); it is the **contract** of the JAX primitive, not scico code, and the proofs
        show that it satisfies the contract `d/dt f(x+td) = Re Σ jgᵢ dᵢ`.
      - `ScaledFunctional`, `FunctionalSum`, `SeparableFunctional`, `Loss`, `SquaredL2Loss`
      - `SquaredL2Loss.hessian`                                              → `hessianApply`, `hessianMat`
      - `Loss.__mul__/__truediv__/set_scale` (copy + re-bound gradient closure) → `Heap` machine

  Complex numbers are pairs `Cx α`; a real array is a complex one with zero imaginary part.
  All definitions are polymorphic in the real scalar type `α`: `Float` in the driver, `ℝ` (or a
  generic field) in the proofs.
-/
import Scico.Common.Scalar

namespace Scico.Autograd
open Scico

/-- natural logarithm as an operation (`Float.log` at run time, `Real.log` in proofs) — used by
    `PoissonLoss` only -/
class HasLog (α : Type) where
  log : α → α

instance : HasLog Float := ⟨Float.log⟩

/-! ## complex scalars -/

structure Cx (α : Type) where
  re : α
  im : α
deriving Repr

namespace Cx
variable {α : Type}

instance [Zero α] : Zero (Cx α) := ⟨⟨0, 0⟩⟩
instance [Zero α] : Inhabited (Cx α) := ⟨0⟩
instance [Zero α] [One α] : One (Cx α) := ⟨⟨1, 0⟩⟩
instance [Add α] : Add (Cx α) := ⟨fun a b => ⟨a.re + b.re, a.im + b.im⟩⟩
instance [Sub α] : Sub (Cx α) := ⟨fun a b => ⟨a.re - b.re, a.im - b.im⟩⟩
instance [Neg α] : Neg (Cx α) := ⟨fun a => ⟨-a.re, -a.im⟩⟩
instance [Add α] [Sub α] [Mul α] : Mul (Cx α) :=
  ⟨fun a b => ⟨a.re * b.re - a.im * b.im, a.re * b.im + a.im * b.re⟩⟩

/-- complex conjugate (`jax.numpy.conj`) -/
def conj [Neg α] (a : Cx α) : Cx α := ⟨a.re, -a.im⟩
/-- real scalar times complex number -/
def smul [Mul α] (t : α) (a : Cx α) : Cx α := ⟨t * a.re, t * a.im⟩
/-- complex number divided by a real scalar -/
def divr [Div α] (a : Cx α) (t : α) : Cx α := ⟨a.re / t, a.im / t⟩
def ofReal [Zero α] (t : α) : Cx α := ⟨t, 0⟩
/-- `|a|²` -/
def abs2 [Add α] [Mul α] (a : Cx α) : α := a.re * a.re + a.im * a.im
/-- `|a|` -/
def abs [Add α] [Mul α] [HasSqrt α] (a : Cx α) : α := HasSqrt.sqrt (abs2 a)

end Cx

abbrev CVec (α : Type) (n : Nat) := Vec (Cx α) n
abbrev Mat (α : Type) (m n : Nat) := Fin m → Fin n → Cx α

section ops
variable {α : Type} {n m k : Nat}

def conjVec [Neg α] (v : CVec α n) : CVec α n := fun i => (v i).conj
def vadd [Add α] (u v : CVec α n) : CVec α n := fun i => u i + v i
def vsub [Sub α] (u v : CVec α n) : CVec α n := fun i => u i - v i
def vsmul [Mul α] (t : α) (v : CVec α n) : CVec α n := fun i => Cx.smul t (v i)
/-- the point `x + t d` -/
def along [Add α] [Mul α] (x d : CVec α n) (t : α) : CVec α n := fun i => x i + Cx.smul t (d i)

/-- bilinear pairing `Σ aᵢ bᵢ` (no conjugate) — the pairing JAX's transposes refer to -/
def bdot [Add α] [Sub α] [Mul α] [Zero α] (a b : CVec α n) : Cx α := Vec.sum (fun i => a i * b i)
/-- inner product `⟪g, d⟫ = Σ conj(gᵢ) dᵢ` -/
def cinner [Add α] [Sub α] [Mul α] [Zero α] [Neg α] (g d : CVec α n) : Cx α :=
  Vec.sum (fun i => (g i).conj * d i)
/-- `Re ⟪g, d⟫` -/
def reInner [Add α] [Sub α] [Mul α] [Zero α] [Neg α] (g d : CVec α n) : α := (cinner g d).re
/-- `Re Σ jgᵢ dᵢ` — the pairing of JAX's gradient contract -/
def reBdot [Add α] [Sub α] [Mul α] [Zero α] (jg d : CVec α n) : α := (bdot jg d).re

def mulVec [Add α] [Sub α] [Mul α] [Zero α] (A : Mat α m n) (x : CVec α n) : CVec α m :=
  fun i => Vec.sum (fun j => A i j * x j)
def transpose (A : Mat α m n) : Mat α n m := fun j i => A i j
def conjMat [Neg α] (A : Mat α m n) : Mat α m n := fun i j => (A i j).conj
/-- conjugate transpose `Aᴴ` -/
def adjMat [Neg α] (A : Mat α m n) : Mat α n m := transpose (conjMat A)
def matMul [Add α] [Sub α] [Mul α] [Zero α] (A : Mat α m k) (B : Mat α k n) : Mat α m n :=
  fun i j => Vec.sum (fun l => A i l * B l j)
/-- `diag(w) A` for a real weight vector -/
def rowScale [Mul α] (w : Vec α m) (A : Mat α m n) : Mat α m n := fun i j => Cx.smul (w i) (A i j)
def matSmul [Mul α] (t : α) (A : Mat α m n) : Mat α m n := fun i j => Cx.smul t (A i j)

/-- concatenation of two blocks (row-major flattening of a two-block `BlockArray`) -/
def vappend {β : Type} (u : Vec β n) (v : Vec β k) : Vec β (n + k) :=
  fun i => if h : i.val < n then u ⟨i.val, h⟩ else v ⟨i.val - n, by omega⟩
def vleft {β : Type} (x : Vec β (n + k)) : Vec β n := fun i => x ⟨i.val, by omega⟩
def vright {β : Type} (x : Vec β (n + k)) : Vec β k := fun i => x ⟨n + i.val, by omega⟩

end ops

/-! ## the conjugating wrappers of `scico/_autograd.py`, `Operator.vjp`, `linop.jacobian` -/

section wrappers
variable {α : Type} {n m : Nat}

/-- `scico.grad` / `value_and_grad` / `jacrev`: `tree_map(jax.numpy.conj, jg)` applied to what
    `jax.grad` returned (`jg`).  For a tuple / `BlockArray` argument `tree_map` acts leaf by leaf,
    which on the concatenation is again `conjVec` (see `conjVec_vappend`). -/
def scicoGrad [Neg α] (jg : CVec α n) : CVec α n := conjVec jg

/-- `Operator.vjp(u, conjugate)`: `G` is what `jax.vjp(self, u)` returned (first component taken) -/
def vjpWrap [Neg α] (conjugate : Bool) (G : CVec α m → CVec α n) (v : CVec α m) : CVec α n :=
  if conjugate then conjVec (G (conjVec v)) else G v

/-- `scico.cvjp`: `conj_vjp(tangent) = tree_map(conj, fun_vjp(tangent.conj()))` -/
def cvjpWrap [Neg α] (G : CVec α m → CVec α n) (t : CVec α m) : CVec α n := conjVec (G (conjVec t))

/-- `conj_fun` inside `scico.linear_adjoint`: `x ↦ conj(fun(conj x))` -/
def conjFun [Neg α] (f : CVec α n → CVec α m) : CVec α n → CVec α m := fun x => conjVec (f (conjVec x))

/-- `scico.linear_adjoint(fun, *primals)`.  `T` is the JAX primitive `jax.linear_transpose` (its
    contract is a hypothesis of the theorems); the three branches are those of the code:
    complex primal → `T conj_fun`; real primal, complex output → `T conj_fun`; real → real: `T fun`.
    (The primals are only used by JAX for shapes/dtypes; conjugating them has no other effect.) -/
def linearAdjoint [Neg α] (T : (CVec α n → CVec α m) → (CVec α m → CVec α n))
    (complexPrimal complexOut : Bool) (f : CVec α n → CVec α m) : CVec α m → CVec α n :=
  if complexPrimal then T (conjFun f)
  else if complexOut then T (conjFun f)
  else T f

/-- output of the Jacobian `LinearOperator` of `linop.jacobian`: a plain array, or the two-block
    `BlockArray((F(u), ·))` when `include_eval` is set -/
inductive JacOut (α : Type) (a b : Nat) where
  | plain (v : CVec α b)
  | withEval (Fu : CVec α a) (v : CVec α b)

/-- `eval_fn` of `linop.jacobian(F, u, include_eval)`; `Fu = F(u)`, `J = v ↦ F.jvp(u, v)[1]` -/
def jacobianEval (includeEval : Bool) (Fu : CVec α m) (J : CVec α n → CVec α m) (v : CVec α n) :
    JacOut α m m :=
  if includeEval then .withEval Fu (J v) else .plain (J v)

/-- `adj_fn` of `linop.jacobian(F, u, include_eval)`: `F.vjp(u, conjugate=True)` -/
def jacobianAdj [Neg α] (includeEval : Bool) (Fu : CVec α m) (G : CVec α m → CVec α n) (w : CVec α m) :
    JacOut α m n :=
  if includeEval then .withEval Fu (vjpWrap true G w) else .plain (vjpWrap true G w)

/-- `adj_fn` as it behaves for operators whose input and output dtypes differ in kind (real array in,
    complex out, or the reverse): with `include_eval` it builds `snp.blockarray((Fu, G(v)))` from a
    block of the output dtype and a block of the input dtype, which `BlockArray` rejects
    (`ValueError: Heterogeneous dtypes not supported`) → `none`.  The `eval` direction has two blocks
    of the output dtype and is unaffected. -/
def jacobianAdjChecked [Neg α] (includeEval inComplex outComplex : Bool) (Fu : CVec α m)
    (G : CVec α m → CVec α n) (w : CVec α m) : Option (JacOut α m n) :=
  if includeEval && (inComplex != outComplex) then none else some (jacobianAdj includeEval Fu G w)

end wrappers

/-! ## tables the model is built from (compared with the source by `lean/Scico/Generated/AutogradTables.lean`, which
    `harness/autograd_translate.py` regenerates with `ast` on every run) -/

namespace Tables

/-- one function / closure of the differentiation layer: number of conjugations applied to a RESULT (`tree_map(conj, jg)`,
    `G(…)[0].conj()`), number applied to one of its own ARGUMENTS (`tangent.conj()`, `tree_map(conj, primals)`), and the
    `if` branch the closure is defined under -/
structure ConjSite where
  file : String
  name : String
  cond : String
  result : Nat
  arg : Nat
deriving DecidableEq, Repr

/-- `caller` passes `keyword=value` to `callee` -/
structure Forward where
  caller : String
  callee : String
  keyword : String
  value : String
deriving DecidableEq, Repr

/-- one class of the `Functional` family as the translator sees it -/
structure ClassRow where
  name : String
  bases : List String
  hasInit : Bool
  callsSuper : Bool
  hasEval : String
  defines : List String
  assignsGradIn : List String
deriving DecidableEq, Repr

def ClassRow.key (c : ClassRow) : String × List String × List String × List String :=
  (c.name, c.bases, c.defines, c.assignsGradIn)

/-- the model's inventory of the family: bases, which of `grad/__mul__/__rmul__/__truediv__/set_scale/__add__` the class
    defines, in which methods it assigns `_grad`, and HOW property C07 covers it -/
structure FamilyRow where
  name : String
  bases : List String
  defines : List String
  assignsGradIn : List String
  coverage : String
deriving DecidableEq, Repr

def FamilyRow.key (c : FamilyRow) : String × List String × List String × List String :=
  (c.name, c.bases, c.defines, c.assignsGradIn)

/-- `scicoGrad` (1,0): grad / value_and_grad / jacrev closures; `cvjpWrap`, `conjFun`, `vjpWrap true` (1,1);
    `vjpWrap false`, `Operator.jvp`, the `jacobian`/`Function` plumbing (0,0) — see theorem `C07_conj_sites` -/
def conjSites : List ConjSite := [
  ⟨"scico/_autograd.py", "grad", "", 0, 0⟩,
  ⟨"scico/_autograd.py", "grad.conjugated_grad_aux", "", 1, 0⟩,
  ⟨"scico/_autograd.py", "grad.conjugated_grad", "", 1, 0⟩,
  ⟨"scico/_autograd.py", "value_and_grad", "", 0, 0⟩,
  ⟨"scico/_autograd.py", "value_and_grad.conjugated_value_and_grad_aux", "", 1, 0⟩,
  ⟨"scico/_autograd.py", "value_and_grad.conjugated_value_and_grad", "", 1, 0⟩,
  ⟨"scico/_autograd.py", "linear_adjoint", "", 0, 1⟩,
  ⟨"scico/_autograd.py", "linear_adjoint.conj_fun", "", 1, 1⟩,
  ⟨"scico/_autograd.py", "jacrev", "", 0, 0⟩,
  ⟨"scico/_autograd.py", "jacrev.conjugated_jacrev", "", 1, 0⟩,
  ⟨"scico/_autograd.py", "cvjp", "", 0, 0⟩,
  ⟨"scico/_autograd.py", "cvjp.conj_vjp", "", 1, 1⟩,
  ⟨"scico/operator/_operator.py", "Operator.jvp", "", 0, 0⟩,
  ⟨"scico/operator/_operator.py", "Operator.vjp", "", 0, 0⟩,
  ⟨"scico/operator/_operator.py", "Operator.vjp.Gmap#0", "conjugate", 1, 1⟩,
  ⟨"scico/operator/_operator.py", "Operator.vjp.Gmap#1", "not conjugate", 0, 0⟩,
  ⟨"scico/linop/_util.py", "jacobian", "", 0, 0⟩,
  ⟨"scico/linop/_util.py", "jacobian.adj_fn", "include_eval", 0, 0⟩,
  ⟨"scico/linop/_util.py", "jacobian.eval_fn#0", "include_eval", 0, 0⟩,
  ⟨"scico/linop/_util.py", "jacobian.eval_fn#1", "not include_eval", 0, 0⟩,
  ⟨"scico/function.py", "Function.slice", "", 0, 0⟩,
  ⟨"scico/function.py", "Function.slice.pfunc", "", 0, 0⟩,
  ⟨"scico/function.py", "Function.jvp", "", 0, 0⟩,
  ⟨"scico/function.py", "Function.vjp", "", 0, 0⟩,
  ⟨"scico/function.py", "Function.jacobian", "", 0, 0⟩
]

def forwards : List Forward := [
  ⟨"jacobian", "vjp", "conjugate", "True"⟩,
  ⟨"Function.vjp", "vjp", "conjugate", "conjugate"⟩,
  ⟨"Function.jacobian", "jacobian", "include_eval", "include_eval"⟩
]

def linadjBranches : List (String × String) := [
  ("any([jnp.iscomplexobj(_) for _ in primals])", "conj_fun"),
  ("jnp.iscomplexobj(fun(*primals))", "conj_fun"),
  ("else", "fun")
]

def linadjReturn : String := "jax.linear_transpose(_fun, *_primals)"

def rescale : List (String × List String) := [
  ("__mul__", ["new_loss = copy(self)", "new_loss._grad = scico.grad(new_loss.__call__)", "new_loss.set_scale(self.scale * other)", "return new_loss"]),
  ("__rmul__", ["return self.__mul__(other)"]),
  ("__truediv__", ["new_loss = copy(self)", "new_loss._grad = scico.grad(new_loss.__call__)", "new_loss.set_scale(self.scale / other)", "return new_loss"]),
  ("set_scale", ["self.scale = new_scale"])
]


/-- default argument values the model and the tie rely on (the driver is always sent explicit values; stream `defaults`
    calls the code with the argument omitted and compares with the model at these values): `vjp`/`Function.vjp` conjugate
    by default (`vjpWrap true`), `jacobian` has no evaluation block by default, losses scale `0.5` (generic `Loss`: `1.0`),
    no weighting (`W = None` → all ones), identity operator (`A = None`), `HuberNorm(1.0, separable)`, `L21Norm(l2_axis=0)`,
    `L1MinusL2Norm(beta=1.0)`, `grad` w.r.t. argument 0 without aux -/
def defaults : List (String × String × String) := [
  ("grad", "argnums", "0"),
  ("grad", "has_aux", "False"),
  ("grad", "holomorphic", "False"),
  ("grad", "allow_int", "False"),
  ("value_and_grad", "argnums", "0"),
  ("value_and_grad", "has_aux", "False"),
  ("value_and_grad", "holomorphic", "False"),
  ("value_and_grad", "allow_int", "False"),
  ("jacrev", "argnums", "0"),
  ("jacrev", "holomorphic", "False"),
  ("jacrev", "allow_int", "False"),
  ("cvjp", "jidx", "None"),
  ("Operator.vjp", "conjugate", "True"),
  ("jacobian", "include_eval", "False"),
  ("Function.vjp", "conjugate", "True"),
  ("Function.jacobian", "include_eval", "False"),
  ("Loss.__init__", "A", "None"),
  ("Loss.__init__", "f", "None"),
  ("Loss.__init__", "scale", "1.0"),
  ("SquaredL2Loss.__init__", "A", "None"),
  ("SquaredL2Loss.__init__", "scale", "0.5"),
  ("SquaredL2Loss.__init__", "W", "None"),
  ("SquaredL2Loss.__init__", "prox_kwargs", "None"),
  ("PoissonLoss.__init__", "A", "None"),
  ("PoissonLoss.__init__", "scale", "0.5"),
  ("SquaredL2AbsLoss.__init__", "A", "None"),
  ("SquaredL2AbsLoss.__init__", "scale", "0.5"),
  ("SquaredL2AbsLoss.__init__", "W", "None"),
  ("SquaredL2SquaredAbsLoss.__init__", "A", "None"),
  ("SquaredL2SquaredAbsLoss.__init__", "scale", "0.5"),
  ("SquaredL2SquaredAbsLoss.__init__", "W", "None"),
  ("HuberNorm.__init__", "delta", "1.0"),
  ("HuberNorm.__init__", "separable", "True"),
  ("L21Norm.__init__", "l2_axis", "0"),
  ("L1MinusL2Norm.__init__", "beta", "1.0"),
  ("TVNorm.__init__", "circular", "True"),
  ("TVNorm.__init__", "axes", "None"),
  ("TVNorm.__init__", "input_shape", "None"),
  ("TVNorm.__init__", "input_dtype", "snp.float32"),
  ("ProximalAverage.__init__", "alpha_list", "None"),
  ("ProximalAverage.__init__", "no_inf_eval", "True")
]

/-- `Fn.mulScalar` dispatches on exactly the classes that define `__mul__` (`ScaledFunctional` folds, `Loss` rescales a
    copy, `Functional` wraps), `Fn.divScalar` on `__truediv__` (`Loss` only); `_grad` is assigned in `Functional.__init__`
    and re-bound in `Loss.__mul__/__truediv__` (`Heap.copyRebindScale`) and nowhere else -/
def family : List FamilyRow := [
    ⟨"AnisotropicTVNorm", ["TVNorm"], [], [],
     "model: Loss(0, G, l1), G = the object's FiniteDifference matrix (tie `tv`)"⟩,
    ⟨"BM3D", ["Functional"], [], [],
     "not evaluable (has_eval = False)"⟩,
    ⟨"BM4D", ["Functional"], [], [],
     "not evaluable (has_eval = False)"⟩,
    ⟨"DnCNN", ["Functional"], [], [],
     "not evaluable (has_eval = False)"⟩,
    ⟨"Functional", [], ["__add__", "__mul__", "__rmul__", "grad"], ["__init__"],
     "base class: binds `_grad = scico.grad(self.__call__)`"⟩,
    ⟨"FunctionalSum", ["Functional"], [], [],
     "model: Fn.add"⟩,
    ⟨"HuberNorm", ["Functional"], [], [],
     "model: Fn.huber (both forms)"⟩,
    ⟨"IsotropicTVNorm", ["TVNorm"], [], [],
     "model: Loss(0, G, l21) (tie `tv`)"⟩,
    ⟨"L0Norm", ["Functional"], [], [],
     "not smooth (piecewise constant): outside C07"⟩,
    ⟨"L1MinusL2Norm", ["Functional"], [], [],
     "model: Fn.l1ml2"⟩,
    ⟨"L1Norm", ["Functional"], [], [],
     "model: Fn.l1"⟩,
    ⟨"L21Norm", ["Functional"], [], [],
     "model: Fn.l21"⟩,
    ⟨"L2BallIndicator", ["Functional"], [], [],
     "indicator (not smooth): outside C07"⟩,
    ⟨"L2Norm", ["Functional"], [], [],
     "model: Fn.l2"⟩,
    ⟨"Loss", ["Functional"], ["__mul__", "__rmul__", "__truediv__", "set_scale"], ["__mul__", "__truediv__"],
     "model: Fn.loss / Fn.lossOp, Heap machine"⟩,
    ⟨"NonNegativeIndicator", ["Functional"], [], [],
     "indicator (not smooth): outside C07"⟩,
    ⟨"NuclearNorm", ["Functional"], [], [],
     "tie `nuclear` + finite-difference oracle (no theorem)"⟩,
    ⟨"PoissonLoss", ["Loss"], [], [],
     "model: Fn.poisson"⟩,
    ⟨"ProximalAverage", ["Functional"], [], [],
     "model: proxAvgFn"⟩,
    ⟨"ScaledFunctional", ["Functional"], ["__mul__"], [],
     "model: Fn.scaled"⟩,
    ⟨"SeparableFunctional", ["Functional"], [], [],
     "model: Fn.sep"⟩,
    ⟨"SetDistance", ["Functional"], [], [],
     "theorems C07_set_distance / C07_distance_convex, ties `setdist`, `setdist_convex`"⟩,
    ⟨"SquaredL2AbsLoss", ["Loss"], [], [],
     "model: Fn.sqL2AbsLoss"⟩,
    ⟨"SquaredL2Loss", ["Loss"], [], [],
     "model: Fn.sqL2Loss / Fn.sqL2LossOp, hessianApply"⟩,
    ⟨"SquaredL2Norm", ["Functional"], [], [],
     "model: Fn.sqL2"⟩,
    ⟨"SquaredL2SquaredAbsLoss", ["Loss"], [], [],
     "model: Fn.sqL2SqAbsLoss"⟩,
    ⟨"SquaredSetDistance", ["Functional"], [], [],
     "theorems C07_set_distance / C07_squared_distance_convex, ties `setdist`, `setdist_convex`"⟩,
    ⟨"TVNorm", ["Functional"], [], [],
     "model: Loss(0, G, norm) (tie `tv`)"⟩,
    ⟨"ZeroFunctional", ["Functional"], [], [],
     "model: Fn.zero"⟩
]

def siteCounts (name : String) : Option (Nat × Nat) :=
  (conjSites.find? (fun s => s.name == name)).map (fun s => (s.result, s.arg))

end Tables

/-- `k` conjugations -/
def conjTimes {α : Type} [Neg α] {n : Nat} : Nat → CVec α n → CVec α n
  | 0, v => v
  | k + 1, v => conjVec (conjTimes k v)

/-- a wrapper that conjugates its argument `a` times and its result `r` times around `G` -/
def applySite {α : Type} [Neg α] {n m : Nat} (r a : Nat) (G : CVec α m → CVec α n) (v : CVec α m) : CVec α n :=
  conjTimes r (G (conjTimes a v))

/-! ## positional-argument plumbing of `Function.slice/jvp/vjp/jacobian` and `scico.util.partial` -/

section plumbing
variable {β : Type}

/-- `fix_args = args[0:index] + args[(index+1):]` -/
def fixArgs (index : Nat) (args : List β) : List β := args.take index ++ args.drop (index + 1)

/-- `pfunc` of `Function.slice`: `fix_args[0:index] + (var_arg,) + fix_args[index:]` -/
def sliceArgs (index : Nat) (fix : List β) (var : β) : List β :=
  fix.take index ++ [var] ++ fix.drop index

/-- `pfunc` of `scico.util.partial(func, indices, *fixargs)`: positions `k` with `isFixed k` are
    filled from `fix`, the others from `free`, for `k = pos, pos+1, …` (`fuel` positions).
    An exhausted list is Python's `IndexError` → `none`. -/
def mergeArgs (isFixed : Nat → Bool) : (fuel pos : Nat) → (fix free : List β) → Option (List β)
  | 0, _, _, _ => some []
  | fuel + 1, pos, fix, free =>
    if isFixed pos then
      match fix with
      | [] => none
      | a :: fix' => (mergeArgs isFixed fuel (pos + 1) fix' free).map (a :: ·)
    else
      match free with
      | [] => none
      | a :: free' => (mergeArgs isFixed fuel (pos + 1) fix free').map (a :: ·)

/-- `cvjp(fun, *primals, jidx)`: the argument list `fun` is called with when the differentiated
    slot receives `var`: `fixidx = range(0,jidx)+range(jidx+1,len)`, `fixprm = primals[:jidx]+primals[jidx+1:]` -/
def cvjpArgs (jidx : Nat) (primals : List β) (var : β) : Option (List β) :=
  mergeArgs (fun k => k != jidx && k < primals.length) (fixArgs jidx primals).length.succ 0
    (fixArgs jidx primals) [var]

end plumbing

/-! ## a family of nonlinear operators (what `Operator(eval_fn=…)` is given in the tie) -/

section op
variable {α : Type} {n m : Nat}

/-- the operator `F(x) = A x + B conj(x) + (C x)² + c` (square taken entry by entry): ℂ-linear part,
    anti-linear part (so `F` need not be holomorphic), a quadratic part, an offset.  This is the family
    the correspondence builds with `scico.operator.Operator(eval_fn=…)`; scico itself only forwards
    `jax.jvp`/`jax.vjp` of whatever `eval_fn` it is given. -/
structure Op (α : Type) (n m : Nat) where
  A : Mat α m n
  B : Mat α m n
  C : Mat α m n
  c : CVec α m

variable [Add α] [Sub α] [Mul α] [Neg α] [Zero α]

/-- `F(x)` -/
def Op.eval (F : Op α n m) (x : CVec α n) : CVec α m :=
  fun i => mulVec F.A x i + mulVec F.B (conjVec x) i + mulVec F.C x i * mulVec F.C x i + F.c i

/-- `F.jvp(u, v)[1]`: the (real-linear) Jacobian `v ↦ A v + B conj(v) + 2 (C u)·(C v)` -/
def Op.jvp (F : Op α n m) (u v : CVec α n) : CVec α m :=
  fun i => mulVec F.A v i + mulVec F.B (conjVec v) i
    + (mulVec F.C u i * mulVec F.C v i + mulVec F.C u i * mulVec F.C v i)

/-- what `jax.vjp(F, u)[1]` computes: the transpose of the Jacobian for the pairing `Re Σ aᵢbᵢ`,
    `c ↦ Aᵀ c + conj(Bᵀ c) + 2 Cᵀ((C u)·c)` -/
def Op.vjpT (F : Op α n m) (u : CVec α n) (c : CVec α m) : CVec α n :=
  fun j => mulVec (transpose F.A) c j + (mulVec (transpose F.B) c j).conj
    + mulVec (transpose F.C) (fun i => (mulVec F.C u i + mulVec F.C u i) * c i) j


/-- operators built with the operator algebra of `Operator` (`scico/operator/_operator.py`): every operation returns a new
    `Operator` whose `eval_fn` is a closure over the operands, and `jvp`/`vjp`/`linop.jacobian` differentiate that closure —
    `F(G)` (`__call__` with an operator: `lambda z: self(x(z))`), `F + G`, `F - G` (`lambda x: self(x) ± other(x)`),
    `a * F`, `F * a` (`lambda x: other * self(x)`, real or complex scalar), `-F` (`-1.0 * self`) -/
inductive OpT (α : Type) : Nat → Nat → Type where
  | leaf {n m : Nat} (F : Op α n m) : OpT α n m
  | comp {n k m : Nat} (F : OpT α k m) (G : OpT α n k) : OpT α n m
  | add {n m : Nat} (F G : OpT α n m) : OpT α n m
  | sub {n m : Nat} (F G : OpT α n m) : OpT α n m
  | smul {n m : Nat} (a : Cx α) (F : OpT α n m) : OpT α n m
  | neg {n m : Nat} (F : OpT α n m) : OpT α n m

/-- `T(x)` -/
def OpT.eval [One α] : {n m : Nat} → OpT α n m → CVec α n → CVec α m
  | _, _, .leaf F, x => F.eval x
  | _, _, .comp F G, x => F.eval (G.eval x)
  | _, _, .add F G, x => vadd (F.eval x) (G.eval x)
  | _, _, .sub F G, x => vsub (F.eval x) (G.eval x)
  | _, _, .smul a F, x => fun i => a * F.eval x i
  | _, _, .neg F, x => fun i => (⟨-1, 0⟩ : Cx α) * F.eval x i

/-- `T.jvp(u, v)[1]` by the chain and sum rules (what `jax.jvp` computes for the composed closure) -/
def OpT.jvp [One α] : {n m : Nat} → OpT α n m → CVec α n → CVec α n → CVec α m
  | _, _, .leaf F, u, v => F.jvp u v
  | _, _, .comp F G, u, v => F.jvp (G.eval u) (G.jvp u v)
  | _, _, .add F G, u, v => vadd (F.jvp u v) (G.jvp u v)
  | _, _, .sub F G, u, v => vsub (F.jvp u v) (G.jvp u v)
  | _, _, .smul a F, u, v => fun i => a * F.jvp u v i
  | _, _, .neg F, u, v => fun i => (⟨-1, 0⟩ : Cx α) * F.jvp u v i

/-- what `jax.vjp(T, u)[1]` computes: the cotangent is pulled back through the tree in reverse (plain transposes;
    multiplication by `a` transposes to multiplication by `a`) -/
def OpT.vjpT [One α] : {n m : Nat} → OpT α n m → CVec α n → CVec α m → CVec α n
  | _, _, .leaf F, u, c => F.vjpT u c
  | _, _, .comp F G, u, c => G.vjpT u (F.vjpT (G.eval u) c)
  | _, _, .add F G, u, c => vadd (F.vjpT u c) (G.vjpT u c)
  | _, _, .sub F G, u, c => vsub (F.vjpT u c) (G.vjpT u c)
  | _, _, .smul a F, u, c => F.vjpT u (fun i => a * c i)
  | _, _, .neg F, u, c => F.vjpT u (fun i => (⟨-1, 0⟩ : Cx α) * c i)

end op

/-! ## differentiable functionals and losses as an expression language -/

section fn
variable {α : Type}

/-- The functionals whose `grad` is modelled.  Constructors mirror how the objects are built in
    scico; `n` is the (flattened) size of the argument.  Operators `A` are dense matrices
    (`MatrixOperator`, `Diagonal`, `Identity` are special cases). -/
inductive Fn (α : Type) : Nat → Type where
  /-- `ZeroFunctional` -/
  | zero {n : Nat} : Fn α n
  /-- `SquaredL2Norm`: `snp.sum(snp.abs(x)**2)` -/
  | sqL2 {n : Nat} : Fn α n
  /-- `L2Norm`: `norm(x)` -/
  | l2 {n : Nat} : Fn α n
  /-- `L1Norm`: `snp.sum(snp.abs(x))` -/
  | l1 {n : Nat} : Fn α n
  /-- `HuberNorm(delta, separable)` -/
  | huber {n : Nat} (δ : α) (separable : Bool) : Fn α n
  /-- `L1MinusL2Norm(beta)`: `snp.sum(snp.abs(x)) - beta*norm(x)` -/
  | l1ml2 {n : Nat} (β : α) : Fn α n
  /-- `L21Norm(l2_axis)`: the l2 norm over the entries of each group, summed over the `k` groups
      (`grp i` = position of entry `i` along the axes that are *not* in `l2_axis`; for a
      `BlockArray` with `l2_axis=None` the group is the block) -/
  | l21 {n : Nat} (k : Nat) (grp : Fin n → Fin k) : Fn α n
  /-- `ScaledFunctional(f, c)`: `self.scale * self.functional(x)` -/
  | scaled {n : Nat} (c : α) (f : Fn α n) : Fn α n
  /-- `FunctionalSum(f, g)` -/
  | add {n : Nat} (f g : Fn α n) : Fn α n
  /-- `SeparableFunctional([f, g…])` on a `BlockArray`: first block to `f`, the rest to `g` -/
  | sep {n k : Nat} (f : Fn α n) (g : Fn α k) : Fn α (n + k)
  /-- `Loss(y, A, f, scale)`: `self.scale * self.f(self.A(x) - self.y)` -/
  | loss {n m : Nat} (s : α) (A : Mat α m n) (y : CVec α m) (f : Fn α m) : Fn α n
  /-- `SquaredL2Loss(y, A, scale, W)`: `scale * sum(W.diagonal * abs(y - A(x))**2)` -/
  | sqL2Loss {n m : Nat} (s : α) (A : Mat α m n) (y : CVec α m) (w : Vec α m) : Fn α n
  /-- `SquaredL2SquaredAbsLoss(y, A, scale, W)`: `scale * sum(W.diagonal * abs(y - abs(A(x))**2)**2)`,
      `y` real -/
  | sqL2SqAbsLoss {n m : Nat} (s : α) (A : Mat α m n) (y : Vec α m) (w : Vec α m) : Fn α n
  /-- `SquaredL2AbsLoss(y, A, scale, W)`: `scale * sum(W.diagonal * abs(y - abs(A(x)))**2)`, `y` real -/
  | sqL2AbsLoss {n m : Nat} (s : α) (A : Mat α m n) (y : Vec α m) (w : Vec α m) : Fn α n
  /-- `PoissonLoss(y, A, scale)`: `scale * sum(Ax - y*log(Ax) + const)`, `const = gammaln(y+1)` computed
      at construction (a constant of the object, passed as data); real data only — the model reads the
      real parts of `A x` -/
  | poisson {n m : Nat} (s : α) (A : Mat α m n) (y : Vec α m) (cst : Vec α m) : Fn α n
  /-- `Loss(y, F, f, scale)` with a *nonlinear* operator `F`: `self.scale * self.f(self.A(x) - self.y)` -/
  | lossOp {n m : Nat} (s : α) (F : Op α n m) (y : CVec α m) (f : Fn α m) : Fn α n
  /-- `SquaredL2Loss(y, F, scale, W)` with a nonlinear operator `F` (no `hessian`, no `prox`) -/
  | sqL2LossOp {n m : Nat} (s : α) (F : Op α n m) (y : CVec α m) (w : Vec α m) : Fn α n

variable [Add α] [Sub α] [Mul α] [Div α] [Neg α] [Zero α] [One α] [LT α] [DecidableLT α] [HasSqrt α]
  [HasLog α]

def two : α := 1 + 1

/-- `Σ |xᵢ|²` -/
def sumAbs2 {n : Nat} (x : CVec α n) : α := Vec.sum (fun i => Cx.abs2 (x i))
/-- `‖x‖₂` -/
def norm2 {n : Nat} (x : CVec α n) : α := HasSqrt.sqrt (sumAbs2 x)
/-- squared l2 norm of group `g` -/
def groupAbs2 {n k : Nat} (grp : Fin n → Fin k) (x : CVec α n) (g : Fin k) : α :=
  Vec.sum (fun i => if grp i = g then Cx.abs2 (x i) else 0)

/-- scalar Huber function of the modulus `r ≥ 0`, as the code writes it:
    `where(r <= δ, 0.5 r², δ (r − δ/2))` — the `r <= δ` test is written `¬ δ < r` -/
def huberOf (δ r : α) : α :=
  if δ < r then δ * (r - δ / two) else (1 / two) * (r * r)

/-- non-separable Huber norm as a function of the *squared* l2 norm `s = Σ|xᵢ|²`, as the code
    writes it since the repair of the NaN gradient at the origin:
    `lax.cond(sqrt(s) <= δ, 0.5*s, δ*(sqrt(s) − δ/2))` -/
def huberNonsepOf (δ s : α) : α :=
  if δ < HasSqrt.sqrt s then δ * (HasSqrt.sqrt s - δ / two) else (1 / two) * s

/-- `L21Norm._l2norm` as a function of the squared group norm `l2sq`:
    `nz = l2sq > 0; where(nz, sqrt(where(nz, l2sq, 1.0)), 0.0)` — the square root is never evaluated
    at 0 (its derivative there is infinite), a group that is identically zero contributes the
    constant 0 (repair 66922fe) -/
def l2normGuarded (s : α) : α := if 0 < s then HasSqrt.sqrt s else 0

/-- cotangent of `|z|` with respect to `z` under JAX's convention: `conj z / |z|`, and `0` at `z = 0`
    (JAX's rule for `abs` of a complex array; for a *real* array JAX returns `1` at `0` — the value at `0`
    never matters where the theorems apply: either `z ≠ 0`, or the entry is structurally zero and
    the cotangent is multiplied by a zero row of the operator in front, e.g. the zero-padded boundary
    differences of a non-circular anisotropic TV norm) -/
def absGrad (z : Cx α) : Cx α := if 0 < Cx.abs z then Cx.divr z.conj (Cx.abs z) else 0

/-- `__call__` -/
def Fn.eval : {n : Nat} → Fn α n → CVec α n → α
  | _, .zero, _ => 0
  | _, .sqL2, x => sumAbs2 x
  | _, .l2, x => norm2 x
  | _, .l1, x => Vec.sum (fun i => Cx.abs (x i))
  | _, .huber δ true, x => Vec.sum (fun i => huberOf δ (Cx.abs (x i)))
  | _, .huber δ false, x => huberNonsepOf δ (sumAbs2 x)
  | _, .l1ml2 β, x => Vec.sum (fun i => Cx.abs (x i)) - β * norm2 x
  | _, .l21 _ grp, x => Vec.sum (fun g => l2normGuarded (groupAbs2 grp x g))
  | _, .scaled c f, x => c * f.eval x
  | _, .add f g, x => f.eval x + g.eval x
  | _, .sep f g, x => f.eval (vleft x) + g.eval (vright x)
  | _, .loss s A y f, x => s * f.eval (vsub (mulVec A x) y)
  | _, .sqL2Loss s A y w, x =>
      s * Vec.sum (fun i => w i * Cx.abs2 (y i - mulVec A x i))
  | _, .sqL2SqAbsLoss s A y w, x =>
      s * Vec.sum (fun i => w i * ((y i - Cx.abs2 (mulVec A x i)) * (y i - Cx.abs2 (mulVec A x i))))
  | _, .sqL2AbsLoss s A y w, x =>
      s * Vec.sum (fun i => w i * ((y i - Cx.abs (mulVec A x i)) * (y i - Cx.abs (mulVec A x i))))
  | _, .poisson s A y cst, x =>
      s * Vec.sum (fun i => (mulVec A x i).re - y i * HasLog.log (mulVec A x i).re + cst i)
  | _, .lossOp s F y f, x => s * f.eval (vsub (F.eval x) y)
  | _, .sqL2LossOp s F y w, x =>
      s * Vec.sum (fun i => w i * Cx.abs2 (y i - F.eval x i))

/-- What `jax.grad(self.__call__)(x)` returns (JAX convention: for a real-valued function of a
    complex argument it is `∂f/∂Re − i ∂f/∂Im`, obtained by propagating the cotangent `1` backwards
    with plain transposes; `where`/`cond` select the branch taken at `x`).
    Singular points are kept as JAX produces them: `conj x / ‖x‖` is `0/0` at `x = 0`.  The inner
    branch of the non-separable Huber norm is `0.5·Σ|xᵢ|²`, whose cotangent is `conj x` (no division). -/
def Fn.jaxGrad : {n : Nat} → Fn α n → CVec α n → CVec α n
  | _, .zero, _ => fun _ => 0
  | _, .sqL2, x => fun i => Cx.smul two (x i).conj
  | _, .l2, x => fun i => Cx.divr (x i).conj (norm2 x)
  | _, .l1, x => fun i => absGrad (x i)
  | _, .huber δ true, x => fun i =>
      if δ < Cx.abs (x i) then Cx.smul δ (Cx.divr (x i).conj (Cx.abs (x i))) else (x i).conj
  | _, .huber δ false, x => fun i =>
      if δ < norm2 x then Cx.smul δ (Cx.divr (x i).conj (norm2 x)) else (x i).conj
  | _, .l1ml2 β, x => fun i =>
      absGrad (x i) - Cx.smul β (Cx.divr (x i).conj (norm2 x))
  | _, .l21 _ grp, x => fun i =>
      if 0 < groupAbs2 grp x (grp i) then Cx.divr (x i).conj (HasSqrt.sqrt (groupAbs2 grp x (grp i)))
      else 0
  | _, .scaled c f, x => vsmul c (f.jaxGrad x)
  | _, .add f g, x => vadd (f.jaxGrad x) (g.jaxGrad x)
  | _, .sep f g, x => vappend (f.jaxGrad (vleft x)) (g.jaxGrad (vright x))
  | _, .loss s A y f, x => vsmul s (mulVec (transpose A) (f.jaxGrad (vsub (mulVec A x) y)))
  | _, .sqL2Loss s A y w, x =>
      vsmul s (mulVec (transpose A)
        (fun i => Cx.smul (two * w i) (mulVec A x i - y i).conj))
  | _, .sqL2SqAbsLoss s A y w, x =>
      vsmul s (mulVec (transpose A)
        (fun i => Cx.smul (-(two * two * w i * (y i - Cx.abs2 (mulVec A x i)))) (mulVec A x i).conj))
  | _, .sqL2AbsLoss s A y w, x =>
      vsmul s (mulVec (transpose A)
        (fun i => Cx.smul (-(two * w i * (y i - Cx.abs (mulVec A x i))))
          (Cx.divr (mulVec A x i).conj (Cx.abs (mulVec A x i)))))
  | _, .poisson s A y _, x =>
      vsmul s (mulVec (transpose A) (fun i => Cx.ofReal (1 - y i / (mulVec A x i).re)))
  | _, .lossOp s F y f, x => vsmul s (F.vjpT x (f.jaxGrad (vsub (F.eval x) y)))
  | _, .sqL2LossOp s F y w, x =>
      vsmul s (F.vjpT x (fun i => Cx.smul (two * w i) (F.eval x i - y i).conj))

/-- JAX gradient of the non-separable Huber norm as the code stood *before* the repair
    (`norm(x)` then `cond(xl2 <= δ, 0.5*xl2**2, …)`): the inner branch is `‖x‖·(conj x/‖x‖)`, which is
    `0·(0/0)` at `x = 0` (finding `huber-nonsep-grad-at-zero`, repaired by /repo commit 7a3a18a). -/
def huberNonsepOldJaxGrad {n : Nat} (δ : α) (x : CVec α n) : CVec α n := fun i =>
  Cx.smul (if δ < norm2 x then δ else norm2 x) (Cx.divr (x i).conj (norm2 x))

/-- `Functional.grad(x) = self._grad(x)` with `self._grad = scico.grad(self.__call__)` -/
def Fn.grad {n : Nat} (f : Fn α n) (x : CVec α n) : CVec α n := scicoGrad (f.jaxGrad x)

/-- drop the imaginary parts -/
def realPart {n : Nat} (v : CVec α n) : CVec α n := fun i => ⟨(v i).re, 0⟩

/-- `grad` for a *real* argument array while operators / data inside the functional are complex:
    JAX returns a cotangent of the argument's dtype, i.e. the real part (the conjugation of
    `scico.grad` is then the identity) -/
def Fn.gradRealArg {n : Nat} (f : Fn α n) (x : CVec α n) : CVec α n := scicoGrad (realPart (f.jaxGrad x))

/-- `f * c`, `c * f` (`__mul__`/`__rmul__`): class-directed dispatch —
    `ScaledFunctional.__mul__` folds the factor into the existing scale (`other * self.scale`),
    `Loss.__mul__` returns a copy with `scale = self.scale * other` (gradient closure re-bound, see
    `Heap`), every other functional is wrapped in a `ScaledFunctional`. -/
def Fn.mulScalar {n : Nat} : Fn α n → α → Fn α n
  | .scaled c f, o => .scaled (o * c) f
  | .loss s A y f, o => .loss (s * o) A y f
  | .sqL2Loss s A y w, o => .sqL2Loss (s * o) A y w
  | .sqL2SqAbsLoss s A y w, o => .sqL2SqAbsLoss (s * o) A y w
  | .sqL2AbsLoss s A y w, o => .sqL2AbsLoss (s * o) A y w
  | .poisson s A y c, o => .poisson (s * o) A y c
  | .lossOp s F y f, o => .lossOp (s * o) F y f
  | .sqL2LossOp s F y w, o => .sqL2LossOp (s * o) F y w
  | f, o => .scaled o f

/-- `f / c`: only `Loss.__truediv__` exists (`scale = self.scale / other`); for any other
    functional Python raises `TypeError` (`none`). -/
def Fn.divScalar {n : Nat} : Fn α n → α → Option (Fn α n)
  | .loss s A y f, o => some (.loss (s / o) A y f)
  | .sqL2Loss s A y w, o => some (.sqL2Loss (s / o) A y w)
  | .sqL2SqAbsLoss s A y w, o => some (.sqL2SqAbsLoss (s / o) A y w)
  | .sqL2AbsLoss s A y w, o => some (.sqL2AbsLoss (s / o) A y w)
  | .poisson s A y c, o => some (.poisson (s / o) A y c)
  | .lossOp s F y f, o => some (.lossOp (s / o) F y f)
  | .sqL2LossOp s F y w, o => some (.sqL2LossOp (s / o) F y w)
  | _, _ => none

/-- `ProximalAverage.__init__`: the weights as the object stores them — equal weights `1/N` when
    `alpha_list` is `None`, otherwise the given list, divided by its sum when that sum is not `1` -/
def proxAvgWeights (nfun : Nat) (ofNat : Nat → α) : Option (List α) → List α
  | none => List.replicate nfun (1 / ofNat nfun)
  | some al =>
    let sm := al.foldl (· + ·) 0
    if sm < 1 ∨ 1 < sm then al.map (· / sm) else al

/-- `ProximalAverage.__call__` (all components finite): `sum([alpha * f(x) …])`, Python's `sum` starts
    from `0` — as an expression: `((0 + α₁f₁) + α₂f₂) + …` -/
def proxAvgFn {n : Nat} : List (α × Fn α n) → Fn α n → Fn α n
  | [], acc => acc
  | (a, f) :: rest, acc => proxAvgFn rest (.add acc (.scaled a f))

/-- `SquaredL2Loss.hessian` (`eval_fn` and `adj_fn` are the same closure):
    `x ↦ 2 * self.scale * A.adj(W(A(x)))` -/
def hessianApply {n m : Nat} (s : α) (A : Mat α m n) (w : Vec α m) (x : CVec α n) : CVec α n :=
  vsmul (two * s) (mulVec (adjMat A) (fun i => Cx.smul (w i) (mulVec A x i)))

/-- the documented Hessian matrix `2 α Aᴴ W A` -/
def hessianMat {n m : Nat} (s : α) (A : Mat α m n) (w : Vec α m) : Mat α n n :=
  matSmul (two * s) (matMul (adjMat A) (rowScale w A))

/-- documented gradient of the weighted squared-l2 loss `2 α Aᴴ W (A x − y)` -/
def sqL2LossGradSpec {n m : Nat} (s : α) (A : Mat α m n) (y : CVec α m) (w : Vec α m) (x : CVec α n) :
    CVec α n :=
  vsmul (two * s) (mulVec (adjMat A) (fun i => Cx.smul (w i) (mulVec A x i - y i)))

end fn

/-! ## `Loss.__mul__`, `__truediv__`, `set_scale`: copies that share everything but `scale`, with the
    gradient closure re-bound to the copy -/

section heap
variable {α : Type}

/-- one `Loss` object: its `scale` attribute and the object whose bound `__call__` its `_grad`
    closure differentiates (`scico.grad(obj.__call__)` reads `obj.scale` when it is *called*) -/
structure LossObj (α : Type) where
  scale : α
  gradOf : Nat

/-- the objects created so far (index = identity) -/
abbrev Heap (α : Type) := List (LossObj α)

inductive LossOp (α : Type) where
  /-- `Loss(…, scale=s)`: `Functional.__init__` binds `_grad` to the new object itself -/
  | new (s : α)
  /-- `obj * c` / `c * obj`:  `copy(self)`, `new._grad = scico.grad(new.__call__)`, `set_scale(self.scale*c)` -/
  | mul (obj : Nat) (c : α)
  /-- `obj / c` -/
  | div (obj : Nat) (c : α)
  /-- `obj.set_scale(s)` (mutates in place) -/
  | setScale (obj : Nat) (s : α)

variable [Mul α] [Div α]

/-- `copy(self)`, then `new_loss._grad = scico.grad(new_loss.__call__)`, then
    `new_loss.set_scale(newScale)`; the new object gets index `h.length` -/
def Heap.copyRebindScale (h : Heap α) (o : LossObj α) (newScale : α) : Heap α :=
  -- copy(self): same attributes, including `_grad` (still bound to `o.gradOf`)
  let cp : LossObj α := ⟨o.scale, o.gradOf⟩
  -- new_loss._grad = scico.grad(new_loss.__call__)
  let cp : LossObj α := ⟨cp.scale, h.length⟩
  -- new_loss.set_scale(...)
  h ++ [⟨newScale, cp.gradOf⟩]

/-- one operation; an unknown object index leaves the heap unchanged (the harness never sends one) -/
def Heap.step (h : Heap α) : LossOp α → Heap α
  | .new s => h ++ [⟨s, h.length⟩]
  | .mul i c => (h[i]?).elim h (fun o => h.copyRebindScale o (o.scale * c))
  | .div i c => (h[i]?).elim h (fun o => h.copyRebindScale o (o.scale / c))
  | .setScale i s => h.modify i (fun o => ⟨s, o.gradOf⟩)

def Heap.run (h : Heap α) (ops : List (LossOp α)) : Heap α := ops.foldl Heap.step h

/-- the factor multiplying the base functional in `obj(x)`: `self.scale` -/
def Heap.evalScale (h : Heap α) (i : Nat) : Option α := (h[i]?).map (·.scale)

/-- the factor multiplying the base gradient in `obj.grad(x)`: the `scale` of the object the
    closure is bound to, read at call time -/
def Heap.gradScale (h : Heap α) (i : Nat) : Option α :=
  (h[i]?).bind (fun o => (h[o.gradOf]?).map (·.scale))

/-- `H = obj.hessian` (a property: every access builds a new `LinearOperator`) kept by the caller and applied
    LATER, in heap state `h`: its closures are `lambda x: 2 * self.scale * A.adj(W(A(x)))` — `A`, `W` were read
    when the property was accessed (they are never reassigned), `self.scale` is read when the operator is
    CALLED.  So the handle only remembers the object it came from. -/
def Heap.hessHandleApply [Add α] [Sub α] [Neg α] [Zero α] [One α] {n m : Nat} (h : Heap α) (obj : Nat)
    (A : Mat α m n) (w : Vec α m) (x : CVec α n) : Option (CVec α n) :=
  (h.evalScale obj).map (fun s => hessianApply s A w x)

/-- the same machine *without* the re-binding line (what `copy` alone would give) — used for the
    negative result `stale_without_rebind` -/
def Heap.stepNoRebind (h : Heap α) : LossOp α → Heap α
  | .new s => h ++ [⟨s, h.length⟩]
  | .mul i c => (h[i]?).elim h (fun o => h ++ [⟨o.scale * c, o.gradOf⟩])
  | .div i c => (h[i]?).elim h (fun o => h ++ [⟨o.scale / c, o.gradOf⟩])
  | .setScale i s => h.modify i (fun o => ⟨s, o.gradOf⟩)

end heap

end Scico.Autograd
