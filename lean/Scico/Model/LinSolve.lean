/-
  Model/LinSolve — linear-system and scalar solver primitives (DESIGN §4.2, §5.4).
  Mathlib-free, executable at `Float` / `Cx Float`, reasoned about at a generic field / inner
  product space in `Scico/Proofs/LinSolve*.lean`.

  source (scico)                                   → definition here
  -------------------------------------------------------------------------------
  solver.py  cg (while loop, tol/atol, M, x0, info) → `cgInit cgStep cgCond cgLoop cgRun cg cgTop`
  jax.scipy.sparse.linalg.cg (contract; ADMM cg_function="jax") → `jaxCgInit jaxCgStep jaxCgCond jaxCgLoop jaxCg`
  flax/inverse.py  cg_solver (lax.scan)             → `scanInit scanStep scanIter cgScan`
  solver.py  lstsq                                  → `lstsqSys lstsq`
  metric.py  rel_res                                → `relResOf relRes`
  solver.py  bisect                                 → `sgn bisectStep bisectLoop bisectPick bisect`
  solver.py  golden                                 → `goldInit goldStep goldLoop goldPick golden`
  solver.py  MatrixATADSolver.__init__/solve/accuracy → `ATAD gWoodbury gDirect ATAD.solve ATAD.solveM ATAD.lhsApply ATAD.accuracy`
  solver.py  ConvATADSolver.__init__/solve          → `convAHEinv convSolveHat`
  optimize/_admmaux.py  LinearSubproblemSolver      → `linearLhs linearRhs`
                        MatrixSubproblemSolver      → `matrixSubATAD`
                        CircularConvolveSolver      → `circLhsHat circSolveHat`
                        FBlockCircularConvolveSolver→ `fblockD fblockRhs`
                        G0BlockCircularConvolveSolver → `g0D g0Rhs`
                        GenericSubproblemSolver.obj → `genericObj`
-/
import Scico.Common.Scalar

namespace Scico.LinSolve
open Scico

/-! ## scalar layer -/

/-- complex conjugation as an operation (`id` on real scalars) -/
class HasConj (α : Type) where
  conj : α → α
export HasConj (conj)

instance : HasConj Float := ⟨id⟩

/-- complex numbers over `α` as pairs, so complex data can be executed -/
structure Cx (α : Type) where
  re : α
  im : α

namespace Cx
variable {α : Type}
instance [Add α] : Add (Cx α) := ⟨fun a b => ⟨a.re + b.re, a.im + b.im⟩⟩
instance [Sub α] : Sub (Cx α) := ⟨fun a b => ⟨a.re - b.re, a.im - b.im⟩⟩
instance [Neg α] : Neg (Cx α) := ⟨fun a => ⟨-a.re, -a.im⟩⟩
instance [Add α] [Sub α] [Mul α] : Mul (Cx α) :=
  ⟨fun a b => ⟨a.re * b.re - a.im * b.im, a.re * b.im + a.im * b.re⟩⟩
instance [Add α] [Sub α] [Mul α] [Div α] : Div (Cx α) :=
  ⟨fun a b =>
    let d := b.re * b.re + b.im * b.im
    ⟨(a.re * b.re + a.im * b.im) / d, (a.im * b.re - a.re * b.im) / d⟩⟩
instance [Zero α] : Zero (Cx α) := ⟨⟨0, 0⟩⟩
instance [One α] [Zero α] : One (Cx α) := ⟨⟨1, 0⟩⟩
instance [Neg α] : HasConj (Cx α) := ⟨fun a => ⟨a.re, -a.im⟩⟩
def ofReal [Zero α] (x : α) : Cx α := ⟨x, 0⟩
end Cx

/-- exact test `x == 0` on a scalar of any dtype (`Float`: IEEE `==`; `Cx`: both parts) -/
class HasIsZero (α : Type) where
  isZ : α → Bool
export HasIsZero (isZ)

instance : HasIsZero Float := ⟨fun x => x == 0⟩
instance {α : Type} [HasIsZero α] : HasIsZero (Cx α) := ⟨fun z => isZ z.re && isZ z.im⟩

/-- `1 + 1`, `5` without numerals (the models are polymorphic over operation classes) -/
def two {α : Type} [Add α] [One α] : α := 1 + 1
def five {α : Type} [Add α] [One α] : α := (1 + 1) + (1 + 1) + 1

/-- `x == 0.0` written with `<` only (decidable on `Float`, equality in an ordered field) -/
def isZero {α : Type} [Zero α] [LT α] [DecidableLT α] (x : α) : Bool :=
  !(decide (x < 0)) && !(decide (0 < x))

/-- `jnp.sign` -/
def sgn {α : Type} [Zero α] [One α] [Neg α] [LT α] [DecidableLT α] (x : α) : α :=
  if 0 < x then 1 else if x < 0 then -1 else 0

/-- `|x|` written with `<` -/
def absv {α : Type} [Zero α] [Neg α] [LT α] [DecidableLT α] (x : α) : α :=
  if x < 0 then -x else x

/-! ## conjugate gradient  (`scico.solver.cg`)

Generic over the vector type `V`, the scalar type `S` (`b.dtype`) and the real type `R`.  The
operations numpy supplies are collected in `CGOps`. -/

structure CGOps (S R V : Type) where
  /-- `snp.sum(a.conj() * b)` -/
  inner : V → V → S
  /-- `snp.linalg.norm` -/
  norm : V → R
  /-- `num > termination_tol_sq` (a possibly complex `num` against a real threshold) -/
  gtReal : S → R → Bool
  /-- `snp.sqrt(num).real` -/
  sqrtRe : S → R
  /-- `den == 0` on a scalar of `b.dtype` (used by `cg_solver`) -/
  isZero : S → Bool

structure CGState (S V : Type) where
  x : V
  r : V
  z : V
  p : V
  num : S
  ii : Nat

section CG
variable {S R V : Type} [Add V] [Sub V] [SMul S V] [Div S]

/-- lines `x = x0 … ii = 0` -/
def cgInit (ops : CGOps S R V) (A M : V → V) (b x0 : V) : CGState S V :=
  let r := b - A x0
  let z := M r
  { x := x0, r := r, z := z, p := z, num := ops.inner r z, ii := 0 }

/-- body of the `while` loop -/
def cgStep (ops : CGOps S R V) (A M : V → V) (s : CGState S V) : CGState S V :=
  let Ap := A s.p
  let alpha := s.num / ops.inner s.p Ap
  let x := s.x + alpha • s.p
  let r := s.r - alpha • Ap
  let z := M r
  let num := ops.inner r z
  let beta := num / s.num
  let p := z + beta • s.p
  { x := x, r := r, z := z, p := p, num := num, ii := s.ii + 1 }

/-- `(ii < maxiter) and (num > termination_tol_sq)` -/
def cgCond (ops : CGOps S R V) (maxiter : Nat) (tolsq : R) (s : CGState S V) : Bool :=
  decide (s.ii < maxiter) && ops.gtReal s.num tolsq

/-- the `while` loop with fuel -/
def cgLoop (ops : CGOps S R V) (A M : V → V) (maxiter : Nat) (tolsq : R) :
    Nat → CGState S V → CGState S V
  | 0, s => s
  | fuel + 1, s => if cgCond ops maxiter tolsq s then cgLoop ops A M maxiter tolsq fuel (cgStep ops A M s) else s

/-- all states visited by the loop (first = initial, last = returned) -/
def cgRun (ops : CGOps S R V) (A M : V → V) (maxiter : Nat) (tolsq : R) :
    Nat → CGState S V → List (CGState S V)
  | 0, s => [s]
  | fuel + 1, s => if cgCond ops maxiter tolsq s then s :: cgRun ops A M maxiter tolsq fuel (cgStep ops A M s) else [s]

structure CGInfo (R : Type) where
  numIter : Nat
  relRes : R

variable [Mul R] [Div R] [Max R]

/-- `termination_tol_sq = snp.maximum(tol * bn, atol) ** 2` -/
def cgTolSq (tol atol bn : R) : R :=
  let t := max (tol * bn) atol
  t * t

/-- `info["rel_res"] = snp.sqrt(num).real / bn` -/
def cgRelRes (ops : CGOps S R V) (num : S) (bn : R) : R := ops.sqrtRe num / bn

/-- `scico.solver.cg(A, b, x0, tol=, atol=, maxiter=, M=)` with `x0` given -/
def cg (ops : CGOps S R V) (A M : V → V) (b x0 : V) (tol atol : R) (maxiter : Nat) : V × CGInfo R :=
  let bn := ops.norm b
  let s := cgLoop ops A M maxiter (cgTolSq tol atol bn) maxiter (cgInit ops A M b x0)
  (s.x, { numIter := s.ii, relRes := cgRelRes ops s.num bn })

/-- handling of `x0=None` / `M=None`: zero start only for a `LinearOperator`, else `ValueError` -/
def cgTop (ops : CGOps S R V) (A : V → V) (isLinop : Bool) (zeroV : V) (M : Option (V → V)) (b : V)
    (x0 : Option V) (tol atol : R) (maxiter : Nat) : Except String (V × CGInfo R) :=
  let M' : V → V := match M with | some m => m | none => fun x => x
  match x0 with
  | some x => .ok (cg ops A M' b x tol atol maxiter)
  | none => if isLinop then .ok (cg ops A M' b zeroV tol atol maxiter) else .error "value"

/-! ### `jax.scipy.sparse.linalg.cg` (`_cg_solve`) — the back end of `LinearSubproblemSolver(cg_function="jax")`

Third-party code, modelled as its *contract*: same recurrences as `cg`, but every inner product is
`_vdot_real_tree` (real part, cast back to `dtype`), and the loop tests the **true** squared residual
(`gamma.real` only when no preconditioner was given).  Returns `x` only (`info = None`). -/

structure JaxOps (S R V : Type) where
  /-- `_vdot_real_tree(x, y)`: real part of `vdot(x, y)` -/
  vdotRe : V → V → R
  /-- `.astype(dtype)` -/
  ofReal : R → S
  /-- `gamma.real` -/
  re : S → R

structure JaxCGState (S V : Type) where
  x : V
  r : V
  gamma : S
  p : V
  k : Nat

omit [Mul R] [Div R] [Max R] in
/-- `r0 = b - A(x0); p0 = z0 = M(r0); gamma0 = vdot_real(r0, z0)` -/
def jaxCgInit (ops : JaxOps S R V) (A M : V → V) (b x0 : V) : JaxCGState S V :=
  let r0 := b - A x0
  let z0 := M r0
  { x := x0, r := r0, gamma := ops.ofReal (ops.vdotRe r0 z0), p := z0, k := 0 }

omit [Mul R] [Div R] [Max R] in
/-- `body_fun` -/
def jaxCgStep (ops : JaxOps S R V) (A M : V → V) (s : JaxCGState S V) : JaxCGState S V :=
  let Ap := A s.p
  let alpha := s.gamma / ops.ofReal (ops.vdotRe s.p Ap)
  let x' := s.x + alpha • s.p
  let r' := s.r - alpha • Ap
  let z' := M r'
  let gamma' := ops.ofReal (ops.vdotRe r' z')
  let beta := gamma' / s.gamma
  { x := x', r := r', gamma := gamma', p := z' + beta • s.p, k := s.k + 1 }

omit [Mul R] [Div R] [Max R] in
/-- `cond_fun`: `rs = gamma.real if M is _identity else vdot_real(r, r)`; `(rs > atol2) & (k < maxiter)` -/
def jaxCgCond [LT R] [DecidableLT R] (ops : JaxOps S R V) (mIsId : Bool) (maxiter : Nat) (atol2 : R)
    (s : JaxCGState S V) : Bool :=
  let rs := if mIsId then ops.re s.gamma else ops.vdotRe s.r s.r
  decide (atol2 < rs) && decide (s.k < maxiter)

omit [Div R] in
/-- `atol2 = maximum(square(tol) * vdot_real(b, b), square(atol))` -/
def jaxAtol2 (tol atol bs : R) : R := max (tol * tol * bs) (atol * atol)

omit [Mul R] [Div R] [Max R] in
/-- `lax.while_loop(cond_fun, body_fun, initial_value)` with fuel -/
def jaxCgLoop [LT R] [DecidableLT R] (ops : JaxOps S R V) (A M : V → V) (mIsId : Bool) (maxiter : Nat) (atol2 : R) :
    Nat → JaxCGState S V → JaxCGState S V
  | 0, s => s
  | fuel + 1, s =>
    if jaxCgCond ops mIsId maxiter atol2 s then jaxCgLoop ops A M mIsId maxiter atol2 fuel (jaxCgStep ops A M s) else s

omit [Mul R] [Div R] [Max R] in
/-- all states visited -/
def jaxCgRun [LT R] [DecidableLT R] (ops : JaxOps S R V) (A M : V → V) (mIsId : Bool) (maxiter : Nat) (atol2 : R) :
    Nat → JaxCGState S V → List (JaxCGState S V)
  | 0, s => [s]
  | fuel + 1, s =>
    if jaxCgCond ops mIsId maxiter atol2 s then s :: jaxCgRun ops A M mIsId maxiter atol2 fuel (jaxCgStep ops A M s) else [s]

omit [Add V] [Sub V] [SMul S V] [Div S] [Mul R] [Div R] [Max R] in
/-- `M = None` is `_identity` -/
def precondOf (M : Option (V → V)) : V → V :=
  match M with
  | some m => m
  | none => fun v => v

omit [Div R] in
/-- `jax.scipy.sparse.linalg.cg(A, b, x0, tol=, atol=, maxiter=, M=)[0]` -/
def jaxCg [LT R] [DecidableLT R] (ops : JaxOps S R V) (A : V → V) (M : Option (V → V)) (b x0 : V) (tol atol : R)
    (maxiter : Nat) : V :=
  (jaxCgLoop ops A (precondOf M) M.isNone maxiter (jaxAtol2 tol atol (ops.vdotRe b b)) maxiter
    (jaxCgInit ops A (precondOf M) b x0)).x


/-! ### fixed-iteration variant  (`scico.flax.inverse.cg_solver`) -/

structure ScanState (S V : Type) where
  x : V
  r : V
  p : V
  num : S

omit [Mul R] [Div R] [Max R] in
def scanInit (ops : CGOps S R V) (A : V → V) (b x0 : V) : ScanState S V :=
  let r := b - A x0
  { x := x0, r := r, p := r, num := ops.inner r r }

omit [Mul R] [Div R] [Max R] in
/-- `fun(carry, _)`: the two quotients are guarded, `jnp.where(den == 0, 0.0, num / den)` -/
def scanStep [Zero S] (ops : CGOps S R V) (A : V → V) (s : ScanState S V) : ScanState S V :=
  let Ap := A s.p
  let den := ops.inner s.p Ap
  let alpha := if ops.isZero den then 0 else s.num / den
  let x := s.x + alpha • s.p
  let r := s.r - alpha • Ap
  let num := ops.inner r r
  let beta := if ops.isZero s.num then 0 else num / s.num
  let p := r + beta • s.p
  { x := x, r := r, p := p, num := num }

omit [Mul R] [Div R] [Max R] in
/-- `lax.scan(fun, carry, length=k)` -/
def scanIter [Zero S] (ops : CGOps S R V) (A : V → V) : Nat → ScanState S V → ScanState S V
  | 0, s => s
  | k + 1, s => scanIter ops A k (scanStep ops A s)

omit [Mul R] [Div R] [Max R] in
def cgScan [Zero S] (ops : CGOps S R V) (A : V → V) (b x0 : V) (maxiter : Nat) : V :=
  (scanIter ops A maxiter (scanInit ops A b x0)).x

/-! ### least squares  (`scico.solver.lstsq`): `cg(Aop.H @ Aop, Aop.H @ b, …)` -/

omit [Add V] [Sub V] [SMul S V] [Div S] [Mul R] [Div R] [Max R] in
/-- the system handed to `cg`: operator `x ↦ Aᴴ(A x)` and right-hand side `Aᴴ b` -/
def lstsqSys {U : Type} (A : V → U) (AH : U → V) (b : U) : (V → V) × V :=
  (fun x => AH (A x), AH b)

def lstsq {U : Type} (ops : CGOps S R V) (A : V → U) (AH : U → V) (M : V → V) (b : U) (x0 : V)
    (tol atol : R) (maxiter : Nat) : V × CGInfo R :=
  let sys := lstsqSys A AH b
  cg ops sys.1 M sys.2 x0 tol atol maxiter

end CG

/-! ## `scico.metric.rel_res` -/

/-- `rel_res` given the three norms `‖ax‖`, `‖b‖`, `‖b − ax‖` -/
def relResOf {R : Type} [Zero R] [Div R] [Max R] [LT R] [DecidableLT R] (nax nb nd : R) : R :=
  let nrm := max nax nb
  if isZero nrm then 0 else nd / nrm

def relRes {R V : Type} [Zero R] [Div R] [Max R] [LT R] [DecidableLT R] [Sub V] (norm : V → R) (ax b : V) : R :=
  relResOf (norm ax) (norm b) (norm (b - ax))

/-! ## dense vectors and matrices -/

abbrev Mat (α : Type) (m n : Nat) := Fin m → Fin n → α

section Dense
variable {α : Type} [Add α] [Mul α] [Zero α]

def mulVec {m n : Nat} (A : Mat α m n) (x : Vec α n) : Vec α m := fun i => Vec.sum fun j => A i j * x j

def matMul {m n k : Nat} (A : Mat α m n) (B : Mat α n k) : Mat α m k :=
  fun i l => Vec.sum fun j => A i j * B j l

omit [Add α] [Mul α] [Zero α] in
/-- `A.T.conj()` -/
def conjT [HasConj α] {m n : Nat} (A : Mat α m n) : Mat α n m := fun j i => conj (A i j)

end Dense

/-! ## `scico.solver.MatrixATADSolver` -/

/-- `D`: a 1-D array (diagonal) or a 2-D array -/
inductive DMat (α : Type) (n : Nat) where
  | diag (d : Vec α n)
  | full (D : Mat α n n)

def DMat.isDiag {α n} : DMat α n → Bool
  | .diag _ => true
  | .full _ => false

/-- entries of `snp.diag(D)` resp. `D` -/
def DMat.entry {α n} [Zero α] : DMat α n → Fin n → Fin n → α
  | .diag d, i, j => if i = j then d i else 0
  | .full D, i, j => D i j

/-- how the argument `D` of `MatrixATADSolver.__init__` presents itself: a `Diagonal` operator (with the number of
    dimensions of its diagonal) or something handed to `jnp.array` (with its `ndim`) -/
inductive DArg where
  | diagonalOp (ndim : Nat)
  | array (ndim : Nat)

/-- the argument `W`: `None`, a `Diagonal` operator, a jax array, or anything else -/
inductive WArg where
  | none
  | diagonalOp (ndim : Nat)
  | array
  | other

/-- the argument checks of `MatrixATADSolver.__init__`, in the order of the code: `D` first (`ValueError`), then `W`
    (`ValueError` for a `Diagonal` with a non-1-D diagonal, `TypeError` for anything that is not an array) -/
def atadValidate (d : DArg) (w : WArg) : Except String Unit :=
  let checkW : Except String Unit :=
    match w with
    | .none => .ok ()
    | .diagonalOp nd => if nd = 1 then .ok () else .error "value"
    | .array => .ok ()
    | .other => .error "type"
  match d with
  | .diagonalOp nd => if nd = 1 then checkW else .error "value"
  | .array nd => if nd = 1 ∨ nd = 2 then checkW else .error "value"

structure ATAD (α : Type) (m n : Nat) where
  A : Mat α m n
  D : DMat α n
  W : Vec α m

section ATADsec
variable {α : Type} [Add α] [Sub α] [Mul α] [Div α] [Zero α] [One α] [HasConj α] [HasIsZero α] {m n : Nat}

/-- `snp.all(W != 0)` -/
def allNonzero (W : Vec α m) : Bool := (List.ofFn fun i => !(isZ (W i))).all id

/-- branch `self.woodbury = bool(N < M and D.ndim == 1 and snp.all(W != 0))`  (`N, M = A.shape`; repo 58aa0a9) -/
def ATAD.useWoodbury (s : ATAD α m n) : Bool := decide (m < n) && s.D.isDiag && allNonzero s.W

/-- `G = snp.diag(1.0 / W) + A @ (A.T.conj() / D[:, snp.newaxis])` -/
def gWoodbury (A : Mat α m n) (d : Vec α n) (W : Vec α m) : Mat α m m :=
  fun i j => (if i = j then 1 / W i else 0) + Vec.sum fun k => A i k * (conj (A j k) / d k)

/-- `G = A.T.conj() @ (W[:, snp.newaxis] * A) + snp.diag(D)`  resp.  `… + D` -/
def gDirect (A : Mat α m n) (D : DMat α n) (W : Vec α m) : Mat α n n :=
  fun i j => (Vec.sum fun k => conj (A k i) * (W k * A k j)) + D.entry i j

/-- `solve(b)` for a vector `b`; `fsW`/`fsD` stand for `lu_solve`/`cho_solve` with the factor of
    `gWoodbury` resp. `gDirect` (contract: they return `G⁻¹ c`). -/
def ATAD.solve (s : ATAD α m n) (fsW : Vec α m → Vec α m) (fsD : Vec α n → Vec α n) (b : Vec α n) : Vec α n :=
  match s.D with
  | .diag d =>
    if s.useWoodbury then
      let w := fsW (mulVec s.A (fun k => b k / d k))
      let AHw := mulVec (conjT s.A) w
      fun k => (b k - AHw k) / d k
    else fsD b
  | .full _ => fsD b

/-- `solve(B)` for a 2-D right-hand side (`D[:, snp.newaxis]` broadcast) -/
def ATAD.solveM {k : Nat} (s : ATAD α m n) (fsW : Mat α m k → Mat α m k) (fsD : Mat α n k → Mat α n k)
    (b : Mat α n k) : Mat α n k :=
  match s.D with
  | .diag d =>
    if s.useWoodbury then
      let w := fsW (matMul s.A (fun i l => b i l / d i))
      let AHw := matMul (conjT s.A) w
      fun i l => (b i l - AHw i l) / d i
    else fsD b
  | .full _ => fsD b

/-- the matrix the solver factorises, whichever branch -/
def ATAD.gOf (s : ATAD α m n) : (Σ k : Nat, Mat α k k) :=
  match s.D with
  | .diag d => if s.useWoodbury then ⟨m, gWoodbury s.A d s.W⟩ else ⟨n, gDirect s.A s.D s.W⟩
  | .full _ => ⟨n, gDirect s.A s.D s.W⟩

/-- `A.T.conj() @ (W[:, snp.newaxis] * A) @ x + D x`  (what `accuracy` compares with `b`) -/
def ATAD.lhsApply (s : ATAD α m n) (x : Vec α n) : Vec α n :=
  let AHWA : Mat α n n := matMul (conjT s.A) (fun i j => s.W i * s.A i j)
  let Dx : Vec α n := match s.D with
    | .diag d => fun i => d i * x i
    | .full D => mulVec D x
  fun i => mulVec AHWA x i + Dx i

def ATAD.lhsApplyM {k : Nat} (s : ATAD α m n) (x : Mat α n k) : Mat α n k :=
  let AHWA : Mat α n n := matMul (conjT s.A) (fun i j => s.W i * s.A i j)
  let Dx : Mat α n k := match s.D with
    | .diag d => fun i l => d i * x i l
    | .full D => matMul D x
  fun i l => matMul AHWA x i l + Dx i l

/-- `accuracy(x, b) = rel_res(lhs x, b)` -/
def ATAD.accuracy {R : Type} [Zero R] [Div R] [Max R] [LT R] [DecidableLT R]
    (s : ATAD α m n) (norm : Vec α n → R) (x b : Vec α n) : R :=
  relResOf (norm (s.lhsApply x)) (norm b) (norm (fun i => b i - s.lhsApply x i))

/-- `accuracy(X, B)` for 2-D arguments: `rel_res` ravels both sides, so `norm` is the Frobenius norm -/
def ATAD.accuracyM {R : Type} [Zero R] [Div R] [Max R] [LT R] [DecidableLT R] {k : Nat}
    (s : ATAD α m n) (norm : Mat α n k → R) (x b : Mat α n k) : R :=
  relResOf (norm (s.lhsApplyM x)) (norm b) (norm (fun i l => b i l - s.lhsApplyM x i l))

end ATADsec

/-! ### `ConvATADSolver.__init__`: what is checked before any arithmetic -/

/-- how the argument `A` presents itself -/
structure ConvArg where
  /-- `isinstance(A, ComposedLinearOperator)` -/
  composed : Bool
  /-- `isinstance(A.A, Sum)` -/
  outerIsSum : Bool
  /-- `isinstance(A.B, CircularConvolve)` -/
  innerIsConv : Bool
  /-- `isinstance(A.A.kwargs["axis"], int)` -/
  axisIsInt : Bool

/-- `TypeError` unless `A` is `Sum ∘ CircularConvolve`, then `ValueError` unless the sum runs over a single axis -/
def convValidate (a : ConvArg) : Except String Unit :=
  if !a.composed then .error "type"
  else if !a.outerIsSum || !a.innerIsConv then .error "type"
  else if !a.axisIsInt then .error "value"
  else .ok ()

/-! ## `scico.solver.ConvATADSolver` in the DFT domain

`Ahat`, `Dhat`, `bhat` are indexed by (filter `k`, frequency `w`); the sum runs over the
`sum_axis` (filters).  `fftn/ifftn` are outside the model (contract). -/

section Conv
variable {α : Type} [Add α] [Sub α] [Mul α] [Div α] [Zero α] [One α] [HasConj α] {K N : Nat}

/-- `AHEinv = Ahat.conj() / (1.0 + snp.sum(Ahat * (Ahat.conj() / Dhat), axis, keepdims=True))` -/
def convAHEinv (Ahat Dhat : Mat α K N) : Mat α K N :=
  fun k w => conj (Ahat k w) / (1 + Vec.sum fun k' => Ahat k' w * (conj (Ahat k' w) / Dhat k' w))

/-- `xhat = (bhat - AHEinv * snp.sum(Ahat * bhat / Dhat, axis, keepdims=True)) / Dhat` -/
def convSolveHat (Ahat Dhat bhat : Mat α K N) : Mat α K N :=
  fun k w => (bhat k w - convAHEinv Ahat Dhat k w * (Vec.sum fun k' => Ahat k' w * bhat k' w / Dhat k' w)) / Dhat k w

/-- the documented per-frequency system `(Âᴴ Â + D̂) x̂`, evaluated at `xhat` -/
def convLhsHat (Ahat Dhat xhat : Mat α K N) : Mat α K N :=
  fun k w => conj (Ahat k w) * (Vec.sum fun k' => Ahat k' w * xhat k' w) + Dhat k w * xhat k w

end Conv

/-- read an array as a vector -/
def thaw {α : Type} [Inhabited α] {n : Nat} (a : Array α) : Vec α n := fun i => a.getD i.val default

/-- materialise a vector (`freeze v = v`, theorem `freeze_eq`).  Written as a macro so that the array is
    built where the vector is defined: a *function* `memo v` would be compiled with arity 2 and rebuild
    the array at every index, making iterated models exponential. -/
macro "freeze " t:term : term => `(thaw (Array.ofFn $t))

/-! ## bisection  (`scico.solver.bisect`), vectorised over `n` independent scalar functions -/

structure BisectSt (α : Type) (n : Nat) where
  a : Vec α n
  b : Vec α n
  fa : Vec α n
  fb : Vec α n
  xerr : α
  ferr : α
  /-- number of loop bodies executed (`numiter + 1`) -/
  steps : Nat

section Bisect
variable {α : Type} [Add α] [Sub α] [Mul α] [Div α] [Neg α] [Zero α] [One α] [LT α] [DecidableLT α]
  [LE α] [DecidableLE α] [Max α] [Inhabited α] {n : Nat}

/-- `snp.max(snp.abs(v))` (for `n ≥ 1`; folding from `0` is harmless because `|·| ≥ 0`) -/
def vmaxAbs (v : Vec α n) : α := (List.ofFn fun i => absv (v i)).foldl max 0

/-- does `sign(fa) == sign(fb)` hold somewhere (the `range_check` test) -/
def bisectRangeBad (fa fb : Vec α n) : Bool :=
  (List.ofFn fun i => isZero (sgn (fa i) - sgn (fb i))).any id

def bisectInit (f : Fin n → α → α) (a b : Vec α n) : BisectSt α n :=
  { a := a, b := b, fa := fun i => f i (a i), fb := fun i => f i (b i), xerr := 0, ferr := 0, steps := 0 }

/-- one body of the `for` loop -/
def bisectStep (f : Fin n → α → α) (s : BisectSt α n) : BisectSt α n :=
  let c : Vec α n := freeze fun i => (s.a i + s.b i) / two
  let fc : Vec α n := freeze fun i => f i (c i)
  let a' : Vec α n := freeze fun i =>
    if isZero (sgn (s.fa i) * sgn (fc i) - 1) || isZero (fc i) then c i else s.a i
  let b' : Vec α n := freeze fun i =>
    if isZero (sgn (fc i) * sgn (s.fb i) - 1) || isZero (fc i) then c i else s.b i
  { a := a', b := b'
    fa := freeze fun i => f i (a' i)
    fb := freeze fun i => f i (b' i)
    xerr := vmaxAbs fun i => b' i - a' i
    ferr := vmaxAbs fc
    steps := s.steps + 1 }

/-- `for numiter in range(maxiter): …; if xerr <= xtol and ferr <= ftol: break` -/
def bisectLoop (f : Fin n → α → α) (xtol ftol : α) : Nat → BisectSt α n → BisectSt α n
  | 0, s => s
  | k + 1, s =>
    let s' := bisectStep f s
    if s'.xerr ≤ xtol ∧ s'.ferr ≤ ftol then s' else bisectLoop f xtol ftol k s'

/-- states after each executed body -/
def bisectRun (f : Fin n → α → α) (xtol ftol : α) : Nat → BisectSt α n → List (BisectSt α n)
  | 0, _ => []
  | k + 1, s =>
    let s' := bisectStep f s
    if s'.xerr ≤ xtol ∧ s'.ferr ≤ ftol then [s'] else s' :: bisectRun f xtol ftol k s'

/-- `idx = argmin(stack(|fa|, |fb|)); x = choose(idx, (a, b))` (first minimum wins) -/
def bisectPick (s : BisectSt α n) : Vec α n :=
  fun i => if absv (s.fb i) < absv (s.fa i) then s.b i else s.a i

/-- `bisect(f, a, b, xtol=, ftol=, maxiter=, range_check=)`; `.error "value"` = the range check raised -/
def bisect (f : Fin n → α → α) (a b : Vec α n) (xtol ftol : α) (maxiter : Nat) (rangeCheck : Bool) :
    Except String (Vec α n × BisectSt α n) :=
  let s0 := bisectInit f a b
  if rangeCheck && bisectRangeBad s0.fa s0.fb then .error "value"
  else
    let s := bisectLoop f xtol ftol maxiter s0
    .ok (bisectPick s, s)

end Bisect

/-! ## golden-section search  (`scico.solver.golden`) -/

structure GoldSt (α : Type) (n : Nat) where
  a : Vec α n
  b : Vec α n
  c : Vec α n
  d : Vec α n
  xerr : α
  steps : Nat

section Golden
variable {α : Type} [Add α] [Sub α] [Mul α] [Div α] [Neg α] [Zero α] [One α] [LT α] [DecidableLT α]
  [LE α] [DecidableLE α] [Max α] [Inhabited α] {n : Nat}

/-- `gr = 2 / (snp.sqrt(5) + 1)` -/
def goldenRatio [HasSqrt α] : α := two / (HasSqrt.sqrt five + 1)

/-- `c = b - gr (b - a)` unless supplied, `d = a + gr (b - a)` -/
def goldInit (gr : α) (a b : Vec α n) (c : Option (Vec α n)) : GoldSt α n :=
  { a := a, b := b
    c := match c with | some c => c | none => fun i => b i - gr * (b i - a i)
    d := fun i => a i + gr * (b i - a i)
    xerr := 0, steps := 0 }

/-- `goldInit` after `fixes/golden-c-beyond-d.patch`: a supplied `c` and `d` are put in order
    (`lo = minimum(c, d); hi = maximum(c, d); c = where(lo < hi, lo, b - gr (b - a)); d = where(lo < hi, hi, d)`) -/
def goldInitSorted (gr : α) (a b : Vec α n) (c : Option (Vec α n)) : GoldSt α n :=
  match c with
  | none => goldInit gr a b none
  | some c =>
    let d0 : Vec α n := fun i => a i + gr * (b i - a i)
    let lo : Vec α n := fun i => if c i < d0 i then c i else d0 i
    let hi : Vec α n := fun i => if c i < d0 i then d0 i else c i
    { a := a, b := b
      c := fun i => if lo i < hi i then lo i else b i - gr * (b i - a i)
      d := fun i => if lo i < hi i then hi i else d0 i
      xerr := 0, steps := 0 }

/-- the part of the loop body before the `break` test -/
def goldShrink (f : Fin n → α → α) (s : GoldSt α n) : GoldSt α n :=
  let fc : Vec α n := freeze fun i => f i (s.c i)
  let fd : Vec α n := freeze fun i => f i (s.d i)
  let b' : Vec α n := freeze fun i => if fc i < fd i then s.d i else s.b i
  let a' : Vec α n := freeze fun i => if fc i ≥ fd i then s.c i else s.a i
  { s with a := a', b := b', xerr := vmaxAbs fun i => b' i - a' i, steps := s.steps + 1 }

/-- the part after it: new interior points -/
def goldPoints (gr : α) (s : GoldSt α n) : GoldSt α n :=
  { s with c := freeze fun i => s.b i - gr * (s.b i - s.a i)
           d := freeze fun i => s.a i + gr * (s.b i - s.a i) }

def goldLoop (gr : α) (f : Fin n → α → α) (xtol : α) : Nat → GoldSt α n → GoldSt α n
  | 0, s => s
  | k + 1, s =>
    let s' := goldShrink f s
    if s'.xerr ≤ xtol then s' else goldLoop gr f xtol k (goldPoints gr s')

def goldRun (gr : α) (f : Fin n → α → α) (xtol : α) : Nat → GoldSt α n → List (GoldSt α n)
  | 0, _ => []
  | k + 1, s =>
    let s' := goldShrink f s
    if s'.xerr ≤ xtol then [s'] else s' :: goldRun gr f xtol k (goldPoints gr s')

/-- `idx = argmin(stack(fa, fb)); x = choose(idx, (a, b))` -/
def goldPick (f : Fin n → α → α) (s : GoldSt α n) : Vec α n :=
  fun i => if f i (s.b i) < f i (s.a i) then s.b i else s.a i

def golden (gr : α) (f : Fin n → α → α) (a b : Vec α n) (c : Option (Vec α n)) (xtol : α) (maxiter : Nat) :
    Vec α n × GoldSt α n :=
  let s := goldLoop gr f xtol maxiter (goldInit gr a b c)
  (goldPick f s, s)

/-- `golden` with the ordered interior points of `fixes/golden-c-beyond-d.patch` -/
def goldenSorted (gr : α) (f : Fin n → α → α) (a b : Vec α n) (c : Option (Vec α n)) (xtol : α) (maxiter : Nat) :
    Vec α n × GoldSt α n :=
  let s := goldLoop gr f xtol maxiter (goldInitSorted gr a b c)
  (goldPick f s, s)

end Golden

/-! ## ADMM x-update assembly  (`scico/optimize/_admmaux.py`)

A linear operator is what the code uses of it: the forward map and the adjoint map. -/

structure LinOp (V U : Type) where
  eval : V → U
  adj : U → V

/-- `C.gram_op` : `x ↦ C.adj(C(x))` -/
def LinOp.gram {V U : Type} (C : LinOp V U) : V → V := fun x => C.adj (C.eval x)

/-- the `SquaredL2Loss` `f`: `scale`, `A`, `W` (as the map `v ↦ W.diagonal * v`), `y` -/
structure SqL2 (S V Y : Type) where
  scale : S
  A : LinOp V Y
  W : Y → Y
  y : Y

/-- one splitting term: `ρ_i`, `C_i`, `z_i`, `u_i` -/
structure Term (S V U : Type) where
  rho : S
  C : LinOp V U
  z : U
  u : U

section Assembly
variable {S V U Y : Type} [Add V] [SMul S V] [Mul S] [Add S] [One S]

/-- Python `reduce(lambda a, b: a + b, l)`: left fold from the first element; `none` = empty list
    (`TypeError`) -/
def reduceAdd {β : Type} (add : β → β → β) : List β → Option β
  | [] => none
  | x :: xs => some (xs.foldl add x)

/-- `f.hessian` : `x ↦ 2 * scale * A.adj(W(A(x)))` -/
def SqL2.hessian (f : SqL2 S V Y) : V → V := fun x => (two * f.scale) • f.A.adj (f.W (f.A.eval x))

/-- `LinearSubproblemSolver.internal_init`:
    `lhs_op = reduce(+, [rho_i * C_i.gram_op]);  if f is not None: lhs_op += f.hessian` -/
def linearLhs (f : Option (SqL2 S V Y)) (terms : List (Term S V U)) : Option (V → V) :=
  match reduceAdd (β := V → V) (fun a b => fun x => a x + b x) (terms.map fun t => fun x => t.rho • t.C.gram x) with
  | none => none
  | some g =>
    match f with
    | none => some g
    | some f => some fun x => g x + f.hessian x

variable [Sub U]

/-- `LinearSubproblemSolver.compute_rhs`:
    `rhs = 0; rhs += 2.0 * scale * A.adj(W.diagonal * y); for …: rhs += rho_i * C_i.adj(z_i - u_i)` -/
def linearRhs (zeroV : V) (f : Option (SqL2 S V Y)) (terms : List (Term S V U)) : V :=
  let r0 := match f with
    | none => zeroV
    | some f => zeroV + (two * f.scale) • f.A.adj (f.W f.y)
  terms.foldl (fun r t => r + t.rho • t.C.adj (t.z - t.u)) r0

/-- the loss after `f.set_scale(s)` -/
def SqL2.withScale (f : SqL2 S V Y) (s : S) : SqL2 S V Y := { f with scale := s }

/-- What the solvers that precompute their left-hand side in `internal_init` (`MatrixSubproblemSolver`: `W = 2.0 * scale * f.W`,
    `CircularConvolveSolver`: `A_lhs`) work with when `f.set_scale(s1)` is called *after* the ADMM object was built: the operator
    assembled with the scale at construction, `compute_rhs()` with the current scale (recorded finding `stale-scale-after-init`).
    `LinearSubproblemSolver` / `GenericSubproblemSolver` read the current scale on both sides (`f.hessian`, `f(x)` are evaluated lazily). -/
def staleScaleSystem (zeroV : V) (f : SqL2 S V Y) (s1 : S) (terms : List (Term S V U)) : Option ((V → V) × V) :=
  (linearLhs (some f) terms).map fun lhs => (lhs, linearRhs zeroV (some (f.withScale s1)) terms)

/-- `G0BlockCircularConvolveSolver.compute_rhs`: the first term carries the extra factor `2 ω` -/
def g0RhsRaw (zeroV : V) (omega : S) (terms : List (Term S V U)) : V :=
  let ws : List S := (two * omega) :: (terms.drop 1).map fun _ => 1
  (ws.zip terms).foldl (fun r p => r + (p.1 * p.2.rho) • p.2.C.adj (p.2.z - p.2.u)) zeroV

end Assembly

section Scalings
variable {S V U Y : Type} [Add V] [SMul S V] [Mul S] [Add S] [One S] [Div S] [Sub U]

/-- `FBlockCircularConvolveSolver`: `D = reduce(+, [rho_i * gram_i]) / (2 scale)`; the system handed
    to `ConvATADSolver` is `(AᴴA + D) x = compute_rhs() / (2 scale)`.  (`f.W` is not used on the
    left-hand side.) -/
def fblockSystem (zeroV : V) (f : SqL2 S V Y) (terms : List (Term S V U)) : Option ((V → V) × V) :=
  match reduceAdd (β := V → V) (fun a b => fun x => a x + b x) (terms.map fun t => fun x => t.rho • t.C.gram x) with
  | none => none
  | some g =>
    let c : S := two * f.scale
    some (fun x => f.A.gram x + (1 / c) • g x, (1 / c) • linearRhs zeroV (some f) terms)

/-- `FBlockCircularConvolveSolver` after `f.set_scale(s1)`: `D` (built in `internal_init`) still divides by the old `2 scale`,
    `solve` divides the right-hand side (current scale) by the new `2 s1` -/
def fblockStaleSystem (zeroV : V) (f : SqL2 S V Y) (s1 : S) (terms : List (Term S V U)) : Option ((V → V) × V) :=
  (fblockSystem zeroV f terms).map fun sys => (sys.1, (1 / (two * s1)) • linearRhs zeroV (some (f.withScale s1)) terms)

/-- `G0BlockCircularConvolveSolver`: `D = reduce(+, [rho_i gram_i, i ≥ 2]) / (2 ω rho_1)`; system
    `(C₁ᴴC₁ + D) x = compute_rhs() / (2 ω rho_1)` -/
def g0System (zeroV : V) (omega : S) (terms : List (Term S V U)) : Option ((V → V) × V) :=
  match terms with
  | [] => none
  | t1 :: rest =>
    match reduceAdd (β := V → V) (fun a b => fun x => a x + b x) (rest.map fun t => fun x => t.rho • t.C.gram x) with
    | none => none
    | some g =>
      let c : S := two * omega * t1.rho
      some (fun x => t1.C.gram x + (1 / c) • g x, (1 / c) • g0RhsRaw zeroV omega terms)

end Scalings

/-! ### DFT-domain solve of `CircularConvolveSolver` (per frequency; `N` frequencies) -/

section Circ
variable {α : Type} [Add α] [Mul α] [Div α] [Zero α] [One α] {N : Nat}

/-- `A_lhs.h_dft = reduce(+, [rho_i * ghat_i]) (+ 2.0 * scale * ghatA)`, `ghat` = DFT of the impulse
    response of the gram operator -/
def circLhsHat (f : Option (α × Vec α N)) (terms : List (α × Vec α N)) : Option (Vec α N) :=
  match reduceAdd (β := Vec α N) (fun a b => fun w => a w + b w) (terms.map fun t => fun w => t.1 * t.2 w) with
  | none => none
  | some g =>
    match f with
    | none => some g
    | some (scale, gA) => some fun w => g w + two * scale * gA w

/-- `x_dft = rhs_dft / A_lhs.h_dft` -/
def circSolveHat (lhsHat rhsHat : Vec α N) : Vec α N := fun w => rhsHat w / lhsHat w

end Circ

/-! ### `MatrixSubproblemSolver.internal_init`: the arguments of `MatrixATADSolver(A, Csum, W)` -/

/-- a `C_i` acceptable to `MatrixSubproblemSolver`: a `Diagonal` or a `MatrixOperator` with `p` rows -/
inductive COp (α : Type) (n : Nat) where
  | diag (d : Vec α n)
  | mat (p : Nat) (M : Mat α p n)

section MatrixSub
variable {α : Type} [Add α] [Mul α] [Zero α] [One α] [HasConj α] {m n : Nat}

/-- `c * D` for a `Diagonal` / `MatrixOperator` -/
def DMat.smul (c : α) : DMat α n → DMat α n
  | .diag d => .diag fun i => c * d i
  | .full D => .full fun i j => c * D i j

/-- `D1 + D2`: two `Diagonal`s give a `Diagonal`, anything else a `MatrixOperator` -/
def DMat.add : DMat α n → DMat α n → DMat α n
  | .diag a, .diag b => .diag fun i => a i + b i
  | a, b => .full fun i j => a.entry i j + b.entry i j

/-- `C.gram_op` (`Diagonal(conj(d) d)` resp. `MatrixOperator(Mᴴ M)`) -/
def COp.gramD : COp α n → DMat α n
  | .diag d => .diag fun i => conj (d i) * d i
  | .mat _ M => .full fun i j => Vec.sum fun k => conj (M k i) * M k j

/-- `Csum = reduce(+, [rho_i * C_i.gram_op]);  MatrixATADSolver(f.A, Csum, W = 2.0 * f.scale * f.W)` -/
def matrixSubATAD (scale : α) (A : Mat α m n) (W : Vec α m) (terms : List (α × COp α n)) : Option (ATAD α m n) :=
  (reduceAdd DMat.add (terms.map fun t => (t.2.gramD).smul t.1)).map fun D =>
    { A := A, D := D, W := fun i => two * scale * W i }

end MatrixSub

/-! ### objective handed to `scipy` by `GenericSubproblemSolver` -/

/-- `out = 0.0; for …: out += 0.5 * rho_i * sum(|z_i - u_i - C_i(x)|²);  out += f(x)` -/
def genericObj {R V U : Type} [Add R] [Mul R] [Div R] [Zero R] [One R] [Sub U]
    (sqnorm : U → R) (f : Option (V → R)) (terms : List (R × (V → U) × U × U)) (x : V) : R :=
  let out := terms.foldl (fun o t => o + (1 / two) * t.1 * sqnorm (t.2.2.1 - t.2.2.2 - t.2.1 x)) 0
  match f with
  | none => out
  | some f => out + f x

/-! ## data copied from the scico source (round 4)

Everything below `solverTables` is *data of the source*: default argument values, default keyword dictionaries, the guarded
`raise` statements of every `internal_init`, the Woodbury branch condition.  `harness/linsolve_translate.py` re-reads them with
`ast` on every run into `Scico/Generated/LinSolveTables.lean`, whose single obligation is `src = solverTables` (`decide`). -/

/-- one `if <test>: raise <err>(…)` of an `internal_init`; for `not isinstance(subject, classes)` the test is structured -/
structure ClassCheck where
  guard : String
  subject : String
  classes : List String
  test : String
  err : String
  deriving DecidableEq, Repr

/-- one conjunct of the Woodbury branch: `lhs op rhs` (`kind = "cmp"`) or `snp.all(lhs op rhs)` (`kind = "all"`) -/
structure CondAtom where
  kind : String
  lhs : String
  op : String
  rhs : String
  deriving DecidableEq, Repr

structure SolverTables where
  /-- function (or `Class.__init__`) ↦ [(argument, source text of its default)] -/
  defaults : List (String × List (String × String))
  /-- (class, variable, entries of the dict literal) -/
  kwDicts : List (String × String × List (String × String))
  /-- class ↦ guarded raises of `internal_init`, in source order -/
  checks : List (String × List ClassCheck)
  woodburyBind : String × String
  woodbury : List CondAtom
  deriving DecidableEq, Repr

def solverTables : SolverTables :=
  { defaults := [
      ("cg", [("x0", "None"), ("tol", "1e-05"), ("atol", "0.0"), ("maxiter", "1000"), ("info", "True"), ("M", "None")]),
      ("lstsq", [("x0", "None"), ("tol", "1e-05"), ("atol", "0.0"), ("maxiter", "1000"), ("info", "False"), ("M", "None")]),
      ("bisect", [("args", "()"), ("xtol", "1e-07"), ("ftol", "1e-07"), ("maxiter", "100"), ("full_output", "False"), ("range_check", "True")]),
      ("golden", [("c", "None"), ("args", "()"), ("xtol", "1e-07"), ("maxiter", "100"), ("full_output", "False")]),
      ("cg_solver", [("x0", "None"), ("maxiter", "50")]),
      ("MatrixATADSolver.__init__", [("W", "None"), ("cho_factor", "False"), ("lower", "False"), ("check_finite", "True")]),
      ("GenericSubproblemSolver.__init__", [("minimize_kwargs", "{'options': {'maxiter': 100}}")]),
      ("LinearSubproblemSolver.__init__", [("cg_kwargs", "None"), ("cg_function", "'scico'")]),
      ("MatrixSubproblemSolver.__init__", [("check_solve", "False"), ("solve_kwargs", "None")]),
      ("CircularConvolveSolver.__init__", [("ndims", "None")]),
      ("FBlockCircularConvolveSolver.__init__", [("ndims", "None"), ("check_solve", "False")]),
      ("G0BlockCircularConvolveSolver.__init__", [("ndims", "None"), ("check_solve", "False")])
    ],
    kwDicts := [
      ("LinearSubproblemSolver", "default_cg_kwargs", [("tol", "0.0001"), ("maxiter", "100")]),
      ("MatrixSubproblemSolver", "default_solve_kwargs", [("cho_factor", "False")])
    ],
    checks := [
      ("LinearSubproblemSolver", [
          { guard := "admm.f is not None", subject := "admm.f", classes := ["SquaredL2Loss"], test := "", err := "TypeError" },
          { guard := "admm.f is not None", subject := "admm.f.A", classes := ["LinearOperator"], test := "", err := "TypeError" }]),
      ("MatrixSubproblemSolver", [
          { guard := "admm.f is not None", subject := "admm.f", classes := ["SquaredL2Loss"], test := "", err := "TypeError" },
          { guard := "admm.f is not None", subject := "admm.f.A", classes := ["Diagonal", "MatrixOperator"], test := "", err := "TypeError" },
          { guard := "for (i, Ci) in enumerate(admm.C_list)", subject := "Ci", classes := ["Diagonal", "MatrixOperator"], test := "", err := "TypeError" }]),
      ("CircularConvolveSolver", [
          { guard := "not (admm.f is None)", subject := "admm.f", classes := ["SquaredL2Loss"], test := "", err := "TypeError" },
          { guard := "not (admm.f is None)", subject := "admm.f.A", classes := ["CircularConvolve", "Identity"], test := "", err := "TypeError" },
          { guard := "not (admm.f is None)", subject := "admm.f.W", classes := ["Identity"], test := "", err := "ValueError" }]),
      ("FBlockCircularConvolveSolver", [
          { guard := "", subject := "", classes := [], test := "admm.f is None", err := "ValueError" },
          { guard := "not (admm.f is None)", subject := "admm.f", classes := ["SquaredL2Loss"], test := "", err := "TypeError" },
          { guard := "not (admm.f is None)", subject := "admm.f.A", classes := ["ComposedLinearOperator"], test := "", err := "TypeError" },
          { guard := "not (admm.f is None)", subject := "admm.f.W", classes := ["Identity"], test := "", err := "ValueError" }]),
      ("G0BlockCircularConvolveSolver", [
          { guard := "", subject := "", classes := [], test := "admm.f is not None and (not isinstance(admm.f, ZeroFunctional))", err := "ValueError" },
          { guard := "", subject := "admm.g_list[0]", classes := ["SquaredL2Loss"], test := "", err := "TypeError" },
          { guard := "", subject := "admm.C_list[0]", classes := ["ComposedLinearOperator"], test := "", err := "TypeError" }])
    ],
    woodburyBind := ("N, M", "A.shape"),
    woodbury := [{ kind := "cmp", lhs := "N", op := "<", rhs := "M" }, { kind := "cmp", lhs := "D.ndim", op := "==", rhs := "1" },
                 { kind := "all", lhs := "W", op := "!=", rhs := "0" }] }

/-- source text of the default of argument `arg` of `fn` -/
def defaultOf (t : SolverTables) (fn arg : String) : Option String :=
  (t.defaults.lookup fn).bind fun l => l.lookup arg

/-- entries of a default keyword dictionary -/
def kwDictOf (t : SolverTables) (cls : String) : List (String × String) :=
  match t.kwDicts.find? (fun e => e.1 == cls) with
  | some e => e.2.2
  | none => []

/-- value of one conjunct of the Woodbury condition for `A` of shape `rows × cols` (`N, M = A.shape`), `D.ndim`, and the value
    of `snp.all(W != 0)`; `none` = a conjunct the model does not know -/
def CondAtom.eval (a : CondAtom) (rows cols dndim : Nat) (wAllNonzero : Bool) : Option Bool :=
  if a = { kind := "cmp", lhs := "N", op := "<", rhs := "M" } then some (decide (rows < cols))
  else if a = { kind := "cmp", lhs := "D.ndim", op := "==", rhs := "1" } then some (decide (dndim = 1))
  else if a = { kind := "all", lhs := "W", op := "!=", rhs := "0" } then some wAllNonzero
  else none

/-- `bool(a₁ and a₂ and …)` -/
def woodburyEval (atoms : List CondAtom) (rows cols dndim : Nat) (wAllNonzero : Bool) : Option Bool :=
  atoms.foldl (fun acc a => match acc, a.eval rows cols dndim wAllNonzero with
    | some x, some y => some (x && y)
    | _, _ => none) (some true)

/-- what an `internal_init` can see of the ADMM object: is `f` `None`; `isinstance(<subject>, <class>)` for the subjects
    `admm.f`, `admm.f.A`, `admm.f.W`, `admm.g_list[0]`, `admm.C_list[0]`; and for each `C_i` the classes it is an instance of -/
structure InitFacts where
  fNone : Bool
  isinst : String → String → Bool
  ciInst : List (String → Bool)

/-- guards and unstructured tests the model can interpret -/
def guardEval (g : String) (F : InitFacts) : Option Bool :=
  if g = "" then some true
  else if g = "admm.f is not None" then some (!F.fNone)
  else if g = "not (admm.f is None)" then some (!F.fNone)
  else if g = "for (i, Ci) in enumerate(admm.C_list)" then some true
  else none

def testEval (t : String) (F : InitFacts) : Option Bool :=
  if t = "admm.f is None" then some F.fNone
  else if t = "admm.f is not None and (not isinstance(admm.f, ZeroFunctional))" then some (!F.fNone && !F.isinst "admm.f" "ZeroFunctional")
  else none

/-- does the check raise? (`none`: not interpretable) -/
def ClassCheck.fires (c : ClassCheck) (F : InitFacts) : Option Bool :=
  match guardEval c.guard F with
  | none => none
  | some false => some false
  | some true =>
    if c.subject = "" then testEval c.test F
    else if c.subject = "Ci" then some (F.ciInst.any fun p => !(c.classes.any p))
    else some (!(c.classes.any (F.isinst c.subject)))

def errKind (e : String) : String :=
  if e = "TypeError" then "type" else if e = "ValueError" then "value" else "other"

/-- the class checks of an `internal_init`, in source order: the first one that fires decides the error -/
def initResult : List ClassCheck → InitFacts → Except String Unit
  | [], _ => .ok ()
  | c :: cs, F =>
    match c.fires F with
    | none => .error "uninterpretable"
    | some true => .error (errKind c.err)
    | some false => initResult cs F

/-- the guarded raises of the `internal_init` of class `cls` -/
def checksOf (t : SolverTables) (cls : String) : List ClassCheck := (t.checks.lookup cls).getD []

/-- every guard / test of a table is one the model interprets -/
def checksInterpretable (cs : List ClassCheck) : Bool :=
  cs.all fun c =>
    (c.guard ∈ ["", "admm.f is not None", "not (admm.f is None)", "for (i, Ci) in enumerate(admm.C_list)"]) &&
    (c.subject != "" || c.test ∈ ["admm.f is None", "admm.f is not None and (not isinstance(admm.f, ZeroFunctional))"])

/-! ## executable carrier for the generic models: size-erased array vectors -/

structure FVec (α : Type) where
  d : Array α

namespace FVec
variable {α : Type}
def zipWith (f : α → α → α) (a b : FVec α) : FVec α := ⟨Array.zipWith f a.d b.d⟩
instance [Add α] : Add (FVec α) := ⟨zipWith (· + ·)⟩
instance [Sub α] : Sub (FVec α) := ⟨zipWith (· - ·)⟩
instance [Mul α] : SMul α (FVec α) := ⟨fun c a => ⟨a.d.map (c * ·)⟩⟩
def sum [Add α] [Zero α] (a : FVec α) : α := a.d.foldl (· + ·) 0
def inner [Add α] [Mul α] [Zero α] [HasConj α] (a b : FVec α) : α :=
  (Array.zipWith (fun x y => conj x * y) a.d b.d).foldl (· + ·) 0
def ofList (l : List α) : FVec α := ⟨l.toArray⟩
def toList (a : FVec α) : List α := a.d.toList
/-- dense matrix (rows) times vector -/
def matVec [Add α] [Mul α] [Zero α] (rows : Array (Array α)) (x : FVec α) : FVec α :=
  ⟨rows.map fun r => (Array.zipWith (· * ·) r x.d).foldl (· + ·) 0⟩
end FVec

end Scico.LinSolve
