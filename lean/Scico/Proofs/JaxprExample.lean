/-
  A concrete sound interpretation (non-vacuity of `Interp.Sound`) : values are complex sequences
  `ℕ → ℂ` (vectors of any length, zero-extended), scalars `ℝ → ℂ`.

    lit true      0                          lit false n    the constant vector n
    linAll 0      sum of the data operands   linAll 1       negation
    linAll 2      shift  (x (i+1))           linAll 3       mask: keep x i where the parameter is ≠ 0
    bilinear _    pointwise product          divLike _      pointwise quotient
    realPart 0    pointwise real part        realPart 1     pointwise imaginary part
    conj _        pointwise complex conjugate
    nonlin _      pointwise square

  Used by `Props/C06.lean` to exhibit programs that are accepted (and are linear), programs that are
  rejected and really are not linear, and the `linC` / `linR` distinction.
-/
import Scico.Proofs.Jaxpr
import Mathlib.LinearAlgebra.Complex.Module
import Mathlib.Tactic.Ring
import Mathlib.Tactic.Abel
import Mathlib.Tactic.NormNum

namespace Scico.Jaxpr.Example

open Scico.Jaxpr

abbrev Vc := ℕ → ℂ

noncomputable def vecDen : PClass → Nat → List Vc → List Vc → Vc
  | .lit true, _, _, _ => 0
  | .lit false, n, _, _ => fun _ => (n : ℂ)
  | .linAll, 0, _, xs => xs.sum
  | .linAll, 1, _, xs => -(xs.headD 0)
  | .linAll, 2, _, xs => fun i => (xs.headD 0) (i + 1)
  | .linAll, 3, ps, xs => fun i => if (ps.headD 0) i = 0 then 0 else (xs.headD 0) i
  | .linAll, _, _, _ => 0
  | .bilinear, _, _, [u, v] => u * v
  | .bilinear, _, _, _ => 0
  | .divLike, _, _, [u, v] => u / v
  | .divLike, _, _, _ => 0
  | .realPart, 0, _, [u] => fun i => ((u i).re : ℂ)
  | .realPart, 1, _, [u] => fun i => ((u i).im : ℂ)
  | .realPart, _, _, _ => 0
  | .conj, _, _, [u] => fun i => (starRingEnd ℂ) (u i)
  | .conj, _, _, _ => 0
  | .nonlin, _, _, xs => (xs.headD 0) * (xs.headD 0)

noncomputable def vecInterp : Interp Vc := ⟨vecDen⟩

theorem sum_ladd (xs ys : List Vc) (h : xs.length = ys.length) :
    (ladd xs ys).sum = xs.sum + ys.sum := by
  induction xs generalizing ys with
  | nil => cases ys <;> simp_all [ladd]
  | cons x xs ih =>
    cases ys with
    | nil => simp at h
    | cons y ys =>
      have := ih ys (by simpa using h)
      simp only [ladd, List.zipWith_cons_cons, List.sum_cons] at this ⊢
      rw [this]; abel

theorem sum_lsmul (c : ℂ) (xs : List Vc) : (lsmul c xs).sum = c • xs.sum := by
  induction xs with
  | nil => simp [lsmul]
  | cons x xs ih => simp only [lsmul, List.map_cons, List.sum_cons, smul_add] at ih ⊢; rw [ih]

theorem headD_ladd (xs ys : List Vc) (h : xs.length = ys.length) :
    (ladd xs ys).headD 0 = xs.headD 0 + ys.headD 0 := by
  cases xs <;> cases ys <;> simp_all [ladd]

theorem headD_lsmul (c : ℂ) (xs : List Vc) : (lsmul c xs).headD 0 = c • xs.headD 0 := by
  cases xs <;> simp [lsmul]

theorem vecInterp_sound : vecInterp.Sound ℝ ℂ where
  star_real := fun r => by simp
  conj_add := fun p ps u u' => by
    simp only [vecInterp, vecDen]; funext i; simp
  conj_smul := fun p ps c u => by
    simp only [vecInterp, vecDen]; funext i; simp
  lit_zero := fun _ _ => rfl
  lin_add := by
    intro p ps xs ys h
    show vecDen .linAll p ps _ = vecDen .linAll p ps _ + vecDen .linAll p ps _
    match p with
    | 0 => exact sum_ladd xs ys h
    | 1 => simp only [vecDen, headD_ladd xs ys h]; abel
    | 2 => funext i; simp only [vecDen, headD_ladd xs ys h, Pi.add_apply]
    | 3 =>
      funext i
      simp only [vecDen, headD_ladd xs ys h, Pi.add_apply]
      split <;> simp
    | _ + 4 => simp [vecDen]
  lin_smul := by
    intro p ps c xs
    show vecDen .linAll p ps _ = c • vecDen .linAll p ps _
    match p with
    | 0 => exact sum_lsmul c xs
    | 1 => simp only [vecDen, headD_lsmul, smul_neg]
    | 2 => funext i; simp only [vecDen, headD_lsmul, Pi.smul_apply]
    | 3 =>
      funext i
      simp only [vecDen, headD_lsmul, Pi.smul_apply]
      split <;> simp
    | _ + 4 => simp [vecDen]
  bil_add_left := fun p ps u u' v => by
    simp only [vecInterp, vecDen]; ring
  bil_smul_left := fun p ps c u v => by
    simp only [vecInterp, vecDen]; funext i; simp [mul_assoc]
  bil_add_right := fun p ps u v v' => by
    simp only [vecInterp, vecDen]; ring
  bil_smul_right := fun p ps c u v => by
    simp only [vecInterp, vecDen]; funext i; simp; ring
  div_add := fun p ps u u' d => by
    simp only [vecInterp, vecDen]; funext i; simp [add_div]
  div_smul := fun p ps c u d => by
    simp only [vecInterp, vecDen]; funext i; simp [mul_div_assoc]
  re_add := by
    intro p ps u u'
    show vecDen .realPart p ps _ = vecDen .realPart p ps _ + vecDen .realPart p ps _
    match p with
    | 0 => funext i; simp [vecDen]
    | 1 => funext i; simp [vecDen]
    | _ + 2 => simp [vecDen]
  re_smul := by
    intro p ps r u
    show vecDen .realPart p ps _ = r • vecDen .realPart p ps _
    match p with
    | 0 => funext i; simp [vecDen]
    | 1 => funext i; simp [vecDen]
    | _ + 2 => simp [vecDen]

/-! ### example programs -/

/-- forward difference `y i = x (i+1) - x i` : the traced shape of `snp.diff` -/
abbrev fdProg : Prog :=
  { nin := 1
    eqns := [⟨.linAll, 2, [], [0]⟩,      -- v1 = shift x
             ⟨.linAll, 1, [], [0]⟩,      -- v2 = -x
             ⟨.linAll, 0, [], [1, 2]⟩]   -- v3 = v1 + v2
    outs := [3] }

/-- `y = (3 * x) / 2` masked by a constant pattern, plus a zero literal -/
abbrev scaleProg : Prog :=
  { nin := 1
    eqns := [⟨.lit false, 3, [], []⟩,    -- v1 = 3
             ⟨.bilinear, 0, [], [1, 0]⟩, -- v2 = 3 * x
             ⟨.lit false, 2, [], []⟩,    -- v3 = 2
             ⟨.divLike, 0, [], [2, 3]⟩,  -- v4 = v2 / 2
             ⟨.linAll, 3, [1], [4]⟩,     -- v5 = where(3 ≠ 0, v4, 0)
             ⟨.lit true, 0, [], []⟩,     -- v6 = 0
             ⟨.linAll, 0, [], [5, 6]⟩]   -- v7 = v5 + 0
    outs := [7] }

/-- `y = x * x` -/
abbrev sqProg : Prog := { nin := 1, eqns := [⟨.bilinear, 0, [], [0, 0]⟩], outs := [1] }

/-- `y = x + 1` (affine: this is what `jax.linear_transpose` silently accepts) -/
abbrev affProg : Prog :=
  { nin := 1, eqns := [⟨.lit false, 1, [], []⟩, ⟨.linAll, 0, [], [0, 1]⟩], outs := [2] }

/-- `y = conj x` -/
abbrev conjProg : Prog := { nin := 1, eqns := [⟨.conj, 0, [], [0]⟩], outs := [1] }

/-- `y = conj (3 * conj x)` : the shape of an adjoint derived by `scico.linear_adjoint` and of `A.T` -/
abbrev conjConjProg : Prog :=
  { nin := 1
    eqns := [⟨.conj, 0, [], [0]⟩, ⟨.lit false, 3, [], []⟩, ⟨.bilinear, 0, [], [2, 1]⟩, ⟨.conj, 0, [], [3]⟩]
    outs := [4] }

/-- `y = Re x` -/
abbrev reProg : Prog := { nin := 1, eqns := [⟨.realPart, 0, [], [0]⟩], outs := [1] }

/-- `y = where(x ≠ 0, x, 0)` with a data-dependent predicate -/
abbrev dataMaskProg : Prog := { nin := 1, eqns := [⟨.linAll, 3, [0], [0]⟩], outs := [1] }

/-- `y = 2 / x` -/
abbrev recipProg : Prog :=
  { nin := 1, eqns := [⟨.lit false, 2, [], []⟩, ⟨.divLike, 0, [], [1, 0]⟩], outs := [2] }

theorem fin_one_of {n : Nat} (h : n = 1) (j : Fin n) : j = ⟨0, by omega⟩ := by
  apply Fin.ext; have := j.isLt; simp only; omega

theorem fdProg_run (x : Fin fdProg.nin → Vc) (j : Fin fdProg.outs.length) (i : ℕ) : run vecInterp fdProg x j i = x ⟨0, by decide⟩ (i + 1) - x ⟨0, by decide⟩ i := by
  rw [fin_one_of rfl j]
  simp [run, finalEnv, evalEqns, stepVal, valOf, fdProg, vecInterp, vecDen, List.ofFn_succ]
  ring

theorem sqProg_run (x : Fin sqProg.nin → Vc) (j : Fin sqProg.outs.length) : run vecInterp sqProg x j = x ⟨0, by decide⟩ * x ⟨0, by decide⟩ := by
  rw [fin_one_of rfl j]
  simp [run, finalEnv, evalEqns, stepVal, valOf, sqProg, vecInterp, vecDen, List.ofFn_succ]

theorem affProg_run (x : Fin affProg.nin → Vc) (j : Fin affProg.outs.length) (i : ℕ) : run vecInterp affProg x j i = x ⟨0, by decide⟩ i + 1 := by
  rw [fin_one_of rfl j]
  simp [run, finalEnv, evalEqns, stepVal, valOf, affProg, vecInterp, vecDen, List.ofFn_succ]

theorem conjProg_run (x : Fin conjProg.nin → Vc) (j : Fin conjProg.outs.length) (i : ℕ) :
    run vecInterp conjProg x j i = (starRingEnd ℂ) (x ⟨0, by decide⟩ i) := by
  rw [fin_one_of rfl j]
  simp [run, finalEnv, evalEqns, stepVal, valOf, conjProg, vecInterp, vecDen, List.ofFn_succ]

theorem reProg_run (x : Fin reProg.nin → Vc) (j : Fin reProg.outs.length) (i : ℕ) :
    run vecInterp reProg x j i = ((x ⟨0, by decide⟩ i).re : ℂ) := by
  rw [fin_one_of rfl j]
  simp [run, finalEnv, evalEqns, stepVal, valOf, reProg, vecInterp, vecDen, List.ofFn_succ]

theorem reProg_not_complex_linear : ¬ IsLinearMap ℂ (run vecInterp reProg) := by
  intro h
  have h1 := congrFun (congrFun (h.map_smul Complex.I (fun _ _ => 1)) ⟨0, by decide⟩) 0
  simp [reProg_run, Complex.ext_iff] at h1

theorem conjProg_not_complex_linear : ¬ IsLinearMap ℂ (run vecInterp conjProg) := by
  intro h
  have h1 := congrFun (congrFun (h.map_smul Complex.I (fun _ _ => 1)) ⟨0, by decide⟩) 0
  simp [conjProg_run, Complex.ext_iff] at h1
  norm_num at h1

theorem sqProg_not_additive :
    ¬ ∀ x y, run vecInterp sqProg (x + y) = run vecInterp sqProg x + run vecInterp sqProg y := by
  intro h
  have h1 := congrFun (congrFun (h (fun _ _ => 1) (fun _ _ => 1)) ⟨0, by decide⟩) 0
  simp [sqProg_run] at h1

theorem affProg_zero_ne : run vecInterp affProg 0 ≠ 0 := by
  intro h
  have h1 := congrFun (congrFun h ⟨0, by decide⟩) 0
  simp [affProg_run] at h1

end Scico.Jaxpr.Example
