/-
  Proofs/StepsConvex — the convex-analysis vocabulary of property C03, over an arbitrary real
  inner-product space `E` (ℝⁿ, ℂⁿ under `Re⟨·,·⟩`, products = block arrays are instances).

  * `Fn E` : an extended-real-valued function given by its effective domain and its finite values
             (indicator functions have `val = 0` on a proper `dom`);
  * `Fn.Subgrad F x g` : `g ∈ ∂F(x)` (sub-gradient inequality on the domain);
  * `IsProx F prox` : the contract of a proximal map in sub-gradient (certificate) form,
      `(v − prox λ v)/λ ∈ ∂F(prox λ v)`; it is equivalent to the `argmin` definition for convex `F`
      (`isProxPt_of_subgrad`, `subgrad_of_isProxPt`);
  * consequences used by the fixed-point / monotonicity theorems: monotonicity of `∂F`,
    uniqueness and firm non-expansiveness of the proximal point, `prox λ (x + λ g) = x` iff `g ∈ ∂F(x)`.
-/
import Mathlib.Analysis.InnerProductSpace.Basic
import Mathlib.Analysis.Convex.Function
import Mathlib.Tactic.Linarith
import Mathlib.Tactic.Ring
import Mathlib.Tactic.FieldSimp
import Mathlib.Tactic.Positivity

set_option linter.unusedSectionVars false

namespace Scico.Steps

variable {E : Type} [NormedAddCommGroup E] [InnerProductSpace ℝ E]

local notation "⟪" x ", " y "⟫" => inner ℝ x y

/-- extended-real-valued function: `+∞` outside `dom`, `val` on `dom` -/
structure Fn (E : Type) where
  dom : Set E
  val : E → ℝ

namespace Fn

/-- a finite-valued function -/
def ofReal (f : E → ℝ) : Fn E := ⟨Set.univ, f⟩

/-- indicator of a set -/
def indicator (S : Set E) : Fn E := ⟨S, fun _ => 0⟩

def IsConvex (F : Fn E) : Prop := ConvexOn ℝ F.dom F.val

/-- `g ∈ ∂F(x)` -/
def Subgrad (F : Fn E) (x g : E) : Prop :=
  x ∈ F.dom ∧ ∀ y ∈ F.dom, F.val x + ⟪g, y - x⟫ ≤ F.val y

/-- `x` minimises `F` -/
def IsMin (F : Fn E) (x : E) : Prop := x ∈ F.dom ∧ ∀ y ∈ F.dom, F.val x ≤ F.val y

/-- `p` minimises `F + (1/2λ)‖· − v‖²` -/
def IsProxPt (F : Fn E) (lam : ℝ) (v p : E) : Prop :=
  p ∈ F.dom ∧ ∀ y ∈ F.dom, F.val p + 1 / (2 * lam) * ‖p - v‖ ^ 2 ≤ F.val y + 1 / (2 * lam) * ‖y - v‖ ^ 2

theorem isMin_iff_subgrad_zero (F : Fn E) (x : E) : F.IsMin x ↔ F.Subgrad x 0 := by
  unfold IsMin Subgrad
  simp

/-- `∂F` is a monotone relation (no convexity needed) -/
theorem subgrad_monotone {F : Fn E} {x y g h : E} (hx : F.Subgrad x g) (hy : F.Subgrad y h) :
    0 ≤ ⟪g - h, x - y⟫ := by
  have h1 := hx.2 y hy.1
  have h2 := hy.2 x hx.1
  have e1 : ⟪g, y - x⟫ = -⟪g, x - y⟫ := by rw [← inner_neg_right]; congr 1; abel
  rw [inner_sub_left]
  linarith

theorem norm_sub_sq_expand (a b : E) : ‖a - b‖ ^ 2 = ‖a‖ ^ 2 - 2 * ⟪a, b⟫ + ‖b‖ ^ 2 :=
  norm_sub_sq_real a b

/-- certificate ⇒ minimiser (`prox_of_cert`, no convexity needed) -/
theorem isProxPt_of_subgrad {F : Fn E} {lam : ℝ} (hlam : 0 < lam) {v p : E}
    (h : F.Subgrad p ((1 / lam) • (v - p))) : F.IsProxPt lam v p := by
  refine ⟨h.1, fun y hy => ?_⟩
  have h1 := h.2 y hy
  rw [inner_smul_left] at h1
  simp only [RCLike.conj_to_real] at h1
  -- ‖y − v‖² = ‖p − v‖² + 2⟪p − v, y − p⟫ + ‖y − p‖²
  have e : ‖y - v‖ ^ 2 = ‖p - v‖ ^ 2 + 2 * ⟪p - v, y - p⟫ + ‖y - p‖ ^ 2 := by
    have : y - v = (p - v) + (y - p) := by abel
    rw [this, norm_add_sq_real]
  have e2 : ⟪p - v, y - p⟫ = -⟪v - p, y - p⟫ := by
    rw [← inner_neg_left]; congr 1; abel
  have hpos : 0 ≤ ‖y - p‖ ^ 2 := by positivity
  have hl : 0 < 1 / (2 * lam) := by positivity
  rw [e, e2]
  have : 1 / (2 * lam) * (‖p - v‖ ^ 2 + 2 * -⟪v - p, y - p⟫ + ‖y - p‖ ^ 2)
      = 1 / (2 * lam) * ‖p - v‖ ^ 2 - 1 / lam * ⟪v - p, y - p⟫ + 1 / (2 * lam) * ‖y - p‖ ^ 2 := by
    field_simp
    ring
  rw [this]
  have : 0 ≤ 1 / (2 * lam) * ‖y - p‖ ^ 2 := mul_nonneg hl.le hpos
  linarith

/-- minimiser ⇒ certificate, for convex `F` -/
theorem subgrad_of_isProxPt {F : Fn E} (hc : F.IsConvex) {lam : ℝ} (hlam : 0 < lam) {v p : E}
    (h : F.IsProxPt lam v p) : F.Subgrad p ((1 / lam) • (v - p)) := by
  refine ⟨h.1, fun y hy => ?_⟩
  rw [inner_smul_left]
  simp only [RCLike.conj_to_real]
  -- for every t ∈ (0,1]:  F y − F p ≥ (1/λ)⟪v−p, y−p⟫ − (t/2λ)‖y−p‖²
  have key : ∀ t : ℝ, 0 < t → t ≤ 1 →
      1 / lam * ⟪v - p, y - p⟫ - t / (2 * lam) * ‖y - p‖ ^ 2 ≤ F.val y - F.val p := by
    intro t ht ht1
    have hmem : (1 - t) • p + t • y ∈ F.dom :=
      hc.1 h.1 hy (by linarith) ht.le (by ring)
    have hcv : F.val ((1 - t) • p + t • y) ≤ (1 - t) * F.val p + t * F.val y := by
      have := hc.2 h.1 hy (by linarith : (0 : ℝ) ≤ 1 - t) ht.le (by ring)
      simpa [smul_eq_mul] using this
    have hmin := h.2 _ hmem
    have ept : (1 - t) • p + t • y - v = (p - v) + t • (y - p) := by
      rw [sub_smul, one_smul, smul_sub]; abel
    have enorm : ‖(1 - t) • p + t • y - v‖ ^ 2
        = ‖p - v‖ ^ 2 + 2 * t * ⟪p - v, y - p⟫ + t ^ 2 * ‖y - p‖ ^ 2 := by
      rw [ept, norm_add_sq_real, inner_smul_right, norm_smul, mul_pow, Real.norm_eq_abs, sq_abs]
      ring
    have e2 : ⟪p - v, y - p⟫ = -⟪v - p, y - p⟫ := by
      rw [← inner_neg_left]; congr 1; abel
    rw [enorm, e2] at hmin
    -- t (F y − F p) ≥ (1/2λ)(2t⟪v−p,y−p⟫ − t²‖y−p‖²)
    have h3 : 1 / (2 * lam) * (2 * t * ⟪v - p, y - p⟫ - t ^ 2 * ‖y - p‖ ^ 2) ≤ t * (F.val y - F.val p) := by
      have : 1 / (2 * lam) * (‖p - v‖ ^ 2 + 2 * t * -⟪v - p, y - p⟫ + t ^ 2 * ‖y - p‖ ^ 2)
          = 1 / (2 * lam) * ‖p - v‖ ^ 2 - 1 / (2 * lam) * (2 * t * ⟪v - p, y - p⟫ - t ^ 2 * ‖y - p‖ ^ 2) := by
        ring
      rw [this] at hmin
      linarith
    have h4 : 1 / (2 * lam) * (2 * t * ⟪v - p, y - p⟫ - t ^ 2 * ‖y - p‖ ^ 2)
        = t * (1 / lam * ⟪v - p, y - p⟫ - t / (2 * lam) * ‖y - p‖ ^ 2) := by
      field_simp
    rw [h4] at h3
    exact le_of_mul_le_mul_left h3 ht
  -- let t → 0
  by_contra hcon
  push Not at hcon
  set a := F.val y - F.val p with ha
  set b := 1 / lam * ⟪v - p, y - p⟫ with hb
  set c := 1 / (2 * lam) * ‖y - p‖ ^ 2 with hcdef
  have hab : a < b := by simp only [ha, hb]; linarith
  have hc0 : 0 ≤ c := by positivity
  have key' : ∀ t : ℝ, 0 < t → t ≤ 1 → b - t * c ≤ a := by
    intro t ht ht1
    have := key t ht ht1
    have e : t / (2 * lam) * ‖y - p‖ ^ 2 = t * c := by simp only [hcdef]; ring
    rw [e] at this
    exact this
  by_cases hcz : c = 0
  · have := key' 1 one_pos le_rfl
    rw [hcz] at this
    linarith
  · have hcpos : 0 < c := lt_of_le_of_ne hc0 (Ne.symm hcz)
    set t := min 1 ((b - a) / (2 * c)) with ht
    have htpos : 0 < t := lt_min one_pos (div_pos (by linarith) (by positivity))
    have ht1 : t ≤ 1 := min_le_left _ _
    have ht2 : t ≤ (b - a) / (2 * c) := min_le_right _ _
    have := key' t htpos ht1
    have h5 : t * c ≤ (b - a) / 2 := by
      have := mul_le_mul_of_nonneg_right ht2 hcpos.le
      have e : (b - a) / (2 * c) * c = (b - a) / 2 := by field_simp
      linarith
    linarith

end Fn

/-- contract of a proximal map, certificate form: `(v − prox λ v)/λ ∈ ∂F(prox λ v)` for `λ > 0` -/
def IsProx (F : Fn E) (prox : ℝ → E → E) : Prop :=
  ∀ lam : ℝ, 0 < lam → ∀ v : E, F.Subgrad (prox lam v) ((1 / lam) • (v - prox lam v))

/-- `argmin` form of the contract -/
def IsProxArgmin (F : Fn E) (prox : ℝ → E → E) : Prop :=
  ∀ lam : ℝ, 0 < lam → ∀ v : E, F.IsProxPt lam v (prox lam v)

theorem isProx_iff_argmin {F : Fn E} (hc : F.IsConvex) (prox : ℝ → E → E) :
    IsProx F prox ↔ IsProxArgmin F prox :=
  ⟨fun h lam hl v => Fn.isProxPt_of_subgrad hl (h lam hl v),
   fun h lam hl v => Fn.subgrad_of_isProxPt hc hl (h lam hl v)⟩

/-- a point with a certificate is *the* proximal point -/
theorem IsProx.unique {F : Fn E} {prox : ℝ → E → E} (hp : IsProx F prox) {lam : ℝ} (hlam : 0 < lam)
    {v p : E} (h : F.Subgrad p ((1 / lam) • (v - p))) : prox lam v = p := by
  have hm := Fn.subgrad_monotone (hp lam hlam v) h
  rw [← smul_sub, inner_smul_left] at hm
  simp only [RCLike.conj_to_real] at hm
  have e : v - prox lam v - (v - p) = -(prox lam v - p) := by abel
  rw [e, inner_neg_left, real_inner_self_eq_norm_sq] at hm
  have hl : 0 < 1 / lam := by positivity
  have : ‖prox lam v - p‖ ^ 2 ≤ 0 := by
    by_contra hcon
    push Not at hcon
    have := mul_pos hl hcon
    linarith
  have : ‖prox lam v - p‖ = 0 := by
    have h0 : 0 ≤ ‖prox lam v - p‖ := norm_nonneg _
    nlinarith
  exact sub_eq_zero.1 (norm_eq_zero.1 this)

/-- `g ∈ ∂F(x)` ⇒ `prox λ (x + λ g) = x` : optimal points are fixed by proximal steps -/
theorem IsProx.fixed {F : Fn E} {prox : ℝ → E → E} (hp : IsProx F prox) {lam : ℝ} (hlam : 0 < lam)
    {x g : E} (h : F.Subgrad x g) : prox lam (x + lam • g) = x := by
  apply hp.unique hlam
  have : (1 / lam) • (x + lam • g - x) = g := by
    rw [add_sub_cancel_left, smul_smul]
    have : 1 / lam * lam = 1 := by field_simp
    rw [this, one_smul]
  rw [this]
  exact h

/-- conversely a fixed proximal step certifies the sub-gradient -/
theorem IsProx.subgrad_of_fixed {F : Fn E} {prox : ℝ → E → E} (hp : IsProx F prox) {lam : ℝ}
    (hlam : 0 < lam) {x g : E} (h : prox lam (x + lam • g) = x) : F.Subgrad x g := by
  have := hp lam hlam (x + lam • g)
  rw [h] at this
  have e : (1 / lam) • (x + lam • g - x) = g := by
    rw [add_sub_cancel_left, smul_smul]
    have : 1 / lam * lam = 1 := by field_simp
    rw [this, one_smul]
  rwa [e] at this

/-- firm non-expansiveness: `‖p − q‖² ≤ ⟪p − q, v − w⟫` -/
theorem IsProx.firm {F : Fn E} {prox : ℝ → E → E} (hp : IsProx F prox) {lam : ℝ} (hlam : 0 < lam)
    (v w : E) : ‖prox lam v - prox lam w‖ ^ 2 ≤ ⟪prox lam v - prox lam w, v - w⟫ := by
  have hm := Fn.subgrad_monotone (hp lam hlam v) (hp lam hlam w)
  rw [← smul_sub, inner_smul_left] at hm
  simp only [RCLike.conj_to_real] at hm
  have hl : 0 < 1 / lam := by positivity
  have h2 : 0 ≤ ⟪v - prox lam v - (w - prox lam w), prox lam v - prox lam w⟫ := by
    by_contra hcon
    push Not at hcon
    have := mul_neg_of_pos_of_neg hl hcon
    linarith
  have e : v - prox lam v - (w - prox lam w) = (v - w) - (prox lam v - prox lam w) := by abel
  rw [e, inner_sub_left, real_inner_self_eq_norm_sq, real_inner_comm] at h2
  linarith

/-- non-expansiveness -/
theorem IsProx.nonexpansive {F : Fn E} {prox : ℝ → E → E} (hp : IsProx F prox) {lam : ℝ}
    (hlam : 0 < lam) (v w : E) : ‖prox lam v - prox lam w‖ ≤ ‖v - w‖ := by
  have h := hp.firm hlam v w
  have hcs := real_inner_le_norm (prox lam v - prox lam w) (v - w)
  have h0 : 0 ≤ ‖prox lam v - prox lam w‖ := norm_nonneg _
  by_cases hz : ‖prox lam v - prox lam w‖ = 0
  · rw [hz]; exact norm_nonneg _
  · have hpos : 0 < ‖prox lam v - prox lam w‖ := lt_of_le_of_ne h0 (Ne.symm hz)
    have : ‖prox lam v - prox lam w‖ * ‖prox lam v - prox lam w‖ ≤ ‖prox lam v - prox lam w‖ * ‖v - w‖ := by
      nlinarith
    exact le_of_mul_le_mul_left this hpos

end Scico.Steps
