/-
  Generic theory of proximal points (DESIGN §5.2), in an arbitrary real inner-product space `E`
  (so ℝⁿ, ℂⁿ under `Re⟨·,·⟩`, block arrays = product spaces are all instances).

  The SPECIFICATION side of C02 lives here, written independently of the executable model:

  * `Cert D f lam v p`   : sub-gradient certificate  `p ∈ D ∧ ∀ z ∈ D, f p + ⟪(v-p)/lam, z-p⟫ ≤ f z`
                           (`D` = domain of `f`, `f` real-valued on `D`; indicators are `f = 0` on `D = C`)
  * `IsProx D f lam v p` : `p` minimises `lam·f + ½‖·-v‖²` over `D` with the strong-convexity gap `½‖x-p‖²`
  * `IsGMin D f lam v p`  : `p` is a global minimiser (used for the non-convex functionals)

  Theorems: `prox_of_cert`, `IsProx.isGMin`, `IsProx.unique`, `prox_firm`, `prox_nonexpansive`,
  `cert_of_min_convex` (converse), the radial reductions `cert_radial` / `min_radial`, the projection
  lemmas for (squared) set distances, and the product-space lemma for separable sums.
-/
import Mathlib.Analysis.InnerProductSpace.Basic
import Mathlib.Tactic.Linarith
import Mathlib.Tactic.Ring
import Mathlib.Tactic.Positivity

set_option linter.unusedSectionVars false

namespace Scico.ProxSpec

variable {E : Type*} [NormedAddCommGroup E] [InnerProductSpace ℝ E]

local notation "⟪" x ", " y "⟫" => inner ℝ x y

/-- sub-gradient certificate of `p` for `prox_{lam f}(v)` on the domain `D` -/
def Cert (D : Set E) (f : E → ℝ) (lam : ℝ) (v p : E) : Prop :=
  p ∈ D ∧ ∀ z ∈ D, f p + ⟪(1 / lam) • (v - p), z - p⟫ ≤ f z

/-- `p` minimises `lam f + ½‖·-v‖²` over `D`, with the quadratic gap (hence uniquely) -/
def IsProx (D : Set E) (f : E → ℝ) (lam : ℝ) (v p : E) : Prop :=
  p ∈ D ∧ ∀ x ∈ D, lam * f p + 1 / 2 * ‖p - v‖ ^ 2 + 1 / 2 * ‖x - p‖ ^ 2 ≤ lam * f x + 1 / 2 * ‖x - v‖ ^ 2

/-- `p` is a global minimiser of `lam f + ½‖·-v‖²` over `D` -/
def IsGMin (D : Set E) (f : E → ℝ) (lam : ℝ) (v p : E) : Prop :=
  p ∈ D ∧ ∀ x ∈ D, lam * f p + 1 / 2 * ‖p - v‖ ^ 2 ≤ lam * f x + 1 / 2 * ‖x - v‖ ^ 2

/-- the three-point identity behind everything -/
theorem three_point (x p v : E) :
    1 / 2 * ‖x - v‖ ^ 2 = 1 / 2 * ‖p - v‖ ^ 2 + 1 / 2 * ‖x - p‖ ^ 2 - ⟪v - p, x - p⟫ := by
  have h : x - v = (x - p) - (v - p) := by abel
  have h2 : p - v = -(v - p) := by abel
  rw [h, h2, norm_sub_sq_real, norm_neg, real_inner_comm]
  ring

/-- **certificate ⇒ minimiser** (with gap, hence unique) -/
theorem prox_of_cert {D : Set E} {f : E → ℝ} {lam : ℝ} {v p : E} (hlam : 0 < lam)
    (h : Cert D f lam v p) : IsProx D f lam v p := by
  refine ⟨h.1, fun x hx => ?_⟩
  have hc := h.2 x hx
  rw [real_inner_smul_left] at hc
  have h3 := three_point x p v
  have : lam * (1 / lam * ⟪v - p, x - p⟫) = ⟪v - p, x - p⟫ := by field_simp
  nlinarith [mul_le_mul_of_nonneg_left hc hlam.le]

theorem IsProx.isGMin {D : Set E} {f : E → ℝ} {lam : ℝ} {v p : E} (h : IsProx D f lam v p) :
    IsGMin D f lam v p :=
  ⟨h.1, fun x hx => by nlinarith [h.2 x hx, sq_nonneg ‖x - p‖]⟩

/-- the minimiser is unique: any other global minimiser coincides with a certified point -/
theorem IsProx.unique {D : Set E} {f : E → ℝ} {lam : ℝ} {v p q : E}
    (hp : IsProx D f lam v p) (hq : IsGMin D f lam v q) : q = p := by
  have h1 := hp.2 q hq.1
  have h2 := hq.2 p hp.1
  have : ‖q - p‖ ^ 2 ≤ 0 := by nlinarith
  have h0 : ‖q - p‖ = 0 := by
    have := sq_nonneg ‖q - p‖
    exact pow_eq_zero_iff (two_ne_zero) |>.mp (le_antisymm ‹_› this)
  exact sub_eq_zero.mp (norm_eq_zero.mp h0)

/-- **firm non-expansiveness** of two certified points -/
theorem prox_firm {D : Set E} {f : E → ℝ} {lam : ℝ} {v w p q : E} (hlam : 0 < lam)
    (hp : Cert D f lam v p) (hq : Cert D f lam w q) : ‖p - q‖ ^ 2 ≤ ⟪p - q, v - w⟫ := by
  have h1 := hp.2 q hq.1
  have h2 := hq.2 p hp.1
  rw [real_inner_smul_left] at h1 h2
  have hs : ⟪v - p, q - p⟫ + ⟪w - q, p - q⟫ ≤ 0 := by
    have : 1 / lam * (⟪v - p, q - p⟫ + ⟪w - q, p - q⟫) ≤ 0 := by nlinarith
    have hpos : 0 < 1 / lam := by positivity
    by_contra hc
    push Not at hc
    nlinarith [mul_pos hpos hc]
  have e : ⟪p - q, v - w⟫ - ‖p - q‖ ^ 2 = -(⟪v - p, q - p⟫ + ⟪w - q, p - q⟫) := by
    rw [← real_inner_self_eq_norm_sq]
    have a1 : v - w = (v - p) + (p - q) - (w - q) := by abel
    have a2 : q - p = -(p - q) := by abel
    rw [a2, inner_neg_right, real_inner_comm (p - q) (v - p), real_inner_comm (p - q) (w - q)]
    conv_lhs => rw [a1]
    rw [inner_sub_right, inner_add_right]
    ring
  linarith

/-- non-expansiveness (Lipschitz 1) of two certified points -/
theorem prox_nonexpansive {D : Set E} {f : E → ℝ} {lam : ℝ} {v w p q : E} (hlam : 0 < lam)
    (hp : Cert D f lam v p) (hq : Cert D f lam w q) : ‖p - q‖ ≤ ‖v - w‖ := by
  have h := prox_firm hlam hp hq
  have hcs := real_inner_le_norm (p - q) (v - w)
  by_cases h0 : ‖p - q‖ = 0
  · rw [h0]; exact norm_nonneg _
  · have hpos : 0 < ‖p - q‖ := lt_of_le_of_ne (norm_nonneg _) (Ne.symm h0)
    have : ‖p - q‖ * ‖p - q‖ ≤ ‖p - q‖ * ‖v - w‖ := by nlinarith
    exact le_of_mul_le_mul_left this hpos

/-- **converse for convex `f`**: a minimiser of `lam f + ½‖·-v‖²` over a convex domain carries the
    certificate.  Convexity is used along the segment `p + t (z - p)` only. -/
theorem cert_of_min_convex {D : Set E} {f : E → ℝ} {lam : ℝ} {v p : E} (hlam : 0 < lam)
    (hconv : ∀ x ∈ D, ∀ y ∈ D, ∀ t : ℝ, 0 ≤ t → t ≤ 1 →
      (x + t • (y - x)) ∈ D ∧ f (x + t • (y - x)) ≤ (1 - t) * f x + t * f y)
    (h : IsGMin D f lam v p) : Cert D f lam v p := by
  refine ⟨h.1, fun z hz => ?_⟩
  rw [real_inner_smul_left]
  by_contra hc
  push Not at hc
  -- gap g > 0 :  f z < f p + (1/lam)⟪v-p,z-p⟫
  set g := f p + 1 / lam * ⟪v - p, z - p⟫ - f z with hg
  have hgpos : 0 < g := by linarith
  set N := ‖z - p‖ ^ 2 with hN
  have hNn : 0 ≤ N := sq_nonneg _
  -- choose t small
  set t : ℝ := min 1 (lam * g / (N + 1)) with ht
  have htpos : 0 < t := lt_min one_pos (by positivity)
  have htle : t ≤ 1 := min_le_left _ _
  have ht2 : t * (N + 1) ≤ lam * g := by
    have : t ≤ lam * g / (N + 1) := min_le_right _ _
    have hpos : 0 < N + 1 := by positivity
    calc t * (N + 1) ≤ lam * g / (N + 1) * (N + 1) := by nlinarith
      _ = lam * g := by field_simp
  obtain ⟨hmem, hfx⟩ := hconv p h.1 z hz t htpos.le htle
  have hmin := h.2 _ hmem
  have h3 := three_point (p + t • (z - p)) p v
  have e1 : p + t • (z - p) - p = t • (z - p) := by abel
  rw [e1, norm_smul, real_inner_smul_right, Real.norm_eq_abs, abs_of_pos htpos] at h3
  have hq : (t * ‖z - p‖) ^ 2 = t ^ 2 * N := by rw [hN]; ring
  rw [hq] at h3
  -- lam f p ≤ lam((1-t) f p + t f z) + ½ t² N - t ⟪v-p,z-p⟫
  have hlamf : lam * f (p + t • (z - p)) ≤ lam * ((1 - t) * f p + t * f z) :=
    mul_le_mul_of_nonneg_left hfx hlam.le
  have key : t * (lam * g) ≤ 1 / 2 * t ^ 2 * N := by
    have : lam * (1 / lam * ⟪v - p, z - p⟫) = ⟪v - p, z - p⟫ := by field_simp
    have hgl : lam * g = lam * f p + ⟪v - p, z - p⟫ - lam * f z := by rw [hg]; linarith
    rw [hgl]
    nlinarith
  -- but t (N+1) ≤ lam g  gives  ½ t² N < t lam g
  have : 1 / 2 * t ^ 2 * N < t * (lam * g) := by
    have h1 : t * (t * (N + 1)) ≤ t * (lam * g) := mul_le_mul_of_nonneg_left ht2 htpos.le
    nlinarith [mul_pos htpos htpos, mul_nonneg (mul_nonneg htpos.le htpos.le) hNn]
  linarith

/-- membership in the domain (trivial projection of the definitions, stated for the property text) -/
theorem prox_mem_dom {D : Set E} {f : E → ℝ} {lam : ℝ} {v p : E} (h : Cert D f lam v p) : p ∈ D := h.1

/-! ### radial reductions: `f x = φ ‖x‖` -/

/-- **radial certificate.**  Let `t = ‖v‖`, `0 ≤ s ≤ t`, and let `p` have norm `s` and be aligned with
    `v` (`⟪v,p⟫ = t s`, `t • p = s • v`).  If `s` carries the 1-D certificate of `φ` on `R ⊆ [0,∞)`
    for the input `t`, then `p` carries the certificate of `φ ∘ ‖·‖` for `v`. -/
theorem cert_radial {R : Set ℝ} {φ : ℝ → ℝ} {lam : ℝ} {v p : E} {s : ℝ} (hlam : 0 < lam)
    (hs0 : 0 ≤ s) (hst : s ≤ ‖v‖) (hsR : s ∈ R) (hnp : ‖p‖ = s) (hal : ‖v‖ • p = s • v)
    (h1 : ∀ r ∈ R, 0 ≤ r → φ s + (‖v‖ - s) / lam * (r - s) ≤ φ r) :
    Cert {x : E | ‖x‖ ∈ R} (fun x => φ ‖x‖) lam v p := by
  refine ⟨by simpa [hnp] using hsR, fun z hz => ?_⟩
  simp only [hnp]
  rw [real_inner_smul_left]
  have hz' := h1 ‖z‖ hz (norm_nonneg z)
  rcases eq_or_lt_of_le (norm_nonneg v) with ht0 | htpos
  · -- v = 0, hence s = 0 and p = 0
    have hs : s = 0 := le_antisymm (by rw [← ht0] at hst; exact hst) hs0
    have hv : v = 0 := norm_eq_zero.mp ht0.symm
    have hp : p = 0 := norm_eq_zero.mp (by rw [hnp, hs])
    rw [hs, ← ht0] at hz'
    rw [hs, hv, hp]
    simpa using hz'
  · -- p = (s/t) v
    obtain ⟨t, ht⟩ : ∃ t, t = ‖v‖ := ⟨_, rfl⟩
    rw [← ht] at htpos hst hal hz'
    have hp : p = (s / t) • v := by
      have : p = (1 / t) • (t • p) := by
        rw [smul_smul, one_div, inv_mul_cancel₀ htpos.ne', one_smul]
      rw [this, hal, smul_smul]; congr 1; field_simp
    have hvp : v - p = ((t - s) / t) • v := by
      rw [hp]
      have e : (t - s) / t = 1 - s / t := by field_simp
      rw [e, sub_smul, one_smul]
    have hin : ⟪v - p, z - p⟫ = (t - s) / t * (⟪v, z⟫ - s * t) := by
      rw [hvp, real_inner_smul_left, inner_sub_right, hp, real_inner_smul_right,
        real_inner_self_eq_norm_sq, ← ht]
      field_simp
    have hcs : ⟪v, z⟫ ≤ t * ‖z‖ := by rw [ht]; exact real_inner_le_norm v z
    have hle : ⟪v - p, z - p⟫ ≤ (t - s) * (‖z‖ - s) := by
      rw [hin]
      have hnn : 0 ≤ (t - s) / t := div_nonneg (by linarith) htpos.le
      calc (t - s) / t * (⟪v, z⟫ - s * t) ≤ (t - s) / t * (t * ‖z‖ - s * t) :=
            mul_le_mul_of_nonneg_left (by linarith) hnn
        _ = (t - s) * (‖z‖ - s) := by field_simp
    have hl : 1 / lam * ⟪v - p, z - p⟫ ≤ (t - s) / lam * (‖z‖ - s) := by
      have : (t - s) / lam * (‖z‖ - s) = 1 / lam * ((t - s) * (‖z‖ - s)) := by ring
      rw [this]
      exact mul_le_mul_of_nonneg_left hle (by positivity)
    linarith

/-- **radial minimiser** (no convexity): if `s ≥ 0` minimises the 1-D objective
    `lam φ r + ½ (r - ‖v‖)²` over `r ∈ R, r ≥ 0`, and `p` has norm `s` and is aligned with `v`
    (`⟪v,p⟫ = ‖v‖ s`), then `p` is a global minimiser of `lam φ‖·‖ + ½‖· - v‖²`. -/
theorem min_radial {R : Set ℝ} {φ : ℝ → ℝ} {lam : ℝ} {v p : E} {s : ℝ}
    (hsR : s ∈ R) (hnp : ‖p‖ = s) (hal : ⟪v, p⟫ = ‖v‖ * s)
    (h1 : ∀ r ∈ R, 0 ≤ r → lam * φ s + 1 / 2 * (s - ‖v‖) ^ 2 ≤ lam * φ r + 1 / 2 * (r - ‖v‖) ^ 2) :
    IsGMin {x : E | ‖x‖ ∈ R} (fun x => φ ‖x‖) lam v p := by
  refine ⟨by simpa [hnp] using hsR, fun x hx => ?_⟩
  simp only [hnp]
  have hx' := h1 ‖x‖ hx (norm_nonneg x)
  have e1 : ‖p - v‖ ^ 2 = (s - ‖v‖) ^ 2 := by
    rw [norm_sub_sq_real, hnp, real_inner_comm, hal]; ring
  have e2 : (‖x‖ - ‖v‖) ^ 2 ≤ ‖x - v‖ ^ 2 := by
    rw [norm_sub_sq_real]
    have := real_inner_le_norm x v
    nlinarith
  rw [e1]
  linarith

/-! ### projections, distance functions, zero functional, squared norm -/

/-- `P v` is the metric projection of `v` onto the convex set `C` (obtuse-angle characterisation) -/
def IsProjAt (C : Set E) (v y : E) : Prop := y ∈ C ∧ ∀ z ∈ C, ⟪v - y, z - y⟫ ≤ 0

/-- the projection is the prox of the indicator (any `lam > 0`) -/
theorem cert_indicator {C : Set E} {lam : ℝ} {v y : E} (hlam : 0 < lam) (h : IsProjAt C v y) :
    Cert C (fun _ => 0) lam v y := by
  refine ⟨h.1, fun z hz => ?_⟩
  rw [real_inner_smul_left]
  have := h.2 z hz
  have hpos : 0 ≤ 1 / lam := by positivity
  nlinarith [mul_nonneg hpos (neg_nonneg.mpr this)]

/-- zero functional: `prox v = v` -/
theorem cert_zero {lam : ℝ} (v : E) : Cert Set.univ (fun _ : E => (0 : ℝ)) lam v v :=
  ⟨trivial, fun z _ => by simp⟩

/-- squared norm: `prox_{lam‖·‖²} v = v/(1+2 lam)` -/
theorem cert_sqnorm {lam : ℝ} (hlam : 0 < lam) (v : E) :
    Cert Set.univ (fun x : E => ‖x‖ ^ 2) lam v ((1 / (1 + 2 * lam)) • v) := by
  refine ⟨trivial, fun z _ => ?_⟩
  set c := 1 / (1 + 2 * lam) with hc
  have hpos : 0 < 1 + 2 * lam := by linarith
  have hv : (1 / lam) • (v - c • v) = (2 : ℝ) • (c • v) := by
    have : v - c • v = (1 - c) • v := by rw [sub_smul, one_smul]
    rw [this, smul_smul, smul_smul]
    congr 1
    rw [hc]; field_simp; ring
  rw [hv]
  set p := c • v
  have : ‖z‖ ^ 2 = ‖p‖ ^ 2 + 2 * ⟪p, z - p⟫ + ‖z - p‖ ^ 2 := by
    have hz : z = p + (z - p) := by abel
    conv_lhs => rw [hz, norm_add_sq_real]
  rw [real_inner_smul_left]
  nlinarith [sq_nonneg ‖z - p‖]

/-- the distance to `C` as a function, given a projector `P` -/
theorem cert_setdist {C : Set E} {P : E → E} (hP : ∀ x, IsProjAt C x (P x)) {lam : ℝ} (hlam : 0 < lam)
    (v : E) (θ : ℝ)
    (hθ : θ = if ‖v - P v‖ < lam then 1 else lam / ‖v - P v‖) :
    Cert Set.univ (fun x => ‖x - P x‖) lam v (θ • P v + (1 - θ) • v) := by
  refine ⟨trivial, fun z _ => ?_⟩
  set y := P v with hy
  set d := ‖v - y‖ with hd
  have hprojv := hP v
  rw [← hy] at hprojv
  -- distance function is 1-Lipschitz-from-below: ‖z - P z‖ ≥ ⟪u, z - c⟫ for unit-ish u, c ∈ C
  have hdist_ge : ∀ (u : E) (c : E), c ∈ C → ‖u‖ ≤ 1 → (∀ w ∈ C, ⟪u, w - c⟫ ≤ 0) →
      ⟪u, z - c⟫ ≤ ‖z - P z‖ := by
    intro u c _ hu hn
    have h1 : ⟪u, z - c⟫ = ⟪u, z - P z⟫ + ⟪u, P z - c⟫ := by
      rw [← inner_add_right]; congr 1; abel
    have h2 := hn (P z) (hP z).1
    have h3 : ⟪u, z - P z⟫ ≤ ‖u‖ * ‖z - P z‖ := real_inner_le_norm _ _
    have := norm_nonneg (z - P z)
    nlinarith
  by_cases hlt : d < lam
  · -- p = y ∈ C, f p = 0, slope (v - y)/lam of norm < 1
    have hθ1 : θ = 1 := by rw [hθ, if_pos hlt]
    have hp : θ • y + (1 - θ) • v = y := by rw [hθ1]; simp
    rw [hp]
    have hPy : P y = y := by
      -- y ∈ C so its projection is itself
      have h := (hP y).2 y hprojv.1
      have : ⟪y - P y, y - P y⟫ ≤ 0 := h
      rw [real_inner_self_eq_norm_sq] at this
      have h0 : ‖y - P y‖ = 0 := by
        have := sq_nonneg ‖y - P y‖
        exact pow_eq_zero_iff two_ne_zero |>.mp (le_antisymm ‹_› this)
      exact (sub_eq_zero.mp (norm_eq_zero.mp h0)).symm
    simp only [hPy, sub_self, norm_zero, zero_add]
    apply hdist_ge _ y hprojv.1
    · rw [norm_smul, Real.norm_eq_abs, abs_of_pos (by positivity : (0 : ℝ) < 1 / lam)]
      rw [one_div, inv_mul_le_iff₀ hlam]; linarith
    · intro w hw
      rw [real_inner_smul_left]
      have := hprojv.2 w hw
      have hpos : 0 ≤ 1 / lam := by positivity
      nlinarith [mul_nonneg hpos (neg_nonneg.mpr this)]
  · push Not at hlt
    have hdpos : 0 < d := lt_of_lt_of_le hlam hlt
    have hθ2 : θ = lam / d := by rw [hθ, if_neg (not_lt.mpr hlt)]
    set p := θ • y + (1 - θ) • v with hp
    have hθ01 : θ ≤ 1 := by rw [hθ2]; exact (div_le_one hdpos).mpr hlt
    have hθpos : 0 < θ := by rw [hθ2]; positivity
    have hvp : v - p = θ • (v - y) := by rw [hp, smul_sub]; module
    have hpy : p - y = (1 - θ) • (v - y) := by rw [hp, smul_sub]; module
    -- P p = y
    have hprojp : IsProjAt C p y := ⟨hprojv.1, fun w hw => by
      rw [hpy, real_inner_smul_left]
      exact mul_nonpos_of_nonneg_of_nonpos (by linarith) (hprojv.2 w hw)⟩
    have hPp : P p = y := by
      have a := (hP p).2 y hprojv.1
      have b := hprojp.2 (P p) (hP p).1
      have : ‖P p - y‖ ^ 2 ≤ 0 := by
        rw [← real_inner_self_eq_norm_sq]
        have e : ⟪P p - y, P p - y⟫ = ⟪p - P p, y - P p⟫ + ⟪p - y, P p - y⟫ := by
          have e1 : y - P p = -(P p - y) := by abel
          rw [e1, inner_neg_right, ← sub_eq_neg_add, ← inner_sub_left]
          congr 1; abel
        linarith
      have h0 : ‖P p - y‖ = 0 := by
        have := sq_nonneg ‖P p - y‖
        exact pow_eq_zero_iff two_ne_zero |>.mp (le_antisymm ‹_› this)
      exact sub_eq_zero.mp (norm_eq_zero.mp h0)
    have hfp : ‖p - P p‖ = (1 - θ) * d := by
      rw [hPp, hpy, norm_smul, Real.norm_eq_abs, abs_of_nonneg (by linarith)]
    beta_reduce
    rw [hfp, hvp, smul_smul]
    have hu : (1 / lam * θ) • (v - y) = (1 / d) • (v - y) := by
      congr 1; rw [hθ2]; field_simp
    rw [hu]
    set u := (1 / d) • (v - y) with hudef
    have hun : ‖u‖ ≤ 1 := by
      rw [hudef, norm_smul, Real.norm_eq_abs, abs_of_pos (by positivity : (0 : ℝ) < 1 / d), ← hd]
      rw [one_div, inv_mul_cancel₀ hdpos.ne']
    have hnc : ∀ w ∈ C, ⟪u, w - y⟫ ≤ 0 := fun w hw => by
      rw [hudef, real_inner_smul_left]
      have := hprojv.2 w hw
      have hpos : 0 ≤ 1 / d := by positivity
      nlinarith [mul_nonneg hpos (neg_nonneg.mpr this)]
    have h1 := hdist_ge u y hprojv.1 hun hnc
    -- ⟪u, z - p⟫ = ⟪u, z - y⟫ - ⟪u, p - y⟫ ,  ⟪u, p - y⟫ = (1-θ) d
    have h2 : ⟪u, z - p⟫ = ⟪u, z - y⟫ - ⟪u, p - y⟫ := by
      rw [← inner_sub_right]; congr 1; abel
    have h3 : ⟪u, p - y⟫ = (1 - θ) * d := by
      rw [hpy, hudef, real_inner_smul_left, real_inner_smul_right, real_inner_self_eq_norm_sq, ← hd]
      field_simp
    linarith

/-- half the squared distance to `C`, given a projector `P` -/
theorem cert_sqsetdist {C : Set E} {P : E → E} (hP : ∀ x, IsProjAt C x (P x)) {lam : ℝ} (hlam : 0 < lam)
    (v : E) :
    Cert Set.univ (fun x => 1 / 2 * ‖x - P x‖ ^ 2) lam v
      ((1 / (1 + lam)) • v + (lam * (1 / (1 + lam))) • P v) := by
  refine ⟨trivial, fun z _ => ?_⟩
  set y := P v with hy
  set a := 1 / (1 + lam) with ha
  have hpos : 0 < 1 + lam := by linarith
  have ha01 : 0 < a := by positivity
  set p := a • v + (lam * a) • y with hp
  have hprojv := hP v
  rw [← hy] at hprojv
  have ea : lam * a = 1 - a := by rw [ha]; field_simp; ring
  have hpy : p - y = a • (v - y) := by rw [hp, ea, smul_sub]; module
  have hvp : v - p = (lam * a) • (v - y) := by rw [hp, ea, smul_sub]; module
  have hprojp : IsProjAt C p y := ⟨hprojv.1, fun w hw => by
    rw [hpy, real_inner_smul_left]
    exact mul_nonpos_of_nonneg_of_nonpos ha01.le (hprojv.2 w hw)⟩
  have hPp : P p = y := by
    have a1 := (hP p).2 y hprojv.1
    have b := hprojp.2 (P p) (hP p).1
    have : ‖P p - y‖ ^ 2 ≤ 0 := by
      rw [← real_inner_self_eq_norm_sq]
      have e : ⟪P p - y, P p - y⟫ = ⟪p - P p, y - P p⟫ + ⟪p - y, P p - y⟫ := by
        have e1 : y - P p = -(P p - y) := by abel
        rw [e1, inner_neg_right, ← sub_eq_neg_add, ← inner_sub_left]
        congr 1; abel
      linarith
    have h0 : ‖P p - y‖ = 0 := by
      have := sq_nonneg ‖P p - y‖
      exact pow_eq_zero_iff two_ne_zero |>.mp (le_antisymm ‹_› this)
    exact sub_eq_zero.mp (norm_eq_zero.mp h0)
  beta_reduce
  rw [hPp, hvp, smul_smul]
  have hg : (1 / lam * (lam * a)) • (v - y) = p - y := by
    rw [hpy]; congr 1; field_simp
  rw [hg]
  -- ½‖z - Pz‖² ≥ ½‖p-y‖² + ⟪p-y, z-p⟫ :  use  ‖z-Pz‖ ≥ ... via  z - Pz = (z-p) + (p-y) + (y-Pz)
  set g := p - y with hgdef
  have hobt : ⟪g, P z - y⟫ ≤ 0 := hprojp.2 (P z) (hP z).1
  -- ‖z - P z‖² ≥ ‖g‖² + 2⟪g, z-p⟫  since  ‖z-Pz‖ ≥ ⟪g/‖g‖, z - Pz⟫ …  do it by squares:
  have hz : z - P z = g + ((z - p) - (P z - y)) := by rw [hgdef]; abel
  have hexp : ‖z - P z‖ ^ 2 = ‖g‖ ^ 2 + 2 * ⟪g, (z - p) - (P z - y)⟫ + ‖(z - p) - (P z - y)‖ ^ 2 := by
    conv_lhs => rw [hz, norm_add_sq_real]
  rw [inner_sub_right] at hexp
  nlinarith [sq_nonneg ‖(z - p) - (P z - y)‖]

/-- **generic `Loss` with identity operator** (`Loss.prox`): if `p` is certified for `f` at `v - y` with parameter
    `s·lam`, then `p + y` is certified for `x ↦ s·f(x - y)` at `v` with parameter `lam` (`s > 0` the scale). -/
theorem cert_translate {D : Set E} {f : E → ℝ} {lam s : ℝ} {v y p : E} (hs : 0 < s)
    (h : Cert D f (s * lam) (v - y) p) :
    Cert {x : E | x - y ∈ D} (fun x => s * f (x - y)) lam v (p + y) := by
  refine ⟨by simpa using h.1, fun z hz => ?_⟩
  have hz' := h.2 (z - y) hz
  rw [real_inner_smul_left] at hz' ⊢
  have e1 : v - (p + y) = v - y - p := by abel
  have e2 : z - (p + y) = z - y - p := by abel
  have e3 : p + y - y = p := by abel
  beta_reduce
  rw [e1, e2, e3]
  have hk : 1 / lam * ⟪v - y - p, z - y - p⟫ = s * (1 / (s * lam) * ⟪v - y - p, z - y - p⟫) := by
    field_simp
  rw [hk, ← mul_add]
  exact mul_le_mul_of_nonneg_left hz' hs.le

end Scico.ProxSpec
