/-
  C07: Jacobian products of operators built with the operator algebra (`F(G)`, `F ± G`, `a·F`, `−F`) — chain and sum rules
  over the operator tree: `OpT.jvp` is the derivative of `OpT.eval` along every curve, `OpT.vjpT` its transpose.
-/
import Scico.Proofs.AutogradChain

namespace Scico.Autograd
open Scico

variable {n m : Nat}

theorem reBdot_vadd_right {K : Type} [CommRing K] (c a b : CVec K n) :
    reBdot c (vadd a b) = reBdot c a + reBdot c b := by
  rw [reBdot_eq, reBdot_eq, reBdot_eq, ← Finset.sum_add_distrib]
  exact Finset.sum_congr rfl (fun i _ => by simp [vadd]; ring)

theorem reBdot_mul_right {K : Type} [CommRing K] (a : Cx K) (c y : CVec K n) :
    reBdot c (fun i => a * y i) = reBdot (fun i => a * c i) y := by
  rw [reBdot_eq, reBdot_eq]
  exact Finset.sum_congr rfl (fun i _ => by simp; ring)

/-- `OpT.jvp` **is** the derivative of `OpT.eval` along every differentiable curve -/
theorem tangent_opT : ∀ {n m : Nat} (T : OpT ℝ n m) {c : ℝ → CVec ℝ n} {d : CVec ℝ n}, Tangent c d →
    Tangent (fun t => T.eval (c t)) (T.jvp (c 0) d) := by
  intro n m T
  induction T with
  | leaf F => intro c d hc; exact tangent_op F hc
  | comp F G ihF ihG => intro c d hc; exact ihF (ihG hc)
  | add F G ihF ihG => intro c d hc i; exact (ihF hc i).add (ihG hc i)
  | sub F G ihF ihG => intro c d hc i; exact (ihF hc i).sub (ihG hc i)
  | smul a F ih => intro c d hc i; exact (ih hc i).const_mul a
  | neg F ih => intro c d hc i; exact (ih hc i).const_mul _

/-- `OpT.vjpT` is the transpose of `OpT.jvp` for the pairing `Re Σ aᵢ bᵢ` (JAX's `vjp` contract, here a theorem) -/
theorem opT_vjpT_transpose : ∀ {n m : Nat} (T : OpT ℝ n m) (u : CVec ℝ n) (c : CVec ℝ m) (d : CVec ℝ n),
    reBdot (T.vjpT u c) d = reBdot c (T.jvp u d) := by
  intro n m T
  induction T with
  | leaf F => intro u c d; exact op_vjpT_transpose F u c d
  | comp F G ihF ihG => intro u c d; simp only [OpT.vjpT, OpT.jvp]; rw [ihG, ihF]
  | add F G ihF ihG => intro u c d; simp only [OpT.vjpT, OpT.jvp]; rw [reBdot_vadd_left, reBdot_vadd_right, ihF, ihG]
  | sub F G ihF ihG => intro u c d; simp only [OpT.vjpT, OpT.jvp]; rw [reBdot_vsub, reBdot_vsub_right, ihF, ihG]
  | smul a F ih => intro u c d; simp only [OpT.vjpT, OpT.jvp]; rw [ih, reBdot_mul_right]
  | neg F ih => intro u c d; simp only [OpT.vjpT, OpT.jvp]; rw [ih, reBdot_mul_right]

end Scico.Autograd
