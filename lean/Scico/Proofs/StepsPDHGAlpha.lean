/-
  Proofs/StepsPDHGAlpha — PDHG with a general extrapolation parameter `alpha` (the documented range is `[0,1]`).

  * For every `alpha` one documented iteration satisfies the Fejér inequality of `StepsPDHG` up to an explicit defect:
        M(w⁺ − w*) + M(w − w⁺) ≤ M(w − w*) + 2(1 − α) ⟪z⁺ − z*, C(x − x⁺)⟫ ;
    for `alpha = 1` the defect vanishes (`pdhg_fejer_step`).
  * The defect is real: for `alpha = 0` (inside the documented range), `f = 0`, `g* = 0`, `C = I` on ℚ,
    `τ = σ = 1/2` (`τσ‖C‖² = 1/4 < 1`), the `M`-distance to the unique saddle point `(0,0)` INCREASES in one step from
    `(0,1)`, and the quadratic form `q(x,z) = 2x² − xz + 2z²` is invariant under the iteration, so no orbit other than the
    saddle point itself converges: without further assumptions (strong convexity) the documented constraints do not
    give convergence for `alpha = 0`.
-/
import Scico.Model.Steps
import Scico.Proofs.StepsConvex
import Scico.Proofs.StepsFixed
import Scico.Proofs.StepsRelax
import Scico.Proofs.StepsPDHG
import Mathlib.Tactic.Abel
import Mathlib.Tactic.NormNum

set_option linter.unusedSectionVars false

namespace Scico.Steps

variable {X Z : Type} [NormedAddCommGroup X] [InnerProductSpace ℝ X]
  [NormedAddCommGroup Z] [InnerProductSpace ℝ Z]

local notation "⟪" x ", " y "⟫" => inner ℝ x y

/-- the two sub-gradient inequalities of one iteration with extrapolation `alpha` -/
theorem pdhg_fejer_core_alpha (C : X → Z) (Cadj : Z → X) (hadd : ∀ x y, C (x + y) = C x + C y)
    (hsm : ∀ (c : ℝ) x, C (c • x) = c • C x)
    (hadj : ∀ w x, ⟪Cadj w, x⟫ = ⟪w, C x⟫) {tau sigma alpha : ℝ} (ht : 0 < tau) (hs : 0 < sigma)
    (x xn xs : X) (z zn zs : Z)
    (hA : 0 ≤ ⟪(1 / tau) • (x - tau • Cadj z - xn) - (-(Cadj zs)), xn - xs⟫)
    (hB : 0 ≤ ⟪zn - zs, (1 / sigma) • (z + sigma • C ((1 + alpha) • xn - alpha • x) - zn) - C xs⟫) :
    pdM C tau sigma (xn - xs) (zn - zs) + pdM C tau sigma (x - xn) (z - zn)
      ≤ pdM C tau sigma (x - xs) (z - zs) + 2 * (1 - alpha) * ⟪zn - zs, C (x - xn)⟫ := by
  have hsub : ∀ u v, C (u - v) = C u - C v := by
    intro u v
    have := hadd (u - v) v
    rw [sub_add_cancel] at this
    rw [this]; abel
  set a' := xn - xs with ha'
  set b' := zn - zs with hb'
  set da := x - xn with hda
  set db := z - zn with hdb
  clear_value a' b' da db
  have ea : x - xs = a' + da := by rw [ha', hda]; abel
  have eb : z - zs = b' + db := by rw [hb', hdb]; abel
  rw [ea, eb, pdM_add C hadd]
  have hA' : 0 ≤ ⟪da, a'⟫ / tau - ⟪b' + db, C a'⟫ := by
    have e : (1 / tau) • (x - tau • Cadj z - xn) - (-(Cadj zs)) = (1 / tau) • da - Cadj z + Cadj zs := by
      have : x - tau • Cadj z - xn = da - tau • Cadj z := by rw [hda]; abel
      rw [this, smul_sub, smul_smul]
      have : 1 / tau * tau = 1 := by field_simp
      rw [this, one_smul]; abel
    rw [e, inner_add_left, inner_sub_left, inner_smul_left, hadj, hadj] at hA
    simp only [RCLike.conj_to_real] at hA
    have : ⟪b' + db, C a'⟫ = ⟪z, C a'⟫ - ⟪zs, C a'⟫ := by rw [← eb, inner_sub_left]
    rw [this]
    have e2 : 1 / tau * ⟪da, a'⟫ = ⟪da, a'⟫ / tau := by ring
    linarith
  have hB' : 0 ≤ ⟪b', db⟫ / sigma + ⟪b', C a'⟫ - alpha * ⟪b', C da⟫ := by
    have e : (1 / sigma) • (z + sigma • C ((1 + alpha) • xn - alpha • x) - zn) - C xs
        = (1 / sigma) • db + (C a' - alpha • C da) := by
      have h1 : z + sigma • C ((1 + alpha) • xn - alpha • x) - zn = db + sigma • C ((1 + alpha) • xn - alpha • x) := by
        rw [hdb]; abel
      rw [h1, smul_add, smul_smul]
      have : 1 / sigma * sigma = 1 := by field_simp
      rw [this, one_smul]
      have h2 : (1 + alpha) • xn - alpha • x - xs = a' - alpha • da := by
        rw [ha', hda]; simp only [add_smul, one_smul, smul_sub]; abel
      have h3 : C ((1 + alpha) • xn - alpha • x) - C xs = C a' - alpha • C da := by
        rw [← hsub, h2, hsub, hsm]
      rw [add_sub_assoc, h3]
    rw [e, inner_add_right, inner_smul_right] at hB
    have e2 : 1 / sigma * ⟪b', db⟫ = ⟪b', db⟫ / sigma := by ring
    have e3 : ⟪b', C a' - alpha • C da⟫ = ⟪b', C a'⟫ - alpha * ⟪b', C da⟫ := by
      rw [inner_sub_right, inner_smul_right]
    linarith
  rw [inner_add_left] at hA'
  have c1 : ⟪a', da⟫ = ⟪da, a'⟫ := real_inner_comm _ _
  have c2 : ⟪C a', db⟫ = ⟪db, C a'⟫ := real_inner_comm _ _
  have c3 : ⟪C da, b'⟫ = ⟪b', C da⟫ := real_inner_comm _ _
  rw [c1, c2, c3]
  nlinarith

/-- hypotheses as `PDHGHyp` without `alpha = 1`, plus homogeneity of `C` -/
structure PDHGHypA (p : PDHGParams ℝ X Z) (F : Fn X) (xs : X) (zs : Z) : Prop where
  lin : p.linear = true
  tau : 0 < p.tau
  sigma : 0 < p.sigma
  add : ∀ x y, p.C (x + y) = p.C x + p.C y
  smul : ∀ (c : ℝ) x, p.C (c • x) = c • p.C x
  adj : ∀ w x, ⟪p.Cadj w, x⟫ = ⟪w, p.C x⟫
  proxf : IsProx F p.proxf
  kktx : F.Subgrad xs (-(p.Cadj zs))
  dual : ∀ lam, 0 < lam → ∀ v, 0 ≤ ⟪p.proxgConj lam v - zs, (1 / lam) • (v - p.proxgConj lam v) - p.C xs⟫

/-- one documented PDHG iteration, ANY `alpha`: Fejér inequality with the defect `2(1−α)⟪z⁺−z*, C(x−x⁺)⟫` -/
theorem pdhg_fejer_step_alpha (p : PDHGParams ℝ X Z) (F : Fn X) (xs : X) (zs : Z) (H : PDHGHypA p F xs zs)
    (s : PDHGState X Z) :
    pdM p.C p.tau p.sigma ((pdhgSpecStep p s).x - xs) ((pdhgSpecStep p s).z - zs)
        + pdM p.C p.tau p.sigma (s.x - (pdhgSpecStep p s).x) (s.z - (pdhgSpecStep p s).z)
      ≤ pdM p.C p.tau p.sigma (s.x - xs) (s.z - zs)
        + 2 * (1 - p.alpha) * ⟪(pdhgSpecStep p s).z - zs, p.C (s.x - (pdhgSpecStep p s).x)⟫ := by
  have hx : (pdhgSpecStep p s).x = p.proxf p.tau (s.x - p.tau • p.Cadj s.z) := by
    unfold pdhgSpecStep; simp only [H.lin]
  have hz : (pdhgSpecStep p s).z
      = p.proxgConj p.sigma (s.z + p.sigma • p.C ((1 + p.alpha) • (pdhgSpecStep p s).x - p.alpha • s.x)) := by
    unfold pdhgSpecStep; simp only [H.lin]
  set xn := (pdhgSpecStep p s).x with hxn
  set zn := (pdhgSpecStep p s).z with hzn
  apply pdhg_fejer_core_alpha p.C p.Cadj H.add H.smul H.adj H.tau H.sigma s.x xn xs s.z zn zs
  · have h1 := H.proxf p.tau H.tau (s.x - p.tau • p.Cadj s.z)
    rw [← hx] at h1
    exact Fn.subgrad_monotone h1 H.kktx
  · have h2 := H.dual p.sigma H.sigma (s.z + p.sigma • p.C ((1 + p.alpha) • xn - p.alpha • s.x))
    rw [← hz] at h2
    exact h2

/-! ### `alpha = 0` inside the documented range: no Fejér monotonicity, no convergence (witness over ℚ-valued data in ℝ) -/

/-- `f = 0`, `g* = 0` (`g` = indicator of `{0}`), `C = I` on ℝ, `τ = σ = 1/2`, `alpha = 0` -/
noncomputable def pdhgA0 : PDHGParams ℝ ℝ ℝ :=
  { f := fun _ => 0, g := fun _ => 0, proxf := fun _ v => v, proxgConj := fun _ v => v, C := id, linear := true,
    Cadj := id, JCadj := fun _ z => z, tau := 1 / 2, sigma := 1 / 2, alpha := 0, normX := fun v => |v|, normZ := fun v => |v| }

theorem pdhgA0_step (x z : ℝ) (xo zo : ℝ) :
    (pdhgSpecStep pdhgA0 { x := x, xOld := xo, z := z, zOld := zo }).x = x - z / 2 ∧
    (pdhgSpecStep pdhgA0 { x := x, xOld := xo, z := z, zOld := zo }).z = x / 2 + 3 * z / 4 := by
  unfold pdhgSpecStep pdhgA0
  simp only [smul_eq_mul, id]
  constructor <;> ring

/-- the invariant quadratic form of the `alpha = 0` iteration -/
def qA0 (x z : ℝ) : ℝ := 2 * x ^ 2 - x * z + 2 * z ^ 2

theorem pdhgA0_invariant (s : PDHGState ℝ ℝ) :
    qA0 (pdhgSpecStep pdhgA0 s).x (pdhgSpecStep pdhgA0 s).z = qA0 s.x s.z := by
  obtain ⟨h1, h2⟩ := pdhgA0_step s.x s.z s.xOld s.zOld
  have e : s = { x := s.x, xOld := s.xOld, z := s.z, zOld := s.zOld } := rfl
  rw [e, h1, h2]
  unfold qA0
  ring

theorem pdhgA0_invariant_iter (k : Nat) : ∀ s : PDHGState ℝ ℝ,
    qA0 (iter (pdhgSpecStep pdhgA0) k s).x (iter (pdhgSpecStep pdhgA0) k s).z = qA0 s.x s.z := by
  induction k with
  | zero => intro s; rfl
  | succ k ih =>
    intro s
    have := ih (pdhgSpecStep pdhgA0 s)
    rw [pdhgA0_invariant] at this
    exact this

/-- `q ≥ (3/2)(x² + z²)`-type bound: `q(x,z) ≤ (5/2)(x² + z²)` and `q = 0` only at the saddle point -/
theorem qA0_le (x z : ℝ) : qA0 x z ≤ 5 / 2 * (x ^ 2 + z ^ 2) := by
  unfold qA0; nlinarith [sq_nonneg (x + z)]

theorem qA0_ge (x z : ℝ) : 3 / 2 * (x ^ 2 + z ^ 2) ≤ qA0 x z := by
  unfold qA0; nlinarith [sq_nonneg (x - z)]

/-- the instance is inside the documented problem class and parameter range (`τσ‖C‖² = 1/4`), saddle point `(0,0)` -/
theorem pdhgA0_hyp : PDHGHypA pdhgA0 (Fn.ofReal (fun _ : ℝ => (0 : ℝ))) 0 0 ∧ PDHGRange pdhgA0 1 (1 / 2) ∧
    pdhgA0.alpha = 0 := by
  refine ⟨⟨rfl, by norm_num [pdhgA0], by norm_num [pdhgA0], fun _ _ => rfl, fun _ _ => rfl, fun _ _ => rfl, isProx_zero,
    ⟨trivial, fun y _ => by simp [pdhgA0, Fn.ofReal]⟩, fun lam _ v => by simp [pdhgA0]⟩,
    ⟨by norm_num, by norm_num, by norm_num, fun a => by simp [pdhgA0], by norm_num [pdhgA0]⟩, rfl⟩

/-- no orbit converges to the saddle point except the constant one: `x_k² + z_k² ≥ (3/5)(x_0² + z_0²)` for all `k` -/
theorem pdhgA0_no_convergence (s : PDHGState ℝ ℝ) (k : Nat) :
    3 / 5 * (s.x ^ 2 + s.z ^ 2) ≤ (iter (pdhgSpecStep pdhgA0) k s).x ^ 2 + (iter (pdhgSpecStep pdhgA0) k s).z ^ 2 := by
  have h1 := pdhgA0_invariant_iter k s
  have h2 := qA0_le (iter (pdhgSpecStep pdhgA0) k s).x (iter (pdhgSpecStep pdhgA0) k s).z
  have h3 := qA0_ge s.x s.z
  linarith

/-- and the `M`-distance to the saddle point increases in the step from `(0, 1)` -/
theorem pdhgA0_not_fejer :
    pdM pdhgA0.C pdhgA0.tau pdhgA0.sigma (0 - 0) (1 - 0)
      < pdM pdhgA0.C pdhgA0.tau pdhgA0.sigma
          ((pdhgSpecStep pdhgA0 { x := 0, xOld := 0, z := 1, zOld := 1 }).x - 0)
          ((pdhgSpecStep pdhgA0 { x := 0, xOld := 0, z := 1, zOld := 1 }).z - 0) := by
  obtain ⟨h1, h2⟩ := pdhgA0_step 0 1 0 1
  rw [h1, h2]
  unfold pdM pdhgA0
  simp only [id, sub_zero, Real.norm_eq_abs, sq_abs, real_inner_eq_re_inner]
  norm_num

end Scico.Steps
