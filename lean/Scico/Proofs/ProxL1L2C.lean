/-
  `L1MinusL2Norm.prox` for COMPLEX input, by reduction to the real theorem `l1l2_min`:
  the code works with the moduli `va = |v|` and the phases `vs = v/|v|` only, so its result is
  `r_i · phase(v_i)` with `r = l1l2Prox beta va lam ≥ 0`.  For any competitor `x`, passing to moduli does not
  increase the objective (`‖x_i - v_i‖ ≥ |‖x_i‖ - ‖v_i‖|`), and on the code's point it preserves it.
-/
import Scico.Proofs.ProxL1L2

set_option linter.unusedSectionVars false

namespace Scico.ProxL1L2

open Scico Scico.Prox Scico.ProxSpec Scico.ProxBridge WithLp

variable {n : Nat}

/-- the real map returns non-negative entries on non-negative input -/
theorem l1l2Prox_nonneg {lam beta : ℝ} (hlam : 0 < lam) (hb : 0 ≤ beta) (va : Fin n → ℝ) (hva : ∀ i, 0 ≤ va i) :
    ∀ i, 0 ≤ l1l2Prox beta va lam i := by
  intro i
  have habs : ∀ j, HasAbs.abs (va j) = va j := fun j => abs_of_nonneg (hva j)
  have hsign : ∀ j, 0 ≤ sign (va j) := fun j => by
    unfold sign; split_ifs with h1 h2
    · norm_num
    · exact absurd h2 (not_lt.mpr (hva j))
    · exact le_refl _
  unfold l1l2Prox
  simp only [habs]
  split_ifs with h0 h1 h2
  · -- regime 1
    simp only [maxP_eq]
    have hn : 0 ≤ norm2 (fun i => max (va i - lam) 0 * sign (va i)) := by
      rw [norm2_eq]; exact norm_nonneg _
    exact mul_nonneg (mul_nonneg (le_max_right _ _) (hsign i))
      (div_nonneg (add_nonneg hn (mul_nonneg hlam.le hb)) hn)
  · exact le_refl _
  · -- regime 2
    cases hk : argmaxFirst va with
    | none => exact le_refl _
    | some k =>
      simp only []
      by_cases hik : i = k
      · rw [if_pos hik]
        have hkmax : vmax va ≤ va k := by
          rcases vmax_attained va with hz | ⟨i0, hi0⟩
          · linarith
          · rw [← hi0]; exact argmaxFirst_spec va k hk i0
        push Not at h2
        exact mul_nonneg (by nlinarith) (hsign k)
      · rw [if_neg hik]
  · -- v = 0
    beta_reduce
    split_ifs
    · rw [maxP_eq]; exact mul_nonneg (le_max_right _ _) hlam.le
    · exact le_refl _

theorem norm_toC_cphase (z : ℝ × ℝ) : ‖toC (cphase z)‖ = 1 := by
  unfold cphase
  simp only [cabs_eq]
  by_cases h : 0 < ‖toC z‖
  · rw [if_pos h]
    have e : toC (z.1 / ‖toC z‖, z.2 / ‖toC z‖) = (1 / ‖toC z‖) • toC z := by
      apply Complex.ext <;> simp only [toC_re, toC_im, Complex.smul_re, Complex.smul_im, smul_eq_mul] <;> ring
    rw [e, norm_smul, Real.norm_eq_abs, abs_of_pos (by positivity)]
    field_simp
  · rw [if_neg h]
    have : toC ((1 : ℝ), (0 : ℝ)) = 1 := by apply Complex.ext <;> simp
    rw [this]; simp

theorem toC_eq_norm_smul_cphase (z : ℝ × ℝ) : toC z = ‖toC z‖ • toC (cphase z) := by
  unfold cphase
  simp only [cabs_eq]
  by_cases h : 0 < ‖toC z‖
  · rw [if_pos h]
    apply Complex.ext <;> simp only [toC_re, toC_im, Complex.smul_re, Complex.smul_im, smul_eq_mul] <;> field_simp
  · rw [if_neg h]
    have h0 : ‖toC z‖ = 0 := le_antisymm (not_lt.mp h) (norm_nonneg _)
    rw [h0, zero_smul]
    exact norm_eq_zero.mp h0

/-- SPEC: `‖x‖₁ - beta‖x‖₂` on `ℂⁿ` (moduli) -/
noncomputable def l1l2FnC (beta : ℝ) (x : PiLp 2 (fun _ : Fin n => ℂ)) : ℝ := ∑ i, ‖x i‖ - beta * ‖x‖

/-- vector of moduli -/
noncomputable def moduli (x : PiLp 2 (fun _ : Fin n => ℂ)) : EuclideanSpace ℝ (Fin n) := toE (fun i => ‖x i‖)

theorem norm_moduli (x : PiLp 2 (fun _ : Fin n => ℂ)) : ‖moduli x‖ = ‖x‖ := by
  have h1 : ‖moduli x‖ ^ 2 = ‖x‖ ^ 2 := by
    rw [norm_sq_eq_sum, PiLp.norm_sq_eq_of_L2]; rfl
  rw [← Real.sqrt_sq (norm_nonneg (moduli x)), h1, Real.sqrt_sq (norm_nonneg x)]

theorem l1l2FnC_eq (beta : ℝ) (x : PiLp 2 (fun _ : Fin n => ℂ)) : l1l2FnC beta x = l1l2Fn beta (moduli x) := by
  unfold l1l2FnC l1l2Fn
  rw [norm_moduli]
  congr 1
  refine Finset.sum_congr rfl fun i _ => ?_
  simp [moduli]

theorem dist_moduli_le (x v : PiLp 2 (fun _ : Fin n => ℂ)) : ‖moduli x - moduli v‖ ^ 2 ≤ ‖x - v‖ ^ 2 := by
  rw [norm_sq_eq_sum, PiLp.norm_sq_eq_of_L2]
  refine Finset.sum_le_sum fun i _ => ?_
  have h := abs_norm_sub_norm_le (x i) (v i)
  have : (moduli x - moduli v) i = ‖x i‖ - ‖v i‖ := rfl
  rw [this, PiLp.sub_apply, ← sq_abs (‖x i‖ - ‖v i‖)]
  exact pow_le_pow_left₀ (abs_nonneg _) h 2

/-- **complex input** -/
theorem l1l2_min_complex {lam beta : ℝ} (hlam : 0 < lam) (hb : 0 ≤ beta) (v : Fin n → ℝ × ℝ) :
    IsGMin Set.univ (l1l2FnC beta) lam (toCn v) (toCn (l1l2ProxC beta v lam)) := by
  refine ⟨trivial, fun x _ => ?_⟩
  set va : Fin n → ℝ := fun i => cabs (v i) with hva
  have hva0 : ∀ i, 0 ≤ va i := fun i => by rw [hva]; simp only [cabs_eq]; exact norm_nonneg _
  set r := l1l2Prox beta va lam with hr
  have hr0 := l1l2Prox_nonneg hlam hb va hva0
  have hreal := (l1l2_min hlam hb va).2 (moduli x) trivial
  have hmv : moduli (toCn v) = toE va := by
    unfold moduli; congr 1
  -- the code's point, entry by entry
  have hp : ∀ i, toCn (l1l2ProxC beta v lam) i = r i • toC (cphase (v i)) := fun i => by
    show toC (cscale (r i) (cphase (v i))) = _
    rw [toC_cscale]
  have hmp : moduli (toCn (l1l2ProxC beta v lam)) = toE r := by
    unfold moduli; congr 1; funext i
    rw [hp, norm_smul, norm_toC_cphase, mul_one, Real.norm_eq_abs, abs_of_nonneg (hr0 i)]
  have hdp : ‖toCn (l1l2ProxC beta v lam) - toCn v‖ ^ 2 = ‖toE r - toE va‖ ^ 2 := by
    rw [norm_sq_eq_sum, PiLp.norm_sq_eq_of_L2]
    refine Finset.sum_congr rfl fun i _ => ?_
    rw [PiLp.sub_apply, hp, toCn_apply, toC_eq_norm_smul_cphase (v i), ← sub_smul, norm_smul, norm_toC_cphase,
      mul_one, Real.norm_eq_abs, sq_abs]
    have : (toE r - toE va) i = r i - va i := rfl
    rw [this, hva]; simp only [cabs_eq]
  rw [l1l2FnC_eq, l1l2FnC_eq, hmp, hdp]
  have := dist_moduli_le x (toCn v)
  rw [hmv] at this
  linarith

end Scico.ProxL1L2
