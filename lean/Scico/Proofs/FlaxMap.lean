/-
  Helper lemmas for `FlaxMap.__call__` and the variable save/load round trip (`Scico.Model.Flax` §1–2).
-/
import Scico.Model.Flax
import Mathlib.Data.List.Basic

namespace Scico.Flax

/-- a list of length 2 / 3 / 4 is literally two / three / four entries -/
theorem len2 {s : List Nat} (h : s.length = 2) : ∃ a b, s = [a, b] := by
  match s, h with
  | [a, b], _ => exact ⟨a, b, rfl⟩

theorem len3 {s : List Nat} (h : s.length = 3) : ∃ a b c, s = [a, b, c] := by
  match s, h with
  | [a, b, c], _ => exact ⟨a, b, c, rfl⟩

theorem len4 {s : List Nat} (h : s.length = 4) : ∃ a b c d, s = [a, b, c, d] := by
  match s, h with
  | [a, b, c, d], _ => exact ⟨a, b, c, d, rfl⟩

/-- rank 4: nothing is added, the network's result is returned as is -/
theorem flaxMap_rank4 {α : Type} (net : Arr α → Arr α) (x : Arr α) (hx : x.shape.length = 4)
    (hy : (net x).shape.length = 4) : flaxMap net x = .ok (net x) := by
  unfold flaxMap flaxPre flaxPost
  simp [hx, hy]

theorem canon_rank4 {α : Type} (x : Arr α) (hx : x.shape.length = 4) : canon x = x := by
  unfold canon addedAxes
  simp [hx, insertAxes]

theorem canon_rank3 {α : Type} (d : List α) (h w c : Nat) :
    canon (⟨[h, w, c], d⟩ : Arr α) = ⟨[1, h, w, c], d⟩ := by
  simp [canon, addedAxes, insertAxes]

theorem canon_rank2 {α : Type} (d : List α) (h w : Nat) :
    canon (⟨[h, w], d⟩ : Arr α) = ⟨[1, h, w, 1], d⟩ := by
  simp [canon, addedAxes, insertAxes, List.insertIdx]

theorem squeezeAxes0 (k h w c : Nat) :
    squeezeAxes [k, h, w, c] [0] = if k = 1 then some [h, w, c] else none := by
  by_cases hk : k = 1 <;> simp [squeezeAxes, hk, List.zipIdx]

theorem squeezeAxes03 (k h w c : Nat) :
    squeezeAxes [k, h, w, c] [0, 3] = if k = 1 ∧ c = 1 then some [h, w] else none := by
  by_cases hk : k = 1 <;> by_cases hc : c = 1 <;> simp [squeezeAxes, hk, hc, List.zipIdx]

/-- the code equals the specification on rank 2, 3, 4 inputs for every rank-preserving network -/
theorem flaxMap_eq_spec {α : Type} (net : Arr α → Arr α) (x : Arr α)
    (hx : x.shape.length = 2 ∨ x.shape.length = 3 ∨ x.shape.length = 4)
    (hy : (net (canon x)).shape.length = 4) : flaxMap net x = specFlaxMap net x := by
  obtain ⟨xs, xd⟩ := x
  rcases hx with h2 | h3 | h4
  · obtain ⟨h, w, rfl⟩ := len2 h2
    rw [canon_rank2] at hy
    obtain ⟨k, h', w', c', hys⟩ := len4 hy
    unfold flaxMap flaxPre flaxPost specFlaxMap
    rw [canon_rank2]
    simp only [List.length_cons, List.length_nil, List.cons_append, List.nil_append, if_true]
    simp only [hys, addedAxes]
    rw [if_pos (by simp), squeezeAxes03]
    by_cases hk : k = 1 <;> by_cases hc : c' = 1 <;> simp [hk, hc, removeAxes]
  · obtain ⟨h, w, c, rfl⟩ := len3 h3
    rw [canon_rank3] at hy
    obtain ⟨k, h', w', c', hys⟩ := len4 hy
    unfold flaxMap flaxPre flaxPost specFlaxMap
    rw [canon_rank3]
    simp only [List.length_cons, List.length_nil, List.cons_append, List.nil_append]
    simp only [show ¬ (0 + 1 + 1 + 1 = 2) by omega, if_false, if_true, hys, addedAxes]
    rw [if_pos (by simp), squeezeAxes0]
    by_cases hk : k = 1 <;> simp [hk, removeAxes]
  · have hc := canon_rank4 (⟨xs, xd⟩ : Arr α) h4
    rw [hc] at hy
    rw [flaxMap_rank4 net _ h4 hy]
    unfold specFlaxMap
    rw [hc]
    simp only at h4
    simp [addedAxes, h4, removeAxes]

/-- the axes removed are exactly the axes added: for every shape (any rank) -/
theorem removeAxes_insertAxes (s : List Nat) :
    removeAxes (insertAxes s (addedAxes s.length)) (addedAxes s.length) = s := by
  unfold addedAxes
  by_cases h2 : s.length = 2
  · obtain ⟨a, b, rfl⟩ := len2 h2
    simp [insertAxes, removeAxes, List.insertIdx]
  · by_cases h3 : s.length = 3
    · obtain ⟨a, b, c, rfl⟩ := len3 h3
      simp [insertAxes, removeAxes]
    · simp [h2, h3, insertAxes, removeAxes]

/-! ### variables -/

theorem lookup_cons_ne {τ : Type} (k k' : String) (v : τ) (t : VarTree τ) (h : k' ≠ k) :
    lookup ((k', v) :: t) k = lookup t k := by
  have : (k' == k) = false := by simpa using h
  simp [lookup, List.find?, this]

end Scico.Flax
