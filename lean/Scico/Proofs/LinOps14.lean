/-
  Helper lemmas for `Scico.Model.LinOps`, part 14 (round 3): zero-padded N-d DFT — the documented inverse
  (transform at the padded shape, then crop) undoes it.
-/
import Scico.Proofs.LinOps10

namespace Scico.LinOps
open Finset
set_option linter.unusedSectionVars false

/-- pointwise `ns ≤ ms`, same length, every axis of `ns` non-empty -/
def FitsPad : List Nat → List Nat → Prop
  | [], [] => True
  | n :: ns, m :: ms => 0 < n ∧ n ≤ m ∧ FitsPad ns ms
  | _, _ => False

theorem fitsPad_pos : ∀ (ns ms : List Nat), FitsPad ns ms → 0 < prodL ns ∧ 0 < prodL ms
  | [], [], _ => by simp [prodL]
  | n :: ns, m :: ms, h => by
      obtain ⟨a, b⟩ := fitsPad_pos ns ms h.2.2
      exact ⟨Nat.mul_pos h.1 a, Nat.mul_pos (Nat.lt_of_lt_of_le h.1 h.2.1) b⟩
  | [], _ :: _, h => by simp [FitsPad] at h
  | _ :: _, [], h => by simp [FitsPad] at h

theorem embedIdx_lt : ∀ (ns ms : List Nat) (p : Nat), FitsPad ns ms → p < prodL ns → embedIdx ns ms p < prodL ms
  | [], [], p, _, hp => by simpa [embedIdx, prodL] using hp
  | [], _ :: _, _, h, _ => by simp [FitsPad] at h
  | _ :: _, [], _, h, _ => by simp [FitsPad] at h
  | n :: ns, m :: ms, p, h, hp => by
      obtain ⟨hn, hnm, h'⟩ := h
      obtain ⟨hRi, hRo⟩ := fitsPad_pos ns ms h'
      have hi : p / prodL ns < n := by rw [Nat.div_lt_iff_lt_mul hRi]; simpa [prodL] using hp
      have ih := embedIdx_lt ns ms (p % prodL ns) h' (Nat.mod_lt _ hRi)
      simp only [embedIdx, prodL]
      calc _ < p / prodL ns * prodL ms + prodL ms := by omega
        _ = (p / prodL ns + 1) * prodL ms := by ring
        _ ≤ m * prodL ms := Nat.mul_le_mul_right _ (by omega)

/-- cropping the zero-padded array gives back the array (`Crop ∘ Pad = id` in N dimensions) -/
theorem padNd_embed {K : Type} [Zero K] : ∀ (ns ms : List Nat) (x : V K) (p : Nat), FitsPad ns ms → p < prodL ns →
    padNd ns ms x (embedIdx ns ms p) = x p
  | [], [], x, p, _, _ => by simp [padNd, embedIdx]
  | [], _ :: _, _, _, h, _ => by simp [FitsPad] at h
  | _ :: _, [], _, _, h, _ => by simp [FitsPad] at h
  | n :: ns, m :: ms, x, p, h, hp => by
      obtain ⟨hn, hnm, h'⟩ := h
      obtain ⟨hRi, hRo⟩ := fitsPad_pos ns ms h'
      have hi : p / prodL ns < n := by rw [Nat.div_lt_iff_lt_mul hRi]; simpa [prodL] using hp
      have hlt := embedIdx_lt ns ms (p % prodL ns) h' (Nat.mod_lt _ hRi)
      simp only [padNd, embedIdx, idx_div hRo _ _ hlt, idx_mod _ _ hlt, if_pos hi,
        padNd_embed ns ms _ _ h' (Nat.mod_lt _ hRi), slab, Nat.div_add_mod' p (prodL ns)]

theorem embedIdx_self : ∀ (ns : List Nat) (p : Nat), embedIdx ns ns p = p
  | [], p => by simp [embedIdx]
  | n :: ns, p => by simp only [embedIdx, embedIdx_self ns, Nat.div_add_mod' p (prodL ns)]

theorem fitsPad_self : ∀ (ns : List Nat), (∀ n ∈ ns, 0 < n) → FitsPad ns ns
  | [], _ => trivial
  | n :: ns, h => ⟨h n (by simp), le_refl _, fitsPad_self ns (fun m hm => h m (by simp [hm]))⟩

section Doc
variable {K : Type} [Field K]

/-- the documented inverse undoes the zero-padded N-d transform over any subset of the axes, every normalisation -/
theorem dftPad_inv_documented (ns ms : List Nat) (ws : List (Option K)) (s s' : K) (x : V K) (p : Nat)
    (hfit : FitsPad ns ms) (hr : RootsOpt ms ws) (hs : s * s' * (dftAxesSize ms ws : K) = 1) (hp : p < prodL ns) :
    dftInvDocNd ns ms (ws.map (Option.map (·⁻¹))) s' (dftFwdPad ns ms ws s x) p = x p := by
  unfold dftInvDocNd dftFwdPad
  have he := embedIdx_lt ns ms p hfit hp
  have e := dftAxes_lin (Finset.range 1) ms (ws.map (Option.map (·⁻¹))) (fun _ => s)
    (fun _ => dftAxes ms ws (padNd ns ms x)) (embedIdx ns ms p)
  simp only [Finset.sum_range_one] at e
  rw [e, dftAxes_inv_raw ms ws _ _ hr he, padNd_embed ns ms x p hfit hp]
  calc s' * (s * ((dftAxesSize ms ws : K) * x p)) = (s * s' * (dftAxesSize ms ws : K)) * x p := by ring
    _ = x p := by rw [hs, one_mul]


theorem rootsOpt_pos : ∀ (dims : List Nat) (ws : List (Option K)), RootsOpt dims ws → ∀ n ∈ dims, 0 < n
  | [], _, _ => by simp
  | _ :: _, [], h => by simp [RootsOpt] at h
  | n :: ds, some w :: ws, h => by
      intro m hm
      rcases List.mem_cons.mp hm with rfl | hm'
      · exact h.2.1
      · exact rootsOpt_pos ds ws h.2.2 m hm'
  | n :: ds, none :: ws, h => by
      intro m hm
      rcases List.mem_cons.mp hm with rfl | hm'
      · exact h.1
      · exact rootsOpt_pos ds ws h.2 m hm'

/-- `DFT.inv` as coded undoes `DFT` in N dimensions when the transform shape equals the input shape -/
theorem dftInvCoded_unpadded (ns : List Nat) (ws : List (Option K)) (s s' : K) (x : V K) (p : Nat)
    (hr : RootsOpt ns ws) (hs : s * s' * (dftAxesSize ns ws : K) = 1) (hp : p < prodL ns) :
    dftInvCodedNd ns ns (ws.map (Option.map (·⁻¹))) s' (dftFwdPad ns ns ws s x) p = x p := by
  have hfit := fitsPad_self ns (rootsOpt_pos ns ws hr)
  have hpad : ∀ (y : V K) (q : Nat), q < prodL ns → padNd ns ns y q = y q := by
    intro y q hq
    have := padNd_embed ns ns y q hfit hq
    rwa [embedIdx_self] at this
  have h1 := dftPad_inv_documented ns ns ws s s' x p hfit hr hs hp
  unfold dftInvDocNd at h1
  rw [embedIdx_self] at h1
  unfold dftInvCodedNd
  rw [dftAxes_congr ns _ _ _ p (fun q hq => hpad _ q hq) hp]
  exact h1

end Doc
end Scico.LinOps
