/-
  Helper lemmas for `Scico.Model.LinOps`, part 5 (round 2): spectral-multiplier form of the convolution
  theorem (filter given in the DFT domain, fractional centre shifts) and the shift phases of
  `CircularConvolve.__init__`.
-/
import Scico.Proofs.LinOps4
import Mathlib.Algebra.Star.Basic

namespace Scico.LinOps
open Finset
set_option linter.unusedSectionVars false


section Spectrum
variable {K : Type} [Field K]

theorem inv_pow_mod_root {ζ : K} {n : Nat} (hζ : IsPrimitiveRoot ζ n) (e : Nat) : ζ⁻¹ ^ e = ζ⁻¹ ^ (e % n) := by
  rw [inv_pow, inv_pow, pow_mod_root hζ e]

/-- `ζ⁻¹^(((j + n − i) mod n)·f) = ζ^(i f) · ζ⁻¹^(j f)` for `i < n` -/
theorem root_shift {ζ : K} {n : Nat} (hζ : IsPrimitiveRoot ζ n) (hn : 0 < n) (i j f : Nat) (hi : i < n) :
    ζ⁻¹ ^ ((j + n - i) % n * f) = ζ ^ (i * f) * ζ⁻¹ ^ (j * f) := by
  have hζ0 : ζ ≠ 0 := hζ.ne_zero (by omega)
  rw [pow_mul, ← inv_pow_mod_root hζ, ← pow_mul]
  have e : (j + n - i) * f + i * f = j * f + n * f := by
    rw [← Nat.add_mul, ← Nat.add_mul]; congr 1; omega
  have h1 : ζ⁻¹ ^ ((j + n - i) * f) * ζ⁻¹ ^ (i * f) = ζ⁻¹ ^ (j * f) := by
    rw [← pow_add, e, pow_add, pow_mul ζ⁻¹ n f, inv_pow ζ n, hζ.pow_eq_one]; simp
  have h2 : ζ⁻¹ ^ (i * f) * ζ ^ (i * f) = 1 := by
    rw [← mul_pow, inv_mul_cancel₀ hζ0, one_pow]
  calc ζ⁻¹ ^ ((j + n - i) * f) = ζ⁻¹ ^ ((j + n - i) * f) * (ζ⁻¹ ^ (i * f) * ζ ^ (i * f)) := by rw [h2, mul_one]
    _ = (ζ⁻¹ ^ ((j + n - i) * f) * ζ⁻¹ ^ (i * f)) * ζ ^ (i * f) := by ring
    _ = ζ ^ (i * f) * ζ⁻¹ ^ (j * f) := by rw [h1]; ring

/-- spectral-multiplier form of the convolution theorem: `ifft(H · fft(x))` is the circular convolution of
    `x` with the impulse response `g = ifft(H)`, for ANY spectrum `H` (a filter given in the DFT domain,
    or `fft(h, n)` times arbitrary shift phases) -/
theorem circSpec_eq {ζ : K} {n : Nat} (hζ : IsPrimitiveRoot ζ n) (hn : 0 < n) (s : K) (H x : V K) (j : Nat) :
    circSpecEval ζ ζ⁻¹ s n H x j = mulVec (circMatrix (dftInvCropEval ζ⁻¹ s n H) n n 0) n x j := by
  unfold circSpecEval mulVec circMatrix padTo dftInvCropEval dftEval
  simp only [sumTo_eq_sum, npow_eq_pow, one_mul, Nat.add_zero]
  have e1 : ∀ f ∈ range n, (H f * ∑ i ∈ range n, (if i < n then x i else 0) * ζ ^ (i * f)) * ζ⁻¹ ^ (j * f)
      = ∑ i ∈ range n, H f * (ζ ^ (i * f) * ζ⁻¹ ^ (j * f)) * x i := by
    intro f _
    rw [mul_sum, sum_mul]
    refine sum_congr rfl (fun i hi => ?_)
    simp only [mem_range.mp hi, if_true]; ring
  rw [sum_congr rfl e1, sum_comm, mul_sum]
  refine sum_congr rfl (fun i hi => ?_)
  have hi' := mem_range.mp hi
  rw [if_pos (Nat.mod_lt _ hn), mul_assoc s, sum_mul]
  congr 1
  refine sum_congr rfl (fun f _ => ?_)
  rw [root_shift hζ hn i j f hi']


omit [Field K] in
theorem padTo_min [Zero K] (h : V K) (k n m : Nat) (hm : m < n) : padTo h (min k n) m = padTo h k m := by
  unfold padTo
  by_cases hk : m < k
  · rw [if_pos hk, if_pos (lt_min hk hm)]
  · rw [if_neg hk, if_neg (fun h' => hk (lt_of_lt_of_le h' (min_le_left _ _)))]

/-- a filter longer than the signal is cropped by `fftn(h, s=n)`: the operator is the circular convolution
    with the first `min k n` taps, i.e. still the circulant of the (cropped / zero-padded) filter -/
theorem circEval_crop_eq_mulVec {R : Type} [CommRing R] (h : V R) (k n c : Nat) (hn : 0 < n) (x : V R) (i : Nat) :
    circEval h (min k n) n c x i = mulVec (circMatrix h k n c) n x i := by
  rw [circEval_eq_mulVec h (min k n) n c (min_le_right _ _) hn]
  unfold mulVec circMatrix
  exact sumTo_congr (fun j _ => by rw [padTo_min h k n _ (Nat.mod_lt _ hn)])

theorem circ_fft_crop_eq {ζ : K} {n : Nat} (hζ : IsPrimitiveRoot ζ n) (hn : 0 < n) (hnK : (n : K) ≠ 0)
    (h : V K) (k c : Nat) (x : V K) (j : Nat) :
    dftInvCropEval ζ⁻¹ (1 / (n : K)) n
        (fun f => dftEval ζ 1 n n (padTo h k) f * ζ⁻¹ ^ (c * f) * dftEval ζ 1 n n x f) j
      = circEval h (min k n) n c x j := by
  rw [← circ_fft_eq hζ hn hnK h (min k n) c (min_le_right _ _) x j]
  have e : ∀ f, dftEval ζ 1 n n (padTo h k) f = dftEval ζ 1 n n (padTo h (min k n)) f := by
    intro f
    unfold dftEval
    congr 1
    exact sumTo_congr (fun m hm => by simp only [hm, if_true, padTo_min h k n m hm])
  simp only [e]

end Spectrum

/-! ### the shift phases of `CircularConvolve.__init__` -/
section Phase
variable {K : Type} [Field K] {Q : Type} [Field Q] [CharZero Q]

/-- the contract on `E t = exp(2πi t)` and `C t = cos(2π t)` used below -/
structure ExpContract (E C : Q → K) : Prop where
  add : ∀ a b, E (a + b) = E a * E b
  one : E 1 = 1
  cos : ∀ t, C t = (E t + E (-t)) / 2
  two_ne : (2 : K) ≠ 0

namespace ExpContract
variable {E C : Q → K} (h : ExpContract E C)
include h

theorem zero : E 0 = 1 := by
  have h1 : E 1 * E 0 = E 1 * 1 := by rw [← h.add, add_zero, mul_one]
  rw [h.one] at h1; simpa using h1

theorem ne_zero (t : Q) : E t ≠ 0 := by
  intro h0
  have : E (t + -t) = E t * E (-t) := h.add _ _
  rw [add_neg_cancel, h.zero, h0, zero_mul] at this
  exact one_ne_zero this

theorem neg (t : Q) : E (-t) = (E t)⁻¹ := by
  have : E (t + -t) = E t * E (-t) := h.add _ _
  rw [add_neg_cancel, h.zero] at this
  exact eq_inv_of_mul_eq_one_right this.symm

theorem nsmul (m : Nat) (t : Q) : E (m * t) = E t ^ m := by
  induction m with
  | zero => simp [h.zero]
  | succ m ih => rw [Nat.cast_succ, add_mul, one_mul, h.add, ih, pow_succ]

theorem nat (m : Nat) : E (m : Q) = 1 := by
  have := h.nsmul m 1
  rwa [mul_one, h.one, one_pow] at this


theorem zsmul (z : Int) (t : Q) : E (z * t) = E t ^ z := by
  cases z with
  | ofNat m => simpa using h.nsmul m t
  | negSucc m =>
    have e : ((Int.negSucc m : Int) : Q) * t = -(((m + 1 : Nat) : Q) * t) := by push_cast; ring
    rw [e, h.neg, h.nsmul, zpow_negSucc]

theorem int (z : Int) : E (z : Q) = 1 := by
  have := h.zsmul z 1
  rwa [mul_one, h.one, one_zpow] at this

/-- `ζ = E(−1/s) = exp(−2πi/s)` satisfies `ζ^s = 1` -/
theorem root_pow (s : Nat) (hs : 0 < s) : E (-(1 / (s : Q))) ^ s = 1 := by
  have hsQ : (s : Q) ≠ 0 := Nat.cast_ne_zero.mpr (by omega)
  rw [← h.nsmul, mul_neg, mul_one_div_cancel hsQ, h.neg, h.one, inv_one]

end ExpContract

/-- for an INTEGER centre `c ≥ 0` (offset `k = −c`) the three branches of the phase the constructor
    builds all equal `ζ⁻¹^(c f)` with `ζ = exp(−2πi/s) = E(−1/s)`: the phase used in `C04_circ_fft` -/
theorem shiftPhase_nat {E C : Q → K} (h : ExpContract E C) (c s f : Nat) (hs : 0 < s) (hf : f < s) :
    shiftPhase E C (fun m => (m : Q)) (-(c : Q)) s f = (E (-(1 / (s : Q))))⁻¹ ^ (c * f) := by
  have hsQ : (s : Q) ≠ 0 := Nat.cast_ne_zero.mpr (by omega)
  have key : (E (-(1 / (s : Q))))⁻¹ ^ (c * f) = E ((c : Q) * f / s) := by
    rw [← h.neg, neg_neg, ← h.nsmul]; congr 1; push_cast; ring
  simp only [shiftPhase, Nat.cast_ofNat]
  split
  · rw [key]; congr 1; ring
  · split
    · rename_i h1 h2
      -- Nyquist bin: cos(π c) = E(c/2) = ζ⁻¹^(c s/2)
      rw [key, h.cos]
      have hf2 : (s : Q) = 2 * f := by exact_mod_cast h2.symm
      have hfQ : (f : Q) ≠ 0 := Nat.cast_ne_zero.mpr (by omega)
      have e1 : (c : Q) * f / s = c / 2 := by
        rw [hf2]; field_simp
      have e2 : E (-(-(c : Q) / 2)) = E ((c : Q) / 2) := by congr 1; ring
      have e3 : E (-(c : Q) / 2) = E ((c : Q) / 2) := by
        have : E ((c : Q) / 2) = E (-(c : Q) / 2) * E (c : Q) := by
          rw [← h.add]; congr 1; ring
        rw [this, h.nat, mul_one]
      have := h.two_ne
      rw [e1, e2, e3]; field_simp; ring
    · rename_i h1 h2
      rw [key]
      have hle : f ≤ s := by omega
      have : -(c : Q) * ((s - f : Nat) : Q) / s = (c : Q) * f / s + -(c : Q) := by
        rw [Nat.cast_sub hle]; field_simp; ring
      rw [this, h.add, h.neg, h.nat, inv_one, mul_one]


/-- the same for any INTEGER centre `c` (negative centres included): the phase is `ζ^(−c f)` -/
theorem shiftPhase_int {E C : Q → K} (h : ExpContract E C) (c : Int) (s f : Nat) (hs : 0 < s) (hf : f < s) :
    shiftPhase E C (fun m => (m : Q)) (-(c : Q)) s f = E (-(1 / (s : Q))) ^ (-(c * f)) := by
  have hsQ : (s : Q) ≠ 0 := Nat.cast_ne_zero.mpr (by omega)
  have key : E (-(1 / (s : Q))) ^ (-(c * f)) = E ((c : Q) * f / s) := by
    rw [← h.zsmul]; congr 1; push_cast; field_simp
  simp only [shiftPhase, Nat.cast_ofNat]
  split
  · rw [key]; congr 1; ring
  · split
    · rename_i h1 h2
      rw [key, h.cos]
      have hf2 : (s : Q) = 2 * f := by exact_mod_cast h2.symm
      have hfQ : (f : Q) ≠ 0 := Nat.cast_ne_zero.mpr (by omega)
      have e1 : (c : Q) * f / s = c / 2 := by
        rw [hf2]; field_simp
      have e2 : E (-(-(c : Q) / 2)) = E ((c : Q) / 2) := by congr 1; ring
      have e3 : E (-(c : Q) / 2) = E ((c : Q) / 2) := by
        have : E ((c : Q) / 2) = E (-(c : Q) / 2) * E (c : Q) := by
          rw [← h.add]; congr 1; ring
        rw [this, h.int, mul_one]
      have := h.two_ne
      rw [e1, e2, e3]; field_simp; ring
    · rename_i h1 h2
      rw [key]
      have hle : f ≤ s := by omega
      have : -(c : Q) * ((s - f : Nat) : Q) / s = (c : Q) * f / s + -(c : Q) := by
        rw [Nat.cast_sub hle]; field_simp; ring
      rw [this, h.add, h.neg, h.int, inv_one, mul_one]

/-- … and `ζ^(−c f) = ζ⁻¹^((c mod s)·f)`: an integer centre acts through its residue modulo the axis
    length (this is the natural-number centre of `circEval` / `C04_circ_fft`) -/
theorem root_zpow_mod {ζ : K} {s : Nat} (hζ : ζ ^ s = 1) (hs : 0 < s) (c : Int) (f : Nat) :
    ζ ^ (-(c * f)) = ζ⁻¹ ^ ((c % s).toNat * f) := by
  have hζ0 : ζ ≠ 0 := by
    intro h0; rw [h0, zero_pow (by omega)] at hζ; exact zero_ne_one hζ
  have hm : 0 ≤ c % (s : Int) := Int.emod_nonneg _ (by exact_mod_cast (by omega : s ≠ 0))
  have e : -(c * f) = -((s : Int) * (c / s * f)) + -(((c % s).toNat : Int) * f) := by
    rw [Int.toNat_of_nonneg hm]
    have := Int.mul_ediv_add_emod c s
    calc -(c * f) = -((s * (c / s) + c % s) * f) := by rw [this]
      _ = _ := by ring
  rw [e, zpow_add₀ hζ0, zpow_neg, zpow_mul, zpow_natCast, hζ, one_zpow, inv_one, one_mul, zpow_neg,
    ← Int.natCast_mul, zpow_natCast, inv_pow]

omit [CharZero Q] in
/-- Hermitian symmetry of the shift phases (so that a real filter shifted by a fractional centre stays
    real): `phase(s − f) = conj(phase(f))` for `0 < f < s`, given `conj(E t) = E(−t)` and real `C` -/
theorem shiftPhase_hermitian [StarRing K] {E C : Q → K} (hE : ∀ t, star (E t) = E (-t)) (hC : ∀ t, star (C t) = C t)
    (k : Q) (s f : Nat) (hf0 : 0 < f) (hf : f < s) :
    shiftPhase E C (fun m => (m : Q)) k s (s - f) = star (shiftPhase E C (fun m => (m : Q)) k s f) := by
  simp only [shiftPhase]
  have hsub : ((s - (s - f) : Nat) : Q) = f := by congr 1; omega
  by_cases h1 : 2 * f < s
  · have h1' : ¬ 2 * (s - f) < s := by omega
    have h2' : ¬ 2 * (s - f) = s := by omega
    rw [if_pos h1, if_neg h1', if_neg h2', hE, hsub]; congr 1; ring
  · by_cases h2 : 2 * f = s
    · have h2' : 2 * (s - f) = s := by omega
      have h1' : ¬ 2 * (s - f) < s := by omega
      rw [if_neg h1, if_pos h2, if_neg h1', if_pos h2', hC]
    · have h1' : 2 * (s - f) < s := by omega
      rw [if_neg h1, if_neg h2, if_pos h1', hE]

end Phase

end Scico.LinOps
