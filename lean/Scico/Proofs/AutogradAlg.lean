/-
  Algebraic layer for C07: `Cx K` is a commutative ring, sums, conjugation, the adjoint identity
  for dense matrices, the conjugation lemmas for the wrappers, the exact quadratic expansion of
  the weighted squared-l2 loss.
-/
import Scico.Model.Autograd
import Mathlib.Algebra.BigOperators.Fin
import Mathlib.Algebra.BigOperators.Ring.Finset
import Mathlib.Algebra.Order.Field.Basic
import Mathlib.Algebra.Order.BigOperators.Ring.Finset
import Mathlib.Tactic.Ring
import Mathlib.Tactic.Linarith
import Mathlib.Tactic.FieldSimp

namespace Scico.Autograd
open Scico

/-! ### `Cx` basics -/
namespace Cx
variable {K : Type}

theorem ext' {a b : Cx K} (h1 : a.re = b.re) (h2 : a.im = b.im) : a = b := by
  cases a; cases b; simp_all

@[simp] theorem zero_re [Zero K] : (0 : Cx K).re = 0 := rfl
@[simp] theorem zero_im [Zero K] : (0 : Cx K).im = 0 := rfl
@[simp] theorem one_re [Zero K] [One K] : (1 : Cx K).re = 1 := rfl
@[simp] theorem one_im [Zero K] [One K] : (1 : Cx K).im = 0 := rfl
@[simp] theorem add_re [Add K] (a b : Cx K) : (a + b).re = a.re + b.re := rfl
@[simp] theorem add_im [Add K] (a b : Cx K) : (a + b).im = a.im + b.im := rfl
@[simp] theorem sub_re [Sub K] (a b : Cx K) : (a - b).re = a.re - b.re := rfl
@[simp] theorem sub_im [Sub K] (a b : Cx K) : (a - b).im = a.im - b.im := rfl
@[simp] theorem neg_re [Neg K] (a : Cx K) : (-a).re = -a.re := rfl
@[simp] theorem neg_im [Neg K] (a : Cx K) : (-a).im = -a.im := rfl
@[simp] theorem mul_re [Add K] [Sub K] [Mul K] (a b : Cx K) : (a * b).re = a.re * b.re - a.im * b.im := rfl
@[simp] theorem mul_im [Add K] [Sub K] [Mul K] (a b : Cx K) : (a * b).im = a.re * b.im + a.im * b.re := rfl
@[simp] theorem conj_re [Neg K] (a : Cx K) : a.conj.re = a.re := rfl
@[simp] theorem conj_im [Neg K] (a : Cx K) : a.conj.im = -a.im := rfl
@[simp] theorem smul_re [Mul K] (t : K) (a : Cx K) : (smul t a).re = t * a.re := rfl
@[simp] theorem smul_im [Mul K] (t : K) (a : Cx K) : (smul t a).im = t * a.im := rfl
@[simp] theorem divr_re [Div K] (t : K) (a : Cx K) : (divr a t).re = a.re / t := rfl
@[simp] theorem divr_im [Div K] (t : K) (a : Cx K) : (divr a t).im = a.im / t := rfl
@[simp] theorem ofReal_re [Zero K] (t : K) : (ofReal t).re = t := rfl
@[simp] theorem ofReal_im [Zero K] (t : K) : (ofReal t).im = 0 := rfl
@[simp] theorem mk_re (a b : K) : (Cx.mk a b).re = a := rfl
@[simp] theorem mk_im (a b : K) : (Cx.mk a b).im = b := rfl

instance instCommRing [CommRing K] : CommRing (Cx K) where
  add := (· + ·)
  zero := 0
  neg := Neg.neg
  sub := (· - ·)
  mul := (· * ·)
  one := 1
  nsmul := nsmulRec
  zsmul := zsmulRec
  add_assoc a b c := by apply ext' <;> simp [add_assoc]
  zero_add a := by apply ext' <;> simp
  add_zero a := by apply ext' <;> simp
  add_comm a b := by apply ext' <;> simp [add_comm]
  neg_add_cancel a := by apply ext' <;> simp
  sub_eq_add_neg a b := by apply ext' <;> simp [sub_eq_add_neg]
  mul_assoc a b c := by apply ext' <;> simp <;> ring
  one_mul a := by apply ext' <;> simp
  mul_one a := by apply ext' <;> simp
  left_distrib a b c := by apply ext' <;> simp <;> ring
  right_distrib a b c := by apply ext' <;> simp <;> ring
  mul_comm a b := by apply ext' <;> simp <;> ring
  zero_mul a := by apply ext' <;> simp
  mul_zero a := by apply ext' <;> simp

section ring
variable [CommRing K]

/-- real part as an additive homomorphism -/
def reHom : Cx K →+ K where
  toFun := Cx.re
  map_zero' := rfl
  map_add' _ _ := rfl

def imHom : Cx K →+ K where
  toFun := Cx.im
  map_zero' := rfl
  map_add' _ _ := rfl

/-- conjugation as a ring homomorphism -/
def conjHom : Cx K →+* Cx K where
  toFun := Cx.conj
  map_zero' := by apply ext' <;> simp
  map_one' := by apply ext' <;> simp
  map_add' a b := by apply ext' <;> simp [add_comm]
  map_mul' a b := by apply ext' <;> simp <;> ring

theorem re_sum {ι : Type} (s : Finset ι) (f : ι → Cx K) : (∑ i ∈ s, f i).re = ∑ i ∈ s, (f i).re :=
  map_sum reHom f s
theorem im_sum {ι : Type} (s : Finset ι) (f : ι → Cx K) : (∑ i ∈ s, f i).im = ∑ i ∈ s, (f i).im :=
  map_sum imHom f s
theorem conj_sum {ι : Type} (s : Finset ι) (f : ι → Cx K) :
    (∑ i ∈ s, f i).conj = ∑ i ∈ s, (f i).conj := map_sum conjHom f s
theorem conj_mul (a b : Cx K) : (a * b).conj = a.conj * b.conj := map_mul conjHom a b
theorem conj_add (a b : Cx K) : (a + b).conj = a.conj + b.conj := map_add conjHom a b
theorem conj_sub (a b : Cx K) : (a - b).conj = a.conj - b.conj := map_sub conjHom a b
@[simp] theorem conj_conj (a : Cx K) : a.conj.conj = a := by
  apply ext'
  all_goals simp
theorem smul_eq (t : K) (a : Cx K) : smul t a = ofReal t * a := by apply ext' <;> simp
theorem conj_smul (t : K) (a : Cx K) : (smul t a).conj = smul t a.conj := by apply ext' <;> simp
theorem conj_ofReal (t : K) : (ofReal t).conj = ofReal t := by apply ext' <;> simp
/-- `Re (conj a · b) = a.re b.re + a.im b.im` — the real inner product of `ℝ²` -/
theorem conj_mul_re (a b : Cx K) : (a.conj * b).re = a.re * b.re + a.im * b.im := by simp
theorem abs2_eq (a : Cx K) : abs2 a = (a.conj * a).re := by simp [abs2]

end ring
end Cx

/-! ### sums -/

theorem vsum_eq {β : Type} [AddCommMonoid β] {n : Nat} (v : Vec β n) : Vec.sum v = ∑ i, v i := by
  unfold Vec.sum
  exact List.sum_ofFn

section alg
variable {K : Type} [CommRing K] {n m k : Nat}

theorem two_eq : (two : K) = 2 := one_add_one_eq_two

theorem bdot_eq (a b : CVec K n) : bdot a b = ∑ i, a i * b i := vsum_eq _
theorem cinner_eq (g d : CVec K n) : cinner g d = ∑ i, (g i).conj * d i := vsum_eq _
theorem mulVec_eq (A : Mat K m n) (x : CVec K n) (i : Fin m) : mulVec A x i = ∑ j, A i j * x j :=
  vsum_eq _
theorem reInner_eq (g d : CVec K n) : reInner g d = ∑ i, ((g i).re * (d i).re + (g i).im * (d i).im) := by
  unfold reInner
  rw [cinner_eq, Cx.re_sum]
  exact Finset.sum_congr rfl (fun i _ => Cx.conj_mul_re _ _)
theorem reBdot_eq (g d : CVec K n) : reBdot g d = ∑ i, ((g i).re * (d i).re - (g i).im * (d i).im) := by
  unfold reBdot
  rw [bdot_eq, Cx.re_sum]
  exact Finset.sum_congr rfl (fun i _ => Cx.mul_re _ _)
theorem sumAbs2_eq (x : CVec K n) : sumAbs2 x = ∑ i, Cx.abs2 (x i) := vsum_eq _

/-- `⟪conj jg, d⟫ = Σ jgᵢ dᵢ` -/
theorem cinner_conjVec (jg d : CVec K n) : cinner (conjVec jg) d = bdot jg d := by
  rw [cinner_eq, bdot_eq]
  exact Finset.sum_congr rfl (fun i _ => by simp [conjVec])

theorem cinner_conjVec_left (v d : CVec K n) : cinner v d = bdot (conjVec v) d := by
  rw [← cinner_conjVec]; congr 1; funext i; simp [conjVec]

theorem bdot_comm (a b : CVec K n) : bdot a b = bdot b a := by
  rw [bdot_eq, bdot_eq]; exact Finset.sum_congr rfl (fun i _ => mul_comm _ _)

theorem conj_bdot (a b : CVec K n) : (bdot a b).conj = bdot (conjVec a) (conjVec b) := by
  rw [bdot_eq, bdot_eq, Cx.conj_sum]
  exact Finset.sum_congr rfl (fun i _ => Cx.conj_mul _ _)

theorem conjVec_conjVec (v : CVec K n) : conjVec (conjVec v) = v := by
  funext i; simp [conjVec]

theorem conj_cinner (a b : CVec K n) : (cinner a b).conj = cinner b a := by
  rw [cinner_eq, cinner_eq, Cx.conj_sum]
  exact Finset.sum_congr rfl (fun i _ => by rw [Cx.conj_mul, Cx.conj_conj, mul_comm])

theorem reInner_comm (a b : CVec K n) : reInner a b = reInner b a := by
  rw [reInner_eq, reInner_eq]; exact Finset.sum_congr rfl (fun i _ => by ring)

/-- transposition identity for the bilinear pairing: `Σ (Aᵀ c)ⱼ dⱼ = Σ cᵢ (A d)ᵢ` -/
theorem bdot_transpose (A : Mat K m n) (c : CVec K m) (d : CVec K n) :
    bdot (mulVec (transpose A) c) d = bdot c (mulVec A d) := by
  rw [bdot_eq, bdot_eq]
  simp only [mulVec_eq, transpose, Finset.sum_mul, Finset.mul_sum]
  rw [Finset.sum_comm]
  exact Finset.sum_congr rfl (fun i _ => Finset.sum_congr rfl (fun j _ => by ring))

/-- `Aᴴ` is the adjoint of `A`: `⟪Aᴴ u, d⟫ = ⟪u, A d⟫` -/
theorem cinner_adjMat (A : Mat K m n) (u : CVec K m) (d : CVec K n) :
    cinner (mulVec (adjMat A) u) d = cinner u (mulVec A d) := by
  rw [cinner_eq, cinner_eq]
  simp only [mulVec_eq, adjMat, transpose, conjMat, Cx.conj_sum, Cx.conj_mul, Cx.conj_conj,
    Finset.sum_mul, Finset.mul_sum]
  rw [Finset.sum_comm]
  exact Finset.sum_congr rfl (fun i _ => Finset.sum_congr rfl (fun j _ => by ring))

theorem conjVec_mulVec (A : Mat K m n) (x : CVec K n) :
    conjVec (mulVec A x) = mulVec (conjMat A) (conjVec x) := by
  funext i
  simp only [conjVec, mulVec_eq, conjMat, Cx.conj_sum, Cx.conj_mul]

theorem mulVec_add (A : Mat K m n) (x d : CVec K n) :
    mulVec A (vadd x d) = vadd (mulVec A x) (mulVec A d) := by
  funext i
  simp only [vadd, mulVec_eq, mul_add, Finset.sum_add_distrib]

theorem mulVec_vsmul (A : Mat K m n) (t : K) (d : CVec K n) :
    mulVec A (vsmul t d) = vsmul t (mulVec A d) := by
  funext i
  simp only [vsmul, mulVec_eq, Cx.smul_eq, Finset.mul_sum]
  exact Finset.sum_congr rfl (fun j _ => by ring)

theorem mulVec_along (A : Mat K m n) (x d : CVec K n) (t : K) :
    mulVec A (along x d t) = along (mulVec A x) (mulVec A d) t := by
  have h1 : along x d t = vadd x (vsmul t d) := rfl
  have h2 : along (mulVec A x) (mulVec A d) t = vadd (mulVec A x) (vsmul t (mulVec A d)) := rfl
  rw [h1, h2, mulVec_add, mulVec_vsmul]

theorem mulVec_matMul (A : Mat K m k) (B : Mat K k n) (x : CVec K n) :
    mulVec (matMul A B) x = mulVec A (mulVec B x) := by
  funext i
  simp only [mulVec_eq, matMul, vsum_eq, Finset.sum_mul, Finset.mul_sum]
  rw [Finset.sum_comm]
  exact Finset.sum_congr rfl (fun j _ => Finset.sum_congr rfl (fun l _ => by ring))

theorem reInner_vsmul_left (t : K) (g d : CVec K n) : reInner (vsmul t g) d = t * reInner g d := by
  rw [reInner_eq, reInner_eq, Finset.mul_sum]
  exact Finset.sum_congr rfl (fun i _ => by simp [vsmul]; ring)

theorem reInner_vadd_left (g h d : CVec K n) : reInner (vadd g h) d = reInner g d + reInner h d := by
  rw [reInner_eq, reInner_eq, reInner_eq, ← Finset.sum_add_distrib]
  exact Finset.sum_congr rfl (fun i _ => by simp [vadd]; ring)

theorem reBdot_vsmul_left (t : K) (g d : CVec K n) : reBdot (vsmul t g) d = t * reBdot g d := by
  rw [reBdot_eq, reBdot_eq, Finset.mul_sum]
  exact Finset.sum_congr rfl (fun i _ => by simp [vsmul]; ring)

theorem reBdot_vadd_left (g h d : CVec K n) : reBdot (vadd g h) d = reBdot g d + reBdot h d := by
  rw [reBdot_eq, reBdot_eq, reBdot_eq, ← Finset.sum_add_distrib]
  exact Finset.sum_congr rfl (fun i _ => by simp [vadd]; ring)

/-- `Re Σ (Aᵀ c)ⱼ dⱼ = Re Σ cᵢ (A d)ᵢ` -/
theorem reBdot_transpose (A : Mat K m n) (c : CVec K m) (d : CVec K n) :
    reBdot (mulVec (transpose A) c) d = reBdot c (mulVec A d) := by
  unfold reBdot; rw [bdot_transpose]

theorem reInner_conjVec (jg d : CVec K n) : reInner (conjVec jg) d = reBdot jg d := by
  unfold reInner reBdot; rw [cinner_conjVec]

end alg

/-! ### blocks: concatenation -/

section blocks
variable {β : Type} {n k : Nat}

theorem vleft_vappend (u : Vec β n) (v : Vec β k) : vleft (vappend u v) = u := by
  funext i; simp [vleft, vappend]

theorem vright_vappend (u : Vec β n) (v : Vec β k) : vright (vappend u v) = v := by
  funext i; simp [vright, vappend]

theorem vappend_left_right (x : Vec β (n + k)) : vappend (vleft x) (vright x) = x := by
  funext i
  unfold vappend vleft vright
  by_cases h : i.val < n
  · simp [h]
  · simp only [h, dite_false]
    congr 1
    apply Fin.ext
    simp only
    omega

theorem sum_split {M : Type} [AddCommMonoid M] (f : Fin (n + k) → M) :
    ∑ i, f i = ∑ i : Fin n, f ⟨i.val, by omega⟩ + ∑ i : Fin k, f ⟨n + i.val, by omega⟩ := by
  rw [Fin.sum_univ_add]
  rfl

end blocks

section blocks2
variable {K : Type} [CommRing K] {n k : Nat}

/-- `tree_map(conj, ·)` on a two-block argument = conjugation of the concatenation -/
theorem conjVec_vappend (u : CVec K n) (v : CVec K k) :
    conjVec (vappend u v) = vappend (conjVec u) (conjVec v) := by
  funext i
  unfold conjVec vappend
  by_cases h : i.val < n <;> simp [h]

/-- the inner product of block arrays is the sum of the inner products of the blocks -/
theorem reInner_split (g d : CVec K (n + k)) :
    reInner g d = reInner (vleft g) (vleft d) + reInner (vright g) (vright d) := by
  rw [reInner_eq, reInner_eq, reInner_eq, sum_split]
  rfl

theorem reBdot_split (g d : CVec K (n + k)) :
    reBdot g d = reBdot (vleft g) (vleft d) + reBdot (vright g) (vright d) := by
  rw [reBdot_eq, reBdot_eq, reBdot_eq, sum_split]
  rfl

theorem along_vleft (x d : CVec K (n + k)) (t : K) : vleft (along x d t) = along (vleft x) (vleft d) t := rfl
theorem along_vright (x d : CVec K (n + k)) (t : K) : vright (along x d t) = along (vright x) (vright d) t := rfl

end blocks2

end Scico.Autograd
