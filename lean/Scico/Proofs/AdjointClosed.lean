/-
  Adjoint engine: the class-specific overrides of `.T .H .conj() gram_op + - * / @` in `Diagonal` / `ScaledIdentity` /
  `Identity` (`_diag.py`) and `MatrixOperator` (`_matrix.py`) build operators with the same `eval` and `adj` as the generic
  constructions of `_linop.py` applied to the same operands — so everything proved for the generic constructions
  (adjoint identity, matrix of the views) holds for the shortcuts.
-/
import Scico.Proofs.AdjointViews

namespace Scico.Adjoint
open Finset

variable {K : Type} [Field K] [StarRing K]

/-- same declared sizes, same values of `eval` and `adj` on the declared ranges -/
structure OpEq (A B : Op K) : Prop where
  nin : A.nin = B.nin
  nout : A.nout = B.nout
  eval : ∀ x, ∀ i < A.nout, A.eval x i = B.eval x i
  adj : ∀ y, ∀ j < A.nin, A.adj y j = B.adj y j

theorem OpEq.isAdj {A B : Op K} (h : OpEq A B) (hA : IsAdj A) : IsAdj B := by
  intro x y
  have e1 : ip B.nout (B.eval x) y = ip A.nout (A.eval x) y := by
    rw [h.nout]
    exact ip_congr _ (fun i hi => (h.eval x i (by rw [h.nout]; exact hi)).symm) (fun _ _ => rfl)
  have e2 : ip B.nin x (B.adj y) = ip A.nin x (A.adj y) := by
    rw [h.nin]
    exact ip_congr _ (fun _ _ => rfl) (fun j hj => (h.adj y j (by rw [h.nin]; exact hj)).symm)
  rw [e1, e2, hA x y]

/-! ### Diagonal family -/

theorem diag_isAdj (n : Nat) (d : V K) : IsAdj (Op.diag n d) := by
  intro x y
  simp only [Op.diag, ip_eq, conj_eq_star, star_mul', star_star]
  apply Finset.sum_congr rfl
  intro i _
  ring

/-- `Diagonal.conj()` = `Diagonal(d.conj())` -/
theorem diag_cj (n : Nat) (d : V K) : OpEq (Op.cj (Op.diag n d)) (Op.diag n (vconj d)) :=
  ⟨rfl, rfl, fun x i _ => by simp [Op.cj, Op.diag, vconj, conj_eq_star], fun y j _ => by simp [Op.cj, Op.diag, vconj, conj_eq_star]⟩

/-- `Diagonal.H` (square) = `self.conj()` -/
theorem diag_herm (n : Nat) (d : V K) : OpEq (Op.herm (Op.diag n d)) (Op.diag n (vconj d)) :=
  ⟨rfl, rfl, fun x i _ => by simp [Op.herm, Op.diag, vconj], fun y j _ => by simp [Op.herm, Op.diag, vconj, conj_eq_star]⟩

/-- `Diagonal.T` (square) = `self`: complex branch of the generic `.T` for every `d`, real branch for real `d` -/
theorem diag_tr (n : Nat) (d : V K) (c : Bool) (h : c = false → ∀ i, star (d i) = d i) :
    OpEq (Op.tr c (Op.diag n d)) (Op.diag n d) := by
  cases c with
  | true =>
    exact ⟨rfl, rfl, fun x i _ => by simp [Op.tr, Op.diag, vconj, conj_eq_star],
      fun y j _ => by simp [Op.tr, Op.diag, vconj, conj_eq_star]⟩
  | false =>
    have hd := h rfl
    exact ⟨rfl, rfl, fun x i _ => by simp [Op.tr, Op.herm, Op.diag, conj_eq_star, hd],
      fun y j _ => by simp [Op.tr, Op.herm, Op.diag, conj_eq_star, hd]⟩

/-- `Diagonal.gram_op` (square) = `Diagonal(d.conj() * d)` -/
theorem diag_gram (n : Nat) (d : V K) : OpEq (Op.gram (Op.diag n d)) (Op.diag n (fun i => conj (d i) * d i)) :=
  ⟨rfl, rfl, fun x i _ => by simp [Op.gram, Op.diag, mul_assoc],
    fun y j _ => by simp [Op.gram, Op.diag, conj_eq_star]; ring⟩

/-- `Diagonal ± Diagonal`, scalar `*` and `/`, `Diagonal @ Diagonal` -/
theorem diag_add (n : Nat) (d e : V K) : OpEq (Op.add (Op.diag n d) (Op.diag n e)) (Op.diag n (vadd d e)) :=
  ⟨rfl, rfl, fun x i _ => by simp [Op.add, Op.diag, vadd, add_mul], fun y j _ => by simp [Op.add, Op.diag, vadd, conj_eq_star, add_mul]⟩

theorem diag_sub (n : Nat) (d e : V K) : OpEq (Op.sub (Op.diag n d) (Op.diag n e)) (Op.diag n (vsub d e)) :=
  ⟨rfl, rfl, fun x i _ => by simp [Op.sub, Op.diag, vsub, sub_mul], fun y j _ => by simp [Op.sub, Op.diag, vsub, conj_eq_star, sub_mul]⟩

theorem diag_smul (n : Nat) (c : K) (d : V K) : OpEq (Op.smul c (Op.diag n d)) (Op.diag n (vsmul c d)) :=
  ⟨rfl, rfl, fun x i _ => by simp [Op.smul, Op.diag, vsmul, mul_assoc],
    fun y j _ => by simp [Op.smul, Op.diag, vsmul, conj_eq_star]; ring⟩

theorem diag_sdiv (n : Nat) (c : K) (d : V K) : OpEq (Op.sdiv c (Op.diag n d)) (Op.diag n (vsdiv d c)) :=
  ⟨rfl, rfl, fun x i _ => by simp [Op.sdiv, Op.diag, vsdiv]; ring,
    fun y j _ => by simp [Op.sdiv, Op.diag, vsdiv, conj_eq_star, star_div₀]; ring⟩

theorem diag_comp (n : Nat) (d e : V K) : OpEq (Op.comp (Op.diag n d) (Op.diag n e)) (Op.diag n (fun i => d i * e i)) :=
  ⟨rfl, rfl, fun x i _ => by simp [Op.comp, Op.diag, mul_assoc],
    fun y j _ => by simp [Op.comp, Op.diag, conj_eq_star]; ring⟩

/-! ### MatrixOperator -/

/-- `MatrixOperator.H` = `MatrixOperator(A.conj().T)` -/
theorem mat_herm (m n : Nat) (M : Nat → Nat → K) :
    OpEq (Op.herm (Op.mat m n M)) (Op.mat n m (fun j i => conj (M i j))) :=
  ⟨rfl, rfl, fun y j _ => rfl, fun x i _ => by simp [Op.herm, Op.mat, conj_eq_star]⟩

/-- `MatrixOperator.conj()` = `MatrixOperator(A.conj())` -/
theorem mat_cj (m n : Nat) (M : Nat → Nat → K) :
    OpEq (Op.cj (Op.mat m n M)) (Op.mat m n (fun i j => conj (M i j))) :=
  ⟨rfl, rfl, fun x i _ => by simp [Op.cj, Op.mat, vconj, conj_eq_star, sumTo_eq, star_sum],
    fun y j _ => by simp [Op.cj, Op.mat, vconj, conj_eq_star, sumTo_eq, star_sum]⟩

/-- `MatrixOperator.T` = `MatrixOperator(A.T)`: complex branch of the generic `.T` always, real branch for a real matrix -/
theorem mat_tr (m n : Nat) (M : Nat → Nat → K) (c : Bool) (h : c = false → ∀ i j, star (M i j) = M i j) :
    OpEq (Op.tr c (Op.mat m n M)) (Op.mat n m (fun j i => M i j)) := by
  cases c with
  | true =>
    exact ⟨rfl, rfl, fun y j _ => by simp [Op.tr, Op.mat, vconj, conj_eq_star, sumTo_eq, star_sum],
      fun x i _ => by simp [Op.tr, Op.mat, vconj, conj_eq_star, sumTo_eq, star_sum]⟩
  | false =>
    have hM := h rfl
    exact ⟨rfl, rfl, fun y j _ => by simp [Op.tr, Op.herm, Op.mat, conj_eq_star, hM],
      fun x i _ => by simp [Op.tr, Op.herm, Op.mat, conj_eq_star, hM]⟩

theorem mat_add (m n : Nat) (A B : Nat → Nat → K) :
    OpEq (Op.add (Op.mat m n A) (Op.mat m n B)) (Op.mat m n (fun i j => A i j + B i j)) :=
  ⟨rfl, rfl, fun x i _ => by simp [Op.add, Op.mat, vadd, sumTo_eq, add_mul, Finset.sum_add_distrib],
    fun y j _ => by simp [Op.add, Op.mat, vadd, sumTo_eq, conj_eq_star, add_mul, Finset.sum_add_distrib]⟩

theorem mat_sub (m n : Nat) (A B : Nat → Nat → K) :
    OpEq (Op.sub (Op.mat m n A) (Op.mat m n B)) (Op.mat m n (fun i j => A i j - B i j)) :=
  ⟨rfl, rfl, fun x i _ => by simp [Op.sub, Op.mat, vsub, sumTo_eq, sub_mul, Finset.sum_sub_distrib],
    fun y j _ => by simp [Op.sub, Op.mat, vsub, sumTo_eq, conj_eq_star, sub_mul, Finset.sum_sub_distrib]⟩

theorem mat_smul (m n : Nat) (c : K) (A : Nat → Nat → K) :
    OpEq (Op.smul c (Op.mat m n A)) (Op.mat m n (fun i j => c * A i j)) :=
  ⟨rfl, rfl, fun x i _ => by simp [Op.smul, Op.mat, vsmul, sumTo_eq, Finset.mul_sum, mul_assoc],
    fun y j _ => by
      simp only [Op.smul, Op.mat, vsmul, sumTo_eq, conj_eq_star, star_mul']
      apply Finset.sum_congr rfl; intro i _; ring⟩

theorem mat_sdiv (m n : Nat) (c : K) (A : Nat → Nat → K) :
    OpEq (Op.sdiv c (Op.mat m n A)) (Op.mat m n (fun i j => A i j / c)) :=
  ⟨rfl, rfl, fun x i _ => by
      simp only [Op.sdiv, Op.mat, vsdiv, sumTo_eq, div_eq_mul_inv, Finset.sum_mul]
      apply Finset.sum_congr rfl; intro j _; ring,
    fun y j _ => by
      simp only [Op.sdiv, Op.mat, vsdiv, sumTo_eq, conj_eq_star, div_eq_mul_inv, star_mul', star_inv₀]
      apply Finset.sum_congr rfl; intro i _; ring⟩

/-- `MatrixOperator @ MatrixOperator` = `MatrixOperator(A @ B)` -/
theorem mat_comp (m k n : Nat) (A B : Nat → Nat → K) :
    OpEq (Op.comp (Op.mat m k A) (Op.mat k n B)) (Op.mat m n (matMul k A B)) :=
  ⟨rfl, rfl, fun x i _ => by
      simp only [Op.comp, Op.mat, matMul, sumTo_eq, Finset.mul_sum, Finset.sum_mul]
      rw [Finset.sum_comm]
      apply Finset.sum_congr rfl; intro j _
      apply Finset.sum_congr rfl; intro t _; ring,
    fun y j _ => by
      simp only [Op.comp, Op.mat, matMul, sumTo_eq, conj_eq_star, Finset.mul_sum, Finset.sum_mul, star_sum, star_mul']
      rw [Finset.sum_comm]
      apply Finset.sum_congr rfl; intro i _
      apply Finset.sum_congr rfl; intro t _; ring⟩

/-- `MatrixOperator.gram_op` = `MatrixOperator(A.conj().T @ A)` -/
theorem mat_gram (m n : Nat) (M : Nat → Nat → K) :
    OpEq (Op.gram (Op.mat m n M)) (Op.mat n n (matMul m (fun j i => conj (M i j)) M)) :=
  ⟨rfl, rfl, fun x i _ => by
      simp only [Op.gram, Op.mat, matMul, sumTo_eq, conj_eq_star, Finset.mul_sum, Finset.sum_mul]
      rw [Finset.sum_comm]
      apply Finset.sum_congr rfl; intro j _
      apply Finset.sum_congr rfl; intro t _; ring,
    fun y j _ => by
      simp only [Op.gram, Op.mat, matMul, sumTo_eq, conj_eq_star, Finset.mul_sum, Finset.sum_mul, star_sum, star_mul', star_star]
      rw [Finset.sum_comm]
      apply Finset.sum_congr rfl; intro i _
      apply Finset.sum_congr rfl; intro t _; ring⟩

end Scico.Adjoint

namespace Scico.Adjoint

variable {K : Type} [Field K] [StarRing K]

/-! ### nested views (`A.T.T`, `A.T.H`, `A.H.T`, …) of the generic constructions: exact identities of the closures -/

theorem vconj_vconj (x : V K) : vconj (vconj x) = x := by
  funext i; simp [vconj, conj_eq_star]

/-- `A.T.T = A` (complex branch), closures equal as functions -/
theorem tr_tr (A : Op K) : Op.tr true (Op.tr true A) = A := by
  cases A
  simp [Op.tr, vconj_vconj]

theorem herm_herm (A : Op K) : Op.herm (Op.herm A) = A := by
  cases A; rfl

theorem cj_cj (A : Op K) : Op.cj (Op.cj A) = A := by
  cases A
  simp [Op.cj, vconj_vconj]

/-- `A.T.H = A.conj()` and `A.H.T = A.conj()` -/
theorem tr_herm (A : Op K) : Op.herm (Op.tr true A) = Op.cj A := by
  cases A; rfl

theorem herm_tr (A : Op K) : Op.tr true (Op.herm A) = Op.cj A := by
  cases A; rfl

/-- `A.conj().T = A.H`, `A.T.conj() = A.H`, `A.conj().H = A.T`, `A.H.conj() = A.T` -/
theorem cj_tr (A : Op K) : Op.tr true (Op.cj A) = Op.herm A := by
  cases A
  simp [Op.tr, Op.cj, Op.herm, vconj_vconj]

theorem tr_cj (A : Op K) : Op.cj (Op.tr true A) = Op.herm A := by
  cases A
  simp [Op.tr, Op.cj, Op.herm, vconj_vconj]

theorem cj_herm (A : Op K) : Op.herm (Op.cj A) = Op.tr true A := by
  cases A; rfl

theorem herm_cj (A : Op K) : Op.cj (Op.herm A) = Op.tr true A := by
  cases A; rfl

/-- `(B @ A).H` has the closures of `A.H @ B.H` -/
theorem comp_herm (B A : Op K) : Op.herm (Op.comp B A) = Op.comp (Op.herm A) (Op.herm B) := by
  cases A; cases B; rfl

/-- `(B @ A).T` has the closures of `A.T @ B.T`, `(B @ A).conj()` those of `B.conj() @ A.conj()` -/
theorem comp_tr (B A : Op K) : Op.tr true (Op.comp B A) = Op.comp (Op.tr true A) (Op.tr true B) := by
  cases A; cases B
  simp [Op.tr, Op.comp, vconj_vconj]

theorem comp_cj (B A : Op K) : Op.cj (Op.comp B A) = Op.comp (Op.cj B) (Op.cj A) := by
  cases A; cases B
  simp [Op.cj, Op.comp, vconj_vconj]

/-- `gram_op` of the Hermitian transpose is `A Aᴴ`: `A.H.gram_op = (A @ A.H)` closures -/
theorem herm_gram (A : Op K) : (Op.gram (Op.herm A)).eval = (Op.comp A (Op.herm A)).eval
    ∧ (Op.gram (Op.herm A)).adj = (Op.comp A (Op.herm A)).eval := by
  cases A; exact ⟨rfl, rfl⟩

end Scico.Adjoint
