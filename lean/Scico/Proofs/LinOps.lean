/-
  Helper lemmas for `Scico.Model.LinOps`: sums, finite differences, axis lifting, stacks.
-/
import Scico.Model.LinOps
import Mathlib.Algebra.BigOperators.Group.Finset.Basic
import Mathlib.Algebra.BigOperators.Ring.Finset
import Mathlib.Algebra.BigOperators.Intervals
import Mathlib.Tactic.Ring
import Mathlib.Tactic.Linarith

namespace Scico.LinOps
open Finset

section Sums
variable {K : Type} [AddCommMonoid K]

theorem sumTo_eq_sum (n : Nat) (f : Nat → K) : sumTo n f = ∑ j ∈ range n, f j := by
  induction n with
  | zero => simp [sumTo]
  | succ n ih => simp [sumTo, ih, sum_range_succ]

theorem sumTo_congr {n : Nat} {f g : Nat → K} (h : ∀ j, j < n → f j = g j) : sumTo n f = sumTo n g := by
  rw [sumTo_eq_sum, sumTo_eq_sum]
  exact sum_congr rfl (fun j hj => h j (mem_range.mp hj))

theorem sumTo_zero (n : Nat) : sumTo n (fun _ => (0 : K)) = 0 := by
  rw [sumTo_eq_sum]; simp

theorem sumTo_add (n m : Nat) (f : Nat → K) :
    sumTo (n + m) f = sumTo n f + sumTo m (fun j => f (n + j)) := by
  simp only [sumTo_eq_sum]
  exact sum_range_add f n m

/-- a sum with a single possibly non-zero term -/
theorem sumTo_single (n q : Nat) (f : Nat → K) (h : ∀ j, j < n → j ≠ q → f j = 0) :
    sumTo n f = if q < n then f q else 0 := by
  rw [sumTo_eq_sum]
  split
  · rename_i hq
    exact sum_eq_single_of_mem q (mem_range.mpr hq) (fun j hj hne => h j (mem_range.mp hj) hne)
  · rename_i hq
    exact sum_eq_zero (fun j hj => h j (mem_range.mp hj) (by have := mem_range.mp hj; omega))

end Sums

section Ring
variable {K : Type} [CommRing K]

/-- picking a column out of a vector with an indicator row -/
theorem sumTo_ite_some (n : Nat) (p : Option Nat) (x : V K) :
    sumTo n (fun j => (if p = some j then (1 : K) else 0) * x j)
      = match p with | some q => if q < n then x q else 0 | none => 0 := by
  cases p with
  | none => simp [sumTo_zero]
  | some q =>
    rw [sumTo_single n q]
    · simp
    · intro j _ hne
      have : ¬ (some q = some j) := by simpa using fun h => hne h.symm
      simp [this]

theorem mulVec_sub_indicator (n : Nat) (p m : Option Nat) (x : V K) :
    sumTo n (fun j => ((if p = some j then (1 : K) else 0) - (if m = some j then (1 : K) else 0)) * x j)
      = (match p with | some q => if q < n then x q else 0 | none => 0)
        - (match m with | some q => if q < n then x q else 0 | none => 0) := by
  rw [← sumTo_ite_some n p x, ← sumTo_ite_some n m x]
  simp only [sumTo_eq_sum, ← sum_sub_distrib]
  exact sum_congr rfl (fun j _ => by ring)

end Ring

/-! ### finite differences -/
section FD
variable {K : Type} [CommRing K]


theorem fdEval_eq_mulVec (c : FDCfg) (n : Nat) (hn : 0 < n) (x : V K) (i : Nat) (hi : i < fdOutLen c n) :
    fdEval c n x i = mulVec (fdMatrix c n) n x i := by
  unfold mulVec fdMatrix
  rw [mulVec_sub_indicator]
  obtain ⟨p, a, circ⟩ := c
  cases circ
  · cases p <;> cases a <;>
      simp [fdEval, fdPre, fdApp, fdPlus, fdMinus, fdOutLen, diff, cat] at hi ⊢
    all_goals (
      split_ifs <;> (try simp only []) <;> (try split_ifs) <;>
      first
      | omega
      | rfl
      | (subst_vars; simp; done)
      | (have h1 : i - 1 + 1 = i := by omega
         simp [h1]; done)
      | (have h1 : i = n - 1 := by omega
         subst h1; simp)
      | (have h1 : i - 1 = n - 1 := by omega
         simp [h1]))
  · simp [fdEval, fdPre, fdApp, fdPlus, fdMinus, fdOutLen, diff, cat] at hi ⊢
    have hm : (i + 1) % n < n := Nat.mod_lt _ hn
    by_cases h : i + 1 < n
    · simp [h, hi, Nat.mod_eq_of_lt h]
    · have h2 : i + 1 = n := by omega
      simp [h2, hn, hi]

/-- the documented matrix as a list of rows over `ℤ` (for the worked examples) -/
def fdRows (c : FDCfg) (n : Nat) : List (List Int) :=
  (List.range (fdOutLen c n)).map (fun i => (List.range n).map (fun j => fdMatrix (α := Int) c n i j))

end FD

/-! ### axis lifting -/
section Axis
variable {K : Type} [CommRing K]


theorem sum_range_mul2 {K : Type} [AddCommMonoid K] (a b : Nat) (f : Nat → K) :
    ∑ i ∈ range (a * b), f i = ∑ p ∈ range a, ∑ q ∈ range b, f (p * b + q) := by
  induction a with
  | zero => simp
  | succ a ih =>
    rw [Nat.succ_mul, sum_range_add, ih, sum_range_succ]

theorem sum_range_mul3 {K : Type} [AddCommMonoid K] (a b c : Nat) (f : Nat → K) :
    ∑ q ∈ range (a * b * c), f q
      = ∑ o ∈ range a, ∑ k ∈ range b, ∑ r ∈ range c, f ((o * b + k) * c + r) := by
  rw [sum_range_mul2 (a * b) c, sum_range_mul2 a b]

theorem decomp_idx (o k r n inner : Nat) (hk : k < n) (hr : r < inner) :
    ((o * n + k) * inner + r) / (n * inner) = o ∧ ((o * n + k) * inner + r) % inner = r
      ∧ ((o * n + k) * inner + r) / inner % n = k := by
  have hi : 0 < inner := by omega
  have h1 : ((o * n + k) * inner + r) / inner = o * n + k := by
    rw [Nat.add_comm, Nat.add_mul_div_right _ _ hi, Nat.div_eq_of_lt hr, Nat.zero_add]
  refine ⟨?_, ?_, ?_⟩
  · rw [Nat.mul_comm n inner, ← Nat.div_div_eq_div_mul, h1, Nat.add_comm, Nat.add_mul_div_right _ _ (by omega),
      Nat.div_eq_of_lt hk, Nat.zero_add]
  · rw [Nat.add_comm, Nat.add_mul_mod_self_right, Nat.mod_eq_of_lt hr]
  · rw [h1, Nat.add_comm, Nat.add_mul_mod_self_right, Nat.mod_eq_of_lt hk]

theorem alongAxis_mulVec (outer n m inner : Nat) (A : M K) (x : V K) (p : Nat) (hp : p < outer * m * inner) :
    alongAxis n m inner (mulVec A n) x p = mulVec (kronAxis n m inner A) (outer * n * inner) x p := by
  have hmi : 0 < m * inner := by
    rcases Nat.eq_zero_or_pos (m * inner) with h | h
    · rw [Nat.mul_assoc, h] at hp; simp at hp
    · exact h
  have hi : 0 < inner := Nat.pos_of_mul_pos_left hmi
  have ho : p / (m * inner) < outer := by
    rw [Nat.div_lt_iff_lt_mul hmi, ← Nat.mul_assoc]; exact hp
  have hr : p % inner < inner := Nat.mod_lt _ hi
  unfold alongAxis mulVec kronAxis
  rw [sumTo_eq_sum, sumTo_eq_sum, sum_range_mul3]
  rw [sum_eq_single_of_mem (p / (m * inner)) (mem_range.mpr ho)]
  · refine sum_congr rfl (fun k hk => ?_)
    have hk' := mem_range.mp hk
    rw [sum_eq_single_of_mem (p % inner) (mem_range.mpr hr)]
    · obtain ⟨e1, e2, e3⟩ := decomp_idx (p / (m * inner)) k (p % inner) n inner hk' hr
      simp [e1, e2, e3]
    · intro r hr' hne
      obtain ⟨e1, e2, e3⟩ := decomp_idx (p / (m * inner)) k r n inner hk' (mem_range.mp hr')
      simp [e1, e2, hne.symm]
  · intro o ho' hne
    refine sum_eq_zero (fun k hk => sum_eq_zero (fun r hr' => ?_))
    obtain ⟨e1, e2, e3⟩ := decomp_idx o k r n inner (mem_range.mp hk) (mem_range.mp hr')
    simp [e1, hne.symm]

end Axis

/-! ### stacks and row-major index arithmetic -/
section Stack
variable {K : Type} [CommRing K]

theorem vstack_eq_mulVec (ops : List (M K × Nat)) (n : Nat) (x : V K) (i : Nat) (hi : i < totalRows ops) :
    vstackEval ops n x i = mulVec (vstackMatrix ops) n x i := by
  induction ops generalizing i with
  | nil => simp [totalRows] at hi
  | cons op rest ih =>
    obtain ⟨A, m⟩ := op
    simp only [vstackEval, vstackMatrix, cat, mulVec]
    by_cases h : i < m
    · simp [h]
    · simp only [h, if_false]
      have : i - m < totalRows rest := by
        simp [totalRows] at hi ⊢; omega
      rw [ih (i - m) this]; rfl

theorem dstack_eq_mulVec (ops : List (M K × Nat × Nat)) (x : V K) (i : Nat) (hi : i < dRows ops) :
    dstackEval ops x i = mulVec (dstackMatrix ops) (dCols ops) x i := by
  induction ops generalizing i x with
  | nil => simp [dRows] at hi
  | cons op rest ih =>
    obtain ⟨A, m, n⟩ := op
    have hc : dCols ((A, m, n) :: rest) = n + dCols rest := by simp [dCols]
    simp only [dstackEval, dstackMatrix, cat, mulVec, hc]
    rw [sumTo_add]
    by_cases h : i < m
    · simp only [h, if_true]
      have e1 : sumTo n (fun j => (if j < n then A i j else 0) * x j) = sumTo n (fun j => A i j * x j) :=
        sumTo_congr (fun j hj => by simp [hj])
      have e2 : sumTo (dCols rest) (fun j => (if n + j < n then A i (n + j) else 0) * x (n + j)) = 0 := by
        rw [sumTo_congr (g := fun _ => (0 : K)) (fun j _ => by simp), sumTo_zero]
      rw [e1, e2, add_zero]
    · simp only [h, if_false]
      have hi' : i - m < dRows rest := by simp [dRows] at hi ⊢; omega
      rw [ih (fun j => x (j + n)) (i - m) hi']
      have e1 : sumTo n (fun j => (if j < n then (0 : K) else dstackMatrix rest (i - m) (j - n)) * x j) = 0 := by
        rw [sumTo_congr (g := fun _ => (0 : K)) (fun j hj => by simp [hj]), sumTo_zero]
      rw [e1, zero_add]
      unfold mulVec
      exact sumTo_congr (fun j _ => by simp [Nat.add_comm])

/-! row-major index arithmetic -/

theorem prodL_append (a b : List Nat) : prodL (a ++ b) = prodL a * prodL b := by
  induction a with
  | nil => simp [prodL]
  | cons d ds ih => simp [prodL, ih, Nat.mul_assoc]

theorem ravel_lt : ∀ (dims idx : List Nat), InBounds dims idx → ravel dims idx < prodL dims
  | [], [], _ => by simp [ravel, prodL]
  | [], _ :: _, h => by simp [InBounds] at h
  | _ :: _, [], h => by simp [InBounds] at h
  | d :: ds, i :: is, h => by
    obtain ⟨h1, h2⟩ := h
    have := ravel_lt ds is h2
    simp only [ravel, prodL]
    calc i * prodL ds + ravel ds is < i * prodL ds + prodL ds := by omega
      _ = (i + 1) * prodL ds := by ring
      _ ≤ d * prodL ds := Nat.mul_le_mul_right _ h1

theorem unravel_ravel : ∀ (dims idx : List Nat), InBounds dims idx → unravel dims (ravel dims idx) = idx
  | [], [], _ => by simp [unravel]
  | [], _ :: _, h => by simp [InBounds] at h
  | _ :: _, [], h => by simp [InBounds] at h
  | d :: ds, i :: is, h => by
    obtain ⟨h1, h2⟩ := h
    have hlt := ravel_lt ds is h2
    have hpos : 0 < prodL ds := by omega
    simp only [ravel, unravel]
    rw [Nat.add_comm, Nat.add_mul_div_right _ _ hpos, Nat.div_eq_of_lt hlt, Nat.zero_add,
      Nat.add_mul_mod_self_right, Nat.mod_eq_of_lt hlt, unravel_ravel ds is h2]

theorem ravel_unravel : ∀ (dims : List Nat) (k : Nat), k < prodL dims → ravel dims (unravel dims k) = k
  | [], k, h => by simp [prodL] at h; simp [ravel, h]
  | d :: ds, k, h => by
    simp only [prodL] at h
    have hpos : 0 < prodL ds := by
      rcases Nat.eq_zero_or_pos (prodL ds) with h0 | h0
      · rw [h0] at h; simp at h
      · exact h0
    simp only [ravel, unravel]
    rw [ravel_unravel ds (k % prodL ds) (Nat.mod_lt _ hpos)]
    exact Nat.div_add_mod' k (prodL ds)

theorem unravel_inBounds : ∀ (dims : List Nat) (k : Nat), k < prodL dims → InBounds dims (unravel dims k)
  | [], _, _ => by simp [unravel, InBounds]
  | d :: ds, k, h => by
    simp only [prodL] at h
    have hpos : 0 < prodL ds := by
      rcases Nat.eq_zero_or_pos (prodL ds) with h0 | h0
      · rw [h0] at h; simp at h
      · exact h0
    simp only [unravel, InBounds]
    refine ⟨?_, unravel_inBounds ds _ (Nat.mod_lt _ hpos)⟩
    rw [Nat.div_lt_iff_lt_mul hpos]; exact h

/-- the flat index of an element of an N-d array splits as (outer, k, inner) around any axis -/
theorem ravel_axis : ∀ (pre post ip iq : List Nat) (n k : Nat), ip.length = pre.length →
    ravel (pre ++ n :: post) (ip ++ k :: iq) = (ravel pre ip * n + k) * prodL post + ravel post iq
  | [], post, [], iq, n, k, _ => by simp [ravel]
  | [], _, _ :: _, _, _, _, h => by simp at h
  | _ :: _, _, [], _, _, _, h => by simp at h
  | d :: ds, post, i :: is, iq, n, k, h => by
    have h' : is.length = ds.length := by simpa using h
    simp only [List.cons_append, ravel]
    rw [ravel_axis ds post is iq n k h', prodL_append]
    simp only [prodL]
    ring

end Stack

end Scico.LinOps
