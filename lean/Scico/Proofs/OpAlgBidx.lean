/-
  Broadcast index calculus, general part: the composition law of the broadcast index map
  `bidx(mid→src) ∘ bidx(out→mid) = bidx(out→src)`, its range, and associativity / commutativity of
  `numpy.broadcast_shapes` (needed for `Diagonal @ Diagonal` with broadcasting between the diagonals).
-/
import Scico.Proofs.OpAlgShape

namespace Scico.OpAlg

/-- `src` broadcasts to `out` (reversed dimension lists: last axis first) -/
def Bc : List Nat → List Nat → Prop
  | [], _ => True
  | _ :: _, [] => False
  | s :: ss, o :: os => (s = o ∨ s = 1) ∧ Bc ss os

theorem Bc_refl (l : List Nat) : Bc l l := by
  induction l with
  | nil => trivial
  | cons a l ih => exact ⟨Or.inl rfl, ih⟩

theorem Bc_trans : ∀ {a b c : List Nat}, Bc a b → Bc b c → Bc a c := by
  intro a
  induction a with
  | nil => intro _ _ _ _; trivial
  | cons x a ih =>
    intro b c hab hbc
    cases b with
    | nil => exact hab.elim
    | cons y b =>
      cases c with
      | nil => exact hbc.elim
      | cons z c =>
        refine ⟨?_, ih hab.2 hbc.2⟩
        rcases hab.1 with h | h
        · rcases hbc.1 with h' | h'
          · exact Or.inl (h.trans h')
          · exact Or.inr (h.trans h')
        · exact Or.inr h

/-- both operands broadcast to the result of `broadcast_shapes` -/
theorem bshapeRev_Bc : ∀ {x y r : List Nat}, bshapeRev x y = some r → Bc x r ∧ Bc y r := by
  intro x
  induction x with
  | nil =>
    intro y r h
    simp only [bshapeRev] at h
    injection h with h; subst h
    exact ⟨trivial, Bc_refl _⟩
  | cons a x ih =>
    intro y r h
    cases y with
    | nil =>
      simp only [bshapeRev] at h
      injection h with h; subst h
      exact ⟨Bc_refl _, trivial⟩
    | cons b y =>
      simp only [bshapeRev] at h
      cases hr : bshapeRev x y with
      | none => simp [hr] at h
      | some r' =>
        obtain ⟨h1, h2⟩ := ih hr
        simp only [hr] at h
        by_cases hab : a = b
        · simp only [hab, if_true] at h
          injection h with h; subst h
          exact ⟨⟨Or.inl hab, h1⟩, ⟨Or.inl rfl, h2⟩⟩
        · simp only [hab, if_false] at h
          by_cases ha1 : a = 1
          · simp only [ha1, if_true] at h
            injection h with h; subst h
            exact ⟨⟨Or.inr ha1, h1⟩, ⟨Or.inl rfl, h2⟩⟩
          · simp only [ha1, if_false] at h
            by_cases hb1 : b = 1
            · simp only [hb1, if_true] at h
              injection h with h; subst h
              exact ⟨⟨Or.inl rfl, h1⟩, ⟨Or.inr hb1, h2⟩⟩
            · simp [hb1] at h

/-- the broadcast index stays inside the source array -/
theorem bidxRev_lt : ∀ {src out : List Nat} (k : Nat), Bc src out → k < prodL out →
    bidxRev out src k < prodL src := by
  intro src
  induction src with
  | nil =>
    intro out k _ _
    cases out <;> simp [bidxRev, prodL_nil]
  | cons s ss ih =>
    intro out k hbc hk
    cases out with
    | nil => exact hbc.elim
    | cons o os =>
      rw [prodL_cons] at hk
      have ho : 0 < o := by
        rcases Nat.eq_zero_or_pos o with h | h
        · subst h; simp at hk
        · exact h
      have hdiv : k / o < prodL os := by
        rw [Nat.div_lt_iff_lt_mul ho, Nat.mul_comm]; exact hk
      have hq := ih (k / o) hbc.2 hdiv
      simp only [bidxRev, prodL_cons]
      have hr : (if s = 1 then 0 else k % o) < s := by
        rcases hbc.1 with h | h
        · by_cases h1 : s = 1
          · simp [h1]
          · simp only [h1, if_false]; rw [h]; exact Nat.mod_lt _ ho
        · simp [h]
      calc (if s = 1 then 0 else k % o) + s * bidxRev os ss (k / o)
          < s + s * bidxRev os ss (k / o) := Nat.add_lt_add_right hr _
        _ = s * (bidxRev os ss (k / o) + 1) := by rw [Nat.mul_add, Nat.mul_one, Nat.add_comm]
        _ ≤ s * prodL ss := Nat.mul_le_mul_left _ hq

/-- **composition law** of the broadcast index maps -/
theorem bidxRev_comp : ∀ {src mid out : List Nat} (k : Nat), Bc src mid → Bc mid out → k < prodL out →
    bidxRev mid src (bidxRev out mid k) = bidxRev out src k := by
  intro src
  induction src with
  | nil =>
    intro mid out k _ _ _
    cases mid <;> cases out <;> simp [bidxRev]
  | cons s ss ih =>
    intro mid out k h1 h2 hk
    cases mid with
    | nil => exact h1.elim
    | cons m ms =>
      cases out with
      | nil => exact h2.elim
      | cons o os =>
        rw [prodL_cons] at hk
        have ho : 0 < o := by
          rcases Nat.eq_zero_or_pos o with h | h
          · subst h; simp at hk
          · exact h
        have hdiv : k / o < prodL os := by
          rw [Nat.div_lt_iff_lt_mul ho, Nat.mul_comm]; exact hk
        have hih := ih (k / o) h1.2 h2.2 hdiv
        simp only [bidxRev]
        -- K' = r + m * q with r < m (or m = 1, r = 0)
        by_cases hm1 : m = 1
        · -- then s = 1 as well
          have hs1 : s = 1 := by rcases h1.1 with h | h <;> omega
          subst hm1; subst hs1
          simp only [if_true, Nat.zero_add, Nat.one_mul, Nat.div_one]
          exact hih
        · have hmo : o = m := by
            rcases h2.1 with h | h
            · exact h.symm
            · exact absurd h hm1
          subst hmo
          simp only [hm1, if_false]
          have hr : k % o < o := Nat.mod_lt _ ho
          have hdivK : (k % o + o * bidxRev os ms (k / o)) / o = bidxRev os ms (k / o) := by
            rw [Nat.add_comm, Nat.mul_add_div ho, Nat.div_eq_of_lt hr, Nat.add_zero]
          have hmodK : (k % o + o * bidxRev os ms (k / o)) % o = k % o := by
            rw [Nat.add_comm, Nat.mul_add_mod, Nat.mod_eq_of_lt hr]
          rw [hdivK, hmodK, hih]

/-- `broadcast_shapes` is commutative -/
theorem bshapeRev_comm : ∀ (x y : List Nat), bshapeRev x y = bshapeRev y x := by
  intro x
  induction x with
  | nil => intro y; cases y <;> rfl
  | cons a x ih =>
    intro y
    cases y with
    | nil => rfl
    | cons b y =>
      simp only [bshapeRev, ih y]
      cases bshapeRev y x with
      | none => rfl
      | some r =>
        simp only
        by_cases hab : a = b
        · subst hab; simp
        · have hba : ¬ b = a := fun h => hab h.symm
          simp only [hab, hba, if_false]
          by_cases ha1 : a = 1
          · by_cases hb1 : b = 1
            · omega
            · simp [ha1, hb1]
          · by_cases hb1 : b = 1
            · simp [ha1, hb1]
            · simp [ha1, hb1]

/-- `broadcast_shapes` is associative (whenever all four results exist) -/
theorem bshapeRev_assoc : ∀ {x y z xy yz r1 r2 : List Nat}, bshapeRev x y = some xy →
    bshapeRev xy z = some r1 → bshapeRev y z = some yz → bshapeRev x yz = some r2 → r1 = r2 := by
  intro x
  induction x with
  | nil =>
    intro y z xy yz r1 r2 h1 h2 h3 h4
    simp only [bshapeRev] at h1 h4
    injection h1 with h1; injection h4 with h4
    subst h1; subst h4
    rw [h2] at h3; injection h3
  | cons a x ih =>
    intro y z xy yz r1 r2 h1 h2 h3 h4
    cases y with
    | nil =>
      simp only [bshapeRev] at h1
      injection h1 with h1; subst h1
      have : yz = z := by
        cases z <;> simp only [bshapeRev] at h3 <;> injection h3 with h3 <;> exact h3.symm
      subst this
      rw [h2] at h4; injection h4
    | cons b y =>
      cases z with
      | nil =>
        have e1 : r1 = xy := by
          cases xy <;> simp only [bshapeRev] at h2 <;> injection h2 with h2 <;> exact h2.symm
        have e2 : yz = b :: y := by
          simp only [bshapeRev] at h3; injection h3 with h3; exact h3.symm
        subst e1; subst e2
        rw [h1] at h4; injection h4
      | cons c z =>
        simp only [bshapeRev] at h1 h3
        cases hxy : bshapeRev x y with
        | none => simp [hxy] at h1
        | some xy' =>
          cases hyz : bshapeRev y z with
          | none => simp [hyz] at h3
          | some yz' =>
            simp only [hxy] at h1
            simp only [hyz] at h3
            -- heads
            obtain ⟨p, hp, hxyc⟩ : ∃ p, xy = p :: xy' ∧ (p = a ∨ p = b) ∧ (a = 1 → p = b) ∧ (b = 1 → p = a) ∧ (a = b ∨ a = 1 ∨ b = 1) := by
              by_cases hab : a = b
              · simp only [hab, if_true] at h1; injection h1 with h1
                exact ⟨b, h1.symm, Or.inr rfl, fun _ => rfl, fun _ => hab ▸ rfl, Or.inl hab⟩
              · simp only [hab, if_false] at h1
                by_cases ha1 : a = 1
                · simp only [ha1, if_true] at h1; injection h1 with h1
                  exact ⟨b, h1.symm, Or.inr rfl, fun _ => rfl, fun hb => by omega, Or.inr (Or.inl ha1)⟩
                · simp only [ha1, if_false] at h1
                  by_cases hb1 : b = 1
                  · simp only [hb1, if_true] at h1; injection h1 with h1
                    exact ⟨a, h1.symm, Or.inl rfl, fun h => absurd h ha1, fun _ => rfl, Or.inr (Or.inr hb1)⟩
                  · simp [hb1] at h1
            obtain ⟨q, hq, hyzc⟩ : ∃ q, yz = q :: yz' ∧ (q = b ∨ q = c) ∧ (b = 1 → q = c) ∧ (c = 1 → q = b) ∧ (b = c ∨ b = 1 ∨ c = 1) := by
              by_cases hbc : b = c
              · simp only [hbc, if_true] at h3; injection h3 with h3
                exact ⟨c, h3.symm, Or.inr rfl, fun _ => rfl, fun _ => hbc ▸ rfl, Or.inl hbc⟩
              · simp only [hbc, if_false] at h3
                by_cases hb1 : b = 1
                · simp only [hb1, if_true] at h3; injection h3 with h3
                  exact ⟨c, h3.symm, Or.inr rfl, fun _ => rfl, fun hc => by omega, Or.inr (Or.inl hb1)⟩
                · simp only [hb1, if_false] at h3
                  by_cases hc1 : c = 1
                  · simp only [hc1, if_true] at h3; injection h3 with h3
                    exact ⟨b, h3.symm, Or.inl rfl, fun h => absurd h hb1, fun _ => rfl, Or.inr (Or.inr hc1)⟩
                  · simp [hc1] at h3
            subst hp; subst hq
            simp only [bshapeRev] at h2 h4
            cases h12 : bshapeRev xy' z with
            | none => simp [h12] at h2
            | some t1 =>
              cases h34 : bshapeRev x yz' with
              | none => simp [h34] at h4
              | some t2 =>
                have ht : t1 = t2 := ih hxy h12 hyz h34
                subst ht
                simp only [h12] at h2
                simp only [h34] at h4
                -- the heads agree
                have head : ∀ (u v : Nat) (l res : List Nat),
                    (if u = v then some (u :: l) else if u = 1 then some (v :: l)
                      else if v = 1 then some (u :: l) else none) = some res →
                    ∃ w, res = w :: l ∧ (u = 1 → w = v) ∧ (u ≠ 1 → w = u) := by
                  intro u v l res h
                  by_cases huv : u = v
                  · simp only [huv, if_true] at h; injection h with h
                    exact ⟨v, h.symm, fun _ => rfl, fun _ => huv.symm⟩
                  · simp only [huv, if_false] at h
                    by_cases hu1 : u = 1
                    · simp only [hu1, if_true] at h; injection h with h
                      exact ⟨v, h.symm, fun _ => rfl, fun hne => absurd hu1 hne⟩
                    · simp only [hu1, if_false] at h
                      by_cases hv1 : v = 1
                      · simp only [hv1, if_true] at h; injection h with h
                        exact ⟨u, h.symm, fun h' => absurd h' hu1, fun _ => rfl⟩
                      · simp [hv1] at h
                obtain ⟨w1, e1, w1a, w1b⟩ := head p c t1 r1 h2
                obtain ⟨w2, e2, w2a, w2b⟩ := head a q t1 r2 h4
                subst e1; subst e2
                congr 1
                -- w1 = f(f(a,b),c), w2 = f(a,f(b,c)) with f(u,v) = if u = 1 then v else u
                obtain ⟨hp1, hp2, hp3, _⟩ := hxyc
                obtain ⟨hq1, hq2, hq3, _⟩ := hyzc
                by_cases ha1 : a = 1
                · have hpb : p = b := hp2 ha1
                  rw [w2a ha1]
                  by_cases hb1 : b = 1
                  · rw [hq2 hb1]; exact w1a (hpb.trans hb1)
                  · have hqb : q = b := by
                      rcases hq1 with h | h
                      · exact h
                      · by_cases hc1 : c = 1
                        · exact hq3 hc1
                        · omega
                    rw [hqb, w1b (by rw [hpb]; exact hb1), hpb]
                · have hpa : p = a := by
                    rcases hp1 with h | h
                    · exact h
                    · by_cases hb1 : b = 1
                      · exact hp3 hb1
                      · omega
                  rw [w2b ha1, w1b (by rw [hpa]; exact ha1), hpa]

end Scico.OpAlg
