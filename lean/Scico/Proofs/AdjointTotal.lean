/-
  Adjoint engine, dtype / shape layer: "applying the adjoint never fails for a conforming input".

  Invariant carried through the induction over typed derivation trees: `Faithful A` — on an array of the declared
  input type the `_eval` closure returns the declared output type, on an array of the declared output type the
  `_adj` closure returns the declared input type.  It holds for every tree that passes scico's construction tests
  (`wfT`) and contains no `+`/`-` of operands on different dtypes (`homog`: the recorded finding, shown necessary).
-/
import Scico.Model.AdjointTy

namespace Scico.Adjoint

open TOp

theorem DT.promote_self (a : DT) : DT.promote a a = a := by cases a <;> rfl

theorem DT.promote_comm (a b : DT) : DT.promote a b = DT.promote b a := by cases a <;> cases b <;> rfl

/-- the promoted dtype equals both arguments only if they are equal -/
theorem DT.promote_eq_both {a b : DT} (h1 : DT.promote a b = a) (h2 : DT.promote a b = b) : a = b := by
  rw [← h1]; exact h2

@[simp] theorem andThen_ok (v : Ty) (f : Ty → R) : andThen (.ok v) f = f v := rfl
@[simp] theorem andThen_error (e : TErr) (f : Ty → R) : andThen (.error e) f = .error e := rfl

theorem sealBlk_ok {t : Ty} (h : TOp.isHet t.sh = false) : sealBlk (.ok t) = .ok t := by
  obtain ⟨dt, sh⟩ := t
  cases sh <;> simp_all [sealBlk, TOp.isHet]

@[simp] theorem sealBlk_error (e : TErr) : sealBlk (.error e) = .error e := rfl

namespace Faithful

theorem call_ok {A : TOp} (h : Faithful A) : A.call ⟨A.idt, A.ish⟩ = .ok ⟨A.odt, A.osh⟩ := by
  simp [TOp.call, h.eval_ok, sealBlk_ok (t := ⟨A.odt, A.osh⟩) h.osh_nh]

theorem adjC_ok {A : TOp} (h : Faithful A) : A.adjC ⟨A.odt, A.osh⟩ = .ok ⟨A.idt, A.ish⟩ := by
  simp [TOp.adjC, h.adj_ok, sealBlk_ok (t := ⟨A.idt, A.ish⟩) h.ish_nh]

end Faithful

theorem isHet_collapseShp {s : Shp} (h : TOp.isHet s = false) : TOp.isHet (collapseShp s) = false := by
  cases s with
  | arr d => rfl
  | het bs => simp [TOp.isHet] at h
  | blk bs =>
    cases bs with
    | nil => rfl
    | cons d rest => simp only [collapseShp]; split <;> rfl

theorem isHet_collapseIf {s : Shp} (c : Bool) (h : TOp.isHet s = false) : TOp.isHet (collapseIf c s) = false := by
  cases c <;> simp [collapseIf, h, isHet_collapseShp h]

/-! ### one lemma per construction -/

theorem add_faithful {A B : TOp} (hA : Faithful A) (hB : Faithful B) (hi : A.ish = B.ish) (ho : A.osh = B.osh)
    (hdi : A.idt = B.idt) (hdo : A.odt = B.odt) : Faithful (TOp.add A B) := by
  refine ⟨?_, ?_, hA.ish_nh, hA.osh_nh⟩
  · show andThen (A.call ⟨A.idt, A.ish⟩) _ = _
    rw [hA.call_ok]
    simp only [andThen_ok]
    dsimp only [TOp.add]
    rw [hdi, hi, hB.call_ok]
    simp [tadd, ho, hdo, DT.promote_self]
  · show andThen (A.adjC ⟨DT.promote A.odt B.odt, A.osh⟩) _ = _
    rw [← hdo, DT.promote_self, hA.adjC_ok]
    simp only [andThen_ok]
    dsimp only [TOp.add]
    rw [← hdo, DT.promote_self, hdo, ho, hB.adjC_ok]
    simp [tadd, hi, hdi, DT.promote_self]

theorem smul_faithful {A : TOp} (hA : Faithful A) (k : SK) : Faithful (TOp.smul k A) := by
  refine ⟨?_, ?_, hA.ish_nh, hA.osh_nh⟩
  · show andThen (A.call ⟨A.idt, A.ish⟩) _ = _
    rw [hA.call_ok]
    rfl
  · show A.adjC ⟨A.odt, A.osh⟩ = _
    rw [hA.adjC_ok]
    rfl

theorem comp_faithful {A B : TOp} (hA : Faithful A) (hB : Faithful B) (hs : A.ish = B.osh) (hd : A.idt = B.odt) :
    Faithful (TOp.comp A B) := by
  refine ⟨?_, ?_, hB.ish_nh, hA.osh_nh⟩
  · show andThen (B.call ⟨B.idt, B.ish⟩) A.call = _
    rw [hB.call_ok]
    simp only [andThen_ok]
    rw [← hs, ← hd, hA.call_ok]
    rfl
  · show andThen (A.adjC ⟨A.odt, A.osh⟩) B.adjC = _
    rw [hA.adjC_ok]
    simp only [andThen_ok]
    rw [hs, hd, hB.adjC_ok]
    rfl

theorem herm_faithful {A : TOp} (hA : Faithful A) : Faithful (TOp.herm A) :=
  ⟨by simpa [TOp.herm, TOp.adjC, TOp.call] using hA.adjC_ok, by simpa [TOp.herm] using hA.call_ok, hA.osh_nh, hA.ish_nh⟩

theorem tr_faithful {A : TOp} (hA : Faithful A) : Faithful (TOp.tr A) := herm_faithful hA

theorem trCoded_faithful {A : TOp} (hA : Faithful A) (h : A.idt.cplx = false ∨ A.idt = A.odt) :
    Faithful (TOp.trCoded A) := by
  unfold TOp.trCoded
  by_cases hc : A.idt.cplx = true
  · have he : A.idt = A.odt := by
      rcases h with h | h
      · rw [hc] at h; cases h
      · exact h
    rw [if_pos hc]
    refine ⟨?_, ?_, hA.osh_nh, hA.ish_nh⟩
    · show A.adjC ⟨A.idt, A.osh⟩ = .ok ⟨A.odt, A.ish⟩
      rw [he, hA.adjC_ok, ← he]
    · show A.call ⟨A.odt, A.ish⟩ = .ok ⟨A.idt, A.osh⟩
      rw [← he, hA.call_ok, ← he]
  · rw [if_neg hc]
    exact herm_faithful hA

theorem cj_faithful {A : TOp} (hA : Faithful A) : Faithful (TOp.cj A) :=
  ⟨hA.call_ok, hA.adjC_ok, hA.ish_nh, hA.osh_nh⟩

theorem gram_faithful {A : TOp} (hA : Faithful A) : Faithful (TOp.gram A) := by
  refine ⟨?_, ?_, hA.ish_nh, hA.ish_nh⟩ <;>
  · show andThen (A.call ⟨A.idt, A.ish⟩) A.adjC = _
    rw [hA.call_ok]
    simp only [andThen_ok]
    rw [hA.adjC_ok]
    rfl

theorem isArr_eq {s : Shp} (h : TOp.isArr s = true) : s = .arr (TOp.dimsOf s) := by
  cases s with
  | arr d => rfl
  | blk bs => simp [TOp.isArr] at h
  | het bs => simp [TOp.isArr] at h

theorem vone_faithful {A : TOp} (hA : Faithful A) (ho : TOp.isArr A.osh = true) : Faithful (TOp.vone A) := by
  have e := isArr_eq ho
  refine ⟨?_, ?_, hA.ish_nh, rfl⟩
  · show andThen (A.call ⟨A.idt, A.ish⟩) oneBlk = _
    rw [hA.call_ok]
    simp only [andThen_ok]
    rw [e]
    rfl
  · show A.adjC ⟨A.odt, .arr (TOp.dimsOf A.osh)⟩ = _
    rw [← e, hA.adjC_ok]
    rfl

theorem vcons_faithful {A S : TOp} (hA : Faithful A) (hS : Faithful S) (ho : TOp.isArr A.osh = true)
    (hblk : S.osh = .blk (TOp.blocksOf S.osh)) (hi : A.ish = S.ish) (hdi : A.idt = S.idt) (hdo : A.odt = S.odt) :
    Faithful (TOp.vcons A S) := by
  have e := isArr_eq ho
  refine ⟨?_, ?_, hA.ish_nh, rfl⟩
  · have e2 : (if (⟨A.idt, A.ish⟩ : Ty).sh = S.ish then S.evalT ⟨A.idt, A.ish⟩ else Except.error TErr.shape)
        = .ok ⟨S.odt, S.osh⟩ := by
      rw [if_pos hi, hdi, hi, hS.eval_ok]
    show andThen (A.call ⟨A.idt, A.ish⟩) (fun a => andThen
      (if (⟨A.idt, A.ish⟩ : Ty).sh = S.ish then S.evalT ⟨A.idt, A.ish⟩ else Except.error TErr.shape) fun s => consBlk a s) = _
    rw [hA.call_ok, e2]
    simp only [andThen_ok]
    show consBlk ⟨A.odt, A.osh⟩ ⟨S.odt, S.osh⟩ = .ok ⟨A.odt, .blk (TOp.dimsOf A.osh :: TOp.blocksOf S.osh)⟩
    rw [e, hblk]
    simp [consBlk, hdo, TOp.dimsOf, TOp.blocksOf]
  · show andThen (A.adjC ⟨A.odt, .arr (TOp.dimsOf A.osh)⟩) _ = _
    rw [← e, hA.adjC_ok]
    simp only [andThen_ok]
    dsimp only [TOp.vcons]
    rw [hdo, ← hblk, hS.adj_ok]
    simp [tadd, hi, hdi, DT.promote_self]

theorem vfin_faithful {S : TOp} (hS : Faithful S) : Faithful (TOp.vfin S) := by
  refine ⟨?_, ?_, hS.ish_nh, isHet_collapseShp hS.osh_nh⟩
  · show andThen (S.evalT ⟨S.idt, S.ish⟩) _ = _
    rw [hS.eval_ok]
    rfl
  · show S.adjT ⟨S.odt, S.osh⟩ = _
    rw [hS.adj_ok]
    rfl

theorem done_faithful {A : TOp} (hA : Faithful A) (hi : TOp.isArr A.ish = true) (ho : TOp.isArr A.osh = true) :
    Faithful (TOp.done A) := by
  have ei := isArr_eq hi
  have eo := isArr_eq ho
  refine ⟨?_, ?_, rfl, rfl⟩
  · show andThen (A.call ⟨A.idt, .arr (TOp.dimsOf A.ish)⟩) oneBlk = _
    rw [← ei, hA.call_ok]
    simp only [andThen_ok]
    rw [eo]
    rfl
  · show andThen (A.adjC ⟨A.odt, .arr (TOp.dimsOf A.osh)⟩) oneBlk = _
    rw [← eo, hA.adjC_ok]
    simp only [andThen_ok]
    rw [ei]
    rfl

theorem dcons_faithful {A S : TOp} (hA : Faithful A) (hS : Faithful S) (hi : TOp.isArr A.ish = true)
    (ho : TOp.isArr A.osh = true) (hbi : S.ish = .blk (TOp.blocksOf S.ish)) (hbo : S.osh = .blk (TOp.blocksOf S.osh))
    (hdi : A.idt = S.idt) (hdo : A.odt = S.odt) : Faithful (TOp.dcons A S) := by
  have ei := isArr_eq hi
  have eo := isArr_eq ho
  refine ⟨?_, ?_, rfl, rfl⟩
  · show andThen (A.call ⟨A.idt, .arr (TOp.dimsOf A.ish)⟩) _ = _
    rw [← ei, hA.call_ok]
    simp only [andThen_ok]
    dsimp only [TOp.dcons]
    rw [hdi, ← hbi, hS.eval_ok]
    simp only [andThen_ok]
    rw [eo, hbo]
    simp [consBlk, hdo, TOp.dimsOf, TOp.blocksOf]
  · show andThen (A.adjC ⟨A.odt, .arr (TOp.dimsOf A.osh)⟩) _ = _
    rw [← eo, hA.adjC_ok]
    simp only [andThen_ok]
    dsimp only [TOp.dcons]
    rw [hdo, ← hbo, hS.adj_ok]
    simp only [andThen_ok]
    rw [ei, hbi]
    simp [consBlk, hdi, TOp.dimsOf, TOp.blocksOf]

theorem dfin_faithful {S : TOp} (hS : Faithful S) (ci co : Bool) : Faithful (TOp.dfin ci co S) := by
  refine ⟨?_, ?_, isHet_collapseIf ci hS.ish_nh, isHet_collapseIf co hS.osh_nh⟩
  · show andThen (S.evalT ⟨S.idt, S.ish⟩) _ = _
    rw [hS.eval_ok]
    rfl
  · show andThen (S.adjT ⟨S.odt, S.osh⟩) _ = _
    rw [hS.adj_ok]
    rfl

theorem drep_faithful {A : TOp} (hA : Faithful A) (k ia oa : Nat) : Faithful (TOp.drep k ia oa A) := by
  refine ⟨?_, ?_, rfl, rfl⟩
  · show andThen (A.call ⟨A.idt, A.ish⟩) _ = _
    rw [hA.call_ok]
    rfl
  · show andThen (A.adjC ⟨A.odt, A.osh⟩) _ = _
    rw [hA.adjC_ok]
    rfl

/-! ### chains have BlockArray shapes -/

theorem vchain_osh (coded : Bool) (env : Nat → TOp) {s : TExpr} (h : s.isVChain = true) :
    (runT coded env s).osh = .blk (TOp.blocksOf (runT coded env s).osh) := by
  cases s <;> simp [TExpr.isVChain] at h <;> simp [runT, TOp.vone, TOp.vcons, TOp.blocksOf]

theorem dchain_shapes (coded : Bool) (env : Nat → TOp) {s : TExpr} (h : s.isDChain = true) :
    (runT coded env s).ish = .blk (TOp.blocksOf (runT coded env s).ish)
      ∧ (runT coded env s).osh = .blk (TOp.blocksOf (runT coded env s).osh) := by
  cases s <;> simp [TExpr.isDChain] at h <;> simp [runT, TOp.done, TOp.dcons, TOp.blocksOf]

/-! ### the induction (trees of any depth) -/

theorem faithful_runT (coded : Bool) (env : Nat → TOp) (henv : ∀ i, Faithful (env i)) :
    ∀ t : TExpr, wfT coded env t = true → homog coded env t = true → Faithful (runT coded env t)
  | .leaf i, _, _ => by simpa [runT] using henv i
  | .add a b, hw, hh => by
    simp only [wfT, Bool.and_eq_true, decide_eq_true_eq] at hw
    simp only [homog, Bool.and_eq_true, decide_eq_true_eq] at hh
    obtain ⟨⟨⟨wa, wb⟩, hi⟩, ho⟩ := hw
    obtain ⟨⟨⟨ha, hb⟩, hdi⟩, hdo⟩ := hh
    simp only [runT]
    exact add_faithful (faithful_runT coded env henv a wa ha) (faithful_runT coded env henv b wb hb) hi ho hdi hdo
  | .sub a b, hw, hh => by
    simp only [wfT, Bool.and_eq_true, decide_eq_true_eq] at hw
    simp only [homog, Bool.and_eq_true, decide_eq_true_eq] at hh
    obtain ⟨⟨⟨wa, wb⟩, hi⟩, ho⟩ := hw
    obtain ⟨⟨⟨ha, hb⟩, hdi⟩, hdo⟩ := hh
    simp only [runT]
    exact add_faithful (faithful_runT coded env henv a wa ha) (faithful_runT coded env henv b wb hb) hi ho hdi hdo
  | .neg a, hw, hh => by
    simp only [wfT] at hw
    simp only [homog] at hh
    simp only [runT]
    exact smul_faithful (faithful_runT coded env henv a hw hh) _
  | .smul k a, hw, hh => by
    simp only [wfT] at hw
    simp only [homog] at hh
    simp only [runT]
    exact smul_faithful (faithful_runT coded env henv a hw hh) _
  | .sdiv k a, hw, hh => by
    simp only [wfT] at hw
    simp only [homog] at hh
    simp only [runT]
    exact smul_faithful (faithful_runT coded env henv a hw hh) _
  | .comp a b, hw, hh => by
    simp only [wfT, Bool.and_eq_true, decide_eq_true_eq] at hw
    simp only [homog, Bool.and_eq_true] at hh
    obtain ⟨⟨⟨wa, wb⟩, hs⟩, hd⟩ := hw
    simp only [runT]
    exact comp_faithful (faithful_runT coded env henv a wa hh.1) (faithful_runT coded env henv b wb hh.2) hs hd
  | .tr a, hw, hh => by
    simp only [wfT] at hw
    simp only [homog, Bool.and_eq_true, Bool.or_eq_true, Bool.not_eq_true', decide_eq_true_eq] at hh
    have ih := faithful_runT coded env henv a hw hh.1
    simp only [runT]
    cases coded with
    | false => simpa using tr_faithful ih
    | true =>
      simp only [if_true]
      apply trCoded_faithful ih
      rcases hh.2 with (h | h) | h
      · cases h
      · exact Or.inl h
      · exact Or.inr h
  | .herm a, hw, hh => by
    simp only [wfT] at hw
    simp only [homog] at hh
    simp only [runT]
    exact herm_faithful (faithful_runT coded env henv a hw hh)
  | .cj a, hw, hh => by
    simp only [wfT] at hw
    simp only [homog] at hh
    simp only [runT]
    exact cj_faithful (faithful_runT coded env henv a hw hh)
  | .gram a, hw, hh => by
    simp only [wfT] at hw
    simp only [homog] at hh
    simp only [runT]
    exact gram_faithful (faithful_runT coded env henv a hw hh)
  | .vone a, hw, hh => by
    simp only [wfT, Bool.and_eq_true] at hw
    simp only [homog] at hh
    simp only [runT]
    exact vone_faithful (faithful_runT coded env henv a hw.1 hh) hw.2
  | .vcons a s, hw, hh => by
    simp only [wfT, Bool.and_eq_true, decide_eq_true_eq] at hw
    simp only [homog, Bool.and_eq_true] at hh
    obtain ⟨⟨⟨⟨⟨⟨wa, ws⟩, hc⟩, ho⟩, hi⟩, hdi⟩, hdo⟩ := hw
    simp only [runT]
    exact vcons_faithful (faithful_runT coded env henv a wa hh.1) (faithful_runT coded env henv s ws hh.2) ho
      (vchain_osh coded env hc) hi hdi hdo
  | .vfin s, hw, hh => by
    simp only [wfT, Bool.and_eq_true] at hw
    simp only [homog] at hh
    simp only [runT]
    exact vfin_faithful (faithful_runT coded env henv s hw.1 hh)
  | .done a, hw, hh => by
    simp only [wfT, Bool.and_eq_true] at hw
    simp only [homog] at hh
    simp only [runT]
    exact done_faithful (faithful_runT coded env henv a hw.1.1 hh) hw.1.2 hw.2
  | .dcons a s, hw, hh => by
    simp only [wfT, Bool.and_eq_true, decide_eq_true_eq] at hw
    simp only [homog, Bool.and_eq_true] at hh
    obtain ⟨⟨⟨⟨⟨⟨wa, ws⟩, hc⟩, hi⟩, ho⟩, hdi⟩, hdo⟩ := hw
    simp only [runT]
    exact dcons_faithful (faithful_runT coded env henv a wa hh.1) (faithful_runT coded env henv s ws hh.2) hi ho
      (dchain_shapes coded env hc).1 (dchain_shapes coded env hc).2 hdi hdo
  | .dfin ci co s, hw, hh => by
    simp only [wfT, Bool.and_eq_true] at hw
    simp only [homog] at hh
    simp only [runT]
    exact dfin_faithful (faithful_runT coded env henv s hw.1 hh) ci co
  | .drep k ia oa a, hw, hh => by
    simp only [wfT, Bool.and_eq_true] at hw
    simp only [homog] at hh
    simp only [runT]
    exact drep_faithful (faithful_runT coded env henv a hw.1.1.1.1.1 hh) k ia oa

/-! ### the guard rejects everything else -/

theorem adjC_rejects {A : TOp} (hg : A.guard = true) {y : Ty} (h : y.dt ≠ A.odt ∨ y.sh ≠ A.osh) :
    ∃ e, A.adjC y = .error e := by
  unfold TOp.adjC
  by_cases hd : y.dt = A.odt
  · have hs : y.sh ≠ A.osh := by
      rcases h with h | h
      · exact absurd hd h
      · exact h
    simp [hg, hd, hs]
  · exact ⟨.dtype, by simp [hg, hd]⟩

/-! ### the excluded case is necessary -/

/-- `A ± B` with `A.output_dtype ≠ B.output_dtype`: `adj` raises for EVERY array `y` -/
theorem add_mixed_adj_fails {A B : TOp} (hgA : A.guard = true) (hgB : B.guard = true) (hd : A.odt ≠ B.odt) (y : Ty) :
    ∃ e, (TOp.add A B).adjC y = .error e := by
  by_cases hc : y.dt = DT.promote A.odt B.odt ∧ y.sh = A.osh
  · obtain ⟨h1, h2⟩ := hc
    have hg : (TOp.add A B).guard = true := rfl
    have ho : (TOp.add A B).odt = DT.promote A.odt B.odt := rfl
    have hs : (TOp.add A B).osh = A.osh := rfl
    unfold TOp.adjC
    rw [hg, ho, hs]
    simp only [h1, h2, ne_eq, not_true_eq_false, decide_false, Bool.and_false, Bool.false_eq_true, if_false, if_true]
    have key : ∃ e, (TOp.add A B).adjT y = .error e := by
      show ∃ e, andThen (A.adjC y) _ = .error e
      by_cases ha : y.dt = A.odt
      · -- then `y.dt ≠ B.odt`: the second operand's guard raises (or the first one's closure did)
        have hb : y.dt ≠ B.odt := fun hb => hd (ha.symm.trans hb)
        have eB : B.adjC y = .error .dtype := by simp [TOp.adjC, hgB, hb]
        cases hA : A.adjC y with
        | error e => exact ⟨e, rfl⟩
        | ok a => exact ⟨.dtype, by simp [eB]⟩
      · exact ⟨.dtype, by simp [TOp.adjC, hgA, ha]⟩
    obtain ⟨e, he⟩ := key
    exact ⟨e, by rw [he]; rfl⟩
  · apply adjC_rejects rfl
    by_cases h1 : y.dt = DT.promote A.odt B.odt
    · right
      intro h2
      exact hc ⟨h1, h2⟩
    · left
      exact h1

/-- for the conforming `y` the error is the dtype error of an operand's guard -/
theorem add_mixed_adj_dtype_error {A B : TOp} (hA : Faithful A) (hgA : A.guard = true) (hgB : B.guard = true)
    (hd : A.odt ≠ B.odt) :
    (TOp.add A B).adjC ⟨(TOp.add A B).odt, (TOp.add A B).osh⟩ = .error .dtype := by
  have ho : (TOp.add A B).odt = DT.promote A.odt B.odt := rfl
  have hs : (TOp.add A B).osh = A.osh := rfl
  unfold TOp.adjC
  rw [show (TOp.add A B).guard = true from rfl]
  simp only [ne_eq, not_true_eq_false, decide_false, Bool.and_false, Bool.false_eq_true, if_false, if_true]
  rw [ho, hs]
  have key : (TOp.add A B).adjT ⟨DT.promote A.odt B.odt, A.osh⟩ = .error .dtype := by
    show andThen (A.adjC ⟨DT.promote A.odt B.odt, A.osh⟩) _ = _
    by_cases ha : DT.promote A.odt B.odt = A.odt
    · rw [ha, hA.adjC_ok]
      simp only [andThen_ok]
      have hb : A.odt ≠ B.odt := hd
      simp [TOp.adjC, hgB, hb]
    · simp [TOp.adjC, hgA, ha]
  rw [key]
  rfl

/-- operands that agree on the output dtype but not on the input dtype: `adj` returns an array that is not of the
    declared input dtype (so the sum cannot be composed, transposed, …) -/
theorem add_mixed_input_unfaithful {A B : TOp} (hA : Faithful A) (hB : Faithful B) (hi : A.ish = B.ish)
    (ho : A.osh = B.osh) (hdo : A.odt = B.odt) (hdi : DT.promote A.idt B.idt ≠ A.idt) :
    ∃ d, d ≠ (TOp.add A B).idt ∧
      (TOp.add A B).adjC ⟨(TOp.add A B).odt, (TOp.add A B).osh⟩ = .ok ⟨d, (TOp.add A B).ish⟩ := by
  refine ⟨DT.promote A.idt B.idt, hdi, ?_⟩
  unfold TOp.adjC
  rw [show (TOp.add A B).guard = true from rfl]
  simp only [ne_eq, not_true_eq_false, decide_false, Bool.and_false, Bool.false_eq_true, if_false, if_true]
  have key : (TOp.add A B).adjT ⟨(TOp.add A B).odt, (TOp.add A B).osh⟩ = .ok ⟨DT.promote A.idt B.idt, (TOp.add A B).ish⟩ := by
    show andThen (A.adjC ⟨DT.promote A.odt B.odt, A.osh⟩) _ = _
    rw [← hdo, DT.promote_self, hA.adjC_ok]
    simp only [andThen_ok]
    dsimp only [TOp.add]
    rw [← hdo, DT.promote_self, hdo, ho, hB.adjC_ok]
    simp [tadd, hi]
  rw [key]
  exact sealBlk_ok (t := ⟨DT.promote A.idt B.idt, (TOp.add A B).ish⟩) hA.ish_nh

/-- `.T` as coded, operand with complex input dtype ≠ output dtype: the transpose cannot even be evaluated on a
    conforming input, and `adj` of its Hermitian transpose raises the dtype error for the conforming `y` -/
theorem trCoded_mixed_fails {A : TOp} (hg : A.guard = true) (hc : A.idt.cplx = true) (hd : A.idt ≠ A.odt) :
    (TOp.trCoded A).call ⟨(TOp.trCoded A).idt, (TOp.trCoded A).ish⟩ = .error .dtype
      ∧ (TOp.herm (TOp.trCoded A)).adjC ⟨(TOp.herm (TOp.trCoded A)).odt, (TOp.herm (TOp.trCoded A)).osh⟩ = .error .dtype := by
  have e : TOp.trCoded A
      = { ish := A.osh, osh := A.ish, idt := A.idt, odt := A.odt, guard := true, evalT := A.adjC, adjT := A.call } := by
    unfold TOp.trCoded
    rw [if_pos hc]
  have key : A.adjC ⟨A.idt, A.osh⟩ = .error .dtype := by simp [TOp.adjC, hg, hd]
  rw [e]
  constructor
  · simp [TOp.call, key]
  · simp [TOp.adjC, TOp.herm, TOp.call, key, hg, hd]

/-! ### concrete leaves for the non-vacuity examples and the negation witnesses -/

/-- a leaf that behaves as declared (any scico class on its own dtypes) -/
def stdLeaf (ish osh : Shp) (idt odt : DT) (g : Bool) : TOp where
  ish := ish
  osh := osh
  idt := idt
  odt := odt
  guard := g
  evalT := fun _ => .ok ⟨odt, osh⟩
  adjT := fun _ => .ok ⟨idt, ish⟩

theorem stdLeaf_faithful (ish osh : Shp) (idt odt : DT) (g : Bool) (hi : TOp.isHet ish = false := by rfl)
    (ho : TOp.isHet osh = false := by rfl) : Faithful (stdLeaf ish osh idt odt g) :=
  ⟨rfl, rfl, hi, ho⟩

/-- the environment of the recorded witness `mixed-operand-dtypes`:
    0 = SingleAxisFiniteDifference((3,), float64, circular=True), 1 = MatrixOperator(complex128 3×3),
    2 = a float64 → complex128 operator on the same shapes, 3 = a complex128 → float64 operator (2,) → (3,) -/
def witnessEnv : Nat → TOp
  | 0 => stdLeaf (.arr [3]) (.arr [3]) .f64 .f64 true
  | 1 => stdLeaf (.arr [3]) (.arr [3]) .c128 .c128 false
  | 2 => stdLeaf (.arr [3]) (.arr [3]) .f64 .c128 true
  | _ => stdLeaf (.arr [2]) (.arr [3]) .c128 .f64 true

theorem witnessEnv_faithful : ∀ i, Faithful (witnessEnv i)
  | 0 => stdLeaf_faithful ..
  | 1 => stdLeaf_faithful ..
  | 2 => stdLeaf_faithful ..
  | _ + 3 => stdLeaf_faithful ..

end Scico.Adjoint
