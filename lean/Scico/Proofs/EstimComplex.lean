/-
  `power_iteration` on a complex inner-product space (`ℂⁿ` with `⟨v,w⟩ = Σ conj(vᵢ) wᵢ`): the complex Rayleigh quotient is
  bounded by the operator norm in modulus, is real for a Hermitian operator, and is exactly 0 for the zero operator.
-/
import Scico.Model.Estim
import Mathlib.Analysis.InnerProductSpace.Basic
import Mathlib.Analysis.Normed.Operator.Basic

set_option linter.unusedSectionVars false

namespace Scico.Estim

variable {E : Type} [NormedAddCommGroup E] [InnerProductSpace ℂ E]

/-- the operations of `power_iteration` on complex arrays, for a bounded ℂ-linear operator -/
noncomputable def opsOfC (B : E →L[ℂ] E) : VOpsC E ℂ ℝ where
  apply := fun v => B v
  inner := fun a b => inner ℂ a b
  norm := fun v => ‖v‖
  sdiv := fun v c => ((c⁻¹ : ℝ) : ℂ) • v
  cdivr := fun z r => z / (r : ℂ)

/-- complex Rayleigh quotient as the code computes it -/
noncomputable def rqC (B : E →L[ℂ] E) (v : E) : ℂ := inner ℂ v (B v) / ((‖v‖ * ‖v‖ : ℝ) : ℂ)

noncomputable def nxtC (B : E →L[ℂ] E) (v : E) : E := ((‖B v‖⁻¹ : ℝ) : ℂ) • B v

theorem powerLoopC_succ_zero (B : E →L[ℂ] E) (k : Nat) (mu : Option ℂ) (v : E) (h : B v = 0) :
    powerLoopC (opsOfC B) (k + 1) mu v = (some 0, B v) := by
  have hn : (opsOfC B).norm ((opsOfC B).apply v) = 0 := by show ‖B v‖ = 0; rw [h, norm_zero]
  show (if (opsOfC B).norm ((opsOfC B).apply v) ≤ 0 ∧ 0 ≤ (opsOfC B).norm ((opsOfC B).apply v) then _ else _) = _
  rw [hn, if_pos ⟨le_refl _, le_refl _⟩]
  rfl

theorem powerLoopC_succ_ne (B : E →L[ℂ] E) (k : Nat) (mu : Option ℂ) (v : E) (h : B v ≠ 0) :
    powerLoopC (opsOfC B) (k + 1) mu v = powerLoopC (opsOfC B) k (some (rqC B v)) (nxtC B v) := by
  have hpos : 0 < (opsOfC B).norm ((opsOfC B).apply v) := by show 0 < ‖B v‖; exact norm_pos_iff.2 h
  show (if (opsOfC B).norm ((opsOfC B).apply v) ≤ 0 ∧ 0 ≤ (opsOfC B).norm ((opsOfC B).apply v) then _ else _) = _
  rw [if_neg (fun hh => absurd hh.1 (not_le.2 hpos))]
  rfl

theorem nxtC_ne_zero (B : E →L[ℂ] E) (v : E) (h : B v ≠ 0) : nxtC B v ≠ 0 := by
  unfold nxtC
  refine smul_ne_zero ?_ h
  exact_mod_cast inv_ne_zero (norm_ne_zero_iff.2 h)

/-- every value the loop leaves in `mu` satisfies `P`, if `0`, the incoming one and all Rayleigh quotients do -/
theorem powerLoopC_pred (B : E →L[ℂ] E) (P : ℂ → Prop) (hP0 : P 0) (hP : ∀ v, v ≠ 0 → P (rqC B v)) :
    ∀ (k : Nat) (mu : Option ℂ) (v : E), v ≠ 0 → (∀ m, mu = some m → P m) →
      ∀ m, (powerLoopC (opsOfC B) k mu v).1 = some m → P m := by
  intro k
  induction k with
  | zero => intro mu v _ hmu m hm; exact hmu m (by simpa [powerLoopC] using hm)
  | succ k ih =>
    intro mu v hv _ m hm
    by_cases h : B v = 0
    · rw [powerLoopC_succ_zero B k mu v h] at hm
      simp only [Option.some.injEq] at hm
      rw [← hm]; exact hP0
    · rw [powerLoopC_succ_ne B k mu v h] at hm
      refine ih (some (rqC B v)) (nxtC B v) (nxtC_ne_zero B v h) ?_ m hm
      intro m' hm'
      simp only [Option.some.injEq] at hm'
      rw [← hm']; exact hP v hv

theorem norm_rqC_le (B : E →L[ℂ] E) (v : E) (hv : v ≠ 0) : ‖rqC B v‖ ≤ ‖B‖ := by
  unfold rqC
  have hn : 0 < ‖v‖ := norm_pos_iff.2 hv
  have hnn : 0 < ‖v‖ * ‖v‖ := mul_pos hn hn
  rw [norm_div, Complex.norm_real, Real.norm_eq_abs, abs_of_pos hnn, div_le_iff₀ hnn]
  calc ‖inner ℂ v (B v)‖ ≤ ‖v‖ * ‖B v‖ := norm_inner_le_norm _ _
    _ ≤ ‖v‖ * (‖B‖ * ‖v‖) := by gcongr; exact B.le_opNorm v
    _ = ‖B‖ * (‖v‖ * ‖v‖) := by ring

/-- for a Hermitian operator the Rayleigh quotient is real -/
theorem rqC_im_eq_zero (B : E →L[ℂ] E) (hB : ∀ x y, inner ℂ (B x) y = inner ℂ x (B y)) (v : E) : (rqC B v).im = 0 := by
  unfold rqC
  have h1 : (inner ℂ v (B v) : ℂ).im = 0 := by
    have := inner_conj_symm (𝕜 := ℂ) v (B v)
    rw [hB v v] at this
    have h2 := congrArg Complex.im this
    simp only [Complex.conj_im] at h2
    linarith
  rw [Complex.div_ofReal_im, h1, zero_div]

theorem powerIterationC_ok (B : E →L[ℂ] E) (maxiter : Nat) (v0 : E) (mu : ℂ) (v : E)
    (h : powerIterationC (opsOfC B) maxiter v0 = .ok (mu, v)) :
    1 ≤ maxiter ∧ (powerLoopC (opsOfC B) maxiter none (((‖v0‖⁻¹ : ℝ) : ℂ) • v0)).1 = some mu := by
  unfold powerIterationC at h
  split at h
  · cases h
  · rename_i hlt
    dsimp only at h
    split at h
    · rename_i m v' hp
      simp only [Except.ok.injEq, Prod.mk.injEq] at h
      obtain ⟨rfl, _⟩ := h
      refine ⟨by omega, ?_⟩
      have : (opsOfC B).sdiv v0 ((opsOfC B).norm v0) = ((‖v0‖⁻¹ : ℝ) : ℂ) • v0 := rfl
      rw [← this, hp]
    · cases h

theorem normalizeC_ne_zero (v0 : E) (h : v0 ≠ 0) : ((‖v0‖⁻¹ : ℝ) : ℂ) • v0 ≠ 0 := by
  refine smul_ne_zero ?_ h
  exact_mod_cast inv_ne_zero (norm_ne_zero_iff.2 h)

end Scico.Estim
