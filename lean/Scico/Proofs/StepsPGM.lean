/-
  Proofs/StepsPGM — property C03, part 2: the quantities that theory says are monotone for the
  proximal gradient method, the linear rate for strongly convex `f`, and the FISTA momentum sequence.

  `T_L x = prox_{g/L}(x − (1/L)∇f(x))` is one documented PGM step (`pgmSpecStep`).
  Hypotheses on `f` are the two standard consequences of "∇f is L-Lipschitz and f convex":
    * co-coercivity  `(1/L)‖∇f x − ∇f y‖² ≤ ⟪∇f x − ∇f y, x − y⟫`,
    * the descent lemma `f y ≤ f x + ⟪∇f x, y − x⟫ + (L/2)‖y − x‖²`,
  both proved below for quadratics `f x = ½⟪Hx,x⟫ − ⟪b,x⟫` with `H` self-adjoint, `0 ≤ H ≤ L`
  (the weighted squared-ℓ2 loss `α‖Ax − y‖²_W` has `H = 2α AᴴWA`).
-/
import Scico.Model.Steps
import Scico.Proofs.StepsConvex
import Scico.Proofs.StepsFixed
import Mathlib.Analysis.SpecificLimits.Basic
import Mathlib.Tactic.Abel

set_option linter.unusedSectionVars false

namespace Scico.Steps

variable {E : Type} [NormedAddCommGroup E] [InnerProductSpace ℝ E]

local notation "⟪" x ", " y "⟫" => inner ℝ x y

/-- `(1/L)‖∇f x − ∇f y‖² ≤ ⟪∇f x − ∇f y, x − y⟫` -/
def CoCoercive (grad : E → E) (L : ℝ) : Prop :=
  ∀ x y, 1 / L * ‖grad x - grad y‖ ^ 2 ≤ ⟪grad x - grad y, x - y⟫

/-- `f y ≤ f x + ⟪∇f x, y − x⟫ + (L/2)‖y − x‖²` -/
def DescentLemma (f : E → ℝ) (grad : E → E) (L : ℝ) : Prop :=
  ∀ x y, f y ≤ f x + ⟪grad x, y - x⟫ + L / 2 * ‖y - x‖ ^ 2

/-- `m‖x − y‖² ≤ ⟪∇f x − ∇f y, x − y⟫` (strong convexity of `f`) -/
def StronglyMonotone (grad : E → E) (m : ℝ) : Prop :=
  ∀ x y, m * ‖x - y‖ ^ 2 ≤ ⟪grad x - grad y, x - y⟫

/-- the forward (gradient) step is non-expansive, and contracts by `1 − m/L` (squared) under strong
    monotonicity (`m = 0` is always allowed) -/
theorem forward_step_sq {grad : E → E} {L m : ℝ} (hL : 0 < L) (hco : CoCoercive grad L)
    (hm : StronglyMonotone grad m) (x y : E) :
    ‖(x - L⁻¹ • grad x) - (y - L⁻¹ • grad y)‖ ^ 2 ≤ (1 - m / L) * ‖x - y‖ ^ 2 := by
  have e : (x - L⁻¹ • grad x) - (y - L⁻¹ • grad y) = (x - y) - L⁻¹ • (grad x - grad y) := by
    rw [smul_sub]; abel
  rw [e, norm_sub_sq_real, inner_smul_right, norm_smul, mul_pow, Real.norm_eq_abs, sq_abs]
  have h1 := hco x y
  have h2 := hm x y
  rw [real_inner_comm] at h1 h2
  have hLi : 0 < L⁻¹ := inv_pos.2 hL
  -- L⁻²‖Δ‖² ≤ L⁻¹⟪d,Δ⟫  and  (m/L)‖d‖² ≤ L⁻¹⟪d,Δ⟫
  have h3 : L⁻¹ ^ 2 * ‖grad x - grad y‖ ^ 2 ≤ L⁻¹ * ⟪x - y, grad x - grad y⟫ := by
    have := mul_le_mul_of_nonneg_left h1 hLi.le
    have e2 : L⁻¹ * (1 / L * ‖grad x - grad y‖ ^ 2) = L⁻¹ ^ 2 * ‖grad x - grad y‖ ^ 2 := by
      rw [one_div]; ring
    linarith
  have h4 : m / L * ‖x - y‖ ^ 2 ≤ L⁻¹ * ⟪x - y, grad x - grad y⟫ := by
    have := mul_le_mul_of_nonneg_left h2 hLi.le
    have e2 : L⁻¹ * (m * ‖x - y‖ ^ 2) = m / L * ‖x - y‖ ^ 2 := by
      rw [div_eq_mul_inv]; ring
    linarith
  nlinarith

theorem stronglyMonotone_zero_of_coco {grad : E → E} {L : ℝ} (hL : 0 < L) (hco : CoCoercive grad L) :
    StronglyMonotone grad 0 := by
  intro x y
  have := hco x y
  have : 0 ≤ 1 / L * ‖grad x - grad y‖ ^ 2 := by positivity
  linarith [hco x y]

/-- one proximal-gradient step -/
noncomputable def pgStep (grad : E → E) (prox : ℝ → E → E) (L : ℝ) (x : E) : E := prox L⁻¹ (x - L⁻¹ • grad x)

/-- a KKT point is fixed -/
theorem pgStep_fixed {grad : E → E} {prox : ℝ → E → E} {G : Fn E} (hp : IsProx G prox) {L : ℝ}
    (hL : 0 < L) {xs : E} (h : G.Subgrad xs (-(grad xs))) : pgStep grad prox L xs = xs := by
  unfold pgStep
  apply hp.fixed' (inv_pos.2 hL) h
  rw [smul_neg, sub_eq_add_neg]

/-- distance to any minimiser does not increase; it contracts for strongly convex `f` -/
theorem pgStep_dist_sq {grad : E → E} {prox : ℝ → E → E} {G : Fn E} (hp : IsProx G prox) {L m : ℝ}
    (hL : 0 < L) (hco : CoCoercive grad L) (hm : StronglyMonotone grad m) {xs : E}
    (h : G.Subgrad xs (-(grad xs))) (x : E) :
    ‖pgStep grad prox L x - xs‖ ^ 2 ≤ (1 - m / L) * ‖x - xs‖ ^ 2 := by
  have hfix := pgStep_fixed hp hL h
  have hne := hp.nonexpansive (inv_pos.2 hL) (x - L⁻¹ • grad x) (xs - L⁻¹ • grad xs)
  have hfw := forward_step_sq hL hco hm x xs
  have e : pgStep grad prox L x - xs = prox L⁻¹ (x - L⁻¹ • grad x) - prox L⁻¹ (xs - L⁻¹ • grad xs) := by
    conv_lhs => rw [← hfix]
    rfl
  rw [e]
  have h0 : 0 ≤ ‖prox L⁻¹ (x - L⁻¹ • grad x) - prox L⁻¹ (xs - L⁻¹ • grad xs)‖ := norm_nonneg _
  calc ‖prox L⁻¹ (x - L⁻¹ • grad x) - prox L⁻¹ (xs - L⁻¹ • grad xs)‖ ^ 2
      ≤ ‖(x - L⁻¹ • grad x) - (xs - L⁻¹ • grad xs)‖ ^ 2 := by
        apply pow_le_pow_left₀ h0 hne
    _ ≤ (1 - m / L) * ‖x - xs‖ ^ 2 := hfw

theorem pgStep_dist {grad : E → E} {prox : ℝ → E → E} {G : Fn E} (hp : IsProx G prox) {L : ℝ}
    (hL : 0 < L) (hco : CoCoercive grad L) {xs : E} (h : G.Subgrad xs (-(grad xs))) (x : E) :
    ‖pgStep grad prox L x - xs‖ ≤ ‖x - xs‖ := by
  have := pgStep_dist_sq hp hL hco (stronglyMonotone_zero_of_coco hL hco) h x
  simp only [zero_div, sub_zero, one_mul] at this
  exact (pow_le_pow_iff_left₀ (norm_nonneg _) (norm_nonneg _) two_ne_zero).1 this

/-- sufficient decrease of the objective: `F(x⁺) ≤ F(x) − (L/2)‖x⁺ − x‖²` -/
theorem pgStep_objective {f : E → ℝ} {grad : E → E} {prox : ℝ → E → E} {G : Fn E} (hp : IsProx G prox)
    {L : ℝ} (hL : 0 < L) (hd : DescentLemma f grad L) {x : E} (hx : x ∈ G.dom) :
    f (pgStep grad prox L x) + G.val (pgStep grad prox L x)
      ≤ f x + G.val x - L / 2 * ‖pgStep grad prox L x - x‖ ^ 2 := by
  set xn := pgStep grad prox L x with hxn
  have hs := hp L⁻¹ (inv_pos.2 hL) (x - L⁻¹ • grad x)
  have hs' : G.Subgrad xn ((1 / L⁻¹) • (x - L⁻¹ • grad x - xn)) := hs
  have h1 := hs'.2 x hx
  have h2 := hd x xn
  rw [one_div, inv_inv, inner_smul_left] at h1
  simp only [RCLike.conj_to_real] at h1
  have e : ⟪x - L⁻¹ • grad x - xn, x - xn⟫ = ‖x - xn‖ ^ 2 - L⁻¹ * ⟪grad x, x - xn⟫ := by
    have : x - L⁻¹ • grad x - xn = (x - xn) - L⁻¹ • grad x := by abel
    rw [this, inner_sub_left, real_inner_self_eq_norm_sq, inner_smul_left]
    simp
  rw [e] at h1
  have e2 : L * (‖x - xn‖ ^ 2 - L⁻¹ * ⟪grad x, x - xn⟫) = L * ‖x - xn‖ ^ 2 - ⟪grad x, x - xn⟫ := by
    field_simp
  rw [e2] at h1
  have e3 : ⟪grad x, xn - x⟫ = -⟪grad x, x - xn⟫ := by
    rw [← inner_neg_right]; congr 1; abel
  have e4 : ‖xn - x‖ = ‖x - xn‖ := norm_sub_rev _ _
  rw [e3, e4] at h2
  rw [e4]
  linarith

/-! ### along `pgmSpecStep` with the base step-size object (`L` constant) -/

structure PGMHyp (p : PGMParams Unit ℝ E) (G : Fn E) (L : ℝ) : Prop where
  pol : ∃ z0, p.pol = basePolicy z0
  prox : IsProx G p.proxg
  Lpos : 0 < L
  coco : CoCoercive p.gradf L

theorem pgmSpec_x (p : PGMParams Unit ℝ E) {G : Fn E} {L : ℝ} (h : PGMHyp p G L) (s : PGMState Unit ℝ E)
    (hsL : s.L = L) :
    (pgmSpecStep p s).x = pgStep p.gradf p.proxg L s.x ∧ (pgmSpecStep p s).L = L := by
  obtain ⟨z0, hz⟩ := h.pol
  have hu : p.pol.update s.mem s.L s.x s.x = (s.L, s.mem) := by rw [hz]; rfl
  subst hsL
  unfold pgmSpecStep pgStep
  simp only [hu, and_self]

theorem pgm_iter_L (p : PGMParams Unit ℝ E) {G : Fn E} {L : ℝ} (h : PGMHyp p G L) :
    ∀ (k : Nat) (s : PGMState Unit ℝ E), s.L = L → (iter (pgmSpecStep p) k s).L = L := by
  intro k
  induction k with
  | zero => intro s hs; exact hs
  | succ k ih => intro s hs; exact ih _ (pgmSpec_x p h s hs).2

/-- distance to a minimiser is non-increasing along the whole trajectory -/
theorem pgm_traj_dist (p : PGMParams Unit ℝ E) {G : Fn E} {L : ℝ} (h : PGMHyp p G L) {xs : E}
    (hk : G.Subgrad xs (-(p.gradf xs))) (s : PGMState Unit ℝ E) (hsL : s.L = L) (k : Nat) :
    ‖(iter (pgmSpecStep p) (k + 1) s).x - xs‖ ≤ ‖(iter (pgmSpecStep p) k s).x - xs‖ := by
  induction k generalizing s with
  | zero =>
    simp only [iter]
    rw [(pgmSpec_x p h s hsL).1]
    exact pgStep_dist h.prox h.Lpos h.coco hk s.x
  | succ k ih =>
    have := ih (pgmSpecStep p s) (pgmSpec_x p h s hsL).2
    simpa [iter] using this

/-- linear rate for strongly convex `f`: `‖x_k − x*‖² ≤ (1 − m/L)^k ‖x_0 − x*‖²` for every `k` and every start -/
theorem pgm_linear_rate (p : PGMParams Unit ℝ E) {G : Fn E} {L m : ℝ} (h : PGMHyp p G L)
    (hm : StronglyMonotone p.gradf m) (hmL : m ≤ L) {xs : E} (hk : G.Subgrad xs (-(p.gradf xs)))
    (s : PGMState Unit ℝ E) (hsL : s.L = L) (k : Nat) :
    ‖(iter (pgmSpecStep p) k s).x - xs‖ ^ 2 ≤ (1 - m / L) ^ k * ‖s.x - xs‖ ^ 2 := by
  have hq : 0 ≤ 1 - m / L := by
    have : m / L ≤ 1 := (div_le_one h.Lpos).2 hmL
    linarith
  induction k generalizing s with
  | zero => simp [iter]
  | succ k ih =>
    have h1 := ih (pgmSpecStep p s) (pgmSpec_x p h s hsL).2
    have h2 := pgStep_dist_sq h.prox h.Lpos h.coco hm hk s.x
    rw [← (pgmSpec_x p h s hsL).1] at h2
    simp only [iter]
    calc ‖(iter (pgmSpecStep p) k (pgmSpecStep p s)).x - xs‖ ^ 2
        ≤ (1 - m / L) ^ k * ‖(pgmSpecStep p s).x - xs‖ ^ 2 := h1
      _ ≤ (1 - m / L) ^ k * ((1 - m / L) * ‖s.x - xs‖ ^ 2) :=
          mul_le_mul_of_nonneg_left h2 (pow_nonneg hq k)
      _ = (1 - m / L) ^ (k + 1) * ‖s.x - xs‖ ^ 2 := by ring

/-- convergence to the minimiser from every start -/
theorem pgm_converges (p : PGMParams Unit ℝ E) {G : Fn E} {L m : ℝ} (h : PGMHyp p G L)
    (hm : StronglyMonotone p.gradf m) (hm0 : 0 < m) (hmL : m ≤ L) {xs : E}
    (hk : G.Subgrad xs (-(p.gradf xs))) (s : PGMState Unit ℝ E) (hsL : s.L = L) :
    Filter.Tendsto (fun k => (iter (pgmSpecStep p) k s).x) Filter.atTop (nhds xs) := by
  have hq0 : 0 ≤ 1 - m / L := by
    have : m / L ≤ 1 := (div_le_one h.Lpos).2 hmL
    linarith
  have hq1 : 1 - m / L < 1 := by
    have : 0 < m / L := div_pos hm0 h.Lpos
    linarith
  have hpow := tendsto_pow_atTop_nhds_zero_of_lt_one hq0 hq1
  have hb : Filter.Tendsto (fun k => (1 - m / L) ^ k * ‖s.x - xs‖ ^ 2) Filter.atTop (nhds 0) := by
    have := hpow.mul_const (‖s.x - xs‖ ^ 2)
    simpa using this
  have hsq : Filter.Tendsto (fun k => ‖(iter (pgmSpecStep p) k s).x - xs‖ ^ 2) Filter.atTop (nhds 0) :=
    squeeze_zero (fun k => by positivity) (fun k => pgm_linear_rate p h hm hmL hk s hsL k) hb
  rw [tendsto_iff_norm_sub_tendsto_zero]
  have hs := (Real.continuous_sqrt.tendsto 0).comp hsq
  rw [Real.sqrt_zero] at hs
  refine hs.congr (fun k => ?_)
  simp only [Function.comp]
  exact Real.sqrt_sq (norm_nonneg _)

/-- the minimiser of a strongly convex problem is unique -/
theorem pgm_kkt_unique {grad : E → E} {prox : ℝ → E → E} {G : Fn E} (hp : IsProx G prox) {L m : ℝ}
    (hL : 0 < L) (hco : CoCoercive grad L) (hm : StronglyMonotone grad m) (hm0 : 0 < m) {xs ys : E}
    (h1 : G.Subgrad xs (-(grad xs))) (h2 : G.Subgrad ys (-(grad ys))) : xs = ys := by
  have h := pgStep_dist_sq hp hL hco hm h2 xs
  rw [pgStep_fixed hp hL h1] at h
  have hq : 0 < m / L := div_pos hm0 hL
  have h0 : 0 ≤ ‖xs - ys‖ ^ 2 := by positivity
  have : ‖xs - ys‖ ^ 2 ≤ 0 := by nlinarith
  have : ‖xs - ys‖ = 0 := by
    have := le_antisymm this h0
    exact pow_eq_zero_iff two_ne_zero |>.1 this
  exact sub_eq_zero.1 (norm_eq_zero.1 this)

/-! ### quadratics satisfy the hypotheses -/

/-- Cauchy–Schwarz for a positive semi-definite symmetric form -/
theorem psd_cauchy_schwarz (H : E → E) (hadd : ∀ x y, H (x + y) = H x + H y)
    (hsmul : ∀ (c : ℝ) x, H (c • x) = c • H x) (hsym : ∀ x y, ⟪H x, y⟫ = ⟪x, H y⟫)
    (hpsd : ∀ x, 0 ≤ ⟪H x, x⟫) (a b : E) : ⟪H a, b⟫ ^ 2 ≤ ⟪H a, a⟫ * ⟪H b, b⟫ := by
  have key : ∀ t : ℝ, 0 ≤ ⟪H b, b⟫ * (t * t) + 2 * ⟪H a, b⟫ * t + ⟪H a, a⟫ := by
    intro t
    have := hpsd (a + t • b)
    rw [hadd, hsmul, inner_add_left, inner_add_right, inner_add_right, inner_smul_left, inner_smul_right,
      inner_smul_right, inner_smul_left] at this
    simp only [RCLike.conj_to_real] at this
    have e : ⟪H b, a⟫ = ⟪H a, b⟫ := by rw [hsym, real_inner_comm]
    rw [e] at this
    nlinarith
  have := discrim_le_zero key
  unfold discrim at this
  nlinarith

/-- `∇f = H· − b` with `H` symmetric, `0 ≤ H ≤ L`, is co-coercive with constant `L` -/
theorem quad_coco (H : E → E) (b : E) (hadd : ∀ x y, H (x + y) = H x + H y)
    (hsmul : ∀ (c : ℝ) x, H (c • x) = c • H x) (hsym : ∀ x y, ⟪H x, y⟫ = ⟪x, H y⟫)
    (hpsd : ∀ x, 0 ≤ ⟪H x, x⟫) {L : ℝ} (hL : 0 < L) (hbd : ∀ x, ⟪H x, x⟫ ≤ L * ‖x‖ ^ 2) :
    CoCoercive (fun x => H x - b) L := by
  intro x y
  have hsub : H x - b - (H y - b) = H (x - y) := by
    have h1 : H x = H (x - y) + H y := by rw [← hadd]; congr 1; abel
    rw [h1]; abel
  simp only [hsub]
  set d := x - y
  have cs := psd_cauchy_schwarz H hadd hsmul hsym hpsd d (H d)
  rw [real_inner_self_eq_norm_sq] at cs
  have hb2 := hbd (H d)
  have hn : 0 ≤ ‖H d‖ ^ 2 := by positivity
  have hq := hpsd d
  -- ‖Hd‖⁴ ≤ ⟪Hd,d⟫ · L‖Hd‖²
  by_cases hz : ‖H d‖ ^ 2 = 0
  · rw [hz]; simp only [mul_zero]; exact hq
  · have hpos : 0 < ‖H d‖ ^ 2 := lt_of_le_of_ne hn (Ne.symm hz)
    have h3 : (‖H d‖ ^ 2) ^ 2 ≤ ⟪H d, d⟫ * (L * ‖H d‖ ^ 2) :=
      le_trans cs (mul_le_mul_of_nonneg_left hb2 hq)
    have h4 : ‖H d‖ ^ 2 ≤ ⟪H d, d⟫ * L := by
      have : ‖H d‖ ^ 2 * ‖H d‖ ^ 2 ≤ (⟪H d, d⟫ * L) * ‖H d‖ ^ 2 := by nlinarith
      exact le_of_mul_le_mul_right this hpos
    rw [one_div, inv_mul_le_iff₀ hL]
    linarith

/-- and `f x = ½⟪Hx,x⟫ − ⟪b,x⟫` satisfies the descent lemma with the same constant -/
theorem quad_descent (H : E → E) (b : E) (hadd : ∀ x y, H (x + y) = H x + H y)
    (hsym : ∀ x y, ⟪H x, y⟫ = ⟪x, H y⟫) {L : ℝ} (hbd : ∀ x, ⟪H x, x⟫ ≤ L * ‖x‖ ^ 2) :
    DescentLemma (fun x => 1 / 2 * ⟪H x, x⟫ - ⟪b, x⟫) (fun x => H x - b) L := by
  intro x y
  have hy : y = x + (y - x) := by abel
  set d := y - x
  have e1 : H y = H x + H d := by rw [hy, hadd]
  have hb := hbd d
  simp only
  rw [e1]
  conv_lhs => rw [hy]
  rw [inner_add_left, inner_add_right, inner_add_right, inner_add_right, inner_sub_left]
  have e2 : ⟪H d, x⟫ = ⟪H x, d⟫ := by rw [hsym, real_inner_comm]
  rw [e2]
  nlinarith

/-- strongly convex quadratics: `m ≤ H` gives strong monotonicity of the gradient -/
theorem quad_strong (H : E → E) (b : E) (hadd : ∀ x y, H (x + y) = H x + H y) {m : ℝ}
    (hlb : ∀ x, m * ‖x‖ ^ 2 ≤ ⟪H x, x⟫) : StronglyMonotone (fun x => H x - b) m := by
  intro x y
  have hsub : H x - b - (H y - b) = H (x - y) := by
    have h1 : H x = H (x - y) + H y := by rw [← hadd]; congr 1; abel
    rw [h1]; abel
  simp only [hsub]
  exact hlb (x - y)

/-! ### FISTA momentum sequence -/

attribute [local instance] realHasSqrt

theorem fistaT_ge (t : ℝ) (_ht : 0 ≤ t) : t + 1 / 2 ≤ fistaTImpl t := by
  unfold fistaTImpl
  have h : 2 * t ≤ Real.sqrt (1 + 4 * (t * t)) := by
    apply Real.le_sqrt_of_sq_le
    nlinarith
  show t + 1 / 2 ≤ (1 + Real.sqrt (1 + 4 * (t * t))) / 2
  linarith

/-- the defining identity `t₊² − t₊ = t²` -/
theorem fistaT_identity (t : ℝ) : fistaTImpl t ^ 2 - fistaTImpl t = t ^ 2 := by
  unfold fistaTImpl
  show ((1 + Real.sqrt (1 + 4 * (t * t))) / 2) ^ 2 - (1 + Real.sqrt (1 + 4 * (t * t))) / 2 = t ^ 2
  have h : Real.sqrt (1 + 4 * (t * t)) ^ 2 = 1 + 4 * (t * t) := Real.sq_sqrt (by nlinarith [mul_self_nonneg t])
  nlinarith

theorem apgm_t_step {σ : Type} (p : PGMParams σ ℝ E) (s : APGMState σ ℝ E) (hk : p.pol.kind ≠ .robust) :
    (apgmSpecStep p s).t = fistaTImpl s.t := by
  unfold apgmSpecStep fistaTImpl
  cases hkk : p.pol.kind <;> simp_all

/-- `t_k ≥ t_0 + k/2` along the accelerated iteration; from `t_0 = 1`: `t_k ≥ (k+2)/2` -/
theorem apgm_t_lower {σ : Type} (p : PGMParams σ ℝ E) (hk : p.pol.kind ≠ .robust) (k : Nat) :
    ∀ s : APGMState σ ℝ E, 0 ≤ s.t → s.t + k / 2 ≤ (iter (apgmSpecStep p) k s).t := by
  induction k with
  | zero => intro s _; simp [iter]
  | succ k ih =>
    intro s hs
    have h1 := fistaT_ge s.t hs
    have h2 := ih (apgmSpecStep p s) (by rw [apgm_t_step p s hk]; linarith)
    rw [apgm_t_step p s hk] at h2
    simp only [iter]
    push_cast
    linarith

end Scico.Steps
