/-
  Helper lemmas for the integer shape calculus (`Scico.Model.Shape`).
-/
import Scico.Model.Shape
import Mathlib.Tactic.Ring
import Mathlib.Tactic.Linarith

namespace Scico.Shape

theorem rangeLen_nonneg (a b s : Int) : 0 ≤ rangeLen a b s := by
  unfold rangeLen
  split
  · split
    · have : 0 ≤ (b - a - 1) / s := Int.ediv_nonneg (by omega) (by omega)
      omega
    · omega
  · split
    · by_cases hs : s < 0
      · have : 0 ≤ (a - b - 1) / (-s) := Int.ediv_nonneg (by omega) (by omega)
        omega
      · have hs0 : s = 0 := by omega
        subst hs0
        simp
    · omega

/-- one step of a positive-step range -/
theorem rangeLen_step_pos {a b s : Int} (hs : 0 < s) (h : a < b) :
    rangeLen a b s = rangeLen (a + s) b s + 1 := by
  unfold rangeLen
  simp only [hs, if_true, h]
  by_cases h2 : a + s < b
  · simp only [h2, if_true]
    have : b - (a + s) - 1 = (b - a - 1) + (-1) * s := by ring
    rw [this, Int.add_mul_ediv_right _ _ (by omega : s ≠ 0)]
    omega
  · simp only [h2, if_false]
    have : (b - a - 1) / s = 0 := Int.ediv_eq_zero_of_lt (by omega) (by omega)
    omega

/-- one step of a negative-step range -/
theorem rangeLen_step_neg {a b s : Int} (hs : s < 0) (h : b < a) :
    rangeLen a b s = rangeLen (a + s) b s + 1 := by
  unfold rangeLen
  have hs' : ¬ (0 < s) := by omega
  simp only [hs', if_false, h, if_true]
  by_cases h2 : b < a + s
  · simp only [h2, if_true]
    have : a + s - b - 1 = (a - b - 1) + (-1) * (-s) := by ring
    rw [this, Int.add_mul_ediv_right _ _ (by omega : -s ≠ 0)]
    omega
  · simp only [h2, if_false]
    have : (a - b - 1) / (-s) = 0 := Int.ediv_eq_zero_of_lt (by omega) (by omega)
    omega

theorem rangeLen_zero_of_done {a b s : Int}
    (h : ¬ ((0 < s ∧ a < b) ∨ (s < 0 ∧ b < a))) (hs : s ≠ 0) : rangeLen a b s = 0 := by
  unfold rangeLen
  by_cases hp : 0 < s
  · have : ¬ a < b := fun hab => h (Or.inl ⟨hp, hab⟩)
    simp [hp, this]
  · have hn : s < 0 := by omega
    have : ¬ b < a := fun hab => h (Or.inr ⟨hn, hab⟩)
    simp [hp, this]

/-- With enough fuel the literal enumeration of a Python `range` has `rangeLen` elements. -/
theorem rangeList_length (fuel : Nat) (a b s : Int) (hs : s ≠ 0)
    (hf : rangeLen a b s ≤ fuel) : ((rangeList fuel a b s).length : Int) = rangeLen a b s := by
  induction fuel generalizing a with
  | zero =>
    have := rangeLen_nonneg a b s
    simp only [rangeList, List.length_nil]
    omega
  | succ k ih =>
    unfold rangeList
    by_cases hc : (0 < s ∧ a < b) ∨ (s < 0 ∧ b < a)
    · simp only [hc, if_true, List.length_cons]
      have hstep : rangeLen a b s = rangeLen (a + s) b s + 1 := by
        rcases hc with ⟨h1, h2⟩ | ⟨h1, h2⟩
        · exact rangeLen_step_pos h1 h2
        · exact rangeLen_step_neg h1 h2
      have := ih (a + s) (by omega)
      omega
    · simp only [hc, if_false, List.length_nil]
      rw [rangeLen_zero_of_done hc hs]
      rfl

/-- every element of the enumeration lies between the bounds, on the side of `start` -/
theorem rangeList_mem (fuel : Nat) (a b s p : Int) (hp : p ∈ rangeList fuel a b s) :
    (0 < s ∧ a ≤ p ∧ p < b) ∨ (s < 0 ∧ b < p ∧ p ≤ a) := by
  induction fuel generalizing a with
  | zero => simp [rangeList] at hp
  | succ k ih =>
    unfold rangeList at hp
    by_cases hc : (0 < s ∧ a < b) ∨ (s < 0 ∧ b < a)
    · simp only [hc, if_true, List.mem_cons] at hp
      rcases hp with rfl | hp
      · rcases hc with ⟨h1, h2⟩ | ⟨h1, h2⟩
        · exact Or.inl ⟨h1, le_refl _, h2⟩
        · exact Or.inr ⟨h1, h2, le_refl _⟩
      · rcases ih (a + s) hp with ⟨h1, h2, h3⟩ | ⟨h1, h2, h3⟩
        · exact Or.inl ⟨h1, by omega, h3⟩
        · exact Or.inr ⟨h1, h2, by omega⟩
    · simp [hc] at hp

/-- bounds of `slice.indices(n)`: start and stop are clamped to the axis -/
theorem pyIndices_bounds (n : Nat) (sl : PySlice) (a b s : Int)
    (h : pyIndices n sl = some (a, b, s)) :
    s ≠ 0 ∧ (0 < s → 0 ≤ a ∧ a ≤ n ∧ 0 ≤ b ∧ b ≤ n) ∧
      (s < 0 → -1 ≤ a ∧ a ≤ (n : Int) - 1 ∧ -1 ≤ b ∧ b ≤ (n : Int) - 1) := by
  unfold pyIndices at h
  simp only at h
  split at h
  · exact absurd h (by simp)
  · rename_i hs0
    simp only [Option.some.injEq, Prod.mk.injEq] at h
    obtain ⟨ha, hb, hs⟩ := h
    subst hs
    refine ⟨hs0, ?_, ?_⟩
    · intro hpos
      have hneg : ¬ (sl.step.getD 1 < 0) := by omega
      simp only [hneg] at ha hb
      subst ha hb
      cases sl.start <;> cases sl.stop <;> simp <;> (repeat' split) <;> omega
    · intro hneg
      simp only [hneg] at ha hb
      subst ha hb
      cases sl.start <;> cases sl.stop <;> simp <;> (repeat' split) <;> omega

theorem rangeLen_le_of_bounds {n : Nat} {a b s : Int}
    (hs : s ≠ 0)
    (hpos : 0 < s → 0 ≤ a ∧ a ≤ n ∧ 0 ≤ b ∧ b ≤ n)
    (hneg : s < 0 → -1 ≤ a ∧ a ≤ (n : Int) - 1 ∧ -1 ≤ b ∧ b ≤ (n : Int) - 1) :
    rangeLen a b s ≤ n := by
  unfold rangeLen
  by_cases hp : 0 < s
  · obtain ⟨h1, h2, h3, h4⟩ := hpos hp
    simp only [hp, if_true]
    split
    · have : (b - a - 1) / s ≤ b - a - 1 := Int.ediv_le_self _ (by omega)
      omega
    · omega
  · have hn : s < 0 := by omega
    obtain ⟨h1, h2, h3, h4⟩ := hneg hn
    simp only [hp, if_false]
    split
    · have : (a - b - 1) / (-s) ≤ a - b - 1 := Int.ediv_le_self _ (by omega)
      omega
    · omega

end Scico.Shape
