/-
  Proofs/StepsEq — helper lemmas for property C11: the transcription of every `step()` body
  (`…ImplStep`) equals the transcription of the documented equations (`…SpecStep`), and every
  accessor equals its documented expression.

  Setting: `K` a linearly ordered field (the real parameters ρ, α, μ, ν, τ, σ, L, t), the variables
  live in arbitrary `K`-modules `X`, `Z`, `U` — real arrays, complex arrays (as real modules),
  block arrays (products) are all instances.  Operators, proximal maps, solvers, Jacobian
  products and the step-size hook are arbitrary functions.
-/
import Scico.Model.Steps
import Mathlib.Algebra.Module.Basic
import Mathlib.Algebra.Order.Field.Basic
import Mathlib.Tactic.Ring
import Mathlib.Tactic.Linarith
import Mathlib.Tactic.FieldSimp
import Mathlib.Tactic.Abel

set_option linter.unusedSectionVars false
set_option linter.unusedSimpArgs false

namespace Scico.Steps

section isOne
variable {K : Type} [Field K] [LinearOrder K]

theorem isOne_iff (a : K) : isOne a = true ↔ a = 1 := by
  unfold isOne
  simp only [Bool.and_eq_true, Bool.not_eq_true', decide_eq_false_iff_not, not_lt]
  constructor
  · rintro ⟨h1, h2⟩; exact le_antisymm h2 h1
  · rintro rfl; exact ⟨le_refl _, le_refl _⟩

end isOne

/-! ### ADMM -/

section ADMM
variable {K X Z : Type} [Field K] [LinearOrder K] [AddCommGroup Z] [Module K Z]

/-- the `alpha == 1.0` shortcut computes the same relaxed point -/
theorem admm_relax_shortcut (alpha : K) (cx z : Z) :
    (if isOne alpha then cx else alpha • cx + (1 - alpha) • z) = alpha • cx + (1 - alpha) • z := by
  by_cases h : isOne alpha = true
  · have := (isOne_iff alpha).1 h
    subst this
    simp
  · simp [h]

theorem admmSpecZU_length (alpha : K) (xn : X) :
    ∀ (N : Nat) (rs : List K) (ps : List (K → Z → Z)) (cs : List (X → Z)) (zs us : List Z),
      rs.length = N → ps.length = N → cs.length = N → zs.length = N → us.length = N →
      (admmSpecZU alpha xn rs ps cs zs us).length = N := by
  intro N
  induction N with
  | zero =>
    intro rs ps cs zs us h1 h2 h3 h4 h5
    have : rs = [] := List.length_eq_zero_iff.1 h1
    subst this
    simp [admmSpecZU]
  | succ n ih =>
    intro rs ps cs zs us h1 h2 h3 h4 h5
    match rs, ps, cs, zs, us, h1, h2, h3, h4, h5 with
    | r :: rs, pr :: ps, c :: cs, z :: zs, u :: us, h1, h2, h3, h4, h5 =>
      simp only [admmSpecZU, List.length_cons, Nat.add_right_cancel_iff] at *
      exact ih rs ps cs zs us h1 h2 h3 h4 h5

theorem admmSpecZU_getElem? (alpha : K) (xn : X) :
    ∀ (i : Nat) (rs : List K) (ps : List (K → Z → Z)) (cs : List (X → Z)) (zs us : List Z)
      (r : K) (pr : K → Z → Z) (c : X → Z) (z u : Z),
      rs[i]? = some r → ps[i]? = some pr → cs[i]? = some c → zs[i]? = some z → us[i]? = some u →
      (admmSpecZU alpha xn rs ps cs zs us)[i]? =
        some (pr (1 / r) (alpha • c xn + (1 - alpha) • z + u),
              u + (alpha • c xn + (1 - alpha) • z) - pr (1 / r) (alpha • c xn + (1 - alpha) • z + u)) := by
  intro i
  induction i with
  | zero =>
    intro rs ps cs zs us r pr c z u h1 h2 h3 h4 h5
    match rs, ps, cs, zs, us, h1, h2, h3, h4, h5 with
    | r' :: rs, pr' :: ps, c' :: cs, z' :: zs, u' :: us, h1, h2, h3, h4, h5 =>
      simp only [List.getElem?_cons_zero, Option.some.injEq] at h1 h2 h3 h4 h5
      subst h1 h2 h3 h4 h5
      simp [admmSpecZU]
  | succ n ih =>
    intro rs ps cs zs us r pr c z u h1 h2 h3 h4 h5
    match rs, ps, cs, zs, us, h1, h2, h3, h4, h5 with
    | r' :: rs, pr' :: ps, c' :: cs, z' :: zs, u' :: us, h1, h2, h3, h4, h5 =>
      simp only [List.getElem?_cons_succ] at h1 h2 h3 h4 h5
      simp only [admmSpecZU, List.getElem?_cons_succ]
      exact ih rs ps cs zs us r pr c z u h1 h2 h3 h4 h5

/-- loop invariant of the `for` loop of `ADMM.step` after `k` iterations -/
structure AdmmInv (N : Nat) (xn : X) (z0 u0 : List Z) (zu : List (Z × Z)) (k : Nat)
    (sk : ADMMState X Z) : Prop where
  hx : sk.x = xn
  hzOld : sk.zOld = z0
  hzl : sk.z.length = N
  hul : sk.u.length = N
  hz : ∀ j, sk.z[j]? = if j < k then (zu[j]?).map Prod.fst else z0[j]?
  hu : ∀ j, sk.u[j]? = if j < k then (zu[j]?).map Prod.snd else u0[j]?

theorem admm_loop_inv (p : ADMMParams K X Z) (N : Nat) (xn : X) (z0 u0 : List Z)
    (hr : p.rho.length = N) (hp : p.proxg.length = N) (hc : p.C.length = N)
    (hz0 : z0.length = N) (hu0 : u0.length = N) :
    ∀ k, k ≤ N →
      AdmmInv N xn z0 u0 (admmSpecZU p.alpha xn p.rho p.proxg p.C z0 u0) k
        ((List.range k).foldl (admmLoopBody p) { x := xn, z := z0, zOld := z0, u := u0 }) := by
  intro k
  induction k with
  | zero =>
    intro _
    exact ⟨rfl, rfl, hz0, hu0, fun j => by simp, fun j => by simp⟩
  | succ k ih =>
    intro hk
    have hkN : k < N := hk
    have I := ih (Nat.le_of_lt hkN)
    rw [List.range_succ, List.foldl_append]
    simp only [List.foldl_cons, List.foldl_nil]
    generalize (List.range k).foldl (admmLoopBody p) { x := xn, z := z0, zOld := z0, u := u0 } = sk at I ⊢
    -- the five reads of iteration k
    obtain ⟨r, hr'⟩ : ∃ r, p.rho[k]? = some r := ⟨p.rho[k]'(by omega), by simp⟩
    obtain ⟨pr, hp'⟩ : ∃ r, p.proxg[k]? = some r := ⟨p.proxg[k]'(by omega), by simp⟩
    obtain ⟨c, hc'⟩ : ∃ r, p.C[k]? = some r := ⟨p.C[k]'(by omega), by simp⟩
    obtain ⟨z, hz'⟩ : ∃ r, z0[k]? = some r := ⟨z0[k]'(by omega), by simp⟩
    obtain ⟨u, hu'⟩ : ∃ r, u0[k]? = some r := ⟨u0[k]'(by omega), by simp⟩
    have hzk : sk.z[k]? = some z := by rw [I.hz k]; simp [hz']
    have huk : sk.u[k]? = some u := by rw [I.hu k]; simp [hu']
    have hspec := admmSpecZU_getElem? p.alpha xn k p.rho p.proxg p.C z0 u0 r pr c z u hr' hp' hc' hz' hu'
    have hbody : admmLoopBody p sk k =
        { sk with
          z := sk.z.set k (pr (1 / r) (p.alpha • c xn + (1 - p.alpha) • z + u)),
          u := sk.u.set k (u + (p.alpha • c xn + (1 - p.alpha) • z)
                - pr (1 / r) (p.alpha • c xn + (1 - p.alpha) • z + u)) } := by
      unfold admmLoopBody
      simp only [hr', hp', hc', hzk, huk, admm_relax_shortcut, I.hx]
    rw [hbody]
    refine ⟨I.hx, I.hzOld, by simp [I.hzl], by simp [I.hul], ?_, ?_⟩
    · intro j
      simp only [List.getElem?_set, I.hzl, hkN]
      by_cases hjk : k = j
      · subst hjk
        simp [hspec, hkN]
      · simp only [hjk, if_false]
        rw [I.hz j]
        by_cases hj : j < k
        · have : j < k + 1 := by omega
          simp [hj, this]
        · have : ¬ j < k + 1 := by omega
          simp [hj, this]
    · intro j
      simp only [List.getElem?_set, I.hul, hkN]
      by_cases hjk : k = j
      · subst hjk
        simp [hspec, hkN]
      · simp only [hjk, if_false]
        rw [I.hu j]
        by_cases hj : j < k
        · have : j < k + 1 := by omega
          simp [hj, this]
        · have : ¬ j < k + 1 := by omega
          simp [hj, this]

theorem admm_impl_eq_spec (p : ADMMParams K X Z) (s : ADMMState X Z) (N : Nat)
    (h : ADMMWf N p s) : admmImplStep p s = admmSpecStep p s := by
  obtain ⟨hr, hp, hc, hz, hu⟩ := h
  unfold admmImplStep admmSpecStep
  have hlen : admmZipLen p { x := p.solveX s.z s.u s.x, z := s.z, zOld := s.z, u := s.u } = N := by
    simp [admmZipLen, hr, hp, hc, hz, hu]
  simp only [hlen]
  have I := admm_loop_inv p N (p.solveX s.z s.u s.x) s.z s.u hr hp hc hz hu N (le_refl N)
  have hzul := admmSpecZU_length p.alpha (p.solveX s.z s.u s.x) N p.rho p.proxg p.C s.z s.u hr hp hc hz hu
  generalize (List.range N).foldl (admmLoopBody p)
      { x := p.solveX s.z s.u s.x, z := s.z, zOld := s.z, u := s.u } = sN at I ⊢
  obtain ⟨x, z, zOld, u⟩ := sN
  obtain ⟨hx, hzOld, hzl, hul, hzj, huj⟩ := I
  simp only at hx hzOld hzl hul hzj huj
  subst hx hzOld
  congr 1
  · apply List.ext_getElem?
    intro j
    rw [hzj j]
    by_cases hj : j < N
    · simp [hj]
    · have h1 : s.z[j]? = none := by simp; omega
      have h2 : (admmSpecZU p.alpha (p.solveX s.z s.u s.x) p.rho p.proxg p.C s.z s.u)[j]? = none := by
        simp; omega
      simp [hj, h1, h2]
  · apply List.ext_getElem?
    intro j
    rw [huj j]
    by_cases hj : j < N
    · simp [hj]
    · have h1 : s.u[j]? = none := by simp; omega
      have h2 : (admmSpecZU p.alpha (p.solveX s.z s.u s.x) p.rho p.proxg p.C s.z s.u)[j]? = none := by
        simp; omega
      simp [hj, h1, h2]

/-- `step` keeps the lists at length `N` (so the hypothesis of `admm_impl_eq_spec` holds on every
    reachable state) -/
theorem admm_step_wf (p : ADMMParams K X Z) (s : ADMMState X Z) (N : Nat) (h : ADMMWf N p s) :
    ADMMWf N p (admmImplStep p s) := by
  rw [admm_impl_eq_spec p s N h]
  obtain ⟨hr, hp, hc, hz, hu⟩ := h
  have := admmSpecZU_length p.alpha (p.solveX s.z s.u s.x) N p.rho p.proxg p.C s.z s.u hr hp hc hz hu
  exact ⟨hr, hp, hc, by simp [admmSpecStep, this], by simp [admmSpecStep, this]⟩

theorem admm_init_wf [Zero X] (p : ADMMParams K X Z) (x0 : Option X) (N : Nat)
    (hr : p.rho.length = N) (hp : p.proxg.length = N) (hc : p.C.length = N) :
    ADMMWf N p (admmInit p x0) := by
  refine ⟨hr, hp, hc, ?_, ?_⟩ <;> simp [admmInit, hc]

/-- every state reached from `__init__` by any number of steps is well formed -/
theorem admm_reachable_wf [Zero X] (p : ADMMParams K X Z) (x0 : Option X) (N : Nat)
    (hr : p.rho.length = N) (hp : p.proxg.length = N) (hc : p.C.length = N) (k : Nat) :
    ADMMWf N p (iter (admmImplStep p) k (admmInit p x0)) := by
  have : ∀ k s, ADMMWf N p s → ADMMWf N p (iter (admmImplStep p) k s) := by
    intro k
    induction k with
    | zero => intro s h; exact h
    | succ k ih => intro s h; exact ih _ (admm_step_wf p s N h)
  exact this k _ (admm_init_wf p x0 N hr hp hc)

end ADMM


/-! ### ADMM accessors -/

section ADMMAcc
variable {K X Z : Type} [Field K] [LinearOrder K] [HasSqrt K] [AddCommGroup Z] [Module K Z]
  [AddCommGroup X] [Module K X]

theorem foldl_add_eq_sum {M : Type} [AddCommMonoid M] (l : List M) (a : M) :
    l.foldl (fun acc v => acc + v) a = a + l.sum := by
  induction l generalizing a with
  | nil => simp
  | cons b l ih => simp [ih, add_assoc]

theorem foldl_zip_eq {A B M : Type} [AddCommMonoid M] (f : A → B → M) :
    ∀ (l1 : List A) (l2 : List B) (a : M),
      (List.zip l1 l2).foldl (fun acc t => acc + f t.1 t.2) a = a + (List.zipWith f l1 l2).sum := by
  intro l1
  induction l1 with
  | nil => intro l2 a; simp
  | cons x l1 ih =>
    intro l2 a
    cases l2 with
    | nil => simp
    | cons y l2 => simp [ih, add_assoc]

theorem admm_objective_both (p : ADMMParams K X Z) (s : ADMMState X Z) (x : X) (zl : List Z) :
    admmObjectiveImpl p s (some x) (some zl) = .ok (admmObjectiveSpec p x zl) := by
  unfold admmObjectiveImpl admmObjectiveSpec
  cases hf : p.f with
  | none => simp [foldl_zip_eq (fun (g : Z → K) z => g z)]
  | some f => simp [foldl_zip_eq (fun (g : Z → K) z => g z)]

theorem admm_objective_none (p : ADMMParams K X Z) (s : ADMMState X Z) :
    admmObjectiveImpl p s none none = .ok (admmObjectiveSpec p s.x s.z) := by
  unfold admmObjectiveImpl admmObjectiveSpec
  cases hf : p.f with
  | none => simp [foldl_zip_eq (fun (g : Z → K) z => g z)]
  | some f => simp [foldl_zip_eq (fun (g : Z → K) z => g z)]

theorem admm_objective_mixed (p : ADMMParams K X Z) (s : ADMMState X Z) (x : X) (zl : List Z) :
    admmObjectiveImpl p s (some x) none = .error .value ∧
    admmObjectiveImpl p s none (some zl) = .error .value := by
  constructor <;> rfl

theorem zipWith_zip3 {A B C M : Type} (f : A → B → C → M) :
    ∀ (l1 : List A) (l2 : List B) (l3 : List C),
      List.zipWith (fun a (t : B × C) => f a t.1 t.2) l1 (List.zip l2 l3)
        = List.zipWith (fun a m => m a) l1 (List.zipWith (fun b c a => f a b c) l2 l3) := by
  intro l1
  induction l1 with
  | nil => intro l2 l3; simp
  | cons a l1 ih =>
    intro l2 l3
    cases l2 with
    | nil => simp
    | cons b l2 =>
      cases l3 with
      | nil => simp
      | cons c l3 => simp [ih]

theorem admm_normPrimal_spec_of (p : ADMMParams K X Z) (s : ADMMState X Z) (x : X) :
    admmNormPrimalImpl p s (some x) = admmNormPrimalSpec p x s.z := by
  unfold admmNormPrimalImpl admmNormPrimalSpec
  simp only
  rw [foldl_zip_eq (fun (rho : K) (t : (X → Z) × Z) => rho * (p.normZ (t.1 x - t.2) * p.normZ (t.1 x - t.2)))]
  rw [zero_add]
  congr 1
  congr 1
  generalize p.rho = rs
  generalize p.C = cs
  generalize s.z = zs
  induction rs generalizing cs zs with
  | nil => simp
  | cons r rs ih =>
    cases cs with
    | nil => simp
    | cons c cs =>
      cases zs with
      | nil => simp
      | cons z zs => simp [ih]

theorem admm_normPrimal_none (p : ADMMParams K X Z) (s : ADMMState X Z) :
    admmNormPrimalImpl p s none = admmNormPrimalSpec p s.x s.z := by
  have := admm_normPrimal_spec_of p s s.x
  simpa [admmNormPrimalImpl] using this

theorem admm_normDual_spec (p : ADMMParams K X Z) (s : ADMMState X Z) :
    admmNormDualImpl p s = admmNormDualSpec p s := by
  unfold admmNormDualImpl admmNormDualSpec
  simp only
  rw [foldl_zip_eq (fun (rho : K) (t : Z × Z × (Z → X)) => rho • t.2.2 (t.1 - t.2.1))]
  rw [zero_add]
  congr 1
  congr 1
  generalize p.rho = rs
  generalize p.Cadj = cs
  generalize s.z = zs
  generalize s.zOld = os
  induction rs generalizing cs zs os with
  | nil => simp
  | cons r rs ih =>
    cases zs with
    | nil => simp
    | cons z zs =>
      cases os with
      | nil => cases cs <;> simp
      | cons o os =>
        cases cs with
        | nil => simp
        | cons c cs => simp [ih]

end ADMMAcc

/-! ### Linearized ADMM, proximal ADMM, non-linear proximal ADMM, PDHG -/

section Others
variable {K X Z U : Type} [Field K] [LinearOrder K]
  [AddCommGroup X] [Module K X] [AddCommGroup Z] [Module K Z] [AddCommGroup U] [Module K U]

theorem ladmm_impl_eq_spec (p : LADMMParams K X Z) (s : LADMMState X Z) :
    ladmmImplStep p s = ladmmSpecStep p s := rfl

theorem one_div_mul_eq (a b : K) : 1 / (a * b) = a⁻¹ * b⁻¹ := by
  rw [one_div, mul_inv]

theorem padmm_impl_eq_spec (p : PADMMParams K X Z U) (s : PADMMState X Z U) :
    padmmImplStep p s = padmmSpecStep p s := by
  unfold padmmImplStep padmmSpecStep
  simp only [one_div, mul_inv]

/-- with the constructor defaults `B = None`, `c = None` the step is the documented iteration for
    the constraint `A x − z = 0` -/
theorem padmm_default_step (p : PADMMParams K X U U) (s : PADMMState X U U)
    (hB : p.B = padmmDefaultB.1) (hBH : p.BH = padmmDefaultB.2) (hc : p.c = padmmC none) :
    padmmImplStep p s =
      let xn := p.proxf (p.rho⁻¹ * p.mu⁻¹) (s.x - p.mu⁻¹ • p.AH ((2 : K) • s.u - s.uOld))
      let zn := p.proxg (p.rho⁻¹ * p.nu⁻¹) (s.z + p.nu⁻¹ • (p.A xn - s.z + s.u))
      { x := xn, z := zn, zOld := s.z, u := s.u + (p.A xn - zn), uOld := s.u } := by
  rw [padmm_impl_eq_spec]
  unfold padmmSpecStep
  simp only [hB, hBH, hc, padmmDefaultB, padmmC, sub_zero, smul_neg, sub_neg_eq_add]
  congr 1
  · congr 2
    rw [sub_eq_add_neg (p.A _) s.z]
  · abel_nf

theorem nlpadmm_impl_eq_spec (p : NLPADMMParams K X Z U) (s : PADMMState X Z U) :
    nlpadmmImplStep p s = nlpadmmSpecStep p s := by
  unfold nlpadmmImplStep nlpadmmSpecStep
  simp only [one_div, mul_inv]

theorem pdhg_impl_eq_spec (p : PDHGParams K X Z) (s : PDHGState X Z) :
    pdhgImplStep p s = pdhgSpecStep p s := by
  unfold pdhgImplStep pdhgSpecStep
  cases h : p.linear <;> simp

theorem ladmm_objective_both (p : LADMMParams K X Z) (s : LADMMState X Z) (x : X) (z : Z) :
    ladmmObjectiveImpl p s (some x) (some z) = .ok (ladmmObjectiveSpec p x z) := rfl
theorem ladmm_objective_none (p : LADMMParams K X Z) (s : LADMMState X Z) :
    ladmmObjectiveImpl p s none none = .ok (ladmmObjectiveSpec p s.x s.z) := rfl
theorem ladmm_normPrimal_some (p : LADMMParams K X Z) (s : LADMMState X Z) (x : X) :
    ladmmNormPrimalImpl p s (some x) = ladmmNormPrimalSpec p x s.z := rfl
theorem ladmm_normPrimal_none (p : LADMMParams K X Z) (s : LADMMState X Z) :
    ladmmNormPrimalImpl p s none = ladmmNormPrimalSpec p s.x s.z := rfl
theorem ladmm_normDual (p : LADMMParams K X Z) (s : LADMMState X Z) :
    ladmmNormDualImpl p s = ladmmNormDualSpec p s := rfl

theorem padmm_normPrimal_both (p : PADMMParams K X Z U) (s : PADMMState X Z U) (x : X) (z : Z) :
    padmmNormPrimalImpl p s (some x) (some z) = .ok (padmmNormPrimalSpec p x z) := rfl
theorem padmm_normPrimal_none (p : PADMMParams K X Z U) (s : PADMMState X Z U) :
    padmmNormPrimalImpl p s none none = .ok (padmmNormPrimalSpec p s.x s.z) := rfl
theorem padmm_normDual (p : PADMMParams K X Z U) (s : PADMMState X Z U) :
    padmmNormDualImpl p s = padmmNormDualSpec p s := by
  unfold padmmNormDualImpl padmmNormDualSpec
  cases p.fastDual <;> rfl
theorem nlpadmm_normPrimal_both (p : NLPADMMParams K X Z U) (s : PADMMState X Z U) (x : X) (z : Z) :
    nlpadmmNormPrimalImpl p s (some x) (some z) = .ok (nlpadmmNormPrimalSpec p x z) := rfl
theorem nlpadmm_normPrimal_none (p : NLPADMMParams K X Z U) (s : PADMMState X Z U) :
    nlpadmmNormPrimalImpl p s none none = .ok (nlpadmmNormPrimalSpec p s.x s.z) := rfl
theorem nlpadmm_normDual (p : NLPADMMParams K X Z U) (s : PADMMState X Z U) :
    nlpadmmNormDualImpl p s = nlpadmmNormDualSpec p s := by
  unfold nlpadmmNormDualImpl nlpadmmNormDualSpec
  cases p.fastDual <;> rfl

theorem pdhg_normPrimal (p : PDHGParams K X Z) (s : PDHGState X Z) :
    pdhgNormPrimalImpl p s = pdhgNormPrimalSpec p s := by
  unfold pdhgNormPrimalImpl pdhgNormPrimalSpec
  rw [div_eq_inv_mul]
theorem pdhg_normDual (p : PDHGParams K X Z) (s : PDHGState X Z) :
    pdhgNormDualImpl p s = pdhgNormDualSpec p s := by
  unfold pdhgNormDualImpl pdhgNormDualSpec
  rw [div_eq_inv_mul]

end Others

/-! ### PGM / accelerated PGM -/

section PGM
variable {σ K X : Type} [Field K] [LinearOrder K] [HasSqrt K] [AddCommGroup X] [Module K X]

theorem pgm_impl_eq_spec (p : PGMParams σ K X) (s : PGMState σ K X) :
    pgmImplStep p s = pgmSpecStep p s := by
  unfold pgmImplStep pgmSpecStep pgmXStep
  simp only [one_div]

theorem apgm_impl_eq_spec (p : PGMParams σ K X) (s : APGMState σ K X) :
    apgmImplStep p s = apgmSpecStep p s := by
  unfold apgmImplStep apgmSpecStep pgmXStep fistaTImpl
  cases hk : p.pol.kind <;> simp [PolKind.isBB, PolKind.isRobust, one_div]

theorem pgm_fquad (p : PGMParams σ K X) (ri : X → X → K) (x y : X) (L : K) :
    pgmFQuadApproxImpl p ri x y L = pgmFQuadApproxSpec p ri x y L := rfl

end PGM

end Scico.Steps
