/-
  Helper lemmas for the block-array model (`Scico.Model.Block`): the *specification*
  predicates (index-wise, written independently of the code-shaped loops) and the
  characterisation of the model's building blocks against them.
-/
import Scico.Model.Block
import Mathlib.Algebra.BigOperators.Group.List.Basic
import Mathlib.Order.Lattice
import Mathlib.Algebra.Ring.Defs
import Mathlib.Order.MinMax

namespace Scico.Block

variable {α β δ : Type}

/-! ### `mapE` : sequential evaluation with early exit -/

theorem mapE_ok_length {g : β → Res α} : ∀ {l : List β} {r : List α}, mapE g l = .ok r → r.length = l.length
  | [], r, h => by simp [mapE] at h; subst h; rfl
  | x :: xs, r, h => by
    unfold mapE at h
    cases hx : g x with
    | error e => simp [hx] at h
    | ok y =>
      cases hxs : mapE g xs with
      | error e => simp [hx, hxs] at h
      | ok ys =>
        simp [hx, hxs] at h
        subst h
        simp [mapE_ok_length hxs]

theorem mapE_ok_get {g : β → Res α} : ∀ {l : List β} {r : List α}, mapE g l = .ok r →
    ∀ (i : Nat) (h1 : i < l.length) (h2 : i < r.length), g l[i] = .ok r[i]
  | [], r, h, i, h1, _ => by simp at h1
  | x :: xs, r, h, i, h1, h2 => by
    unfold mapE at h
    cases hx : g x with
    | error e => simp [hx] at h
    | ok y =>
      cases hxs : mapE g xs with
      | error e => simp [hx, hxs] at h
      | ok ys =>
        simp [hx, hxs] at h
        subst h
        cases i with
        | zero => simpa using hx
        | succ j =>
          simp only [List.getElem_cons_succ]
          exact mapE_ok_get hxs j (by simpa using h1) (by simpa using h2)

/-- if every element evaluates, `mapE` returns exactly the list of the values -/
theorem mapE_ok_of_forall {g : β → Res α} {h : β → α} : ∀ {l : List β},
    (∀ x ∈ l, g x = .ok (h x)) → mapE g l = .ok (l.map h)
  | [], _ => rfl
  | x :: xs, hall => by
    have hx := hall x (by simp)
    have hxs := mapE_ok_of_forall (g := g) (h := h) (l := xs) (fun y hy => hall y (by simp [hy]))
    simp [mapE, hx, hxs]

/-- the first failing element decides the error -/
theorem mapE_error_of {g : β → Res α} {e : Err} : ∀ {pre : List β} {x : β} {post : List β},
    (∀ y ∈ pre, ∃ z, g y = .ok z) → g x = .error e → mapE g (pre ++ x :: post) = .error e
  | [], x, post, _, hx => by simp [mapE, hx]
  | p :: pre, x, post, hpre, hx => by
    obtain ⟨z, hz⟩ := hpre p (by simp)
    have := mapE_error_of (g := g) (e := e) (pre := pre) (x := x) (post := post)
      (fun y hy => hpre y (by simp [hy])) hx
    simp [mapE, hz, this]

theorem mapE_index {g : β → Res α} {l : List β} {r : List α} (hlen : r.length = l.length)
    (hget : ∀ (i : Nat) (h1 : i < l.length) (h2 : i < r.length), g l[i] = .ok r[i]) :
    mapE g l = .ok r := by
  induction l generalizing r with
  | nil =>
    have : r = [] := by simpa using hlen
    subst this; rfl
  | cons x xs ih =>
    cases r with
    | nil => simp at hlen
    | cons y ys =>
      have h0 := hget 0 (by simp) (by simp)
      simp at h0
      have := ih (r := ys) (by simpa using hlen) (fun i h1 h2 => by
        have := hget (i + 1) (by simpa using h1) (by simpa using h2)
        simpa using this)
      simp [mapE, h0, this]

/-! ### dtype homogeneity -/

/-- specification: all blocks carry one dtype -/
def Homog (E : Env α δ) (l : List α) : Prop := ∀ a ∈ l, ∀ b ∈ l, E.dt a = E.dt b

theorem homogeneous_iff [DecidableEq δ] (E : Env α δ) (l : List α) :
    homogeneous E l = true ↔ Homog E l := by
  cases l with
  | nil => simp [homogeneous, Homog]
  | cons a0 rest =>
    simp only [homogeneous, List.all_eq_true, decide_eq_true_eq, Homog]
    constructor
    · intro h a ha b hb
      rw [h a ha, h b hb]
    · intro h a ha
      exact h a ha a0 (by simp)

/-- specification of a well-formed block array: every block is an array, one dtype -/
def WF (E : Env α δ) (l : List α) : Prop := (∀ a ∈ l, E.isArr a = true) ∧ Homog E l

theorem coerce_arr (E : Env α δ) {x : α} (h : E.isArr x = true) : coerce E x = .ok x := by
  simp [coerce, h]

/-! ### `mkFrom` = `BlockArray(g(x) for x in xs)` -/

theorem mkFrom_ok [DecidableEq δ] (E : Env α δ) {g : β → Res α} {xs : List β} {r : List α}
    (h : mkFrom E g xs = .ok r) :
    r.length = xs.length ∧ Homog E r ∧
    ∀ (i : Nat) (h1 : i < xs.length) (h2 : i < r.length),
      ∃ z, g xs[i] = .ok z ∧ coerce E z = .ok r[i] := by
  unfold mkFrom at h
  cases hm : mapE (fun x => (g x).bind (coerce E)) xs with
  | error e => simp [hm] at h
  | ok arrays =>
    simp only [hm] at h
    by_cases hh : homogeneous E arrays = true
    · simp only [hh, if_true, Except.ok.injEq] at h
      subst h
      refine ⟨mapE_ok_length hm, (homogeneous_iff E _).1 hh, ?_⟩
      intro i h1 h2
      have := mapE_ok_get hm i h1 h2
      cases hg : g xs[i] with
      | error e => simp [hg, Except.bind] at this
      | ok z =>
        refine ⟨z, rfl, ?_⟩
        simpa [hg, Except.bind] using this
    · simp [hh] at h

/-- clean case: every element evaluates to an array and the dtypes agree -/
theorem mkFrom_of_arrays [DecidableEq δ] (E : Env α δ) {g : β → Res α} {h : β → α} {xs : List β}
    (hg : ∀ x ∈ xs, g x = .ok (h x)) (harr : ∀ x ∈ xs, E.isArr (h x) = true)
    (hdt : Homog E (xs.map h)) : mkFrom E g xs = .ok (xs.map h) := by
  unfold mkFrom
  have : mapE (fun x => (g x).bind (coerce E)) xs = .ok (xs.map h) :=
    mapE_ok_of_forall (fun x hx => by simp [hg x hx, Except.bind, coerce_arr E (harr x hx)])
  simp [this, (homogeneous_iff E _).2 hdt]

/-- blocks of different dtypes are rejected (`ValueError: Heterogeneous dtypes`) -/
theorem mkFrom_hetero [DecidableEq δ] (E : Env α δ) {g : β → Res α} {h : β → α} {xs : List β}
    (hg : ∀ x ∈ xs, g x = .ok (h x)) (harr : ∀ x ∈ xs, E.isArr (h x) = true)
    (hdt : ¬ Homog E (xs.map h)) : mkFrom E g xs = .error .dtype := by
  unfold mkFrom
  have : mapE (fun x => (g x).bind (coerce E)) xs = .ok (xs.map h) :=
    mapE_ok_of_forall (fun x hx => by simp [hg x hx, Except.bind, coerce_arr E (harr x hx)])
  have hh : ¬ homogeneous E (xs.map h) = true := fun c => hdt ((homogeneous_iff E _).1 c)
  simp [this, hh]

theorem mkFrom_error_of [DecidableEq δ] (E : Env α δ) {g : β → Res α} {e : Err}
    {pre : List β} {x : β} {post : List β}
    (hpre : ∀ y ∈ pre, ∃ z, g y = .ok z ∧ E.isArr z = true) (hx : g x = .error e) :
    mkFrom E g (pre ++ x :: post) = .error e := by
  unfold mkFrom
  have : mapE (fun x => (g x).bind (coerce E)) (pre ++ x :: post) = .error e :=
    mapE_error_of (fun y hy => by
      obtain ⟨z, hz, ha⟩ := hpre y hy
      exact ⟨z, by simp [hz, Except.bind, coerce_arr E ha]⟩) (by simp [hx, Except.bind])
  simp [this]

theorem mkBlock_wf [DecidableEq δ] (E : Env α δ) {l : List α} (h : WF E l) : mkBlock E l = .ok l := by
  have := mkFrom_of_arrays E (g := Except.ok) (h := id) (xs := l) (fun _ _ => rfl)
    (fun x hx => h.1 x hx) (by simpa using h.2)
  simpa [mkBlock] using this

/-- results of the constructor are well formed, provided `jnp.array` returns arrays -/
theorem mkFrom_wf [DecidableEq δ] (E : Env α δ) (hAs : ∀ x y, E.asArr x = .ok y → E.isArr y = true)
    {g : β → Res α} {xs : List β} {r : List α} (h : mkFrom E g xs = .ok r) : WF E r := by
  obtain ⟨hlen, hh, hget⟩ := mkFrom_ok E h
  refine ⟨?_, hh⟩
  intro a ha
  obtain ⟨i, hi, rfl⟩ := List.getElem_of_mem ha
  obtain ⟨z, _, hc⟩ := hget i (by omega) hi
  unfold coerce at hc
  by_cases hz : E.isArr z = true
  · simp [hz] at hc; rw [← hc]; exact hz
  · simp [hz] at hc; exact hAs _ _ hc

/-! ### search for the first block argument -/

/-- specification: `l` is the first `BlockArray` of `vals` -/
def FirstBlk (vals : List (PyVal α)) (l : List α) : Prop :=
  ∃ pre post, vals = pre ++ PyVal.blk l :: post ∧ ∀ v ∈ pre, v.isBlk = false

def NoBlk (vals : List (PyVal α)) : Prop := ∀ v ∈ vals, v.isBlk = false

theorem firstBlk_some {vals : List (PyVal α)} {l : List α} :
    firstBlk vals = some l ↔ FirstBlk vals l := by
  induction vals with
  | nil => simp [firstBlk, FirstBlk]
  | cons v rest ih =>
    cases v with
    | blk l' =>
      simp only [firstBlk, Option.some.injEq]
      constructor
      · rintro rfl; exact ⟨[], rest, rfl, by simp⟩
      · rintro ⟨pre, post, heq, hpre⟩
        cases pre with
        | nil => simp at heq; exact heq.1
        | cons p pre' =>
          simp at heq
          have := hpre p (by simp)
          rw [← heq.1] at this
          simp [PyVal.isBlk] at this
    | one a =>
      simp only [firstBlk]
      rw [ih]
      constructor
      · rintro ⟨pre, post, heq, hpre⟩
        exact ⟨PyVal.one a :: pre, post, by simp [heq], by
          intro v hv
          rcases List.mem_cons.1 hv with rfl | hv
          · rfl
          · exact hpre v hv⟩
      · rintro ⟨pre, post, heq, hpre⟩
        cases pre with
        | nil => simp at heq
        | cons p pre' =>
          simp at heq
          exact ⟨pre', post, heq.2, fun v hv => hpre v (by simp [hv])⟩

theorem firstBlk_none {vals : List (PyVal α)} : firstBlk vals = none ↔ NoBlk vals := by
  induction vals with
  | nil => simp [firstBlk, NoBlk]
  | cons v rest ih =>
    cases v with
    | blk l' => simp [firstBlk, NoBlk, PyVal.isBlk]
    | one a => simp [firstBlk, NoBlk, PyVal.isBlk, ih]

theorem firstBlk_append_left {a b : List (PyVal α)} {l : List α} (h : firstBlk a = some l) :
    firstBlk (a ++ b) = some l := by
  induction a with
  | nil => simp [firstBlk] at h
  | cons v rest ih =>
    cases v with
    | blk l' => simpa [firstBlk] using h
    | one x => simpa [firstBlk] using ih (by simpa [firstBlk] using h)

theorem firstBlk_append_right {a b : List (PyVal α)} (h : firstBlk a = none) :
    firstBlk (a ++ b) = firstBlk b := by
  induction a with
  | nil => rfl
  | cons v rest ih =>
    cases v with
    | blk l' => simp [firstBlk] at h
    | one x => simpa [firstBlk] using ih (by simpa [firstBlk] using h)

/-- the code's two-stage search (positional, then keyword values) is the search in the
    concatenated argument list -/
theorem numBlocks_eq (args : List (PyVal α)) (kwargs : List (String × PyVal α)) :
    numBlocksInArgs args kwargs =
      match firstBlk (args ++ kwargs.map Prod.snd) with
      | some l => l.length
      | none => 0 := by
  unfold numBlocksInArgs
  cases h : firstBlk args with
  | some l => simp [firstBlk_append_left h]
  | none =>
    rw [firstBlk_append_right h]
    cases firstBlk (List.map Prod.snd kwargs) <;> rfl

/-! ### per-block projection of the arguments -/

/-- specification: `w` is what block `i` of the computation receives for argument `v` -/
def Proj (i : Nat) (v w : PyVal α) : Prop :=
  match v with
  | .blk l => ∃ h : i < l.length, w = PyVal.one l[i]
  | .one a => w = PyVal.one a

theorem pick_ok_iff {i : Nat} {v w : PyVal α} : pick i v = .ok w ↔ Proj i v w := by
  cases v with
  | blk l =>
    unfold pick Proj
    by_cases h : i < l.length
    · simp [h, eq_comm]
    · simp [h]
  | one a => simp [pick, Proj, eq_comm]

theorem pick_total {i n : Nat} (hi : i < n) {v : PyVal α}
    (hv : ∀ l, v = PyVal.blk l → l.length = n) : ∃ w, pick i v = .ok w := by
  cases v with
  | blk l =>
    have := hv l rfl
    exact ⟨PyVal.one (l[i]'(by omega)), by simp [pick, List.getElem?_eq_getElem (show i < l.length by omega)]⟩
  | one a => exact ⟨PyVal.one a, rfl⟩

theorem lensOk_iff {n : Nat} {vals : List (PyVal α)} :
    lensOk n vals = true ↔ ∀ v ∈ vals, ∀ l, v = PyVal.blk l → l.length = n := by
  unfold lensOk
  simp only [List.all_eq_true]
  constructor
  · intro h v hv l hl
    have := h v hv
    subst hl
    simpa using this
  · intro h v hv
    cases v with
    | blk l => simpa using h _ hv l rfl
    | one a => rfl

/-- list relation by index (specification side) -/
def Rel₂ {γ γ' : Type} (R : γ → γ' → Prop) (l : List γ) (l' : List γ') : Prop :=
  l'.length = l.length ∧ ∀ (i : Nat) (h1 : i < l.length) (h2 : i < l'.length), R l[i] l'[i]

theorem mapE_pick {i : Nat} {args a : List (PyVal α)} (h : Rel₂ (Proj i) args a) :
    mapE (pick i) args = .ok a :=
  mapE_index h.1 (fun j h1 h2 => pick_ok_iff.2 (h.2 j h1 h2))

theorem mapE_pick_kw {i : Nat} {kwargs k : List (String × PyVal α)}
    (h : Rel₂ (fun kv kv' => kv'.1 = kv.1 ∧ Proj i kv.2 kv'.2) kwargs k) :
    mapE (fun (kv : String × PyVal α) => (pick i kv.2).map (fun v => (kv.1, v))) kwargs = .ok k :=
  mapE_index h.1 (fun j h1 h2 => by
    obtain ⟨hk, hp⟩ := h.2 j h1 h2
    have := pick_ok_iff.2 hp
    simp [this, Except.map]
    exact Prod.ext hk.symm rfl)

/-! ### numeric reductions -/

section numeric

theorem rsum_eq_sum [Add α] [Zero α] (l : List α) : rsum l = l.sum := by
  induction l with
  | nil => rfl
  | cons x xs ih => simp [rsum, List.sum_cons] at ih ⊢; rw [← ih]

theorem rcount_flatten (nz : α → Bool) (bs : List (List α)) :
    rcount nz (ravelCat bs) = ((bs.map (rcount nz)).sum) := by
  unfold rcount ravelCat
  rw [List.filter_flatten, List.length_flatten, List.map_map]
  rfl

theorem foldl_max_assoc [LinearOrder α] (a b : α) (l : List α) :
    List.foldl max (max a b) l = max a (List.foldl max b l) := by
  induction l generalizing b with
  | nil => rfl
  | cons x xs ih => simp only [List.foldl_cons]; rw [max_assoc, ih]

theorem foldl_min_assoc [LinearOrder α] (a b : α) (l : List α) :
    List.foldl min (min a b) l = min a (List.foldl min b l) := by
  induction l generalizing b with
  | nil => rfl
  | cons x xs ih => simp only [List.foldl_cons]; rw [min_assoc, ih]

theorem rmax_append [LinearOrder α] (l1 l2 : List α) :
    rmax (l1 ++ l2) = optCombine max [rmax l1, rmax l2] := by
  cases l1 with
  | nil => cases l2 <;> simp [rmax, optCombine]
  | cons x xs =>
    cases l2 with
    | nil => simp [rmax, optCombine]
    | cons y ys =>
      simp only [rmax, optCombine, List.cons_append, List.foldl_append, List.foldl_cons]
      congr 1
      generalize List.foldl max x xs = m
      exact foldl_max_assoc m y ys

theorem rmin_append [LinearOrder α] (l1 l2 : List α) :
    rmin (l1 ++ l2) = optCombine min [rmin l1, rmin l2] := by
  cases l1 with
  | nil => cases l2 <;> simp [rmin, optCombine]
  | cons x xs =>
    cases l2 with
    | nil => simp [rmin, optCombine]
    | cons y ys =>
      simp only [rmin, optCombine, List.cons_append, List.foldl_append, List.foldl_cons]
      congr 1
      generalize List.foldl min x xs = m
      exact foldl_min_assoc m y ys

theorem optCombine_two (op : α → α → α) (a : Option α) (rest : List (Option α)) :
    optCombine op (a :: rest) = optCombine op [a, optCombine op rest] := by
  cases a with
  | none => cases h : optCombine op rest <;> simp [optCombine, h]
  | some x => cases h : optCombine op rest <;> simp [optCombine, h]

theorem rmax_flatten [LinearOrder α] (bs : List (List α)) :
    rmax (ravelCat bs) = optCombine max (bs.map rmax) := by
  induction bs with
  | nil => rfl
  | cons b rest ih =>
    unfold ravelCat at ih ⊢
    rw [List.flatten_cons, rmax_append, ih, List.map_cons]
    exact (optCombine_two max (rmax b) (rest.map rmax)).symm

theorem rmin_flatten [LinearOrder α] (bs : List (List α)) :
    rmin (ravelCat bs) = optCombine min (bs.map rmin) := by
  induction bs with
  | nil => rfl
  | cons b rest ih =>
    unfold ravelCat at ih ⊢
    rw [List.flatten_cons, rmin_append, ih, List.map_cons]
    exact (optCombine_two min (rmin b) (rest.map rmin)).symm

end numeric

end Scico.Block

namespace Scico.Block

variable {α β γ δ : Type}

theorem mapE_map {g : β → Res α} (φ : γ → β) : ∀ (l : List γ), mapE g (l.map φ) = mapE (fun x => g (φ x)) l
  | [] => rfl
  | x :: xs => by simp [mapE, mapE_map φ xs]

theorem mkFrom_map [DecidableEq δ] (E : Env α δ) (g : β → Res α) (φ : γ → β) (l : List γ) :
    mkFrom E g (l.map φ) = mkFrom E (fun x => g (φ x)) l := by
  unfold mkFrom
  rw [mapE_map]

theorem zip_map_eq_zipWith (f : α → β → γ) : ∀ (l : List α) (l' : List β),
    (l.zip l').map (fun p => f p.1 p.2) = List.zipWith f l l'
  | [], _ => by simp
  | _ :: _, [] => by simp
  | x :: xs, y :: ys => by simp [zip_map_eq_zipWith f xs ys]

theorem numBlocks_noblk {args : List (PyVal α)} {kwargs : List (String × PyVal α)}
    (h : NoBlk (args ++ kwargs.map Prod.snd)) : numBlocksInArgs args kwargs = 0 := by
  rw [numBlocks_eq, firstBlk_none.2 h]

theorem numBlocks_first {args : List (PyVal α)} {kwargs : List (String × PyVal α)} {l : List α}
    (h : FirstBlk (args ++ kwargs.map Prod.snd) l) : numBlocksInArgs args kwargs = l.length := by
  rw [numBlocks_eq, firstBlk_some.2 h]

theorem rel₂_of_mapE {R : β → α → Prop} {g : β → Res α} (hg : ∀ x y, g x = .ok y → R x y)
    {l : List β} {r : List α} (h : mapE g l = .ok r) : Rel₂ R l r :=
  ⟨mapE_ok_length h, fun i h1 h2 => hg _ _ (mapE_ok_get h i h1 h2)⟩

/-- `_block_args_kwargs` builds exactly the projected argument lists -/
theorem blockArgsKwargs_ok {n : Nat} {args : List (PyVal α)} {kwargs : List (String × PyVal α)}
    {A : Nat → List (PyVal α)} {K : Nat → List (String × PyVal α)}
    (hA : ∀ i, i < n → Rel₂ (Proj i) args (A i))
    (hK : ∀ i, i < n → Rel₂ (fun kv kv' => kv'.1 = kv.1 ∧ Proj i kv.2 kv'.2) kwargs (K i)) :
    blockArgsKwargs n args kwargs = .ok ((List.range n).map (fun i => (A i, K i))) := by
  unfold blockArgsKwargs
  apply mapE_ok_of_forall
  intro i hi
  have hi' : i < n := List.mem_range.1 hi
  simp [mapE_pick (hA i hi'), mapE_pick_kw (hK i hi')]

theorem blockArgsKwargs_conv {n : Nat} {args : List (PyVal α)} {kwargs : List (String × PyVal α)}
    {calls : List (List (PyVal α) × List (String × PyVal α))}
    (h : blockArgsKwargs n args kwargs = .ok calls) :
    calls.length = n ∧ ∀ (i : Nat) (hi : i < calls.length),
      Rel₂ (Proj i) args calls[i].1 ∧
      Rel₂ (fun kv kv' => kv'.1 = kv.1 ∧ Proj i kv.2 kv'.2) kwargs calls[i].2 := by
  unfold blockArgsKwargs at h
  have hlen := mapE_ok_length h
  simp at hlen
  refine ⟨hlen, fun i hi => ?_⟩
  have := mapE_ok_get h i (by simp; omega) hi
  simp only [List.getElem_range] at this
  cases ha : mapE (pick i) args with
  | error e => simp [ha] at this
  | ok a =>
    cases hk : mapE (fun (kv : String × PyVal α) => (pick i kv.2).map (fun v => (kv.1, v))) kwargs with
    | error e => simp [ha, hk] at this
    | ok k =>
      simp [ha, hk] at this
      rw [← this]
      refine ⟨rel₂_of_mapE (R := Proj i) (g := pick i) (fun x y hxy => pick_ok_iff.1 hxy) ha,
        rel₂_of_mapE (R := fun kv kv' => kv'.1 = kv.1 ∧ Proj i kv.2 kv'.2) (fun x y hxy => ?_) hk⟩
      cases hp : pick i x.2 with
      | error e => simp [hp, Except.map] at hxy
      | ok w =>
        simp [hp, Except.map] at hxy
        subst hxy
        exact ⟨rfl, pick_ok_iff.1 hp⟩

theorem proj_one (i : Nat) (a : α) : Proj i (PyVal.one a) (PyVal.one a) := rfl

theorem noblk_proj {i : Nat} {v : PyVal α} (h : v.isBlk = false) : Proj i v v := by
  cases v with
  | blk l => simp [PyVal.isBlk] at h
  | one a => rfl

theorem filter_isBlk_noblk {l : Bound α} (h : ∀ kv ∈ l, kv.2.isBlk = false) :
    l.filter (fun kv => kv.2.isBlk) = [] ∧ l.filter (fun kv => !kv.2.isBlk) = l := by
  constructor
  · rw [List.filter_eq_nil_iff]; intro kv hkv; simp [h kv hkv]
  · rw [List.filter_eq_self]; intro kv hkv; simp [h kv hkv]

end Scico.Block
