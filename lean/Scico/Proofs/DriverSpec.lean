/-
  SPECIFICATIONS for property C15 — written independently of `Model/Driver`'s state
  (`t0`, `td`, the dictionary): everything here is a function of the *history of calls* only.
  Mathlib-free and executable (the driver also evaluates the specification at run time).

  * ideal stop-watch over a call history (`specElapsed`)
  * what a run of `solve` should record (`worldAt`, `specTime`, …)
-/
import Scico.Model.Driver

namespace Scico.Driver.Spec
open Scico.Driver

/-! ## Ideal stop-watch -/

/-- constructor arguments of the timer object -/
structure Cfg (L : Type) where
  init : Arg L
  dflt : L
  all : L
deriving Repr

section
variable {L : Type} [DecidableEq L]

def Cfg.initLabels (c : Cfg L) : List L :=
  match c.init with
  | .none => []
  | .one l => [l]
  | .many ls => ls

/-- labels named by a `start` call (API documentation: `None` means the default label) -/
def Cfg.startLabels (c : Cfg L) : Arg L → List L
  | .none => [c.dflt]
  | .one l => [l]
  | .many ls => ls

/-- a label *exists* after the calls `pre` iff it was given to the constructor or named in an
    earlier `start` call -/
def known (c : Cfg L) (pre : List (Call L)) (l : L) : Bool :=
  c.initLabels.contains l ||
    pre.any (fun k => k.op == .start && (c.startLabels k.arg).contains l)

/-- the explicit label list of a `stop`/`reset` call, `none` when the call addresses every
    existing label (`all_label`, also through the default label) -/
def Cfg.explicitTargets (c : Cfg L) : Arg L → Option (List L)
  | .none => if c.dflt = c.all then none else some [c.dflt]
  | .one l => if l = c.all then none else some [l]
  | .many ls => some ls

/-- does the call (issued after `pre`) deliver an event to label `l`?
    * `start` reaches every label it names;
    * `stop`/`reset` of *all* reaches every existing label;
    * `stop`/`reset` of an explicit list reaches the labels before the first non-existing one
      (that one raises `KeyError` and ends the call). -/
def reaches (c : Cfg L) (pre : List (Call L)) (k : Call L) (l : L) : Bool :=
  match k.op with
  | .start => (c.startLabels k.arg).contains l
  | _ =>
    match c.explicitTargets k.arg with
    | none => known c pre l
    | some ls => (ls.takeWhile (known c pre)).contains l

/-- does the call raise `KeyError`?  exactly when it is a `stop`/`reset` naming, in an explicit
    list, a label that does not exist -/
def raisesKey (c : Cfg L) (pre : List (Call L)) (k : Call L) : Bool :=
  match k.op with
  | .start => false
  | _ =>
    match c.explicitTargets k.arg with
    | none => false
    | some ls => !(ls.all (known c pre))

/-- the events (time, operation) label `l` receives from the calls `h` issued after `pre` -/
def labelHistoryFrom (c : Cfg L) (l : L) : List (Call L) → List (Call L) → List (Nat × Op)
  | _, [] => []
  | pre, k :: rest =>
    (if reaches c pre k l then [(k.time, k.op)] else []) ++ labelHistoryFrom c l (pre ++ [k]) rest

def labelHistory (c : Cfg L) (h : List (Call L)) (l : L) : List (Nat × Op) :=
  labelHistoryFrom c l [] h

end

/-- the most recent event at or before the beginning of tick `s` -/
def lastBefore (es : List (Nat × Op)) (s : Nat) : Option Op :=
  ((es.filter (fun e => e.1 ≤ s)).getLast?).map (·.2)

/-- the watch runs during tick `s` (the interval `[s, s+1)`) iff the most recent event of the
    label at or before `s` is a `start` -/
def runningAt (es : List (Nat × Op)) (s : Nat) : Bool := lastBefore es s == some .start

/-- time of the most recent `reset` (0 if there is none: then every tick qualifies) -/
def lastResetTime (es : List (Nat × Op)) : Nat :=
  match (es.filter (fun e => e.2 == .reset)).getLast? with
  | some e => e.1
  | none => 0

/-- tick `s` counts towards the total: not before the last reset, and running -/
def counted (es : List (Nat × Op)) (s : Nat) : Bool :=
  decide (lastResetTime es ≤ s) && runningAt es s

/-- `elapsed(total=True)`: number of ticks before `now` that count -/
def specTotal (es : List (Nat × Op)) (now : Nat) : Nat := (List.range now).countP (counted es)

/-- the maximal trailing run of `start` events -/
def trailingStarts (es : List (Nat × Op)) : List (Nat × Op) :=
  (es.reverse.takeWhile (fun e => e.2 == .start)).reverse

/-- `elapsed(total=False)`: time since the first `start` of the trailing run of `start`s
    (the most recent start without a later stop/reset), 0 if not running -/
def specCurrent (es : List (Nat × Op)) (now : Nat) : Nat :=
  match (trailingStarts es).head? with
  | some e => now - e.1
  | none => 0

section
variable {L : Type} [DecidableEq L]

/-- what `elapsed(label, total)` must return at time `now` after the calls `h`;
    `none` = `KeyError` (explicit label that does not exist) -/
def specElapsed (c : Cfg L) (h : List (Call L)) (label : Option L) (total : Bool) (now : Nat) :
    Option Nat :=
  let l := label.getD c.dflt
  if known c h l then
    some (if total then specTotal (labelHistory c h l) now else specCurrent (labelHistory c h l) now)
  else if label.isNone then some 0
  else none

/-- clock values along a history never decrease and none is after `now` -/
def Monotone (h : List (Call L)) (now : Nat) : Prop :=
  h.Pairwise (fun a b => a.time ≤ b.time) ∧ ∀ k ∈ h, k.time ≤ now

end

/-! ## What `solve` must do -/

section
variable {ω ρ ξ α : Type}

/-- effect of the (optional) callback on the state -/
def cbRun (cb : Option (Callback ω)) (w : ω) : ω :=
  match cb with
  | none => w
  | some c => c.run w

def cbTicks (cb : Option (Callback ω)) (w : ω) : Nat :=
  match cb with
  | none => 0
  | some c => c.ticks w

/-- one full iteration: `step()` then the callback -/
def iterWorld (E : Env ω ρ ξ α) (cb : Option (Callback ω)) (w : ω) : ω := cbRun cb (E.step w)

/-- state at the beginning of iteration `k` (0-based) -/
def worldAt (E : Env ω ρ ξ α) (cb : Option (Callback ω)) (w : ω) : Nat → ω
  | 0 => w
  | k + 1 => iterWorld E cb (worldAt E cb w k)

/-- state right after the `step()` of iteration `k`: what the accessors, the NaN test and the
    callback see -/
def afterStep (E : Env ω ρ ξ α) (cb : Option (Callback ω)) (w : ω) (k : Nat) : ω :=
  E.step (worldAt E cb w k)

/-- specification of "some working variable holds a non-finite value": there is a variable
    and, in it, an entry (of any block) that is not finite -/
def hasNonFinite (fin : α → Bool) (vars : List (Var α)) : Prop :=
  ∃ v ∈ vars, match v with
    | .plain xs => ∃ x ∈ xs, fin x = false
    | .block bs => ∃ b ∈ bs, ∃ x ∈ b, fin x = false

/-- iteration `k` trips the NaN stop -/
def tripsAt (E : Env ω ρ ξ α) (cb : Option (Callback ω)) (w : ω) (nanstop : Bool) (k : Nat) : Prop :=
  nanstop = true ∧ hasNonFinite E.fin (E.vars (afterStep E cb w k))

/-- total duration of the `step()` calls of the first `n` iterations — no callback time in it -/
def stepTime (E : Env ω ρ ξ α) (cb : Option (Callback ω)) (w : ω) (n : Nat) : Nat :=
  ((List.range n).map (fun j => E.stepTicks (worldAt E cb w j))).sum

/-- total duration of the callbacks of the first `n` iterations -/
def cbTime (E : Env ω ρ ξ α) (cb : Option (Callback ω)) (w : ω) (n : Nat) : Nat :=
  ((List.range n).map (fun j => cbTicks cb (afterStep E cb w j))).sum

/-- the record iteration `k` must produce when the loop starts with counter value `i0`,
    state `w` and `e0` ticks already on the default timer: numbered `i0 + k`, reporting the time
    spent in the `step()` calls so far (and nothing of the callbacks), with the accessor values
    of the state right after the step -/
def specRow (E : Env ω ρ ξ α) (cb : Option (Callback ω)) (w : ω) (i0 : Int) (e0 : Nat) (k : Nat) :
    Row ρ :=
  ⟨i0 + k, e0 + stepTime E cb w (k + 1), E.fields (afterStep E cb w k)⟩

/-- the callback invocation iteration `k` must produce (`c0` = clock when the loop starts) -/
def specCb (E : Env ω ρ ξ α) (cb : Option (Callback ω)) (w : ω) (i0 : Int) (c0 : Nat) (k : Nat) :
    CbRec ω :=
  let enter := c0 + stepTime E cb w (k + 1) + cbTime E cb w k
  ⟨i0 + k, afterStep E cb w k, enter, enter + cbTicks cb (afterStep E cb w k)⟩

/-- the two timer calls that bracket the callback of iteration `k` -/
def specBracket {L : Type} (E : Env ω ρ ξ α) (cb : Option (Callback ω)) (w : ω) (c0 : Nat) (k : Nat) :
    List (Call L) :=
  [⟨(specCb E cb w 0 c0 k).enter, .stop, .none⟩, ⟨(specCb E cb w 0 c0 k).leave, .start, .none⟩]

end

end Scico.Driver.Spec
