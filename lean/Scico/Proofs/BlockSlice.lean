/-
  `x[start:stop:step]` on block arrays (C13, round 2): the indices Python's slice selects are in range,
  so the model's reads never fall outside the list.
-/
import Scico.Proofs.Block
import Mathlib.Tactic.Linarith

namespace Scico.Block

variable {α δ : Type}

/-- the clipped bounds: for a positive step both lie in `[0, n]`, for a negative one in `[-1, n-1]` -/
theorem sliceBounds_range {n : Nat} {start stop step : Option Int} {a b st : Int}
    (h : sliceBounds n start stop step = some (a, b, st)) :
    st ≠ 0 ∧ (0 < st → 0 ≤ a ∧ a ≤ n ∧ 0 ≤ b ∧ b ≤ n) ∧ (st < 0 → -1 ≤ a ∧ a ≤ (n : Int) - 1 ∧ -1 ≤ b ∧ b ≤ (n : Int) - 1) := by
  unfold sliceBounds at h
  simp only [] at h
  split at h
  · cases h
  · rename_i hst
    simp only [Option.some.injEq, Prod.mk.injEq] at h
    obtain ⟨ha, hb, hs⟩ := h
    subst hs
    refine ⟨hst, ?_, ?_⟩
    · intro hpos
      have hn : ¬ (step.getD 1 < 0) := by omega
      subst ha hb
      cases start <;> cases stop <;> simp only [hn, if_false] <;> (repeat' split) <;> omega
    · intro hneg
      subst ha hb
      cases start <;> cases stop <;> simp only [hneg, if_true] <;> (repeat' split) <;> omega

theorem mul_le_of_le_ediv {x d i : Int} (hd : 0 < d) (hi : i ≤ x / d) : i * d ≤ x :=
  le_trans (Int.mul_le_mul_of_nonneg_right hi (le_of_lt hd)) (Int.ediv_mul_le x (ne_of_gt hd))

/-- every index of the slice is a valid list index -/
theorem sliceIdx_in_range {n : Nat} {start stop step : Option Int} {a b st : Int}
    (h : sliceBounds n start stop step = some (a, b, st)) :
    ∀ j ∈ sliceIdx a b st, 0 ≤ j ∧ j < n := by
  obtain ⟨hst, hpos, hneg⟩ := sliceBounds_range h
  intro j hj
  simp only [sliceIdx, List.mem_map, List.mem_range] at hj
  obtain ⟨i, hi, rfl⟩ := hj
  unfold sliceLen at hi
  by_cases hs : st < 0
  · obtain ⟨a1, a2, b1, b2⟩ := hneg hs
    simp only [hs, if_true] at hi
    by_cases hba : b < a
    · simp only [hba, if_true] at hi
      have hq : (0 : Int) ≤ (a - b - 1) / (-st) := Int.ediv_nonneg (by omega) (by omega)
      have hi' : (i : Int) ≤ (a - b - 1) / (-st) := by omega
      have := mul_le_of_le_ediv (by omega : 0 < -st) hi'
      have h0 : (0 : Int) ≤ (i : Int) * (-st) := Int.mul_nonneg (by omega) (by omega)
      constructor <;> nlinarith
    · simp [hba] at hi
  · have hs' : 0 < st := by omega
    obtain ⟨a1, a2, b1, b2⟩ := hpos hs'
    simp only [hs, if_false] at hi
    by_cases hab : a < b
    · simp only [hab, if_true] at hi
      have hq : (0 : Int) ≤ (b - a - 1) / st := Int.ediv_nonneg (by omega) (by omega)
      have hi' : (i : Int) ≤ (b - a - 1) / st := by omega
      have := mul_le_of_le_ediv hs' hi'
      have h0 : (0 : Int) ≤ (i : Int) * st := Int.mul_nonneg (by omega) (by omega)
      constructor <;> nlinarith
    · simp [hab] at hi

/-- the blocks a slice selects: one block per index of `range(a, b, st)`, each read inside the list -/
theorem slice_reads {n : Nat} (self : List α) (hn : self.length = n) {start stop step : Option Int} {a b st : Int}
    (h : sliceBounds n start stop step = some (a, b, st)) :
    List.Forall₂ (fun (j : Int) (x : α) => ∃ hj : j.toNat < self.length, x = self[j.toNat])
      (sliceIdx a b st) ((sliceIdx a b st).filterMap (fun j => self[j.toNat]?)) := by
  have hr := sliceIdx_in_range h
  generalize sliceIdx a b st = l at hr ⊢
  induction l with
  | nil => exact .nil
  | cons j rest ih =>
    have hj := hr j (by simp)
    have hlt : j.toNat < self.length := by omega
    have : self[j.toNat]? = some self[j.toNat] := List.getElem?_eq_getElem hlt
    simp only [List.filterMap_cons, this]
    exact .cons ⟨hlt, rfl⟩ (ih (fun x hx => hr x (by simp [hx])))

end Scico.Block

namespace Scico.Block
variable {α δ : Type}

theorem range_filterMap_take (self : List α) : ∀ (k : Nat),
    (List.range k).filterMap (fun i => self[i]?) = self.take k
  | 0 => by simp
  | k + 1 => by
    rw [List.range_succ, List.filterMap_append, range_filterMap_take self k, List.take_succ]
    cases h : self[k]? <;> simp [h]

theorem sliceLen_prefix (k : Nat) : sliceLen 0 (k : Int) 1 = k := by
  unfold sliceLen
  by_cases hk : (0 : Int) < k
  · simp only [show ¬ ((1 : Int) < 0) by omega, if_false, hk, if_true, Int.ediv_one]
    omega
  · have : k = 0 := by omega
    subst this
    simp

/-- `x[:k]` reads blocks `0, …, k-1` -/
theorem slice_prefix_reads (self : List α) (k : Nat) :
    (sliceIdx 0 (k : Int) 1).filterMap (fun j => self[j.toNat]?) = self.take k := by
  unfold sliceIdx
  rw [sliceLen_prefix, List.filterMap_map]
  have : ((fun j : Int => self[j.toNat]?) ∘ fun (i : Nat) => (0 : Int) + (i : Int) * 1) = fun i => self[i]? := by
    funext i
    simp
  rw [this, range_filterMap_take]

end Scico.Block

/-! ### iteration through the legacy sequence protocol -/

namespace Scico.Block
variable {α : Type}
theorem getItem_nat (self : List α) (i : Nat) :
    getItem self (i : Int) = if h : i < self.length then .ok self[i] else .error .index := by
  unfold getItem
  have h0 : ¬ ((i : Int) < 0) := by omega
  simp only [h0, if_false, false_or]
  by_cases h : i < self.length
  · have : ¬ ((self.length : Int) ≤ i) := by omega
    simp [this, h]
  · have : (self.length : Int) ≤ i := by omega
    simp [this, h]

theorem iterFrom_eq_drop (self : List α) : ∀ (fuel i : Nat), self.length - i + 1 ≤ fuel →
    iterFrom self i fuel = self.drop i
  | 0, i, h => by omega
  | fuel + 1, i, h => by
    unfold iterFrom
    rw [getItem_nat]
    by_cases hi : i < self.length
    · simp only [hi, dif_pos]
      rw [iterFrom_eq_drop self fuel (i + 1) (by omega)]
      exact (List.drop_eq_getElem_cons hi).symm
    · simp only [hi, dif_neg, not_false_eq_true]
      rw [List.drop_eq_nil_of_le (by omega)]

end Scico.Block
