/-
  Helper lemmas for `IterateData` (`Scico.Model.Flax` §3): reshape into rows, the state invariant of
  the iterator, and the link between the state machine and the closed-form `specBatch`.
-/
import Scico.Model.Flax
import Mathlib.Data.List.Basic
import Mathlib.Data.List.Nodup
import Mathlib.Data.List.Perm.Basic
import Mathlib.Data.List.Range
import Mathlib.Tactic.Ring

namespace Scico.Flax

/-! ### reshape -/

theorem reshapeRows_length (l : List Nat) (rows cols : Nat) : (reshapeRows l rows cols).length = rows := by
  simp [reshapeRows]

theorem reshapeRows_get (l : List Nat) (rows cols i : Nat) (hi : i < rows) :
    (reshapeRows l rows cols)[i]? = some ((l.drop (i * cols)).take cols) := by
  simp [reshapeRows, hi]

theorem reshapeRows_get_none (l : List Nat) (rows cols i : Nat) (hi : rows ≤ i) :
    (reshapeRows l rows cols)[i]? = none := by
  simp [reshapeRows, hi]

theorem reshapeRows_succ (l : List Nat) (rows cols : Nat) :
    reshapeRows l (rows + 1) cols = reshapeRows l rows cols ++ [(l.drop (rows * cols)).take cols] := by
  simp [reshapeRows, List.range_succ]

/-- row-major flattening of the reshaped array gives back the first `rows*cols` entries -/
theorem flatten_reshapeRows (l : List Nat) (rows cols : Nat) :
    (reshapeRows l rows cols).flatten = l.take (rows * cols) := by
  induction rows with
  | zero => simp [reshapeRows]
  | succ r ih =>
    rw [reshapeRows_succ, List.flatten_append, ih, Nat.succ_mul, List.take_add]
    simp

theorem row_length (l : List Nat) (rows cols i : Nat) (hl : rows * cols ≤ l.length) (hi : i < rows) :
    ((l.drop (i * cols)).take cols).length = cols := by
  have h1 : (i + 1) * cols ≤ rows * cols := Nat.mul_le_mul_right cols hi
  rw [Nat.succ_mul] at h1
  simp only [List.length_take, List.length_drop]
  omega

/-- truncating to whole batches first does not change a row -/
theorem row_of_take (l : List Nat) (rows cols i : Nat) (hi : i < rows) :
    ((l.take (rows * cols)).drop (i * cols)).take cols = (l.drop (i * cols)).take cols := by
  have h1 : (i + 1) * cols ≤ rows * cols := Nat.mul_le_mul_right cols hi
  rw [Nat.succ_mul] at h1
  rw [List.drop_take, List.take_take]
  congr 1
  omega


theorem reshapeRows_take (l : List Nat) (rows cols : Nat) :
    reshapeRows (l.take (rows * cols)) rows cols = reshapeRows l rows cols := by
  unfold reshapeRows
  apply List.map_congr_left
  intro i hi
  exact row_of_take l rows cols i (List.mem_range.mp hi)

/-! ### the state invariant -/

/-- state after some calls: we are in epoch `e`, `j` batches of it have been handed out -/
structure Inv {κ : Type} (K : KeyOps κ) (key : κ) (n b : Nat) (train : Bool) (e j : Nat) (it : Iter κ) : Prop where
  hn : it.n = n
  hb : it.b = b
  ht : it.train = train
  hspe : it.spe = n / b
  hkey : it.key = if train then chain K key (e + 1) else key
  hperms : it.perms = reshapeRows ((epochPerm K key n train e).take (n / b * b)) (n / b) b
  hns : it.ns = j
  hj : j ≤ n / b

theorem epochPerm_eval {κ : Type} (K : KeyOps κ) (key : κ) (n e : Nat) :
    epochPerm K key n false e = List.range n := by simp [epochPerm]

theorem init_inv {κ : Type} (K : KeyOps κ) (key : κ) (n b : Nat) (train : Bool) (hb : b ≠ 0) :
    ∃ it, Iter.init K n b train key = .ok it ∧ Inv K key n b train 0 0 it := by
  unfold Iter.init
  simp only [hb, if_false]
  refine ⟨_, rfl, ?_⟩
  cases train
  · constructor <;> simp [Iter.reset, epochPerm]
  · constructor <;> simp [Iter.reset, epochPerm, chain, subkey]

theorem reset_inv {κ : Type} (K : KeyOps κ) (key : κ) (n b : Nat) (e j : Nat) (it : Iter κ)
    (h : Inv K key n b true e j it) : Inv K key n b true (e + 1) 0 (Iter.reset K it) := by
  obtain ⟨hn, hb, ht, hspe, hkey, hperms, hns, hj⟩ := h
  simp only [if_true] at hkey
  constructor <;> simp [Iter.reset, ht, hn, hb, hspe, hkey, epochPerm, subkey, chain]

/-- one `next` call: emits the spec batch number `e*spe + j` and moves the invariant on by one -/
theorem next_spec {κ : Type} (K : KeyOps κ) (key : κ) (n b : Nat) (train : Bool) (e j : Nat) (it : Iter κ)
    (h : Inv K key n b train e j it) (hspe : 0 < n / b) :
    ∃ it' e' j', Iter.next K it = .ok (it', specBatch K key n b train (e * (n / b) + j)) ∧
      Inv K key n b train e' j' it' ∧ e' * (n / b) + j' = e * (n / b) + j + 1 := by
  have h0 := h
  obtain ⟨hn, hb, ht, hs, hkey, hperms, hns, hj⟩ := h
  by_cases hlt : j < n / b
  · -- still inside epoch e
    refine ⟨{ it with ns := it.ns + 1 }, e, j + 1, ?_, ?_, by omega⟩
    · unfold Iter.next
      have : ¬ (it.ns ≥ it.spe) := by rw [hns, hs]; omega
      simp only [this, if_false]
      rw [hperms, hns, reshapeRows_get _ _ _ _ hlt, row_of_take _ _ _ _ hlt]
      simp only [specBatch]
      rw [Nat.mul_comm e, Nat.mul_add_div hspe, Nat.div_eq_of_lt hlt, Nat.mul_add_mod, Nat.mod_eq_of_lt hlt]
      simp
    · exact ⟨hn, hb, ht, hs, hkey, hperms, by simp [hns], hlt⟩
  · -- epoch exhausted: reset (train) / rewind (eval), then the first batch of epoch e+1
    have hje : j = n / b := by omega
    have hspec : specBatch K key n b train (e * (n / b) + j) =
        ((epochPerm K key n train (e + 1)).drop (0 * b)).take b := by
      simp only [specBatch]
      rw [hje, show e * (n / b) + n / b = (n / b) * (e + 1) + 0 by rw [Nat.mul_comm e]; ring]
      rw [Nat.mul_add_div hspe, Nat.mul_add_mod]
      simp [Nat.zero_div, Nat.zero_mod]
    cases train
    · -- evaluation iterator: `self.ns = 0`
      have hinv : Inv K key n b false (e + 1) 0 { it with ns := 0 } :=
        ⟨hn, hb, ht, hs, by simpa using hkey, by simpa [epochPerm] using hperms, rfl, Nat.zero_le _⟩
      refine ⟨{ it with ns := 1 }, e + 1, 1, ?_, ?_, by rw [hje]; ring⟩
      · unfold Iter.next
        have : it.ns ≥ it.spe := by rw [hns, hs]; omega
        simp only [this, if_true, ht]
        rw [hspec]
        have hr := reshapeRows_get ((epochPerm K key n false (e + 1)).take (n / b * b)) (n / b) b 0 hspe
        rw [row_of_take _ _ _ _ hspe] at hr
        have hp := hinv.hperms
        simp only at hp
        simp only [Bool.false_eq_true, if_false, hp, hr]
      · exact ⟨hn, hb, ht, hs, by simpa using hkey, hinv.hperms, rfl, hspe⟩
    · -- training iterator: `self.reset()`
      have hinv := reset_inv K key n b e j it h0
      refine ⟨{ Iter.reset K it with ns := 1 }, e + 1, 1, ?_, ?_, by rw [hje]; ring⟩
      · unfold Iter.next
        have : it.ns ≥ it.spe := by rw [hns, hs]; omega
        simp only [this, if_true, ht]
        rw [hspec]
        have hr := reshapeRows_get ((epochPerm K key n true (e + 1)).take (n / b * b)) (n / b) b 0 hspe
        rw [row_of_take _ _ _ _ hspe] at hr
        rw [hinv.hperms, hinv.hns, hr]
      · exact ⟨hinv.hn, hinv.hb, hinv.ht, hinv.hspe, hinv.hkey, hinv.hperms, rfl, hspe⟩

/-- `t` calls emit the spec batches `T, T+1, …, T+t-1` where `T = e*spe + j` -/
theorem run_spec {κ : Type} (K : KeyOps κ) (key : κ) (n b : Nat) (train : Bool) (hspe : 0 < n / b) :
    ∀ (t e j : Nat) (it : Iter κ), Inv K key n b train e j it →
      ∃ it', Iter.run K t it =
        .ok (it', (List.range' (e * (n / b) + j) t).map (specBatch K key n b train)) := by
  intro t
  induction t with
  | zero => intro e j it _; exact ⟨it, by simp [Iter.run]⟩
  | succ t ih =>
    intro e j it h
    obtain ⟨it1, e1, j1, hnext, hinv1, hT⟩ := next_spec K key n b train e j it h hspe
    obtain ⟨it2, hrun⟩ := ih e1 j1 it1 hinv1
    refine ⟨it2, ?_⟩
    simp only [Iter.run, hnext, hrun, hT, List.range'_succ, List.map_cons]

/-- no complete batch (`batch_size > n`): the first `next` raises `IndexError`, in both modes -/
theorem next_spe_zero {κ : Type} (K : KeyOps κ) (key : κ) (n b : Nat) (train : Bool) (e : Nat) (it : Iter κ)
    (h : Inv K key n b train e 0 it) (hspe : n / b = 0) : Iter.next K it = .error .index := by
  have h0 := h
  obtain ⟨hn, hb, ht, hs, hkey, hperms, hns, hj⟩ := h
  unfold Iter.next
  have : it.ns ≥ it.spe := by rw [hns, hs]; omega
  simp only [this, if_true]
  cases train
  · simp only [ht, Bool.false_eq_true, if_false]
    rw [hperms, reshapeRows_get_none _ _ _ _ (by omega)]
  · have hinv := reset_inv K key n b e 0 it h0
    simp only [ht, if_true]
    rw [hinv.hperms, hinv.hns, reshapeRows_get_none _ _ _ _ (by omega)]

/-! ### one epoch -/

/-- the batches of one epoch, as the spec produces them, are the rows of the reshaped sample order -/
theorem epoch_rows {κ : Type} (K : KeyOps κ) (key : κ) (n b : Nat) (train : Bool) (e : Nat) (hspe : 0 < n / b) :
    (List.range (n / b)).map (fun j => specBatch K key n b train (e * (n / b) + j)) =
      reshapeRows (epochPerm K key n train e) (n / b) b := by
  unfold reshapeRows
  apply List.map_congr_left
  intro j hj
  have hlt : j < n / b := List.mem_range.mp hj
  simp only [specBatch]
  rw [Nat.mul_comm e, Nat.mul_add_div hspe, Nat.div_eq_of_lt hlt, Nat.mul_add_mod, Nat.mod_eq_of_lt hlt]
  simp

/-- facts about the rows cut from any permutation `p` of `range n` -/
theorem rows_of_perm (p : List Nat) (n b : Nat) (hp : p.Perm (List.range n)) :
    let rows := reshapeRows p (n / b) b
    rows.length = n / b ∧ (∀ r ∈ rows, r.length = b) ∧ rows.flatten = p.take (n / b * b) ∧
      rows.flatten.Nodup ∧ (∀ i ∈ rows.flatten, i < n) ∧ rows.flatten.length = n / b * b ∧
      rows.Pairwise List.Disjoint := by
  intro rows
  have hlen : p.length = n := by simpa using hp.length_eq
  have hle : n / b * b ≤ p.length := by rw [hlen]; exact Nat.div_mul_le_self n b
  have hflat : rows.flatten = p.take (n / b * b) := flatten_reshapeRows p (n / b) b
  have hnd : p.Nodup := hp.nodup_iff.mpr List.nodup_range
  have hnd' : rows.flatten.Nodup := by rw [hflat]; exact hnd.sublist (List.take_sublist _ _)
  refine ⟨reshapeRows_length _ _ _, ?_, hflat, hnd', ?_, ?_, ?_⟩
  · intro r hr
    simp only [rows, reshapeRows, List.mem_map, List.mem_range] at hr
    obtain ⟨i, hi, rfl⟩ := hr
    exact row_length p (n / b) b i hle hi
  · intro i hi
    rw [hflat] at hi
    have : i ∈ List.range n := hp.subset (List.mem_of_mem_take hi)
    exact List.mem_range.mp this
  · rw [hflat, List.length_take]; omega
  · exact (List.nodup_flatten.mp hnd').2

/-- in evaluation mode a batch is a block of consecutive row numbers -/
theorem eval_batch (n b k : Nat) (hk : k * b + b ≤ n) :
    ((List.range n).drop (k * b)).take b = List.range' (k * b) b := by
  rw [List.range_eq_range', List.drop_range', List.take_range'_of_length_ge (by omega)]
  simp

end Scico.Flax
