/-
  Proofs/StepsExamples — concrete problem instances (in every real inner-product space) on which the
  hypotheses of the C03 theorems are discharged: used only for the non-vacuity `example`s of `Props/C03.lean`.

  Problem:  minimise `½‖x − y0‖² + Σ_i 0(C_i x)` with `C_i = I` (any number of constraints, any `ρ_i > 0`);
  minimiser `x* = y0`, multipliers `u_i* = 0`.  The ADMM x-update is solved exactly,
  `x⁺ = (y0 + Σρ_i(z_i − u_i)) / (1 + Σρ_i)`.
-/
import Scico.Model.Steps
import Scico.Proofs.StepsConvex
import Scico.Proofs.StepsFixed
import Scico.Proofs.StepsPGM
import Scico.Proofs.StepsLyapN
import Scico.Proofs.StepsRelax
import Scico.Proofs.StepsPDHG
import Scico.Proofs.StepsProxADMM
import Scico.Proofs.StepsFISTA
import Mathlib.Tactic.Abel

set_option linter.unusedSectionVars false

namespace Scico.Steps

variable {E : Type} [NormedAddCommGroup E] [InnerProductSpace ℝ E]

local notation "⟪" x ", " y "⟫" => inner ℝ x y

/-- `½‖· − y0‖²` as a `Fn` -/
noncomputable def halfSq (y0 : E) : Fn E := Fn.ofReal (fun x : E => 1 / 2 * ‖x - y0‖ ^ 2)

theorem halfSq_subgrad (y0 x : E) : (halfSq y0).Subgrad x (x - y0) := by
  refine ⟨trivial, fun y _ => ?_⟩
  simp only [halfSq, Fn.ofReal]
  have e : y - y0 = (x - y0) + (y - x) := by abel
  rw [e, norm_add_sq_real]
  have : 0 ≤ ‖y - x‖ ^ 2 := by positivity
  linarith

/-- the sub-gradient of `½‖· − y0‖²` is unique -/
theorem halfSq_subgrad_eq (y0 x g : E) (h : (halfSq y0).Subgrad x g) : g = x - y0 := by
  set d := g - (x - y0) with hd
  have h1 := h.2 (x + d) trivial
  simp only [halfSq, Fn.ofReal] at h1
  have e : x + d - y0 = (x - y0) + d := by abel
  have e2 : x + d - x = d := by abel
  rw [e, e2, norm_add_sq_real] at h1
  have e3 : ⟪g, d⟫ = ⟪x - y0, d⟫ + ‖d‖ ^ 2 := by
    have : g = (x - y0) + d := by rw [hd]; abel
    rw [this, inner_add_left, real_inner_self_eq_norm_sq]
  rw [e3] at h1
  have h0 : 0 ≤ ‖d‖ ^ 2 := by positivity
  have : ‖d‖ ^ 2 ≤ 0 := by linarith
  have hz : ‖d‖ = 0 := by
    have := le_antisymm this h0
    exact pow_eq_zero_iff two_ne_zero |>.1 this
  have : d = 0 := norm_eq_zero.1 hz
  rw [hd] at this
  exact sub_eq_zero.1 this

theorem halfSq_strong (y0 : E) : StrongSub (halfSq y0) 1 := by
  intro x g y h hx hy
  rw [halfSq_subgrad_eq y0 x g hx, halfSq_subgrad_eq y0 y h hy]
  have : x - y0 - (y - y0) = x - y := by abel
  rw [this, real_inner_self_eq_norm_sq]
  linarith

/-- the zero functional -/
noncomputable def zeroFn : Fn E := Fn.ofReal (fun _ : E => (0 : ℝ))

theorem zeroFn_subgrad (v : E) : (zeroFn : Fn E).Subgrad v 0 := ⟨trivial, fun y _ => by simp [zeroFn, Fn.ofReal]⟩

/-- identity constraint with penalty `rho` and `g = 0` -/
noncomputable def idCon (rho : ℝ) : Con E E :=
  { rho := rho, C := id, Cadj := id, G := zeroFn, g := fun _ => 0, prox := fun _ v => v }

theorem idCon_base (rho : ℝ) (hrho : 0 < rho) (y0 z u : E) :
    RowBase y0 ({ c := idCon rho, z := z, u := u, us := 0 } : Row E E) :=
  ⟨fun _ _ => rfl, fun _ _ => rfl, hrho, isProx_zero, by simpa [idCon] using zeroFn_subgrad (E := E) _⟩

/-- `Σρ_i` and `Σρ_i (z_i − u_i)` over the zipped lists (what the x-update reads) -/
noncomputable def sumRho (cons : List (Con E E)) (z u : List E) : ℝ :=
  ((cons.zip (z.zip u)).map (fun t => t.1.rho)).sum
noncomputable def sumRhoZU (cons : List (Con E E)) (z u : List E) : E :=
  ((cons.zip (z.zip u)).map (fun t => t.1.rho • (t.2.1 - t.2.2))).sum

theorem xGrad_id (cons : List (Con E E)) (hid : ∀ c ∈ cons, c.C = id ∧ c.Cadj = id) (z u : List E) (x : E) :
    xGrad cons z u x = sumRhoZU cons z u - sumRho cons z u • x := by
  unfold xGrad sumRhoZU sumRho
  have hl : ∀ t ∈ cons.zip (z.zip u), t.1.C = id ∧ t.1.Cadj = id := fun t ht => hid _ (List.of_mem_zip ht).1
  generalize cons.zip (z.zip u) = l at hl
  induction l with
  | nil => simp
  | cons t l ih =>
    have h1 := hl t (by simp)
    have h2 := ih (fun t' ht' => hl t' (by simp [ht']))
    simp only [List.map_cons, List.sum_cons, h2, add_smul, h1.1, h1.2, id]
    simp only [smul_sub]
    abel

theorem sumRho_nonneg (cons : List (Con E E)) (hpos : ∀ c ∈ cons, 0 < c.rho) (z u : List E) :
    0 ≤ sumRho cons z u := by
  unfold sumRho
  apply List.sum_nonneg
  intro v hv
  simp only [List.mem_map] at hv
  obtain ⟨t, ht, rfl⟩ := hv
  exact (hpos _ (List.of_mem_zip ht).1).le

/-- the exact x-update of `½‖x − y0‖² + Σρ_i/2‖z_i − u_i − x‖²` -/
noncomputable def exSolveX (y0 : E) (cons : List (Con E E)) : List E → List E → E → E :=
  fun z u _ => (1 / (1 + sumRho cons z u)) • (y0 + sumRhoZU cons z u)

theorem exSolveX_stationary (y0 : E) (cons : List (Con E E)) (hid : ∀ c ∈ cons, c.C = id ∧ c.Cadj = id)
    (hpos : ∀ c ∈ cons, 0 < c.rho) (z u : List E) (x0 : E) :
    (halfSq y0).Subgrad (exSolveX y0 cons z u x0) (xGrad cons z u (exSolveX y0 cons z u x0)) := by
  have hS := sumRho_nonneg cons hpos z u
  have hne : (1 + sumRho cons z u) ≠ 0 := by positivity
  rw [xGrad_id cons hid]
  have e : sumRhoZU cons z u - sumRho cons z u • exSolveX y0 cons z u x0 = exSolveX y0 cons z u x0 - y0 := by
    have h1 : (1 + sumRho cons z u) • exSolveX y0 cons z u x0 = y0 + sumRhoZU cons z u := by
      unfold exSolveX
      rw [smul_smul]
      have : (1 + sumRho cons z u) * (1 / (1 + sumRho cons z u)) = 1 := by field_simp
      rw [this, one_smul]
    rw [add_smul, one_smul] at h1
    have : sumRhoZU cons z u = exSolveX y0 cons z u x0 + sumRho cons z u • exSolveX y0 cons z u x0 - y0 := by
      rw [h1]; abel
    rw [this]; abel
  rw [e]
  exact halfSq_subgrad y0 _

theorem exSolveX_unique (y0 : E) (cons : List (Con E E)) (hid : ∀ c ∈ cons, c.C = id ∧ c.Cadj = id)
    (hpos : ∀ c ∈ cons, 0 < c.rho) (z u : List E) (x x' : E)
    (h : (halfSq y0).Subgrad x (xGrad cons z u x)) (h' : (halfSq y0).Subgrad x' (xGrad cons z u x')) : x = x' := by
  have hS := sumRho_nonneg cons hpos z u
  have e1 := halfSq_subgrad_eq y0 x _ h
  have e2 := halfSq_subgrad_eq y0 x' _ h'
  rw [xGrad_id cons hid] at e1 e2
  -- (1 + S)(x − x') = 0
  have : (1 + sumRho cons z u) • (x - x') = 0 := by
    rw [add_smul, one_smul, smul_sub]
    have a1 : sumRho cons z u • x = sumRhoZU cons z u - (x - y0) := by rw [← e1]; abel
    have a2 : sumRho cons z u • x' = sumRhoZU cons z u - (x' - y0) := by rw [← e2]; abel
    rw [a1, a2]; abel
  have hne : (1 + sumRho cons z u) ≠ 0 := by positivity
  have := (smul_eq_zero.1 this).resolve_left hne
  exact sub_eq_zero.1 this

/-- the x-update contract of `C03_admm_fixed` holds for the exact solver -/
theorem exSolveX_xsolver (y0 : E) (cons : List (Con E E)) (hid : ∀ c ∈ cons, c.C = id ∧ c.Cadj = id)
    (hpos : ∀ c ∈ cons, 0 < c.rho) : XSolver (halfSq y0) cons (exSolveX y0 cons) :=
  ⟨exSolveX_stationary y0 cons hid hpos, exSolveX_unique y0 cons hid hpos⟩

/-- `x* = y0`, `u_i* = 0` is stationary for the x-sub-problem -/
theorem ex_kktx (y0 : E) (cons : List (Con E E)) (hid : ∀ c ∈ cons, c.C = id ∧ c.Cadj = id) :
    (halfSq y0).Subgrad y0 (xGrad cons (cons.map (fun c => c.C y0)) (cons.map (fun _ => (0 : E))) y0) := by
  have : xGrad cons (cons.map (fun c => c.C y0)) (cons.map (fun _ => (0 : E))) y0 = y0 - y0 := by
    unfold xGrad
    rw [sub_self]
    apply List.sum_eq_zero
    intro v hv
    simp only [List.mem_map] at hv
    obtain ⟨t, ht, rfl⟩ := hv
    have hc := hid _ (List.of_mem_zip ht).1
    -- t.2 = (t.1.C y0, 0)
    have hz : t.2.1 = t.1.C y0 ∧ t.2.2 = 0 := by
      have := List.of_mem_zip ht
      obtain ⟨i, hi, hget⟩ := List.getElem_of_mem ht
      simp only [List.getElem_zip, List.getElem_map] at hget
      rw [← hget]
      exact ⟨rfl, rfl⟩
    rw [hz.1, hz.2, hc.1, hc.2]
    simp
  rw [this]
  exact halfSq_subgrad y0 y0

/-- the relaxed-ADMM hypotheses hold on this instance for every `α ∈ [0,2]` with `m = 1` -/
theorem ex_relaxHyp (y0 : E) (rhos : List ℝ) (hpos : ∀ r ∈ rhos, 0 < r) (alpha : ℝ) (ha0 : 0 ≤ alpha) (ha2 : alpha ≤ 2) :
    RelaxHyp alpha 1 (rhos.map idCon) (rhos.map (fun _ => (0 : E))) (exSolveX y0 (rhos.map idCon)) (halfSq y0) y0 := by
  have hid : ∀ c ∈ rhos.map (idCon (E := E)), c.C = id ∧ c.Cadj = id := by
    intro c hc; simp only [List.mem_map] at hc; obtain ⟨r, _, rfl⟩ := hc; exact ⟨rfl, rfl⟩
  have hp : ∀ c ∈ rhos.map (idCon (E := E)), 0 < c.rho := by
    intro c hc; simp only [List.mem_map] at hc; obtain ⟨r, hr, rfl⟩ := hc; exact hpos r hr
  refine ⟨ha0, ha2, by norm_num, halfSq_strong y0, exSolveX_stationary y0 _ hid hp, ?_⟩
  have := ex_kktx y0 (rhos.map idCon) hid
  simpa [List.map_map, Function.comp_def] using this

/-! ### PDHG:  `f = ½‖· − y0‖²`, `g = 0` (`g* =` indicator of `{0}`, `prox_{σg*} = 0`), `C = I`, `τ = σ = ½` -/

noncomputable def exPDHG (y0 : E) : PDHGParams ℝ E E :=
  { f := fun x => 1 / 2 * ‖x - y0‖ ^ 2, g := fun _ => 0, proxf := fun lam v => (1 / (1 + lam)) • (v + lam • y0),
    proxgConj := fun _ _ => 0, C := id, linear := true, Cadj := id, JCadj := fun _ z => z,
    tau := 1 / 2, sigma := 1 / 2, alpha := 1, normX := fun v => ‖v‖, normZ := fun v => ‖v‖ }

theorem exPDHG_hyp (y0 : E) : PDHGHyp (exPDHG y0) (halfSq y0) y0 0 := by
  refine ⟨rfl, rfl, by norm_num [exPDHG], by norm_num [exPDHG], fun _ _ => rfl, fun _ _ => rfl, isProx_halfsq y0, ?_, ?_⟩
  · have := halfSq_subgrad y0 y0
    simpa [exPDHG] using this
  · intro lam _ v
    simp [exPDHG]

theorem exPDHG_range (y0 : E) : PDHGRange (exPDHG y0) 1 (1 / 2) := by
  refine ⟨by norm_num, by norm_num, by norm_num, fun a => by simp [exPDHG], by norm_num [exPDHG]⟩

/-! ### ProximalADMM with the defaults `B = −I`, `c = 0`:  `A = I`, `ρ = μ = ν = 1` -/

noncomputable def exPADMM (y0 : E) : PADMMParams ℝ E E E :=
  { f := fun x => 1 / 2 * ‖x - y0‖ ^ 2, g := fun _ => 0, proxf := fun lam v => (1 / (1 + lam)) • (v + lam • y0),
    proxg := fun _ v => v, A := id, AH := id, B := fun z => -z, BH := fun u => -u, c := 0, rho := 1, mu := 1, nu := 1,
    fastDual := true, normX := fun v => ‖v‖, normZ := fun v => ‖v‖, normU := fun v => ‖v‖ }

theorem exPADMM_hyp (y0 : E) : PADMMHyp (exPADMM y0) (halfSq y0) zeroFn y0 y0 0 := by
  refine ⟨by norm_num [exPADMM], by norm_num [exPADMM], by norm_num [exPADMM], fun _ _ => rfl,
    fun x y => by simp [exPADMM, add_comm], fun _ _ => rfl,
    fun w z => by simp [exPADMM, inner_neg_left, inner_neg_right], isProx_halfsq y0, isProx_zero, by simp [exPADMM],
    ?_, ?_, fun w => by simp [exPADMM], fun w => by simp [exPADMM]⟩
  · have := halfSq_subgrad y0 y0
    simpa [exPADMM] using this
  · have := zeroFn_subgrad (E := E) y0
    simpa [exPADMM] using this

/-! ### LinearizedADMM:  `C = I`, `μ = ½`, `ν = 1` -/

noncomputable def exLADMM (y0 : E) : LADMMParams ℝ E E :=
  { f := fun x => 1 / 2 * ‖x - y0‖ ^ 2, g := fun _ => 0, proxf := fun lam v => (1 / (1 + lam)) • (v + lam • y0),
    proxg := fun _ v => v, C := id, Cadj := id, mu := 1 / 2, nu := 1, normX := fun v => ‖v‖, normZ := fun v => ‖v‖ }

theorem exLADMM_hyp (y0 : E) : LADMMHyp (exLADMM y0) (halfSq y0) zeroFn y0 0 := by
  refine ⟨by norm_num [exLADMM], by norm_num [exLADMM], fun _ _ => rfl, fun _ _ => rfl, isProx_halfsq y0, isProx_zero,
    ?_, ?_, fun w => ?_⟩
  · have := halfSq_subgrad y0 y0
    simpa [exLADMM] using this
  · have := zeroFn_subgrad (E := E) y0
    simpa [exLADMM] using this
  · have : 0 ≤ ‖w‖ ^ 2 := by positivity
    simp only [exLADMM, id]
    norm_num
    linarith

/-! ### PGM / FISTA:  `f = ½‖· − y0‖²`, `g = 0`, `L = 1` -/

noncomputable def exPGM (y0 : E) : PGMParams Unit ℝ E :=
  { f := fun x => 1 / 2 * ‖x - y0‖ ^ 2, g := fun _ => 0, gradf := fun x => x - y0, proxg := fun _ v => v,
    pol := basePolicy 0, normX := fun v => ‖v‖ }

theorem exPGM_fista (y0 : E) : FISTAHyp (exPGM y0) zeroFn 1 := by
  refine ⟨⟨0, rfl⟩, isProx_zero, by norm_num, ?_, ?_⟩
  · intro x y
    simp only [exPGM]
    have e : y - y0 = (x - y0) + (y - x) := by abel
    rw [e, norm_add_sq_real]
    linarith
  · intro x y
    have := (halfSq_subgrad y0 x).2 y trivial
    simpa [halfSq, Fn.ofReal, exPGM] using this

end Scico.Steps
