/-
  Round 2 additions to the tree theorems of property C08:

  * `tree_sound_on` — soundness of *every* value the model of `prox` returns, with no hypothesis on
    the signs of the scale factors: the value is a proximal point of the denoted functional as
    soon as the base functionals' proximal maps are proximal maps *at the parameters they are
    actually called with* (`ParamsOk`).  `tree_sound` (positive scales, `lam > 0`) is the special
    case "base proxes are sound for positive parameters"; a non-positive `ScaledFunctional` /
    `Loss` scale forwards a non-positive parameter to the base prox, which is outside its
    contract — this is exactly what goes wrong there, no more.
  * `loss_nonpos_counterexample` — the flag of a generic `Loss` does not look at its scale:
    `Loss(y=0, f=L1Norm(), scale=-1)` advertises `has_prox` while the value it returns is not a
    proximal point of the functional it denotes.
  * `conjProx_eq` — the model of `conj_prox` is `v − lam·prox(v/lam, 1/lam)`.
-/
import Scico.Proofs.ProxCalcTree
import Scico.Proofs.ProxCalc
import Scico.Proofs.FuncEval

namespace Scico.ProxCalc
open Scico Scico.FuncEval

/-- the parameters with which the base functionals' `prox` are reached from `t.prox(·, lam)` all
    satisfy `ok` -/
def ParamsOk (ok : Nat → ℝ → Prop) (okQ : Arg ℝ → OpK ℝ → Option (List ℝ) → ℝ → ℝ → Prop) : Fn ℝ → ℝ → Prop
  | .leaf i, lam => ok i lam
  | .scaled c f, lam => ParamsOk ok okQ f (lam * c)
  | .sum _ _, _ => True
  | .snil, _ => True
  | .scons f r, lam => ParamsOk ok okQ f lam ∧ ParamsOk ok okQ r lam
  | .lossNone _ _ _, _ => True
  | .loss _ _ f s, lam => ParamsOk ok okQ f (s * lam)
  | .sqL2 y A w s, lam => okQ y A w s lam

/-- the `SquaredL2Loss` nodes return proximal points of `s·Σ w|y − A x|²` under the condition `okQ`
    (closed-form branch: `sqL2_diag_sound`; CG branch: contract on the solver, property C14) -/
def SqSoundOn (E : Env ℝ) (S : LeafSem) (okQ : Arg ℝ → OpK ℝ → Option (List ℝ) → ℝ → ℝ → Prop) : Prop :=
  ∀ y A w s v lam p, okQ y A w s lam → prox E (.sqL2 y A w s) v lam = .ok p →
    IsProxA (fun _ => True) (den E S (.sqL2 y A w s)) lam v p

/-- the base functionals' prox maps are proximal maps for the parameters in `ok` -/
def LeafSoundOn (E : Env ℝ) (S : LeafSem) (ok : Nat → ℝ → Prop) : Prop :=
  ∀ i v lam, ok i lam → E.hasProx i = true → IsProxA (S.dom i) (S.val i) lam v (E.prox i v lam)

/-- **soundness without sign hypotheses**: whatever `prox` returns is a proximal point of the
    denoted functional, provided the leaves are sound at the parameters they receive -/
theorem tree_sound_on (E : Env ℝ) (S : LeafSem) (ok : Nat → ℝ → Prop)
    (okQ : Arg ℝ → OpK ℝ → Option (List ℝ) → ℝ → ℝ → Prop) (hS : LeafSoundOn E S ok) (hQ : SqSoundOn E S okQ) :
    ∀ (t : Fn ℝ) (v p : Arg ℝ) (lam : ℝ), ParamsOk ok okQ t lam →
      prox E t v lam = .ok p → IsProxA (dom E S t) (den E S t) lam v p := by
  intro t
  induction t with
  | leaf i =>
    intro v p lam hok hr
    simp only [prox] at hr
    split at hr
    · simp only [Except.ok.injEq] at hr
      subst hr
      exact hS i v lam hok ‹_›
    · cases hr
  | scaled c f ih =>
    intro v p lam hok hr
    obtain ⟨h1, h2, h3⟩ := ih v p (lam * c) hok hr
    refine ⟨h1, h2, fun x hx hdx => ?_⟩
    have := h3 x hx hdx
    simp only [den]
    linarith
  | sum f g _ _ => intro v p lam _ hr; simp [prox] at hr
  | snil =>
    intro v p lam _ hr
    match v with
    | .arr _ => simp [prox] at hr
    | .blk (_ :: _) => simp [prox] at hr
    | .blk [] =>
      simp only [prox, Except.ok.injEq] at hr
      subst hr
      refine ⟨by simp [Arg.shapeEq], trivial, fun x hx _ => ?_⟩
      cases x with
      | arr _ => simp [Arg.shapeEq] at hx
      | blk xs =>
        simp only [Arg.shapeEq, List.map_nil, List.map_eq_nil_iff] at hx
        subst hx
        simp [den]
  | scons f r ihf ihr =>
    intro v p lam hok hr
    match v with
    | .arr _ => simp [prox] at hr
    | .blk [] => simp [prox] at hr
    | .blk (b :: bs) =>
      simp only [prox, bind, Except.bind] at hr
      cases hpa : prox E f (.arr b) lam with
      | error e => simp [hpa] at hr
      | ok pa =>
        cases hpr : prox E r (.blk bs) lam with
        | error e => simp [hpa, hpr] at hr
        | ok pr =>
          obtain ⟨a1, a2, a3⟩ := ihf (.arr b) pa lam hok.1 hpa
          obtain ⟨r1, r2, r3⟩ := ihr (.blk bs) pr lam hok.2 hpr
          cases pa with
          | blk _ => simp [Arg.shapeEq] at a1
          | arr p0 =>
            cases pr with
            | arr _ => simp [Arg.shapeEq] at r1
            | blk ps =>
              simp only [hpa, hpr, pure, Except.pure, Except.ok.injEq] at hr
              subst hr
              simp only [Arg.shapeEq] at a1 r1
              refine ⟨by simp [Arg.shapeEq, a1, r1], ⟨a2, r2⟩, fun x hx hdx => ?_⟩
              cases x with
              | arr _ => simp [Arg.shapeEq] at hx
              | blk xs =>
                cases xs with
                | nil => simp [Arg.shapeEq] at hx
                | cons x0 xs =>
                  simp only [Arg.shapeEq, List.map_cons, List.cons.injEq] at hx
                  have i1 := a3 (.arr x0) hx.1 hdx.1
                  have i2 := r3 (.blk xs) hx.2 hdx.2
                  simp only [den, Arg.dist2, List.zipWith_cons_cons, List.sum_cons] at i1 i2 ⊢
                  linarith
  | lossNone y A s => intro v p lam _ hr; simp [prox] at hr
  | loss y A f s ih =>
    intro v p lam hok hr
    simp only [prox] at hr
    split at hr
    · rename_i hguard
      simp only [Bool.and_eq_true] at hguard
      cases A with
      | some i => simp at hguard
      | none =>
        simp only [bind, Except.bind] at hr
        cases hd : Arg.sub v y with
        | error e => simp [hd] at hr
        | ok d =>
          cases hq : prox E f d (s * lam) with
          | error e => simp [hd, hq] at hr
          | ok q =>
            simp only [hd, hq] at hr
            obtain ⟨hvy, rfl⟩ := Arg.zip_eq_ok hd
            obtain ⟨hqy, rfl⟩ := Arg.zip_eq_ok hr
            obtain ⟨q1, q2, q3⟩ := ih _ q (s * lam) hok hq
            have hdv : (Arg.zipT (· - ·) v y).shapeEq v := Arg.zipT_shapeEq hvy
            have hpq : (Arg.zipT (· + ·) q y).shapeEq q := Arg.zipT_shapeEq hqy
            have hpv : (Arg.zipT (· + ·) q y).shapeEq v := Arg.shapeEq_trans hpq (Arg.shapeEq_trans q1 hdv)
            refine ⟨hpv, ?_, fun x hx hdx => ?_⟩
            · simp only [dom, Env.applyOpt, Arg.add_sub_cancel hqy]; exact q2
            · simp only [dom, den, Env.applyOpt] at hdx ⊢
              have hxy : x.shapeEq y := Arg.shapeEq_trans hx hvy
              have hx' : (Arg.zipT (· - ·) x y).shapeEq (Arg.zipT (· - ·) v y) :=
                Arg.shapeEq_trans (Arg.zipT_shapeEq hxy) (Arg.shapeEq_trans hx (Arg.shapeEq_symm hdv))
              have i1 := q3 _ hx' hdx
              rw [Arg.dist2_sub_sub hx hvy] at i1
              have e2 := Arg.dist2_sub_sub hpv hvy
              rw [Arg.add_sub_cancel hqy] at e2 ⊢
              rw [e2] at i1
              linarith
    · cases hr
  | sqL2 y A w s =>
    intro v p lam hok hr
    simpa [dom] using hQ y A w s v lam p hok hr

/-- with the flag set, positive `Loss` scales and `lam > 0` every base prox is reached with a
    positive parameter (so `tree_sound` is the instance `ok = (0 < ·)` of `tree_sound_on`) -/
theorem paramsOk_pos (E : Env ℝ) : ∀ (t : Fn ℝ) (lam : ℝ), 0 < lam → hasProx E t = true → LossScalesPos t →
    ParamsOk (fun _ l => 0 < l) (fun _ _ _ s l => 0 < s ∧ 0 < l) t lam := by
  intro t
  induction t with
  | leaf i => intro lam hl _ _; exact hl
  | scaled c f ih =>
    intro lam hl h hls
    simp only [hasProx, Bool.and_eq_true, decide_eq_true_eq] at h
    exact ih (lam * c) (mul_pos hl h.2) h.1 hls
  | sum f g _ _ => intro _ _ _ _; trivial
  | snil => intro _ _ _ _; trivial
  | scons f r ihf ihr =>
    intro lam hl h hls
    simp only [hasProx, Bool.and_eq_true] at h
    exact ⟨ihf lam hl h.1 hls.1, ihr lam hl h.2 hls.2⟩
  | lossNone y A s => intro _ _ _ _; trivial
  | loss y A f s ih =>
    intro lam hl h hls
    simp only [hasProx, Bool.and_eq_true] at h
    exact ih (s * lam) (mul_pos hls.1 hl) h.2 hls.2
  | sqL2 y A w s => intro lam hl _ hls; exact ⟨hls, hl⟩

/-- the flag rule **with the proposed repair** `fixes/loss-nonpositive-scale.patch`: as `hasProx`, and in
    addition a `Loss` (generic or `SquaredL2Loss`) advertises its prox only while its scale is positive -/
noncomputable def hasProxR (E : Env ℝ) : Fn ℝ → Bool
  | .leaf i => E.hasProx i
  | .scaled c f => hasProxR E f && decide (0 < c)
  | .sum _ _ => false
  | .snil => true
  | .scons f r => hasProxR E f && hasProxR E r
  | .lossNone _ _ _ => false
  | .loss _ A f s => A.isNone && hasProxR E f && decide (0 < s)
  | .sqL2 y A w s => hasProx E (.sqL2 y A w s) && decide (0 < s)

theorem hasProx_of_hasProxR (E : Env ℝ) : ∀ t : Fn ℝ, hasProxR E t = true → hasProx E t = true := by
  intro t
  induction t with
  | leaf i => exact id
  | scaled c f ih =>
    intro h; simp only [hasProxR, Bool.and_eq_true] at h
    simp only [hasProx, Bool.and_eq_true]; exact ⟨ih h.1, h.2⟩
  | sum f g _ _ => intro h; simp [hasProxR] at h
  | snil => intro _; rfl
  | scons f r ihf ihr =>
    intro h; simp only [hasProxR, Bool.and_eq_true] at h
    simp only [hasProx, Bool.and_eq_true]; exact ⟨ihf h.1, ihr h.2⟩
  | lossNone y A s => intro h; simp [hasProxR] at h
  | loss y A f s ih =>
    intro h; simp only [hasProxR, Bool.and_eq_true] at h
    simp only [hasProx, Bool.and_eq_true]; exact ⟨h.1.1, ih h.1.2⟩
  | sqL2 y A w s =>
    intro h; simp only [hasProxR, Bool.and_eq_true] at h
    exact h.1

/-- under the repaired rule a set flag alone guarantees positive parameters at the leaves -/
theorem paramsOk_of_hasProxR (E : Env ℝ) : ∀ (t : Fn ℝ) (lam : ℝ), 0 < lam → hasProxR E t = true →
    ParamsOk (fun _ l => 0 < l) (fun _ _ _ s l => 0 < s ∧ 0 < l) t lam := by
  intro t
  induction t with
  | leaf i => intro lam hl _; exact hl
  | scaled c f ih =>
    intro lam hl h
    simp only [hasProxR, Bool.and_eq_true, decide_eq_true_eq] at h
    exact ih (lam * c) (mul_pos hl h.2) h.1
  | sum f g _ _ => intro _ _ _; trivial
  | snil => intro _ _ _; trivial
  | scons f r ihf ihr =>
    intro lam hl h
    simp only [hasProxR, Bool.and_eq_true] at h
    exact ⟨ihf lam hl h.1, ihr lam hl h.2⟩
  | lossNone y A s => intro _ _ _; trivial
  | loss y A f s ih =>
    intro lam hl h
    simp only [hasProxR, Bool.and_eq_true, decide_eq_true_eq] at h
    exact ih (s * lam) (mul_pos h.2 hl) h.1.2
  | sqL2 y A w s =>
    intro lam hl h
    simp only [hasProxR, Bool.and_eq_true, decide_eq_true_eq] at h
    exact ⟨h.2, hl⟩

/-! ### `SquaredL2Loss` nodes with a Diagonal / Identity forward operator (closed-form branch), real data -/

theorem zipWith_ones_mul : ∀ (x : List ℝ) (n : Nat), x.length ≤ n → List.zipWith (· * ·) (onesL n) x = x
  | [], n, _ => by simp
  | a :: x, 0, h => by simp at h
  | a :: x, n + 1, h => by
    simp only [List.length_cons, Nat.add_le_add_iff_right] at h
    have := zipWith_ones_mul x n h
    simp only [onesL] at this ⊢
    simp [List.replicate_succ, this]

theorem onesL_length (n : Nat) : (onesL n : List ℝ).length = n := by simp [onesL]

theorem onesL_nonneg (n : Nat) : ∀ a ∈ (onesL n : List ℝ), 0 ≤ a := by
  intro a ha
  simp only [onesL, List.mem_replicate] at ha
  rw [ha.2]; exact zero_le_one

/-- data conditions of the closed-form branch as proved here: real data, plain measurement, `A` the
    Identity or a Diagonal, weights (if given) non-negative and of the measurement's length,
    positive scale and prox parameter -/
def SqDiagOk (E : Env ℝ) (y : Arg ℝ) (A : OpK ℝ) (w : Option (List ℝ)) (s lam : ℝ) : Prop :=
  E.cplx = false ∧ 0 < s ∧ 0 < lam ∧
  (∃ yy, y = .arr yy ∧ ∀ wl, w = some wl → wl.length = yy.length ∧ ∀ a ∈ wl, 0 ≤ a) ∧
  (A = .ident ∨ ∃ d, A = .diag d)

/-- closed-form branch with weights `wl`, diagonal `a`: the returned array is a proximal point of
    `x ↦ s·Σ w_i (y_i − a_i x_i)²` in the sense of `IsProxA` -/
theorem sqL2_diag_isProxA {s lam : ℝ} (hs : 0 < s) (hl : 0 < lam) (wl a yy vv : List ℝ)
    (hw : ∀ c ∈ wl, 0 ≤ c) (h1 : wl.length = vv.length) (h2 : a.length = vv.length) (h3 : yy.length = vv.length) :
    IsProxA (fun _ => True)
      (fun x => s * wsum (some wl) (sqmags false (List.zipWith (· - ·) yy (List.zipWith (· * ·) a x.flat))))
      lam (.arr vv) (.arr (sqL2DiagProx false s lam (some wl) a yy vv)) := by
  have hc : (0 : ℝ) ≤ (1 + 1) * s * lam := by positivity
  have hlen : (sqL2DiagProx false s lam (some wl) a yy vv).length = vv.length := by
    simp [sqL2DiagProx, edivR, emul, econj, rmulL, sqmags, h1, h2, h3]
  refine ⟨by simpa [Arg.shapeEq] using hlen, trivial, fun x hx _ => ?_⟩
  cases x with
  | blk _ => simp [Arg.shapeEq] at hx
  | arr x =>
    simp only [Arg.shapeEq] at hx
    have := sqL2DiagProx_minimises_real hc wl a yy vv x hw h1 h2 h3 hx
    simp only [diagObj] at this
    simp only [Arg.flat, Arg.dist2, sq2, wsum]
    linarith

theorem sqL2DiagProx_none (s lam : ℝ) (a y v : List ℝ) :
    sqL2DiagProx false s lam none a y v = sqL2DiagProx false s lam (some (onesL v.length)) a y v := by
  simp [sqL2DiagProx, nEntries]

theorem wsum_none_eq (L : List ℝ) (n : Nat) (h : L.length ≤ n) : wsum none L = wsum (some (onesL n)) L := by
  simp only [wsum]
  rw [zipWith_ones_mul L n h]

theorem isProxA_congr {D : Arg ℝ → Prop} {f g : Arg ℝ → ℝ} {lam : ℝ} {v p : Arg ℝ}
    (hfg : ∀ x, x.shapeEq v → f x = g x) (h : IsProxA D g lam v p) : IsProxA D f lam v p := by
  obtain ⟨h1, h2, h3⟩ := h
  refine ⟨h1, h2, fun x hx hdx => ?_⟩
  rw [hfg p h1, hfg x hx]
  exact h3 x hx hdx

theorem sqmags_real_length (L : List ℝ) : (sqmags false L).length = L.length := by simp [sqmags]

/-- **`SquaredL2Loss.prox`, Diagonal branch, as a node of the calculus**: under `SqDiagOk` the value
    returned by the model is a proximal point of the functional the node denotes (`den`) -/
theorem sqL2_diag_sound (E : Env ℝ) (S : LeafSem) : SqSoundOn E S (SqDiagOk E) := by
  intro y A w s v lam p hok hr
  obtain ⟨hE, hs, hl, ⟨yy, rfl, hw⟩, hA⟩ := hok
  -- normalise the weights to an explicit list `wl`
  obtain ⟨wl, hF1, hF2, hwlen, hwpos⟩ : ∃ wl : List ℝ,
      (∀ a v' : List ℝ, v'.length = yy.length →
        sqL2DiagProx false s lam w a yy v' = sqL2DiagProx false s lam (some wl) a yy v') ∧
      (∀ L : List ℝ, L.length ≤ yy.length → wsum w L = wsum (some wl) L) ∧
      wl.length = yy.length ∧ ∀ c ∈ wl, 0 ≤ c := by
    cases w with
    | none =>
      exact ⟨onesL yy.length, fun a v' h => by rw [sqL2DiagProx_none, h], fun L hL => wsum_none_eq L _ hL,
        onesL_length _, onesL_nonneg _⟩
    | some wl => exact ⟨wl, fun _ _ _ => rfl, fun _ _ => rfl, (hw wl rfl).1, (hw wl rfl).2⟩
  cases v with
  | blk vs => rcases hA with rfl | ⟨d, rfl⟩ <;> simp [prox] at hr
  | arr vv =>
    rcases hA with rfl | ⟨d, rfl⟩
    · -- Identity: the diagonal is the all-ones array
      simp only [prox, diagOf, hE, nEntries, Bool.false_eq_true, if_false] at hr
      split at hr
      · rename_i hlen
        obtain ⟨_, hyv⟩ := hlen
        simp only [Except.ok.injEq] at hr
        subst hr
        rw [hF1 _ vv hyv.symm]
        have base := sqL2_diag_isProxA hs hl wl (onesL vv.length) yy vv hwpos (hwlen.trans hyv) (onesL_length _) hyv
        refine isProxA_congr (fun x hx => ?_) base
        cases x with
        | blk _ => simp [Arg.shapeEq] at hx
        | arr x =>
          simp only [Arg.shapeEq] at hx
          simp only [den, OpK.apply, Arg.zipT, Arg.flat, hE]
          rw [zipWith_ones_mul x vv.length (le_of_eq hx)]
          rw [hF2 _ (by rw [sqmags_real_length]; simp)]
      · cases hr
    · -- Diagonal d
      simp only [prox, diagOf, hE] at hr
      split at hr
      · rename_i hlen
        obtain ⟨hdv, hyv⟩ := hlen
        simp only [Except.ok.injEq] at hr
        subst hr
        rw [hF1 _ vv hyv.symm]
        have base := sqL2_diag_isProxA hs hl wl d yy vv hwpos (hwlen.trans hyv) hdv hyv
        refine isProxA_congr (fun x hx => ?_) base
        cases x with
        | blk _ => simp [Arg.shapeEq] at hx
        | arr x =>
          simp only [Arg.shapeEq] at hx
          have hem : (List.zipWith (fun x1 x2 : ℝ => x1 * x2) d x).length = x.length := by simp [hdv, hx]
          simp only [den, OpK.apply, hE, emul, Bool.false_eq_true, if_false]
          rw [if_pos hem]
          simp only [Arg.zipT, Arg.flat]
          rw [hF2 _ (by rw [sqmags_real_length]; simp)]
      · cases hr

/-- every `SquaredL2Loss` node of the tree is in the scope of `sqL2_diag_sound`: real data, plain
    measurement, Identity / Diagonal forward operator, weights `≥ 0` of the measurement's length
    (vacuous for trees without `SquaredL2Loss` nodes, i.e. implied by `Generic`) -/
def SqNodesDiag (E : Env ℝ) : Fn ℝ → Prop
  | .leaf _ => True
  | .scaled _ f => SqNodesDiag E f
  | .sum f g => SqNodesDiag E f ∧ SqNodesDiag E g
  | .snil => True
  | .scons f r => SqNodesDiag E f ∧ SqNodesDiag E r
  | .lossNone _ _ _ => True
  | .loss _ _ f _ => SqNodesDiag E f
  | .sqL2 y A w _ => E.cplx = false ∧
      (∃ yy, y = .arr yy ∧ ∀ wl, w = some wl → wl.length = yy.length ∧ ∀ a ∈ wl, 0 ≤ a) ∧
      (A = .ident ∨ ∃ d, A = .diag d)

theorem sqNodesDiag_of_generic (E : Env ℝ) : ∀ t : Fn ℝ, Generic t → SqNodesDiag E t := by
  intro t
  induction t with
  | leaf i => intro _; trivial
  | scaled c f ih => exact ih
  | sum f g ihf ihg => intro h; exact ⟨ihf h.1, ihg h.2⟩
  | snil => intro _; trivial
  | scons f r ihf ihr => intro h; exact ⟨ihf h.1, ihr h.2⟩
  | lossNone y A s => intro _; trivial
  | loss y A f s ih => exact ih
  | sqL2 y A w s => intro h; exact h.elim

theorem paramsOk_diag (E : Env ℝ) : ∀ (t : Fn ℝ) (lam : ℝ), SqNodesDiag E t →
    ParamsOk (fun _ l => 0 < l) (fun _ _ _ s l => 0 < s ∧ 0 < l) t lam →
    ParamsOk (fun _ l => 0 < l) (SqDiagOk E) t lam := by
  intro t
  induction t with
  | leaf i => intro lam _ h; exact h
  | scaled c f ih => intro lam hd h; exact ih (lam * c) hd h
  | sum f g _ _ => intro _ _ _; trivial
  | snil => intro _ _ _; trivial
  | scons f r ihf ihr => intro lam hd h; exact ⟨ihf lam hd.1 h.1, ihr lam hd.2 h.2⟩
  | lossNone y A s => intro _ _ _; trivial
  | loss y A f s ih => intro lam hd h; exact ih (s * lam) hd h
  | sqL2 y A w s => intro lam hd h; exact ⟨hd.1, h.1, h.2, hd.2.1, hd.2.2⟩

/-- `Functional.conj_prox` as modelled: `v − lam · prox(v / lam, 1 / lam)` -/
theorem conjProx_eq {α : Type} [Add α] [Sub α] [Mul α] [Div α] [Neg α] [Zero α] [One α] [LT α] [DecidableLT α]
    [HasSqrt α] (E : Env α) (t : Fn α) (v r : Arg α) (lam : α) (h : conjProx E t v lam = .ok r) :
    ∃ q, prox E t (Arg.map (· / lam) v) (1 / lam) = .ok q ∧ Arg.sub v (Arg.smul lam q) = .ok r := by
  unfold conjProx at h
  cases hq : prox E t (Arg.map (· / lam) v) (1 / lam) with
  | error e => simp [hq, bind, Except.bind] at h
  | ok q => exact ⟨q, rfl, by simpa [hq, bind, Except.bind] using h⟩

/-! ### a generic `Loss` with a non-positive scale -/

/-- the `has_prox` flag of a generic `Loss` does not depend on its scale -/
theorem hasProx_loss_scale {α : Type} [Add α] [Sub α] [Mul α] [Div α] [Neg α] [Zero α] [One α] [LT α]
    [DecidableLT α] (E : Env α) (y : Arg α) (A : Option Nat) (f : Fn α) (s s' : α) :
    hasProx E (.loss y A f s) = hasProx E (.loss y A f s') := rfl

/-- `L1Norm.prox` entrywise on real data: `sign(v) · ½ (|v| − lam + ||v| − lam|)` -/
noncomputable def soft (lam a : ℝ) : ℝ :=
  (if a < 0 then -1 else if 0 < a then 1 else 0) * ((1 / 2) * ((absR a - lam) + absR (absR a - lam)))

/-- environment whose single base functional is `L1Norm` on real data -/
noncomputable def l1Env : Env ℝ where
  hasEval := fun _ => true
  hasProx := fun _ => true
  eval := fun _ x => l1 false x
  prox := fun _ v lam => Arg.map (soft lam) v
  opEval := fun _ x => x
  solve := fun _ _ _ _ v => v
  cplx := false

/-- `Loss(y=[0], f=L1Norm(), scale=-1)`: the flag is set, `prox([0], 1)` returns `[0]`
    (`L1Norm.prox` is called with the parameter `−1`), but `0` does not minimise
    `−|x| + x²/2` (value `−1/2` at `x = 1`) -/
theorem loss_nonpos_counterexample :
    hasProx l1Env (.loss (.arr [0]) none (.leaf 0) (-1)) = true ∧
    prox l1Env (.loss (.arr [0]) none (.leaf 0) (-1)) (.arr [0]) 1 = .ok (.arr [0]) ∧
    ¬ IsProxA (fun _ => True) (fun x => (-1) * l1 false x) 1 (.arr [0]) (.arr [0]) := by
  refine ⟨by simp [hasProx, l1Env], ?_, ?_⟩
  · simp [prox, hasProx, l1Env, Arg.sub, Arg.add, Arg.zip, zipSame, Except.map,
      bind, Except.bind, Arg.map, soft]
  · rintro ⟨_, _, h⟩
    have := h (.arr [1]) (by simp [Arg.shapeEq]) trivial
    simp [l1, mags, absR, Arg.flat, Arg.dist2, sq2] at this
    norm_num at this

end Scico.ProxCalc

namespace Scico.ProxCalc
open Scico Scico.FuncEval

/-- the block-wise difference of two block arrays of the same shape, flattened, is the difference of the
    flattened arrays — `_flatten(reference - comparison)` of `scico.metric` (after 200a606) and
    `y − A(x)` of the losses on block arrays -/
theorem flat_zipT_sub {r c : Arg ℝ} (h : r.shapeEq c) :
    (Arg.zipT (· - ·) r c).flat = List.zipWith (· - ·) r.flat c.flat := by
  cases r with
  | arr a => cases c with
    | arr b => rfl
    | blk _ => simp [Arg.shapeEq] at h
  | blk as =>
    cases c with
    | arr _ => simp [Arg.shapeEq] at h
    | blk bs =>
      simp only [Arg.shapeEq] at h
      simp only [Arg.zipT, Arg.flat]
      induction as generalizing bs with
      | nil => cases bs <;> simp_all
      | cons a as ih =>
        cases bs with
        | nil => simp at h
        | cons b bs =>
          simp only [List.map_cons, List.cons.injEq] at h
          simp only [List.zipWith_cons_cons, List.flatten_cons]
          rw [ih bs h.2, List.zipWith_append h.1]

end Scico.ProxCalc

namespace Scico.ProxCalc
open Scico Scico.FuncEval

/-! ### closed-form branch on whole complex arrays (interleaved data) -/
section cplxdiag
variable {K : Type} [Field K] [LinearOrder K] [IsStrictOrderedRing K]

/-- objective of the prox of the weighted squared-ℓ² loss with a complex diagonal forward operator on
    interleaved arrays: `Σ_j (c/2)·w_j·|a_j x_j − y_j|² + ½|x_j − v_j|²`, `c = 2·scale·lam`
    (`= lam·scale·Σ w|a x − y|² + ½‖x − v‖²`) -/
def diagObjC (c : K) : List K → List K → List K → List K → List K → K
  | w :: ws, ar :: ai :: as, yr :: yi :: ys, vr :: vi :: vs, xr :: xi :: xs =>
    entryObj c w ar ai yr yi vr vi xr xi + diagObjC c ws as ys vs xs
  | _, _, _, _, _ => 0

theorem sqL2DiagProx_cplx_cons (scale lam w ar ai yr yi vr vi : K) (ws as ys vs : List K) :
    sqL2DiagProx true scale lam (some (w :: ws)) (ar :: ai :: as) (yr :: yi :: ys) (vr :: vi :: vs)
      = (diagEntry ((1 + 1) * scale * lam) w ar ai yr yi vr vi).1 ::
        (diagEntry ((1 + 1) * scale * lam) w ar ai yr yi vr vi).2 ::
        sqL2DiagProx true scale lam (some ws) as ys vs := by
  simp only [sqL2DiagProx, emul, econj, cconjL, rmulL, rmulLc, cmulL, sqmags, pairs, edivR, edivRc, diagEntry,
    Option.getD, List.map, List.zipWith, if_true]
  congr 1
  · congr 1; ring
  · congr 1; congr 1; ring

theorem two_cons_of_length {l : List K} {k : Nat} (h : l.length = 2 * (k + 1)) :
    ∃ p q r, l = p :: q :: r ∧ r.length = 2 * k := by
  match l, h with
  | p :: q :: r, h => exact ⟨p, q, r, rfl, by simp only [List.length_cons] at h; omega⟩
  | [_], h => simp at h; omega
  | [], h => simp at h

/-- **complex diagonal `A`, whole arrays, every length**: the array returned by the closed-form branch
    minimises the documented objective among all arrays of the same length (`k` complex entries =
    interleaved lists of length `2k`; weights `≥ 0` incl. zeros, `scale·lam ≥ 0`) -/
theorem sqL2DiagProx_minimises_cplx {scale lam : K} (hc : 0 ≤ (1 + 1) * scale * lam) :
    ∀ (w a y v x : List K), (∀ wi ∈ w, 0 ≤ wi) → a.length = 2 * w.length → y.length = 2 * w.length →
      v.length = 2 * w.length → x.length = 2 * w.length →
      diagObjC ((1 + 1) * scale * lam) w a y v (sqL2DiagProx true scale lam (some w) a y v)
        ≤ diagObjC ((1 + 1) * scale * lam) w a y v x := by
  intro w
  induction w with
  | nil =>
    intro a y v x _ ha hy hv hx
    simp only [List.length_nil, Nat.mul_zero, List.length_eq_zero_iff] at ha hy hv hx
    subst ha hy hv hx
    simp [diagObjC]
  | cons w0 ws ih =>
    intro a y v x hw ha hy hv hx
    simp only [List.length_cons] at ha hy hv hx
    obtain ⟨ar, ai, as, rfl, has⟩ := two_cons_of_length ha
    obtain ⟨yr, yi, ys, rfl, hys⟩ := two_cons_of_length hy
    obtain ⟨vr, vi, vs, rfl, hvs⟩ := two_cons_of_length hv
    obtain ⟨xr, xi, xs, rfl, hxs⟩ := two_cons_of_length hx
    rw [sqL2DiagProx_cplx_cons]
    simp only [diagObjC]
    have h0 := diagEntry_minimises hc (hw w0 (by simp)) ar ai yr yi vr vi xr xi
    have := ih as ys vs xs (fun wi hwi => hw wi (by simp [hwi])) has hys hvs hxs
    simp only at h0
    linarith

end cplxdiag

end Scico.ProxCalc

namespace Scico.ProxCalc
open Scico Scico.FuncEval

/-- **keyword arguments are forwarded verbatim through every nesting**: whoever receives keyword arguments
    in a `prox` call of a tree receives exactly the caller's dictionary -/
theorem kwPlan_forward {α κ : Type} [Add α] [Sub α] [Mul α] [Div α] [Neg α] [Zero α] [One α] [LT α] [DecidableLT α]
    [HasSqrt α] (E : Env α) : ∀ (t : Fn α) (kw : κ) (c : (Nat ⊕ Nat) × κ), c ∈ kwPlan E t kw → c.2 = kw := by
  intro t
  induction t with
  | leaf i => intro kw c h; simp only [kwPlan] at h; split at h <;> simp_all
  | scaled s f ih => intro kw c h; exact ih kw c h
  | sum f g _ _ => intro kw c h; simp [kwPlan] at h
  | snil => intro kw c h; simp [kwPlan] at h
  | scons f r ihf ihr =>
    intro kw c h
    simp only [kwPlan, List.mem_append] at h
    rcases h with h | h
    · exact ihf kw c h
    · exact ihr kw c h
  | lossNone y A s => intro kw c h; simp [kwPlan] at h
  | loss y A f s ih =>
    intro kw c h
    simp only [kwPlan] at h
    split at h
    · exact ih kw c h
    · simp at h
  | sqL2 y A w s =>
    intro kw c h
    cases A <;> simp_all [kwPlan]

end Scico.ProxCalc

namespace Scico.ProxCalc
open Scico Scico.FuncEval

section sepplain
variable {α : Type} [Add α] [Sub α] [Mul α] [Div α] [Neg α] [Zero α] [One α] [LT α] [DecidableLT α] [HasSqrt α]

/-- `zip` semantics: on `k` functionals and `m` slices the code acts as the separable functional of the first
    `min(k, m)` functionals on the block array of the first `min(k, m)` slices -/
theorem evalZip_eq (E : Env α) : ∀ (fs : List (Fn α)) (rows : List (List α)),
    evalZip E fs rows = eval E (Fn.sep (fs.take (min fs.length rows.length))) (.blk (rows.take (min fs.length rows.length)))
  | [], rows => by simp [evalZip, Fn.sep, eval]
  | f :: fs, [] => by simp [evalZip, Fn.sep, eval]
  | f :: fs, r :: rs => by
    have ih := evalZip_eq E fs rs
    have e : min (f :: fs).length (r :: rs).length = min fs.length rs.length + 1 := by
      simp only [List.length_cons]; omega
    rw [e]
    simp only [evalZip, List.take_succ_cons, Fn.sep, eval, ih]

theorem proxZip_eq (E : Env α) : ∀ (fs : List (Fn α)) (rows : List (List α)) (lam : α),
    (proxZip E fs rows lam).map Arg.blk =
      prox E (Fn.sep (fs.take (min fs.length rows.length))) (.blk (rows.take (min fs.length rows.length))) lam
  | [], rows, lam => by simp [proxZip, Fn.sep, prox, Except.map]
  | f :: fs, [], lam => by simp [proxZip, Fn.sep, prox, Except.map]
  | f :: fs, r :: rs, lam => by
    have ih := proxZip_eq E fs rs lam
    have e : min (f :: fs).length (r :: rs).length = min fs.length rs.length + 1 := by
      simp only [List.length_cons]; omega
    rw [e]
    simp only [proxZip, List.take_succ_cons, Fn.sep, prox, ← ih]
    cases prox E f (.arr r) lam with
    | error e => rfl
    | ok p =>
      cases proxZip E fs rs lam with
      | error e => rfl
      | ok ps => cases p <;> rfl

end sepplain

end Scico.ProxCalc

namespace Scico.ProxCalc
open Scico Scico.FuncEval

/-! ### `SquaredL2Loss.prox`, closed-form branch on block arrays (Identity or block-diagonal `Diagonal`) -/
section blockdiag

theorem splitLike_flatten {β : Type} : ∀ (bs : List (List β)) (l : List β), l.length = bs.flatten.length →
    (splitLike l (bs.map List.length)).flatten = l ∧ (splitLike l (bs.map List.length)).map List.length = bs.map List.length
  | [], l, h => by
    simp only [List.flatten_nil, List.length_nil, List.length_eq_zero_iff] at h
    subst h; simp [splitLike]
  | b :: bs, l, h => by
    simp only [List.flatten_cons, List.length_append] at h
    have hd : (l.drop b.length).length = bs.flatten.length := by rw [List.length_drop]; omega
    obtain ⟨ih1, ih2⟩ := splitLike_flatten bs (l.drop b.length) hd
    constructor
    · simp only [List.map_cons, splitLike, List.flatten_cons, ih1, List.take_append_drop]
    · simp only [List.map_cons, splitLike, ih2, List.length_take]
      congr 1; omega

variable {α : Type} [Add α] [Sub α] [Mul α] [Div α] [Neg α] [Zero α] [One α] [LT α] [DecidableLT α] [HasSqrt α]

/-- on block arguments the closed-form branch returns, block by block, the entrywise closed form of the
    concatenated data: the flattened result *is* `sqL2DiagProx` on the concatenations (so
    `C08_sqL2_diag_minimises` / `_complex` apply to it), and it has the block shape of `v` -/
theorem sqL2_block_prox (E : Env α) (ys vs : List (List α)) (A : OpK α) (w : Option (List α)) (s lam : α) (p : Arg α)
    (hA : A = .ident ∨ ∃ d, A = .diag d) (h : prox E (.sqL2 (.blk ys) A w s) (.blk vs) lam = .ok p) :
    ∃ a, diagOf E.cplx (nEntries E.cplx vs.flatten) A = some a ∧ a.length = vs.flatten.length ∧
      vs.map List.length = ys.map List.length ∧
      p = .blk (splitLike (sqL2DiagProx E.cplx s lam w a ys.flatten vs.flatten) (vs.map List.length)) ∧
      ((sqL2DiagProx E.cplx s lam w a ys.flatten vs.flatten).length = vs.flatten.length →
        p.flat = sqL2DiagProx E.cplx s lam w a ys.flatten vs.flatten ∧
        ∃ ps, p = .blk ps ∧ ps.map List.length = vs.map List.length) := by
  have key : ∀ a, diagOf E.cplx (nEntries E.cplx vs.flatten) A = some a →
      prox E (.sqL2 (.blk ys) A w s) (.blk vs) lam =
        if vs.map List.length = ys.map List.length ∧ a.length = vs.flatten.length then
          .ok (.blk (splitLike (sqL2DiagProx E.cplx s lam w a ys.flatten vs.flatten) (vs.map List.length)))
        else .error .shape := by
    intro a ha
    rcases hA with rfl | ⟨d, rfl⟩ <;> simp only [prox, ha]
  obtain ⟨a, ha⟩ : ∃ a, diagOf E.cplx (nEntries E.cplx vs.flatten) A = some a := by
    rcases hA with rfl | ⟨d, rfl⟩ <;> exact ⟨_, rfl⟩
  rw [key a ha] at h
  split at h
  · rename_i hc
    simp only [Except.ok.injEq] at h
    refine ⟨a, ha, hc.2, hc.1, h.symm, fun hl => ?_⟩
    obtain ⟨f1, f2⟩ := splitLike_flatten vs _ hl
    subst h
    exact ⟨f1, _, rfl, f2⟩
  · cases h

end blockdiag

end Scico.ProxCalc
