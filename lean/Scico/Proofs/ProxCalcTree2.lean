/-
  Round 2 additions to the tree theorems of property C08:

  * `tree_sound_on` — soundness of *every* value the model of `prox` returns, with no hypothesis on
    the signs of the scale factors: the value is a proximal point of the denoted functional as
    soon as the base functionals' proximal maps are proximal maps *at the parameters they are
    actually called with* (`ParamsOk`).  `tree_sound` (positive scales, `lam > 0`) is the special
    case "base proxes are sound for positive parameters"; a non-positive `ScaledFunctional` /
    `Loss` scale forwards a non-positive parameter to the base prox, which is outside its
    contract — this is exactly what goes wrong there, no more.
  * `loss_nonpos_counterexample` — the flag of a generic `Loss` does not look at its scale:
    `Loss(y=0, f=L1Norm(), scale=-1)` advertises `has_prox` while the value it returns is not a
    proximal point of the functional it denotes.
  * `conjProx_eq` — the model of `conj_prox` is `v − lam·prox(v/lam, 1/lam)`.
-/
import Scico.Proofs.ProxCalcTree
import Scico.Proofs.FuncEval

namespace Scico.ProxCalc
open Scico Scico.FuncEval

/-- the parameters with which the base functionals' `prox` are reached from `t.prox(·, lam)` all
    satisfy `ok` -/
def ParamsOk (ok : Nat → ℝ → Prop) : Fn ℝ → ℝ → Prop
  | .leaf i, lam => ok i lam
  | .scaled c f, lam => ParamsOk ok f (lam * c)
  | .sum _ _, _ => True
  | .snil, _ => True
  | .scons f r, lam => ParamsOk ok f lam ∧ ParamsOk ok r lam
  | .lossNone _ _ _, _ => True
  | .loss _ _ f s, lam => ParamsOk ok f (s * lam)
  | .sqL2 _ _ _ _, _ => True

/-- the base functionals' prox maps are proximal maps for the parameters in `ok` -/
def LeafSoundOn (E : Env ℝ) (S : LeafSem) (ok : Nat → ℝ → Prop) : Prop :=
  ∀ i v lam, ok i lam → E.hasProx i = true → IsProxA (S.dom i) (S.val i) lam v (E.prox i v lam)

/-- **soundness without sign hypotheses**: whatever `prox` returns is a proximal point of the
    denoted functional, provided the leaves are sound at the parameters they receive -/
theorem tree_sound_on (E : Env ℝ) (S : LeafSem) (ok : Nat → ℝ → Prop) (hS : LeafSoundOn E S ok) :
    ∀ (t : Fn ℝ) (v p : Arg ℝ) (lam : ℝ), Generic t → ParamsOk ok t lam →
      prox E t v lam = .ok p → IsProxA (dom E S t) (den E S t) lam v p := by
  intro t
  induction t with
  | leaf i =>
    intro v p lam _ hok hr
    simp only [prox] at hr
    split at hr
    · simp only [Except.ok.injEq] at hr
      subst hr
      exact hS i v lam hok ‹_›
    · cases hr
  | scaled c f ih =>
    intro v p lam hg hok hr
    obtain ⟨h1, h2, h3⟩ := ih v p (lam * c) hg hok hr
    refine ⟨h1, h2, fun x hx hdx => ?_⟩
    have := h3 x hx hdx
    simp only [den]
    linarith
  | sum f g _ _ => intro v p lam _ _ hr; simp [prox] at hr
  | snil =>
    intro v p lam _ _ hr
    match v with
    | .arr _ => simp [prox] at hr
    | .blk (_ :: _) => simp [prox] at hr
    | .blk [] =>
      simp only [prox, Except.ok.injEq] at hr
      subst hr
      refine ⟨by simp [Arg.shapeEq], trivial, fun x hx _ => ?_⟩
      cases x with
      | arr _ => simp [Arg.shapeEq] at hx
      | blk xs =>
        simp only [Arg.shapeEq, List.map_nil, List.map_eq_nil_iff] at hx
        subst hx
        simp [den]
  | scons f r ihf ihr =>
    intro v p lam hg hok hr
    match v with
    | .arr _ => simp [prox] at hr
    | .blk [] => simp [prox] at hr
    | .blk (b :: bs) =>
      simp only [prox, bind, Except.bind] at hr
      cases hpa : prox E f (.arr b) lam with
      | error e => simp [hpa] at hr
      | ok pa =>
        cases hpr : prox E r (.blk bs) lam with
        | error e => simp [hpa, hpr] at hr
        | ok pr =>
          obtain ⟨a1, a2, a3⟩ := ihf (.arr b) pa lam hg.1 hok.1 hpa
          obtain ⟨r1, r2, r3⟩ := ihr (.blk bs) pr lam hg.2 hok.2 hpr
          cases pa with
          | blk _ => simp [Arg.shapeEq] at a1
          | arr p0 =>
            cases pr with
            | arr _ => simp [Arg.shapeEq] at r1
            | blk ps =>
              simp only [hpa, hpr, pure, Except.pure, Except.ok.injEq] at hr
              subst hr
              simp only [Arg.shapeEq] at a1 r1
              refine ⟨by simp [Arg.shapeEq, a1, r1], ⟨a2, r2⟩, fun x hx hdx => ?_⟩
              cases x with
              | arr _ => simp [Arg.shapeEq] at hx
              | blk xs =>
                cases xs with
                | nil => simp [Arg.shapeEq] at hx
                | cons x0 xs =>
                  simp only [Arg.shapeEq, List.map_cons, List.cons.injEq] at hx
                  have i1 := a3 (.arr x0) hx.1 hdx.1
                  have i2 := r3 (.blk xs) hx.2 hdx.2
                  simp only [den, Arg.dist2, List.zipWith_cons_cons, List.sum_cons] at i1 i2 ⊢
                  linarith
  | lossNone y A s => intro v p lam _ _ hr; simp [prox] at hr
  | loss y A f s ih =>
    intro v p lam hg hok hr
    simp only [prox] at hr
    split at hr
    · rename_i hguard
      simp only [Bool.and_eq_true] at hguard
      cases A with
      | some i => simp at hguard
      | none =>
        simp only [bind, Except.bind] at hr
        cases hd : Arg.sub v y with
        | error e => simp [hd] at hr
        | ok d =>
          cases hq : prox E f d (s * lam) with
          | error e => simp [hd, hq] at hr
          | ok q =>
            simp only [hd, hq] at hr
            obtain ⟨hvy, rfl⟩ := Arg.zip_eq_ok hd
            obtain ⟨hqy, rfl⟩ := Arg.zip_eq_ok hr
            obtain ⟨q1, q2, q3⟩ := ih _ q (s * lam) hg hok hq
            have hdv : (Arg.zipT (· - ·) v y).shapeEq v := Arg.zipT_shapeEq hvy
            have hpq : (Arg.zipT (· + ·) q y).shapeEq q := Arg.zipT_shapeEq hqy
            have hpv : (Arg.zipT (· + ·) q y).shapeEq v := Arg.shapeEq_trans hpq (Arg.shapeEq_trans q1 hdv)
            refine ⟨hpv, ?_, fun x hx hdx => ?_⟩
            · simp only [dom, Env.applyOpt, Arg.add_sub_cancel hqy]; exact q2
            · simp only [dom, den, Env.applyOpt] at hdx ⊢
              have hxy : x.shapeEq y := Arg.shapeEq_trans hx hvy
              have hx' : (Arg.zipT (· - ·) x y).shapeEq (Arg.zipT (· - ·) v y) :=
                Arg.shapeEq_trans (Arg.zipT_shapeEq hxy) (Arg.shapeEq_trans hx (Arg.shapeEq_symm hdv))
              have i1 := q3 _ hx' hdx
              rw [Arg.dist2_sub_sub hx hvy] at i1
              have e2 := Arg.dist2_sub_sub hpv hvy
              rw [Arg.add_sub_cancel hqy] at e2 ⊢
              rw [e2] at i1
              linarith
    · cases hr
  | sqL2 y A w s => intro v p lam hg; exact hg.elim

/-- with the flag set, positive `Loss` scales and `lam > 0` every base prox is reached with a
    positive parameter (so `tree_sound` is the instance `ok = (0 < ·)` of `tree_sound_on`) -/
theorem paramsOk_pos (E : Env ℝ) : ∀ (t : Fn ℝ) (lam : ℝ), 0 < lam → hasProx E t = true → LossScalesPos t →
    ParamsOk (fun _ l => 0 < l) t lam := by
  intro t
  induction t with
  | leaf i => intro lam hl _ _; exact hl
  | scaled c f ih =>
    intro lam hl h hls
    simp only [hasProx, Bool.and_eq_true, decide_eq_true_eq] at h
    exact ih (lam * c) (mul_pos hl h.2) h.1 hls
  | sum f g _ _ => intro _ _ _ _; trivial
  | snil => intro _ _ _ _; trivial
  | scons f r ihf ihr =>
    intro lam hl h hls
    simp only [hasProx, Bool.and_eq_true] at h
    exact ⟨ihf lam hl h.1 hls.1, ihr lam hl h.2 hls.2⟩
  | lossNone y A s => intro _ _ _ _; trivial
  | loss y A f s ih =>
    intro lam hl h hls
    simp only [hasProx, Bool.and_eq_true] at h
    exact ih (s * lam) (mul_pos hls.1 hl) h.2 hls.2
  | sqL2 y A w s => intro _ _ _ _; trivial

/-- the flag rule **with the proposed repair** `fixes/loss-nonpositive-scale.patch`: as `hasProx`, and in
    addition a `Loss` (generic or `SquaredL2Loss`) advertises its prox only while its scale is positive -/
noncomputable def hasProxR (E : Env ℝ) : Fn ℝ → Bool
  | .leaf i => E.hasProx i
  | .scaled c f => hasProxR E f && decide (0 < c)
  | .sum _ _ => false
  | .snil => true
  | .scons f r => hasProxR E f && hasProxR E r
  | .lossNone _ _ _ => false
  | .loss _ A f s => A.isNone && hasProxR E f && decide (0 < s)
  | .sqL2 y A w s => hasProx E (.sqL2 y A w s) && decide (0 < s)

theorem hasProx_of_hasProxR (E : Env ℝ) : ∀ t : Fn ℝ, hasProxR E t = true → hasProx E t = true := by
  intro t
  induction t with
  | leaf i => exact id
  | scaled c f ih =>
    intro h; simp only [hasProxR, Bool.and_eq_true] at h
    simp only [hasProx, Bool.and_eq_true]; exact ⟨ih h.1, h.2⟩
  | sum f g _ _ => intro h; simp [hasProxR] at h
  | snil => intro _; rfl
  | scons f r ihf ihr =>
    intro h; simp only [hasProxR, Bool.and_eq_true] at h
    simp only [hasProx, Bool.and_eq_true]; exact ⟨ihf h.1, ihr h.2⟩
  | lossNone y A s => intro h; simp [hasProxR] at h
  | loss y A f s ih =>
    intro h; simp only [hasProxR, Bool.and_eq_true] at h
    simp only [hasProx, Bool.and_eq_true]; exact ⟨h.1.1, ih h.1.2⟩
  | sqL2 y A w s =>
    intro h; simp only [hasProxR, Bool.and_eq_true] at h
    exact h.1

/-- under the repaired rule a set flag alone guarantees positive parameters at the leaves -/
theorem paramsOk_of_hasProxR (E : Env ℝ) : ∀ (t : Fn ℝ) (lam : ℝ), 0 < lam → hasProxR E t = true →
    ParamsOk (fun _ l => 0 < l) t lam := by
  intro t
  induction t with
  | leaf i => intro lam hl _; exact hl
  | scaled c f ih =>
    intro lam hl h
    simp only [hasProxR, Bool.and_eq_true, decide_eq_true_eq] at h
    exact ih (lam * c) (mul_pos hl h.2) h.1
  | sum f g _ _ => intro _ _ _; trivial
  | snil => intro _ _ _; trivial
  | scons f r ihf ihr =>
    intro lam hl h
    simp only [hasProxR, Bool.and_eq_true] at h
    exact ⟨ihf lam hl h.1, ihr lam hl h.2⟩
  | lossNone y A s => intro _ _ _; trivial
  | loss y A f s ih =>
    intro lam hl h
    simp only [hasProxR, Bool.and_eq_true, decide_eq_true_eq] at h
    exact ih (s * lam) (mul_pos h.2 hl) h.1.2
  | sqL2 y A w s => intro _ _ _; trivial

/-- `Functional.conj_prox` as modelled: `v − lam · prox(v / lam, 1 / lam)` -/
theorem conjProx_eq {α : Type} [Add α] [Sub α] [Mul α] [Div α] [Neg α] [Zero α] [One α] [LT α] [DecidableLT α]
    [HasSqrt α] (E : Env α) (t : Fn α) (v r : Arg α) (lam : α) (h : conjProx E t v lam = .ok r) :
    ∃ q, prox E t (Arg.map (· / lam) v) (1 / lam) = .ok q ∧ Arg.sub v (Arg.smul lam q) = .ok r := by
  unfold conjProx at h
  cases hq : prox E t (Arg.map (· / lam) v) (1 / lam) with
  | error e => simp [hq, bind, Except.bind] at h
  | ok q => exact ⟨q, rfl, by simpa [hq, bind, Except.bind] using h⟩

/-! ### a generic `Loss` with a non-positive scale -/

/-- the `has_prox` flag of a generic `Loss` does not depend on its scale -/
theorem hasProx_loss_scale {α : Type} [Add α] [Sub α] [Mul α] [Div α] [Neg α] [Zero α] [One α] [LT α]
    [DecidableLT α] (E : Env α) (y : Arg α) (A : Option Nat) (f : Fn α) (s s' : α) :
    hasProx E (.loss y A f s) = hasProx E (.loss y A f s') := rfl

/-- `L1Norm.prox` entrywise on real data: `sign(v) · ½ (|v| − lam + ||v| − lam|)` -/
noncomputable def soft (lam a : ℝ) : ℝ :=
  (if a < 0 then -1 else if 0 < a then 1 else 0) * ((1 / 2) * ((absR a - lam) + absR (absR a - lam)))

/-- environment whose single base functional is `L1Norm` on real data -/
noncomputable def l1Env : Env ℝ where
  hasEval := fun _ => true
  hasProx := fun _ => true
  eval := fun _ x => l1 false x
  prox := fun _ v lam => Arg.map (soft lam) v
  opEval := fun _ x => x
  solve := fun _ _ _ _ v => v
  cplx := false

/-- `Loss(y=[0], f=L1Norm(), scale=-1)`: the flag is set, `prox([0], 1)` returns `[0]`
    (`L1Norm.prox` is called with the parameter `−1`), but `0` does not minimise
    `−|x| + x²/2` (value `−1/2` at `x = 1`) -/
theorem loss_nonpos_counterexample :
    hasProx l1Env (.loss (.arr [0]) none (.leaf 0) (-1)) = true ∧
    prox l1Env (.loss (.arr [0]) none (.leaf 0) (-1)) (.arr [0]) 1 = .ok (.arr [0]) ∧
    ¬ IsProxA (fun _ => True) (fun x => (-1) * l1 false x) 1 (.arr [0]) (.arr [0]) := by
  refine ⟨by simp [hasProx, l1Env], ?_, ?_⟩
  · simp [prox, hasProx, l1Env, Arg.sub, Arg.add, Arg.zip, zipSame, Except.map,
      bind, Except.bind, Arg.map, soft]
  · rintro ⟨_, _, h⟩
    have := h (.arr [1]) (by simp [Arg.shapeEq]) trivial
    simp [l1, mags, absR, Arg.flat, Arg.dist2, sq2] at this
    norm_num at this

end Scico.ProxCalc
