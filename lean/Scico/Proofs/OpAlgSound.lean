/-
  Soundness invariant of the operator calculus: an object `o` built by scico's code *denotes*
  the dense matrix `D` (`Sound o D`): its forward closure is `x ↦ D x`, its adjoint closure is
  `y ↦ Dᴴ y`, and its class payload (matrix / diagonal / scalar) is `D`.
  This file: definitions, matrix–vector algebra, generic `Operator` / `LinearOperator` algebra.
-/
import Scico.Proofs.OpAlgBase

namespace Scico.OpAlg
open Scico.DType

set_option linter.unusedSectionVars false

/-- conjugation is the involution of the field -/
@[reducible] def starConj (K : Type) [Star K] : HasConj K := ⟨star⟩
attribute [local instance] starConj

section
variable {K : Type} [Field K] [StarRing K] [HasRe K]

theorem conj_eq_star (a : K) : conj a = star a := rfl

@[simp] theorem vmulVecH_get (m n : Nat) (A : Mc K) (y : Vc K) (j : Nat) :
    (vmulVecH m n A y).get j = if j < n then mulVecH m A.get y.get j else 0 := rfl

@[simp] theorem vmulVecT_get (m n : Nat) (A : Mc K) (y : Vc K) (j : Nat) :
    (vmulVecT m n A y).get j = if j < n then mulVecT m A.get y.get j else 0 := rfl

/-! ### matrix–vector algebra on `sumTo` -/

theorem mulVec_congr_left {n : Nat} {D E : Mx K} {x : V K} {i : Nat}
    (h : ∀ j, j < n → D i j = E i j) : mulVec n D x i = mulVec n E x i := by
  unfold mulVec
  exact sumTo_congr (fun j hj => by rw [h j hj])

theorem mulVec_congr_right {n : Nat} {D : Mx K} {x x' : V K} {i : Nat}
    (h : ∀ j, j < n → x j = x' j) : mulVec n D x i = mulVec n D x' i := by
  unfold mulVec
  exact sumTo_congr (fun j hj => by rw [h j hj])

theorem mulVecH_congr_left {m : Nat} {D E : Mx K} {y : V K} {j : Nat}
    (h : ∀ i, i < m → D i j = E i j) : mulVecH m D y j = mulVecH m E y j := by
  unfold mulVecH
  exact sumTo_congr (fun i hi => by rw [h i hi])

theorem mulVecH_congr_right {m : Nat} {D : Mx K} {y y' : V K} {j : Nat}
    (h : ∀ i, i < m → y i = y' i) : mulVecH m D y j = mulVecH m D y' j := by
  unfold mulVecH
  exact sumTo_congr (fun i hi => by rw [h i hi])

/-- `A (B x) = (A B) x` -/
theorem mulVec_mulVec (k n : Nat) (A B : Mx K) (x : V K) (i : Nat) :
    mulVec k A (mulVec n B x) i = mulVec n (matMul k A B) x i := by
  unfold mulVec matMul
  have h1 : ∀ l, A i l * sumTo n (fun j => B l j * x j) = sumTo n (fun j => A i l * (B l j * x j)) :=
    fun l => (sumTo_mul_left n (A i l) _).symm
  simp only [h1]
  rw [sumTo_comm]
  apply sumTo_congr
  intro j _
  rw [← sumTo_mul_right]
  apply sumTo_congr
  intro l _
  ring

/-- `Bᴴ (Aᴴ z) = (A B)ᴴ z` -/
theorem mulVecH_mulVecH (k m : Nat) (A B : Mx K) (z : V K) (j : Nat) :
    mulVecH k B (mulVecH m A z) j = mulVecH m (matMul k A B) z j := by
  unfold mulVecH matMul
  have h1 : ∀ l, conj (B l j) * sumTo m (fun i => conj (A i l) * z i)
      = sumTo m (fun i => conj (B l j) * (conj (A i l) * z i)) :=
    fun l => (sumTo_mul_left m _ _).symm
  simp only [h1]
  rw [sumTo_comm]
  apply sumTo_congr
  intro i _
  simp only [conj_eq_star, star_sumTo, star_mul']
  rw [← sumTo_mul_right]
  apply sumTo_congr
  intro l _
  ring

/-- a column of the matrix is the image of a basis vector -/
theorem mulVec_basis (n : Nat) (D : Mx K) (i j : Nat) :
    mulVec n D (basis j) i = if j < n then D i j else 0 := by
  unfold mulVec basis
  have : ∀ j', D i j' * (if j' = j then (1 : K) else 0) = if j' = j then D i j' else 0 := by
    intro j'; by_cases h : j' = j <;> simp [h]
  simp only [this]
  rw [sumTo_ite_eq]

/-! ### the invariant -/

def EvalIs (o : Obj K) (D : Mx K) : Prop :=
  ∀ (x : Vc K) (i : Nat), (o.eval x).get i = if i < o.m then mulVec o.n D x.get i else 0

def AdjIs (o : Obj K) (D : Mx K) : Prop :=
  ∀ (y : Vc K) (j : Nat), (o.adj y).get j = if j < o.n then mulVecH o.m D y.get j else 0

/-- the scalar field is "real": trivial involution, `re` is the identity -/
def RealK (K : Type) [Field K] [StarRing K] [HasRe K] : Prop := ∀ a : K, star a = a ∧ re a = a

/-- all declared dtypes of the object are complex -/
structure DtC (o : Obj K) : Prop where
  inC : o.md.inDt.isComplex = true
  outC : o.md.outDt.isComplex = true
  datC : o.md.datDt.isComplex = true

/-- either the field is real, or everything is declared complex: in both cases no real part is
    ever taken of a genuinely complex number and no transpose replaces a conjugate transpose -/
def Mode (o : Obj K) : Prop := RealK K ∨ DtC o

/-- link between the class payload and the denoted matrix -/
def PayloadIs (o : Obj K) (D : Mx K) : Prop :=
  match o.md.cls with
  | .matrix =>
      (∀ i j, o.mat.get i j = if i < o.m ∧ j < o.n then D i j else 0)
      ∧ o.md.inShape = .plain [o.n] ∧ o.md.outShape = .plain [o.m]
      ∧ o.evalDt = (fun dx => .ok (resultType o.md.inDt dx))
  | .diag =>
      bshapeS o.md.inShape o.md.datShape = .ok o.md.outShape
      ∧ (∀ k, o.md.datShape.size ≤ k → o.dat.get k = 0)
      ∧ ∀ i j, i < o.m → j < o.n →
          D i j = if bidxS o.md.outShape o.md.inShape i = j
                  then o.dat.get (bidxS o.md.outShape o.md.datShape i) else 0
  | .scaledId =>
      o.md.inShape = o.md.outShape
      ∧ ∀ i j, i < o.n → j < o.n → D i j = if i = j then o.dat.get 0 else 0
  | .ident =>
      o.md.inShape = o.md.outShape ∧ o.dat.get 0 = 1
      ∧ ∀ i j, i < o.n → j < o.n → D i j = if i = j then 1 else 0
  | _ => True

structure Sound (o : Obj K) (D : Mx K) : Prop where
  /-- a `LinearOperator` (linear expressions never produce a plain `Operator`) -/
  lin : o.md.cls ≠ .op
  ev : EvalIs o D
  ad : AdjIs o D
  /-- the arrays returned by the closures have the declared sizes -/
  evSz : ∀ x : Vc K, (o.eval x).size = o.m
  adSz : ∀ y : Vc K, (o.adj y).size = o.n
  pl : PayloadIs o D
  mode : Mode o

/-- the denoted matrix matters only on its `m × n` extent -/
theorem EvalIs.congr {o : Obj K} {D E : Mx K} (h : EvalIs o D)
    (hDE : ∀ i j, i < o.m → j < o.n → D i j = E i j) : EvalIs o E := by
  intro x i
  rw [h x i]
  by_cases hi : i < o.m
  · simp only [hi, if_true]
    exact mulVec_congr_left (fun j hj => hDE i j hi hj)
  · simp [hi]

theorem AdjIs.congr {o : Obj K} {D E : Mx K} (h : AdjIs o D)
    (hDE : ∀ i j, i < o.m → j < o.n → D i j = E i j) : AdjIs o E := by
  intro y j
  rw [h y j]
  by_cases hj : j < o.n
  · simp only [hj, if_true]
    exact mulVecH_congr_left (fun i hi => hDE i j hi hj)
  · simp [hj]

/-! ### size bookkeeping of the constructors -/

@[simp] theorem mkOp_m (inSh outSh : Shape) (a b : DT) (ev : Vc K → Vc K) (f : DtFn) :
    (mkOp inSh outSh a b ev f).m = outSh.size := rfl
@[simp] theorem mkOp_n (inSh outSh : Shape) (a b : DT) (ev : Vc K → Vc K) (f : DtFn) :
    (mkOp inSh outSh a b ev f).n = inSh.size := rfl
@[simp] theorem mkLin_m (c : Cls) (inSh outSh : Shape) (a b : DT) (ev ad : Vc K → Vc K) (f g : DtFn) :
    (mkLin c inSh outSh a b ev ad f g).m = outSh.size := rfl
@[simp] theorem mkLin_n (c : Cls) (inSh outSh : Shape) (a b : DT) (ev ad : Vc K → Vc K) (f g : DtFn) :
    (mkLin c inSh outSh a b ev ad f g).n = inSh.size := rfl
@[simp] theorem mkLin_eval (c : Cls) (inSh outSh : Shape) (a b : DT) (ev ad : Vc K → Vc K) (f g : DtFn) :
    (mkLin c inSh outSh a b ev ad f g).eval = ev := rfl
@[simp] theorem mkLin_adj (c : Cls) (inSh outSh : Shape) (a b : DT) (ev ad : Vc K → Vc K) (f g : DtFn) :
    (mkLin c inSh outSh a b ev ad f g).adj = ad := rfl
@[simp] theorem mkLin_cls (c : Cls) (inSh outSh : Shape) (a b : DT) (ev ad : Vc K → Vc K) (f g : DtFn) :
    (mkLin c inSh outSh a b ev ad f g).md.cls = c := rfl
@[simp] theorem mkOp_eval (inSh outSh : Shape) (a b : DT) (ev : Vc K → Vc K) (f : DtFn) :
    (mkOp inSh outSh a b ev f).eval = ev := rfl
@[simp] theorem mkOp_cls (inSh outSh : Shape) (a b : DT) (ev : Vc K → Vc K) (f : DtFn) :
    (mkOp inSh outSh a b ev f).md.cls = .op := rfl

theorem sameShape_n {a b : Obj K} (h : a.sameShape b = true) : a.n = b.n := by
  unfold Obj.sameShape at h
  simp only [Bool.and_eq_true, decide_eq_true_eq] at h
  unfold Obj.n
  rw [h.1]

theorem sameShape_m {a b : Obj K} (h : a.sameShape b = true) : a.m = b.m := by
  unfold Obj.sameShape at h
  simp only [Bool.and_eq_true, decide_eq_true_eq] at h
  unfold Obj.m
  rw [h.2]

end

end Scico.OpAlg
