/-
  `indexed_shape` (the loop of scico/numpy/util.py, model `indexedShape`) computes NumPy's basic
  indexing shape (`indexSpec`) for every shape and every index tuple with at most one `Ellipsis`.

  Invariant of the loop (`loop_spec`): after processing a prefix of the index, `idx_shape` is
  `P ++ shape[s:]` where `P` holds the entries produced so far (`len P = axis + offset`) and `s`
  (`= axis + offset - newaxis`) source axes have been consumed; before the `Ellipsis` the offset the
  code will assign there (`len(shape) + num_none - len(idx)`) is exactly what makes the position after
  the `Ellipsis` skip the axes it stands for.
-/
import Scico.Model.Shape

namespace Scico.Shape

def nCons (l : List Idx) : Nat := (l.filter Idx.consumes).length
def nEll (l : List Idx) : Nat := (l.filter (· = .ellipsis)).length
def nNew (l : List Idx) : Nat := (l.filter (· = .newaxis)).length

theorem count_split (l : List Idx) : l.length = nCons l + nNew l + nEll l := by
  induction l with
  | nil => rfl
  | cons x l ih =>
    cases x <;> simp [nCons, nEll, nNew, List.filter_cons, Idx.consumes] at ih ⊢ <;> omega

theorem filterMap_map_some (l : List Nat) : (l.map some).filterMap id = l := by
  induction l with
  | nil => rfl
  | cons a l ih => simp [List.filterMap_cons, ih]

theorem insertAt_append {β : Type} (P R : List β) (v : β) :
    insertAt (P ++ R) P.length v = P ++ v :: R := by
  simp [insertAt]

theorem set_append {β : Type} (P R : List β) (x v : β) :
    (P ++ x :: R).set P.length v = P ++ v :: R := by
  induction P with
  | nil => rfl
  | cons p P ih => simp [List.set, ih]

theorem drop_eq_cons {l : List Nat} {s : Nat} (h : s < l.length) :
    l.drop s = l.getD s 0 :: l.drop (s + 1) := by
  induction l generalizing s with
  | nil => simp at h
  | cons a l ih =>
    cases s with
    | zero => simp
    | succ s =>
      simp only [List.drop_succ_cons, List.getD_cons_succ]
      exact ih (by simpa using h)

/-- the loop invariant (see the header) -/
theorem loop_spec (shape : List Nat) (N n : Nat) :
    ∀ (rest : List Idx) (axis : Nat) (P : List (Option Nat)) (s : Nat) (offset : Int) (newaxis : Nat),
      nEll rest ≤ 1 →
      s + nCons rest ≤ shape.length →
      (axis : Int) + offset = P.length →
      (P.length : Int) - newaxis = s →
      (nEll rest = 1 → ((s + nCons rest : Nat) : Int) = (n : Int) - N - 1 + offset) →
      (indexedLoop shape N n rest axis (P ++ (shape.drop s).map some) offset newaxis).map
          (fun l => l.filterMap id)
        = (indexWalk (shape.drop s) rest (shape.length - s - nCons rest)).map
            (fun r => P.filterMap id ++ r) := by
  intro rest
  induction rest with
  | nil =>
    intro axis P s offset newaxis _ _ _ _ _
    simp only [indexedLoop, indexWalk, Option.map_some, List.filterMap_append, filterMap_map_some]
  | cons ix rest ih =>
    intro axis P s offset newaxis hE hle hpos hsrc hell
    cases ix with
    | newaxis =>
      have hE' : nEll rest ≤ 1 := by simpa [nEll, List.filter_cons] using hE
      have hc : nCons (Idx.newaxis :: rest) = nCons rest := by simp [nCons, List.filter_cons, Idx.consumes]
      have he : nEll (Idx.newaxis :: rest) = nEll rest := by simp [nEll, List.filter_cons]
      rw [hc] at hle hell ⊢
      rw [he] at hell
      have hp0 : ¬ ((axis : Int) + offset < 0) := by omega
      have hpn : ((axis : Int) + offset).toNat = P.length := by omega
      simp only [indexedLoop, hp0, if_false, hpn, insertAt_append, indexWalk]
      have := ih (axis + 1) (P ++ [some 1]) s offset (newaxis + 1) hE' hle
        (by simp only [List.length_append, List.length_singleton]; push_cast; omega)
        (by simp only [List.length_append, List.length_singleton]; push_cast; omega) hell
      simp only [List.append_assoc, List.singleton_append] at this
      rw [this]
      simp [Option.map_map, Function.comp_def, List.filterMap_append]
    | ellipsis =>
      have hE' : nEll rest = 0 := by
        have : nEll (Idx.ellipsis :: rest) = nEll rest + 1 := by simp [nEll, List.filter_cons]
        omega
      have hc : nCons (Idx.ellipsis :: rest) = nCons rest := by simp [nCons, List.filter_cons, Idx.consumes]
      have he : nEll (Idx.ellipsis :: rest) = 1 := by
        have : nEll (Idx.ellipsis :: rest) = nEll rest + 1 := by simp [nEll, List.filter_cons]
        omega
      rw [hc] at hle hell ⊢
      have hell' := hell he
      -- the axes the Ellipsis stands for
      let fill := shape.length - s - nCons rest
      have hsplit : (shape.drop s).map some
          = ((shape.drop s).take fill).map some ++ (shape.drop (s + fill)).map some := by
        rw [← List.map_append, ← List.drop_drop, List.take_append_drop]
      have hlen : (((shape.drop s).take fill).map some).length = fill := by
        simp only [List.length_map, List.length_take, List.length_drop]
        omega
      simp only [indexedLoop, indexWalk]
      rw [hsplit, ← List.append_assoc]
      have := ih (axis + 1) (P ++ ((shape.drop s).take fill).map some) (s + fill)
        ((shape.length : Int) + N - n) newaxis (by omega) (by omega)
        (by rw [List.length_append, hlen]; push_cast; omega)
        (by rw [List.length_append, hlen]; push_cast; omega)
        (by intro h; omega)
      rw [this]
      have h0 : shape.length - (s + fill) - nCons rest = 0 := by omega
      rw [h0, List.drop_drop]
      simp only [Option.map_map, Function.comp_def, List.filterMap_append, filterMap_map_some,
        List.append_assoc]
      rfl
    | int i =>
      have hE' : nEll rest ≤ 1 := by simpa [nEll, List.filter_cons] using hE
      have hc : nCons (Idx.int i :: rest) = nCons rest + 1 := by simp [nCons, List.filter_cons, Idx.consumes]
      have he : nEll (Idx.int i :: rest) = nEll rest := by simp [nEll, List.filter_cons]
      rw [hc] at hle hell ⊢
      rw [he] at hell
      have hs : s < shape.length := by omega
      have hpn : ((axis : Int) + offset).toNat = P.length := by omega
      have hsn : ((axis : Int) + offset - newaxis).toNat = s := by omega
      rw [drop_eq_cons hs]
      simp only [indexedLoop, hpn, hsn, List.map_cons, indexWalk]
      rw [if_neg (by
        simp only [List.length_append, List.length_cons, List.length_map, List.length_drop]
        omega)]
      simp only [set_append]
      cases hax : axisLen (shape.getD s 0) (Idx.int i) with
      | none => simp
      | some v =>
        dsimp only
        have := ih (axis + 1) (P ++ [v]) (s + 1) offset newaxis hE' (by omega)
          (by simp only [List.length_append, List.length_singleton]; push_cast; omega)
          (by simp only [List.length_append, List.length_singleton]; push_cast; omega)
          (by intro h; have := hell h; push_cast at this ⊢; omega)
        simp only [List.append_assoc, List.singleton_append] at this
        rw [this]
        have hf : shape.length - (s + 1) - nCons rest = shape.length - s - (nCons rest + 1) := by omega
        rw [hf]
        cases v with
        | none => simp [List.filterMap_append]
        | some k => simp [Option.map_map, Function.comp_def, List.filterMap_append]
    | slice sl =>
      have hE' : nEll rest ≤ 1 := by simpa [nEll, List.filter_cons] using hE
      have hc : nCons (Idx.slice sl :: rest) = nCons rest + 1 := by simp [nCons, List.filter_cons, Idx.consumes]
      have he : nEll (Idx.slice sl :: rest) = nEll rest := by simp [nEll, List.filter_cons]
      rw [hc] at hle hell ⊢
      rw [he] at hell
      have hs : s < shape.length := by omega
      have hpn : ((axis : Int) + offset).toNat = P.length := by omega
      have hsn : ((axis : Int) + offset - newaxis).toNat = s := by omega
      rw [drop_eq_cons hs]
      simp only [indexedLoop, hpn, hsn, List.map_cons, indexWalk]
      rw [if_neg (by
        simp only [List.length_append, List.length_cons, List.length_map, List.length_drop]
        omega)]
      simp only [set_append]
      cases hax : axisLen (shape.getD s 0) (Idx.slice sl) with
      | none => simp
      | some v =>
        dsimp only
        have := ih (axis + 1) (P ++ [v]) (s + 1) offset newaxis hE' (by omega)
          (by simp only [List.length_append, List.length_singleton]; push_cast; omega)
          (by simp only [List.length_append, List.length_singleton]; push_cast; omega)
          (by intro h; have := hell h; push_cast at this ⊢; omega)
        simp only [List.append_assoc, List.singleton_append] at this
        rw [this]
        have hf : shape.length - (s + 1) - nCons rest = shape.length - s - (nCons rest + 1) := by omega
        rw [hf]
        cases v with
        | none => simp [List.filterMap_append]
        | some k => simp [Option.map_map, Function.comp_def, List.filterMap_append]

/-- **`indexed_shape` = NumPy basic indexing** for every shape and every index with at most one
    `Ellipsis` (rejections included) -/
theorem indexedShape_eq_spec (shape : List Nat) (idx : List Idx) (h : nEll idx ≤ 1) :
    indexedShape shape idx = indexSpec shape idx := by
  unfold indexedShape indexSpec
  by_cases hg : (idx.filter Idx.consumes).length > shape.length
  · simp [hg]
  · simp only [hg, if_false]
    have hle : 0 + nCons idx ≤ shape.length := by simp only [nCons]; omega
    have := loop_spec shape (idx.filter (· = .newaxis)).length idx.length idx 0 [] 0 0 0 h hle
      (by simp) (by simp)
      (by
        intro he
        have := count_split idx
        simp only [nNew] at this
        push_cast
        omega)
    simp only [List.nil_append, List.drop_zero, List.filterMap_nil, Nat.sub_zero] at this
    rw [this]
    simp only [nCons]
    cases indexWalk shape idx (shape.length - (idx.filter Idx.consumes).length) <;> simp

end Scico.Shape
