/-
  Adjoint engine: hand-written adjoints of `CircularConvolve` (signal domain, incl. the sum over a broadcast
  batch axis) and of the X-ray projectors (scatter-add with drop  vs  gather with fill / clamp).
-/
import Scico.Proofs.AdjointViews

set_option linter.unusedSectionVars false

namespace Scico.Adjoint
open Finset

/-! ### rotation of a sum over `range n` -/

theorem rot_inv (n i j : Nat) (hi : i < n) : ((i + j) % n + (n - j % n)) % n = i := by
  have hn : 0 < n := Nat.lt_of_le_of_lt (Nat.zero_le _) hi
  have ha : j % n < n := Nat.mod_lt _ hn
  rw [Nat.mod_add_mod]
  have hj : n * (j / n) + j % n = j := Nat.div_add_mod j n
  have : i + j + (n - j % n) = i + (j / n + 1) * n := by
    have e : (j / n + 1) * n = n * (j / n) + n := by ring
    rw [e]; omega
  rw [this, Nat.add_mul_mod_self_right, Nat.mod_eq_of_lt hi]

theorem rot_inv' (n i j : Nat) (hi : i < n) : ((i + (n - j % n)) % n + j) % n = i := by
  have hn : 0 < n := Nat.lt_of_le_of_lt (Nat.zero_le _) hi
  have ha : j % n < n := Nat.mod_lt _ hn
  rw [Nat.mod_add_mod]
  have hj : n * (j / n) + j % n = j := Nat.div_add_mod j n
  have : i + (n - j % n) + j = i + (j / n + 1) * n := by
    have e : (j / n + 1) * n = n * (j / n) + n := by ring
    rw [e]; omega
  rw [this, Nat.add_mul_mod_self_right, Nat.mod_eq_of_lt hi]

theorem sum_range_rot {M : Type} [AddCommMonoid M] (n j : Nat) (f : Nat → M) :
    ∑ i ∈ range n, f ((i + j) % n) = ∑ i ∈ range n, f i := by
  rcases Nat.eq_zero_or_pos n with rfl | hn
  · simp
  apply Finset.sum_nbij' (fun i => (i + j) % n) (fun i => (i + (n - j % n)) % n)
  · intro i _; exact Finset.mem_range.mpr (Nat.mod_lt _ hn)
  · intro i _; exact Finset.mem_range.mpr (Nat.mod_lt _ hn)
  · intro i hi; exact rot_inv n i j (Finset.mem_range.mp hi)
  · intro i hi; exact rot_inv' n i j (Finset.mem_range.mp hi)
  · intro i _; rfl

variable {K : Type} [Field K] [StarRing K]

/-! ### circular convolution / correlation -/

/-- `CircularConvolve._adj` (correlation with the conjugated filter) is the adjoint of `_eval`, for every length,
    filter and pair of signals -/
theorem circ_isAdj (n : Nat) (h : V K) : IsAdj (Op.circ n h) := by
  intro x y
  simp only [Op.circ, circConv, circCorr, ip_eq, sumTo_eq, conj_eq_star, star_sum, star_mul', star_star,
    Finset.sum_mul, Finset.mul_sum]
  rw [Finset.sum_comm]
  conv_rhs => rw [Finset.sum_comm]
  apply Finset.sum_congr rfl
  intro j hj
  have hj' : j < n := Finset.mem_range.mp hj
  -- Σ_i h_j x_{(i+(n-j))%n} star(y_i)  =  Σ_i x_i h_j star(y_{(i+j)%n})   by  i ↦ (i+j) % n
  rw [← sum_range_rot n j (fun i => h j * x ((i + (n - j)) % n) * star (y i))]
  apply Finset.sum_congr rfl
  intro i hi
  have hi' : i < n := Finset.mem_range.mp hi
  have e : ((i + j) % n + (n - j)) % n = i := by
    have := rot_inv n i j hi'
    rwa [Nat.mod_eq_of_lt hj'] at this
  rw [e]
  ring

theorem ip_sum_right (n : Nat) (u : V K) (s : Finset Nat) (g : Nat → V K) :
    ip n u (fun i => ∑ b ∈ s, g b i) = ∑ b ∈ s, ip n u (g b) := by
  simp only [ip_eq, star_sum, Finset.mul_sum]
  rw [Finset.sum_comm]

/-- several filters applied to one signal (`h` of shape `(k,n)`, input of shape `(n,)`): the adjoint sums the
    correlations over the broadcast batch axis -/
theorem circBatch_isAdj (k n : Nat) (hk : 0 < k) (hn : 0 < n) (h : V K) : IsAdj (Op.circBatch k n h) := by
  intro x y
  simp only [Op.circBatch]
  have e0 : k * n = k * (1 * n) := by ring
  rw [e0, ip_rep k 1 n hn hk]
  have e1 : (fun i => sumTo k fun b => circCorr n (vdrop (b * n) h) (vdrop (b * n) y) i)
      = fun i => ∑ b ∈ range k, circCorr n (vdrop (b * n) h) (vdrop (b * n) y) i := by
    funext i; rw [sumTo_eq]
  rw [e1, ip_sum_right]
  apply Finset.sum_congr rfl
  intro b hb
  have hb' : b < k := Finset.mem_range.mp hb
  have := circ_isAdj n (vdrop (b * n) h) x (vdrop (b * n) y)
  simp only [Op.circ] at this
  rw [← this, Nat.one_mul]
  apply ip_congr
  · intro i hi
    simp only [Op.slab, Op.repIx]
    have d : i / n = 0 := Nat.div_eq_of_lt hi
    have m : i % n = i := Nat.mod_eq_of_lt hi
    have a1 : ((i / n * k + b) * n + i % n) / n = b := by
      rw [d, m, Nat.zero_mul, Nat.zero_add, Nat.add_comm, Nat.add_mul_div_right _ _ hn, d, Nat.zero_add]
    have a2 : ((i / n * k + b) * n + i % n) % n = i := by
      rw [d, m, Nat.zero_mul, Nat.zero_add, Nat.add_comm, Nat.add_mul_mod_self_right, m]
    rw [a1, a2]
  · intro i hi
    simp only [Op.slab, Op.repIx, vdrop]
    have d : i / n = 0 := Nat.div_eq_of_lt hi
    have m : i % n = i := Nat.mod_eq_of_lt hi
    rw [d, m, Nat.zero_mul, Nat.zero_add]

/-! ### scatter-add (drop) and gather (fill 0 / clamp) -/

/-- for ALL index arrays: gather-with-zero-fill is the adjoint of scatter-add-with-drop (real weights) -/
theorem scatFill_isAdj (np ny : Nat) (I : Nat → Nat) (w : V K) (hw : ∀ p, star (w p) = w p) :
    IsAdj (Op.scatFill np ny I w) := by
  intro x y
  simp only [Op.scatFill, scatterAddDrop, gatherFill0, ip_eq, sumTo_eq]
  have l : ∀ j ∈ range ny, (if j < ny then ∑ p ∈ range np, if I p = j then w p * x p else 0 else 0) * star (y j)
      = ∑ p ∈ range np, if I p = j then w p * x p * star (y j) else 0 := by
    intro j hj
    rw [if_pos (Finset.mem_range.mp hj), Finset.sum_mul]
    apply Finset.sum_congr rfl
    intro p _
    split <;> simp
  rw [Finset.sum_congr rfl l, Finset.sum_comm]
  apply Finset.sum_congr rfl
  intro p _
  rw [Finset.sum_ite_eq (range ny) (I p) (fun j => w p * x p * star (y j))]
  by_cases hI : I p < ny
  · simp [hI, star_mul', hw]; ring
  · simp [hI]

/-- reading at positions `J` equals the zero-filled read at `I` (for every `y`) iff they agree wherever the weight
    is non-zero — provided the positions `J` are on the detector -/
theorem gatherAt_eq_fill_iff (np ny : Nat) (I J : Nat → Nat) (w : V K) (hJ : ∀ p < np, J p < ny) :
    (∀ y : V K, ∀ p < np, gatherAt J w y p = gatherFill0 ny I w y p) ↔ ∀ p < np, w p = 0 ∨ I p = J p := by
  constructor
  · intro h p hp
    by_cases hw : w p = 0
    · exact Or.inl hw
    · right
      by_contra hne
      have := h (basis (J p)) p hp
      simp only [gatherAt, gatherFill0, basis, if_true, mul_one] at this
      by_cases hI : I p < ny
      · simp [hI, hne] at this
        exact hw this
      · simp [hI] at this
        exact hw this
  · intro h y p hp
    rcases h p hp with h0 | he
    · simp [gatherAt, gatherFill0, h0]
    · simp [gatherAt, gatherFill0, he, hJ p hp]

theorem clampIdx_lt {ny i : Nat} (h : 0 < ny) : clampIdx ny i < ny := by
  unfold clampIdx; split <;> omega

theorem clampIdx_eq_iff {ny i : Nat} (h : 0 < ny) : i = clampIdx ny i ↔ i < ny := by
  unfold clampIdx; split <;> omega

/-- `back_project`'s clamped gather equals the true adjoint iff every pixel with non-zero weight lands on the detector -/
theorem gatherClamp_eq_fill_iff (np ny : Nat) (hny : 0 < ny) (I : Nat → Nat) (w : V K) :
    (∀ y : V K, ∀ p < np, gatherClamp ny I w y p = gatherFill0 ny I w y p) ↔ ∀ p < np, w p = 0 ∨ I p < ny := by
  unfold gatherClamp
  rw [gatherAt_eq_fill_iff np ny I _ w (fun p _ => clampIdx_lt hny)]
  constructor
  · intro h p hp
    rcases h p hp with h0 | he
    · exact Or.inl h0
    · exact Or.inr ((clampIdx_eq_iff hny).mp he)
  · intro h p hp
    rcases h p hp with h0 | he
    · exact Or.inl h0
    · exact Or.inr ((clampIdx_eq_iff hny).mpr he)

/-- the projector term as coded (scatter with drop / gather with clamp) is an adjoint pair when the detector
    covers the shadow -/
theorem scatClamp_isAdj_of_covered (np ny : Nat) (hny : 0 < ny) (I : Nat → Nat) (w : V K)
    (hw : ∀ p, star (w p) = w p) (hcov : ∀ p < np, w p = 0 ∨ I p < ny) : IsAdj (Op.scatClamp np ny I w) := by
  intro x y
  have h := scatFill_isAdj np ny I w hw x y
  simp only [Op.scatFill] at h
  simp only [Op.scatClamp]
  rw [h]
  apply ip_congr
  · intro _ _; rfl
  · intro p hp
    exact ((gatherClamp_eq_fill_iff np ny hny I w).mpr hcov y p hp).symm

/-- … and is NOT an adjoint pair as soon as one pixel with non-zero weight falls off the detector -/
theorem scatClamp_not_isAdj (np ny : Nat) (hny : 0 < ny) (I : Nat → Nat) (w : V K)
    (p : Nat) (hp : p < np) (hwp : w p ≠ 0) (hoff : ny ≤ I p) : ¬ IsAdj (Op.scatClamp np ny I w) := by
  intro h
  have := h (basis p) (basis (ny - 1))
  simp only [Op.scatClamp] at this
  rw [ip_basis_right _ _ (by omega), ip_basis_left _ _ hp] at this
  simp only [scatterAddDrop, gatherClamp, gatherAt, sumTo_eq] at this
  have hc : clampIdx ny (I p) = ny - 1 := by unfold clampIdx; split <;> omega
  rw [hc] at this
  have hlt : ny - 1 < ny := by omega
  simp only [hlt, if_true, basis, mul_one] at this
  have hz : ∑ q ∈ range np, (if I q = ny - 1 then w q * (if q = p then (1 : K) else 0) else 0) = 0 := by
    apply Finset.sum_eq_zero
    intro q _
    by_cases hq : q = p
    · subst hq
      have : I q ≠ ny - 1 := by omega
      simp [this]
    · simp [hq]
  rw [hz] at this
  have : w p = 0 := by
    have h2 := congrArg star this
    simpa using h2.symm
  exact hwp this

/-! 2-D detector (3-D transform): flat index with drop vs per-axis clamp -/

theorem flat2_eq_clamp2_iff {d0 d1 a b : Nat} (h0 : 0 < d0) (h1 : 0 < d1) :
    flat2 d0 d1 a b = clamp2 d0 d1 a b ↔ (a < d0 ∧ b < d1) := by
  unfold flat2 clamp2
  have hc : clampIdx d0 a * d1 + clampIdx d1 b < d0 * d1 := by
    have ha : clampIdx d0 a + 1 ≤ d0 := clampIdx_lt h0
    have hb : clampIdx d1 b < d1 := clampIdx_lt h1
    have := Nat.mul_le_mul_right d1 ha
    rw [Nat.add_mul, Nat.one_mul] at this
    omega
  constructor
  · intro h
    by_contra hn
    rw [if_neg hn] at h
    omega
  · intro h
    rw [if_pos h]
    unfold clampIdx
    simp [h.1, h.2]

theorem clamp2_lt {d0 d1 a b : Nat} (h0 : 0 < d0) (h1 : 0 < d1) : clamp2 d0 d1 a b < d0 * d1 := by
  unfold clamp2
  have ha : clampIdx d0 a + 1 ≤ d0 := clampIdx_lt h0
  have hb : clampIdx d1 b < d1 := clampIdx_lt h1
  have := Nat.mul_le_mul_right d1 ha
  rw [Nat.add_mul, Nat.one_mul] at this
  omega

/-- 3-D transform: reading `y[a,b]` with per-axis clamping equals the true adjoint of the dropping scatter iff
    every voxel corner with non-zero weight lies on the detector -/
theorem gather2_eq_fill_iff (np d0 d1 : Nat) (h0 : 0 < d0) (h1 : 0 < d1) (a b : Nat → Nat) (w : V K) :
    (∀ y : V K, ∀ p < np,
        gatherAt (fun p => clamp2 d0 d1 (a p) (b p)) w y p
          = gatherFill0 (d0 * d1) (fun p => flat2 d0 d1 (a p) (b p)) w y p)
      ↔ ∀ p < np, w p = 0 ∨ (a p < d0 ∧ b p < d1) := by
  rw [gatherAt_eq_fill_iff np (d0 * d1) _ _ w (fun p _ => clamp2_lt h0 h1)]
  constructor
  · intro h p hp
    rcases h p hp with hz | he
    · exact Or.inl hz
    · exact Or.inr ((flat2_eq_clamp2_iff h0 h1).mp he)
  · intro h p hp
    rcases h p hp with hz | he
    · exact Or.inl hz
    · exact Or.inr ((flat2_eq_clamp2_iff h0 h1).mpr he)

end Scico.Adjoint
