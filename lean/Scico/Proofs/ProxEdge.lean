/-
  Parameter edge cases of the closed-form proxes — what the code computes when a constructor parameter leaves the range the
  documentation has in mind, and whether that is still a minimiser: `L2BallIndicator(radius ≤ 0)`, `HuberNorm(delta < 0)`,
  `SquaredL2Loss(scale < 0)` / negative weights with a diagonal operator.
-/
import Scico.Proofs.ProxSep
import Mathlib.Tactic.FieldSimp

set_option linter.unusedSectionVars false

namespace Scico.ProxEdge
open Scico Scico.Prox Scico.ProxSpec Scico.ProxBridge Scico.ProxConvex WithLp

variable {n : ℕ}

/-- `L2BallIndicator(radius = 0)`: the ball is `{0}`; for `v ≠ 0` the code returns `v·(0/‖v‖) = 0`, the projection
    (at `v = 0` the code divides `0/0`: NaN — excluded) -/
theorem cert_ball_zero_radius {lam : ℝ} (v : Fin n → ℝ) (_hv : toE v ≠ 0) :
    Cert {x : EuclideanSpace ℝ (Fin n) | ‖x‖ ≤ 0} (fun _ => 0) lam (toE v) (toE (l2ballProx 0 v)) := by
  have h0 : toE (l2ballProx 0 v) = 0 := by rw [l2ballProx_eq]; simp
  rw [h0]
  refine ⟨by simp, fun z hz => ?_⟩
  have hz0 : z = 0 := norm_le_zero_iff.mp hz
  rw [hz0]; simp

/-- `L2BallIndicator(radius < 0)`: the "ball" is empty (no minimiser exists), and for `v ≠ 0` the code returns the point
    `radius·v/‖v‖` of norm `-radius` — outside the domain (`__call__` is `inf` there) -/
theorem ball_negative_radius {rad : ℝ} (hr : rad < 0) (v : Fin n → ℝ) (hv : toE v ≠ 0) :
    {x : EuclideanSpace ℝ (Fin n) | ‖x‖ ≤ rad} = ∅ ∧ ‖toE (l2ballProx rad v)‖ = -rad := by
  constructor
  · ext x; simp only [Set.mem_ofPred_eq, Set.mem_empty_iff_false, iff_false, not_le]
    exact lt_of_lt_of_le hr (norm_nonneg x)
  · have hpos : 0 < ‖toE v‖ := norm_pos_iff.mpr hv
    rw [l2ballProx_eq, max_eq_left (by linarith), norm_smul, Real.norm_eq_abs, abs_div, abs_of_neg hr, abs_of_pos hpos]
    field_simp

/-- `HuberNorm(delta < 0, separable=False)`: the functional is `delta·(‖x‖ - delta/2)` everywhere (concave in `‖x‖`); for `v ≠ 0`
    the code's formula `(1 - delta·lam/‖v‖)·v` — pushing `v` OUTWARDS by `-delta·lam` — is a global minimiser
    (at `v = 0` the minimisers form the sphere of radius `-delta·lam` and the code returns NaN) -/
theorem min_huber_negative_delta {lam delta : ℝ} (hlam : 0 < lam) (hd : delta < 0) (v : Fin n → ℝ) (hv : toE v ≠ 0) :
    IsGMin Set.univ (fun x : EuclideanSpace ℝ (Fin n) => huberFn delta ‖x‖) lam (toE v) (toE (huberNonsepProx delta v lam)) := by
  have hpos : 0 < ‖toE v‖ := norm_pos_iff.mpr hv
  have hmax : max ‖toE v‖ (delta * (1 + lam)) = ‖toE v‖ := max_eq_left (by nlinarith)
  rw [huberNonsepProx_eq, hmax]
  set t := ‖toE v‖ with ht
  set c := 1 - delta * lam / t with hc
  have hc0 : 0 < c := by
    have : 0 < -(delta * lam) / t := div_pos (by nlinarith) hpos
    rw [hc]; have e : 1 - delta * lam / t = 1 + -(delta * lam) / t := by ring
    rw [e]; linarith
  have hs : c * t = t - delta * lam := by rw [hc]; field_simp
  have hφ : ∀ r : ℝ, 0 ≤ r → huberFn delta r = delta * (r - delta / 2) := by
    intro r hr; unfold huberFn; rw [if_neg (by linarith)]
  have := min_radial (R := Set.univ) (φ := huberFn delta) (lam := lam) (v := toE v) (p := c • toE v) (s := c * t)
    (Set.mem_univ _)
    (by rw [norm_smul, Real.norm_eq_abs, abs_of_pos hc0])
    (by rw [real_inner_smul_right, real_inner_self_eq_norm_sq]; ring)
    (fun r _ hr => by
      rw [hφ r hr, hφ (c * t) (by positivity), hs, ← ht]
      nlinarith [sq_nonneg (r - (t - delta * lam))])
  exact this.congr_dom (by ext; simp)

/-- `SquaredL2Loss` (diagonal `A`) with ANY sign of `scale` / weights: as long as every denominator `1 + 2·scale·lam·w_i·a_i²`
    is positive the objective is still strictly convex and the code's formula is the global minimiser -/
theorem min_sqL2loss_diag_anyscale {lam scale : ℝ} (w a y v : Fin n → ℝ)
    (hden : ∀ i, 0 < 2 * scale * lam * a i * w i * a i + 1) :
    IsGMin Set.univ (fun x : EuclideanSpace ℝ (Fin n) => ∑ i, scale * (w i * (y i - a i * x i) ^ 2)) lam (toE v)
      (toE (sqL2LossDiagProx scale w a y v lam)) := by
  have := min_sep (D := fun _ : Fin n => Set.univ) (φ := fun i x => scale * (w i * (y i - a i * x) ^ 2))
    (lam := lam) (v := v) (p := sqL2LossDiagProx scale w a y v lam)
    (fun i => ⟨trivial, fun x _ => by
      show lam * (scale * (w i * (y i - a i * sqL2LossDiagProx1 scale (w i) (a i) (y i) (v i) lam) ^ 2))
          + 1 / 2 * (sqL2LossDiagProx1 scale (w i) (a i) (y i) (v i) lam - v i) ^ 2 ≤ _
      unfold sqL2LossDiagProx1
      simp only []
      have hd := hden i
      set den := 2 * scale * lam * a i * w i * a i + 1 with hdn
      set p := (2 * scale * lam * a i * w i * y i + v i) / den with hp
      have hpe : p * den = 2 * scale * lam * a i * w i * y i + v i := by rw [hp]; field_simp
      have key : lam * (scale * (w i * (y i - a i * x) ^ 2)) + 1 / 2 * (x - v i) ^ 2
          - (lam * (scale * (w i * (y i - a i * p) ^ 2)) + 1 / 2 * (p - v i) ^ 2)
          = den / 2 * (x - p) ^ 2 + (x - p) * (p * den - (2 * scale * lam * a i * w i * y i + v i)) := by
        rw [hdn]; ring
      rw [hpe, sub_self, mul_zero, add_zero] at key
      have : 0 ≤ den / 2 * (x - p) ^ 2 := by positivity
      linarith⟩)
  exact this.congr_dom setOf_forall_univ

/-- … and with a negative denominator it is NOT: `scale = -1`, `w = a = lam = 1`, `y = v = 0` returns `0` (objective `0`),
    while `x = 1` has objective `-½` (the objective is unbounded below) -/
theorem sqL2loss_diag_negscale_not_min :
    ¬ IsGMin Set.univ (fun x : EuclideanSpace ℝ (Fin 1) => ∑ i, (-1 : ℝ) * ((fun _ => (1 : ℝ)) i * ((fun _ => (0 : ℝ)) i - (fun _ => (1 : ℝ)) i * x i) ^ 2))
        1 (toE (fun _ : Fin 1 => (0 : ℝ)))
        (toE (sqL2LossDiagProx (-1) (fun _ : Fin 1 => (1 : ℝ)) (fun _ => 1) (fun _ => 0) (fun _ => 0) 1)) := by
  intro h
  have h1 := h.2 (toE (fun _ : Fin 1 => (1 : ℝ))) trivial
  have hp : sqL2LossDiagProx (-1) (fun _ : Fin 1 => (1 : ℝ)) (fun _ => 1) (fun _ => 0) (fun _ => 0) 1 = fun _ => (0 : ℝ) := by
    funext i; simp [sqL2LossDiagProx, sqL2LossDiagProx1]
  rw [hp] at h1
  simp only [EuclideanSpace.norm_eq, Fin.sum_univ_one, toE_apply, PiLp.sub_apply, Real.norm_eq_abs, sq_abs] at h1
  rw [Real.sq_sqrt (sq_nonneg _), Real.sq_sqrt (sq_nonneg _)] at h1
  norm_num at h1

end Scico.ProxEdge
