/-
  C15: callbacks that assign `optimizer.nanstop`.  `solveN` is simulated by the plain `solve` of an
  optimiser whose state carries the attribute along (`envN`, `cbN`): the NaN test of that optimiser
  is always on and sees no variable while the carried flag is off.  All theorems about `solve`
  therefore transfer.
-/
import Scico.Proofs.DriverSolve

set_option linter.unusedSimpArgs false

namespace Scico.Driver
open Scico.Driver.Spec

variable {ω ρ ξ α L : Type} [DecidableEq L]

/-- the optimiser with the attribute `nanstop` made part of its state -/
def envN (E : Env ω ρ ξ α) : Env (ω × Bool) ρ ξ α :=
  { step := fun w => (E.step w.1, w.2), stepTicks := fun w => E.stepTicks w.1,
    vars := fun w => if w.2 then E.vars w.1 else [], fin := E.fin,
    fields := fun w => E.fields w.1, minimizer := fun w => E.minimizer w.1 }

def cbN (c : CallbackN ω) : Callback (ω × Bool) :=
  { run := fun w => (c.run w.1, (c.setNan w.1).getD w.2), ticks := fun w => c.ticks w.1 }

/-- `dn` (attribute in the driver) and `d'` (attribute in the state, test always on) agree -/
structure RelN (dn : Drv ω ρ L) (d' : Drv (ω × Bool) ρ L) : Prop where
  world : d'.world = (dn.world, dn.nanstop)
  nan : d'.nanstop = true
  clock : d'.clock = dn.clock
  itnum : d'.itnum = dn.itnum
  maxiter : d'.maxiter = dn.maxiter
  timer : d'.timer = dn.timer
  rows : d'.rows = dn.rows
  tlog : d'.tlog = dn.tlog
  cblog : d'.cblog.map (fun r => (r.itnum, r.world.1, r.enter, r.leave)) =
    dn.cblog.map (fun r => (r.itnum, r.world, r.enter, r.leave))

theorem bodyN_rel (E : Env ω ρ ξ α) (c : CallbackN ω) (dn : Drv ω ρ L) (d' : Drv (ω × Bool) ρ L) (i : Int)
    (h : RelN dn d') :
    (body (envN E) (some (cbN c)) d' i).2 = (bodyN E c dn i).2 ∧
      RelN (bodyN E c dn i).1 (body (envN E) (some (cbN c)) d' i).1 := by
  obtain ⟨w, cl, it, mx, ns, T, rows, cbl, tl⟩ := dn
  obtain ⟨w', cl', it', mx', ns', T', rows', cbl', tl'⟩ := d'
  obtain ⟨h1, h2, h3, h4, h5, h6, h7, h8, h9⟩ := h
  simp only at h1 h2 h3 h4 h5 h6 h7 h8 h9
  subst h1 h2 h3 h4 h5 h6 h7 h8
  cases ns with
  | false =>
    simp only [body, bodyN, envN, cbN, Drv.timerStop, Drv.timerStart, workingVarsFinite, List.all_nil, Bool.not_true,
      Bool.and_false, Bool.false_and, Bool.false_eq_true, if_false]
    cases (T'.stop Arg.none (cl' + E.stepTicks w)).2
    · exact ⟨rfl, ⟨rfl, rfl, rfl, rfl, rfl, rfl, rfl, rfl, h9⟩⟩
    · refine ⟨rfl, ⟨rfl, rfl, rfl, rfl, rfl, rfl, rfl, rfl, ?_⟩⟩
      simp only [List.map_append, h9, List.map_cons, List.map_nil]
  | true =>
    simp only [body, bodyN, envN, cbN, Drv.timerStop, Drv.timerStart, if_true, Bool.true_and]
    split
    · exact ⟨rfl, ⟨rfl, rfl, rfl, rfl, rfl, rfl, rfl, rfl, h9⟩⟩
    · cases (T'.stop Arg.none (cl' + E.stepTicks w)).2
      · exact ⟨rfl, ⟨rfl, rfl, rfl, rfl, rfl, rfl, rfl, rfl, h9⟩⟩
      · refine ⟨rfl, ⟨rfl, rfl, rfl, rfl, rfl, rfl, rfl, rfl, ?_⟩⟩
        simp only [List.map_append, h9, List.map_cons, List.map_nil]

theorem loopN_rel (E : Env ω ρ ξ α) (c : CallbackN ω) (n : Nat) (i : Int) (dn : Drv ω ρ L)
    (d' : Drv (ω × Bool) ρ L) (h : RelN dn d') :
    (loop (envN E) (some (cbN c)) n i d').2 = (loopN E c n i dn).2 ∧
      RelN (loopN E c n i dn).1 (loop (envN E) (some (cbN c)) n i d').1 := by
  induction n generalizing i dn d' with
  | zero => exact ⟨rfl, h⟩
  | succ n ih =>
    obtain ⟨ho, hs⟩ := bodyN_rel E c dn d' i h
    simp only [loopN, loop]
    rcases hb : body (envN E) (some (cbN c)) d' i with ⟨d1, o⟩
    rcases hbn : bodyN E c dn i with ⟨dn1, on⟩
    rw [hb, hbn] at ho hs
    simp only at ho hs
    subst ho
    cases o with
    | ok => exact ih (i + 1) dn1 d1 hs
    | nan => exact ⟨rfl, hs⟩
    | key => exact ⟨rfl, hs⟩

/-- the driver state with the attribute moved into the optimiser's state -/
def liftN (d : Drv ω ρ L) : Drv (ω × Bool) ρ L :=
  { world := (d.world, d.nanstop), clock := d.clock, itnum := d.itnum, maxiter := d.maxiter, nanstop := true,
    timer := d.timer, rows := d.rows,
    cblog := d.cblog.map (fun r => ⟨r.itnum, (r.world, d.nanstop), r.enter, r.leave⟩), tlog := d.tlog }

theorem relN_lift (d : Drv ω ρ L) : RelN d (liftN d) := by
  refine ⟨rfl, rfl, rfl, rfl, rfl, rfl, rfl, rfl, ?_⟩
  simp [liftN, List.map_map, Function.comp_def]

/-- **`solveN` is `solve` of the optimiser that carries the attribute in its state** -/
theorem solveN_rel (E : Env ω ρ ξ α) (c : CallbackN ω) (d : Drv ω ρ L) :
    (solve (envN E) (some (cbN c)) (liftN d)).2 = (solveN E c d).2 ∧
      RelN (solveN E c d).1 (solve (envN E) (some (cbN c)) (liftN d)).1 := by
  have h0 : RelN d.timerStart (liftN d).timerStart := by
    have := relN_lift d
    obtain ⟨h1, h2, h3, h4, h5, h6, h7, h8, h9⟩ := this
    exact ⟨h1, h2, h3, h4, h5, by simp [Drv.timerStart, h6, h3], h7, by simp [Drv.timerStart, h8, h3], h9⟩
  have hm : (liftN d).timerStart.maxiter = d.timerStart.maxiter := rfl
  have hi : (liftN d).timerStart.itnum = d.timerStart.itnum := rfl
  obtain ⟨ho, hs⟩ := loopN_rel E c d.timerStart.maxiter.toNat d.timerStart.itnum _ _ h0
  simp only [solveN, solve, hm, hi]
  rcases hl : loop (envN E) (some (cbN c)) d.timerStart.maxiter.toNat d.timerStart.itnum (liftN d).timerStart with ⟨d1, o⟩
  rcases hln : loopN E c d.timerStart.maxiter.toNat d.timerStart.itnum d.timerStart with ⟨dn1, on⟩
  rw [hl, hln] at ho hs
  simp only at ho hs
  subst ho
  cases o with
  | nan => exact ⟨rfl, hs⟩
  | key => exact ⟨rfl, hs⟩
  | ok =>
    obtain ⟨w, cl, it, mx, ns, T, rows, cbl, tl⟩ := dn1
    obtain ⟨w', cl', it', mx', ns', T', rows', cbl', tl'⟩ := d1
    obtain ⟨h1, h2, h3, h4, h5, h6, h7, h8, h9⟩ := hs
    simp only at h1 h2 h3 h4 h5 h6 h7 h8 h9
    subst h1 h2 h3 h4 h5 h6 h7 h8
    simp only [Drv.timerStop]
    cases (T'.stop Arg.none cl').2
    · exact ⟨rfl, ⟨rfl, rfl, rfl, rfl, rfl, rfl, rfl, rfl, h9⟩⟩
    · simp only
      refine ⟨trivial, ?_⟩
      split <;> exact ⟨rfl, rfl, rfl, rfl, rfl, rfl, rfl, rfl, h9⟩

/-- value of the attribute `nanstop` when the test of iteration `k` reads it: what the callbacks
    of the earlier iterations left -/
def nanAt (E : Env ω ρ ξ α) (c : CallbackN ω) (w : ω) (b : Bool) : Nat → Bool
  | 0 => b
  | k + 1 => (c.setNan (afterStep E (some c.toCallback) w k)).getD (nanAt E c w b k)

omit [DecidableEq L] in
theorem worldAtN (E : Env ω ρ ξ α) (c : CallbackN ω) (w : ω) (b : Bool) (k : Nat) :
    worldAt (envN E) (some (cbN c)) (w, b) k = (worldAt E (some c.toCallback) w k, nanAt E c w b k) := by
  induction k with
  | zero => rfl
  | succ k ih =>
    show iterWorld (envN E) (some (cbN c)) (worldAt (envN E) (some (cbN c)) (w, b) k) = _
    rw [ih]
    rfl

omit [DecidableEq L] in
theorem tripsAtN (E : Env ω ρ ξ α) (c : CallbackN ω) (w : ω) (b : Bool) (k : Nat) :
    tripsAt (envN E) (some (cbN c)) (w, b) true k ↔
      (nanAt E c w b k = true ∧ hasNonFinite E.fin (E.vars (afterStep E (some c.toCallback) w k))) := by
  unfold tripsAt
  have hw : afterStep (envN E) (some (cbN c)) (w, b) k =
      (afterStep E (some c.toCallback) w k, nanAt E c w b k) := by
    show (envN E).step (worldAt (envN E) (some (cbN c)) (w, b) k) = _
    rw [worldAtN]
    rfl
  rw [hw]
  cases hb : nanAt E c w b k
  · simp [envN, hasNonFinite]
  · simp [envN]


end Scico.Driver
