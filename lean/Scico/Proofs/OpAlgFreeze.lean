/-
  `Operator.freeze`, `Function.slice`, `Function.join`: index normalisation, acceptance, declared shapes,
  what is evaluated (after repo commit ed13728).
-/
import Mathlib.Tactic.Ring
import Scico.Model.OpAlg
namespace Scico.OpAlg
open Scico.DType
set_option linter.unusedSectionVars false

theorem normIdx_spec (N : Nat) (k : Int) (p : Nat) :
    normIdx N k = some p ↔ (-(N : Int) ≤ k ∧ k < N ∧ (p : Int) = if k < 0 then k + N else k) := by
  unfold normIdx
  by_cases h : k < -(N : Int) ∨ k ≥ (N : Int)
  · simp only [h, if_true]
    constructor
    · intro h'; cases h'
    · intro ⟨h1, h2, _⟩; omega
  · simp only [h, if_false, Option.some.injEq]
    have h1 : -(N : Int) ≤ k := by omega
    have h2 : k < N := by omega
    by_cases hk : k < 0
    · simp only [hk, if_true]
      constructor
      · intro hp; subst hp; exact ⟨h1, h2, by omega⟩
      · intro ⟨_, _, hp⟩; omega
    · simp only [hk, if_false]
      constructor
      · intro hp; subst hp; exact ⟨h1, h2, by omega⟩
      · intro ⟨_, _, hp⟩; omega

theorem normIdx_lt {N : Nat} {k : Int} {p : Nat} (h : normIdx N k = some p) : p < N := by
  obtain ⟨h1, h2, h3⟩ := (normIdx_spec N k p).mp h
  split at h3 <;> omega

/-- a negative index is the index counted from the end -/
theorem normIdx_neg (N : Nat) (k : Int) (h1 : -(N : Int) ≤ k) (h2 : k < 0) :
    normIdx N k = normIdx N (k + N) := by
  have hp : normIdx N k = some (k + N).toNat :=
    (normIdx_spec N k _).mpr ⟨h1, by omega, by simp only [h2, if_true]; omega⟩
  have hq : normIdx N (k + N) = some (k + N).toNat :=
    (normIdx_spec N (k + N) _).mpr ⟨by omega, by omega, by
      have : ¬ (k + N < 0) := by omega
      simp only [this, if_false]; omega⟩
  rw [hp, hq]

theorem normIdx_none_iff (N : Nat) (k : Int) : normIdx N k = none ↔ (k < -(N : Int) ∨ (N : Int) ≤ k) := by
  unfold normIdx
  by_cases h : k < -(N : Int) ∨ k ≥ (N : Int)
  · rw [if_pos h]
    exact ⟨fun _ => h, fun _ => rfl⟩
  · rw [if_neg h]
    constructor
    · intro h'; cases h'
    · intro h'; exact absurd h' h

def sumL (l : List (List Nat)) : Nat := (l.map prodL).foldr (· + ·) 0

theorem restShape_size (l : List (List Nat)) : (restShape l).size = sumL l := by
  unfold restShape sumL
  split
  · simp [Shape.size]
  · rfl

theorem sumL_erase (bs : List (List Nat)) (p : Nat) (hp : p < bs.length) :
    sumL (bs.eraseIdx p) + prodL (bs.getD p []) = sumL bs := by
  induction bs generalizing p with
  | nil => simp at hp
  | cons b bs ih =>
    cases p with
    | zero => simp [sumL, List.eraseIdx, Nat.add_comm]
    | succ p =>
      have := ih p (by simpa using hp)
      simp only [sumL, List.eraseIdx_cons_succ, List.map_cons, List.foldr_cons, List.getD_cons_succ] at this ⊢
      omega

theorem offsetOf_le (bs : List (List Nat)) (p : Nat) (hp : p < bs.length) :
    offsetOf bs p + prodL (bs.getD p []) ≤ sumL bs := by
  induction bs generalizing p with
  | nil => simp at hp
  | cons b bs ih =>
    cases p with
    | zero => simp [offsetOf, sumL]
    | succ p =>
      have := ih p (by simpa using hp)
      simp only [offsetOf, sumL, List.take_succ_cons, List.map_cons, List.foldr_cons, List.getD_cons_succ] at this ⊢
      omega

section
variable {α : Type} [Add α] [Sub α] [Mul α] [Div α] [Neg α] [Zero α] [One α] [HasConj α] [HasRe α]

/-- **`freeze` is accepted exactly** for an operator on a block input, an index in `[-N, N)` and a value
    of the shape of that block -/
theorem freeze_ok_iff (o : Obj α) (k : Int) (valSh : Shape) (valDt : DT) (val : Vc α) :
    (∃ r, freeze o k valSh valDt val = .ok r)
      ↔ ∃ bs p, o.md.inShape = .nested bs ∧ normIdx bs.length k = some p ∧ valSh = .plain (bs.getD p []) := by
  unfold freeze
  cases hsh : o.md.inShape with
  | plain d => simp
  | nested bs =>
    simp only [Shape.nested.injEq]
    cases hn : normIdx bs.length k with
    | none => simp [hn]
    | some p =>
      by_cases hv : valSh = .plain (bs.getD p [])
      · simp only [hv, ne_eq, not_true_eq_false, if_false]
        exact ⟨fun _ => ⟨bs, p, rfl, hn, rfl⟩, fun _ => ⟨_, rfl⟩⟩
      · simp only [ne_eq, hv, not_false_eq_true, if_true]
        constructor
        · intro ⟨_, h⟩; cases h
        · intro ⟨bs', p', hb, hp', hv'⟩
          subst hb
          rw [hn] at hp'; injection hp' with hp'; subst hp'
          exact absurd hv' hv

/-- a negative index freezes the block counted from the end (the defect repaired by ed13728) -/
theorem freeze_neg_index (o : Obj α) (bs : List (List Nat)) (hsh : o.md.inShape = .nested bs) (k : Int)
    (h1 : -(bs.length : Int) ≤ k) (h2 : k < 0) (valSh : Shape) (valDt : DT) (val : Vc α) :
    freeze o k valSh valDt val = freeze o (k + bs.length) valSh valDt val := by
  unfold freeze
  simp only [hsh, normIdx_neg bs.length k h1 h2]

/-- **what `freeze` builds**: an `Operator` on the remaining blocks (a plain array when exactly one
    block remains), with the operand's output space and dtypes, evaluating the operand on the block
    array with `val` inserted as block `p` -/
theorem freeze_spec (o : Obj α) (k : Int) (valSh : Shape) (valDt : DT) (val : Vc α) (r : Obj α)
    (bs : List (List Nat)) (p : Nat) (hsh : o.md.inShape = .nested bs) (hp : normIdx bs.length k = some p)
    (h : freeze o k valSh valDt val = .ok r) :
    r.md.cls = .op ∧ r.md.inShape = restShape (bs.eraseIdx p) ∧ r.md.outShape = o.md.outShape
    ∧ r.md.inDt = o.md.inDt ∧ r.md.outDt = o.md.outDt
    ∧ r.md.inShape.size + prodL (bs.getD p []) = o.md.inShape.size
    ∧ (r.md.inShape.isNested = false ↔ bs.length = 2)
    ∧ (∀ x, r.eval x = o.eval (vinsert o.n (offsetOf bs p) (prodL (bs.getD p [])) val x))
    ∧ r.evalDt valDt = o.evalDt valDt := by
  have hpl := normIdx_lt hp
  unfold freeze at h
  simp only [hsh, hp] at h
  split at h
  · cases h
  · injection h with h; subst h
    refine ⟨rfl, rfl, rfl, rfl, rfl, ?_, ?_, fun _ => rfl, by simp [mkOp]⟩
    · show (restShape (bs.eraseIdx p)).size + _ = _
      rw [restShape_size, hsh]
      exact sumL_erase bs p hpl
    · show (restShape (bs.eraseIdx p)).isNested = false ↔ _
      have hlen : (bs.eraseIdx p).length = bs.length - 1 := List.length_eraseIdx_of_lt hpl
      unfold restShape
      split
      · rename_i b hb
        have : (bs.eraseIdx p).length = 1 := by rw [hb]; rfl
        simp [Shape.isNested]; omega
      · rename_i hne
        simp only [Shape.isNested, Bool.true_eq_false, false_iff]
        intro h2
        have h1 : (bs.eraseIdx p).length = 1 := by omega
        match hl : bs.eraseIdx p, h1 with
        | [b], _ => exact hne b hl

/-- the inserted block array, entry by entry -/
theorem vinsert_get (n off sz : Nat) (v x : Vc α) (j : Nat) :
    (vinsert n off sz v x).get j
      = if j < n then (if j < off then x.get j else if j < off + sz then v.get (j - off) else x.get (j - sz))
        else 0 := rfl

/-- `Function.slice`: accepted iff the index is in `[-N, N)`; the free parameter goes to position `p` -/
theorem slice_spec (f : Fn α) (k : Int) (fixArgs : List (Vc α)) (fixDts : List DT) :
    (∀ p, normIdx f.inShapes.length k = some p →
        ∃ r, f.slice k fixArgs fixDts = .ok r ∧ r.md.cls = .op
          ∧ r.md.inShape = f.inShapes.getD p (.plain []) ∧ r.md.inDt = f.inDts.getD p .f32
          ∧ r.md.outShape = f.outShape ∧ r.md.outDt = f.outDt
          ∧ ∀ x, r.eval x = f.eval (fixArgs.take p ++ x :: fixArgs.drop p))
    ∧ (normIdx f.inShapes.length k = none → f.slice k fixArgs fixDts = .error .other)
    ∧ (-(f.inShapes.length : Int) ≤ k → k < 0 →
        f.slice k fixArgs fixDts = f.slice (k + f.inShapes.length) fixArgs fixDts) := by
  refine ⟨fun p hp => ?_, fun hn => ?_, fun h1 h2 => ?_⟩
  · unfold Fn.slice; simp only [hp]
    exact ⟨_, rfl, rfl, rfl, rfl, rfl, rfl, fun _ => rfl⟩
  · unfold Fn.slice; simp only [hn]
  · unfold Fn.slice; rw [normIdx_neg _ k h1 h2]

/-- `Function.join`: accepted iff all parameters have one dtype; one BlockArray input of the parameters'
    shapes; evaluates the function on the blocks -/
theorem join_spec (f : Fn α) (d0 : DT) (ds : List DT) (hd : f.inDts = d0 :: ds) :
    ((∃ r, f.join = .ok r) ↔ ∀ d ∈ ds, d = d0)
    ∧ ∀ r, f.join = .ok r →
        r.md.cls = .op ∧ r.md.inShape = .nested (f.inShapes.map plainDims) ∧ r.md.inDt = d0
        ∧ r.md.outShape = f.outShape ∧ r.md.outDt = f.outDt
        ∧ ∀ x, r.eval x = f.eval (splitBlocks (f.inShapes.map Shape.size) 0 x) := by
  unfold Fn.join
  simp only [hd]
  by_cases hall : ds.all (· = d0) = true
  · simp only [hall, Bool.not_true, Bool.false_eq_true, if_false]
    refine ⟨⟨fun _ d hdm => by simpa using List.all_eq_true.mp hall d hdm, fun _ => ⟨_, rfl⟩⟩, ?_⟩
    intro r h; injection h with h; subst h
    exact ⟨rfl, rfl, rfl, rfl, rfl, fun _ => rfl⟩
  · have hall' : ds.all (· = d0) = false := by simpa using hall
    simp only [hall', Bool.not_false, if_true]
    refine ⟨⟨fun h' => (by obtain ⟨_, h''⟩ := h'; cases h''), fun h => ?_⟩, fun r h => (by cases h)⟩
    exfalso; apply hall
    exact List.all_eq_true.mpr (fun d hdm => by simpa using h d hdm)

end
end Scico.OpAlg
