/-
  Adjoint engine: the induction over derivation trees (unbounded depth).

  `derived_isAdjW` : if the adjoint identity (relative to a test functional ρ) holds for every leaf, it holds for
  every operator derived from the leaves by the constructions of `_linop.py` / `_stack.py`, provided the tree
  passes the shape checks scico itself performs (`wf`) and no divisor is zero.  No condition on the scalar factors:
  scico applies `conj c` to the argument of the operand's adjoint (`adj_fn = self.adj(conj(c)*y)`), so the scalar is
  never pulled out of ρ (this is what makes complex multiples of real→complex operators adjoint pairs in `Re⟪·,·⟫`).
-/
import Scico.Proofs.AdjointRep

namespace Scico.Adjoint
open Finset

variable {K : Type} [Field K] [StarRing K]

/-- divisors are non-zero -/
def divOK : Expr K → Prop
  | .leaf _ => True
  | .add a b => divOK a ∧ divOK b
  | .sub a b => divOK a ∧ divOK b
  | .neg a => divOK a
  | .smul _ a => divOK a
  | .sdiv c a => c ≠ 0 ∧ divOK a
  | .comp a b => divOK a ∧ divOK b
  | .tr _ a => divOK a
  | .herm a => divOK a
  | .cj a => divOK a
  | .gram a => divOK a
  | .vnil _ => True
  | .vcons a s => divOK a ∧ divOK s
  | .dnil => True
  | .dcons a s => divOK a ∧ divOK s
  | .drep _ _ _ a => divOK a

theorem derived_isAdjW {ρ : K → K} (hρ : Test ρ) (env : Nat → Op K) (henv : ∀ i, IsAdjW ρ (env i)) :
    ∀ e : Expr K, wf env e = true → divOK e → IsAdjW ρ (run env e)
  | .leaf i, _, _ => by simpa [run] using henv i
  | .add a b, hw, hs => by
    simp only [wf, Bool.and_eq_true, beq_iff_eq] at hw
    obtain ⟨⟨⟨ha, hb⟩, hi⟩, ho⟩ := hw
    simp only [run]
    exact add_isAdjW hρ (derived_isAdjW hρ env henv a ha hs.1) (derived_isAdjW hρ env henv b hb hs.2) hi ho
  | .sub a b, hw, hs => by
    simp only [wf, Bool.and_eq_true, beq_iff_eq] at hw
    obtain ⟨⟨⟨ha, hb⟩, hi⟩, ho⟩ := hw
    simp only [run]
    exact sub_isAdjW hρ (derived_isAdjW hρ env henv a ha hs.1) (derived_isAdjW hρ env henv b hb hs.2) hi ho
  | .neg a, hw, hs => by
    simp only [wf] at hw
    simp only [run]
    exact neg_isAdjW (derived_isAdjW hρ env henv a hw hs)
  | .smul c a, hw, hs => by
    simp only [wf] at hw
    simp only [run]
    exact smul_isAdjW (derived_isAdjW hρ env henv a hw hs) c
  | .sdiv c a, hw, hs => by
    simp only [wf] at hw
    simp only [run]
    exact sdiv_isAdjW (derived_isAdjW hρ env henv a hw hs.2) c
  | .comp a b, hw, hs => by
    simp only [wf, Bool.and_eq_true, beq_iff_eq] at hw
    obtain ⟨⟨ha, hb⟩, hi⟩ := hw
    simp only [run]
    exact comp_isAdjW (derived_isAdjW hρ env henv a ha hs.1) (derived_isAdjW hρ env henv b hb hs.2) hi
  | .tr c a, hw, hs => by
    simp only [wf] at hw
    simp only [run]
    exact tr_isAdjW hρ (derived_isAdjW hρ env henv a hw hs) c
  | .herm a, hw, hs => by
    simp only [wf] at hw
    simp only [run]
    exact herm_isAdjW hρ (derived_isAdjW hρ env henv a hw hs)
  | .cj a, hw, hs => by
    simp only [wf] at hw
    simp only [run]
    exact cj_isAdjW hρ (derived_isAdjW hρ env henv a hw hs)
  | .gram a, hw, hs => by
    simp only [wf] at hw
    simp only [run]
    exact gram_isAdjW hρ (derived_isAdjW hρ env henv a hw hs)
  | .vnil n, _, _ => by simpa [run] using vnil_isAdjW n
  | .vcons a s, hw, hs => by
    simp only [wf, Bool.and_eq_true, beq_iff_eq] at hw
    obtain ⟨⟨ha, hb⟩, hi⟩ := hw
    simp only [run]
    exact vcons_isAdjW hρ (derived_isAdjW hρ env henv a ha hs.1) (derived_isAdjW hρ env henv s hb hs.2) hi
  | .dnil, _, _ => by simpa [run] using dnil_isAdjW
  | .dcons a s, hw, hs => by
    simp only [wf, Bool.and_eq_true] at hw
    simp only [run]
    exact dcons_isAdjW hρ (derived_isAdjW hρ env henv a hw.1 hs.1) (derived_isAdjW hρ env henv s hw.2 hs.2)
  | .drep k Qi Qo a, hw, hs => by
    simp only [wf, Bool.and_eq_true, beq_iff_eq, decide_eq_true_eq] at hw
    obtain ⟨⟨⟨⟨⟨ha, hQi⟩, hQo⟩, hmi⟩, hmo⟩, hk⟩ := hw
    simp only [run]
    obtain ⟨Pi, hPi⟩ := Nat.dvd_of_mod_eq_zero hmi
    obtain ⟨Po, hPo⟩ := Nat.dvd_of_mod_eq_zero hmo
    exact drep_isAdjW hρ (derived_isAdjW hρ env henv a ha hs) hk hQi hQo
      (by rw [hPi, Nat.mul_comm]) (by rw [hPo, Nat.mul_comm])

/-- dimensions are those scico declares: `.T`/`.H` swap, composition takes them from the ends, stacks add up -/
theorem run_dims_herm (env : Nat → Op K) (a : Expr K) :
    (run env (.herm a)).nin = (run env a).nout ∧ (run env (.herm a)).nout = (run env a).nin := by
  simp [run, Op.herm]

end Scico.Adjoint
