/-
  Adaptive Barzilai–Borwein along a whole call history: the memory `(Lbb1prev, Lbb2prev)` of the policy object
  after the calls `update(v₀), update(v₁), …, update(vₙ)` (whatever `pgm.L` was at each call) is `abbMem` of the
  inner-product triples of consecutive call points — which `C16_adaptive_bb_memory` identifies with the most
  recent usable ratios.  This ties the specification function `abbMem` to the modelled method `update`.
-/
import Scico.Proofs.StepSize

set_option linter.unusedSectionVars false

namespace Scico.StepSize

open XR

variable {K : Type} [Field K] [LinearOrder K] [IsStrictOrderedRing K] [HasSqrt K] {V : Type}

/-- `(⟨Δx,Δx⟩, ⟨Δx,Δg⟩, ⟨Δg,Δg⟩)` for the previous call point `p` and the current one `v` -/
def ipsOf (env : Env V (XR K)) (p v : V) : XR K × XR K × XR K :=
  let dx := env.sub v p
  let dg := env.sub (env.grad v) (env.grad p)
  (env.reInner dx dx, env.reInner dx dg, env.reInner dg dg)

/-- the triples of consecutive call points -/
def ipsAlong (env : Env V (XR K)) : V → List (V × XR K) → List (XR K × XR K × XR K)
  | _, [] => []
  | p, (v, _) :: t => ipsOf env p v :: ipsAlong env v t

/-- the policy state after a list of calls `(v, pgm.L at that call)`; `x` (= `pgm.x`) is irrelevant for this policy -/
def runCalls (env : Env V (XR K)) (pol : Policy (XR K)) (x : V) : PolState V (XR K) → List (V × XR K) → Option (PolState V (XR K))
  | ps, [] => some ps
  | ps, (v, L) :: t =>
    match update env pol x L ps v with
    | none => none
    | some (_, ps') => runCalls env pol x ps' t

theorem runCalls_abb (env : Env V (XR K)) (κ : XR K) (x : V) :
    ∀ (calls : List (V × XR K)) (ps : PolState V (XR K)) (p : V), ps.prev = some (p, env.grad p) →
      ∃ ps', runCalls env (.abb κ) x ps calls = some ps' ∧
        (ps'.l1, ps'.l2) = abbMem (ps.l1, ps.l2) (ipsAlong env p calls) := by
  intro calls
  induction calls with
  | nil => intro ps p _; exact ⟨ps, rfl, rfl⟩
  | cons c t ih =>
    intro ps p hp
    obtain ⟨v, L⟩ := c
    simp only [runCalls, update, hp, ipsAlong, abbMem, ipsOf]
    rw [abbRule_eq]
    exact ih _ v rfl

/-- from a fresh policy object: the first call only stores `(v₀, ∇f(v₀))` -/
theorem runCalls_abb_init (env : Env V (XR K)) (κ : XR K) (x v0 : V) (L0 : XR K) (calls : List (V × XR K)) :
    ∃ ps', runCalls env (.abb κ) x PolState.init ((v0, L0) :: calls) = some ps' ∧
      (ps'.l1, ps'.l2) = abbMem (none, none) (ipsAlong env v0 calls) := by
  simp only [runCalls, update, PolState.init]
  exact runCalls_abb env κ x calls _ v0 rfl

end Scico.StepSize
