/-
  Helper lemmas for `Scico.Model.LinOps`, part 12 (round 2): the voxel footprint split of the 3-D X-ray
  projector — documented overlap, agreement of the coded form off the bin edges, failure on them.
-/
import Scico.Proofs.LinOps10

namespace Scico.LinOps
set_option linter.unusedSectionVars false

section X3
variable {K : Type} [Field K] [LinearOrder K] [IsStrictOrderedRing K]

/-- the contract on `ceil`: `ceil z − 1 < z ≤ ceil z` -/
def CeilContract (cl : K → Int) : Prop := ∀ z : K, ((cl z : Int) : K) - 1 < z ∧ z ≤ ((cl z : Int) : K)

/-- the documented share is the length of `[le, le + w] ∩ [floor le, floor le + 1]`, it is positive and at most `w` -/
theorem x3_doc_overlap (fl : K → Int) (hfl : FloorContract fl) (w le : K) (hw : 0 < w) :
    x3ToNext fl (fun z => (z : K)) 1 w le = x3Overlap fl (fun z => (z : K)) 1 w le
    ∧ 0 < x3ToNext fl (fun z => (z : K)) 1 w le ∧ x3ToNext fl (fun z => (z : K)) 1 w le ≤ w := by
  obtain ⟨h1, h2⟩ := hfl le
  unfold x3ToNext x3Overlap
  refine ⟨?_, lt_min (by linarith) hw, min_le_right _ _⟩
  rcases le_total (((fl le : Int) : K) + 1 - le) w with h | h
  · rw [min_eq_left h, min_eq_left (by linarith)]
  · rw [min_eq_right h, min_eq_right (by linarith)]; ring

/-- off the bin edges (`le` not an integer) `ceil = floor + 1` and the coded share is the documented one -/
theorem x3_coded_eq_doc (fl cl : K → Int) (hfl : FloorContract fl) (hcl : CeilContract cl) (w le : K)
    (hne : ((fl le : Int) : K) < le) :
    x3ToNextCeil cl (fun z => (z : K)) w le = x3ToNext fl (fun z => (z : K)) 1 w le := by
  obtain ⟨h1, h2⟩ := hfl le
  obtain ⟨h3, h4⟩ := hcl le
  have e : cl le = fl le + 1 := by
    have a : ((fl le : Int) : K) < ((cl le : Int) : K) := by linarith
    have b : ((cl le : Int) : K) < ((fl le + 2 : Int) : K) := by push_cast; linarith
    have a' := Int.cast_lt.mp a
    have b' := Int.cast_lt.mp b
    omega
  unfold x3ToNextCeil x3ToNext
  rw [e]; push_cast; rfl

/-- ON a bin edge (`le` an integer) the coded share of the first bin is `0` — the whole footprint `[z, z + w]`,
    which lies inside bin `z`, is assigned to bin `z + 1` — while the documented share is `w` -/
theorem x3_coded_integer_edge (fl cl : K → Int) (hfl : FloorContract fl) (hcl : CeilContract cl) (w : K) (z : Int)
    (hw : 0 < w) (hw1 : w ≤ 1) :
    x3ToNextCeil cl (fun z => (z : K)) w (z : K) = 0 ∧ x3ToNext fl (fun z => (z : K)) 1 w (z : K) = w := by
  obtain ⟨h1, h2⟩ := hfl (z : K)
  obtain ⟨h3, h4⟩ := hcl (z : K)
  have ef : fl (z : K) = z := by
    have a : ((fl (z : K) : Int) : K) < ((z + 1 : Int) : K) := by push_cast; linarith
    have b : ((z - 1 : Int) : K) < ((fl (z : K) : Int) : K) := by push_cast; linarith
    have a' := Int.cast_lt.mp a
    have b' := Int.cast_lt.mp b
    omega
  have ec : cl (z : K) = z := by
    have a : ((cl (z : K) : Int) : K) < ((z + 1 : Int) : K) := by push_cast; linarith
    have b : ((z - 1 : Int) : K) < ((cl (z : K) : Int) : K) := by push_cast; linarith
    have a' := Int.cast_lt.mp a
    have b' := Int.cast_lt.mp b
    omega
  unfold x3ToNextCeil x3ToNext
  rw [ef, ec]
  constructor
  · rw [sub_self, min_eq_left hw.le]
  · rw [add_sub_cancel_left, min_eq_right hw1]

end X3
end Scico.LinOps
