/-
  Proofs/StepsPGM2 — PGM with an ARBITRARY step-size hook (BB, adaptive BB, line searches, user objects): whenever the
  value `L` the hook returns at the current state is at least the Lipschitz constant `Lf` of `∇f`, the documented step
  does not increase the distance to any minimiser and decreases the objective by at least `(L/2)‖x⁺ − x‖²`.
  (The base step-size object returns the constant `L0`; `C03_pgm_monotone_traj` is that special case.)
-/
import Scico.Model.Steps
import Scico.Proofs.StepsConvex
import Scico.Proofs.StepsFixed
import Scico.Proofs.StepsPGM

set_option linter.unusedSectionVars false

namespace Scico.Steps

variable {E : Type} [NormedAddCommGroup E] [InnerProductSpace ℝ E]

local notation "⟪" x ", " y "⟫" => inner ℝ x y

theorem coCoercive_mono {grad : E → E} {Lf L : ℝ} (hLf : 0 < Lf) (hL : Lf ≤ L) (h : CoCoercive grad Lf) :
    CoCoercive grad L := by
  intro x y
  have h1 := h x y
  have hn : 0 ≤ ‖grad x - grad y‖ ^ 2 := by positivity
  have : 1 / L ≤ 1 / Lf := one_div_le_one_div_of_le hLf hL
  have := mul_le_mul_of_nonneg_right this hn
  linarith

theorem descent_mono {f : E → ℝ} {grad : E → E} {Lf L : ℝ} (hL : Lf ≤ L) (h : DescentLemma f grad Lf) :
    DescentLemma f grad L := by
  intro x y
  have h1 := h x y
  have hn : 0 ≤ ‖y - x‖ ^ 2 := by positivity
  have : Lf / 2 * ‖y - x‖ ^ 2 ≤ L / 2 * ‖y - x‖ ^ 2 := by
    apply mul_le_mul_of_nonneg_right _ hn
    linarith
  linarith

/-- one documented PGM step with any step-size hook whose value at this state is `≥ Lf` -/
theorem pgm_anyhook_step {σ : Type} (p : PGMParams σ ℝ E) {G : Fn E} (hp : IsProx G p.proxg) {Lf : ℝ} (hLf : 0 < Lf)
    (hco : CoCoercive p.gradf Lf) (hd : DescentLemma p.f p.gradf Lf) (s : PGMState σ ℝ E)
    (hL : Lf ≤ (p.pol.update s.mem s.L s.x s.x).1) {xs : E} (hk : G.Subgrad xs (-(p.gradf xs))) :
    ‖(pgmSpecStep p s).x - xs‖ ≤ ‖s.x - xs‖ ∧
    (s.x ∈ G.dom → p.f (pgmSpecStep p s).x + G.val (pgmSpecStep p s).x
      ≤ p.f s.x + G.val s.x - (pgmSpecStep p s).L / 2 * ‖(pgmSpecStep p s).x - s.x‖ ^ 2) := by
  set L := (p.pol.update s.mem s.L s.x s.x).1 with hLdef
  have hLpos : 0 < L := lt_of_lt_of_le hLf hL
  have hx : (pgmSpecStep p s).x = pgStep p.gradf p.proxg L s.x := rfl
  have hLs : (pgmSpecStep p s).L = L := rfl
  rw [hx, hLs]
  exact ⟨pgStep_dist hp hLpos (coCoercive_mono hLf hL hco) hk s.x,
    fun hdom => pgStep_objective hp hLpos (descent_mono hL hd) hdom⟩

end Scico.Steps
