/-
  Proofs/StepsXSolve — the x-update of the LINEAR-SYSTEM family of ADMM sub-problem solvers (`LinearSubproblemSolver`,
  `MatrixSubproblemSolver`, `CircularConvolveSolver`, `FBlockCircularConvolveSolver`) meets the contract `XSolver` that every ADMM
  theorem of C03 assumes of `solveX`.

  Transcription of `_admmaux.py` (statement lists pinned by the translator, rows `LinearSubproblemSolver.internal_init /
  compute_rhs / solve`):

      lhs_op  =  2·scale · Aᴴ W A  +  Σ_i ρ_i C_iᴴ C_i                       (`internal_init`; `f = None`: the sum only)
      rhs     =  2·scale · Aᴴ W y  +  Σ_i ρ_i C_iᴴ (z_i − u_i)               (`compute_rhs`)
      solve   :  x  with  lhs_op x = rhs                                       (`solve`: CG / Cholesky / DFT division — C10, C14)

  `f = scale‖A x − y‖²_W` is differentiable with gradient `2·scale·AᴴW(Ax − y)` (`QuadLoss`).  Then

      lhs_op x = rhs   ⟺   Σ_i ρ_i C_iᴴ(z_i − u_i − C_i x) = ∇f(x)   ⟺   x is the stationary point `XSolver` asks for,

  and injectivity of `lhs_op` (positive definiteness, the well-posedness condition of the solvers) gives `XSolver.unique`.
-/
import Scico.Model.Steps
import Scico.Proofs.StepsConvex
import Scico.Proofs.StepsFixed
import Scico.Proofs.StepsExamples
import Mathlib.Tactic.Abel
import Mathlib.Tactic.Module

set_option linter.unusedSectionVars false

namespace Scico.Steps

variable {X Y Z : Type} [NormedAddCommGroup X] [InnerProductSpace ℝ X]
  [NormedAddCommGroup Y] [InnerProductSpace ℝ Y] [NormedAddCommGroup Z] [InnerProductSpace ℝ Z]

/-- `compute_rhs`: `2·scale·AᴴWy + Σ ρ_i C_iᴴ(z_i − u_i)`; `g0 = 2·scale·AᴴWy` (`0` for `f = None`) -/
def linRhs (cons : List (Con X Z)) (g0 : X) (z u : List Z) : X :=
  g0 + ((cons.zip (z.zip u)).map (fun t => t.1.rho • t.1.Cadj (t.2.1 - t.2.2))).sum

/-- `lhs_op` applied to `x`: `H x + Σ ρ_i C_iᴴ C_i x` with `H = 2·scale·AᴴWA` (`0` for `f = None`) -/
def linLhs (cons : List (Con X Z)) (H : X → X) (x : X) : X :=
  H x + (cons.map (fun c => c.rho • c.Cadj (c.C x))).sum

/-- the same sum over the constraints that have a `(z_i, u_i)` pair; equal to `linLhs` on well-formed states -/
def linLhsT (cons : List (Con X Z)) (H : X → X) (z u : List Z) (x : X) : X :=
  H x + ((cons.zip (z.zip u)).map (fun t => t.1.rho • t.1.Cadj (t.1.C x))).sum

theorem zip_map_fst {α β : Type} (f : α → X) : ∀ (l : List α) (m : List β), l.length ≤ m.length →
    ((l.zip m).map (fun t => f t.1)).sum = (l.map f).sum
  | [], _, _ => by simp
  | _ :: _, [], h => by simp at h
  | a :: l, b :: m, h => by
      have := zip_map_fst f l m (by simpa using h)
      simp [this]

/-- on the states the optimiser reaches (`C11_admm_wf_reachable`: all lists of length `N`) the truncated sum is `lhs_op` -/
theorem linLhsT_eq (cons : List (Con X Z)) (H : X → X) (z u : List Z) (hz : z.length = cons.length)
    (hu : u.length = cons.length) (x : X) : linLhsT cons H z u x = linLhs cons H x := by
  unfold linLhsT linLhs
  congr 1
  exact zip_map_fst (fun c : Con X Z => c.rho • c.Cadj (c.C x)) cons (z.zip u) (by simp [hz, hu])

theorem sum_map_sub' {α : Type} (f g : α → X) : ∀ l : List α,
    (l.map (fun t => f t - g t)).sum = (l.map f).sum - (l.map g).sum
  | [] => by simp
  | a :: l => by
      have := sum_map_sub' f g l
      simp only [List.map_cons, List.sum_cons, this]
      abel

/-- `xGrad = (rhs − g0) − (lhs − H x)`: the algebra behind the normal equations (`C_iᴴ` additive) -/
theorem xGrad_split (cons : List (Con X Z)) (hadd : ∀ c ∈ cons, ∀ a b, c.Cadj (a - b) = c.Cadj a - c.Cadj b)
    (g0 : X) (H : X → X) (z u : List Z) (x : X) :
    xGrad cons z u x = (linRhs cons g0 z u - g0) - (linLhsT cons H z u x - H x) := by
  unfold xGrad linRhs linLhsT
  rw [add_sub_cancel_left, add_sub_cancel_left, ← sum_map_sub']
  congr 1
  apply List.map_congr_left
  intro t ht
  have hc : t.1 ∈ cons := (List.of_mem_zip ht).1
  rw [← smul_sub, ← hadd t.1 hc]

/-- `f` is differentiable with gradient `gradf`: the gradient is a sub-gradient and the only one -/
structure QuadLoss (F : Fn X) (gradf : X → X) : Prop where
  grad : ∀ x, F.Subgrad x (gradf x)
  only : ∀ x g, F.Subgrad x g → g = gradf x

/-- the x-update of the linear-system solvers meets the `XSolver` contract: `solveX` returns a solution of
    `lhs_op x = compute_rhs()`, `∇f(x) = H x − g0` (quadratic loss: `H = 2·scale·AᴴWA`, `g0 = 2·scale·AᴴWy`; `f = None`: both `0`),
    `lhs_op` injective -/
theorem linear_solver_XSolver (F : Fn X) (gradf : X → X) (Q : QuadLoss F gradf) (cons : List (Con X Z))
    (hadd : ∀ c ∈ cons, ∀ a b, c.Cadj (a - b) = c.Cadj a - c.Cadj b)
    (g0 : X) (H : X → X) (hgrad : ∀ x, gradf x = H x - g0)
    (solveX : List Z → List Z → X → X)
    (hsolve : ∀ z u x0, linLhsT cons H z u (solveX z u x0) = linRhs cons g0 z u)
    (hinj : ∀ z u x x', linLhsT cons H z u x = linLhsT cons H z u x' → x = x') :
    XSolver F cons solveX := by
  have key : ∀ z u x, xGrad cons z u x = gradf x ↔ linLhsT cons H z u x = linRhs cons g0 z u := by
    intro z u x
    rw [xGrad_split cons hadd g0 H z u x, hgrad x]
    constructor
    · intro h
      have : linLhsT cons H z u x - linRhs cons g0 z u = 0 := by
        have e : linLhsT cons H z u x - linRhs cons g0 z u
            = (H x - g0) - ((linRhs cons g0 z u - g0) - (linLhsT cons H z u x - H x)) := by abel
        rw [e, h, sub_self]
      exact sub_eq_zero.1 this
    · intro h
      rw [h]; abel
  refine ⟨fun z u x0 => ?_, fun z u x x' hx hx' => ?_⟩
  · rw [(key z u _).2 (hsolve z u x0)]
    exact Q.grad _
  · have h1 := (key z u x).1 (Q.only x _ hx)
    have h2 := (key z u x').1 (Q.only x' _ hx')
    exact hinj z u x x' (h1.trans h2.symm)

/-! ### instance (non-vacuity): `f = ½‖· − y0‖²` (`scale = ½`, `A = I`, `W = I`), identity constraints -/

variable {E : Type} [NormedAddCommGroup E] [InnerProductSpace ℝ E]

theorem halfSq_quadLoss (y0 : E) : QuadLoss (halfSq y0) (fun x => x - y0) :=
  ⟨fun x => halfSq_subgrad y0 x, fun x g h => halfSq_subgrad_eq y0 x g h⟩

/-- exact solution of the normal equation `x + (x) = y0 + (z − u)` of one identity constraint with `ρ = 1`
    (`x = y0` when the state lists are empty) -/
noncomputable def exLinSolve (y0 : E) : List E → List E → E → E
  | a :: _, b :: _, _ => (1 / 2 : ℝ) • (y0 + (a - b))
  | _, _, _ => y0

theorem exLinSolve_XSolver (y0 : E) : XSolver (halfSq y0) [idCon 1] (exLinSolve y0) := by
  apply linear_solver_XSolver (halfSq y0) (fun x => x - y0) (halfSq_quadLoss y0) [idCon 1] ?_ y0 id (fun x => rfl)
  · intro z u x0
    rcases z with _ | ⟨a, z⟩ <;> rcases u with _ | ⟨b, u⟩ <;>
      simp [linLhsT, linRhs, exLinSolve, idCon]
    module
  · intro z u x x' h
    rcases z with _ | ⟨a, z⟩ <;> rcases u with _ | ⟨b, u⟩ <;>
      simp [linLhsT, idCon] at h <;> try exact h
    have : (2 : ℝ) • x = (2 : ℝ) • x' := by rw [two_smul, two_smul]; exact h
    exact smul_right_injective E (two_ne_zero) this
  · intro c hc a b
    simp only [List.mem_singleton] at hc
    subst hc
    rfl

end Scico.Steps
