/-
  Proofs/StepsOpial2 — LinearizedADMM in finite dimension, merely convex problem, `μ‖C‖² < ν`: if a KKT point exists,
  the iterates `(x_k, z_k, u_k)` converge from EVERY start to a KKT point (Opial's argument with the Lyapunov function `V`
  of `StepsProxADMM` as the Fejér metric).
-/
import Scico.Model.Steps
import Scico.Proofs.StepsConvex
import Scico.Proofs.StepsFixed
import Scico.Proofs.StepsRelax
import Scico.Proofs.StepsProxADMM
import Scico.Proofs.StepsOpial
import Mathlib.Tactic.Abel

set_option linter.unusedSectionVars false

namespace Scico.Steps

variable {X Z : Type} [NormedAddCommGroup X] [InnerProductSpace ℝ X] [FiniteDimensional ℝ X]
  [NormedAddCommGroup Z] [InnerProductSpace ℝ Z] [FiniteDimensional ℝ Z]

local notation "⟪" x ", " y "⟫" => inner ℝ x y

/-- the LinearizedADMM iteration on the triple `(x, z, u)` -/
noncomputable def ladmmT (p : LADMMParams ℝ X Z) (w : X × Z × Z) : X × Z × Z :=
  (p.proxf p.mu (w.1 - (p.mu / p.nu) • p.Cadj (p.C w.1 - w.2.1 + w.2.2)),
   p.proxg p.nu (p.C (p.proxf p.mu (w.1 - (p.mu / p.nu) • p.Cadj (p.C w.1 - w.2.1 + w.2.2))) + w.2.2),
   w.2.2 + p.C (p.proxf p.mu (w.1 - (p.mu / p.nu) • p.Cadj (p.C w.1 - w.2.1 + w.2.2)))
     - p.proxg p.nu (p.C (p.proxf p.mu (w.1 - (p.mu / p.nu) • p.Cadj (p.C w.1 - w.2.1 + w.2.2))) + w.2.2))

def LADMMState.triple (s : LADMMState X Z) : X × Z × Z := (s.x, s.z, s.u)

theorem ladmmT_step (p : LADMMParams ℝ X Z) (s : LADMMState X Z) : (ladmmSpecStep p s).triple = ladmmT p s.triple := rfl

theorem ladmmT_iter (p : LADMMParams ℝ X Z) (k : Nat) :
    ∀ s : LADMMState X Z, (iter (ladmmSpecStep p) k s).triple = iter (ladmmT p) k s.triple := by
  induction k with
  | zero => intro s; rfl
  | succ k ih =>
    intro s
    show (iter (ladmmSpecStep p) k (ladmmSpecStep p s)).triple = iter (ladmmT p) k (ladmmT p s.triple)
    rw [ih (ladmmSpecStep p s), ladmmT_step]

structure LADMMConvHyp (p : LADMMParams ℝ X Z) (F : Fn X) (G : Fn Z) (Lc : ℝ) : Prop where
  mu : 0 < p.mu
  nu : 0 < p.nu
  add : ∀ x y, p.C (x + y) = p.C x + p.C y
  adj : ∀ w x, ⟪p.Cadj w, x⟫ = ⟪w, p.C x⟫
  proxf : IsProx F p.proxf
  proxg : IsProx G p.proxg
  L0 : 0 ≤ Lc
  bd : ∀ a, ‖p.C a‖ ≤ Lc * ‖a‖
  /-- documented constraint, strict: `μ ‖C‖² < ν` -/
  strict : p.mu * Lc ^ 2 < p.nu

/-- KKT point of `min f(x) + g(Cx)` with scaled multiplier -/
def IsLKKT (p : LADMMParams ℝ X Z) (F : Fn X) (G : Fn Z) (w : X × Z × Z) : Prop :=
  w.2.1 = p.C w.1 ∧ F.Subgrad w.1 (-((1 / p.nu) • p.Cadj w.2.2)) ∧ G.Subgrad (p.C w.1) ((1 / p.nu) • w.2.2)

theorem LADMMConvHyp.bdsq {p : LADMMParams ℝ X Z} {F : Fn X} {G : Fn Z} {Lc : ℝ} (H : LADMMConvHyp p F G Lc) (a : X) :
    ‖p.C a‖ ^ 2 ≤ Lc ^ 2 * ‖a‖ ^ 2 := by
  have := pow_le_pow_left₀ (norm_nonneg _) (H.bd a) 2
  rw [mul_pow] at this
  exact this

theorem LADMMConvHyp.hyp {p : LADMMParams ℝ X Z} {F : Fn X} {G : Fn Z} {Lc : ℝ} (H : LADMMConvHyp p F G Lc)
    {w : X × Z × Z} (hw : IsLKKT p F G w) : LADMMHyp p F G w.1 w.2.2 := by
  refine ⟨H.mu, H.nu, H.add, H.adj, H.proxf, H.proxg, hw.2.1, hw.2.2, fun a => ?_⟩
  have h1 := H.bdsq a
  have hmu := H.mu
  have h2 : Lc ^ 2 ≤ p.nu / p.mu := by
    rw [le_div_iff₀ hmu]; nlinarith [H.strict]
  have : Lc ^ 2 * ‖a‖ ^ 2 ≤ p.nu / p.mu * ‖a‖ ^ 2 := mul_le_mul_of_nonneg_right h2 (by positivity)
  linarith

theorem ladmm_c_sub {p : LADMMParams ℝ X Z} {F : Fn X} {G : Fn Z} {Lc : ℝ} (H : LADMMConvHyp p F G Lc) (u v : X) :
    p.C (u - v) = p.C u - p.C v := sub_of_add p.C H.add u v

theorem ladmm_cadj_sub {p : LADMMParams ℝ X Z} {F : Fn X} {G : Fn Z} {Lc : ℝ} (H : LADMMConvHyp p F G Lc) (w w' : Z) :
    p.Cadj (w - w') = p.Cadj w - p.Cadj w' := by
  have : p.Cadj (w - w') - (p.Cadj w - p.Cadj w') = 0 := by
    rw [← inner_self_eq_zero (𝕜 := ℝ)]
    rw [inner_sub_left, inner_sub_left, H.adj, H.adj, H.adj, inner_sub_left]
    ring
  exact sub_eq_zero.1 this

theorem ladmm_cadj_bound {p : LADMMParams ℝ X Z} {F : Fn X} {G : Fn Z} {Lc : ℝ} (H : LADMMConvHyp p F G Lc) (w : Z) :
    ‖p.Cadj w‖ ≤ Lc * ‖w‖ := by
  have h1 : ‖p.Cadj w‖ ^ 2 = ⟪w, p.C (p.Cadj w)⟫ := by rw [← real_inner_self_eq_norm_sq, H.adj]
  have h2 := real_inner_le_norm w (p.C (p.Cadj w))
  have h3 := H.bd (p.Cadj w)
  have h0 : 0 ≤ ‖p.Cadj w‖ := norm_nonneg _
  have hw0 : 0 ≤ ‖w‖ := norm_nonneg _
  by_cases hz : ‖p.Cadj w‖ = 0
  · rw [hz]; have := H.L0; positivity
  · have hpos : 0 < ‖p.Cadj w‖ := lt_of_le_of_ne h0 (Ne.symm hz)
    have : ‖p.Cadj w‖ * ‖p.Cadj w‖ ≤ (Lc * ‖w‖) * ‖p.Cadj w‖ := by
      have := mul_le_mul_of_nonneg_left h3 hw0
      nlinarith
    exact le_of_mul_le_mul_right this hpos

theorem ladmmT_continuous {p : LADMMParams ℝ X Z} {F : Fn X} {G : Fn Z} {Lc : ℝ} (H : LADMMConvHyp p F G Lc) :
    Continuous (ladmmT p) := by
  have hL0 := H.L0
  have hC : Continuous p.C := by
    apply LipschitzWith.continuous (K := ⟨Lc, hL0⟩)
    apply LipschitzWith.of_dist_le_mul
    intro u v
    rw [dist_eq_norm, dist_eq_norm, ← ladmm_c_sub H]
    exact H.bd _
  have hCa : Continuous p.Cadj := by
    apply LipschitzWith.continuous (K := ⟨Lc, hL0⟩)
    apply LipschitzWith.of_dist_le_mul
    intro u v
    rw [dist_eq_norm, dist_eq_norm, ← ladmm_cadj_sub H]
    exact ladmm_cadj_bound H _
  have hpf : Continuous (p.proxf p.mu) := by
    apply LipschitzWith.continuous (K := 1)
    apply LipschitzWith.of_dist_le_mul
    intro u v
    rw [dist_eq_norm, dist_eq_norm, NNReal.coe_one, one_mul]
    exact H.proxf.nonexpansive H.mu u v
  have hpg : Continuous (p.proxg p.nu) := by
    apply LipschitzWith.continuous (K := 1)
    apply LipschitzWith.of_dist_le_mul
    intro u v
    rw [dist_eq_norm, dist_eq_norm, NNReal.coe_one, one_mul]
    exact H.proxg.nonexpansive H.nu u v
  unfold ladmmT
  fun_prop

/-- fixed points of the iteration are exactly the KKT points -/
theorem ladmmT_fixed_iff {p : LADMMParams ℝ X Z} {F : Fn X} {G : Fn Z} {Lc : ℝ} (H : LADMMConvHyp p F G Lc)
    (w : X × Z × Z) : ladmmT p w = w ↔ IsLKKT p F G w := by
  have hmu := H.mu
  have hnu := H.nu
  constructor
  · intro h
    have h1 : p.proxf p.mu (w.1 - (p.mu / p.nu) • p.Cadj (p.C w.1 - w.2.1 + w.2.2)) = w.1 := congrArg Prod.fst h
    have h2 : p.proxg p.nu (p.C (p.proxf p.mu (w.1 - (p.mu / p.nu) • p.Cadj (p.C w.1 - w.2.1 + w.2.2))) + w.2.2) = w.2.1 :=
      congrArg (fun t => t.2.1) h
    have h3 : w.2.2 + p.C (p.proxf p.mu (w.1 - (p.mu / p.nu) • p.Cadj (p.C w.1 - w.2.1 + w.2.2)))
        - p.proxg p.nu (p.C (p.proxf p.mu (w.1 - (p.mu / p.nu) • p.Cadj (p.C w.1 - w.2.1 + w.2.2))) + w.2.2) = w.2.2 :=
      congrArg (fun t => t.2.2) h
    rw [h1] at h2 h3
    rw [h2] at h3
    have hz : w.2.1 = p.C w.1 := by
      have : p.C w.1 - w.2.1 = 0 := by
        have e : w.2.2 + p.C w.1 - w.2.1 = w.2.2 + (p.C w.1 - w.2.1) := by abel
        rw [e] at h3
        exact add_eq_left.1 h3
      exact (sub_eq_zero.1 this).symm
    refine ⟨hz, ?_, ?_⟩
    · apply H.proxf.subgrad_of_fixed hmu
      rw [← hz, sub_self, zero_add] at h1
      have e : w.1 + p.mu • -((1 / p.nu) • p.Cadj w.2.2) = w.1 - (p.mu / p.nu) • p.Cadj w.2.2 := by
        rw [smul_neg, smul_smul, ← sub_eq_add_neg]
        congr 2
        field_simp
      rw [e]; exact h1
    · apply H.proxg.subgrad_of_fixed hnu
      rw [hz] at h2
      have e : p.C w.1 + p.nu • (1 / p.nu) • w.2.2 = p.C w.1 + w.2.2 := by
        rw [smul_smul]
        have : p.nu * (1 / p.nu) = 1 := by field_simp
        rw [this, one_smul]
      rw [e]; exact h2
  · intro hw
    have hf := ladmm_fixed p F G H.proxf H.proxg hmu hnu w.1 w.2.2 hw.2.1 hw.2.2
    have := congrArg LADMMState.triple hf
    rw [ladmmT_step] at this
    simp only [LADMMState.triple] at this
    rw [← hw.1] at this
    exact this

/-- the Fejér metric: `V` of `StepsProxADMM` between two triples -/
noncomputable def ladmmD (p : LADMMParams ℝ X Z) (w w' : X × Z × Z) : ℝ :=
  1 / p.nu * ‖w.2.2 - w'.2.2‖ ^ 2 + 1 / p.nu * ‖w.2.1 - w'.2.1‖ ^ 2
    + 1 / p.nu * (p.nu / p.mu * ‖w.1 - w'.1‖ ^ 2 - ‖p.C (w.1 - w'.1)‖ ^ 2)

theorem prod_norm_sq_le' {A B : Type} [NormedAddCommGroup A] [NormedAddCommGroup B] (a : A) (b : B) :
    ‖(a, b)‖ ^ 2 ≤ ‖a‖ ^ 2 + ‖b‖ ^ 2 := by
  rw [Prod.norm_def]
  have ha : 0 ≤ ‖a‖ := norm_nonneg _
  have hb : 0 ≤ ‖b‖ := norm_nonneg _
  rcases le_total ‖a‖ ‖b‖ with h | h
  · rw [max_eq_right h]; nlinarith
  · rw [max_eq_left h]; nlinarith

theorem triple_norm_sq_le (a : X) (b d : Z) : ‖((a, b, d) : X × Z × Z)‖ ^ 2 ≤ ‖a‖ ^ 2 + ‖b‖ ^ 2 + ‖d‖ ^ 2 := by
  have h1 := prod_norm_sq_le' a ((b, d) : Z × Z)
  have h2 := prod_norm_sq_le' b d
  linarith

/-- LinearizedADMM, merely convex problem, finite-dimensional variables, `μ‖C‖² < ν`: if a KKT point exists, the iterates
    converge from EVERY start to a KKT point -/
theorem ladmm_converges_findim {p : LADMMParams ℝ X Z} {F : Fn X} {G : Fn Z} {Lc : ℝ} (H : LADMMConvHyp p F G Lc)
    (hk : ∃ w, IsLKKT p F G w) (s : LADMMState X Z) :
    ∃ wb : X × Z × Z, IsLKKT p F G wb ∧
      Filter.Tendsto (fun k => (iter (ladmmSpecStep p) k s).triple) Filter.atTop (nhds wb) := by
  have hmu := H.mu
  have hnu := H.nu
  set gap := p.nu / p.mu - Lc ^ 2 with hgap
  have hgp : 0 < gap := by
    rw [hgap, sub_pos, lt_div_iff₀ hmu]; nlinarith [H.strict]
  set c := 1 / p.nu * min 1 gap with hcdef
  set Cc := 1 / p.nu * (2 + p.nu / p.mu) with hCc
  have hm0 : 0 < min 1 gap := lt_min one_pos hgp
  have hc : 0 < c := by positivity
  have hlowV : ∀ (a : X) (b d : Z), c * (‖a‖ ^ 2 + ‖b‖ ^ 2 + ‖d‖ ^ 2)
      ≤ 1 / p.nu * ‖d‖ ^ 2 + 1 / p.nu * ‖b‖ ^ 2 + 1 / p.nu * (p.nu / p.mu * ‖a‖ ^ 2 - ‖p.C a‖ ^ 2) := by
    intro a b d
    have h1 := H.bdsq a
    have hm1 : min 1 gap ≤ 1 := min_le_left _ _
    have hm2 : min 1 gap ≤ gap := min_le_right _ _
    have ha : 0 ≤ ‖a‖ ^ 2 := by positivity
    have hb : 0 ≤ ‖b‖ ^ 2 := by positivity
    have hd : 0 ≤ ‖d‖ ^ 2 := by positivity
    have e1 : min 1 gap * ‖a‖ ^ 2 ≤ p.nu / p.mu * ‖a‖ ^ 2 - ‖p.C a‖ ^ 2 := by
      have := mul_le_mul_of_nonneg_right hm2 ha
      rw [hgap] at this
      nlinarith
    have e2 : min 1 gap * ‖b‖ ^ 2 ≤ ‖b‖ ^ 2 := by nlinarith
    have e3 : min 1 gap * ‖d‖ ^ 2 ≤ ‖d‖ ^ 2 := by nlinarith
    have hn : 0 ≤ 1 / p.nu := by positivity
    have := mul_le_mul_of_nonneg_left (add_le_add (add_le_add e1 e2) e3) hn
    rw [hcdef]
    nlinarith
  have hlow : ∀ a b : X × Z × Z, c * ‖a - b‖ ^ 2 ≤ ladmmD p a b := by
    intro a b
    have h2 := triple_norm_sq_le (a.1 - b.1) (a.2.1 - b.2.1) (a.2.2 - b.2.2)
    have e : ‖a - b‖ = ‖((a.1 - b.1, a.2.1 - b.2.1, a.2.2 - b.2.2) : X × Z × Z)‖ := rfl
    rw [e]
    have := hlowV (a.1 - b.1) (a.2.1 - b.2.1) (a.2.2 - b.2.2)
    have := mul_le_mul_of_nonneg_left h2 hc.le
    unfold ladmmD
    linarith
  have hup : ∀ a b : X × Z × Z, ladmmD p a b ≤ Cc * ‖a - b‖ ^ 2 := by
    intro a b
    have hn1 : ‖a.1 - b.1‖ ≤ ‖a - b‖ := norm_fst_le (a - b)
    have hn2 : ‖a.2.1 - b.2.1‖ ≤ ‖a - b‖ := le_trans (norm_fst_le (a - b).2) (norm_snd_le (a - b))
    have hn3 : ‖a.2.2 - b.2.2‖ ≤ ‖a - b‖ := le_trans (norm_snd_le (a - b).2) (norm_snd_le (a - b))
    have hs1 : ‖a.1 - b.1‖ ^ 2 ≤ ‖a - b‖ ^ 2 := pow_le_pow_left₀ (norm_nonneg _) hn1 2
    have hs2 : ‖a.2.1 - b.2.1‖ ^ 2 ≤ ‖a - b‖ ^ 2 := pow_le_pow_left₀ (norm_nonneg _) hn2 2
    have hs3 : ‖a.2.2 - b.2.2‖ ^ 2 ≤ ‖a - b‖ ^ 2 := pow_le_pow_left₀ (norm_nonneg _) hn3 2
    have hC0 : 0 ≤ ‖p.C (a.1 - b.1)‖ ^ 2 := by positivity
    have hn : 0 ≤ 1 / p.nu := by positivity
    have hr : 0 ≤ p.nu / p.mu := by positivity
    unfold ladmmD
    rw [hCc]
    have t1 := mul_le_mul_of_nonneg_left hs3 hn
    have t2 := mul_le_mul_of_nonneg_left hs2 hn
    have t3 := mul_le_mul_of_nonneg_left (mul_le_mul_of_nonneg_left hs1 hr) hn
    have t4 := mul_nonneg hn hC0
    nlinarith
  -- work on the orbit from the first iterate (dual feasible from there on)
  set s1 := ladmmSpecStep p s with hs1
  have hpre1 := ladmm_feasible_step p G hnu H.proxg s
  have hfix : ∃ ws, ladmmT p ws = ws := by
    obtain ⟨w, hw⟩ := hk; exact ⟨w, (ladmmT_fixed_iff H w).2 hw⟩
  have hVD : ∀ (ws : X × Z × Z), IsLKKT p F G ws → ∀ st : LADMMState X Z, ladmmV p ws.1 ws.2.2 st = ladmmD p st.triple ws := by
    intro ws hws st
    unfold ladmmV ladmmD LADMMState.triple
    rw [hws.1]
  have hfejer : ∀ ws, ladmmT p ws = ws → ∀ k, ladmmD p (iter (ladmmT p) (k + 1) s1.triple) ws ≤ ladmmD p (iter (ladmmT p) k s1.triple) ws := by
    intro ws hws k
    have hw := (ladmmT_fixed_iff H ws).1 hws
    have := ladmm_lyapunov_mono p F G ws.1 ws.2.2 (H.hyp hw) s1 hpre1 k
    rw [hVD ws hw, hVD ws hw, ladmmT_iter, ladmmT_iter] at this
    exact this
  have hreg : Filter.Tendsto (fun k => ‖iter (ladmmT p) k s1.triple - ladmmT p (iter (ladmmT p) k s1.triple)‖)
      Filter.atTop (nhds 0) := by
    obtain ⟨ws, hws⟩ := hk
    have Hh := H.hyp hws
    have hD : Filter.Tendsto (fun k => ladmmDiss p (iter (ladmmSpecStep p) k s1) (iter (ladmmSpecStep p) (k + 1) s1))
        Filter.atTop (nhds 0) := by
      apply tendsto_zero_of_partial_sums_le (c := ladmmV p ws.1 ws.2.2 s1)
      · intro n; exact ladmmDiss_nonneg p F G ws.1 ws.2.2 Hh _ _
      · intro n
        have := ladmm_lyapunov_sum p F G ws.1 ws.2.2 Hh s1 hpre1 n
        have := ladmmV_nonneg p F G ws.1 ws.2.2 Hh (iter (ladmmSpecStep p) n s1)
        linarith
    have hb := hD.const_mul (1 / c)
    rw [mul_zero] at hb
    refine tendsto_zero_of_sq_le (fun k => norm_nonneg _) (fun k => ?_) hb
    rw [← iter_succ' (ladmmT p) k s1.triple, ← ladmmT_iter, ← ladmmT_iter]
    set A := iter (ladmmSpecStep p) k s1
    set B := iter (ladmmSpecStep p) (k + 1) s1
    have e : A.triple - B.triple = ((A.x - B.x, A.z - B.z, A.u - B.u) : X × Z × Z) := rfl
    rw [e]
    have h2 := triple_norm_sq_le (A.x - B.x) (A.z - B.z) (A.u - B.u)
    have h3 := hlowV (B.x - A.x) (B.z - A.z) (B.u - A.u)
    have e1 : ‖A.x - B.x‖ = ‖B.x - A.x‖ := norm_sub_rev _ _
    have e2 : ‖A.z - B.z‖ = ‖B.z - A.z‖ := norm_sub_rev _ _
    have e3 : ‖A.u - B.u‖ = ‖B.u - A.u‖ := norm_sub_rev _ _
    rw [e1, e2, e3] at h2
    rw [one_div, inv_mul_eq_div, le_div_iff₀ hc]
    unfold ladmmDiss
    have := mul_le_mul_of_nonneg_left h2 hc.le
    nlinarith
  obtain ⟨wb, hwb, hlim⟩ := fejer_converges (ladmmT p) (ladmmT_continuous H) (ladmmD p) c Cc hc hlow hup s1.triple hfix hfejer hreg
  refine ⟨wb, (ladmmT_fixed_iff H wb).1 hwb, ?_⟩
  rw [← Filter.tendsto_add_atTop_iff_nat 1]
  refine hlim.congr (fun k => ?_)
  rw [← ladmmT_iter]
  rfl

end Scico.Steps
