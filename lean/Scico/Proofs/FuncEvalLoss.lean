/-
  Round 2 lemmas about the evaluation model (property C09): nuclear norm on singular values,
  the four loss functions, remaining metric facts.
-/
import Scico.Proofs.FuncEval
import Mathlib.Analysis.SpecialFunctions.Log.Basic
import Mathlib.Analysis.SpecialFunctions.Pow.Real

namespace Scico.FuncEval

/-! ### generic list facts -/
section lists

theorem zipWith_sum_le {β γ : Type} (f g : β → γ → ℝ) : ∀ (a : List β) (b : List γ),
    (∀ x ∈ a, ∀ y ∈ b, f x y ≤ g x y) → (List.zipWith f a b).sum ≤ (List.zipWith g a b).sum
  | [], _, _ => by simp
  | _ :: _, [], _ => by simp
  | x :: a, y :: b, h => by
    simp only [List.zipWith_cons_cons, List.sum_cons]
    have h1 := h x (by simp) y (by simp)
    have h2 := zipWith_sum_le f g a b (fun x' hx y' hy => h x' (by simp [hx]) y' (by simp [hy]))
    linarith

theorem zipWith_sum_nonneg {β γ : Type} (f : β → γ → ℝ) (a : List β) (b : List γ)
    (h : ∀ x ∈ a, ∀ y ∈ b, 0 ≤ f x y) : 0 ≤ (List.zipWith f a b).sum := by
  have := zipWith_sum_le (fun _ _ => (0 : ℝ)) f a b h
  have z : (List.zipWith (fun (_ : β) (_ : γ) => (0 : ℝ)) a b).sum = 0 := by
    apply List.sum_eq_zero
    intro x hx
    obtain ⟨i, _, rfl⟩ := List.getElem_of_mem hx
    simp
  linarith

end lists

/-! ### nuclear norm on the singular values -/
section nuclear

/-- `(Σ σ_i)² ≤ k · Σ σ_i²` (Cauchy–Schwarz against the all-ones vector), any list -/
theorem sum_sq_le_length_mul (l : List ℝ) : l.sum ^ 2 ≤ l.length * (l.map (fun a => a ^ 2)).sum := by
  induction l with
  | nil => simp
  | cons a l ih =>
    simp only [List.sum_cons, List.length_cons, List.map_cons, Nat.cast_add, Nat.cast_one]
    have hk : (0 : ℝ) ≤ l.length := Nat.cast_nonneg _
    have hQ : 0 ≤ (l.map (fun a => a ^ 2)).sum := List.sum_nonneg (by
      intro x hx; simp only [List.mem_map] at hx; obtain ⟨b, _, rfl⟩ := hx; positivity)
    rcases Nat.eq_zero_or_pos l.length with h0 | hpos
    · have : l = [] := List.length_eq_zero_iff.mp h0
      subst this; simp
    · have hk' : (0 : ℝ) < l.length := by exact_mod_cast hpos
      -- 2 a s ≤ k a² + s²/k ≤ k a² + Q
      have h1 : 2 * (l.length : ℝ) * a * l.sum ≤ (l.length : ℝ) ^ 2 * a ^ 2 + l.sum ^ 2 := by
        nlinarith [sq_nonneg ((l.length : ℝ) * a - l.sum)]
      have h2 : 2 * a * l.sum ≤ (l.length : ℝ) * a ^ 2 + (l.map (fun a => a ^ 2)).sum := by
        have : (l.length : ℝ) * (2 * a * l.sum) ≤ (l.length : ℝ) * ((l.length : ℝ) * a ^ 2 + (l.map (fun a => a ^ 2)).sum) := by
          nlinarith
        exact le_of_mul_le_mul_left this hk'
      nlinarith

/-- for non-negative entries `Σ σ_i² ≤ (Σ σ_i)²` -/
theorem sum_sq_le_sq_sum (l : List ℝ) (h : ∀ a ∈ l, 0 ≤ a) : (l.map (fun a => a ^ 2)).sum ≤ l.sum ^ 2 := by
  induction l with
  | nil => simp
  | cons a l ih =>
    simp only [List.sum_cons, List.map_cons]
    have ha : 0 ≤ a := h a (by simp)
    have hs : 0 ≤ l.sum := List.sum_nonneg (fun x hx => h x (by simp [hx]))
    have := ih (fun x hx => h x (by simp [hx]))
    nlinarith [mul_nonneg ha hs]

/-- **nuclear norm vs Frobenius norm** on the singular values `σ ≥ 0` of a matrix with
    `k = min(m, n)` singular values: `‖X‖_F = √(Σσ²) ≤ ‖X‖_* = Σσ ≤ √k · ‖X‖_F`, and `‖X‖_* ≥ 0` -/
theorem nuclear_bounds (sv : List ℝ) (h : ∀ a ∈ sv, 0 ≤ a) :
    0 ≤ nuclearOfSv sv ∧
    Real.sqrt ((sv.map (fun a => a ^ 2)).sum) ≤ nuclearOfSv sv ∧
    nuclearOfSv sv ≤ Real.sqrt sv.length * Real.sqrt ((sv.map (fun a => a ^ 2)).sum) := by
  have hs : 0 ≤ sv.sum := List.sum_nonneg h
  refine ⟨hs, ?_, ?_⟩
  · unfold nuclearOfSv
    rw [← Real.sqrt_sq hs]
    exact Real.sqrt_le_sqrt (sum_sq_le_sq_sum sv h)
  · unfold nuclearOfSv
    rw [← Real.sqrt_mul (Nat.cast_nonneg _), ← Real.sqrt_sq hs]
    exact Real.sqrt_le_sqrt (sum_sq_le_length_mul sv)

/-- a diagonal matrix has singular values `|d_i|`: its nuclear norm is the ℓ¹ norm of the diagonal -/
theorem nuclear_diag (d : List ℝ) : nuclearOfSv (d.map (fun a => |a|)) = l1 false (.arr d) := by
  simp only [nuclearOfSv, l1, Arg.flat, mags, Bool.false_eq_true, if_false]
  congr 1
  apply List.map_congr_left
  intro a _
  unfold absR
  split
  · rw [abs_of_neg ‹_›]
  · rw [abs_of_nonneg (not_lt.mp ‹_›)]

theorem nuclearCall_eq (ndim : Nat) (sv : List ℝ) :
    nuclearCall ndim sv = if ndim = 2 then some sv.sum else none := rfl

end nuclear

/-! ### losses -/
section losses

theorem wsum_nonneg (w : Option (List ℝ)) (s : List ℝ) (hw : ∀ l, w = some l → ∀ a ∈ l, 0 ≤ a) (hs : ∀ a ∈ s, 0 ≤ a) :
    0 ≤ wsum w s := by
  cases w with
  | none => exact List.sum_nonneg hs
  | some l => exact zipWith_sum_nonneg _ _ _ (fun x hx y hy => mul_nonneg (hw l rfl x hx) (hs y hy))

theorem sq_list_nonneg (l : List ℝ) : ∀ a ∈ l.map (fun d => d * d), 0 ≤ a := by
  intro a ha
  simp only [List.mem_map] at ha
  obtain ⟨b, _, rfl⟩ := ha
  exact mul_self_nonneg b

/-- with non-negative scale and weights the three squared losses are non-negative -/
theorem sq_losses_nonneg (cplx : Bool) {scale : ℝ} (hs : 0 ≤ scale) (w : Option (List ℝ))
    (hw : ∀ l, w = some l → ∀ a ∈ l, 0 ≤ a) (y ax : List ℝ) :
    0 ≤ sqL2Loss cplx scale w y ax ∧ 0 ≤ sqL2AbsLoss cplx scale w y ax ∧ 0 ≤ sqL2SqAbsLoss cplx scale w y ax :=
  ⟨mul_nonneg hs (wsum_nonneg w _ hw (sqmags_nonneg cplx _)),
   mul_nonneg hs (wsum_nonneg w _ hw (sq_list_nonneg _)),
   mul_nonneg hs (wsum_nonneg w _ hw (sq_list_nonneg _))⟩

/-- a loss evaluated on block arrays is the loss on the concatenations (the reduction is a full
    reduction over all entries; weights are the concatenated block weights) -/
theorem sqL2Loss_real_eq (scale : ℝ) (w y ax : List ℝ) :
    sqL2Loss false scale (some w) y ax =
      scale * (List.zipWith (· * ·) w (List.zipWith (fun yi ai => (yi - ai) ^ 2) y ax)).sum := by
  simp only [sqL2Loss, wsum, sqmags, Bool.false_eq_true, if_false]
  congr 2
  rw [List.map_zipWith]
  have : (fun x y : ℝ => (x - y) * (x - y)) = fun yi ai => (yi - ai) ^ 2 := by
    funext a b; ring
  rw [this]

/-- entrywise: for a real measurement `y ≥ 0` and a complex value `a = (re, im)`:
    `(y − |a|)² ≤ |y − a|²` (so `SquaredL2AbsLoss ≤ SquaredL2Loss` entry by entry) -/
theorem abs_entry_le (y re im : ℝ) (hy : 0 ≤ y) :
    (y - Real.sqrt (re * re + im * im)) * (y - Real.sqrt (re * re + im * im)) ≤ (y - re) * (y - re) + im * im := by
  have hn : 0 ≤ re * re + im * im := by nlinarith [mul_self_nonneg re, mul_self_nonneg im]
  have hsq := Real.mul_self_sqrt hn
  have hre : re ≤ Real.sqrt (re * re + im * im) := by
    apply Real.le_sqrt_of_sq_le; nlinarith [mul_self_nonneg im]
  nlinarith [mul_nonneg hy (sub_nonneg.mpr hre)]

/-- real data: `(y − |a|)² ≤ (y − a)²` for `y ≥ 0`, with equality when `a ≥ 0` -/
theorem abs_entry_le_real (y a : ℝ) (hy : 0 ≤ y) : (y - absR a) * (y - absR a) ≤ (y - a) * (y - a) ∧
    (0 ≤ a → (y - absR a) * (y - absR a) = (y - a) * (y - a)) := by
  unfold absR
  split
  · rename_i h
    exact ⟨by nlinarith, fun h' => absurd h (not_lt.mpr h')⟩
  · exact ⟨le_refl _, fun _ => rfl⟩

/-- Poisson negative log-likelihood, one entry: for `a > 0`, `y > 0`:
    `a − y log a ≥ y − y log y` — the entry is minimised at `a = y` -/
theorem poisson_entry_min (a y : ℝ) (ha : 0 < a) (hy : 0 < y) :
    y - y * Real.log y ≤ a - y * Real.log a := by
  have h := Real.log_le_sub_one_of_pos (div_pos ha hy)
  rw [Real.log_div ha.ne' hy.ne'] at h
  have h2 := mul_le_mul_of_nonneg_left h hy.le
  have e : y * (a / y - 1) = a - y := by field_simp
  rw [e] at h2
  linarith

/-- and for `y = 0` the entry `a − 0·log a = a` is non-negative on `a ≥ 0` -/
theorem poisson_entry_zero (a : ℝ) (ha : 0 ≤ a) : (0 : ℝ) - 0 * Real.log 0 ≤ a - 0 * Real.log a := by
  simp [ha]

/-- weighted sums are monotone in the summands (weights `≥ 0`) -/
theorem wsum_mono (w : List ℝ) (hw : ∀ a ∈ w, 0 ≤ a) : ∀ {s t : List ℝ}, List.Forall₂ (· ≤ ·) s t →
    wsum (some w) s ≤ wsum (some w) t := by
  induction w with
  | nil => intro s t _; simp [wsum]
  | cons w0 w ih =>
    intro s t h
    cases h with
    | nil => simp [wsum]
    | cons hab hrest =>
      have := ih (fun a ha => hw a (by simp [ha])) hrest
      have h0 : 0 ≤ w0 := hw w0 (by simp)
      simp only [wsum, List.zipWith_cons_cons, List.sum_cons] at this ⊢
      nlinarith [mul_le_mul_of_nonneg_left hab h0]

theorem sum_mono : ∀ {s t : List ℝ}, List.Forall₂ (· ≤ ·) s t → s.sum ≤ t.sum := by
  intro s t h
  induction h with
  | nil => simp
  | cons hab _ ih => simp only [List.sum_cons]; linarith

/-- real data, measurements `y ≥ 0`, weights and scale `≥ 0`, any length:
    `SquaredL2AbsLoss(x) ≤ SquaredL2Loss(x)` (the reverse triangle inequality entry by entry) -/
theorem sqL2AbsLoss_le_sqL2Loss_real {scale : ℝ} (hs : 0 ≤ scale) (w : Option (List ℝ))
    (hw : ∀ l, w = some l → ∀ a ∈ l, 0 ≤ a) (y ax : List ℝ) (hy : ∀ a ∈ y, 0 ≤ a) :
    sqL2AbsLoss false scale w y ax ≤ sqL2Loss false scale w y ax := by
  have key : List.Forall₂ (· ≤ ·) ((List.zipWith (· - ·) y (mags false ax)).map (fun d => d * d))
      (sqmags false (List.zipWith (· - ·) y ax)) := by
    simp only [mags, sqmags, Bool.false_eq_true, if_false]
    induction y generalizing ax with
    | nil => simp
    | cons y0 y ih =>
      cases ax with
      | nil => simp
      | cons a0 ax =>
        simp only [List.map_cons, List.zipWith_cons_cons]
        exact List.Forall₂.cons (abs_entry_le_real y0 a0 (hy y0 (by simp))).1
          (ih ax (fun a ha => hy a (by simp [ha])))
  unfold sqL2AbsLoss sqL2Loss
  apply mul_le_mul_of_nonneg_left _ hs
  cases w with
  | none => exact sum_mono key
  | some l => exact wsum_mono l (hw l rfl) key

/-- Poisson loss, any length: for counts `y > 0`, predictions `ax > 0`, scale `≥ 0` the negative
    log-likelihood is at least its value at `ax = y` (the loss is minimised by a perfect fit) -/
theorem poissonLoss_min {scale : ℝ} (hs : 0 ≤ scale) : ∀ (y ax const : List ℝ), y.length = ax.length →
    const.length = ax.length → (∀ a ∈ y, 0 < a) → (∀ a ∈ ax, 0 < a) →
    poissonLoss scale y y const ≤ poissonLoss scale y ax const := by
  intro y ax const h1 h2 hy ha
  unfold poissonLoss
  apply mul_le_mul_of_nonneg_left _ hs
  apply sum_mono
  induction y generalizing ax const with
  | nil => cases ax <;> simp_all
  | cons y0 y ih =>
    cases ax with
    | nil => simp at h1
    | cons a0 ax =>
      cases const with
      | nil => simp at h2
      | cons c0 const =>
        simp only [List.length_cons, Nat.add_right_cancel_iff] at h1 h2
        simp only [List.zipWith_cons_cons]
        refine List.Forall₂.cons ?_ (ih ax const h1 h2 (fun a h => hy a (by simp [h])) (fun a h => ha a (by simp [h])))
        have := poisson_entry_min a0 y0 (ha a0 (by simp)) (hy y0 (by simp))
        simp only [HasLog.log]
        linarith

end losses

/-! ### metrics -/
section metrics

theorem mae_nonneg (r c : List ℝ) : 0 ≤ mae false r c := by
  apply mean_nonneg
  intro a ha
  simp only [mags, Bool.false_eq_true, if_false, List.mem_map] at ha
  obtain ⟨b, _, rfl⟩ := ha
  unfold absR
  split
  · linarith
  · exact not_lt.mp ‹_›

theorem sum_eq_zero_of_nonneg : ∀ (l : List ℝ), (∀ a ∈ l, 0 ≤ a) → l.sum = 0 → ∀ a ∈ l, a = 0
  | [], _, _ => by simp
  | x :: l, h, hs => by
    have hx : 0 ≤ x := h x (by simp)
    have hl : 0 ≤ l.sum := List.sum_nonneg (fun a ha => h a (by simp [ha]))
    simp only [List.sum_cons] at hs
    have hx0 : x = 0 := by linarith
    have hl0 : l.sum = 0 := by linarith
    intro a ha
    simp only [List.mem_cons] at ha
    rcases ha with rfl | ha
    · exact hx0
    · exact sum_eq_zero_of_nonneg l (fun a ha => h a (by simp [ha])) hl0 a ha

theorem zipWith_sub_sq_zero : ∀ (r c : List ℝ), r.length = c.length →
    (∀ a ∈ (List.zipWith (· - ·) r c).map (fun x => x * x), a = 0) → r = c
  | [], [], _, _ => rfl
  | [], _ :: _, h, _ => by simp at h
  | _ :: _, [], h, _ => by simp at h
  | x :: r, y :: c, h, hz => by
    simp only [List.length_cons, Nat.add_right_cancel_iff] at h
    have h0 := hz ((x - y) * (x - y)) (by simp)
    have hxy : x = y := by
      have : x - y = 0 := by nlinarith [mul_self_nonneg (x - y)]
      linarith
    have := zipWith_sub_sq_zero r c h (fun a ha => hz a (by
      simp only [List.zipWith_cons_cons, List.map_cons, List.mem_cons]; exact Or.inr ha))
    rw [hxy, this]

/-- real images of the same (non-zero) size: `mse = 0` exactly when the images are equal -/
theorem mse_eq_zero_iff (r c : List ℝ) (hl : r.length = c.length) (hne : r ≠ []) :
    mse false r c = 0 ↔ r = c := by
  constructor
  · intro h
    simp only [mse, mean, lcount_eq_length] at h
    have hlen : ((sqmags false (List.zipWith (· - ·) r c)).length : ℝ) ≠ 0 := by
      have : 0 < r.length := List.length_pos_iff.mpr hne
      simp [sqmags, ← hl]; omega
    have hsum : (sqmags false (List.zipWith (· - ·) r c)).sum = 0 := by
      rcases div_eq_zero_iff.mp h with h | h
      · exact h
      · exact absurd h hlen
    have hz := sum_eq_zero_of_nonneg _ (sqmags_nonneg false _) hsum
    simp only [sqmags, Bool.false_eq_true, if_false] at hz
    exact zipWith_sub_sq_zero r c hl hz
  · rintro rfl
    simp only [mse, mean]
    have : (sqmags false (List.zipWith (· - ·) r r)).sum = 0 := by
      apply List.sum_eq_zero
      intro a ha
      simp only [sqmags, Bool.false_eq_true, if_false, List.mem_map] at ha
      obtain ⟨b, hb, rfl⟩ := ha
      obtain ⟨i, hi, rfl⟩ := List.getElem_of_mem hb
      simp
    rw [this, zero_div]

end metrics

end Scico.FuncEval

namespace Scico.FuncEval

/-! ### `ProximalAverage` -/
section proxavg

theorem foldl_add_eq_sum (l : List ℝ) (a : ℝ) : l.foldl (· + ·) a = a + l.sum := by
  induction l generalizing a with
  | nil => simp
  | cons x l ih => simp only [List.foldl_cons, ih, List.sum_cons]; ring

theorem sum_map_div (l : List ℝ) (s : ℝ) : (l.map (fun a => a / s)).sum = l.sum / s := by
  induction l with
  | nil => simp
  | cons x l ih => simp only [List.map_cons, List.sum_cons, ih]; ring

/-- the weights `ProximalAverage.__init__` stores sum to one: the default `1/N` (for `N ≥ 1`
    functionals), and given weights with a non-zero sum (kept as given when they already sum to one,
    divided by their sum otherwise) -/
theorem proxAvgWeights_sum_one (n : Nat) (hn : 0 < n) (al : List ℝ) (hs : al.sum ≠ 0) :
    (proxAvgWeights (n : ℝ) none n).sum = 1 ∧ (proxAvgWeights (n : ℝ) none n).length = n ∧
    (proxAvgWeights (n : ℝ) (some al) n).sum = 1 ∧ (proxAvgWeights (n : ℝ) (some al) n).length = al.length := by
  have hn' : (n : ℝ) ≠ 0 := by exact_mod_cast hn.ne'
  refine ⟨?_, by simp [proxAvgWeights], ?_, ?_⟩
  · simp only [proxAvgWeights, List.sum_replicate, nsmul_eq_mul]
    field_simp
  · simp only [proxAvgWeights, foldl_add_eq_sum, zero_add]
    by_cases h1 : isZero (al.sum - 1) = true
    · rw [if_pos h1]
      simp only [isZero, Bool.and_eq_true, Bool.not_eq_true', decide_eq_false_iff_not, not_lt] at h1
      linarith [h1.1, h1.2]
    · rw [if_neg h1, sum_map_div, div_self hs]
  · simp only [proxAvgWeights]
    split <;> simp

/-- `ProximalAverage.__call__` without the infinity filter is the weighted sum `Σ α_i f_i(x)` -/
theorem proxAvgEval_sum (isInf : ℝ → Bool) (ws vals : List ℝ) :
    proxAvgEval isInf false ws vals = (List.zipWith (· * ·) ws vals).sum := by
  simp [proxAvgEval, foldl_add_eq_sum]

/-- with the filter, entries flagged infinite contribute `0` -/
theorem proxAvgEval_filter (isInf : ℝ → Bool) (ws vals : List ℝ) :
    proxAvgEval isInf true ws vals = ((List.zipWith (· * ·) ws vals).map (fun a => if isInf a then 0 else a)).sum := by
  simp [proxAvgEval, foldl_add_eq_sum]

end proxavg

end Scico.FuncEval

namespace Scico.FuncEval

/-! ### `rel_res ≤ 2` -/
section relres

theorem sum_sq_nonneg (a : List ℝ) : 0 ≤ (a.map (fun x => x * x)).sum :=
  List.sum_nonneg (sq_list_nonneg a)

/-- Cauchy–Schwarz on lists of the same length: `(Σ a_i b_i)² ≤ (Σ a_i²)(Σ b_i²)` -/
theorem sum_sub_sq_le : ∀ (a b : List ℝ), a.length = b.length →
    (List.zipWith (· * ·) a b).sum ^ 2 ≤ (a.map (fun x => x * x)).sum * (b.map (fun x => x * x)).sum
  | [], [], _ => by simp
  | [], _ :: _, h => by simp at h
  | _ :: _, [], h => by simp at h
  | x :: a, y :: b, h => by
    simp only [List.length_cons, Nat.add_right_cancel_iff] at h
    have ih := sum_sub_sq_le a b h
    have hA := sum_sq_nonneg a
    have hB := sum_sq_nonneg b
    simp only [List.zipWith_cons_cons, List.sum_cons, List.map_cons]
    set A := (a.map (fun x => x * x)).sum
    set B := (b.map (fun x => x * x)).sum
    set C := (List.zipWith (· * ·) a b).sum
    -- 2 C x y ≤ A y² + B x²
    have hR : 0 ≤ A * y ^ 2 + B * x ^ 2 := by positivity
    have hsq : (2 * C * x * y) ^ 2 ≤ (A * y ^ 2 + B * x ^ 2) ^ 2 := by
      have h1 : (2 * C * x * y) ^ 2 = 4 * C ^ 2 * (x ^ 2 * y ^ 2) := by ring
      have h2 : 4 * C ^ 2 * (x ^ 2 * y ^ 2) ≤ 4 * (A * B) * (x ^ 2 * y ^ 2) := by
        have : 0 ≤ x ^ 2 * y ^ 2 := by positivity
        nlinarith
      nlinarith [sq_nonneg (A * y ^ 2 - B * x ^ 2)]
    have hlin : 2 * C * x * y ≤ A * y ^ 2 + B * x ^ 2 := by
      have := abs_le_of_sq_le_sq' hsq hR
      exact this.2
    nlinarith

theorem sqrt_sum_sub_le (a b : List ℝ) (h : a.length = b.length) :
    Real.sqrt ((List.zipWith (· - ·) b a).map (fun x => x * x)).sum
      ≤ Real.sqrt (a.map (fun x => x * x)).sum + Real.sqrt (b.map (fun x => x * x)).sum := by
  have hA := sum_sq_nonneg a
  have hB := sum_sq_nonneg b
  have hcs := sum_sub_sq_le a b h
  -- Σ(b−a)² = A + B − 2C
  have hexp : ∀ (a b : List ℝ), a.length = b.length →
      ((List.zipWith (· - ·) b a).map (fun x => x * x)).sum
        = (a.map (fun x => x * x)).sum + (b.map (fun x => x * x)).sum - 2 * (List.zipWith (· * ·) a b).sum := by
    intro a
    induction a with
    | nil => intro b h; cases b <;> simp_all
    | cons x a ih =>
      intro b h
      cases b with
      | nil => simp at h
      | cons y b =>
        simp only [List.length_cons, Nat.add_right_cancel_iff] at h
        simp only [List.zipWith_cons_cons, List.map_cons, List.sum_cons, ih b h]
        ring
  rw [hexp a b h]
  set A := (a.map (fun x => x * x)).sum
  set B := (b.map (fun x => x * x)).sum
  set C := (List.zipWith (· * ·) a b).sum
  have hsAB : Real.sqrt A * Real.sqrt B = Real.sqrt (A * B) := (Real.sqrt_mul hA B).symm
  have hC : -C ≤ Real.sqrt (A * B) := by
    have : |C| ≤ Real.sqrt (A * B) := by
      rw [← Real.sqrt_sq_eq_abs]
      exact Real.sqrt_le_sqrt hcs
    exact (abs_le.mp this).1 |> fun h => by linarith
  have hsum : 0 ≤ Real.sqrt A + Real.sqrt B := by positivity
  rw [← Real.sqrt_sq hsum]
  apply Real.sqrt_le_sqrt
  have e : (Real.sqrt A + Real.sqrt B) ^ 2 = A + B + 2 * (Real.sqrt A * Real.sqrt B) := by
    rw [add_sq, Real.sq_sqrt hA, Real.sq_sqrt hB]; ring
  rw [e, hsAB]
  linarith

/-- **`rel_res ≤ 2`** for real arrays of the same shape (triangle inequality) -/
theorem relRes_le_two (ax b : List ℝ) (h : ax.length = b.length) : relRes false ax b ≤ 2 := by
  unfold relRes
  simp only [sqmags, Bool.false_eq_true, if_false, HasSqrt.sqrt]
  set na := Real.sqrt (ax.map (fun x => x * x)).sum
  set nb := Real.sqrt (b.map (fun x => x * x)).sum
  have hna : 0 ≤ na := Real.sqrt_nonneg _
  have hnb : 0 ≤ nb := Real.sqrt_nonneg _
  have htri := sqrt_sum_sub_le ax b h
  split
  · norm_num
  · rename_i hz
    have hm1 : na ≤ maxR nb na := by unfold maxR; split <;> linarith
    have hm2 : nb ≤ maxR nb na := by unfold maxR; split <;> linarith
    have hpos : 0 < maxR nb na := by
      have h0 : 0 ≤ maxR nb na := le_trans hna hm1
      rcases h0.lt_or_eq with h1 | h1
      · exact h1
      · exfalso; apply hz; simp [isZero, ← h1]
    rw [div_le_iff₀ hpos]
    linarith

end relres

end Scico.FuncEval
