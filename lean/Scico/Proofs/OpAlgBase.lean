/-
  Helper lemmas for the operator calculus (engine OpAlg): finite sums `sumTo`, materialised
  vectors, matrix–vector algebra over a field with involution.
-/
import Mathlib.Algebra.Field.Basic
import Mathlib.Algebra.Star.Basic
import Mathlib.Tactic.Ring
import Mathlib.Tactic.FieldSimp
import Scico.Model.OpAlg

namespace Scico.OpAlg
open Scico.DType

section sums
variable {K : Type} [Field K]

@[simp] theorem sumTo_zero (f : Nat → K) : sumTo 0 f = 0 := rfl
theorem sumTo_succ (n : Nat) (f : Nat → K) : sumTo (n + 1) f = sumTo n f + f n := rfl

theorem sumTo_congr {n : Nat} {f g : Nat → K} (h : ∀ i, i < n → f i = g i) :
    sumTo n f = sumTo n g := by
  induction n with
  | zero => rfl
  | succ n ih =>
    rw [sumTo_succ, sumTo_succ, ih (fun i hi => h i (Nat.lt_succ_of_lt hi)), h n (Nat.lt_succ_self n)]

@[simp] theorem sumTo_const_zero (n : Nat) : sumTo n (fun _ => (0 : K)) = 0 := by
  induction n with
  | zero => rfl
  | succ n ih => rw [sumTo_succ, ih, add_zero]

theorem sumTo_add (n : Nat) (f g : Nat → K) :
    sumTo n (fun i => f i + g i) = sumTo n f + sumTo n g := by
  induction n with
  | zero => simp
  | succ n ih => rw [sumTo_succ, sumTo_succ, sumTo_succ, ih]; ring

theorem sumTo_sub (n : Nat) (f g : Nat → K) :
    sumTo n (fun i => f i - g i) = sumTo n f - sumTo n g := by
  induction n with
  | zero => simp
  | succ n ih => rw [sumTo_succ, sumTo_succ, sumTo_succ, ih]; ring

theorem sumTo_neg (n : Nat) (f : Nat → K) : sumTo n (fun i => - f i) = - sumTo n f := by
  induction n with
  | zero => simp
  | succ n ih => rw [sumTo_succ, sumTo_succ, ih]; ring

theorem sumTo_mul_left (n : Nat) (c : K) (f : Nat → K) :
    sumTo n (fun i => c * f i) = c * sumTo n f := by
  induction n with
  | zero => simp
  | succ n ih => rw [sumTo_succ, sumTo_succ, ih]; ring

theorem sumTo_mul_right (n : Nat) (c : K) (f : Nat → K) :
    sumTo n (fun i => f i * c) = sumTo n f * c := by
  induction n with
  | zero => simp
  | succ n ih => rw [sumTo_succ, sumTo_succ, ih]; ring

theorem sumTo_div (n : Nat) (c : K) (f : Nat → K) :
    sumTo n (fun i => f i / c) = sumTo n f / c := by
  simp only [div_eq_mul_inv]
  exact sumTo_mul_right n c⁻¹ f

/-- exchange of two finite sums -/
theorem sumTo_comm (n m : Nat) (f : Nat → Nat → K) :
    sumTo n (fun i => sumTo m (fun j => f i j)) = sumTo m (fun j => sumTo n (fun i => f i j)) := by
  induction n with
  | zero => simp
  | succ n ih =>
    rw [sumTo_succ, ih, ← sumTo_add]
    rfl

/-- a sum against an indicator picks one term -/
theorem sumTo_ite_eq (n k : Nat) (f : Nat → K) :
    sumTo n (fun j => if j = k then f j else 0) = if k < n then f k else 0 := by
  induction n with
  | zero => simp
  | succ n ih =>
    rw [sumTo_succ, ih]
    by_cases h1 : k < n
    · have : n ≠ k := by omega
      simp [h1, this, Nat.lt_succ_of_lt h1]
    · by_cases h2 : n = k
      · subst h2; simp
      · have : ¬ k < n + 1 := by omega
        simp [h1, h2, this]

theorem sumTo_ite_eq' (n k : Nat) (f : Nat → K) :
    sumTo n (fun j => if k = j then f j else 0) = if k < n then f k else 0 := by
  rw [← sumTo_ite_eq n k f]
  apply sumTo_congr
  intro i _
  by_cases h : i = k
  · simp [h]
  · have : ¬ k = i := fun h' => h h'.symm
    simp [h, this]

/-- only the entries below the bound are read -/
theorem sumTo_congr_trunc (n : Nat) (f : Nat → K) (x : Nat → K) :
    sumTo n (fun j => f j * (if j < n then x j else 0)) = sumTo n (fun j => f j * x j) := by
  apply sumTo_congr
  intro i hi
  simp [hi]

variable [StarRing K]

theorem star_sumTo (n : Nat) (f : Nat → K) : star (sumTo n f) = sumTo n (fun i => star (f i)) := by
  induction n with
  | zero => simp
  | succ n ih => rw [sumTo_succ, sumTo_succ, star_add, ih]

end sums

/-! ### materialised vectors: every combinator is `trunc` of a pointwise expression -/

section vc
variable {K : Type} [Field K]

@[simp] theorem trunc_get (n : Nat) (f : V K) (i : Nat) :
    (trunc n f).get i = if i < n then f i else 0 := rfl

@[simp] theorem truncM_get (m n : Nat) (A : Mx K) (i j : Nat) :
    (truncM m n A).get i j = if i < m ∧ j < n then A i j else 0 := rfl

@[simp] theorem vtrunc_get (n : Nat) (x : Vc K) (i : Nat) :
    (vtrunc n x).get i = if i < n then x.get i else 0 := rfl

@[simp] theorem vmap_get (n : Nat) (f : K → K) (u : Vc K) (i : Nat) :
    (vmap n f u).get i = if i < n then f (u.get i) else 0 := rfl

@[simp] theorem vzip_get (n : Nat) (f : K → K → K) (u v : Vc K) (i : Nat) :
    (vzip n f u v).get i = if i < n then f (u.get i) (v.get i) else 0 := rfl

@[simp] theorem vmulVec_get (m n : Nat) (A : Mc K) (x : Vc K) (i : Nat) :
    (vmulVec m n A x).get i = if i < m then mulVec n A.get x.get i else 0 := rfl

@[simp] theorem vbmul_get (m : Nat) (pd px : Nat → Nat) (d x : Vc K) (i : Nat) :
    (vbmul m pd px d x).get i = if i < m then d.get (pd i) * x.get (px i) else 0 := rfl

theorem pm_add (a b : K) : pm false a b = a + b := rfl
theorem pm_sub (a b : K) : pm true a b = a - b := rfl

end vc

end Scico.OpAlg
