/-
  Helper lemmas for `Scico.Model.LinOps`, part 10 (round 2): X-ray weights are convex weights and the
  detector-covers-the-shadow hypothesis from the geometry; further facts about the shift phases.
-/
import Scico.Proofs.LinOps5
import Scico.Proofs.LinOps8
import Scico.Proofs.LinOps6

namespace Scico.LinOps
open Finset
set_option linter.unusedSectionVars false

section XRayRange
variable {K : Type} [Field K] [LinearOrder K] [IsStrictOrderedRing K]

local instance : HasNat K := ⟨Nat.cast⟩
local instance : HasAbs K := ⟨abs⟩

/-- the contract on `floor`: `floor z ≤ z < floor z + 1` -/
def FloorContract (fl : K → Int) : Prop := ∀ z : K, ((fl z : Int) : K) ≤ z ∧ z < ((fl z : Int) : K) + 1

/-- "distance_to_next is always in (0, 1]" and hence, for a footprint of positive width, the weight of the first
    bin lies in `(0, 1]`: the two-bin split `w, 1 − w` is a convex combination -/
theorem xray_wt_range (g : XGeom K) (fl : K → Int) (hfl : FloorContract fl) (hw : 0 < g.width) (i j : Nat) :
    0 < g.wt fl (fun z => (z : K)) i j ∧ g.wt fl (fun z => (z : K)) i j ≤ 1 := by
  obtain ⟨h1, h2⟩ := hfl (g.px i j)
  have hd0 : 0 < (1 : K) - (g.px i j - ((fl (g.px i j) : Int) : K)) := by linarith
  unfold XGeom.wt
  simp only [HasNat.nat, Nat.cast_one]
  constructor
  · exact div_pos (lt_min hd0 hw) hw
  · rw [div_le_one hw]; exact min_le_right _ _

/-- the detector covers the shadow of a pixel, `0 ≤ Px` and `Px + 1 < ny`, exactly when both of its bins are on
    the detector -/
theorem xray_ind_on_detector (g : XGeom K) (fl : K → Int) (hfl : FloorContract fl) (ny : Nat) (i j : Nat)
    (h0 : 0 ≤ g.px i j) (h1 : g.px i j + 1 < (ny : K)) :
    0 ≤ g.ind fl i j ∧ g.ind fl i j + 1 < ny := by
  obtain ⟨ha, hb⟩ := hfl (g.px i j)
  unfold XGeom.ind
  constructor
  · have : (-1 : K) < ((fl (g.px i j) : Int) : K) := by linarith
    have : ((-1 : Int) : K) < ((fl (g.px i j) : Int) : K) := by simpa using this
    have := Int.cast_lt.mp this
    omega
  · have : ((fl (g.px i j) : Int) : K) + 1 < (ny : K) := by linarith
    have : ((fl (g.px i j) + 1 : Int) : K) < ((ny : Int) : K) := by push_cast; exact this
    exact Int.cast_lt.mp this

/-- mass conservation from the GEOMETRY: if the projected left edge of every pixel satisfies `0 ≤ Px` and
    `Px + 1 < ny` (the detector covers the object's shadow), the view conserves the total mass -/
theorem xray_mass_geometry (g : XGeom K) (fl : K → Int) (hfl : FloorContract fl) (n0 n1 ny : Nat) (x : V K)
    (hcov : ∀ i j, i < n0 → j < n1 → 0 ≤ g.px i j ∧ g.px i j + 1 < (ny : K)) :
    sumTo ny (xrayProject (n0 * n1) (fun p => g.ind fl (p / n1) (p % n1))
        (fun p => g.wt fl (fun z => (z : K)) (p / n1) (p % n1)) x ny) = sumTo (n0 * n1) x := by
  apply xray_mass
  intro p hp
  have hn1 : 0 < n1 := by
    rcases Nat.eq_zero_or_pos n1 with h | h
    · subst h; simp at hp
    · exact h
  have hi : p / n1 < n0 := by rw [Nat.div_lt_iff_lt_mul hn1]; exact hp
  have hj : p % n1 < n1 := Nat.mod_lt _ hn1
  obtain ⟨a, b⟩ := hcov _ _ hi hj
  exact xray_ind_on_detector g fl hfl ny _ _ a b

end XRayRange

section PhaseMore
variable {K : Type} [Field K] {Q : Type} [Field Q] [CharZero Q]

/-- the zero-frequency bin is never changed by the shift (`phase(0) = 1`): a fractional centre preserves the sum
    of the filter taps -/
theorem shiftPhase_dc {E C : Q → K} (h : ExpContract E C) (k : Q) (s : Nat) (hs : 0 < s) :
    shiftPhase E C (fun m => (m : Q)) k s 0 = 1 := by
  simp only [shiftPhase]
  rw [if_pos (by omega)]
  simp [h.zero]

/-- away from the Nyquist bin shifts compose: `phase(k₁ + k₂) = phase(k₁) · phase(k₂)` -/
theorem shiftPhase_add {E C : Q → K} (h : ExpContract E C) (k1 k2 : Q) (s f : Nat) (hf : 2 * f ≠ s) :
    shiftPhase E C (fun m => (m : Q)) (k1 + k2) s f
      = shiftPhase E C (fun m => (m : Q)) k1 s f * shiftPhase E C (fun m => (m : Q)) k2 s f := by
  simp only [shiftPhase, if_neg hf]
  split
  · rw [← h.add]; congr 1; ring
  · rw [← h.add]; congr 1; ring

end PhaseMore



section DFTAxes
variable {K : Type} [Field K]

/-- one entry per axis: a primitive root of the axis length on a transformed axis; every axis non-empty -/
def RootsOpt : List Nat → List (Option K) → Prop
  | [], [] => True
  | n :: ds, some w :: ws => IsPrimitiveRoot w n ∧ 0 < n ∧ RootsOpt ds ws
  | n :: ds, none :: ws => 0 < n ∧ RootsOpt ds ws
  | _, _ => False

theorem rootsOpt_prod_pos : ∀ (dims : List Nat) (ws : List (Option K)), RootsOpt dims ws → 0 < prodL dims
  | [], [], _ => by simp [prodL]
  | [], _ :: _, h => by simp [RootsOpt] at h
  | _ :: _, [], h => by simp [RootsOpt] at h
  | n :: ds, some w :: ws, h => Nat.mul_pos h.2.1 (rootsOpt_prod_pos ds ws h.2.2)
  | n :: ds, none :: ws, h => Nat.mul_pos h.1 (rootsOpt_prod_pos ds ws h.2)

theorem dftAxes_cons_some (n : Nat) (ds : List Nat) (w : K) (ws : List (Option K)) (x : V K) (p : Nat) :
    dftAxes (n :: ds) (some w :: ws) x p
      = ∑ j ∈ range n, dftAxes ds ws (slab (prodL ds) j x) (p % prodL ds) * w ^ (j * (p / prodL ds)) := by
  simp only [dftAxes, sumTo_eq_sum, npow_eq_pow]

theorem dftAxes_congr : ∀ (dims : List Nat) (ws : List (Option K)) (x y : V K) (p : Nat),
    (∀ q, q < prodL dims → x q = y q) → p < prodL dims → dftAxes dims ws x p = dftAxes dims ws y p
  | [], ws, x, y, p, h, hp => by cases ws <;> simpa [dftAxes] using h p hp
  | n :: ds, [], x, y, p, h, hp => by simpa [dftAxes] using h p hp
  | n :: ds, some w :: ws, x, y, p, h, hp => by
      rw [dftAxes_cons_some, dftAxes_cons_some]
      have hR : 0 < prodL ds := by
        rcases Nat.eq_zero_or_pos (prodL ds) with h0 | h0
        · simp [prodL, h0] at hp
        · exact h0
      refine sum_congr rfl (fun j hj => ?_)
      congr 1
      apply dftAxes_congr ds ws _ _ _ _ (Nat.mod_lt _ hR)
      intro q hq
      apply h
      have hj' := mem_range.mp hj
      calc j * prodL ds + q < j * prodL ds + prodL ds := by omega
        _ = (j + 1) * prodL ds := by ring
        _ ≤ n * prodL ds := Nat.mul_le_mul_right _ hj'
  | n :: ds, none :: ws, x, y, p, h, hp => by
      have hR : 0 < prodL ds := by
        rcases Nat.eq_zero_or_pos (prodL ds) with h0 | h0
        · simp [prodL, h0] at hp
        · exact h0
      have hj0 : p / prodL ds < n := by
        rw [Nat.div_lt_iff_lt_mul hR]; simpa [prodL] using hp
      simp only [dftAxes]
      apply dftAxes_congr ds ws _ _ _ _ (Nat.mod_lt _ hR)
      intro q hq
      apply h
      calc p / prodL ds * prodL ds + q < p / prodL ds * prodL ds + prodL ds := by omega
        _ = (p / prodL ds + 1) * prodL ds := by ring
        _ ≤ n * prodL ds := Nat.mul_le_mul_right _ hj0

theorem dftAxes_lin {ι : Type} (S : Finset ι) : ∀ (dims : List Nat) (ws : List (Option K)) (cf : ι → K) (F : ι → V K) (p : Nat),
    dftAxes dims ws (fun q => ∑ a ∈ S, cf a * F a q) p = ∑ a ∈ S, cf a * dftAxes dims ws (F a) p
  | [], ws, cf, F, p => by cases ws <;> simp [dftAxes]
  | n :: ds, [], cf, F, p => by simp [dftAxes]
  | n :: ds, some w :: ws, cf, F, p => by
      rw [dftAxes_cons_some]
      have e : ∀ j, slab (prodL ds) j (fun q => ∑ a ∈ S, cf a * F a q)
          = fun r => ∑ a ∈ S, cf a * slab (prodL ds) j (F a) r := fun j => rfl
      simp only [e, dftAxes_lin S ds ws, dftAxes_cons_some]
      simp only [sum_mul, mul_sum, mul_assoc]
      rw [sum_comm]
  | n :: ds, none :: ws, cf, F, p => by
      simp only [dftAxes]
      have e : ∀ j, slab (prodL ds) j (fun q => ∑ a ∈ S, cf a * F a q)
          = fun r => ∑ a ∈ S, cf a * slab (prodL ds) j (F a) r := fun j => rfl
      rw [e, dftAxes_lin S ds ws]

/-- inversion over any subset of the axes (transform size = input size), unscaled:
    `idft_axes(dft_axes(x)) = (Π_{a transformed} n_a) · x` -/
theorem dftAxes_inv_raw : ∀ (dims : List Nat) (ws : List (Option K)) (x : V K) (p : Nat), RootsOpt dims ws → p < prodL dims →
    dftAxes dims (ws.map (Option.map (·⁻¹))) (dftAxes dims ws x) p = (dftAxesSize dims ws : K) * x p
  | [], [], x, p, _, hp => by simp [dftAxes, dftAxesSize]
  | [], _ :: _, _, _, hr, _ => by simp [RootsOpt] at hr
  | _ :: _, [], _, _, hr, _ => by simp [RootsOpt] at hr
  | n :: ds, none :: ws, x, p, hr, hp => by
      obtain ⟨hn, hr'⟩ := hr
      have hR : 0 < prodL ds := rootsOpt_prod_pos ds ws hr'
      have hj' : p % prodL ds < prodL ds := Nat.mod_lt _ hR
      simp only [List.map_cons, Option.map_none, dftAxes, dftAxesSize]
      have e1 : ∀ r, r < prodL ds → slab (prodL ds) (p / prodL ds) (fun p => dftAxes ds ws (slab (prodL ds) (p / prodL ds) x) (p % prodL ds)) r
          = dftAxes ds ws (slab (prodL ds) (p / prodL ds) x) r := by
        intro r hr
        simp only [slab, idx_div hR _ r hr, idx_mod _ r hr]
      rw [dftAxes_congr ds _ _ _ _ e1 hj', dftAxes_inv_raw ds ws _ _ hr' hj']
      simp only [slab, Nat.div_add_mod' p (prodL ds)]
  | n :: ds, some w :: ws, x, p, hr, hp => by
      obtain ⟨hw, hn, hr'⟩ := hr
      have hR : 0 < prodL ds := rootsOpt_prod_pos ds ws hr'
      have hj' : p % prodL ds < prodL ds := Nat.mod_lt _ hR
      have hj0 : p / prodL ds < n := by
        rw [Nat.div_lt_iff_lt_mul hR]; simpa [prodL] using hp
      have IH := fun (x' : V K) => dftAxes_inv_raw ds ws x' (p % prodL ds) hr' hj'
      rw [List.map_cons, Option.map_some, dftAxes_cons_some]
      have e : ∀ f0 ∈ range n,
          dftAxes ds (ws.map (Option.map (·⁻¹))) (slab (prodL ds) f0 (dftAxes (n :: ds) (some w :: ws) x)) (p % prodL ds)
            * w⁻¹ ^ (f0 * (p / prodL ds))
          = ∑ b ∈ range n, ((dftAxesSize ds ws : K) * x (b * prodL ds + p % prodL ds))
              * (w ^ (b * f0) * w⁻¹ ^ ((p / prodL ds) * f0)) := by
        intro f0 _
        have e1 : ∀ r, r < prodL ds → slab (prodL ds) f0 (dftAxes (n :: ds) (some w :: ws) x) r
            = ∑ b ∈ range n, w ^ (b * f0) * dftAxes ds ws (slab (prodL ds) b x) r := by
          intro r hr
          simp only [slab, dftAxes_cons_some, idx_div hR f0 r hr, idx_mod f0 r hr]
          exact sum_congr rfl (fun b _ => by ring)
        rw [dftAxes_congr ds _ _ _ _ e1 hj', dftAxes_lin, sum_mul]
        refine sum_congr rfl (fun b _ => ?_)
        rw [IH, Nat.mul_comm f0]
        simp only [slab]; ring
      rw [sum_congr rfl e, sum_comm]
      have e2 : ∀ b ∈ range n, ∑ f0 ∈ range n, ((dftAxesSize ds ws : K) * x (b * prodL ds + p % prodL ds))
              * (w ^ (b * f0) * w⁻¹ ^ ((p / prodL ds) * f0))
          = ((dftAxesSize ds ws : K) * x (b * prodL ds + p % prodL ds)) * (if b = p / prodL ds then (n : K) else 0) := by
        intro b hb
        rw [← mul_sum, root_orthogonality hw b (p / prodL ds) (mem_range.mp hb) hj0]
      rw [sum_congr rfl e2, sum_eq_single_of_mem (p / prodL ds) (mem_range.mpr hj0) (fun b _ hne => by simp [hne])]
      rw [if_pos rfl, Nat.div_add_mod' p (prodL ds)]
      simp only [dftAxesSize]; push_cast; ring

end DFTAxes

end Scico.LinOps
