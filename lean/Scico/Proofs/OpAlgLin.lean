/-
  Soundness of the generic `LinearOperator` algebra (closures built by `LinearOperator.__add__`,
  `__mul__`, `__truediv__`, `ComposedLinearOperator`, `.T`, `.H`, `.conj()`, `.gram_op`) and of the
  automatically created adjoint.
-/
import Scico.Proofs.OpAlgSound

namespace Scico.OpAlg
open Scico.DType
attribute [local instance] starConj
set_option linter.unusedSectionVars false

section
variable {K : Type} [Field K] [StarRing K] [HasRe K]

theorem autoAdjWith_size (n m : Nat) (inC outC : Bool) (M : Mc K) (y : Vc K) :
    (autoAdjWith n m inC outC M y).size = n := by
  unfold autoAdjWith
  split
  · rfl
  · split <;> rfl

/-- closes the size obligations of `Sound` -/
macro "szt" : tactic =>
  `(tactic| (intro x; first
      | rfl
      | exact autoAdjWith_size _ _ _ _ _ _
      | (simp only [mkLin_eval, mkLin_adj, mkLin_m, mkLin_n]; first | rfl | exact autoAdjWith_size _ _ _ _ _ _)))

/-! ### dtype facts -/

theorem rt_complex_left {a b : DT} (h : a.isComplex = true) : (resultType a b).isComplex = true := by
  revert h; cases a <;> cases b <;> decide

theorem rt_complex_right {a b : DT} (h : b.isComplex = true) : (resultType a b).isComplex = true := by
  revert h; cases a <;> cases b <;> decide

theorem rtS_complex {a : DT} (s : SK) (h : a.isComplex = true) : (resultTypeS a s).isComplex = true := by
  cases s with
  | strong d => exact rt_complex_left h
  | wInt => exact h
  | wFloat => exact h
  | wComplex => revert h; cases a <;> decide

/-- modes combine -/
theorem Mode.both {a b : Obj K} (ha : Mode a) (hb : Mode b) : RealK K ∨ (DtC a ∧ DtC b) := by
  rcases ha with h | h
  · exact Or.inl h
  · rcases hb with h' | h'
    · exact Or.inl h'
    · exact Or.inr ⟨h, h'⟩

theorem Mode.of {o : Obj K} (h : RealK K ∨ DtC o) : Mode o := h

/-! ### linear algebra of the closures -/

theorem mulVec_pm (sub : Bool) (n : Nat) (D E : Mx K) (x : V K) (i : Nat) :
    mulVec n (fun i j => pm sub (D i j) (E i j)) x i = pm sub (mulVec n D x i) (mulVec n E x i) := by
  unfold mulVec
  cases sub
  · simp only [pm, Bool.false_eq_true, if_false]
    rw [← sumTo_add]; apply sumTo_congr; intro j _; ring
  · simp only [pm, if_true]
    rw [← sumTo_sub]; apply sumTo_congr; intro j _; ring

theorem mulVecH_pm (sub : Bool) (m : Nat) (D E : Mx K) (y : V K) (j : Nat) :
    mulVecH m (fun i j => pm sub (D i j) (E i j)) y j = pm sub (mulVecH m D y j) (mulVecH m E y j) := by
  unfold mulVecH
  cases sub
  · simp only [pm, Bool.false_eq_true, if_false, conj_eq_star, star_add]
    rw [← sumTo_add]; apply sumTo_congr; intro i _; ring
  · simp only [pm, if_true, conj_eq_star, star_sub]
    rw [← sumTo_sub]; apply sumTo_congr; intro i _; ring

theorem pm_zero (sub : Bool) : pm sub (0 : K) 0 = 0 := by cases sub <;> simp [pm]

/-- `LinearOperator.__add__ / __sub__` -/
theorem linAddSub_sound (sub : Bool) {a b : Obj K} {Da Db : Mx K}
    (ha : Sound a Da) (hb : Sound b Db) (hs : a.sameShape b = true) :
    Sound (linAddSub sub a b) (fun i j => pm sub (Da i j) (Db i j)) := by
  have hn := sameShape_n hs
  have hm := sameShape_m hs
  exact
  { lin := by simp [linAddSub]
    evSz := by szt
    adSz := by szt
    pl := by simp [PayloadIs, linAddSub, mkLin]
    ev := by
      intro x i
      simp only [linAddSub, mkLin_eval, vzip_get, mkLin_m, mkLin_n]
      rw [ha.ev x i, hb.ev x i, ← hm, ← hn]
      by_cases hi : i < a.m
      · simp only [hi, if_true]
        exact (mulVec_pm sub _ _ _ _ _).symm
      · simp [hi, pm_zero]
    ad := by
      intro y j
      simp only [linAddSub, mkLin_adj, vzip_get, mkLin_m, mkLin_n]
      rw [ha.ad y j, hb.ad y j, ← hm, ← hn]
      by_cases hj : j < a.n
      · simp only [hj, if_true]
        exact (mulVecH_pm sub _ _ _ _ _).symm
      · simp [hj, pm_zero]
    mode := by
      rcases Mode.both ha.mode hb.mode with h | ⟨h1, h2⟩
      · exact Or.inl h
      · exact Or.inr ⟨h1.inC, rt_complex_left h1.outC, h1.inC⟩ }

theorem mulVec_smul (c : K) (n : Nat) (D : Mx K) (x : V K) (i : Nat) :
    mulVec n (fun i j => c * D i j) x i = c * mulVec n D x i := by
  unfold mulVec
  rw [← sumTo_mul_left]; apply sumTo_congr; intro j _; ring

theorem mulVecH_smul (c : K) (m : Nat) (D : Mx K) (y : V K) (j : Nat) :
    mulVecH m (fun i j => c * D i j) y j = star c * mulVecH m D y j := by
  unfold mulVecH
  rw [← sumTo_mul_left]; apply sumTo_congr; intro i _
  simp only [conj_eq_star, star_mul']; ring

theorem mulVec_sdiv (c : K) (n : Nat) (D : Mx K) (x : V K) (i : Nat) :
    mulVec n (fun i j => D i j / c) x i = mulVec n D x i / c := by
  unfold mulVec
  rw [← sumTo_div]; apply sumTo_congr; intro j _; ring

theorem mulVecH_sdiv (c : K) (m : Nat) (D : Mx K) (y : V K) (j : Nat) :
    mulVecH m (fun i j => D i j / c) y j = mulVecH m D y j / star c := by
  unfold mulVecH
  rw [← sumTo_div]; apply sumTo_congr; intro i _
  simp only [conj_eq_star, star_div₀]; ring

/-- `LinearOperator.__mul__ / __rmul__` -/
theorem linMul_sound {a o : Obj K} {Da : Mx K} (c : Scal K) (ha : Sound a Da)
    (h : linMul a c = .ok o) : Sound o (fun i j => c.val * Da i j) := by
  unfold linMul at h
  split at h
  · injection h with h; subst h
    exact
    { lin := by simp
      evSz := by szt
      adSz := fun y => ha.adSz _
      pl := by simp [PayloadIs, mkLin]
      ev := by
        intro x i
        simp only [mkLin_eval, vmap_get, mkLin_m, mkLin_n]
        rw [ha.ev x i]
        by_cases hi : i < a.m
        · simp only [hi, if_true]; exact (mulVec_smul _ _ _ _ _).symm
        · simp [hi]
      ad := by
        intro y j
        simp only [mkLin_adj, mkLin_m, mkLin_n]
        rw [ha.ad _ j]
        by_cases hj : j < a.n
        · simp only [hj, if_true]
          rw [mulVecH_smul]
          have hv : ∀ i, i < a.m → (toOutSpace a (vmap a.m (fun t => conj c.val * t) y)).get i = star c.val * y.get i := by
            intro i hi
            unfold toOutSpace
            split
            · simp [hi, conj_eq_star]
            · rename_i hc
              have hR : RealK K := by
                rcases ha.mode with h | h
                · exact h
                · exact absurd h.outC hc
              simp [hi, conj_eq_star, (hR _).2]
          unfold mulVecH
          rw [← sumTo_mul_left]
          apply sumTo_congr; intro i hi
          rw [hv i hi]; ring
        · simp [hj]
      mode := by
        rcases ha.mode with h | h
        · exact Or.inl h
        · exact Or.inr ⟨h.inC, rtS_complex _ h.outC, h.inC⟩ }
  · cases h

/-- `LinearOperator.__truediv__` -/
theorem linDiv_sound {a o : Obj K} {Da : Mx K} (c : Scal K) (ha : Sound a Da)
    (h : linDiv a c = .ok o) : Sound o (fun i j => Da i j / c.val) := by
  unfold linDiv at h
  split at h
  · injection h with h; subst h
    exact
    { lin := by simp
      evSz := by szt
      adSz := fun y => ha.adSz _
      pl := by simp [PayloadIs, mkLin]
      ev := by
        intro x i
        simp only [mkLin_eval, vmap_get, mkLin_m, mkLin_n]
        rw [ha.ev x i]
        by_cases hi : i < a.m
        · simp only [hi, if_true]; exact (mulVec_sdiv _ _ _ _ _).symm
        · simp [hi]
      ad := by
        intro y j
        simp only [mkLin_adj, mkLin_m, mkLin_n]
        rw [ha.ad _ j]
        by_cases hj : j < a.n
        · simp only [hj, if_true]
          rw [mulVecH_sdiv]
          have hv : ∀ i, i < a.m → (toOutSpace a (vmap a.m (fun t => t / conj c.val) y)).get i = y.get i / star c.val := by
            intro i hi
            unfold toOutSpace
            split
            · simp [hi, conj_eq_star]
            · rename_i hc
              have hR : RealK K := by
                rcases ha.mode with h | h
                · exact h
                · exact absurd h.outC hc
              simp [hi, conj_eq_star, (hR _).2]
          unfold mulVecH
          rw [← sumTo_div]
          apply sumTo_congr; intro i hi
          rw [hv i hi]; ring
        · simp [hj]
      mode := by
        rcases ha.mode with h | h
        · exact Or.inl h
        · exact Or.inr ⟨h.inC, rtS_complex _ h.outC, h.inC⟩ }
  · cases h


/-! ### composition, transposes, conjugate, Gram operator -/

theorem mulVecH_eq_mulVec_matH (m : Nat) (D : Mx K) (y : V K) (j : Nat) :
    mulVecH m D y j = mulVec m (matH D) y j := rfl

/-- `ComposedLinearOperator(A, B)` -/
theorem linComp_sound {a b o : Obj K} {Da Db : Mx K} (ha : Sound a Da) (hb : Sound b Db)
    (h : linComp a b = .ok o) : Sound o (matMul a.n Da Db) := by
  unfold linComp at h
  split at h
  · cases h
  · split at h
    · cases h
    · rename_i hsh _
      have hk : a.n = b.m := by
        have : a.md.inShape = b.md.outShape := by simpa using hsh
        simp only [Obj.n, Obj.m, this]
      injection h with h; subst h
      exact
      { lin := by simp
        evSz := fun x => ha.evSz _
        adSz := fun y => hb.adSz _
        pl := by simp [PayloadIs, mkLin]
        ev := by
          intro x i
          simp only [mkLin_eval, mkLin_m, mkLin_n]
          rw [ha.ev (b.eval x) i]
          by_cases hi : i < a.m
          · simp only [hi, if_true]
            rw [← mulVec_mulVec]
            apply mulVec_congr_right
            intro j hj
            rw [hb.ev x j]
            simp [hk ▸ hj]
          · simp [hi]
        ad := by
          intro z j
          simp only [mkLin_adj, mkLin_m, mkLin_n]
          rw [hb.ad (a.adj z) j]
          by_cases hj : j < b.n
          · simp only [hj, if_true]
            rw [← mulVecH_mulVecH, ← hk]
            apply mulVecH_congr_right
            intro l hl
            rw [ha.ad z l]
            simp [hl]
          · simp [hj]
        mode := by
          rcases Mode.both ha.mode hb.mode with h | ⟨h1, h2⟩
          · exact Or.inl h
          · exact Or.inr ⟨h2.inC, h1.outC, h2.inC⟩ }

theorem conjV_get (k : Nat) (v : Vc K) (i : Nat) :
    (conjV k v).get i = if i < k then star (v.get i) else 0 := rfl

/-- `LinearOperator.H` -/
theorem linH_sound {a : Obj K} {Da : Mx K} (ha : Sound a Da) : Sound (linH a) (matH Da) :=
  { lin := by simp [linH]
    evSz := fun x => ha.adSz _
    adSz := fun y => ha.evSz _
    pl := by simp [PayloadIs, linH, mkLin]
    ev := by
      intro x j
      simp only [linH, mkLin_eval, mkLin_m, mkLin_n]
      rw [ha.ad x j]
      rfl
    ad := by
      intro y i
      simp only [linH, mkLin_adj, mkLin_m, mkLin_n]
      rw [ha.ev y i]
      by_cases hi : i < a.m
      · simp only [hi, if_true]
        unfold mulVec mulVecH matH
        apply sumTo_congr; intro j _
        simp [conj_eq_star]
      · simp [hi]
    mode := by
      rcases ha.mode with h | h
      · exact Or.inl h
      · exact Or.inr ⟨h.outC, h.inC, h.outC⟩ }

/-- `LinearOperator.conj` -/
theorem linConj_sound {a : Obj K} {Da : Mx K} (ha : Sound a Da) : Sound (linConj a) (matConj Da) :=
  { lin := by simp [linConj]
    evSz := by szt
    adSz := by szt
    pl := by simp [PayloadIs, linConj, mkLin]
    ev := by
      intro x i
      simp only [linConj, mkLin_eval, mkLin_m, mkLin_n, conjV_get]
      by_cases hi : i < a.m
      · simp only [hi, if_true]
        rw [ha.ev _ i]
        simp only [hi, if_true]
        unfold mulVec matConj
        rw [star_sumTo]
        apply sumTo_congr; intro j hj
        simp [conjV_get, hj, conj_eq_star]
      · simp [hi]
    ad := by
      intro y j
      simp only [linConj, mkLin_adj, mkLin_m, mkLin_n, conjV_get]
      by_cases hj : j < a.n
      · simp only [hj, if_true]
        rw [ha.ad _ j]
        simp only [hj, if_true]
        unfold mulVecH matConj
        rw [star_sumTo]
        apply sumTo_congr; intro i hi
        simp [conjV_get, hi, conj_eq_star]
      · simp [hj]
    mode := by
      rcases ha.mode with h | h
      · exact Or.inl h
      · exact Or.inr ⟨h.inC, h.outC, h.inC⟩ }

/-- `LinearOperator.T` (both dtype branches) -/
theorem linT_sound {a : Obj K} {Da : Mx K} (ha : Sound a Da) : Sound (linT a) (matT Da) := by
  unfold linT
  split
  · rename_i hc
    exact
    { lin := by simp
      evSz := by szt
      adSz := by szt
      pl := by simp [PayloadIs, mkLin]
      ev := by
        intro x j
        simp only [mkLin_eval, mkLin_m, mkLin_n, conjV_get]
        by_cases hj : j < a.n
        · simp only [hj, if_true]
          rw [ha.ad _ j]
          simp only [hj, if_true]
          unfold mulVecH mulVec matT
          rw [star_sumTo]
          apply sumTo_congr; intro i hi
          simp [conjV_get, hi, conj_eq_star]
        · simp [hj]
      ad := by
        intro y i
        simp only [mkLin_adj, mkLin_m, mkLin_n, conjV_get]
        by_cases hi : i < a.m
        · simp only [hi, if_true]
          rw [ha.ev _ i]
          simp only [hi, if_true]
          unfold mulVecH mulVec matT
          rw [star_sumTo]
          apply sumTo_congr; intro j hj
          simp [conjV_get, hj, conj_eq_star]
        · simp [hi]
      mode := by
        rcases ha.mode with h | h
        · exact Or.inl h
        · exact Or.inr ⟨h.outC, h.inC, h.outC⟩ }
  · rename_i hc
    have hR : RealK K := by
      rcases ha.mode with h | h
      · exact h
      · exact absurd h.inC hc
    exact
    { lin := by simp
      evSz := fun x => ha.adSz _
      adSz := fun y => ha.evSz _
      pl := by simp [PayloadIs, mkLin]
      ev := by
        intro x j
        simp only [mkLin_eval, mkLin_m, mkLin_n]
        rw [ha.ad x j]
        by_cases hj : j < a.n
        · simp only [hj, if_true]
          unfold mulVecH mulVec matT
          apply sumTo_congr; intro i _
          simp [conj_eq_star, (hR _).1]
        · simp [hj]
      ad := by
        intro y i
        simp only [mkLin_adj, mkLin_m, mkLin_n]
        rw [ha.ev y i]
        by_cases hi : i < a.m
        · simp only [hi, if_true]
          unfold mulVecH mulVec matT
          apply sumTo_congr; intro j _
          simp [conj_eq_star, (hR _).1]
        · simp [hi]
      mode := Or.inl hR }

theorem gram_hermitian (m : Nat) (D : Mx K) (i j : Nat) :
    star (matMul m (matH D) D i j) = matMul m (matH D) D j i := by
  unfold matMul matH
  rw [star_sumTo]
  apply sumTo_congr; intro l _
  simp only [conj_eq_star, star_mul', star_star]
  ring

/-- `LinearOperator.gram_op` -/
theorem linGram_sound (cfg : Cfg) {a : Obj K} {Da : Mx K} (ha : Sound a Da) :
    Sound (linGram cfg a) (matMul a.m (matH Da) Da) := by
  have key : ∀ (x : Vc K) (j : Nat), (a.adj (a.eval x)).get j
      = if j < a.n then mulVec a.n (matMul a.m (matH Da) Da) x.get j else 0 := by
    intro x j
    rw [ha.ad _ j]
    by_cases hj : j < a.n
    · simp only [hj, if_true]
      rw [mulVecH_eq_mulVec_matH, ← mulVec_mulVec]
      apply mulVec_congr_right
      intro i hi
      rw [ha.ev x i]; simp [hi]
    · simp [hj]
  exact
  { lin := by simp [linGram]
    evSz := fun x => ha.adSz _
    adSz := fun y => ha.adSz _
    pl := by simp [PayloadIs, linGram, mkLin]
    ev := by
      intro x j
      simp only [linGram, mkLin_eval, mkLin_m, mkLin_n]
      exact key x j
    ad := by
      intro y j
      simp only [linGram, mkLin_adj, mkLin_m, mkLin_n]
      rw [key y j]
      by_cases hj : j < a.n
      · simp only [hj, if_true]
        unfold mulVec mulVecH
        apply sumTo_congr; intro i _
        rw [conj_eq_star, gram_hermitian]
      · simp [hj]
    mode := by
      rcases ha.mode with h | h
      · exact Or.inl h
      · refine Or.inr ⟨h.inC, ?_, h.inC⟩
        simp only [linGram, mkLin]
        split
        · exact h.inC
        · exact h.outC }

/-! ### the automatically created adjoint (`_set_adjoint`, contract of `jax.linear_transpose`) -/

theorem autoMat_get (n m : Nat) (eval : Vc K → Vc K) (D : Mx K)
    (hev : ∀ (x : Vc K) (i : Nat), (eval x).get i = if i < m then mulVec n D x.get i else 0)
    (i j : Nat) : (autoMat n m eval).get i j = if i < m ∧ j < n then D i j else 0 := by
  simp only [autoMat, truncM_get]
  by_cases h : i < m ∧ j < n
  · simp only [h, and_self, if_true]
    rw [hev]
    simp only [h.1, if_true, basisC]
    rw [mulVec_basis]; simp [h.2]
  · simp [h]

theorem autoAdj_adjIs (n m : Nat) (inDt : DT) (outC : Bool) (eval : Vc K → Vc K) (D : Mx K)
    (hev : ∀ (x : Vc K) (i : Nat), (eval x).get i = if i < m then mulVec n D x.get i else 0)
    (hmode : RealK K ∨ inDt.isComplex = true) (y : Vc K) (j : Nat) :
    (autoAdjWith n m inDt.isComplex outC (autoMat n m eval) y).get j
      = if j < n then mulVecH m D y.get j else 0 := by
  have hM := autoMat_get n m eval D hev
  have hH : ∀ j, j < n → mulVecH m (autoMat n m eval).get (vtrunc m y).get j = mulVecH m D y.get j := by
    intro j hj
    unfold mulVecH
    apply sumTo_congr; intro i hi
    rw [hM]; simp [hi, hj]
  unfold autoAdjWith
  by_cases hj : j < n
  · split
    · simp [hj, hH j hj]
    · rename_i hc
      have hR : RealK K := by
        rcases hmode with h | h
        · exact h
        · exact absurd h hc
      split
      · simp [hj, hH j hj, (hR _).2]
      · simp only [vmulVecT_get, hj, if_true]
        rw [← hH j hj]
        unfold mulVecT mulVecH
        apply sumTo_congr; intro i _
        simp [conj_eq_star, (hR _).1]
  · split
    · simp [hj]
    · split <;> simp [hj]

end
end Scico.OpAlg
