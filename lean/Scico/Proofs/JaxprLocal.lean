/-
  Local form of the soundness theorem (C06, audit round 2).

  `Interp.Sound` asks the class facts of *every* primitive id.  What a given program needs is less: the class fact
  of the primitive instances `(cls, prim)` that occur in its own equations (`Interp.SoundAt`).  This is the form in
  which the trusted table is validated at run time (harness/jaxpr_table.py tests the class fact of every primitive
  instance of every translated program): number the equations of a program `0, 1, 2, …` (`Prog.relabel`; the verdict
  does not read the `prim` field, `check_relabel`), let `den cls k` be the `k`-th equation's JAX primitive with its
  static parameters - then the hypotheses of `run_*_local` are exactly one tested statement per equation.
-/
import Scico.Proofs.Jaxpr

set_option linter.unusedSectionVars false

namespace Scico.Jaxpr

section
variable (R K : Type) {V : Type} [CommSemiring R] [CommSemiring K] [StarRing K] [Algebra R K]
  [AddCommMonoid V] [Module R V] [Module K V] [IsScalarTower R K V]

/-- the class fact of ONE primitive instance `(cls, prim)` (the corresponding fields of `Interp.Sound`) -/
def Interp.SoundAt (I : Interp V) : PClass → Nat → Prop
  | .lit true, p => ∀ ps, I.den (.lit true) p ps [] = 0
  | .lit false, _ => True
  | .linAll, p =>
    (∀ ps xs ys, xs.length = ys.length →
      I.den .linAll p ps (ladd xs ys) = I.den .linAll p ps xs + I.den .linAll p ps ys) ∧
    (∀ ps (c : K) xs, I.den .linAll p ps (lsmul c xs) = c • I.den .linAll p ps xs)
  | .bilinear, p =>
    (∀ ps u u' v, I.den .bilinear p ps [u + u', v] = I.den .bilinear p ps [u, v] + I.den .bilinear p ps [u', v]) ∧
    (∀ ps (c : K) u v, I.den .bilinear p ps [c • u, v] = c • I.den .bilinear p ps [u, v]) ∧
    (∀ ps u v v', I.den .bilinear p ps [u, v + v'] = I.den .bilinear p ps [u, v] + I.den .bilinear p ps [u, v']) ∧
    (∀ ps (c : K) u v, I.den .bilinear p ps [u, c • v] = c • I.den .bilinear p ps [u, v])
  | .divLike, p =>
    (∀ ps u u' d, I.den .divLike p ps [u + u', d] = I.den .divLike p ps [u, d] + I.den .divLike p ps [u', d]) ∧
    (∀ ps (c : K) u d, I.den .divLike p ps [c • u, d] = c • I.den .divLike p ps [u, d])
  | .realPart, p =>
    (∀ ps u u', I.den .realPart p ps [u + u'] = I.den .realPart p ps [u] + I.den .realPart p ps [u']) ∧
    (∀ ps (r : R) u, I.den .realPart p ps [r • u] = r • I.den .realPart p ps [u])
  | .conj, p =>
    (∀ ps u u', I.den .conj p ps [u + u'] = I.den .conj p ps [u] + I.den .conj p ps [u']) ∧
    (∀ ps (c : K) u, I.den .conj p ps [c • u] = star c • I.den .conj p ps [u])
  | .nonlin, _ => True

/-- a globally sound interpretation is sound at every instance -/
theorem Interp.Sound.at {I : Interp V} (h : I.Sound R K) (c : PClass) (p : Nat) : I.SoundAt R K c p := by
  cases c with
  | lit z => cases z <;> simp [Interp.SoundAt]; exact h.lit_zero p
  | linAll => exact ⟨h.lin_add p, h.lin_smul p⟩
  | bilinear => exact ⟨h.bil_add_left p, h.bil_smul_left p, h.bil_add_right p, h.bil_smul_right p⟩
  | divLike => exact ⟨h.div_add p, h.div_smul p⟩
  | realPart => exact ⟨h.re_add p, h.re_smul p⟩
  | conj => exact ⟨h.conj_add p, h.conj_smul p⟩
  | nonlin => trivial

end

section
variable {V : Type} [Zero V]

/-- does the instance `(c, q)` occur in the equation list? -/
def occurs (es : List Eqn) (c : PClass) (q : Nat) : Bool := es.any fun e => decide (e.cls = c ∧ e.prim = q)

theorem occurs_of_mem {es : List Eqn} {e : Eqn} (h : e ∈ es) : occurs es e.cls e.prim = true :=
  List.any_eq_true.mpr ⟨e, h, by simp⟩

/-- `I` cut down to the instances occurring in `es` (everything else denotes 0) -/
def Interp.restrict (I : Interp V) (es : List Eqn) : Interp V :=
  ⟨fun c q ps xs => if occurs es c q then I.den c q ps xs else 0⟩

theorem evalEqns_restrict (I : Interp V) (es : List Eqn) (es' : List Eqn) (hsub : ∀ e ∈ es', e ∈ es) (env : List V) :
    evalEqns (I.restrict es) es' env = evalEqns I es' env := by
  induction es' generalizing env with
  | nil => rfl
  | cons e es' ih =>
    have h1 : stepVal (I.restrict es) env e = stepVal I env e := by
      simp [stepVal, Interp.restrict, occurs_of_mem (hsub e (List.mem_cons_self ..))]
    simp only [evalEqns, h1]
    exact ih (fun e' he' => hsub e' (List.mem_cons_of_mem _ he')) _

theorem run_restrict (I : Interp V) (p : Prog) : run (I.restrict p.eqns) p = run I p := by
  funext x j
  simp only [run, finalEnv, evalEqns_restrict I p.eqns p.eqns (fun _ h => h)]

end

section
variable {R K : Type} {V : Type} [CommSemiring R] [CommSemiring K] [StarRing K] [Algebra R K]
  [AddCommMonoid V] [Module R V] [Module K V] [IsScalarTower R K V]

theorem occurs_elim {es : List Eqn} {c : PClass} {q : Nat} {I : Interp V}
    (hat : ∀ e ∈ es, I.SoundAt R K e.cls e.prim) (h : occurs es c q = true) : I.SoundAt R K c q := by
  obtain ⟨e, he, hd⟩ := List.any_eq_true.mp h
  obtain ⟨rfl, rfl⟩ := of_decide_eq_true hd
  exact hat e he

/-- the restricted interpretation is globally sound as soon as `I` is sound at the instances of `es` -/
theorem Interp.restrict_sound {I : Interp V} (es : List Eqn)
    (hstar : ∀ r : R, star (algebraMap R K r) = algebraMap R K r)
    (hat : ∀ e ∈ es, I.SoundAt R K e.cls e.prim) : (I.restrict es).Sound R K where
  star_real := hstar
  lit_zero p ps := by
    by_cases h : occurs es (.lit true) p = true
    · simpa [Interp.restrict, h] using (occurs_elim hat h) ps
    · simp [Interp.restrict, h]
  lin_add p ps xs ys hl := by
    by_cases h : occurs es .linAll p = true
    · simpa [Interp.restrict, h] using (occurs_elim hat h).1 ps xs ys hl
    · simp [Interp.restrict, h]
  lin_smul p ps c xs := by
    by_cases h : occurs es .linAll p = true
    · simpa [Interp.restrict, h] using (occurs_elim hat h).2 ps c xs
    · simp [Interp.restrict, h]
  bil_add_left p ps u u' v := by
    by_cases h : occurs es .bilinear p = true
    · simpa [Interp.restrict, h] using (occurs_elim hat h).1 ps u u' v
    · simp [Interp.restrict, h]
  bil_smul_left p ps c u v := by
    by_cases h : occurs es .bilinear p = true
    · simpa [Interp.restrict, h] using (occurs_elim hat h).2.1 ps c u v
    · simp [Interp.restrict, h]
  bil_add_right p ps u v v' := by
    by_cases h : occurs es .bilinear p = true
    · simpa [Interp.restrict, h] using (occurs_elim hat h).2.2.1 ps u v v'
    · simp [Interp.restrict, h]
  bil_smul_right p ps c u v := by
    by_cases h : occurs es .bilinear p = true
    · simpa [Interp.restrict, h] using (occurs_elim hat h).2.2.2 ps c u v
    · simp [Interp.restrict, h]
  div_add p ps u u' d := by
    by_cases h : occurs es .divLike p = true
    · simpa [Interp.restrict, h] using (occurs_elim hat h).1 ps u u' d
    · simp [Interp.restrict, h]
  div_smul p ps c u d := by
    by_cases h : occurs es .divLike p = true
    · simpa [Interp.restrict, h] using (occurs_elim hat h).2 ps c u d
    · simp [Interp.restrict, h]
  re_add p ps u u' := by
    by_cases h : occurs es .realPart p = true
    · simpa [Interp.restrict, h] using (occurs_elim hat h).1 ps u u'
    · simp [Interp.restrict, h]
  re_smul p ps r u := by
    by_cases h : occurs es .realPart p = true
    · simpa [Interp.restrict, h] using (occurs_elim hat h).2 ps r u
    · simp [Interp.restrict, h]
  conj_add p ps u u' := by
    by_cases h : occurs es .conj p = true
    · simpa [Interp.restrict, h] using (occurs_elim hat h).1 ps u u'
    · simp [Interp.restrict, h]
  conj_smul p ps c u := by
    by_cases h : occurs es .conj p = true
    · simpa [Interp.restrict, h] using (occurs_elim hat h).2 ps c u
    · simp [Interp.restrict, h]

variable {I : Interp V}

theorem run_linC_local (hstar : ∀ r : R, star (algebraMap R K r) = algebraMap R K r) (p : Prog)
    (hat : ∀ e ∈ p.eqns, I.SoundAt R K e.cls e.prim) (h : check p = .linC) : IsLinearMap K (run I p) := by
  rw [← run_restrict]; exact run_linC (R := R) (Interp.restrict_sound p.eqns hstar hat) p h

theorem run_linR_local (hstar : ∀ r : R, star (algebraMap R K r) = algebraMap R K r) (p : Prog)
    (hat : ∀ e ∈ p.eqns, I.SoundAt R K e.cls e.prim) (h : check p = .linR) : IsLinearMap R (run I p) := by
  rw [← run_restrict]; exact run_linR (K := K) (Interp.restrict_sound p.eqns hstar hat) p h

theorem run_antiC_local (hstar : ∀ r : R, star (algebraMap R K r) = algebraMap R K r) (p : Prog)
    (hat : ∀ e ∈ p.eqns, I.SoundAt R K e.cls e.prim) (h : check p = .antiC) :
    SemiLin (fun c : K => star c) (run I p) := by
  rw [← run_restrict]; exact run_antiC' (R := R) (Interp.restrict_sound p.eqns hstar hat) p h

end

/-! ### the verdict does not read the `prim` field -/

/-- give every equation its own primitive id: its position -/
def relabelFrom : Nat → List Eqn → List Eqn
  | _, [] => []
  | k, e :: es => { e with prim := k } :: relabelFrom (k + 1) es

def Prog.relabel (p : Prog) : Prog := { p with eqns := relabelFrom 0 p.eqns }

theorem stepTag_prim (tags : List Tag) (e : Eqn) (k : Nat) : stepTag tags { e with prim := k } = stepTag tags e := rfl

theorem checkEqns_relabel (es : List Eqn) (k : Nat) (tags : List Tag) :
    checkEqns (relabelFrom k es) tags = checkEqns es tags := by
  induction es generalizing k tags with
  | nil => rfl
  | cons e es ih => simp only [relabelFrom, checkEqns, stepTag_prim, ih]

theorem check_relabel (p : Prog) : check p.relabel = check p := by
  simp [check, progTags, Prog.relabel, checkEqns_relabel]

/-- after relabelling, the `k`-th equation is the only one with primitive id `k` -/
theorem relabelFrom_prim (es : List Eqn) (k i : Nat) (hi : i < (relabelFrom k es).length) :
    ((relabelFrom k es)[i]).prim = k + i := by
  induction es generalizing k i with
  | nil => simp [relabelFrom] at hi
  | cons e es ih =>
    cases i with
    | zero => simp [relabelFrom]
    | succ i =>
      simp only [relabelFrom, List.getElem_cons_succ]
      rw [ih (k + 1) i (by simpa [relabelFrom] using hi)]
      omega

end Scico.Jaxpr
