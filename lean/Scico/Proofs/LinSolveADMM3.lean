/-
  C10 round 2: `MatrixSubproblemSolver` end to end — what `solve` returns satisfies the x-step normal equations in matrix
  form, on the direct and on the Woodbury path (composition of `matrixSubATAD_spec` with `atad_solve_spec`).
-/
import Scico.Proofs.LinSolveADMM

set_option linter.unusedSectionVars false

namespace Scico.LinSolve
open Matrix

variable {K : Type} [Field K] [HasConj K] [HasIsZero K] {m n : Nat}

/-- **`MatrixSubproblemSolver.solve`**: for the solver object `s` built by `internal_init` (model `matrixSubATAD`), with the
    factorisation contract for the matrix `s` factorises and, on the Woodbury path, a 1-D `D = Σ ρ_i |c_i|²` without zero:
    `(Aᴴ (2αW) A + Σ ρ_i C_iᴴ C_i) x = rhs` for `x = s.solve rhs`. -/
theorem matrixSub_solve_spec (hz : LawfulIsZero K) (scale : K) (A : Mat K m n) (W : Vec K m) (terms : List (K × COp K n))
    (s : ATAD K m n) (hs : matrixSubATAD scale A W terms = some s)
    (fsW : Vec K m → Vec K m) (fsD : Vec K n → Vec K n) (rhs : Vec K n)
    (hfsW : ∀ d, s.D = .diag d → ∀ c, LinSolve.mulVec (gWoodbury s.A d s.W) (fsW c) = c)
    (hfsD : ∀ c, LinSolve.mulVec (gDirect s.A s.D s.W) (fsD c) = c)
    (hnz : ∀ d, s.D = .diag d → s.useWoodbury = true → ∀ k, d k ≠ 0) :
    (Matrix.of (conjT A) * Matrix.diagonal (fun i => 2 * scale * W i) * Matrix.of A
        + Matrix.of (fun i j => (terms.map fun t => t.1 * t.2.gramD.entry i j).sum)) *ᵥ (s.solve fsW fsD rhs) = rhs := by
  have hne : terms ≠ [] := by
    rintro rfl
    simp [matrixSubATAD, reduceAdd] at hs
  obtain ⟨s', hs', hA, hW, hD, _⟩ := matrixSubATAD_spec scale A W terms hne
  rw [hs] at hs'
  cases hs'
  have := atad_solve_spec hz s fsW fsD rhs hfsW hfsD hnz
  unfold specLhs at this
  have eW : s.W = fun i => 2 * scale * W i := funext hW
  have eD : s.D.entry = fun i j => (terms.map fun t => t.1 * t.2.gramD.entry i j).sum := by
    funext i j; exact hD i j
  rw [hA, eW, eD] at this
  exact this

end Scico.LinSolve

/-! ## `LinearSubproblemSolver` end to end: assembly + conjugate gradient -/

namespace Scico.LinSolve
open RCLike

section LinearE2E
variable {𝕜 V U Y : Type} [RCLike 𝕜] [NormedAddCommGroup V] [InnerProductSpace 𝕜 V] [AddCommGroup U] [Module 𝕜 U]
  [AddCommGroup Y] [Module 𝕜 Y]

/-- a splitting term whose operator and adjoint are linear maps -/
structure LTerm (𝕜 V U : Type) [RCLike 𝕜] [NormedAddCommGroup V] [InnerProductSpace 𝕜 V] [AddCommGroup U] [Module 𝕜 U] where
  rho : 𝕜
  C : V →ₗ[𝕜] U
  CH : U →ₗ[𝕜] V
  z : U
  u : U

def LTerm.toTerm (t : LTerm 𝕜 V U) : Term 𝕜 V U := ⟨t.rho, ⟨⇑t.C, ⇑t.CH⟩, t.z, t.u⟩

/-- a weighted squared-l2 loss whose operator, adjoint and weighting are linear maps -/
structure LSqL2 (𝕜 V Y : Type) [RCLike 𝕜] [NormedAddCommGroup V] [InnerProductSpace 𝕜 V] [AddCommGroup Y] [Module 𝕜 Y] where
  scale : 𝕜
  A : V →ₗ[𝕜] Y
  AH : Y →ₗ[𝕜] V
  W : Y →ₗ[𝕜] Y
  y : Y

def LSqL2.toSqL2 (f : LSqL2 𝕜 V Y) : SqL2 𝕜 V Y := ⟨f.scale, ⟨⇑f.A, ⇑f.AH⟩, ⇑f.W, f.y⟩

/-- the documented left-hand operator as a linear map -/
noncomputable def lhsLin (f : Option (LSqL2 𝕜 V Y)) (terms : List (LTerm 𝕜 V U)) : V →ₗ[𝕜] V :=
  (terms.map fun t => t.rho • (t.CH.comp t.C)).sum +
    (match f with | none => 0 | some f => (2 * f.scale) • (f.AH.comp (f.W.comp f.A)))

theorem list_sum_apply (l : List (V →ₗ[𝕜] V)) (x : V) : (l.sum) x = (l.map fun g => g x).sum := by
  induction l with
  | nil => simp
  | cons g gs ih => simp [ih]

theorem lhsLin_apply (f : Option (LSqL2 𝕜 V Y)) (terms : List (LTerm 𝕜 V U)) (x : V) :
    lhsLin f terms x = lhsSpec (f.map LSqL2.toSqL2) (terms.map LTerm.toTerm) x := by
  unfold lhsLin lhsSpec
  rw [LinearMap.add_apply, list_sum_apply]
  congr 1
  · simp [List.map_map, Function.comp_def, LTerm.toTerm]
  · cases f with
    | none => rfl
    | some f => simp [LSqL2.toSqL2]

/-- **`LinearSubproblemSolver.solve` with `scico.solver.cg`, no preconditioner**: the `x` it returns satisfies, for the
    *documented* operator and right-hand side, `‖rhs − lhs x‖ ≤ max(tol ‖rhs‖, atol)` unless `maxiter` bodies were used —
    and `info["rel_res"]·‖rhs‖` is that residual norm. -/
theorem linearSolver_spec (f : Option (LSqL2 𝕜 V Y)) (terms : List (LTerm 𝕜 V U)) (hne : terms ≠ []) (x0 : V) (tol atol : ℝ)
    (maxiter : Nat) :
    ∃ lhs, linearLhs (f.map LSqL2.toSqL2) (terms.map LTerm.toTerm) = some lhs ∧
      let rhs := linearRhs 0 (f.map LSqL2.toSqL2) (terms.map LTerm.toTerm)
      let out := cg (rcOps 𝕜 V) lhs (fun v => v) rhs x0 tol atol maxiter
      let res := rhsSpec (f.map LSqL2.toSqL2) (terms.map LTerm.toTerm) - lhsSpec (f.map LSqL2.toSqL2) (terms.map LTerm.toTerm) out.1
      (0 ≤ max (tol * ‖rhs‖) atol → out.2.relRes = ‖res‖ / ‖rhs‖ ∧ (out.2.numIter = maxiter ∨ ‖res‖ ≤ max (tol * ‖rhs‖) atol)) := by
  have hne' : terms.map LTerm.toTerm ≠ [] := by simpa using hne
  obtain ⟨lhs, h1, h2⟩ := linearLhs_spec (f.map LSqL2.toSqL2) (terms.map LTerm.toTerm) hne'
  refine ⟨lhs, h1, ?_⟩
  intro rhs out res htol
  have hlin : lhs = ⇑(lhsLin f terms) := by
    funext x; rw [h2, lhsLin_apply]
  have hrhs : rhs = rhsSpec (f.map LSqL2.toSqL2) (terms.map LTerm.toTerm) := linearRhs_spec _ _
  have := cg_spec_noprecond (𝕜 := 𝕜) (lhsLin f terms) rhs x0 tol atol maxiter htol
  simp only at this
  have hout : out = cg (rcOps 𝕜 V) (⇑(lhsLin f terms)) (fun v => v) rhs x0 tol atol maxiter := by
    show cg (rcOps 𝕜 V) lhs (fun v => v) rhs x0 tol atol maxiter = _
    rw [hlin]
  have hres : res = rhs - (lhsLin f terms) out.1 := by
    show rhsSpec _ _ - lhsSpec _ _ out.1 = _
    rw [← hrhs, lhsLin_apply]
  rw [hres, hout]
  exact this

end LinearE2E

end Scico.LinSolve
