/-
  C10 round 2: `MatrixSubproblemSolver` end to end — what `solve` returns satisfies the x-step normal equations in matrix
  form, on the direct and on the Woodbury path (composition of `matrixSubATAD_spec` with `atad_solve_spec`).
-/
import Scico.Proofs.LinSolveADMM

set_option linter.unusedSectionVars false

namespace Scico.LinSolve
open Matrix

variable {K : Type} [Field K] [HasConj K] [HasIsZero K] {m n : Nat}

/-- **`MatrixSubproblemSolver.solve`**: for the solver object `s` built by `internal_init` (model `matrixSubATAD`), with the
    factorisation contract for the matrix `s` factorises and, on the Woodbury path, a 1-D `D = Σ ρ_i |c_i|²` without zero:
    `(Aᴴ (2αW) A + Σ ρ_i C_iᴴ C_i) x = rhs` for `x = s.solve rhs`. -/
theorem matrixSub_solve_spec (hz : LawfulIsZero K) (scale : K) (A : Mat K m n) (W : Vec K m) (terms : List (K × COp K n))
    (s : ATAD K m n) (hs : matrixSubATAD scale A W terms = some s)
    (fsW : Vec K m → Vec K m) (fsD : Vec K n → Vec K n) (rhs : Vec K n)
    (hfsW : ∀ d, s.D = .diag d → ∀ c, LinSolve.mulVec (gWoodbury s.A d s.W) (fsW c) = c)
    (hfsD : ∀ c, LinSolve.mulVec (gDirect s.A s.D s.W) (fsD c) = c)
    (hnz : ∀ d, s.D = .diag d → s.useWoodbury = true → ∀ k, d k ≠ 0) :
    (Matrix.of (conjT A) * Matrix.diagonal (fun i => 2 * scale * W i) * Matrix.of A
        + Matrix.of (fun i j => (terms.map fun t => t.1 * t.2.gramD.entry i j).sum)) *ᵥ (s.solve fsW fsD rhs) = rhs := by
  have hne : terms ≠ [] := by
    rintro rfl
    simp [matrixSubATAD, reduceAdd] at hs
  obtain ⟨s', hs', hA, hW, hD, _⟩ := matrixSubATAD_spec scale A W terms hne
  rw [hs] at hs'
  cases hs'
  have := atad_solve_spec hz s fsW fsD rhs hfsW hfsD hnz
  unfold specLhs at this
  have eW : s.W = fun i => 2 * scale * W i := funext hW
  have eD : s.D.entry = fun i j => (terms.map fun t => t.1 * t.2.gramD.entry i j).sum := by
    funext i j; exact hD i j
  rw [hA, eW, eD] at this
  exact this

end Scico.LinSolve
