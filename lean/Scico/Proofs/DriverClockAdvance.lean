/-
  C15, the interval timer between two readings: with no call in between, the ideal stop-watch
  (`Clock.specTotal`, which `Timer.elapsed(total=True)` refines — `timer_refines_stopwatch`) advances
  by exactly the clock difference while the label is running and not at all while it is stopped.
  Needs no order on the clock; on an ordered clock it gives monotonicity of the reading.
-/
import Scico.Proofs.DriverClock

namespace Scico.Driver.Clock
open Scico.Driver
open Scico.Driver.Spec (Cfg)

variable {τ : Type} [AddCommGroup τ]

/-- is the stop-watch that received the events `es` running (last event since the reset a `start`)? -/
def running (es : List (τ × Op)) : Bool :=
  match (sinceReset es).getLast? with
  | some e => e.2 == .start
  | none => false

theorem gapSum_advance (es : List (τ × Op)) (now now' : τ) :
    gapSum es now' - gapSum es now =
      (match es.getLast? with
       | some e => if e.2 == .start then now' - now else 0
       | none => 0) := by
  induction es with
  | nil => simp [gapSum]
  | cons e es ih =>
    cases es with
    | nil =>
      simp only [gapSum, List.getLast?_singleton]
      split
      · abel
      · simp
    | cons e' es =>
      simp only [gapSum]
      rw [List.getLast?_cons_cons]
      rw [← ih]
      abel

/-- two readings of the ideal stop-watch with no call in between differ by the clock difference
    when running and by nothing when stopped (or never started, or just reset) -/
theorem specTotal_advance (es : List (τ × Op)) (now now' : τ) :
    specTotal es now' - specTotal es now = if running es then now' - now else 0 := by
  unfold specTotal running
  rw [gapSum_advance]
  cases (sinceReset es).getLast? with
  | none => simp
  | some e => simp

section Ordered
variable [LinearOrder τ] [IsOrderedAddMonoid τ]

/-- on an ordered clock the reading never decreases between calls -/
theorem specTotal_mono (es : List (τ × Op)) {now now' : τ} (h : now ≤ now') :
    specTotal es now ≤ specTotal es now' := by
  have := specTotal_advance es now now'
  rw [← sub_nonneg, this]
  split
  · exact sub_nonneg.mpr h
  · exact le_refl _

end Ordered

end Scico.Driver.Clock
