/-
  C15: callbacks that assign the driver's own attributes `itnum` / `maxiter` (`solveX`).

  `solveX` and `solve` are in lock step on everything except the two attributes (simulation
  `Sim`, unconditional: also when the NaN stop trips); the two attributes after the call are given
  in closed form (`ctlAt`).
-/
import Scico.Proofs.DriverSolve

set_option linter.unusedSimpArgs false

namespace Scico.Driver
open Scico.Driver.Spec

variable {ω ρ ξ α L : Type} [DecidableEq L]




theorem loopX_add (E : Env ω ρ ξ α) (cb : Option (CallbackX ω)) (a b : Nat) (i : Int) (d : Drv ω ρ L) :
    loopX E cb (a + b) i d =
      match loopX E cb a i d with
      | (d', .ok) => loopX E cb b (i + a) d'
      | r => r := by
  induction a generalizing i d with
  | zero => simp [loopX]
  | succ a ih =>
    rw [Nat.succ_add]
    simp only [loopX]
    rcases hb : bodyX E cb d i with ⟨d', o⟩
    cases o with
    | ok =>
      simp only [ih]
      have : i + 1 + (a : Int) = i + ((a + 1 : Nat) : Int) := by omega
      rw [this]
    | nan => rfl
    | key => rfl

theorem loopX_succ (E : Env ω ρ ξ α) (cb : Option (CallbackX ω)) (n : Nat) (i : Int) (d : Drv ω ρ L) :
    loopX E cb (n + 1) i d =
      match loopX E cb n i d with
      | (d', .ok) => bodyX E cb d' (i + n)
      | r => r := by
  rw [loopX_add]
  rcases loopX E cb n i d with ⟨d', o⟩
  cases o with
  | ok =>
    simp only [loopX]
    rcases bodyX E cb d' (i + n) with ⟨d2, o2⟩
    cases o2 <;> rfl
  | nan => rfl
  | key => rfl

/-- the plain callback (effect on the algorithmic state, duration) of an attribute-assigning one -/
def plainCb (cbx : Option (CallbackX ω)) : Option (Callback ω) := cbx.map (·.toCallback)

/-- equal up to the attributes `itnum` and `maxiter` -/
structure Sim (d dx : Drv ω ρ L) : Prop where
  world : dx.world = d.world
  clock : dx.clock = d.clock
  nanstop : dx.nanstop = d.nanstop
  timer : dx.timer = d.timer
  rows : dx.rows = d.rows
  cblog : dx.cblog = d.cblog
  tlog : dx.tlog = d.tlog

omit [DecidableEq L] in
theorem Sim.refl (d : Drv ω ρ L) : Sim d d := ⟨rfl, rfl, rfl, rfl, rfl, rfl, rfl⟩

/-- one pass: same outcome, same everything but the two attributes — whatever the two attributes
    were before (the loop value overwrites `itnum`, nothing in the pass reads `maxiter`) -/
theorem bodyX_sim (E : Env ω ρ ξ α) (cbx : Option (CallbackX ω)) (d dx : Drv ω ρ L) (i : Int)
    (h : Sim d dx) :
    (bodyX E cbx dx i).2 = (body E (plainCb cbx) d i).2 ∧
      Sim (body E (plainCb cbx) d i).1 (bodyX E cbx dx i).1 := by
  obtain ⟨w, c, it, mx, ns, T, rows, cbl, tl⟩ := d
  obtain ⟨w', c', it', mx', ns', T', rows', cbl', tl'⟩ := dx
  obtain ⟨h1, h2, h3, h4, h5, h6, h7⟩ := h
  simp only at h1 h2 h3 h4 h5 h6 h7
  subst h1 h2 h3 h4 h5 h6 h7
  cases cbx with
  | none =>
    simp only [bodyX, body, plainCb, Option.map_none]
    split <;> exact ⟨rfl, ⟨rfl, rfl, rfl, rfl, rfl, rfl, rfl⟩⟩
  | some cx =>
    simp only [bodyX, body, plainCb, Option.map_some, Drv.timerStop, Drv.timerStart]
    split
    · exact ⟨rfl, ⟨rfl, rfl, rfl, rfl, rfl, rfl, rfl⟩⟩
    · cases (T'.stop Arg.none (c' + E.stepTicks w')).2 <;>
        exact ⟨rfl, ⟨rfl, rfl, rfl, rfl, rfl, rfl, rfl⟩⟩

/-- the two attributes after one pass that completes -/
theorem bodyX_attrs (E : Env ω ρ ξ α) (cbx : Option (CallbackX ω)) (dx : Drv ω ρ L) (i : Int)
    (hok : (bodyX E cbx dx i).2 = .ok) :
    ((bodyX E cbx dx i).1.itnum, (bodyX E cbx dx i).1.maxiter) =
      match cbx with
      | none => (i, dx.maxiter)
      | some c => c.ctl (E.step dx.world) i dx.maxiter := by
  obtain ⟨w', c', it', mx', ns', T', rows', cbl', tl'⟩ := dx
  cases cbx with
  | none =>
    simp only [bodyX] at hok ⊢
    split at hok
    · cases hok
    · rename_i hc; simp only [hc]; rfl
  | some cx =>
    simp only [bodyX, Drv.timerStop, Drv.timerStart] at hok ⊢
    split at hok
    · cases hok
    · rename_i hc
      simp only [hc]
      cases hs : (T'.stop Arg.none (c' + E.stepTicks w')).2
      · simp only [hs] at hok; cases hok
      · simp only [hs]; rfl

theorem loopX_sim (E : Env ω ρ ξ α) (cbx : Option (CallbackX ω)) (n : Nat) (i : Int) (d dx : Drv ω ρ L)
    (h : Sim d dx) :
    (loopX E cbx n i dx).2 = (loop E (plainCb cbx) n i d).2 ∧
      Sim (loop E (plainCb cbx) n i d).1 (loopX E cbx n i dx).1 := by
  induction n generalizing i d dx with
  | zero => exact ⟨rfl, h⟩
  | succ n ih =>
    obtain ⟨ho, hs⟩ := bodyX_sim E cbx d dx i h
    simp only [loopX, loop]
    rcases hb : body E (plainCb cbx) d i with ⟨d1, o⟩
    rcases hbx : bodyX E cbx dx i with ⟨dx1, ox⟩
    rw [hb, hbx] at ho hs
    simp only at ho hs
    subst ho
    cases ox with
    | ok => exact ih (i + 1) d1 dx1 hs
    | nan => exact ⟨rfl, hs⟩
    | key => exact ⟨rfl, hs⟩

/-- **`solveX` and `solve` in lock step** (unconditional): same outcome and same state, records,
    callback log, clock and timer; only the attributes `itnum` / `maxiter` may differ -/
theorem solveX_sim (late : Bool) (E : Env ω ρ ξ α) (cbx : Option (CallbackX ω)) (d : Drv ω ρ L) :
    (solveX late E cbx d).2 = (solve E (plainCb cbx) d).2 ∧
      Sim (solve E (plainCb cbx) d).1 (solveX late E cbx d).1 := by
  have h0 : Sim d.timerStart d.timerStart := Sim.refl _
  obtain ⟨ho, hs⟩ := loopX_sim E cbx d.timerStart.maxiter.toNat d.timerStart.itnum _ _ h0
  simp only [solveX, solve]
  rcases hl : loop E (plainCb cbx) d.timerStart.maxiter.toNat d.timerStart.itnum d.timerStart with ⟨d1, o⟩
  rcases hlx : loopX E cbx d.timerStart.maxiter.toNat d.timerStart.itnum d.timerStart with ⟨dx1, ox⟩
  rw [hl, hlx] at ho hs
  simp only at ho hs
  subst ho
  cases ox with
  | nan => exact ⟨rfl, hs⟩
  | key => exact ⟨rfl, hs⟩
  | ok =>
    obtain ⟨w, c, it, mx, ns, T, rows, cbl, tl⟩ := d1
    obtain ⟨w', c', it', mx', ns', T', rows', cbl', tl'⟩ := dx1
    obtain ⟨h1, h2, h3, h4, h5, h6, h7⟩ := hs
    simp only at h1 h2 h3 h4 h5 h6 h7
    subst h1 h2 h3 h4 h5 h6 h7
    simp only [Drv.timerStop]
    cases (T'.stop Arg.none c').2
    · exact ⟨rfl, ⟨rfl, rfl, rfl, rfl, rfl, rfl, rfl⟩⟩
    · simp only
      refine ⟨trivial, ?_⟩
      cases late <;> simp only [Bool.false_eq_true, if_false, if_true] <;> split <;> split <;>
        exact ⟨rfl, rfl, rfl, rfl, rfl, rfl, rfl⟩

/-! ### the two attributes in closed form -/

/-- values of `(itnum, maxiter)` after `k` completed iterations of a call that started with
    counter `i0` and `maxiter = m0`: the loop assigns `itnum = i0 + k` at the start of iteration
    `k`, then the callback may assign both -/
def ctlAt (E : Env ω ρ ξ α) (cbx : Option (CallbackX ω)) (w : ω) (i0 m0 : Int) : Nat → Int × Int
  | 0 => (i0, m0)
  | k + 1 =>
    match cbx with
    | none => (i0 + k, m0)
    | some c => c.ctl (afterStep E (plainCb cbx) w k) (i0 + k) (ctlAt E cbx w i0 m0 k).2

theorem loopX_attrs (E : Env ω ρ ξ α) (cbx : Option (CallbackX ω)) (T0 : Timer L) (d0 : Drv ω ρ L)
    (e0 : Nat) (hda : T0.dflt ≠ T0.all) (hrun : RunningAt T0 d0.timer d0.clock e0) (n : Nat)
    (hclean : ∀ k < n, tripsB E d0.nanstop (afterStep E (plainCb cbx) d0.world k) = false) :
    ((loopX E cbx n d0.itnum d0).1.itnum, (loopX E cbx n d0.itnum d0).1.maxiter) =
      ctlAt E cbx d0.world d0.itnum d0.maxiter n := by
  induction n with
  | zero => rfl
  | succ n ih =>
    have ih' := ih (fun k hk => hclean k (by omega))
    obtain ⟨hok, hat⟩ := loop_clean E (plainCb cbx) T0 d0 d0.itnum e0 hda hrun n (fun k hk => hclean k (by omega))
    obtain ⟨hox, hsx⟩ := loopX_sim E cbx n d0.itnum d0 d0 (Sim.refl _)
    -- split off the last pass
    have hsucc : loopX E cbx (n + 1) d0.itnum d0 =
        match loopX E cbx n d0.itnum d0 with
        | (d', .ok) => bodyX E cbx d' (d0.itnum + n)
        | r => r := loopX_succ E cbx n d0.itnum d0
    rcases hlx : loopX E cbx n d0.itnum d0 with ⟨dx, ox⟩
    rw [hlx] at hox hsx ih' hsucc
    simp only at hox hsx ih' hsucc
    rw [hok] at hox
    subst hox
    simp only at hsucc
    rw [hsucc]
    -- the last pass completes (it does in the plain loop)
    obtain ⟨hbo, _⟩ := body_clean E (plainCb cbx) T0 d0 d0.itnum e0 n _ hda hat (hclean n (by omega))
    obtain ⟨hbx, _⟩ := bodyX_sim E cbx _ dx (d0.itnum + n) hsx
    rw [hbo] at hbx
    rw [bodyX_attrs E cbx dx (d0.itnum + n) hbx]
    have hw : E.step dx.world = afterStep E (plainCb cbx) d0.world n := by
      rw [hsx.world, hat.world]; rfl
    have hm : dx.maxiter = (ctlAt E cbx d0.world d0.itnum d0.maxiter n).2 := by
      rw [← ih']
    cases cbx with
    | none =>
      simp only [ctlAt]
      have : (ctlAt E none d0.world d0.itnum d0.maxiter n).2 = d0.maxiter := by
        cases n <;> rfl
      rw [hm, this]
    | some c => simp only [ctlAt, hw, hm]

/-- the attributes after an uninterrupted `solveX`: `maxiter` is what the last callback left, and
    the counter is what the last callback left, `+ 1` iff that `maxiter` is positive
    (`if self.maxiter > 0: self.itnum += 1` reads the attribute *after* the loop) -/
theorem solveX_attrs (late : Bool) (E : Env ω ρ ξ α) (cbx : Option (CallbackX ω)) (d : Drv ω ρ L)
    (hda : d.timer.dflt ≠ d.timer.all) (hwf : TimerWF d.timer d.clock)
    (hclean : ∀ k < d.maxiter.toNat, tripsB E d.nanstop (afterStep E (plainCb cbx) d.world k) = false) :
    (solveX late E cbx d).1.maxiter = (ctlAt E cbx d.world d.itnum d.maxiter d.maxiter.toNat).2 ∧
      (solveX late E cbx d).1.itnum =
        if (if late then (ctlAt E cbx d.world d.itnum d.maxiter d.maxiter.toNat).2 else d.maxiter) > 0
        then (ctlAt E cbx d.world d.itnum d.maxiter d.maxiter.toNat).1 + 1
        else (ctlAt E cbx d.world d.itnum d.maxiter d.maxiter.toNat).1 := by
  have hrun := running_after_start d.timer d.clock hwf
  have hattr := loopX_attrs E cbx (d.timer.start .none d.clock) d.timerStart
    (d.timer.elapsedDefault true d.clock) hda hrun d.maxiter.toNat hclean
  obtain ⟨hok, hat⟩ := loop_clean E (plainCb cbx) (d.timer.start .none d.clock) d.timerStart d.itnum
    (d.timer.elapsedDefault true d.clock) hda hrun d.maxiter.toNat hclean
  obtain ⟨hox, hsx⟩ := loopX_sim E cbx d.maxiter.toNat d.itnum d.timerStart d.timerStart (Sim.refl _)
  have hm0 : d.timerStart.maxiter = d.maxiter := rfl
  have hi0 : d.timerStart.itnum = d.itnum := rfl
  have hw0 : d.timerStart.world = d.world := rfl
  rw [hm0, hi0, hw0] at hattr
  unfold solveX
  simp only [hm0, hi0]
  rcases hlx : loopX E cbx d.maxiter.toNat d.itnum d.timerStart with ⟨dx, ox⟩
  rw [hlx] at hox hsx hattr
  simp only at hox hsx hattr
  rw [hok] at hox
  subst hox
  simp only
  have hstop := hat.timer.stop hda
  have hts : (dx.timer.stop Arg.none dx.clock).2 = true := by
    rw [hsx.timer, hsx.clock]; exact hstop.1
  simp only [Drv.timerStop, hts]
  have h1 : dx.itnum = (ctlAt E cbx d.world d.itnum d.maxiter d.maxiter.toNat).1 := by rw [← hattr]
  have h2 : dx.maxiter = (ctlAt E cbx d.world d.itnum d.maxiter d.maxiter.toNat).2 := by rw [← hattr]
  rw [← h2, ← h1]
  by_cases hp : (if late then dx.maxiter else d.maxiter) > 0
  · simp only [hp, if_true]
    simp
  · simp only [hp, if_false]
    simp

/-- a callback that assigns nothing: `ctl w i m = (i, m)` -/
def CallbackX.neutral (c : CallbackX ω) : Prop := ∀ w i m, c.ctl w i m = (i, m)

theorem ctlAt_neutral (E : Env ω ρ ξ α) (cbx : Option (CallbackX ω)) (w : ω) (i0 m0 : Int)
    (hn : ∀ c, cbx = some c → c.neutral) (k : Nat) :
    ctlAt E cbx w i0 m0 k = (if k = 0 then i0 else i0 + ((k : Int) - 1), m0) := by
  induction k with
  | zero => rfl
  | succ k ih =>
    cases cbx with
    | none => simp [ctlAt]
    | some c =>
      simp only [ctlAt, hn c rfl _ _ _, ih]
      simp

end Scico.Driver
