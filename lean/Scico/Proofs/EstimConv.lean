/-
  Convergence of power iteration under a spectral gap (property C17, "converges to it as the iteration
  budget grows when the largest singular value is separated from the rest").

  Setting: a real inner-product space `E` with an orthonormal basis `b` (finite index type) in which the
  operator `B` is diagonal, `B (b i) = lam i • b i` — for a Gram operator `AᴴA` on a finite-dimensional space
  such a basis exists (spectral theorem, used in `Props/C17.lean`).  One eigenvalue `lam i0 > 0` dominates:
  `0 ≤ lam i ≤ r · lam i0` for `i ≠ i0`.  The start has a non-zero component along `b i0`.

  Invariant carried through `powerLoop` (no powers of `B` are needed): with `c = ⟨b i0, v⟩` and
  `tail v = ‖v‖² − c²` (the squared norm of the part of `v` orthogonal to `b i0`),

      c ≠ 0   and   tail v ≤ q · c²

  is mapped by one iteration `v ↦ Bv/‖Bv‖` to the same statement with `r²·q`; and for every such `v`
  the Rayleigh quotient satisfies `lam i0 − lam i0·q ≤ rq B v ≤ lam i0`.
-/
import Scico.Proofs.Estim
import Scico.Proofs.EstimNorms
import Mathlib.Analysis.InnerProductSpace.PiL2
import Mathlib.Analysis.SpecificLimits.Basic

set_option linter.unusedSectionVars false

namespace Scico.Estim

open Finset

variable {E : Type} [NormedAddCommGroup E] [InnerProductSpace ℝ E]
variable {ι : Type} [Fintype ι] [DecidableEq ι]

/-- `B` is diagonal in the orthonormal basis `b`, with eigenvalues `lam` -/
def IsDiagIn (B : E →L[ℝ] E) (b : OrthonormalBasis ι ℝ E) (lam : ι → ℝ) : Prop :=
  ∀ i, B (b i) = lam i • b i

/-- coordinate of `v` along `b i` -/
noncomputable def co (b : OrthonormalBasis ι ℝ E) (v : E) (i : ι) : ℝ := inner ℝ (b i) v

theorem sum_co_smul (b : OrthonormalBasis ι ℝ E) (v : E) : ∑ j, co b v j • b j = v := by
  simpa [co] using b.sum_repr' v

theorem co_apply {B : E →L[ℝ] E} {b : OrthonormalBasis ι ℝ E} {lam : ι → ℝ} (hB : IsDiagIn B b lam)
    (v : E) (i : ι) : co b (B v) i = lam i * co b v i := by
  have hv : B v = ∑ j, (co b v j * lam j) • b j := by
    conv_lhs => rw [← sum_co_smul b v]
    rw [map_sum]
    apply Finset.sum_congr rfl
    intro j _
    rw [map_smul, hB j, smul_smul]
  unfold co at *
  rw [hv, inner_sum]
  have : ∀ j ∈ (Finset.univ : Finset ι),
      inner ℝ (b i) ((inner ℝ (b j) v * lam j) • b j) = if i = j then inner ℝ (b j) v * lam j else 0 := by
    intro j _
    rw [inner_smul_right, orthonormal_iff_ite.1 b.orthonormal i j]
    split <;> simp
  rw [Finset.sum_congr rfl this, Finset.sum_ite_eq]
  simp [mul_comm]

theorem co_smul (b : OrthonormalBasis ι ℝ E) (s : ℝ) (v : E) (i : ι) : co b (s • v) i = s * co b v i := by
  unfold co; rw [inner_smul_right]

/-- Parseval -/
theorem inner_eq_sum_co (b : OrthonormalBasis ι ℝ E) (v w : E) : inner ℝ v w = ∑ i, co b v i * co b w i := by
  rw [← b.sum_inner_mul_inner v w]
  apply Finset.sum_congr rfl
  intro i _
  unfold co
  rw [real_inner_comm]

theorem norm_sq_eq_sum_co (b : OrthonormalBasis ι ℝ E) (v : E) : ‖v‖ * ‖v‖ = ∑ i, co b v i * co b v i := by
  rw [← real_inner_self_eq_norm_mul_norm, inner_eq_sum_co b]

/-- squared norm of the component of `v` orthogonal to `b i0` -/
noncomputable def tail (b : OrthonormalBasis ι ℝ E) (i0 : ι) (v : E) : ℝ := ‖v‖ * ‖v‖ - co b v i0 * co b v i0

theorem tail_eq_sum (b : OrthonormalBasis ι ℝ E) (i0 : ι) (v : E) :
    tail b i0 v = ∑ i ∈ Finset.univ.erase i0, co b v i * co b v i := by
  unfold tail
  rw [norm_sq_eq_sum_co b, ← Finset.add_sum_erase Finset.univ (fun i => co b v i * co b v i) (Finset.mem_univ i0)]
  ring

theorem tail_nonneg (b : OrthonormalBasis ι ℝ E) (i0 : ι) (v : E) : 0 ≤ tail b i0 v := by
  rw [tail_eq_sum]
  exact Finset.sum_nonneg (fun i _ => mul_self_nonneg _)

theorem tail_smul (b : OrthonormalBasis ι ℝ E) (i0 : ι) (s : ℝ) (v : E) :
    tail b i0 (s • v) = s * s * tail b i0 v := by
  unfold tail
  rw [co_smul, norm_smul, Real.norm_eq_abs]
  have : |s| * |s| = s * s := abs_mul_abs_self s
  calc |s| * ‖v‖ * (|s| * ‖v‖) - s * co b v i0 * (s * co b v i0)
      = (|s| * |s|) * (‖v‖ * ‖v‖) - s * s * (co b v i0 * co b v i0) := by ring
    _ = s * s * (‖v‖ * ‖v‖ - co b v i0 * co b v i0) := by rw [this]; ring

section gap

variable {B : E →L[ℝ] E} {b : OrthonormalBasis ι ℝ E} {lam : ι → ℝ} {i0 : ι} {r : ℝ}

/-- the dominance hypothesis: `lam i0 > 0` and every other eigenvalue lies in `[0, r·lam i0]` -/
structure Dominant (lam : ι → ℝ) (i0 : ι) (r : ℝ) : Prop where
  pos : 0 < lam i0
  r_nonneg : 0 ≤ r
  r_le_one : r ≤ 1
  others : ∀ i, i ≠ i0 → 0 ≤ lam i ∧ lam i ≤ r * lam i0

theorem apply_ne_zero_of_co (hB : IsDiagIn B b lam) (hd : Dominant lam i0 r) (v : E) (hc : co b v i0 ≠ 0) :
    B v ≠ 0 := by
  intro h
  have : co b (B v) i0 = 0 := by rw [h]; simp [co]
  rw [co_apply hB] at this
  rcases mul_eq_zero.1 this with h1 | h1
  · exact absurd h1 (ne_of_gt hd.pos)
  · exact hc h1

/-- one application of `B` contracts the tail relative to the dominant component by `r²` -/
theorem tail_apply_le (hB : IsDiagIn B b lam) (hd : Dominant lam i0 r) (v : E) :
    tail b i0 (B v) ≤ (r * lam i0) * (r * lam i0) * tail b i0 v := by
  rw [tail_eq_sum, tail_eq_sum, Finset.mul_sum]
  apply Finset.sum_le_sum
  intro i hi
  have hne : i ≠ i0 := (Finset.mem_erase.1 hi).1
  obtain ⟨h0, h1⟩ := hd.others i hne
  rw [co_apply hB]
  have hsq : lam i * lam i ≤ (r * lam i0) * (r * lam i0) := mul_self_le_mul_self h0 h1
  have hc : 0 ≤ co b v i * co b v i := mul_self_nonneg _
  nlinarith [mul_le_mul_of_nonneg_right hsq hc]

/-- the invariant is propagated by one (normalised) iteration -/
theorem inv_nxt (hB : IsDiagIn B b lam) (hd : Dominant lam i0 r) (v : E) (hc : co b v i0 ≠ 0) (q : ℝ)
    (hq : tail b i0 v ≤ q * (co b v i0 * co b v i0)) :
    co b (nxt B v) i0 ≠ 0 ∧ tail b i0 (nxt B v) ≤ (r * r * q) * (co b (nxt B v) i0 * co b (nxt B v) i0) := by
  have hBv := apply_ne_zero_of_co hB hd v hc
  have hn : ‖B v‖⁻¹ ≠ 0 := inv_ne_zero (norm_ne_zero_iff.2 hBv)
  unfold nxt
  rw [co_smul, tail_smul, co_apply hB]
  refine ⟨mul_ne_zero hn (mul_ne_zero (ne_of_gt hd.pos) hc), ?_⟩
  have h1 := tail_apply_le hB hd v
  have hs : 0 ≤ ‖B v‖⁻¹ * ‖B v‖⁻¹ := mul_self_nonneg _
  have hl : 0 ≤ (r * lam i0) * (r * lam i0) := mul_self_nonneg _
  calc ‖B v‖⁻¹ * ‖B v‖⁻¹ * tail b i0 (B v)
      ≤ ‖B v‖⁻¹ * ‖B v‖⁻¹ * ((r * lam i0) * (r * lam i0) * tail b i0 v) := mul_le_mul_of_nonneg_left h1 hs
    _ ≤ ‖B v‖⁻¹ * ‖B v‖⁻¹ * ((r * lam i0) * (r * lam i0) * (q * (co b v i0 * co b v i0))) := by
        apply mul_le_mul_of_nonneg_left _ hs
        exact mul_le_mul_of_nonneg_left hq hl
    _ = r * r * q * (‖B v‖⁻¹ * (lam i0 * co b v i0) * (‖B v‖⁻¹ * (lam i0 * co b v i0))) := by ring

/-- `⟨v, Bv⟩ = Σ lamᵢ cᵢ²` -/
theorem inner_apply_eq_sum (hB : IsDiagIn B b lam) (v : E) :
    inner ℝ v (B v) = ∑ i, lam i * (co b v i * co b v i) := by
  rw [inner_eq_sum_co b]
  apply Finset.sum_congr rfl
  intro i _
  rw [co_apply hB]; ring

/-- Rayleigh quotient bounds under the invariant -/
theorem rq_bounds (hB : IsDiagIn B b lam) (hd : Dominant lam i0 r) (v : E) (hc : co b v i0 ≠ 0) (q : ℝ)
    (hq : tail b i0 v ≤ q * (co b v i0 * co b v i0)) :
    rq B v ≤ lam i0 ∧ lam i0 - lam i0 * q ≤ rq B v := by
  have hc2 : 0 < co b v i0 * co b v i0 := mul_self_pos.2 hc
  have hN : ‖v‖ * ‖v‖ = co b v i0 * co b v i0 + tail b i0 v := by unfold tail; ring
  have ht := tail_nonneg b i0 v
  have hNpos : 0 < ‖v‖ * ‖v‖ := by rw [hN]; linarith
  -- numerator split
  have hnum : inner ℝ v (B v) =
      lam i0 * (co b v i0 * co b v i0) + ∑ i ∈ Finset.univ.erase i0, lam i * (co b v i * co b v i) := by
    rw [inner_apply_eq_sum hB,
      ← Finset.add_sum_erase Finset.univ (fun i => lam i * (co b v i * co b v i)) (Finset.mem_univ i0)]
  have hrest_nonneg : 0 ≤ ∑ i ∈ Finset.univ.erase i0, lam i * (co b v i * co b v i) :=
    Finset.sum_nonneg (fun i hi =>
      mul_nonneg (hd.others i (Finset.mem_erase.1 hi).1).1 (mul_self_nonneg _))
  have hrest_le : ∑ i ∈ Finset.univ.erase i0, lam i * (co b v i * co b v i) ≤ lam i0 * tail b i0 v := by
    rw [tail_eq_sum, Finset.mul_sum]
    apply Finset.sum_le_sum
    intro i hi
    obtain ⟨_, h1⟩ := hd.others i (Finset.mem_erase.1 hi).1
    have : lam i ≤ lam i0 := le_trans h1 (by nlinarith [hd.pos, hd.r_le_one])
    exact mul_le_mul_of_nonneg_right this (mul_self_nonneg _)
  unfold rq
  constructor
  · rw [div_le_iff₀ hNpos, hnum, hN]
    nlinarith
  · rw [le_div_iff₀ hNpos, hnum, hN]
    -- (λ − λq)(c² + t) ≤ λ c² + rest ;  rest ≥ 0,  t ≤ q c²
    have hl := hd.pos
    have h1 : lam i0 * tail b i0 v ≤ lam i0 * (q * (co b v i0 * co b v i0)) :=
      mul_le_mul_of_nonneg_left hq (le_of_lt hl)
    have hq0 : 0 ≤ q := by
      by_contra hneg
      push Not at hneg
      have : q * (co b v i0 * co b v i0) < 0 := mul_neg_of_neg_of_pos hneg hc2
      linarith
    have h2 : 0 ≤ lam i0 * q * tail b i0 v := mul_nonneg (mul_nonneg (le_of_lt hl) hq0) ht
    nlinarith

/-- **The run of the loop under a spectral gap**: after `k+1` iterations started from a vector whose tail is
    at most `q` times its squared dominant component, the estimate `m` satisfies
    `lam i0 − lam i0 · r^(2k) · q ≤ m ≤ lam i0`. -/
theorem powerLoop_gap (hB : IsDiagIn B b lam) (hd : Dominant lam i0 r) :
    ∀ (k : Nat) (mu : Option ℝ) (v : E) (q : ℝ), co b v i0 ≠ 0 →
      tail b i0 v ≤ q * (co b v i0 * co b v i0) →
      ∃ m, (powerLoop (opsOf B) (k + 1) mu v).1 = some m ∧ m ≤ lam i0 ∧
        lam i0 - lam i0 * ((r * r) ^ k * q) ≤ m := by
  intro k
  induction k with
  | zero =>
    intro mu v q hc hq
    refine ⟨rq B v, ?_, ?_⟩
    · rw [powerLoop_succ_ne B 0 mu v (apply_ne_zero_of_co hB hd v hc)]; rfl
    · have := rq_bounds hB hd v hc q hq
      simpa using this
  | succ k ih =>
    intro mu v q hc hq
    obtain ⟨hc', hq'⟩ := inv_nxt hB hd v hc q hq
    obtain ⟨m, hm, h1, h2⟩ := ih (some (rq B v)) (nxt B v) (r * r * q) hc' hq'
    refine ⟨m, ?_, h1, ?_⟩
    · rw [powerLoop_succ_ne B (k + 1) mu v (apply_ne_zero_of_co hB hd v hc)]; exact hm
    · have : (r * r) ^ k * (r * r * q) = (r * r) ^ (k + 1) * q := by ring
      rw [this] at h2
      exact h2

/-- the smallest admissible `q` for a start `v`: `tail v / c²` -/
theorem tail_le_ratio (v : E) (hc : co b v i0 ≠ 0) :
    tail b i0 v ≤ (tail b i0 v / (co b v i0 * co b v i0)) * (co b v i0 * co b v i0) := by
  rw [div_mul_cancel₀]
  exact ne_of_gt (mul_self_pos.2 hc)

/-- normalising the start changes neither the hypothesis nor the ratio -/
theorem ratio_normalize (v0 : E) (hv0 : v0 ≠ 0) :
    co b (‖v0‖⁻¹ • v0) i0 = ‖v0‖⁻¹ * co b v0 i0 ∧
    tail b i0 (‖v0‖⁻¹ • v0) / (co b (‖v0‖⁻¹ • v0) i0 * co b (‖v0‖⁻¹ • v0) i0) =
      tail b i0 v0 / (co b v0 i0 * co b v0 i0) := by
  have hn : ‖v0‖⁻¹ ≠ 0 := inv_ne_zero (norm_ne_zero_iff.2 hv0)
  refine ⟨co_smul b _ v0 i0, ?_⟩
  rw [co_smul, tail_smul]
  rw [show ‖v0‖⁻¹ * co b v0 i0 * (‖v0‖⁻¹ * co b v0 i0) = ‖v0‖⁻¹ * ‖v0‖⁻¹ * (co b v0 i0 * co b v0 i0) by ring]
  rw [mul_div_mul_left _ _ (mul_ne_zero hn hn)]

/-- `power_iteration` with budget `k+1` under a spectral gap: explicit geometric error bound. -/
theorem powerIteration_gap (hB : IsDiagIn B b lam) (hd : Dominant lam i0 r) (v0 : E) (hc0 : co b v0 i0 ≠ 0)
    (k : Nat) (mu : ℝ) (v : E) (h : powerIteration (opsOf B) (k + 1) v0 = .ok (mu, v)) :
    mu ≤ lam i0 ∧
      lam i0 - lam i0 * ((r * r) ^ k * (tail b i0 v0 / (co b v0 i0 * co b v0 i0))) ≤ mu := by
  have hv0 : v0 ≠ 0 := by
    rintro rfl
    exact hc0 (by simp [co])
  obtain ⟨_, hp⟩ := powerIteration_ok B (k + 1) v0 mu v h
  obtain ⟨hco, hratio⟩ := ratio_normalize (b := b) (i0 := i0) v0 hv0
  have hc : co b (‖v0‖⁻¹ • v0) i0 ≠ 0 := by
    rw [hco]; exact mul_ne_zero (inv_ne_zero (norm_ne_zero_iff.2 hv0)) hc0
  obtain ⟨m, hm, h1, h2⟩ := powerLoop_gap hB hd k none (‖v0‖⁻¹ • v0) _ hc (tail_le_ratio _ hc)
  rw [hp] at hm
  simp only [Option.some.injEq] at hm
  subst hm
  rw [hratio] at h2
  exact ⟨h1, h2⟩

/-- hence the estimates converge to the dominant eigenvalue when `r < 1` -/
theorem powerIteration_tendsto (hB : IsDiagIn B b lam) (hd : Dominant lam i0 r) (hr : r < 1) (v0 : E)
    (hc0 : co b v0 i0 ≠ 0) (mu : ℕ → ℝ)
    (h : ∀ k, ∃ v, powerIteration (opsOf B) (k + 1) v0 = .ok (mu k, v)) :
    Filter.Tendsto mu Filter.atTop (nhds (lam i0)) := by
  set C := tail b i0 v0 / (co b v0 i0 * co b v0 i0) with hC
  have hrr : r * r < 1 := by nlinarith [hd.r_nonneg]
  have hrr0 : 0 ≤ r * r := mul_self_nonneg r
  have hlow : Filter.Tendsto (fun k : ℕ => lam i0 - lam i0 * ((r * r) ^ k * C)) Filter.atTop (nhds (lam i0)) := by
    have h0 : Filter.Tendsto (fun k : ℕ => (r * r) ^ k) Filter.atTop (nhds 0) :=
      tendsto_pow_atTop_nhds_zero_of_lt_one hrr0 hrr
    have h1 : Filter.Tendsto (fun k : ℕ => lam i0 * ((r * r) ^ k * C)) Filter.atTop (nhds (lam i0 * (0 * C))) :=
      (h0.mul_const C).const_mul (lam i0)
    have h2 := (tendsto_const_nhds (x := lam i0) (f := (Filter.atTop : Filter ℕ))).sub h1
    simpa using h2
  refine tendsto_of_tendsto_of_tendsto_of_le_of_le hlow tendsto_const_nhds ?_ ?_
  · intro k
    obtain ⟨v, hv⟩ := h k
    exact (powerIteration_gap hB hd v0 hc0 k (mu k) v hv).2
  · intro k
    obtain ⟨v, hv⟩ := h k
    exact (powerIteration_gap hB hd v0 hc0 k (mu k) v hv).1

end gap

/-! ### Gram operators: the dominant eigenvalue is `‖A‖²`, so `operator_norm` converges to `‖A‖₂` -/

section gramconv

variable {F : Type} [NormedAddCommGroup F] [InnerProductSpace ℝ F]
variable {B : E →L[ℝ] E} {A : E →L[ℝ] F} {b : OrthonormalBasis ι ℝ E} {lam : ι → ℝ} {i0 : ι} {r : ℝ}

/-- eigenvalues of a Gram operator are `‖A bᵢ‖² ≥ 0` -/
theorem IsGram.eigen_eq (hG : IsGram B A) (hB : IsDiagIn B b lam) (i : ι) : lam i = ‖A (b i)‖ ^ 2 := by
  have h := hG.inner_self (b i)
  rw [hB i, inner_smul_right, b.inner_eq_one, mul_one] at h
  exact h

theorem IsGram.eigen_nonneg (hG : IsGram B A) (hB : IsDiagIn B b lam) (i : ι) : 0 ≤ lam i := by
  rw [hG.eigen_eq hB i]; positivity

/-- for a Gram operator the dominance hypothesis only needs the upper bounds -/
theorem IsGram.dominant (hG : IsGram B A) (hB : IsDiagIn B b lam) (hpos : 0 < lam i0) (hr0 : 0 ≤ r) (hr1 : r ≤ 1)
    (h : ∀ i, i ≠ i0 → lam i ≤ r * lam i0) : Dominant lam i0 r :=
  ⟨hpos, hr0, hr1, fun i hi => ⟨hG.eigen_nonneg hB i, h i hi⟩⟩

/-- the largest eigenvalue of the Gram operator is the squared induced 2-norm of `A` -/
theorem IsGram.opNorm_eq_sqrt (hG : IsGram B A) (hB : IsDiagIn B b lam) (hmax : ∀ i, lam i ≤ lam i0) :
    ‖A‖ = Real.sqrt (lam i0) := by
  have hl0 : 0 ≤ lam i0 := hG.eigen_nonneg hB i0
  apply le_antisymm
  · apply ContinuousLinearMap.opNorm_le_bound _ (Real.sqrt_nonneg _)
    intro v
    have h1 : ‖A v‖ ^ 2 ≤ lam i0 * (‖v‖ * ‖v‖) := by
      rw [← hG.inner_self v, inner_apply_eq_sum hB, norm_sq_eq_sum_co b, Finset.mul_sum]
      apply Finset.sum_le_sum
      intro i _
      exact mul_le_mul_of_nonneg_right (hmax i) (mul_self_nonneg _)
    have h2 : ‖A v‖ ^ 2 ≤ (Real.sqrt (lam i0) * ‖v‖) ^ 2 := by
      rw [mul_pow, Real.sq_sqrt hl0]; linarith [h1, sq ‖v‖]
    exact (abs_le_of_sq_le_sq' h2 (mul_nonneg (Real.sqrt_nonneg _) (norm_nonneg _))).2
  · have h1 : ‖A (b i0)‖ ≤ ‖A‖ := by
      have := A.le_opNorm (b i0)
      rwa [b.orthonormal.1 i0, mul_one] at this
    rw [hG.eigen_eq hB i0, Real.sqrt_sq (norm_nonneg _)]
    exact h1

end gramconv

/-! ### the hypotheses are satisfiable for every spectrum: the operator `Σ lamᵢ ⟨bᵢ,·⟩ bᵢ` -/

section exist

/-- the operator that is diagonal in `b` with eigenvalues `lam` -/
noncomputable def diagOp (b : OrthonormalBasis ι ℝ E) (lam : ι → ℝ) : E →L[ℝ] E :=
  ∑ i, lam i • ((innerSL ℝ (b i)).smulRight (b i))

theorem diagOp_apply (b : OrthonormalBasis ι ℝ E) (lam : ι → ℝ) (v : E) :
    diagOp b lam v = ∑ i, (lam i * co b v i) • b i := by
  unfold diagOp co
  rw [_root_.sum_apply]
  apply Finset.sum_congr rfl
  intro i _
  simp [smul_smul]

theorem isDiagIn_diagOp (b : OrthonormalBasis ι ℝ E) (lam : ι → ℝ) : IsDiagIn (diagOp b lam) b lam := by
  intro j
  rw [diagOp_apply]
  have : ∀ i ∈ (Finset.univ : Finset ι), (lam i * co b (b j) i) • b i = if i = j then lam j • b j else 0 := by
    intro i _
    unfold co
    rw [orthonormal_iff_ite.1 b.orthonormal i j]
    split
    · rename_i h; subst h; simp
    · simp
  rw [Finset.sum_congr rfl this, Finset.sum_ite_eq']
  simp

/-- for a non-negative spectrum it is the Gram operator of `diagOp b (√lam)` -/
theorem isGram_diagOp (b : OrthonormalBasis ι ℝ E) (lam : ι → ℝ) (h : ∀ i, 0 ≤ lam i) :
    IsGram (diagOp b lam) (diagOp b (fun i => Real.sqrt (lam i))) := by
  intro x y
  rw [inner_eq_sum_co b, inner_eq_sum_co b]
  apply Finset.sum_congr rfl
  intro i _
  rw [co_apply (isDiagIn_diagOp b lam), co_apply (isDiagIn_diagOp b _), co_apply (isDiagIn_diagOp b _)]
  have := Real.mul_self_sqrt (h i)
  calc lam i * co b x i * co b y i = (Real.sqrt (lam i) * Real.sqrt (lam i)) * co b x i * co b y i := by rw [this]
    _ = Real.sqrt (lam i) * co b x i * (Real.sqrt (lam i) * co b y i) := by ring

end exist

theorem operatorNorm_ok {V : Type} (ops : VOps V ℝ) (m : Nat) (v0 : V) (c : ℝ)
    (h : operatorNorm ops m v0 = .ok c) : ∃ mu v, powerIteration ops m v0 = .ok (mu, v) ∧ c = Real.sqrt mu := by
  unfold operatorNorm at h
  split at h
  · rename_i mu v hp
    simp only [Except.ok.injEq] at h
    exact ⟨mu, v, hp, h.symm⟩
  · cases h

end Scico.Estim
