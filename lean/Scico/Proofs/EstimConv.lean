/-
  Convergence of power iteration under a spectral gap (property C17, "converges to it as the iteration
  budget grows when the largest singular value is separated from the rest").

  Setting: a real inner-product space `E` with an orthonormal basis `b` (finite index type) in which the
  operator `B` is diagonal, `B (b i) = lam i • b i` — for a Gram operator `AᴴA` on a finite-dimensional space
  such a basis exists (spectral theorem, used in `Props/C17.lean`).  The largest eigenvalue `lam1 > 0` is attained on
  the index set `D` (its eigenspace — multiplicity is allowed: a complex operator seen as a real one has every
  eigenvalue twice) and separated from the rest: `0 ≤ lam i ≤ r · lam1` for `i ∉ D`.  The start has a non-zero
  component in the dominant eigenspace.

  Invariant carried through `powerLoop` (no powers of `B` are needed): with `head v = Σ_{i∈D} ⟨b i, v⟩²` and
  `tail v = ‖v‖² − head v` (squared norms of the parts of `v` inside / orthogonal to the dominant eigenspace),

      head v > 0   and   tail v ≤ q · head v

  is mapped by one iteration `v ↦ Bv/‖Bv‖` to the same statement with `r²·q`; and for every such `v`
  the Rayleigh quotient satisfies `lam1 − lam1·q ≤ rq B v ≤ lam1`.
-/
import Scico.Proofs.Estim
import Scico.Proofs.EstimNorms
import Mathlib.Analysis.InnerProductSpace.PiL2
import Mathlib.Analysis.SpecificLimits.Basic

set_option linter.unusedSectionVars false

namespace Scico.Estim

open Finset

variable {E : Type} [NormedAddCommGroup E] [InnerProductSpace ℝ E]
variable {ι : Type} [Fintype ι] [DecidableEq ι]

/-- `B` is diagonal in the orthonormal basis `b`, with eigenvalues `lam` -/
def IsDiagIn (B : E →L[ℝ] E) (b : OrthonormalBasis ι ℝ E) (lam : ι → ℝ) : Prop :=
  ∀ i, B (b i) = lam i • b i

/-- coordinate of `v` along `b i` -/
noncomputable def co (b : OrthonormalBasis ι ℝ E) (v : E) (i : ι) : ℝ := inner ℝ (b i) v

theorem sum_co_smul (b : OrthonormalBasis ι ℝ E) (v : E) : ∑ j, co b v j • b j = v := by
  simpa [co] using b.sum_repr' v

theorem co_apply {B : E →L[ℝ] E} {b : OrthonormalBasis ι ℝ E} {lam : ι → ℝ} (hB : IsDiagIn B b lam)
    (v : E) (i : ι) : co b (B v) i = lam i * co b v i := by
  have hv : B v = ∑ j, (co b v j * lam j) • b j := by
    conv_lhs => rw [← sum_co_smul b v]
    rw [map_sum]
    apply Finset.sum_congr rfl
    intro j _
    rw [map_smul, hB j, smul_smul]
  unfold co at *
  rw [hv, inner_sum]
  have : ∀ j ∈ (Finset.univ : Finset ι),
      inner ℝ (b i) ((inner ℝ (b j) v * lam j) • b j) = if i = j then inner ℝ (b j) v * lam j else 0 := by
    intro j _
    rw [inner_smul_right, orthonormal_iff_ite.1 b.orthonormal i j]
    split <;> simp
  rw [Finset.sum_congr rfl this, Finset.sum_ite_eq]
  simp [mul_comm]

theorem co_smul (b : OrthonormalBasis ι ℝ E) (s : ℝ) (v : E) (i : ι) : co b (s • v) i = s * co b v i := by
  unfold co; rw [inner_smul_right]

/-- Parseval -/
theorem inner_eq_sum_co (b : OrthonormalBasis ι ℝ E) (v w : E) : inner ℝ v w = ∑ i, co b v i * co b w i := by
  rw [← b.sum_inner_mul_inner v w]
  apply Finset.sum_congr rfl
  intro i _
  unfold co
  rw [real_inner_comm]

theorem norm_sq_eq_sum_co (b : OrthonormalBasis ι ℝ E) (v : E) : ‖v‖ * ‖v‖ = ∑ i, co b v i * co b v i := by
  rw [← real_inner_self_eq_norm_mul_norm, inner_eq_sum_co b]

/-- squared norm of the component of `v` in the span of the `b i`, `i ∈ D` -/
noncomputable def head (b : OrthonormalBasis ι ℝ E) (D : Finset ι) (v : E) : ℝ := ∑ i ∈ D, co b v i * co b v i

/-- squared norm of the component of `v` orthogonal to it -/
noncomputable def tail (b : OrthonormalBasis ι ℝ E) (D : Finset ι) (v : E) : ℝ := ‖v‖ * ‖v‖ - head b D v

theorem tail_eq_sum (b : OrthonormalBasis ι ℝ E) (D : Finset ι) (v : E) :
    tail b D v = ∑ i ∈ Dᶜ, co b v i * co b v i := by
  unfold tail head
  rw [norm_sq_eq_sum_co b, ← Finset.sum_add_sum_compl D (fun i => co b v i * co b v i)]
  ring

theorem head_nonneg (b : OrthonormalBasis ι ℝ E) (D : Finset ι) (v : E) : 0 ≤ head b D v :=
  Finset.sum_nonneg (fun _ _ => mul_self_nonneg _)

theorem tail_nonneg (b : OrthonormalBasis ι ℝ E) (D : Finset ι) (v : E) : 0 ≤ tail b D v := by
  rw [tail_eq_sum]
  exact Finset.sum_nonneg (fun i _ => mul_self_nonneg _)

theorem head_smul (b : OrthonormalBasis ι ℝ E) (D : Finset ι) (s : ℝ) (v : E) :
    head b D (s • v) = s * s * head b D v := by
  unfold head
  rw [Finset.mul_sum]
  apply Finset.sum_congr rfl
  intro i _
  rw [co_smul]; ring

theorem tail_smul (b : OrthonormalBasis ι ℝ E) (D : Finset ι) (s : ℝ) (v : E) :
    tail b D (s • v) = s * s * tail b D v := by
  unfold tail
  rw [head_smul, norm_smul, Real.norm_eq_abs]
  have : |s| * |s| = s * s := abs_mul_abs_self s
  calc |s| * ‖v‖ * (|s| * ‖v‖) - s * s * head b D v
      = (|s| * |s|) * (‖v‖ * ‖v‖) - s * s * head b D v := by ring
    _ = s * s * (‖v‖ * ‖v‖ - head b D v) := by rw [this]; ring

theorem head_zero (b : OrthonormalBasis ι ℝ E) (D : Finset ι) : head b D (0 : E) = 0 := by
  unfold head co; simp

theorem head_singleton (b : OrthonormalBasis ι ℝ E) (i0 : ι) (v : E) :
    head b {i0} v = co b v i0 * co b v i0 := by
  unfold head; rw [Finset.sum_singleton]

section gap

variable {B : E →L[ℝ] E} {b : OrthonormalBasis ι ℝ E} {lam : ι → ℝ} {D : Finset ι} {lam1 r : ℝ}

/-- the dominance hypothesis: the eigenvalue `lam1 > 0` is attained exactly on `D` (the dominant eigenspace) and every
    other eigenvalue lies in `[0, r·lam1]` -/
structure Dominant (lam : ι → ℝ) (D : Finset ι) (lam1 r : ℝ) : Prop where
  pos : 0 < lam1
  r_nonneg : 0 ≤ r
  r_le_one : r ≤ 1
  top : ∀ i, i ∈ D → lam i = lam1
  others : ∀ i, i ∉ D → 0 ≤ lam i ∧ lam i ≤ r * lam1

theorem head_apply (hB : IsDiagIn B b lam) (hd : Dominant lam D lam1 r) (v : E) :
    head b D (B v) = lam1 * lam1 * head b D v := by
  unfold head
  rw [Finset.mul_sum]
  apply Finset.sum_congr rfl
  intro i hi
  rw [co_apply hB, hd.top i hi]; ring

theorem apply_ne_zero_of_head (hB : IsDiagIn B b lam) (hd : Dominant lam D lam1 r) (v : E) (hc : 0 < head b D v) :
    B v ≠ 0 := by
  intro h
  have h0 : head b D (B v) = 0 := by rw [h, head_zero]
  rw [head_apply hB hd] at h0
  have : 0 < lam1 * lam1 * head b D v := mul_pos (mul_pos hd.pos hd.pos) hc
  linarith

/-- one application of `B` contracts the tail relative to the dominant component by `r²` -/
theorem tail_apply_le (hB : IsDiagIn B b lam) (hd : Dominant lam D lam1 r) (v : E) :
    tail b D (B v) ≤ (r * lam1) * (r * lam1) * tail b D v := by
  rw [tail_eq_sum, tail_eq_sum, Finset.mul_sum]
  apply Finset.sum_le_sum
  intro i hi
  obtain ⟨h0, h1⟩ := hd.others i (Finset.mem_compl.1 hi)
  rw [co_apply hB]
  have hsq : lam i * lam i ≤ (r * lam1) * (r * lam1) := mul_self_le_mul_self h0 h1
  have hc : 0 ≤ co b v i * co b v i := mul_self_nonneg _
  nlinarith [mul_le_mul_of_nonneg_right hsq hc]

/-- the invariant is propagated by one (normalised) iteration -/
theorem inv_nxt (hB : IsDiagIn B b lam) (hd : Dominant lam D lam1 r) (v : E) (hc : 0 < head b D v) (q : ℝ)
    (hq : tail b D v ≤ q * head b D v) :
    0 < head b D (nxt B v) ∧ tail b D (nxt B v) ≤ (r * r * q) * head b D (nxt B v) := by
  have hBv := apply_ne_zero_of_head hB hd v hc
  have hn : 0 < ‖B v‖⁻¹ := inv_pos.2 (norm_pos_iff.2 hBv)
  unfold nxt
  rw [head_smul, tail_smul, head_apply hB hd]
  refine ⟨mul_pos (mul_pos hn hn) (mul_pos (mul_pos hd.pos hd.pos) hc), ?_⟩
  have h1 := tail_apply_le hB hd v
  have hs : 0 ≤ ‖B v‖⁻¹ * ‖B v‖⁻¹ := mul_self_nonneg _
  have hl : 0 ≤ (r * lam1) * (r * lam1) := mul_self_nonneg _
  calc ‖B v‖⁻¹ * ‖B v‖⁻¹ * tail b D (B v)
      ≤ ‖B v‖⁻¹ * ‖B v‖⁻¹ * ((r * lam1) * (r * lam1) * tail b D v) := mul_le_mul_of_nonneg_left h1 hs
    _ ≤ ‖B v‖⁻¹ * ‖B v‖⁻¹ * ((r * lam1) * (r * lam1) * (q * head b D v)) := by
        apply mul_le_mul_of_nonneg_left _ hs
        exact mul_le_mul_of_nonneg_left hq hl
    _ = r * r * q * (‖B v‖⁻¹ * ‖B v‖⁻¹ * (lam1 * lam1 * head b D v)) := by ring

/-- `⟨v, Bv⟩ = Σ lamᵢ cᵢ²` -/
theorem inner_apply_eq_sum (hB : IsDiagIn B b lam) (v : E) :
    inner ℝ v (B v) = ∑ i, lam i * (co b v i * co b v i) := by
  rw [inner_eq_sum_co b]
  apply Finset.sum_congr rfl
  intro i _
  rw [co_apply hB]; ring

/-- Rayleigh quotient bounds under the invariant -/
theorem rq_bounds (hB : IsDiagIn B b lam) (hd : Dominant lam D lam1 r) (v : E) (hc : 0 < head b D v) (q : ℝ)
    (hq : tail b D v ≤ q * head b D v) :
    rq B v ≤ lam1 ∧ lam1 - lam1 * q ≤ rq B v := by
  have hN : ‖v‖ * ‖v‖ = head b D v + tail b D v := by unfold tail; ring
  have ht := tail_nonneg b D v
  have hNpos : 0 < ‖v‖ * ‖v‖ := by rw [hN]; linarith
  -- numerator split
  have hnum : inner ℝ v (B v) =
      lam1 * head b D v + ∑ i ∈ Dᶜ, lam i * (co b v i * co b v i) := by
    rw [inner_apply_eq_sum hB, ← Finset.sum_add_sum_compl D (fun i => lam i * (co b v i * co b v i))]
    congr 1
    unfold head
    rw [Finset.mul_sum]
    apply Finset.sum_congr rfl
    intro i hi
    rw [hd.top i hi]
  have hrest_nonneg : 0 ≤ ∑ i ∈ Dᶜ, lam i * (co b v i * co b v i) :=
    Finset.sum_nonneg (fun i hi =>
      mul_nonneg (hd.others i (Finset.mem_compl.1 hi)).1 (mul_self_nonneg _))
  have hrest_le : ∑ i ∈ Dᶜ, lam i * (co b v i * co b v i) ≤ lam1 * tail b D v := by
    rw [tail_eq_sum, Finset.mul_sum]
    apply Finset.sum_le_sum
    intro i hi
    obtain ⟨_, h1⟩ := hd.others i (Finset.mem_compl.1 hi)
    have : lam i ≤ lam1 := le_trans h1 (by nlinarith [hd.pos, hd.r_le_one])
    exact mul_le_mul_of_nonneg_right this (mul_self_nonneg _)
  unfold rq
  constructor
  · rw [div_le_iff₀ hNpos, hnum, hN]
    nlinarith
  · rw [le_div_iff₀ hNpos, hnum, hN]
    have hl := hd.pos
    have h1 : lam1 * tail b D v ≤ lam1 * (q * head b D v) :=
      mul_le_mul_of_nonneg_left hq (le_of_lt hl)
    have hq0 : 0 ≤ q := by
      by_contra hneg
      push Not at hneg
      have : q * head b D v < 0 := mul_neg_of_neg_of_pos hneg hc
      linarith
    have h2 : 0 ≤ lam1 * q * tail b D v := mul_nonneg (mul_nonneg (le_of_lt hl) hq0) ht
    nlinarith

/-- **The run of the loop under a spectral gap**: after `k+1` iterations started from a vector whose tail is
    at most `q` times its squared dominant component, the estimate `m` satisfies
    `lam1 − lam1 · r^(2k) · q ≤ m ≤ lam1`. -/
theorem powerLoop_gap (hB : IsDiagIn B b lam) (hd : Dominant lam D lam1 r) :
    ∀ (k : Nat) (mu : Option ℝ) (v : E) (q : ℝ), 0 < head b D v →
      tail b D v ≤ q * head b D v →
      ∃ m, (powerLoop (opsOf B) (k + 1) mu v).1 = some m ∧ m ≤ lam1 ∧
        lam1 - lam1 * ((r * r) ^ k * q) ≤ m := by
  intro k
  induction k with
  | zero =>
    intro mu v q hc hq
    refine ⟨rq B v, ?_, ?_⟩
    · rw [powerLoop_succ_ne B 0 mu v (apply_ne_zero_of_head hB hd v hc)]; rfl
    · have := rq_bounds hB hd v hc q hq
      simpa using this
  | succ k ih =>
    intro mu v q hc hq
    obtain ⟨hc', hq'⟩ := inv_nxt hB hd v hc q hq
    obtain ⟨m, hm, h1, h2⟩ := ih (some (rq B v)) (nxt B v) (r * r * q) hc' hq'
    refine ⟨m, ?_, h1, ?_⟩
    · rw [powerLoop_succ_ne B (k + 1) mu v (apply_ne_zero_of_head hB hd v hc)]; exact hm
    · have : (r * r) ^ k * (r * r * q) = (r * r) ^ (k + 1) * q := by ring
      rw [this] at h2
      exact h2

/-- the smallest admissible `q` for a start `v`: `tail v / head v` -/
theorem tail_le_ratio (v : E) (hc : 0 < head b D v) :
    tail b D v ≤ (tail b D v / head b D v) * head b D v := by
  rw [div_mul_cancel₀]
  exact ne_of_gt hc

/-- normalising the start changes neither the hypothesis nor the ratio -/
theorem ratio_normalize (v0 : E) (hv0 : v0 ≠ 0) :
    head b D (‖v0‖⁻¹ • v0) = ‖v0‖⁻¹ * ‖v0‖⁻¹ * head b D v0 ∧
    tail b D (‖v0‖⁻¹ • v0) / head b D (‖v0‖⁻¹ • v0) = tail b D v0 / head b D v0 := by
  have hn : ‖v0‖⁻¹ ≠ 0 := inv_ne_zero (norm_ne_zero_iff.2 hv0)
  refine ⟨head_smul b D _ v0, ?_⟩
  rw [head_smul, tail_smul, mul_div_mul_left _ _ (mul_ne_zero hn hn)]

/-- `power_iteration` with budget `k+1` under a spectral gap: explicit geometric error bound. -/
theorem powerIteration_gap (hB : IsDiagIn B b lam) (hd : Dominant lam D lam1 r) (v0 : E) (hc0 : 0 < head b D v0)
    (k : Nat) (mu : ℝ) (v : E) (h : powerIteration (opsOf B) (k + 1) v0 = .ok (mu, v)) :
    mu ≤ lam1 ∧
      lam1 - lam1 * ((r * r) ^ k * (tail b D v0 / head b D v0)) ≤ mu := by
  have hv0 : v0 ≠ 0 := by
    rintro rfl
    rw [head_zero] at hc0
    exact lt_irrefl _ hc0
  obtain ⟨_, hp⟩ := powerIteration_ok B (k + 1) v0 mu v h
  obtain ⟨hco, hratio⟩ := ratio_normalize (b := b) (D := D) v0 hv0
  have hc : 0 < head b D (‖v0‖⁻¹ • v0) := by
    rw [hco]
    have : 0 < ‖v0‖⁻¹ := inv_pos.2 (norm_pos_iff.2 hv0)
    exact mul_pos (mul_pos this this) hc0
  obtain ⟨m, hm, h1, h2⟩ := powerLoop_gap hB hd k none (‖v0‖⁻¹ • v0) _ hc (tail_le_ratio _ hc)
  rw [hp] at hm
  simp only [Option.some.injEq] at hm
  subst hm
  rw [hratio] at h2
  exact ⟨h1, h2⟩

theorem norm_nxt (B : E →L[ℝ] E) (v : E) (h : B v ≠ 0) : ‖nxt B v‖ = 1 := by
  unfold nxt
  rw [norm_smul, norm_inv, norm_norm, inv_mul_cancel₀ (norm_ne_zero_iff.2 h)]

/-- the vector the loop returns: unit length, and its part outside the dominant eigenspace has shrunk by `r^(2(k+1))` -/
theorem powerLoop_gap_vec (hB : IsDiagIn B b lam) (hd : Dominant lam D lam1 r) :
    ∀ (k : Nat) (mu : Option ℝ) (v : E) (q : ℝ), 0 < head b D v → tail b D v ≤ q * head b D v →
      0 < head b D (powerLoop (opsOf B) (k + 1) mu v).2 ∧
      tail b D (powerLoop (opsOf B) (k + 1) mu v).2 ≤ (r * r) ^ (k + 1) * q * head b D (powerLoop (opsOf B) (k + 1) mu v).2 ∧
      ‖(powerLoop (opsOf B) (k + 1) mu v).2‖ = 1 := by
  intro k
  induction k with
  | zero =>
    intro mu v q hc hq
    have hBv := apply_ne_zero_of_head hB hd v hc
    rw [powerLoop_succ_ne B 0 mu v hBv]
    obtain ⟨h1, h2⟩ := inv_nxt hB hd v hc q hq
    refine ⟨h1, ?_, norm_nxt B v hBv⟩
    simpa [powerLoop] using h2
  | succ k ih =>
    intro mu v q hc hq
    have hBv := apply_ne_zero_of_head hB hd v hc
    rw [powerLoop_succ_ne B (k + 1) mu v hBv]
    obtain ⟨h1, h2⟩ := inv_nxt hB hd v hc q hq
    obtain ⟨a, b', c⟩ := ih (some (rq B v)) (nxt B v) (r * r * q) h1 h2
    refine ⟨a, ?_, c⟩
    have : (r * r) ^ (k + 1) * (r * r * q) = (r * r) ^ (k + 1 + 1) * q := by ring
    rw [this] at b'
    exact b'

/-- what `power_iteration` returns, vector included -/
theorem powerIteration_ok_vec (B : E →L[ℝ] E) (maxiter : Nat) (v0 : E) (mu : ℝ) (v : E)
    (h : powerIteration (opsOf B) maxiter v0 = .ok (mu, v)) :
    (powerLoop (opsOf B) maxiter none (‖v0‖⁻¹ • v0)).2 = v := by
  unfold powerIteration at h
  split at h
  · cases h
  · dsimp only at h
    split at h
    · rename_i m v' hp
      simp only [Except.ok.injEq, Prod.mk.injEq] at h
      have : (opsOf B).sdiv v0 ((opsOf B).norm v0) = ‖v0‖⁻¹ • v0 := rfl
      rw [← this, hp]
      exact h.2
    · cases h

/-- the returned vector under a spectral gap: unit length, squared distance from the dominant eigenspace `≤ r^(2(k+1))·C` -/
theorem powerIteration_gap_vec (hB : IsDiagIn B b lam) (hd : Dominant lam D lam1 r) (v0 : E) (hc0 : 0 < head b D v0)
    (k : Nat) (mu : ℝ) (v : E) (h : powerIteration (opsOf B) (k + 1) v0 = .ok (mu, v)) :
    ‖v‖ = 1 ∧ tail b D v ≤ (r * r) ^ (k + 1) * (tail b D v0 / head b D v0) := by
  have hv0 : v0 ≠ 0 := by
    rintro rfl
    rw [head_zero] at hc0
    exact lt_irrefl _ hc0
  have hvec := powerIteration_ok_vec B (k + 1) v0 mu v h
  obtain ⟨hco, hratio⟩ := ratio_normalize (b := b) (D := D) v0 hv0
  have hc : 0 < head b D (‖v0‖⁻¹ • v0) := by
    rw [hco]
    have : 0 < ‖v0‖⁻¹ := inv_pos.2 (norm_pos_iff.2 hv0)
    exact mul_pos (mul_pos this this) hc0
  obtain ⟨h1, h2, h3⟩ := powerLoop_gap_vec hB hd k none (‖v0‖⁻¹ • v0) _ hc (tail_le_ratio _ hc)
  rw [hvec, hratio] at h2
  rw [hvec] at h1 h3
  refine ⟨h3, le_trans h2 ?_⟩
  -- head v ≤ ‖v‖² = 1
  have hle : head b D v ≤ 1 := by
    have ht := tail_nonneg b D v
    have : head b D v + tail b D v = ‖v‖ * ‖v‖ := by unfold tail; ring
    rw [h3] at this
    linarith
  have hC : 0 ≤ (r * r) ^ (k + 1) * (tail b D v0 / head b D v0) :=
    mul_nonneg (pow_nonneg (mul_self_nonneg r) _) (div_nonneg (tail_nonneg b D v0) (le_of_lt hc0))
  calc (r * r) ^ (k + 1) * (tail b D v0 / head b D v0) * head b D v
      ≤ (r * r) ^ (k + 1) * (tail b D v0 / head b D v0) * 1 := mul_le_mul_of_nonneg_left hle hC
    _ = (r * r) ^ (k + 1) * (tail b D v0 / head b D v0) := mul_one _

/-- hence the estimates converge to the dominant eigenvalue when `r < 1` -/
theorem powerIteration_tendsto (hB : IsDiagIn B b lam) (hd : Dominant lam D lam1 r) (hr : r < 1) (v0 : E)
    (hc0 : 0 < head b D v0) (mu : ℕ → ℝ)
    (h : ∀ k, ∃ v, powerIteration (opsOf B) (k + 1) v0 = .ok (mu k, v)) :
    Filter.Tendsto mu Filter.atTop (nhds lam1) := by
  set C := tail b D v0 / head b D v0 with hC
  have hrr : r * r < 1 := by nlinarith [hd.r_nonneg]
  have hrr0 : 0 ≤ r * r := mul_self_nonneg r
  have hlow : Filter.Tendsto (fun k : ℕ => lam1 - lam1 * ((r * r) ^ k * C)) Filter.atTop (nhds lam1) := by
    have h0 : Filter.Tendsto (fun k : ℕ => (r * r) ^ k) Filter.atTop (nhds 0) :=
      tendsto_pow_atTop_nhds_zero_of_lt_one hrr0 hrr
    have h1 : Filter.Tendsto (fun k : ℕ => lam1 * ((r * r) ^ k * C)) Filter.atTop (nhds (lam1 * (0 * C))) :=
      (h0.mul_const C).const_mul lam1
    have h2 := (tendsto_const_nhds (x := lam1) (f := (Filter.atTop : Filter ℕ))).sub h1
    simpa using h2
  refine tendsto_of_tendsto_of_tendsto_of_le_of_le hlow tendsto_const_nhds ?_ ?_
  · intro k
    obtain ⟨v, hv⟩ := h k
    exact (powerIteration_gap hB hd v0 hc0 k (mu k) v hv).2
  · intro k
    obtain ⟨v, hv⟩ := h k
    exact (powerIteration_gap hB hd v0 hc0 k (mu k) v hv).1

end gap

/-! ### Gram operators: the dominant eigenvalue is `‖A‖²`, so `operator_norm` converges to `‖A‖₂` -/

section gramconv

variable {F : Type} [NormedAddCommGroup F] [InnerProductSpace ℝ F]
variable {B : E →L[ℝ] E} {A : E →L[ℝ] F} {b : OrthonormalBasis ι ℝ E} {lam : ι → ℝ} {D : Finset ι} {lam1 r : ℝ}

/-- eigenvalues of a Gram operator are `‖A bᵢ‖² ≥ 0` -/
theorem IsGram.eigen_eq (hG : IsGram B A) (hB : IsDiagIn B b lam) (i : ι) : lam i = ‖A (b i)‖ ^ 2 := by
  have h := hG.inner_self (b i)
  rw [hB i, inner_smul_right, b.inner_eq_one, mul_one] at h
  exact h

theorem IsGram.eigen_nonneg (hG : IsGram B A) (hB : IsDiagIn B b lam) (i : ι) : 0 ≤ lam i := by
  rw [hG.eigen_eq hB i]; positivity

/-- for a Gram operator the dominance hypothesis only needs the upper bounds -/
theorem IsGram.dominant (hG : IsGram B A) (hB : IsDiagIn B b lam) (hpos : 0 < lam1) (hr0 : 0 ≤ r) (hr1 : r ≤ 1)
    (htop : ∀ i, i ∈ D → lam i = lam1) (h : ∀ i, i ∉ D → lam i ≤ r * lam1) : Dominant lam D lam1 r :=
  ⟨hpos, hr0, hr1, htop, fun i hi => ⟨hG.eigen_nonneg hB i, h i hi⟩⟩

/-- the largest eigenvalue of the Gram operator is the squared induced 2-norm of `A` -/
theorem IsGram.opNorm_eq_sqrt (hG : IsGram B A) (hB : IsDiagIn B b lam) (i0 : ι) (hmax : ∀ i, lam i ≤ lam i0) :
    ‖A‖ = Real.sqrt (lam i0) := by
  have hl0 : 0 ≤ lam i0 := hG.eigen_nonneg hB i0
  apply le_antisymm
  · apply ContinuousLinearMap.opNorm_le_bound _ (Real.sqrt_nonneg _)
    intro v
    have h1 : ‖A v‖ ^ 2 ≤ lam i0 * (‖v‖ * ‖v‖) := by
      rw [← hG.inner_self v, inner_apply_eq_sum hB, norm_sq_eq_sum_co b, Finset.mul_sum]
      apply Finset.sum_le_sum
      intro i _
      exact mul_le_mul_of_nonneg_right (hmax i) (mul_self_nonneg _)
    have h2 : ‖A v‖ ^ 2 ≤ (Real.sqrt (lam i0) * ‖v‖) ^ 2 := by
      rw [mul_pow, Real.sq_sqrt hl0]; linarith [h1, sq ‖v‖]
    exact (abs_le_of_sq_le_sq' h2 (mul_nonneg (Real.sqrt_nonneg _) (norm_nonneg _))).2
  · have h1 : ‖A (b i0)‖ ≤ ‖A‖ := by
      have := A.le_opNorm (b i0)
      rwa [b.orthonormal.1 i0, mul_one] at this
    rw [hG.eigen_eq hB i0, Real.sqrt_sq (norm_nonneg _)]
    exact h1

/-- the smallest eigenvalue of the Gram operator bounds `‖A x‖` from below, with equality at its eigenvector -/
theorem IsGram.sigma_min (hG : IsGram B A) (hB : IsDiagIn B b lam) (i0 : ι) (hmin : ∀ i, lam i0 ≤ lam i) :
    (∀ x : E, Real.sqrt (lam i0) * ‖x‖ ≤ ‖A x‖) ∧ ‖A (b i0)‖ = Real.sqrt (lam i0) * ‖b i0‖ := by
  have hl0 : 0 ≤ lam i0 := hG.eigen_nonneg hB i0
  constructor
  · intro v
    have h1 : lam i0 * (‖v‖ * ‖v‖) ≤ ‖A v‖ ^ 2 := by
      rw [← hG.inner_self v, inner_apply_eq_sum hB, norm_sq_eq_sum_co b, Finset.mul_sum]
      apply Finset.sum_le_sum
      intro i _
      exact mul_le_mul_of_nonneg_right (hmin i) (mul_self_nonneg _)
    have h2 : (Real.sqrt (lam i0) * ‖v‖) ^ 2 ≤ ‖A v‖ ^ 2 := by
      rw [mul_pow, Real.sq_sqrt hl0]; linarith [h1, sq ‖v‖]
    exact (abs_le_of_sq_le_sq' h2 (norm_nonneg _)).2
  · rw [b.orthonormal.1 i0, mul_one, hG.eigen_eq hB i0, Real.sqrt_sq (norm_nonneg _)]

end gramconv

/-! ### the hypotheses are satisfiable for every spectrum: the operator `Σ lamᵢ ⟨bᵢ,·⟩ bᵢ` -/

section exist

/-- the operator that is diagonal in `b` with eigenvalues `lam` -/
noncomputable def diagOp (b : OrthonormalBasis ι ℝ E) (lam : ι → ℝ) : E →L[ℝ] E :=
  ∑ i, lam i • ((innerSL ℝ (b i)).smulRight (b i))

theorem diagOp_apply (b : OrthonormalBasis ι ℝ E) (lam : ι → ℝ) (v : E) :
    diagOp b lam v = ∑ i, (lam i * co b v i) • b i := by
  unfold diagOp co
  rw [_root_.sum_apply]
  apply Finset.sum_congr rfl
  intro i _
  simp [smul_smul]

theorem isDiagIn_diagOp (b : OrthonormalBasis ι ℝ E) (lam : ι → ℝ) : IsDiagIn (diagOp b lam) b lam := by
  intro j
  rw [diagOp_apply]
  have : ∀ i ∈ (Finset.univ : Finset ι), (lam i * co b (b j) i) • b i = if i = j then lam j • b j else 0 := by
    intro i _
    unfold co
    rw [orthonormal_iff_ite.1 b.orthonormal i j]
    split
    · rename_i h; subst h; simp
    · simp
  rw [Finset.sum_congr rfl this, Finset.sum_ite_eq']
  simp

/-- for a non-negative spectrum it is the Gram operator of `diagOp b (√lam)` -/
theorem isGram_diagOp (b : OrthonormalBasis ι ℝ E) (lam : ι → ℝ) (h : ∀ i, 0 ≤ lam i) :
    IsGram (diagOp b lam) (diagOp b (fun i => Real.sqrt (lam i))) := by
  intro x y
  rw [inner_eq_sum_co b, inner_eq_sum_co b]
  apply Finset.sum_congr rfl
  intro i _
  rw [co_apply (isDiagIn_diagOp b lam), co_apply (isDiagIn_diagOp b _), co_apply (isDiagIn_diagOp b _)]
  have := Real.mul_self_sqrt (h i)
  calc lam i * co b x i * co b y i = (Real.sqrt (lam i) * Real.sqrt (lam i)) * co b x i * co b y i := by rw [this]
    _ = Real.sqrt (lam i) * co b x i * (Real.sqrt (lam i) * co b y i) := by ring

end exist

theorem operatorNorm_ok {V : Type} (ops : VOps V ℝ) (m : Nat) (v0 : V) (c : ℝ)
    (h : operatorNorm ops m v0 = .ok c) : ∃ mu v, powerIteration ops m v0 = .ok (mu, v) ∧ c = Real.sqrt mu := by
  unfold operatorNorm at h
  split at h
  · rename_i mu v hp
    simp only [Except.ok.injEq] at h
    exact ⟨mu, v, hp, h.symm⟩
  · cases h

end Scico.Estim
